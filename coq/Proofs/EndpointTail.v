(* C01: every suggested point is a feasible, well-formed configuration.  Composition of the C09 decode theorems and the
   C10 sampling theorems over the endpoint tails of Model/EndpointTail.v. *)
From Coq Require Import List QArith ZArith Bool Arith Qround Qabs SetoidList Lia Lra Psatz.
From LV Require Import Model.Domain Model.Decode Proofs.Domain Proofs.Decode Model.EndpointTail.
From LV Require Model.Distinct Proofs.Distinct.
Import ListNotations.
Open Scope Q_scope.

Module DP := LV.Proofs.Distinct.

(* ------------------------------------------------------------------ what the optimisers / one-hot samplers deliver:
   a point of the relaxed box that satisfies the double-typed constraints (conclusion of C07 / C08) *)
Definition relaxed_ok (d : domain) (x : row) : Prop := in_box (one_hot_box d) x /\ sat_double_cons d x.

(* ------------------------------------------------------------------ small list facts *)
Lemma all_some_In {A} : forall (l : list (option A)) ps p, Decode.all_some l = Some ps -> In p ps -> In (Some p) l.
Proof.
  induction l as [|[a|] l IH]; intros ps p H Hp; simpl in H.
  - injection H as <-. destruct Hp.
  - destruct (Decode.all_some l) as [r|] eqn:E; [|discriminate]. simpl in H. injection H as <-.
    destruct Hp as [->|Hp]; [left; reflexivity|right; eapply IH; [reflexivity|exact Hp]].
  - discriminate.
Qed.
Lemma all_some_len {A} : forall (l : list (option A)) ps, Decode.all_some l = Some ps -> length ps = length l.
Proof.
  induction l as [|[a|] l IH]; intros ps H; simpl in H.
  - injection H as <-. reflexivity.
  - destruct (Decode.all_some l) as [r|] eqn:E; [|discriminate]. simpl in H. injection H as <-. simpl. f_equal. apply IH. reflexivity.
  - discriminate.
Qed.
Lemma in_combine_snd {A B} : forall (l : list A) (m : list B) a b, In (a, b) (combine l m) -> In b m.
Proof. intros l m a b H. eapply in_combine_r. exact H. Qed.

(* ------------------------------------------------------------------ A. the integer-feasible snapping keeps a relaxed
   point in the box, keeps every double-typed weighted sum, and leaves integers wherever an int constraint looks *)
Lemma nbr_false_prefix : forall (x1 : row) m x2 r,
  nbr_of (repeat false (length x1) ++ m) (x1 ++ x2) r -> exists r2, r = x1 ++ r2 /\ nbr_of m x2 r2.
Proof.
  induction x1 as [|v x1 IH]; intros m x2 r H; simpl in *.
  - exists r. split; [reflexivity|exact H].
  - destruct r as [|o r']; [contradiction|]. destruct H as [-> H]. destruct (IH _ _ _ H) as (r2 & -> & Hr). exists r2. split; [reflexivity|exact Hr].
Qed.
Lemma any_nonzero_In ws : any_nonzero ws = true -> exists w, In w ws /\ ~ hd 0 w == 0.
Proof.
  induction ws as [|w ws IH]; simpl; [discriminate|]. rewrite orb_true_iff, negb_true_iff. intros [H|H].
  - exists w. split; [left; reflexivity|]. intros E. apply Qeq_bool_iff in E. congruence.
  - destruct (IH H) as (w' & A & B). exists w'. split; [right; exact A|exact B].
Qed.
Lemma any_nonzero_false ws w : any_nonzero ws = false -> In w ws -> hd 0 w == 0.
Proof.
  induction ws as [|w0 ws IH]; simpl; [tauto|]. rewrite orb_false_iff, negb_false_iff. intros [H1 H2] [->|Hw].
  - apply Qeq_bool_iff. exact H1.
  - apply IH; assumption.
Qed.
Lemma weights_tl t ws c cs : (forall w, In w ws -> forall2b (weight_ok t) w (c :: cs) = true) ->
  forall w', In w' (map (@tl Q) ws) -> forall2b (weight_ok t) w' cs = true.
Proof.
  intros H w' Hw'. apply in_map_iff in Hw' as (w & <- & Hw). specialize (H w Hw). destruct w as [|a w']; [discriminate|].
  simpl in H. apply andb_true_iff in H. tauto.
Qed.
Lemma weight_int_only a c : weight_ok CInt a c = true -> ~ a == 0 -> exists lo hi, c = Int lo hi.
Proof.
  unfold weight_ok. rewrite orb_true_iff. intros [H|H] Hn; [apply Qeq_bool_iff in H; contradiction|].
  destruct c; try discriminate. eauto.
Qed.
Lemma weight_dbl_zero a c : weight_ok CDouble a c = true -> (exists lo hi, c = Double lo hi) \/ a == 0.
Proof.
  unfold weight_ok. rewrite orb_true_iff. intros [H|H]; [right; apply Qeq_bool_iff; exact H|]. destruct c; try discriminate. left; eauto.
Qed.

Lemma cmask_nbr : forall cs ws x r,
  (forall w, In w ws -> forall2b (weight_ok CInt) w cs = true) ->
  nbr_of (cmask cs ws) x r -> in_box (flat_map box_of cs) x ->
  in_box (flat_map box_of cs) r /\
  (forall w, forall2b (weight_ok CDouble) w cs = true -> dot (oh_weights cs w) r == dot (oh_weights cs w) x) /\
  (forall w, In w ws -> unmoved CInt cs w r).
Proof.
  induction cs as [|c cs IH]; intros ws x r Hws Hn Hb.
  - simpl in *. inversion Hb; subst. split; [constructor|]. split; [intros w _; destruct w; reflexivity|intros w _; destruct w; exact I].
  - assert (Hws' := weights_tl CInt ws c cs Hws).
    destruct c as [lo hi|lo hi|es|es].
    + (* Double *)
      cbn [flat_map box_of app] in Hb. inversion Hb as [|bh v bt t Hv Ht]; subst.
      cbn [cmask] in Hn. cbn [nbr_of] in Hn.
      assert (Hm : any_nonzero ws = false).
      { destruct (any_nonzero ws) eqn:E; [|reflexivity]. destruct (any_nonzero_In ws E) as (w & Hw & Hnz).
        specialize (Hws w Hw). destruct w as [|a w']; [discriminate|]. simpl in Hws, Hnz. apply andb_true_iff in Hws as [Ha _].
        destruct (weight_int_only _ _ Ha Hnz) as (? & ? & ?). discriminate. }
      rewrite Hm in Hn. destruct r as [|o r']; [contradiction|]. destruct Hn as [-> Hn].
      destruct (IH _ _ _ Hws' Hn Ht) as (A & B & C).
      split; [cbn [flat_map box_of app]; constructor; assumption|]. split.
      * intros w Hw. destruct w as [|a w']; [discriminate|]. simpl in Hw. apply andb_true_iff in Hw as [_ Hw].
        cbn [oh_weights dot]. rewrite (B w' Hw). reflexivity.
      * intros w Hw. destruct w as [|a w']; [exact I|]. cbn [unmoved]. simpl. apply C. apply in_map_iff. exists (a :: w'). auto.
    + (* Int *)
      cbn [flat_map box_of app] in Hb. inversion Hb as [|bh v bt t Hv Ht]; subst. simpl in Hv.
      cbn [cmask] in Hn.
      assert (Hfl : inject_Z lo <= inject_Z (Qfloor v) /\ inject_Z (Qfloor v) <= inject_Z hi).
      { destruct Hv as [H1 H2]. pose proof (Qfloor_resp_le _ _ H1) as F1. pose proof (Qfloor_resp_le _ _ H2) as F2.
        rewrite Qfloor_Z in F1, F2. rewrite <- !Zle_Qle. lia. }
      assert (Hce : inject_Z lo <= inject_Z (Qceiling v) /\ inject_Z (Qceiling v) <= inject_Z hi).
      { destruct Hv as [H1 H2]. pose proof (Qceiling_resp_le _ _ H1) as F1. pose proof (Qceiling_resp_le _ _ H2) as F2.
        rewrite Qceiling_Z in F1, F2. rewrite <- !Zle_Qle. lia. }
      destruct (any_nonzero ws) eqn:Hm; cbn [nbr_of] in Hn; (destruct r as [|o r']; [contradiction|]); destruct Hn as [Ho Hn];
        destruct (IH _ _ _ Hws' Hn Ht) as (A & B & C).
      * split; [cbn [flat_map box_of app]; constructor; [simpl; destruct Ho as [->| ->]; assumption|assumption]|]. split.
        -- intros w Hw. destruct w as [|a w']; [discriminate|]. simpl in Hw. apply andb_true_iff in Hw as [Ha Hw].
           cbn [oh_weights dot]. rewrite (B w' Hw). destruct (weight_dbl_zero _ _ Ha) as [(? & ? & ?)|Hz]; [discriminate|]. rewrite Hz. ring.
        -- intros w Hw. destruct w as [|a w']; [exact I|]. cbn [unmoved]. split.
           ++ right. simpl. destruct Ho as [->| ->]; eexists; reflexivity.
           ++ simpl. apply C. apply in_map_iff. exists (a :: w'). auto.
      * subst o. split; [cbn [flat_map box_of app]; constructor; [exact Hv|assumption]|]. split.
        -- intros w Hw. destruct w as [|a w']; [discriminate|]. simpl in Hw. apply andb_true_iff in Hw as [Ha Hw].
           cbn [oh_weights dot]. rewrite (B w' Hw). reflexivity.
        -- intros w Hw. destruct w as [|a w']; [exact I|]. cbn [unmoved]. split.
           ++ left. apply (any_nonzero_false ws (a :: w') Hm Hw).
           ++ simpl. apply C. apply in_map_iff. exists (a :: w'). auto.
    + (* Cat *)
      cbn [flat_map box_of] in Hb. apply Forall2_app_inv_l in Hb. destruct Hb as (x1 & x2 & H1 & H2 & ->).
      pose proof (Forall2_len _ _ _ H1) as Hl. rewrite repeat_length in Hl.
      cbn [cmask] in Hn. rewrite Hl in Hn. destruct (nbr_false_prefix _ _ _ _ Hn) as (r2 & -> & Hn2).
      destruct (IH _ _ _ Hws' Hn2 H2) as (A & B & C).
      split; [cbn [flat_map box_of]; apply Forall2_app; assumption|]. split.
      * intros w Hw. destruct w as [|a w']; [discriminate|]. simpl in Hw. apply andb_true_iff in Hw as [_ Hw].
        cbn [oh_weights]. rewrite !dot_repeat0 by (rewrite app_length; lia).
        rewrite Hl, !skipn_app, !skipn_all, !Nat.sub_diag. simpl. apply B. exact Hw.
      * intros w Hw. destruct w as [|a w']; [exact I|]. cbn [unmoved]. rewrite Hl, skipn_app, skipn_all, Nat.sub_diag. simpl.
        apply C. apply in_map_iff. exists (a :: w'). auto.
    + (* Grid *)
      cbn [flat_map box_of app] in Hb. inversion Hb as [|bh v bt t Hv Ht]; subst.
      cbn [cmask] in Hn.
      assert (Hm : any_nonzero ws = false).
      { destruct (any_nonzero ws) eqn:E; [|reflexivity]. destruct (any_nonzero_In ws E) as (w & Hw & Hnz).
        specialize (Hws w Hw). destruct w as [|a w']; [discriminate|]. simpl in Hws, Hnz. apply andb_true_iff in Hws as [Ha _].
        destruct (weight_int_only _ _ Ha Hnz) as (? & ? & ?). discriminate. }
      rewrite Hm in Hn. cbn [nbr_of] in Hn. destruct r as [|o r']; [contradiction|]. destruct Hn as [-> Hn].
      destruct (IH _ _ _ Hws' Hn Ht) as (A & B & C).
      split; [cbn [flat_map box_of app]; constructor; assumption|]. split.
      * intros w Hw. destruct w as [|a w']; [discriminate|]. simpl in Hw. apply andb_true_iff in Hw as [_ Hw].
        cbn [oh_weights dot]. rewrite (B w' Hw). reflexivity.
      * intros w Hw. destruct w as [|a w']; [exact I|]. cbn [unmoved]. simpl. apply C. apply in_map_iff. exists (a :: w'). auto.
Qed.

(* ------------------------------------------------------------------ B. the whole decode (map_one_hot_points_to_categorical):
   every returned configuration is admissible *)
Definition row_good (d : domain) (r : row) : Prop :=
  in_box (one_hot_box d) r /\
  (forall k, In k (cons d) -> rhs k <= dot (oh_weights (comps d) (weights k)) r) /\
  (forall k, In k (cons d) -> unmoved (cty k) (comps d) (weights k) r).

Lemma int_cons_In d k : In k (int_cons d) <-> In k (cons d) /\ cty k = CInt.
Proof. unfold int_cons. rewrite filter_In. destruct (cty k); split; intros [A B]; try discriminate; auto. Qed.
Lemma dbl_cons_In d k : In k (dbl_cons d) <-> In k (cons d) /\ cty k = CDouble.
Proof. unfold dbl_cons. rewrite filter_In. destruct (cty k); split; intros [A B]; try discriminate; auto. Qed.

Lemma snapped_row_good d xs r : wf_domain d = true -> Forall (relaxed_ok d) xs -> snap_ok d xs r -> row_good d r.
Proof.
  intros Hwf Hxs [Hsat (x & Hx & Hn)]. rewrite Forall_forall in Hxs. destruct (Hxs x Hx) as [Hbx Hdx].
  unfold int_mask in Hn.
  assert (Hws : forall w, In w (map weights (int_cons d)) -> forall2b (weight_ok CInt) w (comps d) = true).
  { intros w Hw. apply in_map_iff in Hw as (k & <- & Hk). apply int_cons_In in Hk as [Hk Ht]. rewrite <- Ht. apply wf_domain_cons; assumption. }
  destruct (cmask_nbr (comps d) _ x r Hws Hn Hbx) as (A & B & C).
  split; [exact A|]. split; intros k Hk; destruct (cty k) eqn:Ht.
  - rewrite B by (rewrite <- Ht; apply wf_domain_cons; assumption).
    unfold sat_double_cons in Hdx. rewrite Forall_forall in Hdx. apply Hdx. apply dbl_cons_In. auto.
  - unfold sat_cons in Hsat. rewrite forallb_forall in Hsat. apply Qle_bool_iff. apply Hsat. apply int_cons_In. auto.
  - apply unmoved_double. rewrite <- Ht. apply wf_domain_cons; assumption.
  - apply C. apply in_map. apply int_cons_In. auto.
Qed.
Lemma relaxed_row_good d x : wf_domain d = true -> is_int_constrained d = false -> relaxed_ok d x -> row_good d x.
Proof.
  intros Hwf Hic [Hb Hd]. split; [exact Hb|]. split; intros k Hk; destruct (not_int_constrained d Hic k Hk) as [Ht Hin].
  - unfold sat_double_cons in Hd. rewrite Forall_forall in Hd. apply Hd. exact Hin.
  - rewrite Ht. apply unmoved_double. rewrite <- Ht. apply wf_domain_cons; assumption.
Qed.
Lemma row_good_decode {O} (choose : O -> row -> list Z -> option Z) d os r q : choose_member choose -> wf_domain d = true ->
  row_good d r -> decode_gen choose (comps d) os r = Some q -> Admissible d q.
Proof. intros Hch Hwf (A & B & C) H. exact (proj1 (decode_row_admissible_gen choose d os r q Hch Hwf A B C H)). Qed.

Lemma decode_gen_nocat {O} (choose : O -> row -> list Z -> option Z) : forall cs os x,
  has_cat cs = false -> has_grid cs = false -> in_box (flat_map box_of cs) x ->
  decode_gen choose cs os x = Some (round_int_row cs x).
Proof.
  induction cs as [|c cs IH]; intros os x Hc Hg Hb.
  - simpl in Hb. inversion Hb; subst. reflexivity.
  - unfold has_cat, has_grid in *. simpl in Hc, Hg. apply orb_false_iff in Hc as [Hc1 Hc2]. apply orb_false_iff in Hg as [Hg1 Hg2].
    destruct c as [lo hi|lo hi|es|es]; try discriminate;
      cbn [flat_map box_of app] in Hb; inversion Hb as [|bh v bt t Hv Ht]; subst; cbn [decode_gen round_int_row];
      rewrite (IH os t Hc2 Hg2 Ht); reflexivity.
Qed.

Lemma snap_fill_len : forall o p, (length (snap_fill o p) <= length o)%nat.
Proof. induction o as [|[f|] o IH]; intros p; simpl; [lia|specialize (IH p); lia|]. destruct p; [specialize (IH []); lia|specialize (IH p); simpl; lia]. Qed.
Lemma snap_pass_len d n : forall xs rnds perms padding o p, snap_pass d n rnds perms xs padding = (o, p) -> length o = length xs.
Proof.
  induction xs as [|x r IH]; intros rnds perms padding o p H; cbn [snap_pass] in H.
  - injection H as <- <-. reflexivity.
  - destruct (permute (hd [] perms) (feasible_neighbors d (hd [] rnds) x)) as [|f rest].
    + destruct (snap_pass d n (tl rnds) (tl perms) r padding) as [o' p'] eqn:E. injection H as <- <-. simpl. f_equal. eapply IH; exact E.
    + match type of H with context [snap_pass d n (tl rnds) (tl perms) r ?pp] => destruct (snap_pass d n (tl rnds) (tl perms) r pp) as [o' p'] eqn:E end.
      injection H as <- <-. simpl. f_equal. eapply IH; exact E.
Qed.
Lemma snap_feasible_len d rnds perms xs : (length (snap_feasible d rnds perms xs) <= length xs)%nat.
Proof.
  unfold snap_feasible. destruct (snap_pass d (length xs) rnds perms xs []) as [o p] eqn:E.
  rewrite <- (snap_pass_len _ _ _ _ _ _ _ _ E). apply snap_fill_len.
Qed.

Theorem decode_batch_admissible {O} (choose : O -> row -> list Z -> option Z) d rnds perms oss xs ps :
  choose_member choose -> wf_domain d = true -> Forall (relaxed_ok d) xs ->
  decode_batch_gen choose d rnds perms oss xs = Some ps -> Forall (Admissible d) ps.
Proof.
  intros Hch Hwf Hxs H. unfold decode_batch_gen in H.
  set (xs' := if is_int_constrained d then snap_feasible d rnds perms xs else xs) in *.
  assert (Hg : Forall (row_good d) xs').
  { unfold xs'. destruct (is_int_constrained d) eqn:Hic.
    - eapply Forall_impl; [|apply int_feasible_snap_sound]. intros r Hr. eapply snapped_row_good; eassumption.
    - eapply Forall_impl; [|exact Hxs]. intros r Hr. apply relaxed_row_good; assumption. }
  rewrite Forall_forall in Hg. apply Forall_forall. intros p Hp.
  destruct (negb (has_cat (comps d) || has_grid (comps d))) eqn:Hcg.
  - injection H as <-. unfold round_ints in Hp. apply in_map_iff in Hp as (r & <- & Hr).
    apply negb_true_iff, orb_false_iff in Hcg as [Hc Hgr]. destruct (Hg r Hr) as (A & B & C).
    eapply (row_good_decode choose d [] r); [exact Hch|exact Hwf|exact (conj A (conj B C))|]. apply decode_gen_nocat; assumption.
  - pose proof (all_some_In _ _ _ H Hp) as Hi. apply in_map_iff in Hi as ([os r] & Hf & Hc). simpl in Hf.
    apply in_combine_r in Hc. eapply row_good_decode; [exact Hch|exact Hwf|apply Hg; exact Hc|exact Hf].
Qed.

(* the decode returns one configuration per relaxed row unless the domain is int-constrained (rows without a feasible
   neighbour are deleted); never more *)
Theorem decode_batch_length {O} (choose : O -> row -> list Z -> option Z) d rnds perms oss xs ps :
  (length xs <= length oss)%nat -> decode_batch_gen choose d rnds perms oss xs = Some ps ->
  (length ps <= length xs)%nat /\ (is_int_constrained d = false -> length ps = length xs).
Proof.
  intros Hl H. unfold decode_batch_gen in H.
  set (xs' := if is_int_constrained d then snap_feasible d rnds perms xs else xs) in *.
  assert (Hx : (length xs' <= length xs)%nat /\ (is_int_constrained d = false -> length xs' = length xs)).
  { unfold xs'. destruct (is_int_constrained d); [split; [apply snap_feasible_len|discriminate]|split; [lia|reflexivity]]. }
  assert (Hp : length ps = length xs').
  { destruct (negb (has_cat (comps d) || has_grid (comps d))).
    - injection H as <-. unfold round_ints. apply map_length.
    - rewrite (all_some_len _ _ H), map_length, combine_length. lia. }
  rewrite Hp. exact Hx.
Qed.

(* ------------------------------------------------------------------ C. the discrete neighbour search of the GP endpoint
   never leaves the relaxed box and never moves a double coordinate *)
Definition keeps (cs : list component) (x y : row) : Prop :=
  in_box (flat_map box_of cs) y /\
  forall w, forall2b (weight_ok CDouble) w cs = true -> dot (oh_weights cs w) y == dot (oh_weights cs w) x.

Lemma keeps_refl cs x : in_box (flat_map box_of cs) x -> keeps cs x x.
Proof. intros H. split; [exact H|reflexivity]. Qed.
Lemma keeps_trans cs x y z : keeps cs x y -> keeps cs y z -> keeps cs x z.
Proof. intros [A B] [C D]. split; [exact C|]. intros w Hw. rewrite (D w Hw). apply B. exact Hw. Qed.
Lemma keeps_nil : keeps [] [] [].
Proof. split; [constructor|]. intros w _. destruct w; reflexivity. Qed.
(* one scalar component in front *)
Lemma keeps_scalar c cs v o t t' : is_cat c = false -> keeps cs t t' ->
  (match box_of c with [lh] => fst lh <= o /\ o <= snd lh | _ => False end) ->
  ((exists lo hi, c = Double lo hi) -> o = v) -> keeps (c :: cs) (v :: t) (o :: t').
Proof.
  intros Hc [A B] Ho Hd. split.
  - destruct c; try discriminate; cbn [flat_map box_of app] in *; constructor; assumption.
  - intros w Hw. destruct w as [|a w']; [discriminate|]. simpl in Hw. apply andb_true_iff in Hw as [Ha Hw].
    destruct c as [lo hi|lo hi|es|es]; try discriminate; cbn [oh_weights dot]; rewrite (B w' Hw).
    + rewrite (Hd (ex_intro _ lo (ex_intro _ hi eq_refl))). reflexivity.
    + destruct (weight_dbl_zero _ _ Ha) as [(? & ? & ?)|Hz]; [discriminate|]. rewrite Hz. ring.
    + ring.
Qed.
(* one categorical block in front *)
Lemma keeps_cat es cs (x1 b x2 y2 : row) : length x1 = length es -> Forall2 (fun lh v => fst lh <= v /\ v <= snd lh) (repeat (0, 1) (length es)) b ->
  keeps cs x2 y2 -> keeps (Cat es :: cs) (x1 ++ x2) (b ++ y2).
Proof.
  intros Hl Hb [A B]. pose proof (Forall2_len _ _ _ Hb) as Hlb. rewrite repeat_length in Hlb. split.
  - cbn [flat_map box_of]. apply Forall2_app; assumption.
  - intros w Hw. destruct w as [|a w']; [discriminate|]. simpl in Hw. apply andb_true_iff in Hw as [_ Hw].
    cbn [oh_weights]. rewrite !dot_repeat0 by (rewrite app_length; lia).
    rewrite <- Hl at 2. rewrite Hlb at 1. rewrite !skipn_app, !skipn_all, !Nat.sub_diag. simpl. apply B. exact Hw.
Qed.
Lemma box_split_cat es cs x : in_box (flat_map box_of (Cat es :: cs)) x ->
  exists x1 x2, x = x1 ++ x2 /\ length x1 = length es /\ in_box (repeat (0, 1) (length es)) x1 /\ in_box (flat_map box_of cs) x2.
Proof.
  cbn [flat_map box_of]. intros Hb. apply Forall2_app_inv_l in Hb. destruct Hb as (x1 & x2 & H1 & H2 & ->).
  pose proof (Forall2_len _ _ _ H1) as Hl. rewrite repeat_length in Hl. exists x1, x2. auto.
Qed.
Lemma unit_vec_box n k : Forall2 (fun (lh : Q * Q) v => fst lh <= v /\ v <= snd lh) (repeat (0, 1) n) (unit_vec n k).
Proof.
  unfold unit_vec. generalize 0%nat. induction n as [|n IH]; intros s; simpl; constructor.
  - simpl. destruct (Nat.eqb s k); split; lra.
  - apply IH.
Qed.

Lemma fold_minb_le : forall l a, fold_left Qminb l a <= a /\ forall e, In e l -> fold_left Qminb l a <= e.
Proof.
  induction l as [|b l IH]; intros a; simpl; [split; [lra|tauto]|].
  destruct (IH (Qminb a b)) as [H1 H2]. assert (Hm : Qminb a b <= a /\ Qminb a b <= b).
  { unfold Qminb. destruct (Qle_bool a b) eqn:E; [apply Qle_bool_iff in E; split; lra|].
    assert (b <= a) by (destruct (Qlt_le_dec a b) as [L|L]; [apply Qlt_le_weak, Qle_bool_iff in L; congruence|exact L]). split; lra. }
  split; [lra|]. intros e [<-|He]; [lra|apply H2; exact He].
Qed.
Lemma fold_maxb_ge : forall l a, a <= fold_left Qmaxb l a /\ forall e, In e l -> e <= fold_left Qmaxb l a.
Proof.
  induction l as [|b l IH]; intros a; simpl; [split; [lra|tauto]|].
  destruct (IH (Qmaxb a b)) as [H1 H2]. assert (Hm : a <= Qmaxb a b /\ b <= Qmaxb a b).
  { unfold Qmaxb. destruct (Qle_bool a b) eqn:E; [apply Qle_bool_iff in E; split; lra|].
    assert (b <= a) by (destruct (Qlt_le_dec a b) as [L|L]; [apply Qlt_le_weak, Qle_bool_iff in L; congruence|exact L]). split; lra. }
  split; [lra|]. intros e [<-|He]; [lra|apply H2; exact He].
Qed.
Lemma grid_range es e : In e es -> list_min es <= e /\ e <= list_max es.
Proof.
  destruct es as [|a l]; [intros []|]. unfold list_min, list_max. destruct (fold_minb_le l a) as [A B]. destruct (fold_maxb_ge l a) as [C D].
  intros [<-|He]; [split; assumption|split; [apply B|apply D]; exact He].
Qed.

Lemma round_int_keeps : forall cs x, in_box (flat_map box_of cs) x -> keeps cs x (round_int_row cs x).
Proof.
  induction cs as [|c cs IH]; intros x Hb.
  - simpl in Hb. inversion Hb; subst. exact keeps_nil.
  - destruct c as [lo hi|lo hi|es|es].
    + cbn [flat_map box_of app] in Hb. inversion Hb as [|bh v bt t Hv Ht]; subst. cbn [round_int_row].
      apply keeps_scalar; [reflexivity|apply IH; exact Ht|exact Hv|reflexivity].
    + cbn [flat_map box_of app] in Hb. inversion Hb as [|bh v bt t Hv Ht]; subst. cbn [round_int_row]. simpl in Hv.
      apply keeps_scalar; [reflexivity|apply IH; exact Ht| |intros (? & ? & ?); discriminate].
      simpl. destruct (round_in_range v lo hi (proj1 Hv) (proj2 Hv)). rewrite <- !Zle_Qle. split; assumption.
    + destruct (box_split_cat _ _ _ Hb) as (x1 & x2 & -> & Hl & H1 & H2). cbn [round_int_row].
      rewrite <- Hl, firstn_app, firstn_all, Nat.sub_diag, skipn_app, skipn_all, Nat.sub_diag. simpl. rewrite app_nil_r.
      apply keeps_cat; [exact Hl|exact H1|apply IH; exact H2].
    + cbn [flat_map box_of app] in Hb. inversion Hb as [|bh v bt t Hv Ht]; subst. cbn [round_int_row].
      apply keeps_scalar; [reflexivity|apply IH; exact Ht|exact Hv|intros (? & ? & ?); discriminate].
Qed.
Lemma round_grid_keeps : forall cs x, Forall (fun c => wf_component c = true) cs -> in_box (flat_map box_of cs) x -> keeps cs x (round_grid_row cs x).
Proof.
  induction cs as [|c cs IH]; intros x Hwf Hb.
  - simpl in Hb. inversion Hb; subst. exact keeps_nil.
  - inversion Hwf as [|? ? Hc Hcs]; subst. destruct c as [lo hi|lo hi|es|es].
    + cbn [flat_map box_of app] in Hb. inversion Hb as [|bh v bt t Hv Ht]; subst. cbn [round_grid_row].
      apply keeps_scalar; [reflexivity|apply IH; assumption|exact Hv|reflexivity].
    + cbn [flat_map box_of app] in Hb. inversion Hb as [|bh v bt t Hv Ht]; subst. cbn [round_grid_row].
      apply keeps_scalar; [reflexivity|apply IH; assumption|exact Hv|intros (? & ? & ?); discriminate].
    + destruct (box_split_cat _ _ _ Hb) as (x1 & x2 & -> & Hl & H1 & H2). cbn [round_grid_row].
      rewrite <- Hl, firstn_app, firstn_all, Nat.sub_diag, skipn_app, skipn_all, Nat.sub_diag. simpl. rewrite app_nil_r.
      apply keeps_cat; [exact Hl|exact H1|apply IH; assumption].
    + cbn [flat_map box_of app] in Hb. inversion Hb as [|bh v bt t Hv Ht]; subst. cbn [round_grid_row].
      apply keeps_scalar; [reflexivity|apply IH; assumption| |intros (? & ? & ?); discriminate].
      simpl. apply grid_range. apply nearest_In. apply wf_grid_nonempty. exact Hc.
Qed.
Lemma round_cat_keeps : forall cs x, in_box (flat_map box_of cs) x -> keeps cs x (round_cat_row cs x).
Proof.
  induction cs as [|c cs IH]; intros x Hb.
  - simpl in Hb. inversion Hb; subst. exact keeps_nil.
  - destruct c as [lo hi|lo hi|es|es].
    + cbn [flat_map box_of app] in Hb. inversion Hb as [|bh v bt t Hv Ht]; subst. cbn [round_cat_row].
      apply keeps_scalar; [reflexivity|apply IH; exact Ht|exact Hv|reflexivity].
    + cbn [flat_map box_of app] in Hb. inversion Hb as [|bh v bt t Hv Ht]; subst. cbn [round_cat_row].
      apply keeps_scalar; [reflexivity|apply IH; exact Ht|exact Hv|intros (? & ? & ?); discriminate].
    + destruct (box_split_cat _ _ _ Hb) as (x1 & x2 & -> & Hl & H1 & H2). cbn [round_cat_row].
      rewrite <- Hl at 3. rewrite skipn_app, skipn_all, Nat.sub_diag. simpl.
      apply keeps_cat; [exact Hl|apply unit_vec_box|apply IH; exact H2].
    + cbn [flat_map box_of app] in Hb. inversion Hb as [|bh v bt t Hv Ht]; subst. cbn [round_cat_row].
      apply keeps_scalar; [reflexivity|apply IH; exact Ht|exact Hv|intros (? & ? & ?); discriminate].
Qed.

Lemma imask_nbr_keeps : forall cs x r, nbr_of (imask cs) x r -> in_box (flat_map box_of cs) x -> keeps cs x r.
Proof.
  induction cs as [|c cs IH]; intros x r Hn Hb.
  - simpl in Hb. inversion Hb; subst. simpl in Hn. subst r. exact keeps_nil.
  - destruct c as [lo hi|lo hi|es|es].
    + cbn [flat_map box_of app] in Hb. inversion Hb as [|bh v bt t Hv Ht]; subst. cbn [imask is_int nbr_of] in Hn.
      destruct r as [|o r']; [contradiction|]. destruct Hn as [-> Hn].
      apply keeps_scalar; [reflexivity|apply IH; assumption|exact Hv|reflexivity].
    + cbn [flat_map box_of app] in Hb. inversion Hb as [|bh v bt t Hv Ht]; subst. cbn [imask is_int nbr_of] in Hn. simpl in Hv.
      destruct r as [|o r']; [contradiction|]. destruct Hn as [Ho Hn].
      apply keeps_scalar; [reflexivity|apply IH; assumption| |intros (? & ? & ?); discriminate].
      simpl. destruct Hv as [H1 H2].
      pose proof (Qfloor_resp_le _ _ H1) as F1. pose proof (Qfloor_resp_le _ _ H2) as F2. rewrite Qfloor_Z in F1, F2.
      pose proof (Qceiling_resp_le _ _ H1) as G1. pose proof (Qceiling_resp_le _ _ H2) as G2. rewrite Qceiling_Z in G1, G2.
      destruct Ho as [->| ->]; rewrite <- !Zle_Qle; lia.
    + destruct (box_split_cat _ _ _ Hb) as (x1 & x2 & -> & Hl & H1 & H2). cbn [imask] in Hn. rewrite <- Hl in Hn.
      destruct (nbr_false_prefix _ _ _ _ Hn) as (r2 & -> & Hn2).
      apply keeps_cat; [exact Hl|exact H1|apply IH; assumption].
    + cbn [flat_map box_of app] in Hb. inversion Hb as [|bh v bt t Hv Ht]; subst. cbn [imask is_int nbr_of] in Hn.
      destruct r as [|o r']; [contradiction|]. destruct Hn as [-> Hn].
      apply keeps_scalar; [reflexivity|apply IH; assumption|exact Hv|intros (? & ? & ?); discriminate].
Qed.
Lemma cat_lattice_keeps : forall cs x r, In r (cat_lattice cs x) -> in_box (flat_map box_of cs) x -> keeps cs x r.
Proof.
  induction cs as [|c cs IH]; intros x r Hr Hb.
  - simpl in Hb. inversion Hb; subst. simpl in Hr. destruct Hr as [<-|[]]. exact keeps_nil.
  - destruct c as [lo hi|lo hi|es|es].
    + cbn [flat_map box_of app] in Hb. inversion Hb as [|bh v bt t Hv Ht]; subst. cbn [cat_lattice] in Hr.
      apply in_map_iff in Hr as (r' & <- & Hr). apply keeps_scalar; [reflexivity|apply IH; assumption|exact Hv|reflexivity].
    + cbn [flat_map box_of app] in Hb. inversion Hb as [|bh v bt t Hv Ht]; subst. cbn [cat_lattice] in Hr.
      apply in_map_iff in Hr as (r' & <- & Hr). apply keeps_scalar; [reflexivity|apply IH; assumption|exact Hv|intros (? & ? & ?); discriminate].
    + destruct (box_split_cat _ _ _ Hb) as (x1 & x2 & -> & Hl & H1 & H2). cbn [cat_lattice] in Hr.
      apply in_flat_map in Hr as (i & _ & Hr). apply in_map_iff in Hr as (r' & <- & Hr).
      rewrite <- Hl in Hr. rewrite skipn_app, skipn_all, Nat.sub_diag in Hr. simpl in Hr.
      apply keeps_cat; [exact Hl|apply unit_vec_box|apply IH; assumption].
    + cbn [flat_map box_of app] in Hb. inversion Hb as [|bh v bt t Hv Ht]; subst. cbn [cat_lattice] in Hr.
      apply in_map_iff in Hr as (r' & <- & Hr). apply keeps_scalar; [reflexivity|apply IH; assumption|exact Hv|intros (? & ? & ?); discriminate].
Qed.

Lemma neighbours_keep o d x r : wf_domain d = true -> in_box (one_hot_box d) x -> In r (neighbours o d x) -> keeps (comps d) x r.
Proof.
  intros Hwf Hb Hr. pose proof (wf_domain_comps d Hwf) as Hc. unfold one_hot_box in Hb. unfold neighbours in Hr. destruct o.
  - destruct Hr as [<-|[]]. apply keeps_refl. exact Hb.
  - apply in_map_iff in Hr as (r1 & <- & Hr). apply in_map_iff in Hr as (r0 & <- & Hr).
    unfold neighboring_int_points in Hr. apply lattice_spec in Hr.
    pose proof (imask_nbr_keeps _ _ _ Hr Hb) as K0. pose proof (round_cat_keeps _ _ (proj1 K0)) as K1.
    pose proof (round_grid_keeps _ _ Hc (proj1 K1)) as K2. eapply keeps_trans; [eapply keeps_trans|]; eassumption.
  - apply in_map_iff in Hr as (r1 & <- & Hr). apply in_map_iff in Hr as (r0 & <- & Hr).
    pose proof (cat_lattice_keeps _ _ _ Hr Hb) as K0. pose proof (round_int_keeps _ _ (proj1 K0)) as K1.
    pose proof (round_grid_keeps _ _ Hc (proj1 K1)) as K2. eapply keeps_trans; [eapply keeps_trans|]; eassumption.
  - apply in_map_iff in Hr as (r1 & <- & Hr). unfold neighboring_cat_points in Hr. apply in_flat_map in Hr as (r0 & Hr0 & Hr).
    unfold neighboring_int_points in Hr0. apply lattice_spec in Hr0.
    pose proof (imask_nbr_keeps _ _ _ Hr0 Hb) as K0. pose proof (cat_lattice_keeps _ _ _ Hr (proj1 K0)) as K1.
    pose proof (round_grid_keeps _ _ Hc (proj1 K1)) as K2. eapply keeps_trans; [eapply keeps_trans|]; eassumption.
Qed.
Lemma keeps_relaxed d x y : wf_domain d = true -> relaxed_ok d x -> keeps (comps d) x y -> relaxed_ok d y.
Proof.
  intros Hwf [Hb Hs] [A B]. split; [exact A|]. unfold sat_double_cons in *. rewrite Forall_forall in *. intros k Hk.
  pose proof (Hs k Hk) as H. apply dbl_cons_In in Hk as [Hk Ht]. rewrite B; [exact H|]. rewrite <- Ht. apply wf_domain_cons; assumption.
Qed.
(* find_best_one_hot_neighbor_by_af, for every acquisition function and every option *)
Theorem find_best_relaxed_ok o d af xs : wf_domain d = true -> Forall (relaxed_ok d) xs -> Forall (relaxed_ok d) (find_best o d af xs).
Proof.
  intros Hwf Hxs.
  assert (G : Forall (relaxed_ok d) (map (fun x => best_neighbour af (neighbours o d x) x) xs)).
  { rewrite Forall_forall in *. intros y Hy. apply in_map_iff in Hy as (x & <- & Hx). specialize (Hxs x Hx).
    unfold best_neighbour. destruct (nth_in_or_default (argmax (map af (neighbours o d x))) (neighbours o d x) x) as [Hi | Hd]; [|rewrite Hd; exact Hxs].
    eapply keeps_relaxed; [exact Hwf|exact Hxs|]. eapply neighbours_keep; [exact Hwf|exact (proj1 Hxs)|exact Hi]. }
  unfold find_best. destruct o; [exact Hxs|exact G|exact G|exact G].
Qed.
Lemma find_best_length o d af xs : length (find_best o d af xs) = length xs.
Proof. unfold find_best. destruct o; try reflexivity; apply map_length. Qed.

(* ------------------------------------------------------------------ D. sampling in the categorical domain, the distinct
   sampler and replace_duplicate_points *)
Lemma in_comp_component c x : DP.in_comp (to_comp c) x <-> in_component c x.
Proof.
  destruct c as [lo hi|lo hi|es|es]; simpl; try reflexivity.
  rewrite InA_alt. split; intros (e & A & B); exists e; tauto.
Qed.
Lemma In_domain_comps d p : DP.In_domain (ddom d) p <-> Forall2 in_component (comps d) p.
Proof.
  unfold DP.In_domain, ddom. generalize (comps d) as cs. intros cs. revert p.
  induction cs as [|c cs IH]; intros p; simpl; split; intros H; inversion H; subst; constructor;
    try (apply in_comp_component; assumption); apply IH; assumption.
Qed.
Lemma unconstrained_cons d : is_constrained d = false -> cons d = [].
Proof. unfold is_constrained. rewrite negb_false_iff, Nat.eqb_eq. destruct (cons d); [reflexivity|discriminate]. Qed.
Lemma unconstrained_adm d p : is_constrained d = false -> DP.In_domain (ddom d) p -> Admissible d p.
Proof. intros Hc H. split; [apply In_domain_comps; exact H|]. rewrite (unconstrained_cons d Hc). constructor. Qed.

(* contract of generate_quasi_random_points_in_domain(n): constrained domain: n rows of the one-hot sampler, each in the
   relaxed box and satisfying the double constraints (C08), one category oracle per row; unconstrained: one column of n draws
   per component, each within the range of the request made for it (C10) *)
Definition qorc_ok (d : domain) (n : Z) (q : qorc) : Prop :=
  if is_constrained d
  then Forall (relaxed_ok d) (q_rows q) /\ length (q_rows q) = Z.to_nat n /\ (length (q_rows q) <= length (o_cats (q_dec q)))%nat
  else DP.cols_ok (Z.to_nat n) (DS.quasi_requests (ddom d)) (q_cols q).

Lemma quasi_points_ok d n q ps : wf_domain d = true -> qorc_ok d n q -> quasi_points d n q = Some ps ->
  Forall (Admissible d) ps /\ (length ps <= Z.to_nat n)%nat /\ (is_int_constrained d = false -> length ps = Z.to_nat n).
Proof.
  intros Hwf Hq H. unfold quasi_points, qorc_ok in *. destruct (is_constrained d) eqn:Hc.
  - destruct Hq as (A & B & C). unfold decode_b, decode_batch_with in H. split.
    + eapply decode_batch_admissible; [apply choose_given_member|exact Hwf|exact A|exact H].
    + rewrite <- B. eapply decode_batch_length; eassumption.
  - injection H as <-. split.
    + eapply Forall_impl; [|apply DP.quasi_random_in_domain; exact Hq]. intros p Hp. apply unconstrained_adm; assumption.
    + unfold DS.quasi_random. rewrite DP.rows_of_length. split; [lia|reflexivity].
Qed.

Lemma elements_nonempty c : wf_component c = true -> DS.is_discrete1 (to_comp c) = true -> DS.elements (to_comp c) <> [].
Proof.
  destruct c as [lo hi|lo hi|es|es]; simpl; intros Hw Hd; try discriminate.
  - apply Z.ltb_lt in Hw. intros E. apply (f_equal (@length Q)) in E. rewrite map_length in E.
    pose proof (DP.zrange_length lo hi) as L. unfold DS.zlen in L. simpl in E. lia.
  - destruct es; [discriminate|simpl; discriminate].
  - destruct es; [discriminate|discriminate].
Qed.
Lemma index_point_any : forall els, Forall (fun e : list Q => e <> []) els -> forall i,
  Forall2 (fun e x => In x e) els (DS.index_to_point els i).
Proof.
  induction 1 as [|e els He Hels IH]; intros i; cbn [DS.index_to_point]; constructor; [|apply IH].
  apply nth_In. assert (Hb : (0 < DS.zlen e)%Z) by (unfold DS.zlen; destruct e; [congruence|simpl; lia]).
  pose proof (Z.mod_pos_bound i (DS.zlen e) Hb). unfold DS.zlen in *. lia.
Qed.
Lemma discrete_els_nonempty d : wf_domain d = true -> is_discrete d = true -> Forall (fun e : list Q => e <> []) (map DS.elements (ddom d)).
Proof.
  intros Hwf Hd. pose proof (wf_domain_comps d Hwf) as Hc. unfold is_discrete, DS.is_discrete, ddom in *.
  rewrite forallb_forall in Hd. rewrite Forall_forall in *. intros e He. apply in_map_iff in He as (c' & <- & Hc').
  pose proof Hc' as Hc''. apply in_map_iff in Hc' as (c & <- & Hin). apply elements_nonempty; [apply Hc; exact Hin|apply Hd; exact Hc''].
Qed.
Lemma index_point_adm d i : wf_domain d = true -> is_discrete d = true -> is_constrained d = false ->
  Admissible d (DS.index_to_point (map DS.elements (ddom d)) i).
Proof.
  intros Hwf Hd Hc. apply unconstrained_adm; [exact Hc|]. apply DP.in_domain_b_iff.
  apply (DP.elements_inside (ddom d) Hd). apply index_point_any. apply discrete_els_nonempty; assumption.
Qed.

(* contract of the random draws made by generate_distinct_random_points(k, history) *)
Definition fill_contract (d : domain) (k : Z) (hist : list point) (orc : list Z) (q : qorc) : Prop :=
  if negb (is_discrete d) || is_constrained d then qorc_ok d k q
  else DP.cols_ok (Z.to_nat k) (DS.quasi_requests (ddom d)) (q_cols q) /\
       DP.oracle_ok (DS.distinct_plan (ddom d) k hist DS.default_dup_prob) orc.

Lemma enumerate_len els excl t n orc : (0 <= n)%Z ->
  DP.oracle_ok (DS.enumerate els excl t n) orc ->
  match DS.enumerate els excl t n with
  | DS.PChoice _ _ => DS.zlen orc = n
  | DS.PAll avail _ _ => (DS.zlen (avail ++ orc) = n)%Z
  | DS.PIndexError => True
  | _ => False
  end.
Proof.
  intros Hn. unfold DS.enumerate. destruct (DS.all_some _) as [ex|]; [|exact (fun _ => I)].
  destruct (n <? DS.zlen _)%Z eqn:E; simpl.
  - tauto.
  - intros [A _]. apply Z.ltb_ge in E. rewrite DP.zlen_app, A. lia.
Qed.

Theorem distinct_pts_ok d k hist orc q fill : wf_domain d = true -> (0 <= k)%Z -> fill_contract d k hist orc q ->
  distinct_pts d k hist orc q = Some fill ->
  Forall (Admissible d) fill /\ (DS.zlen fill <= k)%Z /\
  (is_discrete d = false -> is_int_constrained d = false -> DS.zlen fill = k).
Proof.
  intros Hwf Hk Hc H. unfold distinct_pts, fill_contract in *.
  destruct (k =? 0)%Z eqn:Ek.
  { injection H as <-. apply Z.eqb_eq in Ek. subst k. split; [constructor|]. split; [unfold DS.zlen; simpl; lia|reflexivity]. }
  destruct (negb (is_discrete d) || is_constrained d) eqn:Eb.
  - destruct (quasi_points_ok d k q fill Hwf Hc H) as (A & B & C). split; [exact A|]. unfold DS.zlen. split; [lia|].
    intros _ Hi. rewrite (C Hi). lia.
  - apply orb_false_iff in Eb as [Ed Ec]. apply negb_false_iff in Ed. destruct Hc as [Hcols Horc].
    assert (Hadm : forall l, Forall (Admissible d) (map (DS.index_to_point (map DS.elements (ddom d))) l)).
    { intros l. apply Forall_forall. intros p Hp. apply in_map_iff in Hp as (i & <- & _). apply index_point_adm; assumption. }
    split; [|split; [|intros Hd; congruence]].
    + unfold DS.distinct_points in H. destruct (DS.distinct_plan (ddom d) k hist DS.default_dup_prob) eqn:Ep; try discriminate;
        injection H as <-; try apply Hadm; [constructor|].
      apply DP.plan_random_n in Ep. subst n.
      eapply Forall_impl; [|apply DP.quasi_random_in_domain; exact Hcols]. intros p Hp. apply unconstrained_adm; assumption.
    + unfold DS.distinct_points in H. unfold DS.distinct_plan in *. rewrite Ek in *. unfold is_discrete in Ed. rewrite Ed in *. simpl in *.
      destruct (DS.analyze _ k _ _) eqn:Ea.
      * injection H as <-. unfold DS.quasi_random, DS.zlen. rewrite DP.rows_of_length. lia.
      * destruct (total - DS.zlen _ <=? 0)%Z eqn:El; [injection H as <-; unfold DS.zlen; simpl; lia|].
        apply Z.leb_gt in El.
        assert (Hlt : (total - DS.zlen (DS.dedup_rows (DS.remove_outside (ddom d) hist)) <= k)%Z).
        { unfold DS.analyze in Ea. destruct (DS.total_from 1 _) as [t|]; [|discriminate].
          destruct (t <? k)%Z eqn:E1; [injection Ea as <-; apply Z.ltb_lt in E1; pose proof (DP.zlen_nonneg (DS.dedup_rows (DS.remove_outside (ddom d) hist))); lia|].
          destruct (t <? k + _)%Z eqn:E2; [injection Ea as <-; apply Z.ltb_lt in E2; lia|].
          destruct (Qle_bool _ _); discriminate. }
        pose proof (enumerate_len _ _ total _ orc (Z.lt_le_incl _ _ El) Horc) as L.
        destruct (DS.enumerate _ _ total _); try contradiction; try discriminate; injection H as <-; unfold DS.zlen in *; rewrite map_length; lia.
      * injection H as <-. unfold DS.quasi_random, DS.zlen. rewrite DP.rows_of_length. lia.
      * pose proof (enumerate_len _ _ total _ orc Hk Horc) as L.
        destruct (DS.enumerate _ _ total _); try contradiction; try discriminate; injection H as <-; unfold DS.zlen in *; rewrite map_length; lia.
Qed.

Lemma select_incl {A} : forall (m : list bool) (l : list A) x, In x (DS.select m l) -> In x l.
Proof.
  induction m as [|b m IH]; intros [|y l] x H; simpl in H; try contradiction.
  destruct b; [destruct H as [->|H]; [left; reflexivity|right; apply IH; exact H]|right; apply IH; exact H].
Qed.
Lemma identify_unique_sub dd test cmp tol u : DS.identify_unique dd test cmp tol = Some u ->
  incl u test /\ (length u <= length test)%nat.
Proof.
  unfold DS.identify_unique. destruct (DS.all_some (map (DS.enum_point dd) test)); [|discriminate].
  destruct cmp as [c|]; [destruct (DS.all_some (map (DS.enum_point dd) c)); [|discriminate]|]; intros H; injection H as <-;
    (split; [intros x; apply select_incl|apply DP.select_length_le]).
Qed.
Lemma kept_of_sub d pts hist tol u2 : kept_of d pts hist tol = Some u2 -> incl u2 pts /\ (length u2 <= length pts)%nat.
Proof.
  unfold kept_of. destruct (DS.identify_unique (ddom d) pts None tol) as [u1|] eqn:E1; [|discriminate]. intros E2.
  destruct (identify_unique_sub _ _ _ _ _ E1) as [A B]. destruct (identify_unique_sub _ _ _ _ _ E2) as [C D].
  split; [intros x Hx; apply A, C, Hx|unfold point in *; lia].
Qed.

(* replace_duplicate_points: every returned point is one of the proposed points or a fresh in-domain point; the batch size
   is restored unless the domain is fully discrete or int-constrained, and never exceeded *)
Theorem replace_dups_ok d pts hist tol orc q out : wf_domain d = true -> Forall (Admissible d) pts ->
  (forall u2, kept_of d pts hist tol = Some u2 -> fill_contract d (DS.zlen pts - DS.zlen u2) hist orc q) ->
  replace_dups d pts hist tol orc q = Some out ->
  Forall (Admissible d) out /\ (length out <= length pts)%nat /\
  (is_discrete d = false -> is_int_constrained d = false -> length out = length pts).
Proof.
  intros Hwf Hp Hc H. unfold replace_dups in H. destruct (kept_of d pts hist tol) as [u2|] eqn:Ek; [|discriminate].
  destruct (kept_of_sub _ _ _ _ _ Ek) as [Hi Hl].
  destruct (distinct_pts d (DS.zlen pts - DS.zlen u2) hist orc q) as [fill|] eqn:Ef; [|discriminate]. injection H as <-.
  assert (Hk : (0 <= DS.zlen pts - DS.zlen u2)%Z) by (unfold DS.zlen; lia).
  destruct (distinct_pts_ok d _ hist orc q fill Hwf Hk (Hc u2 eq_refl) Ef) as (A & B & C).
  split; [apply Forall_app; split; [|exact A]|].
  - rewrite Forall_forall in *. intros x Hx. apply Hp, Hi, Hx.
  - rewrite app_length. unfold DS.zlen in *. split; [lia|]. intros H1 H2. specialize (C H1 H2). lia.
Qed.

(* ------------------------------------------------------------------ E. the task dimension *)
Lemma dot_app : forall a x b y, length a = length x -> dot (a ++ b) (x ++ y) == dot a x + dot b y.
Proof.
  induction a as [|u a IH]; intros [|v x] b y Hl; simpl in Hl; try discriminate; simpl; [ring|]. rewrite IH by lia. ring.
Qed.
Lemma with_task_admissible d opts q : wf_domain d = true -> Admissible (with_task d opts) q ->
  Admissible d (removelast q) /\ exists c, q = removelast q ++ [c] /\ last q 0 = c.
Proof.
  intros Hwf [Hc Hk]. cbn [with_task comps cons] in *. apply Forall2_app_inv_l in Hc. destruct Hc as (q1 & q2 & H1 & H2 & ->).
  inversion H2 as [|? c ? t _ Ht]; subst. inversion Ht; subst. rewrite removelast_last, last_last.
  split; [|exists c; auto]. split; [exact H1|]. rewrite Forall_forall in *. intros k Hin.
  specialize (Hk _ (in_map _ _ _ Hin)). cbn [rhs weights] in Hk.
  assert (Hl : length (weights k) = length q1).
  { unfold wf_domain in Hwf. apply andb_true_iff in Hwf as [_ Hw]. rewrite forallb_forall in Hw. specialize (Hw k Hin).
    unfold wf_constraint in Hw. apply andb_true_iff in Hw as [Hw _]. apply Nat.eqb_eq in Hw. rewrite Hw. eapply Forall2_len; exact H1. }
  rewrite dot_app in Hk by exact Hl. simpl in Hk. lra.
Qed.
Lemma forall2b_app_r {A B} (f : A -> B -> bool) : forall l m a b, forall2b f l m = true -> f a b = true -> forall2b f (l ++ [a]) (m ++ [b]) = true.
Proof.
  induction l as [|x l IH]; intros [|y m] a b H Hab; simpl in *; try discriminate; [rewrite Hab; reflexivity|].
  apply andb_true_iff in H as [H1 H2]. rewrite H1. simpl. apply IH; assumption.
Qed.
Lemma with_task_wf d opts : wf_domain d = true -> list_min opts < list_max opts -> wf_domain (with_task d opts) = true.
Proof.
  intros Hwf Hlt. unfold wf_domain in *. apply andb_true_iff in Hwf as [H1 H2]. apply andb_true_iff. cbn [with_task comps cons]. split.
  - rewrite forallb_app, H1. simpl. rewrite andb_true_r. apply Qltb_lt. exact Hlt.
  - rewrite forallb_forall in *. intros k' Hk'. apply in_map_iff in Hk' as (k & <- & Hk). specialize (H2 k Hk).
    unfold wf_constraint in *. cbn [weights cty]. apply andb_true_iff in H2 as [A B]. apply andb_true_iff. split.
    + rewrite !app_length. simpl. apply Nat.eqb_eq in A. apply Nat.eqb_eq. lia.
    + apply forall2b_app_r; [exact B|]. unfold weight_ok. simpl. reflexivity.
Qed.
Lemma with_task_int_constrained d opts : is_int_constrained (with_task d opts) = is_int_constrained d.
Proof.
  unfold is_int_constrained, int_cons. cbn [with_task cons]. f_equal. f_equal.
  induction (cons d) as [|k l IH]; simpl; [reflexivity|]. destruct (cty k); simpl; rewrite IH; reflexivity.
Qed.
Lemma with_task_not_discrete d opts : is_discrete (with_task d opts) = false.
Proof.
  unfold is_discrete, DS.is_discrete, ddom. cbn [with_task comps]. rewrite map_app, forallb_app. simpl. apply andb_false_r.
Qed.
(* snap_continuous_tasks_to_discrete_options: one option per point *)
Lemma snap_tasks_members costs opts : opts <> [] -> length (snap_tasks costs opts) = length costs /\ Forall (fun c => In c opts) (snap_tasks costs opts).
Proof.
  intros Hne. unfold snap_tasks. rewrite map_length. split; [reflexivity|]. apply Forall_forall. intros c Hc.
  apply in_map_iff in Hc as (x & <- & _). apply nearest_In. exact Hne.
Qed.

(* ------------------------------------------------------------------ F. softmax: exp(-c_i) / sum_j exp(-c_j) with the
   exponentials given as positive numbers *)
Lemma qsum_pos : forall l, l <> [] -> Forall (fun e => 0 < e) l -> 0 < qsum_plain l.
Proof.
  induction l as [|a l IH]; intros Hne H; [congruence|]. inversion H; subst. simpl. destruct l as [|b l'].
  - simpl. lra.
  - assert (0 < qsum_plain (b :: l')) by (apply IH; [discriminate|assumption]). lra.
Qed.
Lemma qsum_map_div l s : ~ s == 0 -> qsum_plain (map (fun e => e / s) l) == qsum_plain l / s.
Proof. intros Hs. induction l as [|a l IH]; simpl; [field; exact Hs|]. rewrite IH. field. exact Hs. Qed.
Theorem softmax_spec exps : exps <> [] -> Forall (fun e => 0 < e) exps ->
  length (softmax exps) = length exps /\
  Forall (fun p => 0 < p) (softmax exps) /\
  qsum_plain (softmax exps) == 1 /\
  (forall i j, (i < length exps)%nat -> (j < length exps)%nat ->
     nth i (softmax exps) 0 == nth i exps 0 / qsum_plain exps /\
     (nth j exps 0 <= nth i exps 0 -> nth j (softmax exps) 0 <= nth i (softmax exps) 0)).
Proof.
  intros Hne Hp. pose proof (qsum_pos exps Hne Hp) as Hs. unfold softmax. split; [apply map_length|]. split; [|split].
  - rewrite Forall_forall in *. intros p Hi. apply in_map_iff in Hi as (e & <- & He). specialize (Hp e He).
    unfold Qdiv. apply Qmult_lt_0_compat; [exact Hp|apply Qinv_lt_0_compat; exact Hs].
  - rewrite qsum_map_div by lra. field. lra.
  - intros i j Hi Hj.
    assert (E : forall n, (n < length exps)%nat -> nth n (map (fun e => e / qsum_plain exps) exps) 0 = nth n exps 0 / qsum_plain exps).
    { intros n Hn. rewrite (nth_indep _ 0 (0 / qsum_plain exps)) by (rewrite map_length; exact Hn).
      exact (map_nth (fun e => e / qsum_plain exps) exps 0 n). }
    rewrite (E i Hi), (E j Hj). split; [reflexivity|]. intros Hle. unfold Qdiv.
    apply Qmult_le_compat_r; [exact Hle|apply Qlt_le_weak, Qinv_lt_0_compat; exact Hs].
Qed.

(* ------------------------------------------------------------------ G. the specification of a response *)
Definition count_ok (d : domain) (n m : nat) : Prop :=
  m = n \/ ((m < n)%nat /\ (is_discrete d = true \/ is_int_constrained d = true)).
Definition costs_ok (opts : list Q) (npts : nat) (cs : option (list Q)) : Prop :=
  match opts, cs with
  | [], None => True
  | _ :: _, Some l => length l = npts /\ Forall (fun c => InA Qeq c opts) l
  | _, _ => False
  end.
Definition resp_ok (d : domain) (opts : list Q) (n : nat) (r : response) : Prop :=
  Forall (Admissible d) (r_points r) /\ count_ok d n (length (r_points r)) /\ costs_ok opts (length (r_points r)) (r_costs r).

Lemma count_okb_spec d n m : count_okb d n m = true <-> count_ok d n m.
Proof.
  unfold count_okb, count_ok. rewrite orb_true_iff, andb_true_iff, orb_true_iff, Nat.eqb_eq, Nat.ltb_lt. tauto.
Qed.
Lemma memQb_spec x l : memQb x l = true <-> InA Qeq x l.
Proof.
  unfold memQb. rewrite existsb_exists, InA_alt. split; intros (y & A & B); exists y.
  - split; [apply Qeq_bool_iff; exact B|exact A].
  - split; [exact B|apply Qeq_bool_iff; exact A].
Qed.
Lemma costs_okb_spec opts n cs : costs_okb opts n cs = true <-> costs_ok opts n cs.
Proof.
  unfold costs_okb, costs_ok. destruct opts, cs; try tauto; try (split; [discriminate|tauto]).
  rewrite andb_true_iff, Nat.eqb_eq, forallb_forall, Forall_forall. split; intros [A B]; (split; [exact A|]); intros c Hc; apply memQb_spec, B, Hc.
Qed.
Theorem resp_okb_spec d opts n r : resp_okb d opts n r = true <-> resp_ok d opts n r.
Proof.
  unfold resp_okb, resp_ok. rewrite !andb_true_iff, forallb_forall, Forall_forall, count_okb_spec, costs_okb_spec.
  split.
  - intros [[A B] C]. split; [|tauto]. intros p Hp. apply admissibleb_spec, A, Hp.
  - intros [A [B C]]. split; [split; [|exact B]|exact C]. intros p Hp. apply admissibleb_spec, A, Hp.
Qed.
Lemma count_from d n m : (m <= n)%nat -> (is_discrete d = false -> is_int_constrained d = false -> m = n) -> count_ok d n m.
Proof.
  intros Hle H. unfold count_ok. destruct (Nat.eq_dec m n) as [E|E]; [left; exact E|right]. split; [lia|].
  destruct (is_discrete d); [left; reflexivity|]. destruct (is_int_constrained d); [right; reflexivity|]. exfalso. apply E, H; reflexivity.
Qed.
Lemma In_InAQ (x : Q) l : In x l -> InA Qeq x l.
Proof. intros H. apply InA_alt. exists x. split; [reflexivity|exact H]. Qed.

(* ------------------------------------------------------------------ H. the endpoint tails *)
(* convert_from_one_hot followed by replace_duplicate_points, on any domain *)
Lemma conv_replace_ok D parallel af dec xs hist orc q pts out :
  wf_domain D = true -> Forall (relaxed_ok D) xs -> (length xs <= length (o_cats dec))%nat ->
  convert_from_one_hot D parallel af dec xs = Some pts ->
  (forall u2, kept_of D pts hist uniq_tol = Some u2 -> fill_contract D (DS.zlen pts - DS.zlen u2) hist orc q) ->
  replace_dups D pts hist uniq_tol orc q = Some out ->
  Forall (Admissible D) out /\ (length out <= length xs)%nat /\
  (is_discrete D = false -> is_int_constrained D = false -> length out = length xs).
Proof.
  intros Hwf Hxs Hl Hc Hf Hr. unfold convert_from_one_hot, decode_b, decode_batch_with in Hc.
  pose proof (find_best_relaxed_ok (conv_choice D parallel) D af xs Hwf Hxs) as Hb.
  pose proof (decode_batch_admissible choose_given D _ _ _ _ _ choose_given_member Hwf Hb Hc) as Ha.
  assert (Hl' : (length (find_best (conv_choice D parallel) D af xs) <= length (o_cats dec))%nat) by (rewrite find_best_length; exact Hl).
  destruct (decode_batch_length choose_given D _ _ _ _ _ Hl' Hc) as [L1 L2]. rewrite find_best_length in L1, L2.
  destruct (replace_dups_ok D pts hist uniq_tol orc q out Hwf Ha Hf Hr) as (A & B & C).
  split; [exact A|]. unfold point in *. split; [lia|]. intros H1 H2. rewrite (C H1 H2). apply L2. exact H2.
Qed.

(* GP next points, single task *)
Theorem tail_gp_admissible d parallel af xs hist hist_oh o r :
  wf_domain d = true -> Forall (relaxed_ok d) xs -> (length xs <= length (o_cats (g_dec o)))%nat ->
  (forall pts u2, convert_from_one_hot d parallel af (g_dec o) xs = Some pts -> kept_of d pts hist uniq_tol = Some u2 ->
     fill_contract d (DS.zlen pts - DS.zlen u2) hist (g_choice o) (g_q o)) ->
  gp_tail d [] parallel af xs hist hist_oh o = Some r -> resp_ok d [] (length xs) r.
Proof.
  intros Hwf Hxs Hl Hf H. cbn [gp_tail] in H. unfold obind in H.
  destruct (convert_from_one_hot d parallel af (g_dec o) xs) as [pts|] eqn:Ec; [|discriminate].
  destruct (replace_dups d pts hist uniq_tol (g_choice o) (g_q o)) as [out|] eqn:Er; [|discriminate]. injection H as <-.
  destruct (conv_replace_ok d parallel af (g_dec o) xs hist _ _ pts out Hwf Hxs Hl Ec (fun u2 => Hf pts u2 eq_refl) Er) as (A & B & C).
  split; [exact A|]. split; [apply count_from; assumption|exact I].
Qed.

(* GP next points, multitask: the relaxed points carry the task column; costs are snapped to the options *)
Theorem tail_gp_multitask_admissible d opts af xs hist hist_oh o r :
  wf_domain d = true -> opts <> [] -> list_min opts < list_max opts ->
  Forall (relaxed_ok (with_task d opts)) xs -> (length xs <= length (o_cats (g_dec o)))%nat ->
  (forall pts aug u2, convert_from_one_hot (with_task d opts) false af (g_dec o) xs = Some pts ->
     decode_b (with_task d opts) (g_hdec o) hist_oh = Some aug -> kept_of (with_task d opts) pts aug uniq_tol = Some u2 ->
     fill_contract (with_task d opts) (DS.zlen pts - DS.zlen u2) aug (g_choice o) (g_q o)) ->
  gp_tail d opts false af xs hist hist_oh o = Some r -> resp_ok d opts (length xs) r.
Proof.
  intros Hwf Hne Hlt Hxs Hl Hf H. destruct opts as [|o1 orest]; [congruence|]. cbn [gp_tail] in H. unfold obind in H.
  set (opts := o1 :: orest) in *. set (dt := with_task d opts) in *.
  destruct (convert_from_one_hot dt false af (g_dec o) xs) as [pts|] eqn:Ec; [|discriminate].
  destruct (decode_b dt (g_hdec o) hist_oh) as [aug|] eqn:Ea; [|discriminate].
  destruct (replace_dups dt pts aug uniq_tol (g_choice o) (g_q o)) as [out|] eqn:Er; [|discriminate]. injection H as <-.
  pose proof (with_task_wf d opts Hwf Hlt) as Hwt.
  destruct (conv_replace_ok dt false af (g_dec o) xs aug _ _ pts out Hwt Hxs Hl Ec (fun u2 => Hf pts aug u2 eq_refl eq_refl) Er) as (A & B & C).
  unfold resp_ok. cbn [r_points r_costs]. rewrite map_length. split; [|split].
  - rewrite Forall_forall in *. intros p Hp. apply in_map_iff in Hp as (q & <- & Hq). apply (with_task_admissible d opts q Hwf). apply A. exact Hq.
  - apply count_from; [exact B|]. intros _ Hi. apply C; [apply with_task_not_discrete|]. unfold dt. rewrite with_task_int_constrained. exact Hi.
  - unfold opts at 1. destruct (snap_tasks_members (map (fun p : point => last p 0) out) opts Hne) as [L M]. rewrite map_length in L.
    split; [exact L|]. eapply Forall_impl; [|exact M]. intros c. apply In_InAQ.
Qed.

(* ---- random / initialisation suggestions *)
Definition prior_valid (p : DS.prior) : Prop := match p with DS.Normal _ s => ~ s == 0 | _ => True end.
Lemma prior_draw_in_comp c p x : prior_valid p -> DP.draw_ok (DS.request_prior c p) x -> DP.in_comp c x.
Proof.
  intros Hv H. destruct p as [|m s|a b].
  - rewrite DP.prior_absent in H. apply DP.full_support. exact H.
  - destruct c; simpl in H; try contradiction. destruct (DP.prior_normal_truncated lo hi m s x Hv) as (a' & b' & E & _ & _ & Hiff).
    simpl in E. injection E as <- <-. apply Hiff. exact H.
  - destruct c; simpl in H; try contradiction. apply (proj2 (DP.prior_beta_scaled lo hi a b x)). exact H.
Qed.
Lemma prior_rows_in_domain : forall dd ps n cols, length ps = length dd -> Forall prior_valid ps ->
  DP.cols_ok n (DS.prior_requests dd ps) cols -> forall i, (i < n)%nat -> DP.In_domain dd (map (fun col => nth i col 0) cols).
Proof.
  induction dd as [|c dd IH]; intros [|p ps] n cols Hl Hv H i Hi; simpl in Hl; try discriminate; cbn in H; inversion H; subst; cbn.
  - constructor.
  - inversion Hv; subst. constructor.
    + eapply prior_draw_in_comp; [eassumption|]. destruct H2 as [L F]. rewrite Forall_forall in F. apply F. apply nth_In. lia.
    + eapply IH; try eassumption. lia.
Qed.
(* contract of the draws of create_random_suggestions / RandomSearchNextPoints / initilization_sequence *)
Definition random_contract (d : domain) (ps : list DS.prior) (n : Z) (pcols : list (list Q)) (q : qorc) : Prop :=
  match DS.view_path ps (is_constrained d) with
  | DS.UsePriors => length ps = length (comps d) /\ Forall prior_valid ps /\ DP.cols_ok (Z.to_nat n) (prior_reqs d ps) pcols
  | DS.UseQuasi => qorc_ok d n q
  end.
Theorem random_pts_ok d ps n pcols q pts : wf_domain d = true -> random_contract d ps n pcols q ->
  random_pts d ps n pcols q = Some pts ->
  Forall (Admissible d) pts /\ (length pts <= Z.to_nat n)%nat /\ (is_int_constrained d = false -> length pts = Z.to_nat n).
Proof.
  intros Hwf Hc H. unfold random_pts, random_contract in *. destruct (DS.view_path ps (is_constrained d)) eqn:Ep.
  - apply DP.view_dispatch in Ep as [_ Eu]. destruct Hc as (Hl & Hv & Hcols). injection H as <-. split.
    + unfold DS.rows_of. apply Forall_forall. intros p Hp. apply in_map_iff in Hp as (i & <- & Hi). apply in_seq in Hi.
      apply unconstrained_adm; [exact Eu|]. eapply prior_rows_in_domain; try eassumption; [unfold ddom; rewrite map_length; exact Hl|lia].
    + rewrite DP.rows_of_length. split; [lia|reflexivity].
  - eapply quasi_points_ok; eassumption.
Qed.
(* what numpy.random.choice(options, size=k[, p=softmax]) returns: k members of the options *)
Definition draws_ok (opts : list Q) (k : nat) (draws : list Q) : Prop := length draws = k /\ Forall (fun c => InA Qeq c opts) draws.
Lemma with_costs_ok opts pts draws : (opts <> [] -> draws_ok opts (length pts) draws) ->
  costs_ok opts (length (r_points (with_costs opts pts draws))) (r_costs (with_costs opts pts draws)).
Proof. intros H. unfold with_costs. destruct opts; simpl; [exact I|]. apply H. discriminate. Qed.

Theorem tail_random_admissible d opts ps n pcols q draws r : wf_domain d = true -> (0 <= n)%Z ->
  random_contract d ps n pcols q -> (forall pts, random_pts d ps n pcols q = Some pts -> opts <> [] -> draws_ok opts (length pts) draws) ->
  random_tail d opts ps n pcols q draws = Some r -> resp_ok d opts (Z.to_nat n) r.
Proof.
  intros Hwf Hn Hc Hd H. unfold random_tail, obind in H. destruct (random_pts d ps n pcols q) as [pts|] eqn:E; [|discriminate].
  injection H as <-. destruct (random_pts_ok d ps n pcols q pts Hwf Hc E) as (A & B & C).
  split; [exact A|]. split; [apply count_from; [exact B|intros _; exact C]|apply with_costs_ok; apply Hd; reflexivity].
Qed.

(* ---- SPENextPoints.draw_samples *)
Definition batch_rows (batches : list (list (row * Q * Q))) : list row := flat_map (map (fun t => fst (fst t))) batches.
Lemma accept_sub b x : In x (accept b) -> In x (map (fun t => fst (fst t)) b).
Proof. unfold accept. intros H. apply in_map_iff in H as (t & <- & Ht). apply filter_In in Ht as [Ht _]. apply (in_map (fun t0 : row * Q * Q => fst (fst t0))). exact Ht. Qed.
Lemma spe_loop_sub n bsz limit : forall batches samples rej x,
  In x (fst (spe_loop n bsz limit batches samples rej)) -> In x samples \/ In x (batch_rows batches).
Proof.
  induction batches as [|b r IH]; intros samples rej x H; cbn [spe_loop] in H.
  - destruct (_ && _); left; exact H.
  - destruct (_ && _); [|left; exact H]. destruct (IH _ _ _ H) as [Hs|Hr].
    + apply in_app_iff in Hs as [Hs|Hs]; [left; exact Hs|right]. unfold batch_rows. simpl. apply in_app_iff. left. apply accept_sub. exact Hs.
    + right. unfold batch_rows. simpl. apply in_app_iff. right. exact Hr.
Qed.
Lemma nth_rows_sub rows ix x : In x (nth_rows rows ix) -> In x rows.
Proof. unfold nth_rows. rewrite in_flat_map. intros (j & _ & H). destruct (nth_error rows j) eqn:E; [|destruct H]. destruct H as [<-|[]]. eapply nth_error_In; exact E. Qed.
Lemma nth_rows_len rows : forall ix, Forall (fun j => (j < length rows)%nat) ix -> length (nth_rows rows ix) = length ix.
Proof.
  induction ix as [|j ix IH]; intros H; [reflexivity|]. inversion H; subst. unfold nth_rows in *. simpl.
  destruct (nth_error rows j) eqn:E; [|apply nth_error_None in E; lia]. simpl. f_equal. apply IH. assumption.
Qed.
(* contract: every proposed test point and every padding point is a feasible relaxed point (C08: restriction to the
   domain / uniform sampler); padding has the size asked for; choice(range(m), size=n, replace=False) returns n valid indices *)
Definition spe_contract (d : domain) (n : nat) (o : speorc) : Prop :=
  let s := fst (spe_loop n SPE_BATCH_SIZE SPE_REJECTION_SAMPLES_LIMIT (s_batches o) [] 0%Z) in
  Forall (relaxed_ok d) (batch_rows (s_batches o)) /\ Forall (relaxed_ok d) (s_pad o) /\
  ((length s < n)%nat -> (length s + length (s_pad o) = n)%nat) /\
  ((n < length s)%nat -> length (s_ix o) = n /\ Forall (fun j => (j < length s)%nat) (s_ix o)) /\
  (n <= length (o_cats (s_dec o)))%nat.
Theorem draw_decode_ok d n o pts : wf_domain d = true -> spe_contract d n o ->
  decode_b d (s_dec o) (fst (draw_samples n SPE_BATCH_SIZE SPE_REJECTION_SAMPLES_LIMIT (s_batches o) (s_pad o) (s_ix o))) = Some pts ->
  Forall (Admissible d) pts /\ (length pts <= n)%nat /\ (is_int_constrained d = false -> length pts = n).
Proof.
  intros Hwf (Hb & Hp & Hpad & Hix & Hcat) H. unfold draw_samples in H.
  destruct (spe_loop n SPE_BATCH_SIZE SPE_REJECTION_SAMPLES_LIMIT (s_batches o) [] 0%Z) as [s rej] eqn:El. cbn [fst] in *.
  assert (Hs : Forall (relaxed_ok d) s).
  { rewrite Forall_forall in *. intros x Hx. pose proof (spe_loop_sub n SPE_BATCH_SIZE SPE_REJECTION_SAMPLES_LIMIT (s_batches o) [] 0%Z x) as Q.
    rewrite El in Q. destruct (Q Hx) as [[]|Hr]. apply Hb. exact Hr. }
  assert (Hf : Forall (relaxed_ok d) (spe_finish n s (s_pad o) (s_ix o)) /\ length (spe_finish n s (s_pad o) (s_ix o)) = n).
  { unfold spe_finish. destruct (Nat.ltb (length s) n) eqn:E1.
    - apply Nat.ltb_lt in E1. split; [apply Forall_app; split; assumption|rewrite app_length; apply Hpad; exact E1].
    - apply Nat.ltb_ge in E1. destruct (Nat.ltb n (length s)) eqn:E2.
      + apply Nat.ltb_lt in E2. destruct (Hix E2) as [L V]. split; [|rewrite nth_rows_len; assumption].
        rewrite Forall_forall in *. intros x Hx. apply Hs. eapply nth_rows_sub. exact Hx.
      + apply Nat.ltb_ge in E2. split; [exact Hs|lia]. }
  destruct Hf as [Hf1 Hf2]. unfold decode_b, decode_batch_with in H. split.
  - eapply decode_batch_admissible; [apply choose_given_member|exact Hwf|exact Hf1|exact H].
  - assert (Hl : (length (spe_finish n s (s_pad o) (s_ix o)) <= length (o_cats (s_dec o)))%nat) by (rewrite Hf2; exact Hcat).
    pose proof (decode_batch_length choose_given d _ _ _ _ _ Hl H) as L. rewrite Hf2 in L. exact L.
Qed.

Theorem tail_spe_admissible d opts ps path n o r : wf_domain d = true -> (0 <= n)%Z ->
  match path with
  | SPERandom => random_contract d ps n (s_pcols o) (s_q o)
  | SPEDraw => spe_contract d (Z.to_nat n) o
  end ->
  (forall r', spe_tail d opts ps path n o = Some r' -> opts <> [] -> draws_ok opts (length (r_points r')) (s_draws o)) ->
  spe_tail d opts ps path n o = Some r -> resp_ok d opts (Z.to_nat n) r.
Proof.
  intros Hwf Hn Hc Hd H. pose proof (Hd r H) as Hdr. destruct path; cbn [spe_tail] in H.
  - eapply tail_random_admissible; try eassumption. intros pts Hp Hne. unfold random_tail, obind in H. rewrite Hp in H. injection H as <-.
    apply Hdr. exact Hne.
  - unfold obind in H. match type of H with match ?e with _ => _ end = _ => destruct e as [pts|] eqn:E; [|discriminate] end.
    injection H as <-. destruct (draw_decode_ok d (Z.to_nat n) o pts Hwf Hc E) as (A & B & C).
    split; [exact A|]. split; [apply count_from; [exact B|intros _; exact C]|apply with_costs_ok; exact Hdr].
Qed.

(* ---- search endpoints (requests without task options) *)
Theorem tail_search_admissible d ph u parallel af xs hist hist_oh o r :
  wf_domain d = true -> Forall (relaxed_ok d) xs -> (length xs <= length (o_cats (g_dec o)))%nat ->
  (forall par pts u2, convert_from_one_hot d par af (g_dec o) xs = Some pts -> kept_of d pts hist uniq_tol = Some u2 ->
     fill_contract d (DS.zlen pts - DS.zlen u2) hist (g_choice o) (g_q o)) ->
  search_tail d [] ph u parallel af xs hist hist_oh o = Some r -> resp_ok d [] (length xs) r.
Proof.
  intros Hwf Hxs Hl Hf H.
  assert (G : exists par, gp_tail d [] par af xs hist hist_oh o = Some r).
  { unfold search_tail in H. destruct ph; try (exists parallel; exact H). destruct (Qltb u RESOLVE_PHASE_PROB); [exists false|exists parallel]; exact H. }
  destruct G as [par G]. eapply tail_gp_admissible; try eassumption. apply Hf.
Qed.
Theorem tail_spe_search_admissible d ps ph path n o r : wf_domain d = true -> (0 <= n)%Z ->
  match ph, path with
  | SInit, _ | SExploit, SPERandom => random_contract d ps n (s_pcols o) (s_q o)
  | _, _ => spe_contract d (Z.to_nat n) o
  end ->
  spe_search_tail d [] ps ph path n o = Some r -> resp_ok d [] (Z.to_nat n) r.
Proof.
  intros Hwf Hn Hc H. destruct ph; cbn [spe_search_tail] in H.
  - unfold obind in H. destruct (random_pts d ps n (s_pcols o) (s_q o)) as [pts|] eqn:E; [|discriminate]. injection H as <-.
    assert (Hc' : random_contract d ps n (s_pcols o) (s_q o)) by (destruct path; exact Hc).
    destruct (random_pts_ok d ps n _ _ pts Hwf Hc' E) as (A & B & C). split; [exact A|]. split; [apply count_from; [exact B|intros _; exact C]|exact I].
  - destruct path.
    + apply (tail_spe_admissible d [] ps SPERandom n o r Hwf Hn Hc); [intros r' _ Hne; congruence|exact H].
    + apply (tail_spe_admissible d [] ps SPEDraw n o r Hwf Hn Hc); [intros r' _ Hne; congruence|exact H].
  - unfold obind in H. match type of H with match ?e with _ => _ end = _ => destruct e as [pts|] eqn:E; [|discriminate] end.
    injection H as <-. assert (Hc' : spe_contract d (Z.to_nat n) o) by (destruct path; exact Hc).
    destruct (draw_decode_ok d (Z.to_nat n) o pts Hwf Hc' E) as (A & B & C).
    split; [exact A|]. split; [apply count_from; [exact B|intros _; exact C]|exact I].
Qed.

(* ------------------------------------------------------------------ non-vacuity *)
Definition ex_dom : domain :=
  {| comps := [Double (-2) 5; Int (-3) 10; Cat [5; 1; 7]%Z; Grid [(1#4); (-3#2); (5#2)]];
     cons := [{| weights := [1; 0; 0; 0]; rhs := (-1); cty := CDouble |}] |}.
Definition ex_dorc : dorc := {| o_rnds := []; o_perms := []; o_cats := [[7%Z]; [7%Z]] |}.
Definition ex_gporc : gporc :=
  {| g_dec := ex_dorc; g_hdec := ex_dorc; g_choice := [];
     g_q := {| q_cols := []; q_rows := [[3; (1#2); 0; 1; 0; 2]]; q_dec := {| o_rnds := []; o_perms := []; o_cats := [[1%Z]] |} |} |}.
Example gp_tail_example :
  wf_domain ex_dom = true /\
  gp_tail ex_dom [] false (fun x => nth 1 x 0) [[(3#2); (13#4); (1#8); (1#4); (1#2); 2]; [(3#2); (13#4); (1#8); (1#4); (1#2); 2]]
    [[0; 0; 5; (1#4)]] [] ex_gporc
  = Some {| r_points := [[(3#2); 4; 7; (5#2)]; [3; 0; 1; (5#2)]]; r_costs := None |}.
Proof. vm_compute. split; reflexivity. Qed.
