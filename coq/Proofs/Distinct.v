(* Proofs for C10 (distinct / random sampling) about LV.Model.Distinct. *)
From Coq Require Import List FinFun QArith Qround ZArith Bool Arith Lia Lra Psatz SetoidList.
From LV Require Import Model.Distinct.
Import ListNotations.
Open Scope Q_scope.

(* ------------------------------------------------------------------ points up to Qeq *)
Definition peq : point -> point -> Prop := Forall2 Qeq.

Lemma peqb_refl p : peqb p p = true.
Proof. induction p; cbn; [reflexivity|]. rewrite Qeq_bool_refl. exact IHp. Qed.
Lemma peqb_sym p : forall q, peqb p q = true -> peqb q p = true.
Proof.
  induction p as [|x p IH]; intros [|y q] H; cbn in *; try discriminate; [reflexivity|].
  apply andb_true_iff in H as [H1 H2]. rewrite (Qeq_bool_sym _ _ H1). cbn. apply IH. exact H2.
Qed.
Lemma peqb_trans p : forall q r, peqb p q = true -> peqb q r = true -> peqb p r = true.
Proof.
  induction p as [|x p IH]; intros [|y q] [|z r] H K; cbn in *; try discriminate; [reflexivity|].
  apply andb_true_iff in H as [H1 H2]. apply andb_true_iff in K as [K1 K2].
  rewrite (Qeq_bool_trans _ _ _ H1 K1). cbn. eapply IH; eauto.
Qed.
Lemma peqb_iff p : forall q, peqb p q = true <-> peq p q.
Proof.
  induction p as [|x p IH]; intros [|y q]; cbn; split; intro H; try discriminate; try (inversion H; fail).
  - constructor.
  - reflexivity.
  - apply andb_true_iff in H as [H1 H2]. constructor; [apply Qeq_bool_iff; exact H1|apply IH; exact H2].
  - inversion H; subst. apply andb_true_iff. split; [apply Qeq_bool_iff; assumption|apply IH; assumption].
Qed.
Lemma peqb_length p : forall q, peqb p q = true -> length p = length q.
Proof.
  induction p as [|x p IH]; intros [|y q] H; cbn in *; try discriminate; [reflexivity|].
  apply andb_true_iff in H as [_ H]. f_equal. apply IH. exact H.
Qed.

Lemma memP_iff p l : memP p l = true <-> InA peq p l.
Proof.
  unfold memP. rewrite existsb_exists, InA_alt. split; intros [q [A B]]; exists q.
  - split; [apply peqb_iff; exact B|exact A].
  - split; [exact B|apply peqb_iff; exact A].
Qed.
Lemma memP_congr p q l : peqb p q = true -> memP p l = memP q l.
Proof.
  intro H. unfold memP. induction l as [|r l IH]; cbn; [reflexivity|]. rewrite IH. f_equal.
  destruct (peqb p r) eqn:A, (peqb q r) eqn:B; try reflexivity.
  - rewrite (peqb_trans _ _ _ (peqb_sym _ _ H) A) in B. discriminate.
  - rewrite (peqb_trans _ _ _ H B) in A. discriminate.
Qed.
Lemma memQ_congr x y l : Qeq_bool x y = true -> memQ x l = memQ y l.
Proof.
  intro H. unfold memQ. induction l as [|r l IH]; cbn; [reflexivity|]. rewrite IH. f_equal.
  destruct (Qeq_bool x r) eqn:A, (Qeq_bool y r) eqn:B; try reflexivity.
  - rewrite (Qeq_bool_trans _ _ _ (Qeq_bool_sym _ _ H) A) in B. discriminate.
  - rewrite (Qeq_bool_trans _ _ _ H B) in A. discriminate.
Qed.
Lemma memZ_iff x l : memZ x l = true <-> In x l.
Proof.
  unfold memZ. rewrite existsb_exists. split.
  - intros [y [A B]]. apply Z.eqb_eq in B. subst. exact A.
  - intro H. exists x. split; [exact H|apply Z.eqb_refl].
Qed.

(* ------------------------------------------------------------------ lists of elements without repeats *)
Fixpoint nodupQ (l : list Q) : bool := match l with [] => true | x :: r => negb (memQ x r) && nodupQ r end.

Lemma zlen_cons {A} (x : A) l : zlen (x :: l) = (1 + zlen l)%Z.
Proof. unfold zlen. cbn [length]. lia. Qed.
Lemma zlen_nonneg {A} (l : list A) : (0 <= zlen l)%Z.
Proof. unfold zlen. lia. Qed.

Lemma find_pos_range x l : forall i j, find_pos x l i = Some j -> (i <= j < i + zlen l)%Z.
Proof.
  induction l as [|e l IH]; intros i j H; cbn in H; [discriminate|]. rewrite zlen_cons.
  destruct (Qeq_bool x e).
  - inversion H; subst. pose proof (zlen_nonneg l). lia.
  - apply IH in H. lia.
Qed.
Lemma find_pos_nth x l : forall i j, find_pos x l i = Some j -> Qeq_bool x (nth (Z.to_nat (j - i)) l 0) = true.
Proof.
  induction l as [|e l IH]; intros i j H; cbn in H; [discriminate|].
  destruct (Qeq_bool x e) eqn:E.
  - inversion H; subst. replace (j - j)%Z with 0%Z by lia. cbn. exact E.
  - pose proof (find_pos_range _ _ _ _ H) as R. apply IH in H.
    replace (Z.to_nat (j - i)) with (S (Z.to_nat (j - (i + 1)))) by lia. cbn. exact H.
Qed.
Lemma find_pos_mem x l : forall i, memQ x l = true -> exists j, find_pos x l i = Some j.
Proof.
  induction l as [|e l IH]; intros i H; cbn in *; [discriminate|].
  destruct (Qeq_bool x e); [eexists; reflexivity|]. cbn in H. apply IH. exact H.
Qed.
Lemma find_pos_congr x y l : Qeq_bool x y = true -> forall i, find_pos x l i = find_pos y l i.
Proof.
  intros H. induction l as [|e l IH]; intro i; cbn; [reflexivity|]. rewrite IH.
  destruct (Qeq_bool x e) eqn:A, (Qeq_bool y e) eqn:B; try reflexivity.
  - rewrite (Qeq_bool_trans _ _ _ (Qeq_bool_sym _ _ H) A) in B. discriminate.
  - rewrite (Qeq_bool_trans _ _ _ H B) in A. discriminate.
Qed.
Lemma nth_memQ (l : list Q) : forall n, (n < length l)%nat -> memQ (nth n l 0) l = true.
Proof.
  induction l as [|e l IH]; intros [|n] H; cbn in *; try lia.
  - rewrite Qeq_bool_refl. reflexivity.
  - unfold memQ in IH. rewrite IH by lia. apply orb_true_r.
Qed.
(* in a list without repeats the first match of the n-th element is at n *)
Lemma find_pos_of_nth l : nodupQ l = true -> forall n i, (n < length l)%nat ->
  find_pos (nth n l 0) l i = Some (i + Z.of_nat n)%Z.
Proof.
  induction l as [|e l IH]; intros N n i H; cbn in *; [lia|].
  apply andb_true_iff in N as [N1 N2]. destruct n as [|n].
  - rewrite Qeq_bool_refl. f_equal. lia.
  - destruct (Qeq_bool (nth n l 0) e) eqn:E.
    + exfalso. apply negb_true_iff in N1.
      rewrite (memQ_congr _ _ _ (Qeq_bool_sym _ _ E)) in N1. rewrite nth_memQ in N1 by lia. discriminate.
    + rewrite IH by (assumption || lia). f_equal. lia.
Qed.

(* ------------------------------------------------------------------ the index maps are inverse to each other *)
Fixpoint prodZ (l : list Z) : Z := match l with [] => 1%Z | x :: r => (x * prodZ r)%Z end.
Definition total_of (els : list (list Q)) : Z := prodZ (map zlen els).
Definition wf_els (els : list (list Q)) : Prop := Forall (fun e => e <> [] /\ nodupQ e = true) els.

Lemma zlen_pos (e : list Q) : e <> [] -> (0 < zlen e)%Z.
Proof. destruct e; [congruence|]. intros _. rewrite zlen_cons. pose proof (zlen_nonneg e). lia. Qed.
Lemma total_pos els : wf_els els -> (0 < total_of els)%Z.
Proof.
  induction 1 as [|e els [H _] _ IH]; unfold total_of in *; cbn; [lia|]. pose proof (zlen_pos e H). nia.
Qed.

Lemma div_step i b : (0 < b)%Z -> ((i - i mod b) / b = i / b)%Z.
Proof.
  intro Hb. rewrite (Z.div_mod i b) at 1 by lia.
  replace (b * (i / b) + i mod b - i mod b)%Z with ((i / b) * b)%Z by ring. apply Z.div_mul. lia.
Qed.

(* index -> point -> index *)
Theorem index_roundtrip els : wf_els els -> forall i, (0 <= i < total_of els)%Z ->
  point_to_index els (index_to_point els i) = Some i /\ length (index_to_point els i) = length els.
Proof.
  induction 1 as [|e els [Hne Hnd] Hw IH]; intros i Hi; unfold total_of in *; cbn in *.
  - split; [f_equal; lia|reflexivity].
  - pose proof (zlen_pos e Hne) as Hb. pose proof (total_pos els Hw) as Hp. unfold total_of in Hp.
    pose proof (Z.mod_pos_bound i (zlen e) Hb) as Hm.
    rewrite div_step by exact Hb.
    assert (Hr : (0 <= i / zlen e < prodZ (map zlen els))%Z).
    { split; [apply Z.div_pos; lia|]. apply Z.div_lt_upper_bound; nia. }
    destruct (IH _ Hr) as [E L]. rewrite E, L.
    rewrite find_pos_of_nth by (assumption || (unfold zlen in *; lia)).
    split; [|reflexivity]. f_equal. rewrite Z2Nat.id by lia.
    rewrite (Z.div_mod i (zlen e)) at 3 by lia. ring.
Qed.

(* point -> index -> point, up to Qeq; and the index is in range *)
Theorem point_roundtrip els : wf_els els -> forall p i, length p = length els -> point_to_index els p = Some i ->
  (0 <= i < total_of els)%Z /\ peqb (index_to_point els i) p = true.
Proof.
  induction 1 as [|e els [Hne Hnd] Hw IH]; intros p i L H; unfold total_of in *.
  - destruct p; [|discriminate]. cbn in *. inversion H; subst. split; [lia|reflexivity].
  - destruct p as [|x p]; [discriminate|]. cbn in L, H |- *.
    destruct (find_pos x e 0) as [a|] eqn:Fa; [|discriminate].
    destruct (point_to_index els p) as [j|] eqn:Fj; [|discriminate]. inversion H; subst i. clear H.
    destruct (IH p j ltac:(lia) Fj) as [R Pq].
    pose proof (find_pos_range _ _ _ _ Fa) as Ra. pose proof (zlen_pos e Hne) as Hb.
    assert (Hmod : ((a + zlen e * j) mod zlen e = a)%Z).
    { replace (a + zlen e * j)%Z with (a + j * zlen e)%Z by ring. rewrite Z.mod_add by lia. apply Z.mod_small. lia. }
    rewrite Hmod. replace (a + zlen e * j - a)%Z with (j * zlen e)%Z by ring. rewrite Z.div_mul by lia.
    split; [nia|]. rewrite Pq, andb_true_r. apply Qeq_bool_sym.
    pose proof (find_pos_nth _ _ _ _ Fa) as N. replace (a - 0)%Z with a in N by lia. exact N.
Qed.

Lemma point_to_index_congr els : forall p q, peqb p q = true -> point_to_index els p = point_to_index els q.
Proof.
  induction els as [|e els IH]; intros [|x p] [|y q] H; cbn in *; try discriminate; try reflexivity.
  apply andb_true_iff in H as [H1 H2]. rewrite (find_pos_congr _ _ _ H1), (IH _ _ H2). reflexivity.
Qed.

(* ------------------------------------------------------------------ well-formed discrete domains *)
(* mirrors CategoricalDomain._verify_domain_components *)
Definition wf_comp (c : comp) : bool :=
  match c with
  | CDouble lo hi => Qltb lo hi
  | CInt lo hi => (lo <? hi)%Z
  | CCat es => (2 <=? length es)%nat && nodupQ (map inject_Z es)
  | CGrid es => (2 <=? length es)%nat && nodupQ es
  end.
Definition wf_dom (d : domain) : bool := forallb wf_comp d.

(* typed rows: the value of an int parameter is integral (reading fixed in DESIGN 7.0) *)
Definition integral (x : Q) : bool := Qeq_bool x (inject_Z (Qfloor x)).
Definition typed1 (c : comp) (x : Q) : bool := match c with CInt _ _ => integral x | _ => true end.
Fixpoint typed (d : domain) (p : point) : bool :=
  match d, p with
  | [], [] => true
  | c :: d', x :: p' => typed1 c x && typed d' p'
  | _, _ => false
  end.

Lemma in_zrange z lo hi : In z (zrange lo hi) <-> (lo <= z <= hi)%Z.
Proof.
  unfold zrange. rewrite in_map_iff. split.
  - intros [n [E H]]. apply in_seq in H. lia.
  - intro H. exists (Z.to_nat (z - lo)). split; [lia|]. apply in_seq. lia.
Qed.
Lemma zrange_length lo hi : zlen (zrange lo hi) = Z.max 0 (hi + 1 - lo).
Proof. unfold zlen, zrange. rewrite map_length, seq_length. lia. Qed.
Lemma zrange_NoDup lo hi : NoDup (zrange lo hi).
Proof.
  unfold zrange. apply FinFun.Injective_map_NoDup; [|apply seq_NoDup]. intros a b H. lia.
Qed.
Lemma inject_Z_eqb a b : Qeq_bool (inject_Z a) (inject_Z b) = true -> a = b.
Proof. intro H. apply Qeq_bool_iff in H. unfold Qeq in H. cbn in H. lia. Qed.
Lemma memQ_inject z l : memQ (inject_Z z) (map inject_Z l) = true <-> In z l.
Proof.
  unfold memQ. rewrite existsb_exists. split.
  - intros [y [A B]]. apply in_map_iff in A as [w [E W]]. subst y. apply inject_Z_eqb in B. subst. exact W.
  - intro H. exists (inject_Z z). split; [apply in_map; exact H|apply Qeq_bool_refl].
Qed.
Lemma nodupQ_inject l : NoDup l -> nodupQ (map inject_Z l) = true.
Proof.
  induction 1 as [|x l H _ IH]; cbn; [reflexivity|]. rewrite IH, andb_true_r. apply negb_true_iff.
  destruct (memQ (inject_Z x) (map inject_Z l)) eqn:E; [|reflexivity]. apply memQ_inject in E. contradiction.
Qed.

Lemma wf_elements c : wf_comp c = true -> is_discrete1 c = true -> elements c <> [] /\ nodupQ (elements c) = true.
Proof.
  destruct c as [lo hi|lo hi|es|es]; cbn; intros W D; try discriminate.
  - apply Z.ltb_lt in W. split.
    + pose proof (zrange_length lo hi) as L. destruct (zrange lo hi); [unfold zlen in L; cbn in L; lia|].
      cbn. congruence.
    + apply nodupQ_inject, zrange_NoDup.
  - apply andb_true_iff in W as [W1 W2]. split; [|exact W2].
    destruct es; cbn in *; [discriminate|congruence].
  - apply andb_true_iff in W as [W1 W2]. split; [|exact W2].
    destruct es; cbn in *; [discriminate|congruence].
Qed.
Lemma wf_dom_els d : wf_dom d = true -> is_discrete d = true -> wf_els (map elements d).
Proof.
  induction d as [|c d IH]; cbn; intros W D; [constructor|].
  apply andb_true_iff in W as [W1 W2]. apply andb_true_iff in D as [D1 D2].
  constructor; [apply wf_elements; assumption|apply IH; assumption].
Qed.

Lemma integral_Z x : integral x = true -> exists z, Qeq_bool x (inject_Z z) = true.
Proof. intro H. exists (Qfloor x). exact H. Qed.

(* for a typed value the library's range / isin test is membership in the element list *)
Lemma inside1_elements c x : is_discrete1 c = true -> typed1 c x = true ->
  inside1 c x = memQ x (elements c).
Proof.
  destruct c as [lo hi|lo hi|es|es]; cbn [inside1 elements is_discrete1 typed1]; intros D T;
    try discriminate; try reflexivity.
  destruct (integral_Z x T) as [z Hz]. rewrite (memQ_congr _ _ _ Hz).
  assert (E : Qle_bool (inject_Z lo) x && Qle_bool x (inject_Z hi) = ((lo <=? z)%Z && (z <=? hi)%Z)).
  { apply Qeq_bool_iff in Hz. f_equal.
    - destruct (Qle_bool (inject_Z lo) x) eqn:A, (lo <=? z)%Z eqn:B; try reflexivity.
      + apply Qle_bool_iff in A. rewrite Hz, <- Zle_Qle in A. apply Z.leb_gt in B. lia.
      + apply Z.leb_le in B. rewrite Zle_Qle, <- Hz in B. apply Qle_bool_iff in B. congruence.
    - destruct (Qle_bool x (inject_Z hi)) eqn:A, (z <=? hi)%Z eqn:B; try reflexivity.
      + apply Qle_bool_iff in A. rewrite Hz, <- Zle_Qle in A. apply Z.leb_gt in B. lia.
      + apply Z.leb_le in B. rewrite Zle_Qle, <- Hz in B. apply Qle_bool_iff in B. congruence. }
  rewrite E. destruct (memQ (inject_Z z) (map inject_Z (zrange lo hi))) eqn:M.
  - apply memQ_inject, in_zrange in M. apply andb_true_iff. split; apply Z.leb_le; lia.
  - destruct ((lo <=? z)%Z && (z <=? hi)%Z) eqn:F; [|reflexivity]. apply andb_true_iff in F as [F1 F2].
    apply Z.leb_le in F1, F2. assert (In z (zrange lo hi)) as I by (apply in_zrange; lia).
    apply memQ_inject in I. congruence.
Qed.
Lemma memQ_typed c x : memQ x (elements c) = true -> typed1 c x = true.
Proof.
  destruct c as [lo hi|lo hi|es|es]; cbn [elements typed1]; intro M; try reflexivity.
  unfold memQ in M. apply existsb_exists in M as [y [A B]]. apply in_map_iff in A as [z [E _]]. subst y.
  unfold integral. apply Qeq_bool_iff in B. apply Qeq_bool_iff. rewrite B. rewrite Qfloor_Z. reflexivity.
Qed.
Lemma in_comp_b_elements c x : is_discrete1 c = true -> in_comp_b c x = memQ x (elements c).
Proof. destruct c; cbn; intro D; try discriminate; reflexivity. Qed.

Lemma inside_length d : forall p, inside d p = true -> length p = length d.
Proof.
  induction d as [|c d IH]; intros [|x p] H; cbn in *; try discriminate; [reflexivity|].
  apply andb_true_iff in H as [_ H]. f_equal. apply IH. exact H.
Qed.
Lemma inside1_congr c x y : Qeq_bool x y = true -> inside1 c x = inside1 c y.
Proof.
  intro H. assert (L : forall a, Qle_bool a x = Qle_bool a y).
  { intro a. apply Qeq_bool_iff in H. destruct (Qle_bool a x) eqn:A, (Qle_bool a y) eqn:B; try reflexivity.
    - apply Qle_bool_iff in A. rewrite H in A. apply Qle_bool_iff in A. congruence.
    - apply Qle_bool_iff in B. rewrite <- H in B. apply Qle_bool_iff in B. congruence. }
  assert (R : forall a, Qle_bool x a = Qle_bool y a).
  { intro a. apply Qeq_bool_iff in H. destruct (Qle_bool x a) eqn:A, (Qle_bool y a) eqn:B; try reflexivity.
    - apply Qle_bool_iff in A. rewrite H in A. apply Qle_bool_iff in A. congruence.
    - apply Qle_bool_iff in B. rewrite <- H in B. apply Qle_bool_iff in B. congruence. }
  destruct c; cbn; rewrite ?L, ?R; try reflexivity; apply memQ_congr; exact H.
Qed.
Lemma inside_congr d : forall p q, peqb p q = true -> inside d p = inside d q.
Proof.
  induction d as [|c d IH]; intros [|x p] [|y q] H; cbn in *; try discriminate; try reflexivity.
  apply andb_true_iff in H as [H1 H2]. rewrite (inside1_congr _ _ _ H1), (IH _ _ H2). reflexivity.
Qed.

(* an in-domain typed row has an index *)
Lemma inside_has_index d : is_discrete d = true -> forall p, inside d p = true -> typed d p = true ->
  exists i, point_to_index (map elements d) p = Some i.
Proof.
  induction d as [|c d IH]; intros D [|x p] I T; cbn in *; try discriminate; [eexists; reflexivity|].
  apply andb_true_iff in D as [D1 D2]. apply andb_true_iff in I as [I1 I2]. apply andb_true_iff in T as [T1 T2].
  rewrite (inside1_elements c x D1 T1) in I1. destruct (find_pos_mem x (elements c) 0 I1) as [a Ha]. rewrite Ha.
  destruct (IH D2 p I2 T2) as [j Hj]. rewrite Hj. eexists; reflexivity.
Qed.

(* every index names a configuration of the domain *)
Lemma index_point_elements els : wf_els els -> forall i, (0 <= i < total_of els)%Z ->
  Forall2 (fun e x => In x e) els (index_to_point els i).
Proof.
  induction 1 as [|e els [Hne Hnd] Hw IH]; intros i Hi; unfold total_of in *; cbn in *; [constructor|].
  pose proof (zlen_pos e Hne) as Hb. pose proof (total_pos els Hw) as Hp. unfold total_of in Hp.
  pose proof (Z.mod_pos_bound i (zlen e) Hb) as Hm. rewrite div_step by exact Hb.
  constructor.
  - apply nth_In. unfold zlen in *. lia.
  - apply IH. split; [apply Z.div_pos; lia|]. apply Z.div_lt_upper_bound; nia.
Qed.
Lemma In_memQ x l : In x l -> memQ x l = true.
Proof. intro H. unfold memQ. apply existsb_exists. exists x. split; [exact H|apply Qeq_bool_refl]. Qed.
Lemma elements_inside d : is_discrete d = true -> forall p,
  Forall2 (fun e x => In x e) (map elements d) p ->
  inside d p = true /\ in_domain_b d p = true /\ typed d p = true.
Proof.
  induction d as [|c d IH]; intros D p F; cbn in *; inversion F as [|e x els p' H0 H3]; subst; [repeat split|].
  apply andb_true_iff in D as [D1 D2]. destruct (IH D2 _ H3) as [A [B C]]. cbn.
  pose proof (In_memQ _ _ H0) as H1.
  pose proof (memQ_typed c x H1) as T.
  rewrite (inside1_elements c x D1 T), (in_comp_b_elements c x D1), H1, A, B, C, T. repeat split.
Qed.

(* ------------------------------------------------------------------ counting *)
Lemma filter_split_length {A} (f : A -> bool) l :
  (length (filter f l) + length (filter (fun x => negb (f x)) l) = length l)%nat.
Proof. induction l as [|x l IH]; cbn; [reflexivity|]. destruct (f x); cbn; lia. Qed.

Lemma filter_notin_length (ex l : list Z) : NoDup ex -> NoDup l -> incl ex l ->
  (length (filter (fun i => negb (memZ i ex)) l) + length ex = length l)%nat.
Proof.
  intros Nex Nl I. pose proof (filter_split_length (fun i => memZ i ex) l) as S.
  assert (E : length (filter (fun i => memZ i ex) l) = length ex).
  { apply Nat.le_antisymm.
    - apply NoDup_incl_length; [apply NoDup_filter; exact Nl|]. intros x H. apply filter_In in H as [_ H].
      apply memZ_iff. exact H.
    - apply NoDup_incl_length; [exact Nex|]. intros x H. apply filter_In. split; [apply I; exact H|apply memZ_iff; exact H]. }
  lia.
Qed.

Lemma all_some_Forall2 {A B} (f : A -> option B) l : forall ys, all_some (map f l) = Some ys ->
  Forall2 (fun x y => f x = Some y) l ys.
Proof.
  induction l as [|x l IH]; intros ys H; cbn in H.
  - inversion H. constructor.
  - destruct (f x) as [y|] eqn:E; [|discriminate]. destruct (all_some (map f l)) as [r|]; [|discriminate].
    inversion H; subst. constructor; [exact E|apply IH; reflexivity].
Qed.
Lemma all_some_exists {A B} (f : A -> option B) l : (forall x, In x l -> exists y, f x = Some y) ->
  exists ys, all_some (map f l) = Some ys.
Proof.
  induction l as [|x l IH]; intro H; cbn; [eexists; reflexivity|].
  destruct (H x (or_introl eq_refl)) as [y Hy]. rewrite Hy.
  destruct IH as [ys Hys]; [intros z Hz; apply H; right; exact Hz|]. rewrite Hys. eexists; reflexivity.
Qed.

Lemma dedup_cons q h :
  dedup_rows (q :: h) = if memP q (dedup_rows h) then dedup_rows h else q :: dedup_rows h.
Proof. reflexivity. Qed.
Lemma dedup_In p h : In p (dedup_rows h) -> In p h.
Proof.
  induction h as [|q h IH]; [cbn; tauto|]. rewrite dedup_cons. destruct (memP q (dedup_rows h)).
  - intro H. right. apply IH. exact H.
  - intros [E|H]; [left; exact E|right; apply IH; exact H].
Qed.
Lemma memP_cons p q l : memP p (q :: l) = peqb p q || memP p l.
Proof. reflexivity. Qed.
Lemma dedup_memP p h : memP p (dedup_rows h) = memP p h.
Proof.
  induction h as [|q h IH]; [reflexivity|]. rewrite dedup_cons, memP_cons. destruct (memP q (dedup_rows h)) eqn:M.
  - rewrite IH. destruct (peqb p q) eqn:E; [|reflexivity]. cbn.
    rewrite <- IH. rewrite (memP_congr _ _ _ E). exact M.
  - rewrite memP_cons, IH. reflexivity.
Qed.
Lemma dedup_nodup h : nodup_b (dedup_rows h) = true.
Proof.
  induction h as [|q h IH]; [reflexivity|]. rewrite dedup_cons. destruct (memP q (dedup_rows h)) eqn:M; [exact IH|].
  cbn [nodup_b]. rewrite M, IH. reflexivity.
Qed.

Lemma flat_map_cons_length {A} (es : list A) (rest : list (list A)) :
  length (flat_map (fun x => map (cons x) rest) es) = (length es * length rest)%nat.
Proof. induction es as [|x es IH]; cbn; [reflexivity|]. rewrite app_length, map_length, IH. reflexivity. Qed.
Lemma configs_length d : zlen (configs d) = total_of (map elements d).
Proof.
  induction d as [|c d IH]; unfold total_of, zlen in *; cbn; [reflexivity|].
  rewrite flat_map_cons_length. rewrite Nat2Z.inj_mul, IH. reflexivity.
Qed.
Lemma configs_In d : forall c, In c (configs d) <-> Forall2 (fun e x => In x e) (map elements d) c.
Proof.
  induction d as [|a d IH]; intro c; cbn.
  - split; [intros [<-|[]]; constructor|intro H; inversion H; left; reflexivity].
  - rewrite in_flat_map. split.
    + intros [x [Hx Hc]]. apply in_map_iff in Hc as [r [<- Hr]]. constructor; [exact Hx|apply IH; exact Hr].
    + intro H. inversion H as [|e x els r Hx Hr]; subst. exists x. split; [exact Hx|].
      apply in_map. apply IH. exact Hr.
Qed.

Lemma total_from_some lens : Forall (fun l => 1 <= l)%Z lens -> forall acc, (1 <= acc)%Z ->
  (acc * prodZ lens < max_search)%Z -> total_from acc lens = Some (acc * prodZ lens)%Z.
Proof.
  induction 1 as [|l lens Hl Hrest IH]; intros acc Ha Hlt; cbn in *; [f_equal; lia|].
  assert (Hp : (1 <= prodZ lens)%Z) by (clear - Hrest; induction Hrest; cbn; nia).
  destruct (max_search <=? acc * l)%Z eqn:E; [apply Z.leb_le in E; nia|].
  rewrite IH by nia. f_equal. ring.
Qed.

Lemma Forall2_len {A B} (R : A -> B -> Prop) l l' : Forall2 R l l' -> length l = length l'.
Proof. induction 1; cbn; congruence. Qed.

Lemma F2_In_right {A B} (f : A -> option B) l l' : Forall2 (fun q i => f q = Some i) l l' ->
  forall i, In i l' -> exists q, In q l /\ f q = Some i.
Proof.
  induction 1 as [|q j l l' Hq _ IH]; cbn; [tauto|].
  intros i [<-|H]; [exists q; split; [left; reflexivity|exact Hq]|].
  destruct (IH i H) as [q' [Ha Hb]]. exists q'. split; [right; exact Ha|exact Hb].
Qed.
Lemma F2_In_left {A B} (f : A -> option B) l l' : Forall2 (fun q i => f q = Some i) l l' ->
  forall q i, In q l -> f q = Some i -> In i l'.
Proof.
  induction 1 as [|q0 j l l' Hq _ IH]; cbn; [tauto|].
  intros q i [<-|H] E; [left; congruence|right; eapply IH; eassumption].
Qed.
Lemma F2_NoDup (f : point -> option Z) l l' : Forall2 (fun q i => f q = Some i) l l' -> nodup_b l = true ->
  (forall q q' i, In q l -> In q' l -> f q = Some i -> f q' = Some i -> peqb q q' = true) -> NoDup l'.
Proof.
  induction 1 as [|q j l l' Hq F IH]; intros N P; [constructor|].
  cbn in N. apply andb_true_iff in N as [N1 N2]. constructor.
  - intro Hj. apply negb_true_iff in N1. destruct (F2_In_right f l l' F j Hj) as [q' [A B]].
    assert (E : peqb q q' = true) by (apply (P q q' j); [left; reflexivity|right; exact A|exact Hq|exact B]).
    assert (M : memP q l = true) by (unfold memP; apply existsb_exists; exists q'; split; assumption).
    congruence.
  - apply IH; [exact N2|]. intros a b i Ha Hb. apply P; right; assumption.
Qed.

(* ------------------------------------------------------------------ generate_distinct_random_points *)
Section DistinctMain.
Variable d : domain.
Variable h : list point.
Hypothesis Wf : wf_dom d = true.
Hypothesis Disc : is_discrete d = true.
Hypothesis Typed : Forall (fun p => typed d p = true) h.
Let els := map elements d.
Let T := total_of els.
Let excl := dedup_rows (remove_outside d h).

Lemma Wels : wf_els els.
Proof. apply wf_dom_els; assumption. Qed.

Lemma excl_props q : In q excl -> In q h /\ inside d q = true /\ typed d q = true /\ length q = length els.
Proof.
  intro H. apply dedup_In in H. unfold remove_outside in H. apply filter_In in H as [H1 H2].
  rewrite Forall_forall in Typed. repeat split; auto. unfold els. rewrite map_length. apply inside_length. exact H2.
Qed.
Lemma excl_indexes : exists ex, all_some (map (point_to_index els) excl) = Some ex.
Proof.
  apply all_some_exists. intros q H. destruct (excl_props q H) as [_ [I [Ty _]]].
  apply inside_has_index; assumption.
Qed.

Lemma index_injective q q' i : length q = length els -> length q' = length els ->
  point_to_index els q = Some i -> point_to_index els q' = Some i -> peqb q q' = true.
Proof.
  intros L L' H H'. destruct (point_roundtrip els Wels q i L H) as [_ A].
  destruct (point_roundtrip els Wels q' i L' H') as [_ B].
  eapply peqb_trans; [apply peqb_sym; exact A|exact B].
Qed.

Variable ex : list Z.
Hypothesis Hex : all_some (map (point_to_index els) excl) = Some ex.

Lemma ex_F2 : Forall2 (fun q i => point_to_index els q = Some i) excl ex.
Proof. apply all_some_Forall2. exact Hex. Qed.
Lemma ex_len : zlen ex = zlen excl.
Proof. unfold zlen. f_equal. symmetry. eapply Forall2_len. exact ex_F2. Qed.
Lemma ex_In i : In i ex -> exists q, In q excl /\ point_to_index els q = Some i.
Proof. apply (F2_In_right _ _ _ ex_F2). Qed.
Lemma In_ex q i : In q excl -> point_to_index els q = Some i -> In i ex.
Proof. apply (F2_In_left _ _ _ ex_F2). Qed.
Lemma ex_range i : In i ex -> (0 <= i < T)%Z.
Proof.
  intro H. destruct (ex_In i H) as [q [A B]]. destruct (excl_props q A) as [_ [_ [_ L]]].
  apply (point_roundtrip els Wels q i L B).
Qed.
Lemma ex_NoDup : NoDup ex.
Proof.
  apply (F2_NoDup _ _ _ ex_F2); [apply dedup_nodup|].
  intros q q' i A B. apply index_injective; apply excl_props; assumption.
Qed.

(* a configuration is observed iff its index is excluded *)
Lemma observed_iff c j : inside d c = true -> length c = length els -> point_to_index els c = Some j ->
  memP c h = memZ j ex.
Proof.
  intros I L Hj. destruct (memZ j ex) eqn:Z.
  - apply memZ_iff in Z. destruct (ex_In j Z) as [q [A B]]. destruct (excl_props q A) as [Qh [_ [_ Lq]]].
    unfold memP. apply existsb_exists. exists q. split; [exact Qh|]. apply (index_injective c q j); assumption.
  - destruct (memP c h) eqn:M; [|reflexivity]. exfalso.
    unfold memP in M. apply existsb_exists in M as [q [Qh E]].
    assert (Iq : inside d q = true) by (rewrite <- (inside_congr d _ _ E); exact I).
    assert (Mq : memP q excl = true).
    { unfold excl. rewrite dedup_memP. unfold memP. apply existsb_exists. exists q. split; [|apply peqb_refl].
      unfold remove_outside. apply filter_In. split; assumption. }
    unfold memP in Mq. apply existsb_exists in Mq as [q' [A E']].
    assert (Hq' : point_to_index els q' = Some j).
    { rewrite <- (point_to_index_congr els _ _ E'), <- (point_to_index_congr els _ _ E). exact Hj. }
    pose proof (In_ex q' j A Hq') as K. apply memZ_iff in K. congruence.
Qed.

Definition avail_of (ex : list Z) (t : Z) : list Z := filter (fun i => negb (memZ i ex)) (zrange 0 (t - 1)).

Lemma T_pos : (0 < T)%Z.
Proof. apply total_pos, Wels. Qed.
Lemma range_T_length : length (zrange 0 (T - 1)) = Z.to_nat T.
Proof. pose proof (zrange_length 0 (T - 1)) as L. pose proof T_pos. unfold zlen in L. lia. Qed.

Lemma avail_length : (zlen (avail_of ex T) + zlen ex = T)%Z.
Proof.
  pose proof (filter_notin_length ex (zrange 0 (T - 1)) ex_NoDup (zrange_NoDup _ _)) as C.
  rewrite range_T_length in C. unfold zlen, avail_of. pose proof T_pos.
  assert (I : incl ex (zrange 0 (T - 1))) by (intros i Hi; apply in_zrange; pose proof (ex_range i Hi); lia).
  specialize (C I). lia.
Qed.

Definition ix (c : point) : Z := match point_to_index els c with Some i => i | None => (-1)%Z end.

Lemma config_props c : In c (configs d) ->
  inside d c = true /\ length c = length els /\ exists j, point_to_index els c = Some j.
Proof.
  intro H. apply configs_In in H. destruct (elements_inside d Disc c H) as [A [_ C]].
  split; [exact A|]. split; [unfold els; rewrite map_length; apply inside_length; exact A|].
  apply inside_has_index; assumption.
Qed.

Lemma map_ix_configs : NoDup (map ix (configs d)) /\ incl (zrange 0 (T - 1)) (map ix (configs d)).
Proof.
  assert (I : incl (zrange 0 (T - 1)) (map ix (configs d))).
  { intros i Hi. apply in_zrange in Hi. assert (R : (0 <= i < T)%Z) by lia.
    apply in_map_iff. exists (index_to_point els i). split.
    - unfold ix. destruct (index_roundtrip els Wels i R) as [E _]. rewrite E. reflexivity.
    - apply configs_In. apply index_point_elements; [apply Wels|exact R]. }
  split; [|exact I].
  apply (@NoDup_incl_NoDup Z (zrange 0 (T - 1))); [apply zrange_NoDup| |exact I].
  rewrite map_length, range_T_length. pose proof (configs_length d) as L. fold els T in L. unfold zlen in L. lia.
Qed.

Lemma filter_map_length {A B} (f : A -> B) (g : B -> bool) l :
  length (filter (fun x => g (f x)) l) = length (filter g (map f l)).
Proof. induction l as [|x l IH]; cbn; [reflexivity|]. destruct (g (f x)); cbn; rewrite IH; reflexivity. Qed.

Lemma unobserved_length : (zlen (unobserved d h) + zlen ex = T)%Z.
Proof.
  unfold unobserved.
  assert (E : filter (fun c => negb (memP c h)) (configs d) = filter (fun c => negb (memZ (ix c) ex)) (configs d)).
  { apply filter_ext_in. intros c Hc. destruct (config_props c Hc) as [A [B [j Hj]]].
    unfold ix. rewrite Hj. f_equal. apply observed_iff; assumption. }
  rewrite E. unfold zlen. rewrite (filter_map_length ix (fun i => negb (memZ i ex))).
  destruct map_ix_configs as [N I].
  assert (Iex : incl ex (map ix (configs d))).
  { intros i Hi. apply I. apply in_zrange. pose proof (ex_range i Hi). lia. }
  pose proof (filter_notin_length ex _ ex_NoDup N Iex) as C. rewrite map_length in C.
  pose proof (configs_length d) as L. fold els T in L. unfold zlen in L. lia.
Qed.
End DistinctMain.

(* what the random library may return (contract of numpy.random.choice(replace=False) / randint) *)
Definition oracle_ok (p : plan) (orc : list Z) : Prop :=
  match p with
  | PChoice avail n => NoDup orc /\ incl orc avail /\ zlen orc = n
  | PAll _ total extra => zlen orc = extra /\ Forall (fun i => (0 <= i < total + 1)%Z) orc
  | _ => True
  end.

(* the branch that enumerates: more requested than remain, or k + #distinct in-domain history > duplicate_prob * total *)
Definition enumerative (d : domain) (k : Z) (h : list point) (dp : Q) : Prop :=
  let t := total_of (map elements d) in
  let nex := zlen (dedup_rows (remove_outside d h)) in
  (t < k + nex)%Z \/ dp * inject_Z t < inject_Z (k + nex).

Lemma result_props d h ex L :
  wf_dom d = true -> is_discrete d = true -> Forall (fun p => typed d p = true) h ->
  all_some (map (point_to_index (map elements d)) (dedup_rows (remove_outside d h))) = Some ex ->
  NoDup L -> incl L (avail_of ex (total_of (map elements d))) ->
  let r := map (index_to_point (map elements d)) L in
  zlen r = zlen L /\ NoDupA peq r /\ Forall (fun p => in_domain_b d p = true) r /\ Forall (fun p => ~ InA peq p h) r.
Proof.
  intros Wf Disc Ty Hex N I. set (els := map elements d). set (T := total_of els).
  pose proof (Wels d Wf Disc) as W. fold els in W.
  assert (R : forall i, In i L -> (0 <= i < T)%Z /\ ~ In i ex).
  { intros i Hi. apply I in Hi. unfold avail_of in Hi. apply filter_In in Hi as [A B]. apply in_zrange in A.
    split; [fold els T in A; lia|]. intro C. apply memZ_iff in C. rewrite C in B. discriminate. }
  cbn zeta. split; [unfold zlen; rewrite map_length; reflexivity|]. split; [|split].
  - clear I. induction N as [|a L Ha N IH]; cbn; [constructor|]. constructor.
    + intro C. apply InA_alt in C as [y [Py Hy]]. apply in_map_iff in Hy as [b [<- Hb]].
      destruct (R a (or_introl eq_refl)) as [Ra _]. destruct (R b (or_intror Hb)) as [Rb _].
      destruct (index_roundtrip els W a Ra) as [Ea _]. destruct (index_roundtrip els W b Rb) as [Eb _].
      apply peqb_iff in Py. rewrite (point_to_index_congr els _ _ Py) in Ea. fold els in Eb. congruence.
    + apply IH. intros i Hi. apply R. right. exact Hi.
  - apply Forall_forall. intros p Hp. apply in_map_iff in Hp as [i [<- Hi]]. destruct (R i Hi) as [Ri _].
    apply (elements_inside d Disc). apply index_point_elements; assumption.
  - apply Forall_forall. intros p Hp. apply in_map_iff in Hp as [i [<- Hi]]. destruct (R i Hi) as [Ri Ni].
    intro C. apply memP_iff in C.
    destruct (index_roundtrip els W i Ri) as [E Len].
    destruct (elements_inside d Disc _ (index_point_elements els W i Ri)) as [In_ _].
    rewrite (observed_iff d h Wf Disc Ty ex Hex _ i In_ Len E) in C. apply memZ_iff in C. contradiction.
Qed.

Lemma lens_ge1 els : wf_els els -> Forall (fun l => 1 <= l)%Z (map zlen els).
Proof.
  induction 1 as [|e els [Hne _] _ IH]; cbn; constructor; [|exact IH]. pose proof (zlen_pos e Hne). lia.
Qed.
Lemma zlen_nil_inv {A} (l : list A) : zlen l = 0%Z -> l = [].
Proof. destruct l; [reflexivity|]. rewrite zlen_cons. pose proof (zlen_nonneg l). lia. Qed.

Theorem distinct_spec d k h dp orc cols :
  wf_dom d = true -> is_discrete d = true -> (total_of (map elements d) < max_search)%Z -> (0 <= k)%Z ->
  Forall (fun p => typed d p = true) h ->
  enumerative d k h dp ->
  oracle_ok (distinct_plan d k h dp) orc ->
  exists r, distinct_points d k h dp orc cols = Some r /\
    zlen r = Z.min k (zlen (unobserved d h)) /\ NoDupA peq r /\
    Forall (fun p => in_domain_b d p = true) r /\ Forall (fun p => ~ InA peq p h) r.
Proof.
  intros Wf Disc Small Hk Ty En Or.
  set (els := map elements d) in *. set (T := total_of els) in *.
  set (excl := dedup_rows (remove_outside d h)) in *.
  pose proof (Wels d Wf Disc) as W. fold els in W.
  destruct (excl_indexes d h Disc Ty) as [ex Hex]. fold els excl in Hex.
  pose proof (ex_len d h ex Hex) as Lex. fold excl in Lex.
  pose proof (avail_length d h Wf Disc Ty ex Hex) as La. fold els T in La.
  pose proof (unobserved_length d h Wf Disc Ty ex Hex) as Lu. fold els T in Lu.
  pose proof (zlen_nonneg excl) as Nn. pose proof (zlen_nonneg (unobserved d h)) as Nu.
  set (avail := avail_of ex T) in *.
  assert (Nav : NoDup avail) by (apply NoDup_filter, zrange_NoDup).
  assert (All : exists r, Some (map (index_to_point els) avail) = Some r /\ zlen r = zlen avail /\ NoDupA peq r /\
                  Forall (fun p => in_domain_b d p = true) r /\ Forall (fun p => ~ InA peq p h) r).
  { eexists. split; [reflexivity|]. apply (result_props d h ex avail Wf Disc Ty Hex Nav). apply incl_refl. }
  assert (Htot : total_from 1 (map zlen els) = Some T).
  { rewrite (total_from_some _ (lens_ge1 els W) 1%Z) by (fold (total_of els); fold T; lia).
    f_equal. fold (total_of els). fold T. lia. }
  assert (Enum : forall n, enumerate els excl T n =
                   if (n <? zlen avail)%Z then PChoice avail n else PAll avail T (n - zlen avail)).
  { intro n. unfold enumerate. rewrite Hex. reflexivity. }
  unfold distinct_points. fold els. unfold distinct_plan in *. fold els excl in Or |- *.
  destruct (k =? 0)%Z eqn:K0.
  { apply Z.eqb_eq in K0. exists []. repeat split; try constructor. unfold zlen at 1. cbn. lia. }
  apply Z.eqb_neq in K0. rewrite Disc in *. cbn [negb] in *.
  unfold analyze in *. rewrite Htot in *.
  destruct (T <? k)%Z eqn:C1; [|destruct (T <? k + zlen excl)%Z eqn:C2;
    [|destruct (Qle_bool (inject_Z (k + zlen excl)) (dp * inject_Z T)) eqn:C3]].
  - (* ValueError: more than the whole domain *)
    apply Z.ltb_lt in C1. destruct (T - zlen excl <=? 0)%Z eqn:C4.
    + apply Z.leb_le in C4. exists []. repeat split; try constructor. unfold zlen at 1. cbn. lia.
    + apply Z.leb_gt in C4. rewrite Enum in *. replace (T - zlen excl <? zlen avail)%Z with false in * by (symmetry; apply Z.ltb_ge; lia).
      cbn in Or. destruct Or as [O1 _]. replace (T - zlen excl - zlen avail)%Z with 0%Z in O1 by lia.
      apply zlen_nil_inv in O1. subst orc. rewrite app_nil_r.
      destruct All as [r [E [A1 A2]]]. exists r. split; [exact E|]. split; [lia|exact A2].
  - apply Z.ltb_ge in C1. apply Z.ltb_lt in C2. destruct (T - zlen excl <=? 0)%Z eqn:C4.
    + apply Z.leb_le in C4. exists []. repeat split; try constructor. unfold zlen at 1. cbn. lia.
    + apply Z.leb_gt in C4. rewrite Enum in *. replace (T - zlen excl <? zlen avail)%Z with false in * by (symmetry; apply Z.ltb_ge; lia).
      cbn in Or. destruct Or as [O1 _]. replace (T - zlen excl - zlen avail)%Z with 0%Z in O1 by lia.
      apply zlen_nil_inv in O1. subst orc. rewrite app_nil_r.
      destruct All as [r [E [A1 A2]]]. exists r. split; [exact E|]. split; [lia|exact A2].
  - (* the i.i.d. shortcut is excluded by the hypothesis *)
    exfalso. apply Z.ltb_ge in C2. apply Qle_bool_iff in C3. unfold enumerative in En. fold els T excl in En.
    destruct En as [En|En]; [lia|]. apply Qlt_not_le in En. contradiction.
  - apply Z.ltb_ge in C1. apply Z.ltb_ge in C2. rewrite Enum in *.
    destruct (k <? zlen avail)%Z eqn:C4.
    + apply Z.ltb_lt in C4. cbn in Or. destruct Or as [O1 [O2 O3]].
      eexists. split; [reflexivity|].
      destruct (result_props d h ex orc Wf Disc Ty Hex O1 O2) as [R1 R2]. fold els in R1, R2.
      split; [lia|exact R2].
    + apply Z.ltb_ge in C4. cbn in Or. destruct Or as [O1 _]. replace (k - zlen avail)%Z with 0%Z in O1 by lia.
      apply zlen_nil_inv in O1. subst orc. rewrite app_nil_r.
      destruct All as [r [E [A1 A2]]]. exists r. split; [exact E|]. split; [lia|exact A2].
Qed.

(* ------------------------------------------------------------------ membership as a Prop, draws, full support *)
Definition in_comp (c : comp) (x : Q) : Prop :=
  match c with
  | CDouble lo hi => lo <= x /\ x <= hi
  | CInt lo hi => exists z : Z, x == inject_Z z /\ (lo <= z <= hi)%Z
  | CCat es => exists z : Z, In z es /\ x == inject_Z z
  | CGrid es => InA Qeq x es
  end.
Definition In_domain (d : domain) (p : point) : Prop := Forall2 in_comp d p.

(* range contracts of the random libraries *)
Definition draw_ok (r : request) (x : Q) : Prop :=
  match r with
  | RChoice a => InA Qeq x a
  | RRandint lo hi => exists z : Z, x == inject_Z z /\ (lo <= z < hi)%Z
  | RUniform lo hi => lo <= x /\ x <= hi
  | RTruncnorm a b loc s => loc + s * a <= x /\ x <= loc + s * b
  | RBeta a b loc s => loc <= x /\ x <= loc + s
  | RInvalid => False
  end.

Lemma memQ_InA x l : memQ x l = true <-> InA Qeq x l.
Proof.
  unfold memQ. rewrite existsb_exists, InA_alt. split; intros [y [A B]]; exists y.
  - split; [apply Qeq_bool_iff; exact B|exact A].
  - split; [exact B|apply Qeq_bool_iff; exact A].
Qed.
Lemma InA_inject x l : InA Qeq x (map inject_Z l) <-> exists z, In z l /\ x == inject_Z z.
Proof.
  rewrite InA_alt. split.
  - intros [y [A B]]. apply in_map_iff in B as [z [<- Hz]]. exists z. split; assumption.
  - intros [z [A B]]. exists (inject_Z z). split; [exact B|apply in_map; exact A].
Qed.

Lemma in_comp_b_iff c x : in_comp_b c x = true <-> in_comp c x.
Proof.
  destruct c as [lo hi|lo hi|es|es]; cbn [in_comp_b in_comp inside1].
  - rewrite andb_true_iff, !Qle_bool_iff. reflexivity.
  - rewrite memQ_InA, InA_inject. split; intros [z [A B]]; exists z.
    + apply in_zrange in A. split; assumption.
    + split; [apply in_zrange; exact B|exact A].
  - rewrite memQ_InA, InA_inject. reflexivity.
  - apply memQ_InA.
Qed.
Lemma in_domain_b_iff d : forall p, in_domain_b d p = true <-> In_domain d p.
Proof.
  induction d as [|c d IH]; intros [|x p]; cbn; split; intro H; try discriminate; try (inversion H; fail);
    try constructor; try reflexivity.
  - apply andb_true_iff in H as [H _]. apply in_comp_b_iff. exact H.
  - apply andb_true_iff in H as [_ H]. apply IH. exact H.
  - inversion H; subst. apply andb_true_iff. split; [apply in_comp_b_iff; assumption|apply IH; assumption].
Qed.

(* every value of the parameter, and nothing else, is within the requested draw: ints on [lo, hi + 1), choice over
   exactly the element list *)
Theorem full_support c x : in_comp c x <-> draw_ok (request1 c) x.
Proof.
  destruct c as [lo hi|lo hi|es|es]; cbn [in_comp draw_ok request1].
  - reflexivity.
  - split; intros [z [A B]]; exists z; (split; [exact A|lia]).
  - rewrite InA_inject. reflexivity.
  - reflexivity.
Qed.

Definition cols_ok (n : nat) (rs : list request) (cols : list (list Q)) : Prop :=
  Forall2 (fun r col => length col = n /\ Forall (draw_ok r) col) rs cols.

Lemma rows_of_in_domain d : forall n cols, cols_ok n (quasi_requests d) cols ->
  forall i, (i < n)%nat -> In_domain d (map (fun col => nth i col 0) cols).
Proof.
  induction d as [|c d IH]; intros n cols H i Hi; unfold quasi_requests in *; cbn in *; inversion H; subst; cbn.
  - constructor.
  - constructor.
    + apply full_support. destruct H2 as [L F]. rewrite Forall_forall in F. apply F. apply nth_In. lia.
    + apply (IH n); assumption.
Qed.
Theorem quasi_random_in_domain d n cols : cols_ok (Z.to_nat n) (quasi_requests d) cols ->
  Forall (In_domain d) (quasi_random n cols).
Proof.
  intro H. unfold quasi_random, rows_of. apply Forall_forall. intros p Hp. apply in_map_iff in Hp as [i [<- Hi]].
  apply in_seq in Hi. apply (rows_of_in_domain d _ cols H). lia.
Qed.
(* every admissible point is produced by some admissible draws *)
Theorem quasi_random_reaches d p : In_domain d p ->
  exists cols, cols_ok 1 (quasi_requests d) cols /\ quasi_random 1 cols = [p].
Proof.
  intro H. exists (map (fun x => [x]) p). split.
  - unfold quasi_requests. induction H as [|c x d p Hc _ IH]; cbn; constructor; [|exact IH].
    split; [reflexivity|]. constructor; [apply full_support; exact Hc|constructor].
  - unfold quasi_random, rows_of. change (Z.to_nat 1) with 1%nat. cbn [seq map]. f_equal.
    clear H. induction p as [|x p IH]; cbn; [reflexivity|]. f_equal. exact IH.
Qed.

(* ------------------------------------------------------------------ priors *)
Theorem prior_normal_truncated lo hi m s x : ~ s == 0 ->
  exists a b, request_prior (CDouble lo hi) (Normal m s) = RTruncnorm a b m s /\
    a == (lo - m) / s /\ b == (hi - m) / s /\
    (draw_ok (RTruncnorm a b m s) x <-> lo <= x /\ x <= hi).
Proof.
  intro Hs. eexists. eexists. split; [reflexivity|]. split; [reflexivity|]. split; [reflexivity|].
  cbn [draw_ok].
  assert (E1 : m + s * ((lo - m) / s) == lo) by (field; exact Hs).
  assert (E2 : m + s * ((hi - m) / s) == hi) by (field; exact Hs).
  rewrite E1, E2. reflexivity.
Qed.
Theorem prior_beta_scaled lo hi a b x :
  request_prior (CDouble lo hi) (Beta a b) = RBeta a b lo (hi - lo) /\
  (draw_ok (RBeta a b lo (hi - lo)) x <-> lo <= x /\ x <= hi).
Proof.
  split; [reflexivity|]. cbn [draw_ok]. assert (E : lo + (hi - lo) == hi) by ring. rewrite E. reflexivity.
Qed.
Theorem prior_absent c : request_prior c NoPrior = request1 c.
Proof. destruct c; reflexivity. Qed.
(* the three views use the prior sampler iff priors are supplied and the domain is unconstrained *)
Theorem view_dispatch {A} (ps : list A) constrained :
  view_path ps constrained = UsePriors <-> ps <> [] /\ constrained = false.
Proof.
  unfold view_path. destruct ps as [|a ps]; [|destruct constrained]; split.
  - discriminate.
  - intros [H _]. exfalso. apply H. reflexivity.
  - discriminate.
  - intros [_ H]. discriminate.
  - intros _. split; [discriminate|reflexivity].
  - reflexivity.
Qed.
Theorem view_requests_priors d ps : ps <> [] -> view_requests d ps false = Some (prior_requests d ps).
Proof. destruct ps; [congruence|reflexivity]. Qed.

(* every random-suggestion route of a whole SPE request honours the priors: the estimator is sampled only when the experiment is past
   its initialisation phase, not swamped by open suggestions and the estimator could be formed; on every other route the sampler is the
   prior sampler iff priors are supplied and the domain is unconstrained *)
Theorem spe_view_estimator_iff {A} (ps : list A) constrained init obs open formed :
  spe_view_sampler ps constrained init obs open formed = SEstimator <->
  init = false /\ sample_randomly obs open = false /\ formed = true.
Proof.
  unfold spe_view_sampler, random_sampler. destruct init; [split; [destruct (view_path ps constrained); discriminate|intros [H _]; discriminate]|].
  destruct (sample_randomly obs open); simpl; [split; [destruct (view_path ps constrained); discriminate|intros (_ & H & _); discriminate]|].
  destruct formed; simpl; split; try (destruct (view_path ps constrained); discriminate); auto.
  intros (_ & _ & H). discriminate.
Qed.
Theorem spe_view_random_routes {A} (ps : list A) constrained init obs open formed :
  init = true \/ sample_randomly obs open = true \/ formed = false ->
  spe_view_sampler ps constrained init obs open formed = random_sampler ps constrained /\
  (spe_view_sampler ps constrained init obs open formed = SPriors <-> ps <> [] /\ constrained = false).
Proof.
  intros H. assert (E : spe_view_sampler ps constrained init obs open formed = random_sampler ps constrained).
  { unfold spe_view_sampler. destruct init; [reflexivity|]. destruct (sample_randomly obs open); [reflexivity|]. destruct formed; [|reflexivity].
    destruct H as [H|[H|H]]; discriminate. }
  split; [exact E|]. rewrite E. unfold random_sampler. rewrite <- (view_dispatch ps constrained).
  destruct (view_path ps constrained); split; congruence.
Qed.
Theorem spe_search_view_random_routes {A} (ps : list A) constrained ph init obs open formed :
  ph = SearchInit \/ (ph = SearchExploit /\ (init = true \/ sample_randomly obs open = true \/ formed = false)) ->
  spe_search_view_sampler ps constrained ph init obs open formed = random_sampler ps constrained /\
  (spe_search_view_sampler ps constrained ph init obs open formed = SPriors <-> ps <> [] /\ constrained = false).
Proof.
  intros [->|[-> H]]; cbn [spe_search_view_sampler].
  - split; [reflexivity|]. unfold random_sampler. rewrite <- (view_dispatch ps constrained). destruct (view_path ps constrained); split; congruence.
  - apply spe_view_random_routes. exact H.
Qed.
Theorem sample_randomly_spec obs open : sample_randomly obs open = true <-> inject_Z obs <= (17 # 10) * inject_Z open.
Proof. unfold sample_randomly, SPE_OPEN_SUGGESTION_RATIO_BOUND. apply Qle_bool_iff. Qed.

(* ------------------------------------------------------------------ the i.i.d. shortcut violates the clause *)
Definition shortcut_d : domain :=
  [CInt 0 99; CCat [1; 2; 5; 7; 9; 11; 12; 13; 14; 15]%Z; CGrid [1 # 2; 3 # 2; 3; 7; 8]].
Definition shortcut_h : list point := [[0; 1; 1 # 2]; [1; 2; 3 # 2]; [0; 1; 1 # 2]].
Definition shortcut_cols : list (list Q) := [[0; 0]; [1; 1]; [1 # 2; 1 # 2]].

Theorem distinct_shortcut_refuted :
  exists d k h dp orc cols r,
    wf_dom d = true /\ is_discrete d = true /\ (total_of (map elements d) < max_search)%Z /\ (0 <= k)%Z /\
    Forall (fun p => typed d p = true) h /\ oracle_ok (distinct_plan d k h dp) orc /\
    cols_ok (Z.to_nat k) (quasi_requests d) cols /\
    distinct_points d k h dp orc cols = Some r /\
    ~ NoDupA peq r /\ (exists p, In p r /\ InA peq p h) /\ ~ enumerative d k h dp.
Proof.
  exists shortcut_d, 2%Z, shortcut_h, default_dup_prob, [], shortcut_cols, [[0; 1; 1 # 2]; [0; 1; 1 # 2]].
  split; [vm_compute; reflexivity|]. split; [vm_compute; reflexivity|]. split; [vm_compute; reflexivity|].
  split; [lia|]. split; [repeat constructor|]. split; [vm_compute; exact I|]. split.
  { unfold shortcut_d, shortcut_cols, quasi_requests, cols_ok. cbn [map request1 Z.to_nat Pos.to_nat Pos.iter_op Nat.add].
    repeat constructor.
    - exists 0%Z. split; [reflexivity|lia].
    - exists 0%Z. split; [reflexivity|lia]. }
  split; [vm_compute; reflexivity|]. split; [|split].
  - intro H. inversion H as [|x l Hx _]; subst. apply Hx. left. apply peqb_iff. reflexivity.
  - exists [0; 1; 1 # 2]. split; [left; reflexivity|]. left. apply peqb_iff. reflexivity.
  - unfold enumerative. vm_compute. intros [H|H]; discriminate.
Qed.

(* ------------------------------------------------------------------ de-duplication *)
Lemma far_iff V tol u v :
  far V tol u v = true <-> tol < 0 \/ tol * tol * inject_Z (zlen V) < sdist2 V u v.
Proof.
  unfold far, Qltb. destruct (Qle_bool 0 tol) eqn:E; cbn.
  - apply Qle_bool_iff in E. rewrite negb_true_iff. split.
    + intro H. right. apply Qnot_le_lt. intro C. apply Qle_bool_iff in C. congruence.
    + intros [H|H]; [exfalso; apply (Qlt_not_le _ _ H); exact E|].
      destruct (Qle_bool (sdist2 V u v) (tol * tol * inject_Z (zlen V))) eqn:C; [|reflexivity].
      apply Qle_bool_iff in C. exfalso. apply (Qlt_not_le _ _ H). exact C.
  - split; [|reflexivity]. intros _. left. apply Qnot_le_lt. intro C. apply Qle_bool_iff in C. congruence.
Qed.

Lemma unique_self_seq V tol : forall l earlier,
  unique_self V tol earlier l =
  map (fun j => forallb (fun e => far V tol e (nth j l [])) (earlier ++ firstn j l)) (seq 0 (length l)).
Proof.
  induction l as [|p r IH]; intro earlier; cbn [unique_self length seq map]; [reflexivity|].
  cbn [nth firstn]. rewrite app_nil_r. f_equal. rewrite IH, <- seq_shift, map_map.
  apply map_ext. intro j. cbn [nth firstn]. rewrite <- app_assoc. reflexivity.
Qed.

Lemma select_select {A B} (f : B -> bool) : forall (m1 : list bool) (es : list B) (l : list A),
  length es = length l -> length m1 = length l ->
  select (map f (select m1 es)) (select m1 l) = select (map (fun bm => fst bm && f (snd bm)) (combine m1 es)) l.
Proof.
  induction m1 as [|b m1 IH]; intros [|e es] [|x l] L1 L2; cbn in *; try discriminate; try reflexivity.
  destruct b; cbn; [destruct (f e)|]; rewrite IH by lia; reflexivity.
Qed.
Lemma all_some_select {A B} (f : A -> option B) : forall (m : list bool) (l : list A) (ys : list B),
  all_some (map f l) = Some ys -> all_some (map f (select m l)) = Some (select m ys).
Proof.
  induction m as [|b m IH]; intros l ys H; [reflexivity|].
  destruct l as [|x l]; cbn in H.
  - inversion H; subst. reflexivity.
  - destruct (f x) as [y|] eqn:E; [|discriminate]. destruct (all_some (map f l)) as [r|] eqn:R; [|discriminate].
    inversion H; subst. destruct b; cbn; rewrite ?E, (IH l r R); reflexivity.
Qed.
Lemma all_some_length {A B} (f : A -> option B) l ys : all_some (map f l) = Some ys -> length ys = length l.
Proof. intro H. apply all_some_Forall2 in H. symmetry. eapply Forall2_len. exact H. Qed.

(* member j survives iff it is farther than the threshold from every earlier member (dropped or not) and from every
   history row *)
Definition keep_mask (d : domain) (tol : Q) (eps ehs : list point) : list bool :=
  let V := map scale1 d in
  map (fun j => forallb (fun e => far V tol e (nth j eps [])) (firstn j eps) &&
                forallb (fun c => far V tol c (nth j eps [])) ehs) (seq 0 (length eps)).

Theorem dedupe_spec d pts hist tol orc cols eps ehs :
  all_some (map (enum_point d) pts) = Some eps -> all_some (map (enum_point d) hist) = Some ehs ->
  let kept := select (keep_mask d tol eps ehs) pts in
  replace_duplicates d pts hist tol orc cols =
    match distinct_points d (zlen pts - zlen kept) hist default_dup_prob orc cols with
    | Some fill => Some (kept ++ fill)
    | None => None
    end.
Proof.
  intros He Hh kept. unfold replace_duplicates, identify_unique. rewrite He.
  set (V := map scale1 d). set (m1 := unique_self V tol [] eps).
  rewrite (all_some_select _ m1 pts eps He), Hh.
  pose proof (all_some_length _ _ _ He) as Le.
  assert (Lm : length m1 = length pts).
  { unfold m1. rewrite unique_self_seq, map_length, seq_length. exact Le. }
  assert (E : select (unique_vs V tol ehs (select m1 eps)) (select m1 pts) = kept).
  { unfold unique_vs. rewrite (select_select (fun p => forallb (fun c => far V tol c p) ehs) m1 eps pts Le Lm).
    unfold kept, keep_mask. fold V. f_equal. unfold m1. rewrite unique_self_seq.
    cbn [app].
    assert (G : forall (l : list point) (k : nat) (pre : list point), length pre = k ->
      map (fun bm => fst bm && forallb (fun c => far V tol c (snd bm)) ehs)
          (combine (map (fun j => forallb (fun e => far V tol e (nth j (pre ++ l) [])) (firstn j (pre ++ l))) (seq k (length l))) l)
      = map (fun j => forallb (fun e => far V tol e (nth j (pre ++ l) [])) (firstn j (pre ++ l)) &&
                      forallb (fun c => far V tol c (nth j (pre ++ l) [])) ehs) (seq k (length l))).
    { induction l as [|x l IH]; intros k pre Hk; cbn [length seq map combine]; [reflexivity|]. f_equal.
      - cbn [fst snd]. rewrite app_nth2 by lia. replace (k - length pre)%nat with 0%nat by lia. reflexivity.
      - specialize (IH (S k) (pre ++ [x])). rewrite <- app_assoc in IH. cbn [app] in IH. apply IH.
        rewrite app_length. cbn. lia. }
    exact (G eps 0%nat [] eq_refl). }
  rewrite E. reflexivity.
Qed.

(* the first member is never dropped by the comparison within the batch, and a member far from everything is kept *)
Lemma nth_map_seq {A} (f : nat -> A) n j dflt : (j < n)%nat -> nth j (map f (seq 0 n)) dflt = f j.
Proof.
  intro H. rewrite (nth_indep _ dflt (f 0%nat)) by (rewrite map_length, seq_length; exact H).
  rewrite map_nth, seq_nth by exact H. reflexivity.
Qed.
Lemma keep_mask_nth d tol eps ehs j : (j < length eps)%nat ->
  nth j (keep_mask d tol eps ehs) false =
  forallb (fun e => far (map scale1 d) tol e (nth j eps [])) (firstn j eps) &&
  forallb (fun c => far (map scale1 d) tol c (nth j eps [])) ehs.
Proof. intro H. unfold keep_mask. rewrite nth_map_seq by exact H. reflexivity. Qed.

Lemma select_length_le {A} : forall (m : list bool) (l : list A), (length (select m l) <= length l)%nat.
Proof.
  induction m as [|b m IH]; intros [|x l]; cbn; try lia. destruct b; cbn; specialize (IH l); lia.
Qed.
Lemma zlen_app {A} (a b : list A) : zlen (a ++ b) = (zlen a + zlen b)%Z.
Proof. unfold zlen. rewrite app_length. lia. Qed.

(* batch size: on the enumerating branch the result has |kept| + min(dropped, #unobserved) rows *)
Theorem dedupe_size d pts hist tol orc cols eps ehs :
  all_some (map (enum_point d) pts) = Some eps -> all_some (map (enum_point d) hist) = Some ehs ->
  let kept := select (keep_mask d tol eps ehs) pts in
  let m := (zlen pts - zlen kept)%Z in
  wf_dom d = true -> is_discrete d = true -> (total_of (map elements d) < max_search)%Z ->
  Forall (fun p => typed d p = true) hist ->
  enumerative d m hist default_dup_prob ->
  oracle_ok (distinct_plan d m hist default_dup_prob) orc ->
  exists fill, replace_duplicates d pts hist tol orc cols = Some (kept ++ fill) /\
    zlen fill = Z.min m (zlen (unobserved d hist)) /\
    ((m <= zlen (unobserved d hist))%Z -> zlen (kept ++ fill) = zlen pts) /\
    NoDupA peq fill /\ Forall (fun p => in_domain_b d p = true) fill /\ Forall (fun p => ~ InA peq p hist) fill.
Proof.
  intros He Hh kept m Wf Disc Small Ty En Or.
  assert (Hm : (0 <= m)%Z).
  { unfold m, kept, zlen. pose proof (select_length_le (keep_mask d tol eps ehs) pts). lia. }
  destruct (distinct_spec d m hist default_dup_prob orc cols Wf Disc Small Hm Ty En Or) as [fill [E [L R]]].
  exists fill. rewrite (dedupe_spec d pts hist tol orc cols eps ehs He Hh). fold kept m. rewrite E.
  split; [reflexivity|]. split; [exact L|]. split; [|exact R].
  intro Hle. rewrite zlen_app, L. unfold m in *. lia.
Qed.

Lemma rows_of_length n cols : length (rows_of n cols) = n.
Proof. unfold rows_of. rewrite map_length, seq_length. reflexivity. Qed.
Lemma enumerate_not_random els excl t n m : enumerate els excl t n <> PRandom m.
Proof.
  unfold enumerate. destruct (all_some _); [|discriminate].
  match goal with |- context [if ?c then _ else _] => destruct c end; discriminate.
Qed.
Lemma plan_random_n d k h dp n : distinct_plan d k h dp = PRandom n -> n = k.
Proof.
  unfold distinct_plan. destruct (k =? 0)%Z; [discriminate|]. destruct (negb (is_discrete d)); [congruence|].
  destruct (analyze _ _ _ _); try congruence.
  - destruct (_ <=? 0)%Z; [discriminate|]. intro H. apply enumerate_not_random in H. contradiction.
  - intro H. apply enumerate_not_random in H. contradiction.
Qed.
(* on the random branches (non-discrete domain, huge domain, shortcut) the batch size is always restored *)
Theorem dedupe_size_random d pts hist tol orc cols eps ehs n :
  all_some (map (enum_point d) pts) = Some eps -> all_some (map (enum_point d) hist) = Some ehs ->
  let kept := select (keep_mask d tol eps ehs) pts in
  distinct_plan d (zlen pts - zlen kept) hist default_dup_prob = PRandom n ->
  exists fill, replace_duplicates d pts hist tol orc cols = Some (kept ++ fill) /\ zlen (kept ++ fill) = zlen pts.
Proof.
  intros He Hh kept Hp. rewrite (dedupe_spec d pts hist tol orc cols eps ehs He Hh). fold kept.
  unfold distinct_points. rewrite Hp. eexists. split; [reflexivity|].
  apply plan_random_n in Hp. rewrite zlen_app. unfold quasi_random, zlen at 2. rewrite rows_of_length.
  assert (0 <= zlen pts - zlen kept)%Z.
  { unfold kept, zlen. pose proof (select_length_le (keep_mask d tol eps ehs) pts). lia. }
  subst n. lia.
Qed.

(* non-vacuity of distinct_spec: 15 configurations, one observed 14 times plus an out-of-domain row, ask 5 *)
Example distinct_example :
  let d := [CInt 0 4; CCat [1; 2; 5]%Z] in
  let h := repeat [2; 5] 14 ++ [[9; 1]] in
  wf_dom d = true /\ is_discrete d = true /\ Forall (fun p => typed d p = true) h /\
  enumerative d 5 h 0 /\ oracle_ok (distinct_plan d 5 h 0) [0; 3; 7; 9; 13]%Z /\
  distinct_points d 5 h 0 [0; 3; 7; 9; 13]%Z [] = Some [[0; 1]; [3; 1]; [2; 2]; [4; 2]; [3; 5]] /\
  zlen (unobserved d h) = 14%Z.
Proof.
  cbn zeta. split; [reflexivity|]. split; [reflexivity|]. split; [repeat constructor|].
  split; [right; vm_compute; reflexivity|]. split.
  - vm_compute. split; [repeat constructor; cbn; intuition discriminate|]. split; [|reflexivity].
    intros x Hx. cbn in Hx. cbn. intuition.
  - split; vm_compute; reflexivity.
Qed.
