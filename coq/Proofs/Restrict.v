(* C08: restriction into a box with linear constraints never leaves the constrained region. *)
From Coq Require Import List QArith Qabs Bool Arith Lia Lra Psatz.
From LV Require Import Model.Restrict.
Import ListNotations.
Open Scope Q_scope.

(* ------------------------------------------------------------------ the region, as propositions *)
Definition sat (x : point) (h : halfspace) : Prop := dot (fst h) x <= snd h.
Definition strict (x : point) (h : halfspace) : Prop := dot (fst h) x < snd h.
Definition sat_all (hs : list halfspace) (x : point) : Prop := forall h, In h hs -> sat x h.
Definition strict_all (hs : list halfspace) (x : point) : Prop := forall h, In h hs -> strict x h.
Definition in_box (bs : list (Q * Q)) (x : point) : Prop := Forall2 (fun b xi => fst b <= xi <= snd b) bs x.
(* the constrained region stated directly: inside the bounds and weights . x >= rhs for every constraint *)
Definition feasible (d : domain) (x : point) : Prop :=
  in_box (bounds d) x /\ forall c, In c (cstrs d) -> snd c <= dot (fst c) x.
Definition unit_interval (u : Q) : Prop := 0 <= u <= 1.

Lemma Qltb_lt x y : Qltb x y = true <-> x < y.
Proof.
  unfold Qltb. rewrite negb_true_iff. split.
  - intros H. destruct (Qlt_le_dec x y) as [L|L]; [exact L|]. apply Qle_bool_iff in L. congruence.
  - intros H. destruct (Qle_bool y x) eqn:E; [|reflexivity]. apply Qle_bool_iff in E. exfalso. apply (Qlt_not_le _ _ H E).
Qed.
Lemma Qltb_ge x y : Qltb x y = false <-> y <= x.
Proof. unfold Qltb. rewrite negb_false_iff. apply Qle_bool_iff. Qed.

Lemma sat_b_iff x h : sat_b x h = true <-> sat x h.
Proof. unfold sat_b, sat. apply Qle_bool_iff. Qed.
Lemma sat_all_b_iff hs x : sat_all_b hs x = true <-> sat_all hs x.
Proof.
  unfold sat_all_b, sat_all. rewrite forallb_forall. split; intros H h Hh.
  - apply sat_b_iff, H, Hh.
  - apply sat_b_iff, H, Hh.
Qed.
Lemma in_box_b_iff : forall bs x, in_box_b bs x = true <-> in_box bs x.
Proof.
  induction bs as [|b bs IH]; intros [|xi x]; simpl; split; intros H; try discriminate; try constructor; try (inversion H; fail).
  - apply andb_true_iff in H. destruct H as [H H3]. apply andb_true_iff in H. destruct H as [H1 H2].
    split; apply Qle_bool_iff; assumption.
  - apply andb_true_iff in H. destruct H as [_ H3]. apply IH, H3.
  - inversion H as [|? ? ? ? [H1 H2] H3]; subst. rewrite !andb_true_iff. repeat split.
    + apply Qle_bool_iff, H1.
    + apply Qle_bool_iff, H2.
    + apply IH, H3.
Qed.
Lemma in_box_length bs x : in_box bs x -> length x = length bs.
Proof. induction 1; simpl; [reflexivity|]. rewrite IHForall2. reflexivity. Qed.

(* ------------------------------------------------------------------ dot products of affine combinations *)
Lemma dot_nil_r a : dot a [] = 0.
Proof. destruct a; reflexivity. Qed.

Lemma dot_map2_affine (f : Q -> Q -> Q) (al be : Q) :
  (forall x y, f x y == al * x + be * y) ->
  forall a p v, length p = length v -> dot a (map2 f p v) == al * dot a p + be * dot a v.
Proof.
  intros Hf. induction a as [|ai a IH]; intros p v Hl.
  - simpl. ring.
  - destruct p as [|pi p], v as [|vi v]; simpl in Hl; try discriminate.
    + simpl. ring.
    + simpl. rewrite IH by lia. rewrite Hf. ring.
Qed.

Lemma in_box_map2_convex (f : Q -> Q -> Q) (al be : Q) :
  (forall x y, f x y == al * x + be * y) -> 0 <= al -> 0 <= be -> al + be == 1 ->
  forall bs p v, in_box bs p -> in_box bs v -> in_box bs (map2 f p v).
Proof.
  intros Hf Ha Hb Hab. induction bs as [|b bs IH]; intros p v Hp Hv.
  - inversion Hp; inversion Hv; subst. constructor.
  - inversion Hp as [|? pi ? p' [P1 P2] P3]; subst. inversion Hv as [|? vi ? v' [V1 V2] V3]; subst.
    simpl. constructor; [|apply IH; assumption].
    rewrite Hf. assert (E : be == 1 - al) by lra. rewrite E in *. split; nra.
Qed.

Lemma combine_affine e x y : x * e + (1 - e) * y == e * x + (1 - e) * y.
Proof. ring. Qed.
Lemma dot_combine e a p v : length p = length v ->
  dot a (combine_toward e p v) == e * dot a p + (1 - e) * dot a v.
Proof. intros Hl. unfold combine_toward. apply (dot_map2_affine _ e (1 - e)); [intros; ring|exact Hl]. Qed.
Lemma in_box_combine e bs p v : 0 <= e <= 1 -> in_box bs p -> in_box bs v -> in_box bs (combine_toward e p v).
Proof.
  intros [H0 H1]. unfold combine_toward. apply (in_box_map2_convex _ e (1 - e)); try lra. intros; ring.
Qed.

(* ------------------------------------------------------------------ the scalar core (one constraint) *)
(* P = a.p (clipped point), V = a.v (viable point), B = right-hand side, t = fraction moved toward v *)
Lemma fix_violated P V B t :
  V < B -> P > B -> (B - P) / (V - P) <= t -> t <= 1 -> P + t * (V - P) <= B.
Proof.
  intros HV HP Ht H1.
  assert (Hd : V - P < 0) by lra.
  assert (Hm : t * (V - P) <= B - P).
  { setoid_replace (B - P) with (((B - P) / (V - P)) * (V - P)) by (field; lra). nra. }
  lra.
Qed.
Lemma keep_satisfied P V B t : P <= B -> V <= B -> 0 <= t -> t <= 1 -> P + t * (V - P) <= B.
Proof. intros. nra. Qed.

Lemma valid_0 : valid 0 = false.
Proof. reflexivity. Qed.

(* a valid multiplier (strictly between 0 and 1) can only come from a violated constraint when v is feasible *)
Lemma valid_implies_violated v p h :
  sat v h -> valid (multiplier v p h) = true -> snd h < dot (fst h) p.
Proof.
  unfold sat, multiplier. set (P := dot (fst h) p). set (V := dot (fst h) v). set (B := snd h). intros HV.
  destruct (Qeq_bool (V - P) 0) eqn:E; [rewrite valid_0; discriminate|].
  intros Hval. unfold valid in Hval. apply andb_true_iff in Hval. destruct Hval as [H0 H1].
  apply Qltb_lt in H0. apply Qltb_lt in H1.
  assert (Hd : ~ V - P == 0). { intros C. apply Qeq_bool_iff in C. congruence. }
  set (m := (B - P) / (V - P)) in *.
  assert (Em : m * (V - P) == B - P). { unfold m. field. exact Hd. }
  destruct (Qlt_le_dec B P) as [L|L]; [exact L|exfalso].
  destruct (Qlt_le_dec (V - P) 0) as [D|D]; nra.
Qed.

(* a violated constraint yields a valid multiplier when v is strictly feasible *)
Lemma violated_implies_valid v p h :
  strict v h -> snd h < dot (fst h) p ->
  valid (multiplier v p h) = true /\
  multiplier v p h == (snd h - dot (fst h) p) / (dot (fst h) v - dot (fst h) p).
Proof.
  unfold strict, multiplier. set (P := dot (fst h) p). set (V := dot (fst h) v). set (B := snd h). intros HV HP.
  assert (Hd : ~ V - P == 0) by lra.
  destruct (Qeq_bool (V - P) 0) eqn:E; [apply Qeq_bool_iff in E; contradiction|].
  split; [|reflexivity].
  set (m := (B - P) / (V - P)).
  assert (Em : m * (V - P) == B - P). { unfold m. field. exact Hd. }
  unfold valid. apply andb_true_iff. split; apply Qltb_lt.
  - destruct (Qlt_le_dec 0 m) as [L|L]; [exact L|exfalso; nra].
  - destruct (Qlt_le_dec m 1) as [L|L]; [exact L|exfalso; nra].
Qed.

Lemma Qmaxb_l a b : a <= Qmaxb a b.
Proof. unfold Qmaxb. destruct (Qle_bool a b) eqn:E; [apply Qle_bool_iff, E|lra]. Qed.
Lemma Qmaxb_r a b : b <= Qmaxb a b.
Proof.
  unfold Qmaxb. destruct (Qle_bool a b) eqn:E; [lra|].
  destruct (Qlt_le_dec a b) as [L|L]; [|exact L]. exfalso. assert (H : a <= b) by lra. apply Qle_bool_iff in H. congruence.
Qed.
Lemma Qmaxb_cases a b : Qmaxb a b = a \/ Qmaxb a b = b.
Proof. unfold Qmaxb. destruct (Qle_bool a b); auto. Qed.

Lemma masked_range v p h : 0 <= masked v p h /\ masked v p h < 1.
Proof.
  unfold masked. destruct (valid (multiplier v p h)) eqn:E; [|lra].
  unfold valid in E. apply andb_true_iff in E. destruct E as [H0 H1]. apply Qltb_lt in H0. apply Qltb_lt in H1. lra.
Qed.
Lemma max_correction_range hs v p : 0 <= max_correction hs v p /\ max_correction hs v p < 1.
Proof.
  induction hs as [|h hs IH]; simpl; [lra|].
  destruct (Qmaxb_cases (masked v p h) (max_correction hs v p)) as [E|E]; rewrite E; [apply masked_range|exact IH].
Qed.
Lemma max_correction_ge hs v p h : In h hs -> masked v p h <= max_correction hs v p.
Proof.
  induction hs as [|h' hs IH]; simpl; [contradiction|]. intros [->|Hin].
  - apply Qmaxb_l.
  - eapply Qle_trans; [apply IH, Hin|apply Qmaxb_r].
Qed.

(* ------------------------------------------------------------------ one point *)
Lemma restrict_one_unchanged hs v on p us :
  sat_all hs v -> sat_all hs p -> restrict_one hs v on p us = (p, us).
Proof.
  intros Hv Hp. unfold restrict_one.
  destruct (needs_correction hs v p) eqn:E; [|reflexivity]. exfalso.
  unfold needs_correction in E. apply existsb_exists in E. destruct E as [h [Hin Hval]].
  apply valid_implies_violated in Hval; [|apply Hv, Hin].
  specialize (Hp h Hin). unfold sat in Hp. lra.
Qed.

Lemma restrict_one_correct bs hs v on p us :
  in_box bs v -> strict_all hs v -> in_box bs p -> Forall unit_interval us ->
  let r := restrict_one hs v on p us in
  in_box bs (fst r) /\ sat_all hs (fst r) /\ Forall unit_interval (snd r).
Proof.
  intros Bv Sv Bp Hus. cbv zeta. unfold restrict_one.
  destruct (needs_correction hs v p) eqn:E.
  - set (mc := max_correction hs v p).
    assert (Hmc : 0 <= mc /\ mc < 1) by apply max_correction_range.
    assert (Hl : length p = length v). { rewrite (in_box_length _ _ Bp), (in_box_length _ _ Bv). reflexivity. }
    assert (core : forall u us', unit_interval u -> Forall unit_interval us' ->
              in_box bs (combine_toward ((1 - mc) * u) p v) /\ sat_all hs (combine_toward ((1 - mc) * u) p v) /\
              Forall unit_interval us').
    { intros u us' [U0 U1] Hus'. set (e := (1 - mc) * u).
      assert (He : 0 <= e /\ e <= 1 - mc) by (unfold e; split; nra).
      split; [apply in_box_combine; [lra|assumption|assumption]|]. split; [|exact Hus'].
      intros h Hin. unfold sat. rewrite (dot_combine e (fst h) p v Hl).
      set (P := dot (fst h) p). set (V := dot (fst h) v). set (B := snd h).
      assert (HV : V < B) by apply (Sv h Hin).
      setoid_replace (e * P + (1 - e) * V) with (P + (1 - e) * (V - P)) by ring.
      destruct (Qlt_le_dec B P) as [L|L].
      - destruct (violated_implies_valid v p h (Sv h Hin) L) as [Hval Hm].
        assert (Hge : masked v p h <= mc) by apply (max_correction_ge hs v p h Hin).
        unfold masked in Hge. rewrite Hval in Hge. rewrite Hm in Hge. fold P V B in Hge.
        apply fix_violated; try lra.
      - apply keep_satisfied; lra. }
    destruct on.
    + apply core; [split; lra|exact Hus].
    + destruct us as [|u us'].
      * apply core; [split; lra|constructor].
      * inversion Hus; subst. apply core; assumption.
  - simpl. split; [exact Bp|]. split; [|exact Hus].
    intros h Hin. unfold sat. destruct (Qlt_le_dec (snd h) (dot (fst h) p)) as [L|L]; [|exact L]. exfalso.
    destruct (violated_implies_valid v p h (Sv h Hin) L) as [Hval _].
    unfold needs_correction in E. assert (X : existsb (fun h => valid (multiplier v p h)) hs = true).
    { apply existsb_exists. exists h. split; assumption. }
    congruence.
Qed.

Lemma restrict_list_correct bs hs v on : in_box bs v -> strict_all hs v ->
  forall ps us, Forall (in_box bs) ps -> Forall unit_interval us ->
  let r := restrict_list hs v on ps us in
  Forall (in_box bs) (fst r) /\ Forall (sat_all hs) (fst r) /\ Forall unit_interval (snd r) /\ length (fst r) = length ps.
Proof.
  intros Bv Sv. induction ps as [|p ps IH]; intros us Hps Hus; cbv zeta; simpl.
  - repeat split; try constructor. exact Hus.
  - inversion Hps; subst.
    pose proof (restrict_one_correct bs hs v on p us Bv Sv H1 Hus) as R. cbv zeta in R.
    destruct (restrict_one hs v on p us) as [q us1]. simpl in R. destruct R as [R1 [R2 R3]].
    specialize (IH us1 H2 R3). cbv zeta in IH.
    destruct (restrict_list hs v on ps us1) as [qs us2]. simpl in *. destruct IH as [I1 [I2 [I3 I4]]].
    repeat split; try constructor; auto.
Qed.

Lemma restrict_list_unchanged hs v on : sat_all hs v ->
  forall ps us, Forall (sat_all hs) ps -> restrict_list hs v on ps us = (ps, us).
Proof.
  intros Hv. induction ps as [|p ps IH]; intros us Hps; simpl; [reflexivity|].
  inversion Hps; subst. rewrite (restrict_one_unchanged hs v on p us Hv H1). rewrite (IH us H2). reflexivity.
Qed.

(* ------------------------------------------------------------------ clip *)
Lemma clip_in_box : forall bs p, (forall b, In b bs -> fst b <= snd b) -> length p = length bs -> in_box bs (clip bs p).
Proof.
  induction bs as [|b bs IH]; intros [|x p] Hb Hl; simpl in Hl; try discriminate; [constructor|].
  unfold clip. simpl. constructor.
  - assert (B := Hb b (or_introl eq_refl)). unfold clip1.
    destruct (Qltb x (fst b)) eqn:E1; [lra|]. apply Qltb_ge in E1.
    destruct (Qltb (snd b) x) eqn:E2; [lra|]. apply Qltb_ge in E2. lra.
  - apply IH; [intros b' Hin; apply Hb; right; exact Hin|lia].
Qed.
Lemma clip_id : forall bs p, in_box bs p -> clip bs p = p.
Proof.
  induction bs as [|b bs IH]; intros p Hp; inversion Hp as [|? x ? p' [H1 H2] H3]; subst; [reflexivity|].
  unfold clip. simpl. f_equal; [|apply IH, H3].
  unfold clip1. destruct (Qltb x (fst b)) eqn:E1; [apply Qltb_lt in E1; lra|].
  destruct (Qltb (snd b) x) eqn:E2; [apply Qltb_lt in E2; lra|reflexivity].
Qed.
Lemma in_box_bounds_ordered bs c : in_box bs c -> forall b, In b bs -> fst b <= snd b.
Proof.
  induction 1 as [|b x bs c [H1 H2] _ IH]; intros b' Hin; simpl in Hin; [contradiction|].
  destruct Hin as [->|Hin]; [lra|apply IH, Hin].
Qed.

(* ------------------------------------------------------------------ bound rows say "inside the box" *)
Lemma dot_repeat0 : forall k x, dot (repeat 0 k) x == 0.
Proof. induction k as [|k IH]; intros [|xi x]; simpl; try reflexivity. rewrite IH. ring. Qed.
Lemma dot_skip : forall pre xs a y, length xs = pre -> dot (repeat 0 pre ++ a) (xs ++ y) == dot a y.
Proof.
  induction pre as [|pre IH]; intros [|xi xs] a y Hl; simpl in Hl; try discriminate; [reflexivity|].
  simpl. rewrite IH by lia. ring.
Qed.
Lemma sat_all_cons h hs x : sat_all (h :: hs) x <-> sat x h /\ sat_all hs x.
Proof.
  unfold sat_all. split.
  - intros H. split; [apply H; left; reflexivity|intros h' Hin; apply H; right; exact Hin].
  - intros [H1 H2] h' [<-|Hin]; [exact H1|apply H2, Hin].
Qed.
Lemma sat_all_app hs1 hs2 x : sat_all (hs1 ++ hs2) x <-> sat_all hs1 x /\ sat_all hs2 x.
Proof.
  unfold sat_all. split.
  - intros H. split; intros h Hin; apply H, in_or_app; [left|right]; exact Hin.
  - intros [H1 H2] h Hin. apply in_app_or in Hin. destruct Hin; [apply H1|apply H2]; assumption.
Qed.
Lemma strict_all_app hs1 hs2 x : strict_all (hs1 ++ hs2) x <-> strict_all hs1 x /\ strict_all hs2 x.
Proof.
  unfold strict_all. split.
  - intros H. split; intros h Hin; apply H, in_or_app; [left|right]; exact Hin.
  - intros [H1 H2] h Hin. apply in_app_or in Hin. destruct Hin; [apply H1|apply H2]; assumption.
Qed.

Lemma lower_rows_sat : forall bs pre xs x, length xs = pre -> length x = length bs ->
  (sat_all (lower_rows pre bs) (xs ++ x) <-> Forall2 (fun b xi => fst b <= xi) bs x).
Proof.
  induction bs as [|b bs IH]; intros pre xs [|xi x] Hp Hl; simpl in Hl; try discriminate.
  - simpl. split; [constructor|intros _ h Hin; destruct Hin].
  - simpl lower_rows. rewrite sat_all_cons.
    assert (E : dot (repeat 0 pre ++ - (1) :: repeat 0 (length bs)) (xs ++ xi :: x) == - xi).
    { rewrite dot_skip by exact Hp. simpl. rewrite dot_repeat0. ring. }
    replace (xs ++ xi :: x) with ((xs ++ [xi]) ++ x) at 2 by (rewrite <- app_assoc; reflexivity).
    rewrite (IH (S pre) (xs ++ [xi]) x) by (try rewrite app_length; simpl; lia).
    unfold sat. simpl fst. simpl snd. rewrite E. split.
    + intros [H1 H2]. constructor; [lra|exact H2].
    + intros H. inversion H; subst. split; [lra|assumption].
Qed.
Lemma upper_rows_sat : forall bs pre xs x, length xs = pre -> length x = length bs ->
  (sat_all (upper_rows pre bs) (xs ++ x) <-> Forall2 (fun b xi => xi <= snd b) bs x).
Proof.
  induction bs as [|b bs IH]; intros pre xs [|xi x] Hp Hl; simpl in Hl; try discriminate.
  - simpl. split; [constructor|intros _ h Hin; destruct Hin].
  - simpl upper_rows. rewrite sat_all_cons.
    assert (E : dot (repeat 0 pre ++ 1 :: repeat 0 (length bs)) (xs ++ xi :: x) == xi).
    { rewrite dot_skip by exact Hp. simpl. rewrite dot_repeat0. ring. }
    replace (xs ++ xi :: x) with ((xs ++ [xi]) ++ x) at 2 by (rewrite <- app_assoc; reflexivity).
    rewrite (IH (S pre) (xs ++ [xi]) x) by (try rewrite app_length; simpl; lia).
    unfold sat. simpl fst. simpl snd. rewrite E. split.
    + intros [H1 H2]. constructor; [lra|exact H2].
    + intros H. inversion H; subst. split; [lra|assumption].
Qed.
Lemma Forall2_conj {A B} (P Q : A -> B -> Prop) : forall l1 l2,
  Forall2 (fun a b => P a b /\ Q a b) l1 l2 <-> Forall2 P l1 l2 /\ Forall2 Q l1 l2.
Proof.
  induction l1 as [|a l1 IH]; intros [|b l2]; split; intros H;
    try (destruct H as [H1 H2]; inversion H1; inversion H2; subst); try (inversion H; subst); try (repeat constructor; fail).
  - apply IH in H5. destruct H3, H5. split; constructor; assumption.
  - constructor; [split; assumption|apply IH; split; assumption].
Qed.
Lemma bound_rows_sat bs x : length x = length bs ->
  (sat_all (lower_rows 0 bs ++ upper_rows 0 bs) x <-> in_box bs x).
Proof.
  intros Hl. rewrite sat_all_app.
  rewrite (lower_rows_sat bs 0 [] x eq_refl Hl), (upper_rows_sat bs 0 [] x eq_refl Hl).
  unfold in_box. rewrite (Forall2_conj (fun b xi => fst b <= xi) (fun b xi => xi <= snd b)). reflexivity.
Qed.

Lemma cons_rows_sat d x : sat_all (cons_rows d) x <-> forall c, In c (cstrs d) -> snd c <= dot (fst c) x.
Proof.
  assert (N : forall a y, dot (map Qopp a) y == - dot a y).
  { induction a as [|ai a IH]; intros [|yi y]; simpl; try ring. rewrite IH. ring. }
  unfold sat_all, cons_rows, sat. split.
  - intros H c Hc. specialize (H _ (in_map _ _ _ Hc)). simpl in H. rewrite N in H. lra.
  - intros H h Hh. apply in_map_iff in Hh. destruct Hh as [c [<- Hc]]. simpl. rewrite N. specialize (H c Hc). lra.
Qed.

(* satisfying every halfspace row of the library = being in the constrained region *)
Lemma halfspaces_sat_iff d x : length x = length (bounds d) -> (sat_all (halfspaces d) x <-> feasible d x).
Proof.
  intros Hl. unfold halfspaces, feasible. rewrite sat_all_app, (bound_rows_sat _ _ Hl), cons_rows_sat. tauto.
Qed.

Lemma strict_sat hs x : strict_all hs x -> sat_all hs x.
Proof. intros H h Hin. specialize (H h Hin). unfold strict in H. unfold sat. lra. Qed.
Lemma sat_all_filter f hs x : sat_all hs x -> sat_all (filter f hs) x.
Proof. intros H h Hin. apply filter_In in Hin. apply H, Hin. Qed.
Lemma strict_all_filter f hs x : strict_all hs x -> strict_all (filter f hs) x.
Proof. intros H h Hin. apply filter_In in Hin. apply H, Hin. Qed.

(* ------------------------------------------------------------------ viable-point selection *)
Definition interior (d : domain) (c : point) : Prop := length c = length (bounds d) /\ strict_all (halfspaces d) c.

Lemma interior_in_box d c : interior d c -> in_box (bounds d) c.
Proof.
  intros [Hl Hs]. apply strict_sat in Hs. apply (halfspaces_sat_iff d c Hl) in Hs. apply Hs.
Qed.

Lemma viable_point_is_strict d c vp :
  is_constrained d = true -> interior d c -> interior d (select_viable d c vp).
Proof.
  intros Hc Hi. destruct vp as [v|]; simpl; [|exact Hi].
  destruct (acceptable d v) eqn:Ea; simpl; [|exact Hi].
  unfold acceptable in Ea. rewrite Hc in Ea. simpl in Ea. apply andb_true_iff in Ea. destruct Ea as [Eb Es].
  apply in_box_b_iff in Eb. apply sat_all_b_iff in Es.
  assert (Hlv : length v = length (bounds d)) by apply (in_box_length _ _ Eb).
  destruct Hi as [Hlc Hs].
  destruct (on_boundary d safety_margin v) eqn:Eo.
  - assert (Hl : length v = length c) by lia.
    split.
    + assert (Bc : in_box (bounds d) c) by (apply interior_in_box; split; assumption).
      rewrite (in_box_length (bounds d)); [reflexivity|].
      apply (in_box_map2_convex _ (1 - push_fraction) push_fraction); try (unfold push_fraction; lra); try assumption.
      intros; ring.
    + intros h Hin. unfold strict.
      rewrite (dot_map2_affine _ (1 - push_fraction) push_fraction) by (try exact Hl; intros; ring).
      specialize (Hs h Hin). specialize (Es h Hin). unfold strict in Hs. unfold sat in Es. unfold push_fraction. lra.
  - split; [exact Hlv|]. intros h Hin. unfold strict.
    destruct (Qlt_le_dec (dot (fst h) v) (snd h)) as [L|L]; [exact L|exfalso].
    specialize (Es h Hin). unfold sat in Es.
    assert (X : existsb (fun h => Qle_bool (Qabs (dot (fst h) v - snd h)) safety_margin) (halfspaces d) = true).
    { apply existsb_exists. exists h. split; [exact Hin|]. apply Qle_bool_iff. apply Qabs_Qle_condition.
      unfold safety_margin. split; lra. }
    unfold on_boundary in Eo. congruence.
Qed.

(* ------------------------------------------------------------------ restrict_points_to_domain *)
Theorem restrict_points_correct d c vp on us ps :
  interior d c -> Forall (fun p => length p = length (bounds d)) ps -> Forall unit_interval us ->
  let out := fst (restrict_points d c vp on us ps) in
  length out = length ps /\
  Forall (in_box (bounds d)) out /\
  Forall (sat_all (no_bound_rows (halfspaces d))) out.
Proof.
  intros Hi Hps Hus. cbv zeta. unfold restrict_points.
  assert (Bc : in_box (bounds d) c) by apply (interior_in_box _ _ Hi).
  assert (Hclip : Forall (in_box (bounds d)) (map (clip (bounds d)) ps)).
  { apply Forall_forall. intros q Hq. apply in_map_iff in Hq. destruct Hq as [p [<- Hp]].
    apply clip_in_box; [apply (in_box_bounds_ordered _ _ Bc)|]. rewrite Forall_forall in Hps. apply Hps, Hp. }
  destruct (is_constrained d) eqn:Ec.
  - pose proof (viable_point_is_strict d c vp Ec Hi) as Hv. set (v := select_viable d c vp) in *.
    pose proof (restrict_list_correct (bounds d) (no_bound_rows (halfspaces d)) v on
                  (interior_in_box _ _ Hv) (strict_all_filter _ _ _ (proj2 Hv)) _ us Hclip Hus) as R.
    cbv zeta in R. destruct R as [R1 [R2 [_ R4]]]. rewrite map_length in R4. auto.
  - simpl. rewrite map_length. split; [reflexivity|]. split; [exact Hclip|].
    (* no constraint rows: every remaining row is a bound row, satisfied inside the box *)
    apply Forall_forall. intros q Hq. rewrite Forall_forall in Hclip. specialize (Hclip q Hq).
    apply sat_all_filter. apply halfspaces_sat_iff; [apply in_box_length, Hclip|].
    split; [exact Hclip|]. unfold is_constrained in Ec. destruct (cstrs d); [intros ? Hin; destruct Hin|discriminate].
Qed.

(* when every constraint has at least two non-zero weights (the property's precondition) the result is in the region *)
Theorem restrict_in_domain d c vp on us ps :
  interior d c -> Forall (fun p => length p = length (bounds d)) ps -> Forall unit_interval us ->
  (forall h, In h (cons_rows d) -> (2 <= nnz (fst h))%nat) ->
  Forall (feasible d) (fst (restrict_points d c vp on us ps)).
Proof.
  intros Hi Hps Hus Hnz.
  destruct (restrict_points_correct d c vp on us ps Hi Hps Hus) as [_ [H1 H2]].
  apply Forall_forall. intros q Hq. rewrite Forall_forall in H1, H2. specialize (H1 q Hq). specialize (H2 q Hq).
  split; [exact H1|]. apply cons_rows_sat. intros h Hin. apply H2. unfold no_bound_rows. apply filter_In. split.
  - unfold halfspaces. apply in_or_app. left. exact Hin.
  - apply Nat.ltb_lt. specialize (Hnz h Hin). lia.
Qed.

(* feasible points, faces included, come back unchanged and consume no draw *)
Theorem restrict_fixes_feasible d c vp on us ps :
  interior d c -> Forall (feasible d) ps -> restrict_points d c vp on us ps = (ps, us).
Proof.
  intros Hi Hps. unfold restrict_points.
  assert (E : map (clip (bounds d)) ps = ps).
  { induction ps as [|p ps IH]; [reflexivity|]. inversion Hps; subst. simpl. rewrite IH by assumption.
    rewrite clip_id; [reflexivity|apply H1]. }
  rewrite E. destruct (is_constrained d) eqn:Ec; [|reflexivity].
  apply restrict_list_unchanged.
  - apply sat_all_filter, strict_sat. apply (viable_point_is_strict d c vp Ec Hi).
  - apply Forall_forall. intros p Hp. rewrite Forall_forall in Hps. specialize (Hps p Hp).
    apply sat_all_filter. apply halfspaces_sat_iff; [apply in_box_length, Hps|exact Hps].
Qed.

(* ------------------------------------------------------------------ generate_random_points_near_point *)
Theorem near_point_in_domain d c pt on zs us out rest :
  interior d c -> Forall unit_interval us -> Forall (fun z => length z = length (bounds d)) zs ->
  (forall h, In h (cons_rows d) -> (2 <= nnz (fst h))%nat) ->
  near_point d c pt on zs us = Some (out, rest) ->
  length out = length zs /\ Forall (feasible d) out.
Proof.
  intros Hi Hus Hzs Hnz. unfold near_point. destruct (acceptable d pt) eqn:Ea; [|discriminate].
  intros E. injection E as E.
  assert (Hpt : length pt = length (bounds d)).
  { unfold acceptable in Ea. apply andb_true_iff in Ea. destruct Ea as [Eb _]. apply in_box_b_iff in Eb. apply in_box_length, Eb. }
  set (ps := map (fun z => map2 Qplus pt (map2 Qmult z (widths (bounds d)))) zs) in *.
  assert (Hps : Forall (fun p => length p = length (bounds d)) ps).
  { apply Forall_forall. intros p Hp. apply in_map_iff in Hp. destruct Hp as [z [<- Hz]].
    rewrite Forall_forall in Hzs. specialize (Hzs z Hz).
    assert (L2 : forall A B C (f : A -> B -> C) l1 l2, length l1 = length l2 -> length (map2 f l1 l2) = length l1).
    { induction l1 as [|a l1 IH]; intros [|b l2] H; simpl in *; try discriminate; [reflexivity|]. rewrite IH by lia. reflexivity. }
    rewrite L2; [exact Hpt|]. rewrite L2; [lia|]. unfold widths. rewrite map_length. exact Hzs. }
  pose proof (restrict_points_correct d c (Some pt) on us ps Hi Hps Hus) as R. cbv zeta in R.
  pose proof (restrict_in_domain d c (Some pt) on us ps Hi Hps Hus Hnz) as F.
  rewrite E in *. simpl in *. destruct R as [R0 _]. split; [|exact F]. rewrite R0. unfold ps. apply map_length.
Qed.

(* ------------------------------------------------------------------ fixed coordinates *)
Lemma dot_set_nth_zero : forall a j val p, nth j a 0 == 0 -> dot a (set_nth j val p) == dot a p.
Proof.
  induction a as [|ai a IH]; intros j val [|x p] Hz; try reflexivity.
  - destruct j; reflexivity.
  - destruct j as [|j]; simpl in *.
    + rewrite Hz. ring.
    + rewrite (IH j val p Hz). ring.
Qed.
Lemma in_box_set_nth : forall bs j val p, in_box bs p -> (j < length bs)%nat ->
  fst (nth j bs (0, 0)) <= val <= snd (nth j bs (0, 0)) -> in_box bs (set_nth j val p).
Proof.
  induction bs as [|b bs IH]; intros j val p Hp Hj Hv; inversion Hp as [|? x ? p' Hx Hp']; subst; simpl in Hj; [lia|].
  destruct j as [|j]; simpl in *.
  - constructor; assumption.
  - constructor; [assumption|apply IH; [assumption|lia|assumption]].
Qed.

(* a fixed index must not be mentioned by any constraint, and the value must lie in its bounds *)
Definition fixed_valid (d : domain) (fixed : list (nat * Q)) : Prop :=
  forall iv, In iv fixed ->
    (fst iv < length (bounds d))%nat /\
    fst (nth (fst iv) (bounds d) (0, 0)) <= snd iv <= snd (nth (fst iv) (bounds d) (0, 0)) /\
    forall c, In c (cstrs d) -> nth (fst iv) (fst c) 0 == 0.

Theorem fixed_point_feasible d fixed : fixed_valid d fixed -> forall p, feasible d p -> feasible d (fix_point fixed p).
Proof.
  unfold fix_point. induction fixed as [|iv fixed IH]; intros Hf p Hp; simpl; [exact Hp|].
  apply IH; [intros iv' Hin; apply Hf; right; exact Hin|].
  destruct (Hf iv (or_introl eq_refl)) as [H1 [H2 H3]]. destruct Hp as [Hb Hc]. split.
  - apply in_box_set_nth; assumption.
  - intros c Hin. rewrite dot_set_nth_zero; [apply Hc, Hin|apply H3, Hin].
Qed.

Theorem fixed_wrappers_in_domain d fixed c vp on us ps :
  interior d c -> Forall (fun p => length p = length (bounds d)) ps -> Forall unit_interval us ->
  (forall h, In h (cons_rows d) -> (2 <= nnz (fst h))%nat) -> fixed_valid d fixed ->
  Forall (feasible d) (fixed_restrict d fixed c vp on us ps).
Proof.
  intros Hi Hps Hus Hnz Hf. unfold fixed_restrict.
  pose proof (restrict_in_domain d c vp on us ps Hi Hps Hus Hnz) as F.
  apply Forall_forall. intros q Hq. apply in_map_iff in Hq. destruct Hq as [p [<- Hp]].
  apply fixed_point_feasible; [exact Hf|]. rewrite Forall_forall in F. apply F, Hp.
Qed.
