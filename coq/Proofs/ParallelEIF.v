(* Proofs about Model.ParallelEIF (Monte-Carlo parallel expected improvement with failure models, C05). *)
From Coq Require Import List QArith Qabs Bool Arith Lia Lra Psatz.
From LV Require Import Model.ParallelEI Model.ParallelEIF Proofs.ParallelEI.
Import ListNotations.
Open Scope Q_scope.

(* ------------------------------------------------------------------ (c, n, b) arrays given entry by entry *)

Definition tform (c n : nat) (normals : mat) (F : nat -> nat -> vec -> Q) : list mat :=
  map (fun j => map (fun k => map (fun z => F j k z) normals) (seq 0 n)) (seq 0 c).

Lemma tmap_tform f c n normals F : tmap f (tform c n normals F) = tform c n normals (fun j k z => f (F j k z)).
Proof.
  unfold tmap, tform. rewrite map_map. apply map_ext. intros j. rewrite map_map. apply map_ext. intros k. rewrite map_map. reflexivity.
Qed.

Lemma tmap2_tform f c n normals F G :
  tmap2 f (tform c n normals F) (tform c n normals G) = tform c n normals (fun j k z => f (F j k z) (G j k z)).
Proof.
  unfold tmap2, tform. rewrite map2_map_same. apply map_ext. intros j. rewrite map2_map_same. apply map_ext. intros k.
  apply map2_map_same.
Qed.

Lemma amax0_tform c n normals F :
  amax0 n (length normals) (tform c n normals F) = map (fun k => map (fun z => amax (map (fun j => F j k z) (seq 0 c))) normals) (seq 0 n).
Proof.
  unfold amax0. apply map_ext_in. intros k Hk. apply in_seq in Hk.
  rewrite <- (map_nth_seq0 (fun z => amax (map (fun j => F j k z) (seq 0 c))) [] normals).
  apply map_ext_in. intros i Hi. apply in_seq in Hi. f_equal. unfold tform. rewrite map_map. apply map_ext. intros j. unfold entry.
  rewrite (nth_map_seq _ 0 n k []) by lia. cbn [plus]. rewrite (nth_map_lt _ normals i 0 []) by lia. reflexivity.
Qed.

(* ------------------------------------------------------------------ the samples of one model *)

Lemma predictions_eq q sets mbs normals : (forall s, In s sets -> length (fst s) = q) ->
  predictions q (length mbs) sets mbs normals =
  tform (q + length mbs) (length sets) normals (fun j k z => Lz (q + length mbs) (snd (nth k sets dset)) z j + nth j (fst (nth k sets dset) ++ mbs) 0).
Proof.
  intros Hwf. unfold predictions. set (c := (q + length mbs)%nat). rewrite tensordot_chol. rewrite (mean_to_evaluate_eq q sets Hwf).
  set (F := fun j => map (fun k => map (fun z => Lz c (snd (nth k sets dset)) z j) normals) (seq 0 (length sets))).
  set (G := fun j => map (fun k => nth j (fst (nth k sets dset)) 0) (seq 0 (length sets))).
  set (H := fun j => map (fun k => map (fun z => Lz c (snd (nth k sets dset)) z j + nth j (fst (nth k sets dset) ++ mbs) 0) normals)
                         (seq 0 (length sets))).
  assert (Hfirst : addm_first q (map F (seq 0 c)) (map G (seq 0 q)) = map H (seq 0 q) ++ map F (seq q (length mbs))).
  { unfold addm_first. rewrite firstn_map, skipn_map. unfold c. rewrite firstn_seq', skipn_seq'. cbn [plus]. f_equal.
    rewrite map2_map_same. apply map_ext_in. intros j Hj. apply in_seq in Hj. unfold F, G, H.
    rewrite map2_map_same. apply map_ext_in. intros k Hk. apply in_seq in Hk. cbv beta. rewrite map_map. apply map_ext. intros z.
    rewrite app_nth1; [reflexivity|].
    rewrite (Hwf (nth k sets dset)); [lia|]. apply nth_In. lia. }
  rewrite Hfirst. unfold tform. fold H.
  destruct (length mbs =? 0)%nat eqn:Ep.
  - apply Nat.eqb_eq in Ep. unfold c. rewrite Ep. rewrite Nat.add_0_r. cbn [seq map]. apply app_nil_r.
  - unfold addm_last. rewrite app_length, !map_length, !seq_length.
    replace (q + length mbs - length mbs)%nat with q by lia.
    assert (Hlq : length (map H (seq 0 q)) = q) by (rewrite map_length, seq_length; reflexivity).
    rewrite (firstn_app_len _ _ _ Hlq), (skipn_app_len _ _ _ Hlq).
    unfold c. rewrite seq_app, map_app. cbn [plus]. f_equal.
    rewrite (map2_map_seq_r _ F mbs 0 q). apply map_ext_in. intros j Hj. apply in_seq in Hj.
    unfold F, H. rewrite map_map. apply map_ext_in. intros k Hk. apply in_seq in Hk. rewrite map_map. apply map_ext. intros z.
    rewrite app_nth2; rewrite (Hwf (nth k sets dset)) by (apply nth_In; lia); [reflexivity|lia].
Qed.

Lemma predictions_eq' q p sets mbs normals : length mbs = p -> (forall s, In s sets -> length (fst s) = q) ->
  predictions q p sets mbs normals =
  tform (q + p) (length sets) normals (fun j k z => Lz (q + p) (snd (nth k sets dset)) z j + nth j (fst (nth k sets dset) ++ mbs) 0).
Proof. intros <- H. apply predictions_eq. exact H. Qed.

(* ------------------------------------------------------------------ one pass of the loop, entry by entry (the code's own expressions) *)

(* the sampled value of one model at point j, in the order the code adds it up: (L z)_j + m_j *)
Definition Yc (c : nat) (s : cset) (mbs : vec) (z : vec) (j : nat) : Q := Lz c (snd s) z j + nth j (fst s ++ mbs) 0.
Definition indc (c : nat) (s : fset) (fms : list fmod) (z : vec) (j i : nat) : Q :=
  if qltb (Yc c (nth i (s_fail s) dcset) (fst (nth i fms dfmod)) z j) (snd (nth i fms dfmod)) then 1 else 0.
Definition maskc (c : nat) (s : fset) (fms : list fmod) (z : vec) (j : nat) (ixs : list nat) (a : Q) : Q :=
  fold_left (fun a i => a * indc c s fms z j i) ixs a.
Definition gain_m (c : nat) (s : fset) (fms : list fmod) (mp : vec) (best : Q) (z : vec) : Q :=
  qmax 0 (amax (map (fun j => (best - Yc c (s_obj s) mp z j) * maskc c s fms z j (seq 0 (length fms)) 1) (seq 0 c))).
Definition gain_f (c : nat) (s : fset) (mp : vec) (best : Q) (z : vec) : Q :=
  qmax 0 (amax (map (fun j => (best - Yc c (s_obj s) mp z j) * prodQ (s_probs s)) (seq 0 c))).

Lemma nth_map_sobj fsets k : nth k (map s_obj fsets) dset = s_obj (nth k fsets dfset).
Proof. change dset with (s_obj dfset). apply map_nth. Qed.

Lemma nth_fm_sets i fsets k : nth k (fm_sets i fsets) dset = nth i (s_fail (nth k fsets dfset)) dcset.
Proof.
  unfold fm_sets. replace dset with ((fun s : fset => nth i (s_fail s) dcset) dfset) at 1.
  - apply (map_nth (fun s : fset => nth i (s_fail s) dcset)).
  - cbn. destruct i; reflexivity.
Qed.

Lemma fm_sets_length i fsets : length (fm_sets i fsets) = length fsets.
Proof. unfold fm_sets. apply map_length. Qed.

Lemma fm_sets_wf q fsets fms mp i : qeif_wf q fsets fms mp -> (i < length fms)%nat -> forall s, In s (fm_sets i fsets) -> length (fst s) = q.
Proof.
  intros (Hs & _) Hi s Hin. unfold fm_sets in Hin. apply in_map_iff in Hin. destruct Hin as (fs & <- & Hfs).
  destruct (Hs fs Hfs) as (_ & Hl & Hq & _). apply Hq. apply nth_In. lia.
Qed.

Lemma obj_sets_wf q fsets fms mp : qeif_wf q fsets fms mp -> forall s, In s (map s_obj fsets) -> length (fst s) = q.
Proof.
  intros (Hs & _) s Hin. apply in_map_iff in Hin. destruct Hin as (fs & <- & Hfs). destruct (Hs fs Hfs) as (Hq & _). exact Hq.
Qed.

Lemma fold_mask q fsets fms mp normals : qeif_wf q fsets fms mp ->
  forall (ixs : list nat) (M : nat -> nat -> vec -> Q), (forall i, In i ixs -> (i < length fms)%nat) ->
  fold_left mask_step
    (map (fun i => (predictions q (length mp) (fm_sets i fsets) (fst (nth i fms dfmod)) normals, snd (nth i fms dfmod))) ixs)
    (tform (q + length mp) (length fsets) normals M)
  = tform (q + length mp) (length fsets) normals
      (fun j k z => maskc (q + length mp) (nth k fsets dfset) fms z j ixs (M j k z)).
Proof.
  intros Hwf. induction ixs as [|i ixs IH]; intros M Hix; [reflexivity|]. cbn [map fold_left]. unfold mask_step at 2. cbn [fst snd].
  assert (Hi : (i < length fms)%nat) by (apply Hix; left; reflexivity).
  rewrite (predictions_eq' q (length mp) (fm_sets i fsets) (fst (nth i fms dfmod)) normals).
  - rewrite fm_sets_length. rewrite tmap_tform, tmap2_tform. rewrite IH.
    + unfold tform. apply map_ext. intros j. apply map_ext. intros k. apply map_ext. intros z.
      cbn [maskc fold_left]. unfold maskc. f_equal. f_equal. unfold indc, Yc. rewrite nth_fm_sets. reflexivity.
    + intros i' Hi'. apply Hix. right. exact Hi'.
  - destruct Hwf as (_ & Hm). apply Hm. apply nth_In. exact Hi.
  - apply (fm_sets_wf q fsets fms mp i Hwf Hi).
Qed.

Lemma fblock_contribution_eq q fsets fms mp best normals : qeif_wf q fsets fms mp ->
  let c := (q + length mp)%nat in
  let GM := map (fun k => map (gain_m c (nth k fsets dfset) fms mp best) normals) (seq 0 (length fsets)) in
  let GF := map (fun k => map (gain_f c (nth k fsets dfset) mp best) normals) (seq 0 (length fsets)) in
  fblock_contribution q fsets fms mp best normals = map sumQ (if Qeq_bool (sumQ (map sumQ GM)) 0 then GF else GM).
Proof.
  intros Hwf c GM GF. unfold fblock_contribution.
  rewrite (predictions_eq' q (length mp) (map s_obj fsets) mp normals eq_refl (obj_sets_wf q fsets fms mp Hwf)).
  rewrite map_length. fold c. rewrite !tmap_tform.
  assert (HFm := fold_mask q fsets fms mp normals Hwf (seq 0 (length fms)) (fun _ _ _ => 1)). fold c in HFm.
  rewrite HFm by (intros i Hi; apply in_seq in Hi; lia). clear HFm.
  rewrite tmap2_tform.
  assert (HM : max_improvement (length fsets) (length normals)
                 (tform c (length fsets) normals
                    (fun j k z => (best - (Lz c (snd (nth k (map s_obj fsets) dset)) z j + nth j (fst (nth k (map s_obj fsets) dset) ++ mp) 0)) *
                                  maskc c (nth k fsets dfset) fms z j (seq 0 (length fms)) 1)) = GM).
  { unfold max_improvement. rewrite amax0_tform. rewrite map_map. apply map_ext. intros k. rewrite map_map. apply map_ext. intros z.
    unfold gain_m. f_equal. f_equal. apply map_ext. intros j. unfold Yc. rewrite nth_map_sobj. reflexivity. }
  rewrite HM.
  assert (HF : max_improvement (length fsets) (length normals)
                 (map (fun impj => map2 (fun row s => map (fun x => x * s) row) impj (map (fun s => prodQ (s_probs s)) fsets))
                      (tform c (length fsets) normals
                         (fun j k z => best - (Lz c (snd (nth k (map s_obj fsets) dset)) z j + nth j (fst (nth k (map s_obj fsets) dset) ++ mp) 0)))) = GF).
  { assert (E : map (fun impj => map2 (fun row s => map (fun x => x * s) row) impj (map (fun s => prodQ (s_probs s)) fsets))
                    (tform c (length fsets) normals
                       (fun j k z => best - (Lz c (snd (nth k (map s_obj fsets) dset)) z j + nth j (fst (nth k (map s_obj fsets) dset) ++ mp) 0)))
                = tform c (length fsets) normals (fun j k z => (best - Yc c (s_obj (nth k fsets dfset)) mp z j) * prodQ (s_probs (nth k fsets dfset)))).
    { unfold tform. rewrite map_map. apply map_ext. intros j.
      rewrite <- (map_nth_seq0 (fun s => prodQ (s_probs s)) dfset fsets). rewrite map2_map_same. apply map_ext. intros k.
      rewrite map_map. apply map_ext. intros z. unfold Yc. rewrite nth_map_sobj. reflexivity. }
    rewrite E. unfold max_improvement. rewrite amax0_tform. rewrite map_map. apply map_ext. intros k. rewrite map_map. reflexivity. }
  rewrite HF. destruct (Qeq_bool (sumQ (map sumQ GM)) 0); reflexivity.
Qed.

(* ------------------------------------------------------------------ max, min, comparisons up to == *)

Lemma qmax_cases a b : (qmax a b == a /\ b <= a) \/ (qmax a b == b /\ a <= b).
Proof.
  unfold qmax. destruct (Qle_bool a b) eqn:E.
  - right. apply Qle_bool_iff in E. split; [reflexivity|exact E].
  - left. assert (~ a <= b) by (rewrite <- Qle_bool_iff; congruence). split; [reflexivity|lra].
Qed.

Lemma qmin_cases a b : (qmin a b == a /\ a <= b) \/ (qmin a b == b /\ b <= a).
Proof.
  unfold qmin. destruct (Qle_bool a b) eqn:E.
  - left. apply Qle_bool_iff in E. split; [reflexivity|exact E].
  - right. assert (~ a <= b) by (rewrite <- Qle_bool_iff; congruence). split; [reflexivity|lra].
Qed.

Lemma qmax_compat a a' b b' : a == a' -> b == b' -> qmax a b == qmax a' b'.
Proof. intros Ha Hb. destruct (qmax_cases a b) as [[? ?]|[? ?]]; destruct (qmax_cases a' b') as [[? ?]|[? ?]]; lra. Qed.

Lemma qmax_le_compat a a' b b' : a <= a' -> b <= b' -> qmax a b <= qmax a' b'.
Proof. intros Ha Hb. destruct (qmax_cases a b) as [[? ?]|[? ?]]; destruct (qmax_cases a' b') as [[? ?]|[? ?]]; lra. Qed.

Lemma qle_bool_compat a a' b b' : a == a' -> b == b' -> Qle_bool a b = Qle_bool a' b'.
Proof.
  intros Ha Hb. apply Bool.eq_iff_eq_true. rewrite !Qle_bool_iff. split; intros H; lra.
Qed.

Lemma qltb_compat a a' b b' : a == a' -> b == b' -> qltb a b = qltb a' b'.
Proof. intros Ha Hb. unfold qltb. f_equal. apply qle_bool_compat; assumption. Qed.

Lemma qltb_lt a b : qltb a b = true <-> a < b.
Proof.
  unfold qltb. rewrite Bool.negb_true_iff. split.
  - intros H. assert (~ b <= a) by (rewrite <- Qle_bool_iff; congruence). lra.
  - intros H. destruct (Qle_bool b a) eqn:E; [|reflexivity]. apply Qle_bool_iff in E. lra.
Qed.

Lemma qeq_bool_compat a a' b b' : a == a' -> b == b' -> Qeq_bool a b = Qeq_bool a' b'.
Proof. intros Ha Hb. apply Bool.eq_iff_eq_true. rewrite !Qeq_bool_iff. split; intros H; lra. Qed.

Lemma amax_map_ext {A} (f g : A -> Q) (l : list A) : (forall x, In x l -> f x == g x) -> amax (map f l) == amax (map g l).
Proof.
  induction l as [|x l IH]; intros H; [reflexivity|]. destruct l as [|x' l].
  - cbn [map amax]. apply H. left. reflexivity.
  - change (qmax (f x) (amax (map f (x' :: l))) == qmax (g x) (amax (map g (x' :: l)))).
    apply qmax_compat; [apply H; left; reflexivity|]. apply IH. intros y Hy. apply H. right. exact Hy.
Qed.

Lemma amin_map_ext {A} (f g : A -> Q) (l : list A) : (forall x, In x l -> f x == g x) -> amin (map f l) == amin (map g l).
Proof.
  induction l as [|x l IH]; intros H; [reflexivity|]. destruct l as [|x' l].
  - cbn [map amin]. apply H. left. reflexivity.
  - change (qmin (f x) (amin (map f (x' :: l))) == qmin (g x) (amin (map g (x' :: l)))).
    assert (E1 : f x == g x) by (apply H; left; reflexivity).
    assert (E2 : amin (map f (x' :: l)) == amin (map g (x' :: l))) by (apply IH; intros y Hy; apply H; right; exact Hy).
    destruct (qmin_cases (f x) (amin (map f (x' :: l)))) as [[? ?]|[? ?]];
      destruct (qmin_cases (g x) (amin (map g (x' :: l)))) as [[? ?]|[? ?]]; lra.
Qed.

(* max_j (best - y_j) = best - min_j y_j on a non-empty list *)
Lemma amax_best_minus {A} (best : Q) (y : A -> Q) : forall js : list A, js <> [] ->
  amax (map (fun j => best - y j) js) == best - amin (map y js).
Proof.
  induction js as [|j js IH]; intros H; [congruence|]. destruct js as [|j' js].
  - cbn [map amax amin]. reflexivity.
  - change (qmax (best - y j) (amax (map (fun j => best - y j) (j' :: js))) == best - qmin (y j) (amin (map y (j' :: js)))).
    apply qmax_qmin_dual; [reflexivity|]. apply IH. congruence.
Qed.

(* max(0, max_j g_j) as a fold: 0 on the empty list *)
Definition pmax {A} (g : A -> Q) (js : list A) : Q := fold_right (fun j a => qmax (g j) a) 0 js.

Lemma pmax_nonneg {A} (g : A -> Q) js : 0 <= pmax g js.
Proof.
  induction js as [|j js IH]; cbn [pmax fold_right]; [lra|]. fold (pmax g js).
  destruct (qmax_cases (g j) (pmax g js)) as [[? ?]|[? ?]]; lra.
Qed.

Lemma qmax0_amax_pmax {A} (g : A -> Q) : forall js, qmax 0 (amax (map g js)) == pmax g js.
Proof.
  induction js as [|j js IH]; [reflexivity|]. destruct js as [|j' js].
  - cbn [map amax pmax fold_right]. destruct (qmax_cases 0 (g j)) as [[? ?]|[? ?]]; destruct (qmax_cases (g j) 0) as [[? ?]|[? ?]]; lra.
  - change (qmax 0 (qmax (g j) (amax (map g (j' :: js)))) == qmax (g j) (pmax g (j' :: js))).
    set (t := amax (map g (j' :: js))) in *. set (u := pmax g (j' :: js)) in *.
    destruct (qmax_cases (g j) t) as [[? ?]|[? ?]]; destruct (qmax_cases 0 (qmax (g j) t)) as [[? ?]|[? ?]];
      destruct (qmax_cases 0 t) as [[? ?]|[? ?]]; destruct (qmax_cases (g j) u) as [[? ?]|[? ?]]; lra.
Qed.

Lemma pmax_ext {A} (f g : A -> Q) js : (forall j, In j js -> f j == g j) -> pmax f js == pmax g js.
Proof.
  induction js as [|j js IH]; intros H; [reflexivity|]. cbn [pmax fold_right]. fold (pmax f js) (pmax g js).
  apply qmax_compat; [apply H; left; reflexivity|]. apply IH. intros j' Hj'. apply H. right. exact Hj'.
Qed.

(* masking: terms multiplied by 0 drop out *)
Lemma pmax_mask {A} (imp : A -> Q) (feas : A -> bool) js :
  pmax (fun j => imp j * (if feas j then 1 else 0)) js == pmax imp (filter feas js).
Proof.
  induction js as [|j js IH]; [reflexivity|]. cbn [pmax fold_right filter].
  fold (pmax (fun j => imp j * (if feas j then 1 else 0)) js). destruct (feas j).
  - cbn [pmax fold_right]. fold (pmax imp (filter feas js)). apply qmax_compat; [ring|exact IH].
  - fold (pmax imp (filter feas js)). assert (Hn := pmax_nonneg imp (filter feas js)).
    destruct (qmax_cases (imp j * 0) (pmax (fun j => imp j * (if feas j then 1 else 0)) js)) as [[? ?]|[? ?]]; lra.
Qed.

Lemma pmax_filter_le {A} (imp : A -> Q) (feas : A -> bool) js : pmax imp (filter feas js) <= pmax imp js.
Proof.
  induction js as [|j js IH]; [cbn; lra|]. cbn [filter pmax fold_right]. fold (pmax imp js). destruct (feas j).
  - cbn [pmax fold_right]. fold (pmax imp (filter feas js)). apply qmax_le_compat; [lra|exact IH].
  - fold (pmax imp (filter feas js)). destruct (qmax_cases (imp j) (pmax imp js)) as [[? ?]|[? ?]]; lra.
Qed.

Lemma pmax_scale {A} (g : A -> Q) (sp : Q) js : 0 <= sp -> pmax (fun j => g j * sp) js == sp * pmax g js.
Proof.
  intros Hs. induction js as [|j js IH]; [cbn; ring|]. cbn [pmax fold_right]. fold (pmax (fun j => g j * sp) js) (pmax g js).
  set (t := pmax g js) in *. set (u := pmax (fun j => g j * sp) js) in *.
  destruct (qmax_cases (g j) t) as [[E Ht]|[E Ht]]; rewrite E.
  - assert (0 <= sp * (g j - t)) by (apply Qmult_le_0_compat; lra).
    destruct (qmax_cases (g j * sp) u) as [[? ?]|[? ?]]; lra.
  - assert (0 <= sp * (t - g j)) by (apply Qmult_le_0_compat; lra).
    destruct (qmax_cases (g j * sp) u) as [[? ?]|[? ?]]; lra.
Qed.

(* ------------------------------------------------------------------ the reading of the contribution of one draw *)

Lemma fsample_nth c s mbs z j : (j < c)%nat -> nth j (fsample c s mbs z) 0 = nth j (fst s ++ mbs) 0 + Lz c (snd s) z j.
Proof. intros H. unfold fsample. rewrite (nth_map_seq _ 0 c j 0 H). reflexivity. Qed.

Lemma Yc_fsample c s mbs z j : (j < c)%nat -> Yc c s mbs z j == nth j (fsample c s mbs z) 0.
Proof. intros H. rewrite fsample_nth by exact H. unfold Yc. ring. Qed.

Lemma maskc_forallb c s fms z j : (j < c)%nat -> forall ixs a,
  maskc c s fms z j ixs a ==
  a * (if forallb (fun i => qltb (nth j (fsample c (nth i (s_fail s) dcset) (fst (nth i fms dfmod)) z) 0) (snd (nth i fms dfmod))) ixs then 1 else 0).
Proof.
  intros Hj. induction ixs as [|i ixs IH]; intros a; [cbn; ring|]. cbn [maskc fold_left forallb]. fold (maskc c s fms z j ixs (a * indc c s fms z j i)).
  rewrite IH. unfold indc.
  rewrite (qltb_compat _ (nth j (fsample c (nth i (s_fail s) dcset) (fst (nth i fms dfmod)) z) 0) _ (snd (nth i fms dfmod)))
    by (try reflexivity; apply Yc_fsample; exact Hj).
  destruct (qltb _ _); cbn [andb]; [|ring]. destruct (forallb _ ixs); ring.
Qed.

Lemma gain_m_reading c s fms mp best z : gain_m c s fms mp best z == masked_improvement c s fms mp best z.
Proof.
  unfold gain_m. rewrite qmax0_amax_pmax.
  rewrite (pmax_ext _ (fun j => (best - nth j (fsample c (s_obj s) mp z) 0) * (if feasible c s fms z j then 1 else 0))).
  - rewrite pmax_mask. unfold masked_improvement, feasible_points. destruct (filter (feasible c s fms z) (seq 0 c)) as [|j0 js] eqn:E; [reflexivity|].
    rewrite <- qmax0_amax_pmax. apply qmax0_compat. apply (amax_best_minus best (fun j => nth j (fsample c (s_obj s) mp z) 0)). congruence.
  - intros j Hj. apply in_seq in Hj. rewrite (maskc_forallb c s fms z j) by lia. unfold feasible.
    rewrite (Yc_fsample c (s_obj s) mp z j) by lia. ring.
Qed.

Lemma gain_f_reading c s mp best z : gain_f c s mp best z == fallback_gain c s mp best z.
Proof.
  unfold gain_f, fallback_gain, fsample. rewrite map_map. apply qmax0_compat. apply amax_map_ext. intros j _. unfold Yc. ring.
Qed.

Lemma improvement_pmax (best : Q) (ys : vec) : ys <> [] -> improvement best ys == pmax (fun y => best - y) ys.
Proof.
  intros H. unfold improvement. rewrite <- qmax0_amax_pmax. apply qmax0_compat. symmetry.
  rewrite <- (map_id ys) at 2. apply (amax_best_minus best (fun y : Q => y) ys H).
Qed.

Lemma fsample_nonempty c s mbs z : (0 < c)%nat -> fsample c s mbs z <> [].
Proof. intros H. unfold fsample. destruct c; [lia|]. cbn [seq map]. congruence. Qed.

(* for a success probability >= 0 the replacement is probability * plain improvement *)
Lemma fallback_gain_weighted c s mp best z : (0 < c)%nat -> 0 <= prodQ (s_probs s) ->
  fallback_gain c s mp best z == weighted_improvement c s mp best z.
Proof.
  intros Hc Hs. unfold fallback_gain, weighted_improvement. rewrite qmax0_amax_pmax.
  rewrite (pmax_scale (fun y => best - y) (prodQ (s_probs s)) _ Hs).
  rewrite (improvement_pmax best _ (fsample_nonempty c (s_obj s) mp z Hc)). reflexivity.
Qed.

Lemma improvement_nonneg best ys : 0 <= improvement best ys.
Proof. unfold improvement. apply qmax0_nonneg. Qed.

Lemma masked_improvement_nonneg c s fms mp best z : 0 <= masked_improvement c s fms mp best z.
Proof. rewrite <- gain_m_reading. unfold gain_m. apply qmax0_nonneg. Qed.

(* the masked improvement never exceeds the plain improvement of the same objective sample *)
Lemma masked_le_improvement c s fms mp best z : (0 < c)%nat ->
  masked_improvement c s fms mp best z <= improvement best (fsample c (s_obj s) mp z).
Proof.
  intros Hc. unfold masked_improvement, feasible_points.
  assert (H : pmax (fun j => best - nth j (fsample c (s_obj s) mp z) 0) (filter (feasible c s fms z) (seq 0 c))
              <= pmax (fun j => best - nth j (fsample c (s_obj s) mp z) 0) (seq 0 c)) by apply pmax_filter_le.
  assert (E : improvement best (fsample c (s_obj s) mp z) == pmax (fun j => best - nth j (fsample c (s_obj s) mp z) 0) (seq 0 c)).
  { unfold improvement. rewrite <- qmax0_amax_pmax. apply qmax0_compat. symmetry.
    rewrite (amax_best_minus best (fun j => nth j (fsample c (s_obj s) mp z) 0) (seq 0 c)) by (destruct c; [lia|cbn; congruence]).
    assert (E2 : map (fun j => nth j (fsample c (s_obj s) mp z) 0) (seq 0 c) = fsample c (s_obj s) mp z).
    { unfold fsample at 2. apply map_ext_in. intros j Hj. apply in_seq in Hj. apply fsample_nth. lia. }
    rewrite E2. reflexivity. }
  rewrite E. destruct (filter (feasible c s fms z) (seq 0 c)) as [|j0 js] eqn:Ef.
  - apply pmax_nonneg.
  - assert (E3 : qmax 0 (best - amin (map (fun j => nth j (fsample c (s_obj s) mp z) 0) (j0 :: js)))
                 == pmax (fun j => best - nth j (fsample c (s_obj s) mp z) 0) (j0 :: js)).
    { rewrite <- qmax0_amax_pmax. apply qmax0_compat. symmetry.
      apply (amax_best_minus best (fun j => nth j (fsample c (s_obj s) mp z) 0) (j0 :: js)). congruence. }
    rewrite E3. exact H.
Qed.

(* ------------------------------------------------------------------ the test numpy.sum(max_improvement) == 0 *)

Lemma sumQ_zero_all l : Forall (fun x => 0 <= x) l -> (sumQ l == 0 <-> Forall (fun x => x == 0) l).
Proof.
  unfold sumQ. induction 1 as [|x l Hx Hl IH]; cbn [fold_right]; [split; [constructor|reflexivity]|].
  assert (Hs : 0 <= fold_right Qplus 0 l) by (apply (sumQ_nonneg l); exact Hl). split.
  - intros E. constructor; [lra|]. apply IH. lra.
  - intros E. inversion E; subst. assert (fold_right Qplus 0 l == 0) by (apply IH; assumption). lra.
Qed.

Lemma sumQ2_zero_b (M : mat) : (forall row, In row M -> Forall (fun x => 0 <= x) row) ->
  Qeq_bool (sumQ (map sumQ M)) 0 = forallb (forallb (fun x => Qeq_bool x 0)) M.
Proof.
  intros H. apply Bool.eq_iff_eq_true. rewrite Qeq_bool_iff. rewrite forallb_forall.
  rewrite (sumQ_zero_all (map sumQ M)).
  - rewrite Forall_forall. split.
    + intros E row Hrow. apply forallb_forall. intros x Hx. apply Qeq_bool_iff.
      assert (Er : sumQ row == 0) by (apply E; apply in_map; exact Hrow).
      apply (sumQ_zero_all row (H row Hrow)) in Er. rewrite Forall_forall in Er. apply Er. exact Hx.
    + intros E s Hs. apply in_map_iff in Hs. destruct Hs as (row & <- & Hrow). apply (sumQ_zero_all row (H row Hrow)).
      apply Forall_forall. intros x Hx. apply Qeq_bool_iff. specialize (E row Hrow). rewrite forallb_forall in E. apply E. exact Hx.
  - apply Forall_forall. intros s Hs. apply in_map_iff in Hs. destruct Hs as (row & <- & Hrow). apply sumQ_nonneg. apply H. exact Hrow.
Qed.

Lemma forallb_map {A B} (f : B -> bool) (g : A -> B) l : forallb f (map g l) = forallb (fun x => f (g x)) l.
Proof. induction l as [|x l IH]; [reflexivity|]. cbn [map forallb]. rewrite IH. reflexivity. Qed.

Lemma forallb_ext_in {A} (f g : A -> bool) l : (forall x, In x l -> f x = g x) -> forallb f l = forallb g l.
Proof.
  induction l as [|x l IH]; intros H; [reflexivity|]. cbn [forallb]. rewrite (H x) by (left; reflexivity). rewrite IH; [reflexivity|].
  intros y Hy. apply H. right. exact Hy.
Qed.

Lemma forallb_nth_seq {A} (P : A -> bool) (d : A) l : forallb (fun k => P (nth k l d)) (seq 0 (length l)) = forallb P l.
Proof.
  rewrite <- (forallb_map P (fun k => nth k l d)). f_equal.
  rewrite <- (map_id l) at 2. apply (map_nth_seq0 (fun x : A => x) d l).
Qed.

Definition GMof (c : nat) (fsets : list fset) (fms : list fmod) (mp : vec) (best : Q) (normals : mat) : mat :=
  map (fun k => map (gain_m c (nth k fsets dfset) fms mp best) normals) (seq 0 (length fsets)).

Lemma cond_falls_back c fsets fms mp best normals :
  Qeq_bool (sumQ (map sumQ (GMof c fsets fms mp best normals))) 0 = block_falls_back c fsets fms mp best normals.
Proof.
  rewrite sumQ2_zero_b.
  - unfold GMof, block_falls_back. rewrite forallb_map.
    rewrite <- (forallb_nth_seq (fun s => forallb (fun z => Qeq_bool (masked_improvement c s fms mp best z) 0) normals) dfset fsets).
    apply forallb_ext_in. intros k _. rewrite forallb_map. apply forallb_ext_in. intros z _.
    apply qeq_bool_compat; [apply gain_m_reading|reflexivity].
  - intros row Hrow. unfold GMof in Hrow. apply in_map_iff in Hrow. destruct Hrow as (k & <- & _).
    apply Forall_forall. intros x Hx. apply in_map_iff in Hx. destruct Hx as (z & <- & _). unfold gain_m. apply qmax0_nonneg.
Qed.

(* the contribution of one block to candidate set k, in the code's own expressions ... *)
Definition block_code (c : nat) (fsets : list fset) (fms : list fmod) (mp : vec) (best : Q) (k : nat) (normals : mat) : Q :=
  if Qeq_bool (sumQ (map sumQ (GMof c fsets fms mp best normals))) 0
  then sumQ (map (gain_f c (nth k fsets dfset) mp best) normals)
  else sumQ (map (gain_m c (nth k fsets dfset) fms mp best) normals).

Lemma fblock_contribution_code q fsets fms mp best normals : qeif_wf q fsets fms mp ->
  fblock_contribution q fsets fms mp best normals =
  map (fun k => block_code (q + length mp) fsets fms mp best k normals) (seq 0 (length fsets)).
Proof.
  intros Hwf. rewrite (fblock_contribution_eq q fsets fms mp best normals Hwf). cbv zeta. unfold block_code. fold (GMof (q + length mp) fsets fms mp best normals).
  destruct (Qeq_bool (sumQ (map sumQ (GMof (q + length mp) fsets fms mp best normals))) 0).
  - rewrite map_map. reflexivity.
  - unfold GMof. rewrite map_map. reflexivity.
Qed.

(* ... and its reading *)
Lemma block_code_term c fsets fms mp best k normals :
  block_code c fsets fms mp best k normals == block_term c fsets fms mp best (nth k fsets dfset) normals.
Proof.
  unfold block_code, block_term. rewrite cond_falls_back. destruct (block_falls_back c fsets fms mp best normals).
  - apply sumQ_map_ext. intros z _. apply gain_f_reading.
  - apply sumQ_map_ext. intros z _. apply gain_m_reading.
Qed.

Lemma block_term_weighted c fsets fms mp best s blk : (0 < c)%nat -> 0 <= prodQ (s_probs s) ->
  block_term c fsets fms mp best s blk == block_term_w c fsets fms mp best s blk.
Proof.
  intros Hc Hs. unfold block_term, block_term_w. destruct (block_falls_back c fsets fms mp best blk); [|reflexivity].
  apply sumQ_map_ext. intros z _. apply fallback_gain_weighted; assumption.
Qed.

(* ------------------------------------------------------------------ the loop, block by block *)

Lemma mc_loop_blocks (contrib : mat -> vec) (g : nat -> mat -> Q) (n N b c : nat) :
  (forall normals, contrib normals = map (fun k => g k normals) (seq 0 n)) ->
  forall fuel executed stream (A : nat -> Q),
  let t := passes N b fuel executed in
  snd (mc_loop contrib N b c fuel executed stream (map A (seq 0 n))) = (executed + t * b)%nat /\
  exists A' : nat -> Q,
    fst (mc_loop contrib N b c fuel executed stream (map A (seq 0 n))) = map A' (seq 0 n) /\
    forall k, A' k == A k + sumQ (map (g k) (blocks c b t stream)).
Proof.
  intros Hc. induction fuel as [|fuel IH]; intros executed stream A; cbn [mc_loop passes].
  - split; [cbn; lia|]. exists A. split; [reflexivity|]. intros k. cbn. ring.
  - destruct (executed <? N)%nat.
    + rewrite Hc. rewrite map2_map_same.
      specialize (IH (executed + b)%nat (skipn (b * c) stream) (fun k => A k + g k (rows c b (firstn (b * c) stream)))).
      cbv zeta in IH. destruct IH as (IH1 & A' & IH2 & IH3). split.
      * rewrite IH1. cbn [mult]. lia.
      * exists A'. split; [exact IH2|]. intros k. rewrite IH3. rewrite rows_firstn. cbn [blocks map]. unfold sumQ. cbn [fold_right]. ring.
    + split; [cbn; lia|]. exists A. split; [reflexivity|]. intros k. cbn. ring.
Qed.

Lemma blocks_concat c b : forall t stream, concat (blocks c b t stream) = rows c (t * b) stream.
Proof.
  induction t as [|t IH]; intros stream; [reflexivity|]. cbn [blocks concat]. rewrite IH.
  replace (S t * b)%nat with (b + t * b)%nat by reflexivity. rewrite rows_add. reflexivity.
Qed.

Lemma executed_blocks_concat N B c stream : concat (executed_blocks N B c stream) = executed_draws N B c stream.
Proof. unfold executed_blocks, executed_draws, n_exec. apply blocks_concat. Qed.

Lemma blocks_length c b : forall t stream, length (blocks c b t stream) = t.
Proof. induction t as [|t IH]; intros stream; [reflexivity|]. cbn [blocks length]. rewrite IH. reflexivity. Qed.

Lemma blocks_each c b : forall t stream blk, In blk (blocks c b t stream) -> length blk = b.
Proof.
  induction t as [|t IH]; intros stream blk H; [destruct H|]. cbn [blocks] in H. destruct H as [<-|H]; [apply rows_length|]. apply (IH _ _ H).
Qed.

(* ------------------------------------------------------------------ the call *)

Lemma qeif_eq q fsets fms mp best N B stream : qeif_wf q fsets fms mp ->
  exists A' : nat -> Q,
    qeif q fsets fms mp best N B stream = map (fun k => A' k / ofnat (n_exec N B)) (seq 0 (length fsets)) /\
    forall k, A' k == sumQ (map (block_code (q + length mp) fsets fms mp best k) (executed_blocks N B (q + length mp) stream)).
Proof.
  intros Hwf. unfold qeif. rewrite repeat_map_seq.
  destruct (mc_loop_blocks (fblock_contribution q fsets fms mp best)
              (fun k => block_code (q + length mp) fsets fms mp best k) (length fsets) N (Nat.min B N) (q + length mp)
              (fun normals => fblock_contribution_code q fsets fms mp best normals Hwf) N 0%nat stream (fun _ => 0))
    as (H1 & A' & H2 & H3).
  destruct (mc_loop _ _ _ _ _ _ _ _) as (result, executed). cbn [fst snd] in H1, H2.
  exists A'. split.
  - rewrite H2, map_map, H1. reflexivity.
  - intros k. rewrite H3. unfold executed_blocks. ring.
Qed.

Lemma qeif_length q fsets fms mp best N B stream : length (qeif q fsets fms mp best N B stream) = length fsets.
Proof.
  unfold qeif.
  assert (H : forall fuel executed str result, length result = length fsets ->
            length (fst (mc_loop (fblock_contribution q fsets fms mp best) N (Nat.min B N) (q + length mp) fuel executed str result)) = length fsets).
  { induction fuel as [|fuel IH]; intros executed str result Hr; cbn [mc_loop]; [exact Hr|].
    destruct (executed <? N)%nat; [|exact Hr]. apply IH. rewrite map2_length, Hr.
    unfold fblock_contribution. destruct (Qeq_bool _ 0); unfold max_improvement, amax0; rewrite !map_length, seq_length; lia. }
  specialize (H N 0%nat stream (repeat 0 (length fsets)) (repeat_length _ _)).
  destruct (mc_loop _ _ _ _ _ _ _ _) as (result, executed). cbn [fst] in H. rewrite map_length. exact H.
Qed.

(* (b) every estimate is non-negative: nothing is required of the shapes *)
Theorem qeif_nonneg q fsets fms mp best N B stream : Forall (fun e => 0 <= e) (qeif q fsets fms mp best N B stream).
Proof.
  unfold qeif.
  assert (Hmi : forall n b T, Forall (fun x => 0 <= x) (map sumQ (max_improvement n b T))).
  { intros n b T. apply Forall_forall. intros x Hx. apply in_map_iff in Hx. destruct Hx as (row & <- & Hrow).
    unfold max_improvement in Hrow. apply in_map_iff in Hrow. destruct Hrow as (r0 & <- & _).
    apply sumQ_nonneg. apply Forall_forall. intros y Hy. apply in_map_iff in Hy. destruct Hy as (v & <- & _). apply qmax0_nonneg. }
  assert (H : forall fuel executed str result, Forall (fun x => 0 <= x) result ->
            Forall (fun x => 0 <= x) (fst (mc_loop (fblock_contribution q fsets fms mp best) N (Nat.min B N) (q + length mp) fuel executed str result))).
  { induction fuel as [|fuel IH]; intros executed str result Hr; cbn [mc_loop]; [exact Hr|].
    destruct (executed <? N)%nat; [|exact Hr]. apply IH. apply map2_plus_nonneg; [exact Hr|].
    unfold fblock_contribution. destruct (Qeq_bool _ 0); apply Hmi. }
  specialize (H N 0%nat stream (repeat 0 (length fsets))).
  destruct (mc_loop _ _ _ _ _ _ _ _) as (result, executed). cbn [fst] in H.
  apply Forall_forall. intros e He. apply in_map_iff in He. destruct He as (r & <- & Hr).
  apply div_nonneg; [|apply ofnat_nonneg].
  assert (Hz : Forall (fun x => 0 <= x) (repeat 0 (length fsets))) by (apply Forall_forall; intros x Hx; apply repeat_spec in Hx; subst; lra).
  specialize (H Hz). rewrite Forall_forall in H. apply H. exact Hr.
Qed.

Lemma executed_blocks_draws N B c stream : length (concat (executed_blocks N B c stream)) = n_exec N B.
Proof. rewrite executed_blocks_concat. apply executed_draws_length. Qed.

(* (a) the estimate of candidate set k: the blocks of the call, each contributing the masked improvements of its draws, or - when
   these vanish for every set of the call at every draw of the block - the fallback terms; divided by the number of executed draws *)
Theorem qeif_estimate q fsets fms mp best N B stream k :
  qeif_wf q fsets fms mp -> (k < length fsets)%nat ->
  nth k (qeif q fsets fms mp best N B stream) 0 ==
  fset_estimate (q + length mp) fsets fms mp best (nth k fsets dfset) (executed_blocks N B (q + length mp) stream).
Proof.
  intros Hwf Hk. destruct (qeif_eq q fsets fms mp best N B stream Hwf) as (A' & H1 & H2). rewrite H1.
  rewrite (nth_map_seq _ 0 (length fsets) k 0 Hk). cbn [plus]. unfold fset_estimate. rewrite executed_blocks_draws. rewrite H2.
  apply Qdiv_comp; [|reflexivity]. apply sumQ_map_ext. intros blk _. apply block_code_term.
Qed.

Lemma fset_estimate_weighted c fsets fms mp best s blks : (0 < c)%nat -> 0 <= prodQ (s_probs s) ->
  fset_estimate c fsets fms mp best s blks == fset_estimate_w c fsets fms mp best s blks.
Proof.
  intros Hc Hs. unfold fset_estimate, fset_estimate_w. apply Qdiv_comp; [|reflexivity]. apply sumQ_map_ext. intros blk _.
  apply block_term_weighted; assumption.
Qed.

Theorem qeif_estimate_weighted q fsets fms mp best N B stream k :
  qeif_wf q fsets fms mp -> (0 < q + length mp)%nat -> (k < length fsets)%nat -> 0 <= prodQ (s_probs (nth k fsets dfset)) ->
  nth k (qeif q fsets fms mp best N B stream) 0 ==
  fset_estimate_w (q + length mp) fsets fms mp best (nth k fsets dfset) (executed_blocks N B (q + length mp) stream).
Proof.
  intros Hwf Hc Hk Hs. rewrite (qeif_estimate q fsets fms mp best N B stream k Hwf Hk). apply fset_estimate_weighted; assumption.
Qed.

(* ------------------------------------------------------------------ comparison with the plain estimator (Model.ParallelEI) *)

(* the plain estimator forms L z + best - m (sample m - L z); this class forms best - (L z + m) (sample m + L z): the same
   objective data and the NEGATED draws give the same sample *)
Lemma Lz_opp c L z j : Lz c L (map Qopp z) j == - Lz c L z j.
Proof.
  unfold Lz, sumQ. induction (seq 0 c) as [|l ls IH]; cbn [map fold_right]; [ring|]. rewrite IH.
  change 0 with (- 0) at 1. rewrite (map_nth Qopp z 0 l). ring.
Qed.

Lemma improvement_opp c (s : cset) mbs best z :
  improvement best (sample c (fst s ++ mbs) (snd s) (map Qopp z)) == improvement best (fsample c s mbs z).
Proof.
  unfold improvement. apply qmax0_compat. unfold sample, fsample.
  rewrite (amin_map_ext (fun j => nth j (fst s ++ mbs) 0 - Lz c (snd s) (map Qopp z) j)
                        (fun j => nth j (fst s ++ mbs) 0 + Lz c (snd s) z j) (seq 0 c)); [reflexivity|].
  intros j _. rewrite Lz_opp. ring.
Qed.

Lemma rows_map (f : Q -> Q) w : forall r v, rows w r (map f v) = map (map f) (rows w r v).
Proof.
  induction r as [|r IH]; intros v; [reflexivity|]. cbn [rows map]. rewrite firstn_map, skipn_map. rewrite IH. reflexivity.
Qed.

Lemma executed_draws_opp N B c stream : executed_draws N B c (map Qopp stream) = map (map Qopp) (executed_draws N B c stream).
Proof. unfold executed_draws. apply rows_map. Qed.

(* the plain estimate of an objective set on the negated draws: the mean plain improvement of this class's objective sample *)
Lemma plain_on_negated_draws c (s : cset) mp best zs :
  set_estimate c s mp best (map (map Qopp) zs) == mean_list (map (fun z => improvement best (fsample c s mp z)) zs).
Proof.
  unfold set_estimate, mean_list. rewrite !map_length. apply Qdiv_comp; [|reflexivity]. rewrite map_map.
  apply sumQ_map_ext. intros z _. apply improvement_opp.
Qed.

Lemma sumQ_map_le {A} (f g : A -> Q) (l : list A) : (forall x, In x l -> f x <= g x) -> sumQ (map f l) <= sumQ (map g l).
Proof.
  unfold sumQ. induction l as [|x l IH]; intros H; [cbn; lra|]. cbn [map fold_right].
  assert (f x <= g x) by (apply H; left; reflexivity).
  assert (fold_right Qplus 0 (map f l) <= fold_right Qplus 0 (map g l)) by (apply IH; intros y Hy; apply H; right; exact Hy). lra.
Qed.

Lemma sumQ_concat_map {A} (f : A -> Q) (ls : list (list A)) : sumQ (map (fun l => sumQ (map f l)) ls) == sumQ (map f (concat ls)).
Proof.
  induction ls as [|l ls IH]; [reflexivity|]. cbn [map concat]. rewrite map_app, sumQ_app. rewrite <- IH. unfold sumQ at 1. cbn [fold_right]. reflexivity.
Qed.

Lemma div_le_compat a b d : a <= b -> 0 <= d -> a / d <= b / d.
Proof.
  intros Hab Hd. unfold Qdiv. apply Qmult_le_compat_r; [exact Hab|]. apply Qinv_le_0_compat. exact Hd.
Qed.

(* every block contributes at most the plain improvements of its draws when the success probability of the set is in [0,1] *)
Lemma block_term_le_plain c fsets fms mp best s blk : (0 < c)%nat -> 0 <= prodQ (s_probs s) <= 1 ->
  block_term c fsets fms mp best s blk <= sumQ (map (fun z => improvement best (fsample c (s_obj s) mp z)) blk).
Proof.
  intros Hc (Hs0 & Hs1). unfold block_term. destruct (block_falls_back c fsets fms mp best blk).
  - apply sumQ_map_le. intros z _. rewrite (fallback_gain_weighted c s mp best z Hc Hs0). unfold weighted_improvement.
    assert (Hi := improvement_nonneg best (fsample c (s_obj s) mp z)).
    assert (0 <= (1 - prodQ (s_probs s)) * improvement best (fsample c (s_obj s) mp z)) by (apply Qmult_le_0_compat; lra). lra.
  - apply sumQ_map_le. intros z _. apply masked_le_improvement. exact Hc.
Qed.

(* (b) upper bound: the estimate never exceeds the plain parallel EI (Model.ParallelEI.qei) of the same objective means and
   factors on the negated draws *)
Theorem qeif_le_plain q fsets fms mp best N B stream k :
  qeif_wf q fsets fms mp -> (0 < q + length mp)%nat -> (0 < N)%nat -> (0 < B)%nat -> (k < length fsets)%nat ->
  0 <= prodQ (s_probs (nth k fsets dfset)) <= 1 ->
  nth k (qeif q fsets fms mp best N B stream) 0 <= nth k (qei q (map s_obj fsets) mp best N B (map Qopp stream)) 0.
Proof.
  intros Hwf Hc HN HB Hk Hs.
  rewrite (qeif_estimate q fsets fms mp best N B stream k Hwf Hk).
  rewrite (qei_estimate_is_sample_mean q (map s_obj fsets) mp best N B (map Qopp stream) k (obj_sets_wf q fsets fms mp Hwf) Hc HN HB)
    by (rewrite map_length; exact Hk).
  rewrite nth_map_sobj. rewrite executed_draws_opp. rewrite plain_on_negated_draws.
  unfold fset_estimate, mean_list. rewrite map_length. rewrite executed_blocks_draws, executed_draws_length.
  apply div_le_compat; [|apply ofnat_nonneg].
  rewrite <- executed_blocks_concat. rewrite <- sumQ_concat_map. apply sumQ_map_le. intros blk _.
  apply block_term_le_plain; assumption.
Qed.

(* ------------------------------------------------------------------ calls in which no block falls back *)

Lemma no_fallback_estimate c fsets fms mp best s blks : no_fallback c fsets fms mp best blks = true ->
  fset_estimate c fsets fms mp best s blks == mean_list (map (masked_improvement c s fms mp best) (concat blks)).
Proof.
  intros H. unfold fset_estimate, mean_list. rewrite map_length. apply Qdiv_comp; [|reflexivity].
  rewrite <- sumQ_concat_map. apply sumQ_map_ext. intros blk Hblk. unfold block_term.
  unfold no_fallback in H. rewrite forallb_forall in H. specialize (H blk Hblk). apply Bool.negb_true_iff in H. rewrite H. reflexivity.
Qed.

(* the estimate is then the mean, over the executed draws, of the masked improvement of the set: a function of the set alone *)
Theorem qeif_no_fallback q fsets fms mp best N B stream k :
  qeif_wf q fsets fms mp -> (k < length fsets)%nat ->
  no_fallback (q + length mp) fsets fms mp best (executed_blocks N B (q + length mp) stream) = true ->
  nth k (qeif q fsets fms mp best N B stream) 0 ==
  mean_list (map (masked_improvement (q + length mp) (nth k fsets dfset) fms mp best) (executed_draws N B (q + length mp) stream)).
Proof.
  intros Hwf Hk Hnf. rewrite (qeif_estimate q fsets fms mp best N B stream k Hwf Hk).
  rewrite (no_fallback_estimate _ _ _ _ _ _ _ Hnf). rewrite executed_blocks_concat. reflexivity.
Qed.

(* (c) set independence, where it holds: between two calls none of whose blocks falls back *)
Theorem qeif_set_independent q fsets fsets' fms mp best N B stream k k' :
  qeif_wf q fsets fms mp -> qeif_wf q fsets' fms mp -> (k < length fsets)%nat -> (k' < length fsets')%nat ->
  no_fallback (q + length mp) fsets fms mp best (executed_blocks N B (q + length mp) stream) = true ->
  no_fallback (q + length mp) fsets' fms mp best (executed_blocks N B (q + length mp) stream) = true ->
  nth k fsets dfset = nth k' fsets' dfset ->
  nth k (qeif q fsets fms mp best N B stream) 0 == nth k' (qeif q fsets' fms mp best N B stream) 0.
Proof.
  intros Hwf Hwf' Hk Hk' Hn Hn' E.
  rewrite (qeif_no_fallback q fsets fms mp best N B stream k Hwf Hk Hn).
  rewrite (qeif_no_fallback q fsets' fms mp best N B stream k' Hwf' Hk' Hn'). rewrite E. reflexivity.
Qed.

(* a set with a non-zero masked improvement in every block keeps every call that contains it from falling back *)
Lemma set_active_no_fallback c fsets fms mp best s blks : In s fsets -> set_active c s fms mp best blks = true ->
  no_fallback c fsets fms mp best blks = true.
Proof.
  intros Hin Ha. unfold no_fallback. apply forallb_forall. intros blk Hblk. apply Bool.negb_true_iff.
  destruct (block_falls_back c fsets fms mp best blk) eqn:E; [|reflexivity]. exfalso.
  unfold block_falls_back in E. rewrite forallb_forall in E. specialize (E s Hin). rewrite forallb_forall in E.
  unfold set_active in Ha. rewrite forallb_forall in Ha. specialize (Ha blk Hblk). apply existsb_exists in Ha.
  destruct Ha as (z & Hz & Hnz). rewrite (E z Hz) in Hnz. discriminate.
Qed.

Theorem qeif_set_alone q fsets fms mp best N B stream k :
  qeif_wf q fsets fms mp -> (k < length fsets)%nat ->
  set_active (q + length mp) (nth k fsets dfset) fms mp best (executed_blocks N B (q + length mp) stream) = true ->
  nth k (qeif q fsets fms mp best N B stream) 0 == nth 0 (qeif q [nth k fsets dfset] fms mp best N B stream) 0.
Proof.
  intros Hwf Hk Ha.
  apply (qeif_set_independent q fsets [nth k fsets dfset] fms mp best N B stream k 0); try assumption.
  - destruct Hwf as (H1 & H2). split; [|exact H2]. intros s [<-|[]]. apply H1. apply nth_In. exact Hk.
  - cbn. lia.
  - apply (set_active_no_fallback _ _ _ _ _ (nth k fsets dfset)); [apply nth_In; exact Hk|exact Ha].
  - apply (set_active_no_fallback _ _ _ _ _ (nth k fsets dfset)); [left; reflexivity|exact Ha].
  - reflexivity.
Qed.

(* ------------------------------------------------------------------ (d) every sample feasible: the plain estimator *)

Lemma filter_all {A} (f : A -> bool) l : forallb f l = true -> filter f l = l.
Proof.
  induction l as [|x l IH]; intros H; [reflexivity|]. cbn [forallb] in H. apply andb_prop in H. destruct H as (Hx & Hl).
  cbn [filter]. rewrite Hx. rewrite IH by exact Hl. reflexivity.
Qed.

Lemma masked_all_feasible c s fms mp best z : (0 < c)%nat -> forallb (feasible c s fms z) (seq 0 c) = true ->
  masked_improvement c s fms mp best z == improvement best (fsample c (s_obj s) mp z).
Proof.
  intros Hc H. unfold masked_improvement, feasible_points. rewrite (filter_all _ _ H).
  assert (E2 : map (fun j => nth j (fsample c (s_obj s) mp z) 0) (seq 0 c) = fsample c (s_obj s) mp z).
  { unfold fsample at 2. apply map_ext_in. intros j Hj. apply in_seq in Hj. apply fsample_nth. lia. }
  destruct (seq 0 c) as [|j0 js] eqn:E; [destruct c; [lia|discriminate]|]. rewrite E2. reflexivity.
Qed.

Lemma block_term_all_feasible c fsets fms mp best s blk : (0 < c)%nat -> In s fsets -> 0 <= prodQ (s_probs s) ->
  all_feasible c s fms blk = true ->
  block_term c fsets fms mp best s blk == sumQ (map (fun z => improvement best (fsample c (s_obj s) mp z)) blk).
Proof.
  intros Hc Hin Hs Hall. unfold all_feasible in Hall. rewrite forallb_forall in Hall. unfold block_term.
  destruct (block_falls_back c fsets fms mp best blk) eqn:E.
  - apply sumQ_map_ext. intros z Hz. rewrite (fallback_gain_weighted c s mp best z Hc Hs). unfold weighted_improvement.
    unfold block_falls_back in E. rewrite forallb_forall in E. specialize (E s Hin). rewrite forallb_forall in E. specialize (E z Hz).
    apply Qeq_bool_iff in E. rewrite (masked_all_feasible c s fms mp best z Hc (Hall z Hz)) in E. rewrite E. ring.
  - apply sumQ_map_ext. intros z Hz. apply masked_all_feasible; [exact Hc|]. apply Hall. exact Hz.
Qed.

Theorem qeif_all_feasible_is_plain q fsets fms mp best N B stream k :
  qeif_wf q fsets fms mp -> (0 < q + length mp)%nat -> (0 < N)%nat -> (0 < B)%nat -> (k < length fsets)%nat ->
  0 <= prodQ (s_probs (nth k fsets dfset)) ->
  all_feasible (q + length mp) (nth k fsets dfset) fms (executed_draws N B (q + length mp) stream) = true ->
  nth k (qeif q fsets fms mp best N B stream) 0 == nth k (qei q (map s_obj fsets) mp best N B (map Qopp stream)) 0.
Proof.
  intros Hwf Hc HN HB Hk Hs Hall.
  rewrite (qeif_estimate q fsets fms mp best N B stream k Hwf Hk).
  rewrite (qei_estimate_is_sample_mean q (map s_obj fsets) mp best N B (map Qopp stream) k (obj_sets_wf q fsets fms mp Hwf) Hc HN HB)
    by (rewrite map_length; exact Hk).
  rewrite nth_map_sobj. rewrite executed_draws_opp. rewrite plain_on_negated_draws.
  unfold fset_estimate, mean_list. rewrite map_length. rewrite executed_blocks_draws, executed_draws_length.
  apply Qdiv_comp; [|reflexivity].
  rewrite <- executed_blocks_concat. rewrite <- sumQ_concat_map. apply sumQ_map_ext. intros blk Hblk.
  apply block_term_all_feasible; try assumption; [apply nth_In; exact Hk|].
  unfold all_feasible in *. rewrite forallb_forall in *. intros z Hz. apply Hall. rewrite <- executed_blocks_concat.
  apply in_concat. exists blk. split; assumption.
Qed.

(* no failure model at all: every sample is feasible and the empty product of success probabilities is 1 *)
Corollary qeif_no_failure_models_is_plain q fsets mp best N B stream k :
  qeif_wf q fsets [] mp -> (0 < q + length mp)%nat -> (0 < N)%nat -> (0 < B)%nat -> (k < length fsets)%nat ->
  nth k (qeif q fsets [] mp best N B stream) 0 == nth k (qei q (map s_obj fsets) mp best N B (map Qopp stream)) 0.
Proof.
  intros Hwf Hc HN HB Hk. apply qeif_all_feasible_is_plain; try assumption.
  - destruct Hwf as (H1 & _). destruct (H1 (nth k fsets dfset) (nth_In _ _ Hk)) as (_ & _ & _ & Hp).
    destruct (s_probs (nth k fsets dfset)); [cbn; lra|discriminate].
  - unfold all_feasible. apply forallb_forall. intros z _. apply forallb_forall. intros j _. reflexivity.
Qed.

(* ------------------------------------------------------------------ the reading of one draw, written out *)

Theorem masked_improvement_explicit c mk Lk fails probs fms mp best z :
  masked_improvement c ((mk, Lk), fails, probs) fms mp best z =
  match filter (fun j => forallb (fun i => qltb (nth j (fst (nth i fails dcset) ++ fst (nth i fms dfmod)) 0 + Lz c (snd (nth i fails dcset)) z j)
                                              (snd (nth i fms dfmod))) (seq 0 (length fms))) (seq 0 c) with
  | [] => 0
  | js => qmax 0 (best - amin (map (fun j => nth j (mk ++ mp) 0 + Lz c Lk z j) js))
  end.
Proof.
  unfold masked_improvement, feasible_points.
  assert (E : filter (feasible c (mk, Lk, fails, probs) fms z) (seq 0 c) =
              filter (fun j => forallb (fun i => qltb (nth j (fst (nth i fails dcset) ++ fst (nth i fms dfmod)) 0 + Lz c (snd (nth i fails dcset)) z j)
                                                      (snd (nth i fms dfmod))) (seq 0 (length fms))) (seq 0 c)).
  { apply filter_ext_in. intros j Hj. apply in_seq in Hj. unfold feasible. apply forallb_ext_in. intros i _.
    rewrite fsample_nth by lia. reflexivity. }
  rewrite E. clear E.
  match goal with |- context [filter ?f (seq 0 c)] => set (fl := filter f (seq 0 c));
    assert (Hsub : forall j, In j fl -> (j < c)%nat) by (intros j Hj; apply filter_In in Hj; destruct Hj as (Hj & _); apply in_seq in Hj; lia) end.
  clearbody fl. destruct fl as [|j0 js]; [reflexivity|]. f_equal. f_equal. f_equal.
  apply map_ext_in. intros j Hj. rewrite fsample_nth by (apply Hsub; exact Hj). reflexivity.
Qed.

(* ------------------------------------------------------------------ the public entry point, batch by batch *)

Lemma qeif_batched_nth q fms mp best N B bs : (0 < bs)%nat -> forall fuel fsets stream k,
  (length fsets <= fuel)%nat -> (k < length fsets)%nat ->
  nth k (qeif_batched fuel bs q fsets fms mp best N B stream) 0 =
  nth (k mod bs) (qeif q (firstn bs (skipn ((k / bs) * bs) fsets)) fms mp best N B
                       (skipn ((k / bs) * (n_exec N B * (q + length mp))) stream)) 0.
Proof.
  intros Hbs. induction fuel as [|fuel IH]; intros fsets stream k Hf Hk; [lia|].
  destruct fsets as [|s fsets]; [cbn in Hk; lia|]. cbn [qeif_batched].
  set (ss := s :: fsets) in *.
  destruct (Nat.lt_ge_cases k bs) as [Hlt|Hge].
  - rewrite app_nth1.
    + rewrite Nat.div_small, Nat.mod_small by exact Hlt. reflexivity.
    + rewrite qeif_length, firstn_length. lia.
  - assert (Hl : length (qeif q (firstn bs ss) fms mp best N B stream) = bs) by (rewrite qeif_length, firstn_length; lia).
    rewrite app_nth2 by lia. rewrite Hl.
    rewrite IH.
    + assert (Hd : (k / bs = S ((k - bs) / bs))%nat).
      { replace k with ((k - bs) + 1 * bs)%nat at 1 by lia. rewrite Nat.div_add by lia. lia. }
      assert (Hm : ((k - bs) mod bs = k mod bs)%nat).
      { replace k with ((k - bs) + 1 * bs)%nat at 2 by lia. rewrite Nat.mod_add by lia. reflexivity. }
      rewrite Hm, Hd. f_equal. f_equal.
      * f_equal. replace (S ((k - bs) / bs) * bs)%nat with (bs + (k - bs) / bs * bs)%nat by reflexivity. rewrite skipn_add. reflexivity.
      * replace (S ((k - bs) / bs) * (n_exec N B * (q + length mp)))%nat
          with (n_exec N B * (q + length mp) + (k - bs) / bs * (n_exec N B * (q + length mp)))%nat by reflexivity.
        rewrite skipn_add. reflexivity.
    + rewrite skipn_length. unfold ss in *. cbn [length] in *. lia.
    + rewrite skipn_length. lia.
Qed.

(* evaluate_at_point_list(points, batch_size): the estimate of candidate set k is the estimate (a) of the call made for ITS batch
   (the sets of that batch, the stream moved on by the draws of the batches before it) *)
Theorem qeif_public_estimate batch q fsets fms mp best N B stream k :
  qeif_wf q fsets fms mp -> (k < length fsets)%nat ->
  let bs := match batch with Some b0 => if (b0 =? 0)%nat then length fsets else b0 | None => length fsets end in
  let c := (q + length mp)%nat in
  nth k (qeif_public batch q fsets fms mp best N B stream) 0 ==
  fset_estimate c (firstn bs (skipn ((k / bs) * bs) fsets)) fms mp best (nth k fsets dfset)
                (executed_blocks N B c (skipn ((k / bs) * (n_exec N B * c)) stream)).
Proof.
  intros Hwf Hk bs c. unfold qeif_public. fold bs.
  assert (Hbs : (0 < bs)%nat).
  { unfold bs. destruct batch as [b0|]; [|lia]. destruct (Nat.eqb_spec b0 0); lia. }
  rewrite (qeif_batched_nth q fms mp best N B bs Hbs (length fsets) fsets stream k (le_n _) Hk).
  set (batchsets := firstn bs (skipn (k / bs * bs) fsets)).
  assert (Hdm : (k = bs * (k / bs) + k mod bs)%nat) by (apply Nat.div_mod; lia).
  assert (Hmod : (k mod bs < bs)%nat) by (apply Nat.mod_upper_bound; lia).
  assert (Hsk : (k / bs * bs + k mod bs < length fsets)%nat) by lia.
  assert (Hin : forall s, In s batchsets -> In s fsets).
  { intros s Hs. unfold batchsets in Hs. apply (In_nth _ _ dfset) in Hs. destruct Hs as (i & Hi & <-).
    rewrite firstn_length, skipn_length in Hi. rewrite nth_firstn_lt by lia. rewrite nth_skipn'. apply nth_In. lia. }
  assert (Hlen : (k mod bs < length batchsets)%nat).
  { unfold batchsets. rewrite firstn_length, skipn_length. lia. }
  assert (Hwfb : qeif_wf q batchsets fms mp).
  { destruct Hwf as (H1 & H2). split; [|exact H2]. intros s Hs. apply H1. apply Hin. exact Hs. }
  rewrite (qeif_estimate q batchsets fms mp best N B _ (k mod bs) Hwfb Hlen).
  unfold batchsets at 2. rewrite nth_firstn_lt by lia. rewrite nth_skipn'.
  replace (k / bs * bs + k mod bs)%nat with k by lia. reflexivity.
Qed.

(* ------------------------------------------------------------------ statements that are FALSE of the faithful model *)

Definition wA : fset := (([0], [[1]]), [([8], [[2]])], [1 # 2]).      (* objective mean 0; constraint mean 8, never below the threshold 0 here *)
Definition wB : fset := (([0], [[1]]), [([-8], [[3]])], [1 # 2]).     (* objective mean 0; constraint mean -8, always below the threshold 0 here *)
Definition wfms : list fmod := [([], 0)].

Lemma wf_small (s : fset) (fsets : list fset) (fms : list fmod) q :
  (forall s', In s' fsets -> fset_wf q (length fms) s') -> fset_wf q (length fms) s -> forall s', In s' (s :: fsets) -> fset_wf q (length fms) s'.
Proof. intros H Hs s' [<-|H']; [exact Hs|apply H; exact H']. Qed.

Lemma wA_wf : fset_wf 1 1 wA.
Proof. repeat split; try reflexivity. intros f [<-|[]]. reflexivity. Qed.
Lemma wB_wf : fset_wf 1 1 wB.
Proof. repeat split; try reflexivity. intros f [<-|[]]. reflexivity. Qed.

Lemma wfms_wf : forall fm, In fm wfms -> length (fst fm) = length (@nil Q).
Proof. intros fm [<-|[]]. reflexivity. Qed.

(* set independence fails: the same candidate set, same draws - alone the block falls back (estimate 1/2 * improvement = 1/2),
   next to a set with a feasible improving sample it does not (estimate 0) *)
Theorem qeif_set_independent_refuted :
  exists q fsets fsets' fms mp best N B stream k k',
    qeif_wf q fsets fms mp /\ qeif_wf q fsets' fms mp /\ (0 < q + length mp)%nat /\ (0 < N)%nat /\ (0 < B)%nat /\
    (k < length fsets)%nat /\ (k' < length fsets')%nat /\ nth k fsets dfset = nth k' fsets' dfset /\
    ~ nth k (qeif q fsets fms mp best N B stream) 0 == nth k' (qeif q fsets' fms mp best N B stream) 0.
Proof.
  exists 1%nat, [wA], [wA; wB], wfms, [], 0, 1%nat, 1%nat, [-1; 7; 7], 0%nat, 0%nat.
  split; [split; [|exact wfms_wf]; apply wf_small; [intros s' []|exact wA_wf]|].
  split; [split; [|exact wfms_wf]; apply wf_small; [apply wf_small; [intros s' []|exact wB_wf]|exact wA_wf]|].
  repeat (split; [cbn; lia|]). split; [reflexivity|]. intros H. vm_compute in H. discriminate.
Qed.

(* the estimate is not a function of the executed draws alone: the same two draws as one block of two or as two blocks of one *)
Definition wC : fset := (([0], [[1]]), [([3], [[2]])], [1 # 2]).
Lemma wC_wf : fset_wf 1 1 wC.
Proof. repeat split; try reflexivity. intros f [<-|[]]. reflexivity. Qed.

Theorem qeif_block_size_matters :
  exists q fsets fms mp best N B B' stream,
    qeif_wf q fsets fms mp /\ (0 < q + length mp)%nat /\ (0 < N)%nat /\ (0 < B)%nat /\ (0 < B')%nat /\
    executed_draws N B (q + length mp) stream = executed_draws N B' (q + length mp) stream /\
    ~ nth 0 (qeif q fsets fms mp best N B stream) 0 == nth 0 (qeif q fsets fms mp best N B' stream) 0.
Proof.
  exists 1%nat, [wC], wfms, [], 0, 2%nat, 2%nat, 1%nat, [-1; -2; 7; 7; 7].
  split; [split; [|exact wfms_wf]; apply wf_small; [intros s' []|exact wC_wf]|].
  repeat (split; [cbn; lia|]). split; [reflexivity|]. intros H. vm_compute in H. discriminate.
Qed.

(* on the SAME draws (not negated) the plain estimator is no upper bound: every sample feasible, draw -1 *)
Definition wD : fset := (([0], [[1]]), [([0], [[2]])], [1]).
Lemma wD_wf : fset_wf 1 1 wD.
Proof. repeat split; try reflexivity. intros f [<-|[]]. reflexivity. Qed.

Theorem qeif_le_plain_on_same_draws_refuted :
  exists q fsets fms mp best N B stream k,
    qeif_wf q fsets fms mp /\ (0 < q + length mp)%nat /\ (0 < N)%nat /\ (0 < B)%nat /\ (k < length fsets)%nat /\
    0 <= prodQ (s_probs (nth k fsets dfset)) <= 1 /\
    ~ nth k (qeif q fsets fms mp best N B stream) 0 <= nth k (qei q (map s_obj fsets) mp best N B stream) 0.
Proof.
  exists 1%nat, [wD], [([], 64)], [], 0, 1%nat, 1%nat, [-1; 7; 7], 0%nat.
  split; [split; [|intros fm [<-|[]]; reflexivity]; apply wf_small; [intros s' []|exact wD_wf]|].
  repeat (split; [cbn; lia|]). split; [cbn; lra|]. intros H. apply Qle_bool_iff in H. vm_compute in H. discriminate.
Qed.

Theorem qeif_no_fallback_explicit q fsets fms mp best N B stream k :
  qeif_wf q fsets fms mp -> (k < length fsets)%nat ->
  no_fallback (q + length mp) fsets fms mp best (executed_blocks N B (q + length mp) stream) = true ->
  let zs := executed_draws N B (q + length mp) stream in
  nth k (qeif q fsets fms mp best N B stream) 0 ==
  sumQ (map (masked_improvement (q + length mp) (nth k fsets dfset) fms mp best) zs) / ofnat (length zs).
Proof.
  intros Hwf Hk Hn zs. rewrite (qeif_no_fallback q fsets fms mp best N B stream k Hwf Hk Hn). unfold mean_list. rewrite map_length. reflexivity.
Qed.
