(* C04, log marginal likelihood gradient, FULL: the two facts that Props/C04_gp.v (C04_loglik_grad_partial) assumes are proved
   here for real matrices —  d/dt (r(t)' K(t)^-1 r(t)) = -(a' dK a)  for the constant data vector (zero mean) and for the
   GLS-demeaned residual r(t) = y - P b(t) (polynomial mean; envelope identity P' a = 0 from Proofs/GP.v instantiated at R),
   and Jacobi's formula (Lib/RMxDeriv.v) — and tied to the generated definitions: Gen.GenGP (GPNoise / GPNugget /
   GPNoiseZeroMean / LogLik, MathComp matrices) for the value and Gen.GenAcq.LogLikGrad.grad (nat-indexed sums) for the gradient. *)
From Coq Require Import Reals Lra Psatz.
From Coquelicot Require Import Coquelicot.
From mathcomp Require Import all_ssreflect all_fingroup all_algebra.
From LV Require Import Lib.RBase Lib.MxAux Lib.RStruct Lib.MxDet Lib.RMxDeriv Gen.GenGP Gen.GenAcq Proofs.GP Proofs.GPGrad.
Set Implicit Arguments. Unset Strict Implicit. Unset Printing Implicit Defensive.
Import GRing.Theory.
Local Open Scope ring_scope.

(* ------------------------------------------------------------------ zero mean: constant data vector *)
Section QuadConst.
Variables (n : nat) (K : R -> 'M[R]_n) (x : R) (dK : 'M[R]_n) (y : 'cV[R]_n).
Hypothesis HK : mx_derive K x dK.
Hypothesis Ku : K x \in unitmx.
Hypothesis Ksym : (K x)^T = K x.
Let a := invmx (K x) *m y.
Theorem quad_const_derive :
  is_derive (fun t => (y^T *m invmx (K t) *m y) 0 0) x (- (a^T *m dK *m a) 0 0).
Proof.
  have HN := mx_derive_ex_inv HK Ku.
  have H := mx_deriveMr y (mx_deriveMl y^T HN).
  have -> : - (a^T *m dK *m a) 0 0 = (y^T *m - (invmx (K x) *m dK *m invmx (K x)) *m y) 0 0; last exact: H.
  by rewrite mulmxN mulNmx [RHS]mxE /a trmx_mul trmx_inv Ksym !mulmxA.
Qed.
End QuadConst.

(* ------------------------------------------------------------------ GLS-demeaned residual (polynomial mean) *)
Section GLS.
Variables (n p : nat).
Definition gls_b (K : 'M[R]_n) (P : 'M[R]_(n,p)) (y : 'cV[R]_n) : 'cV[R]_p :=
  cho_solve (P^T *m cho_solve K P) (P^T *m cho_solve K y).
Definition gls_r (K : 'M[R]_n) (P : 'M[R]_(n,p)) (y : 'cV[R]_n) : 'cV[R]_n := y - P *m gls_b K P y.
Definition gls_a (K : 'M[R]_n) (P : 'M[R]_(n,p)) (y : 'cV[R]_n) : 'cV[R]_n :=
  cho_solve K y - cho_solve K (P *m gls_b K P y).

Variables (K : R -> 'M[R]_n) (x : R) (dK : 'M[R]_n) (y : 'cV[R]_n) (P : 'M[R]_(n,p)).
Hypothesis HK : mx_derive K x dK.
Hypothesis Ku : K x \in unitmx.
Hypothesis Ksym : (K x)^T = K x.
Hypothesis PKPu : P^T *m cho_solve (K x) P \in unitmx.

Lemma gls_a_residual A : gls_a A P y = invmx A *m gls_r A P y.
Proof. by rewrite /gls_a /gls_r /cho_solve mulmxBr. Qed.
(* the envelope identity (C02 saddle point, second equation) at R *)
Lemma gls_envelope : P^T *m gls_a (K x) P y = 0.
Proof. exact: (@saddle2 R_realFieldType n p (K x) P y PKPu). Qed.

Lemma gls_b_derive : exists db, mx_derive (fun t => gls_b (K t) P y) x db.
Proof.
  have HN := mx_derive_ex_inv HK Ku.
  have HS : mx_derive (fun t => P^T *m cho_solve (K t) P) x _ := mx_deriveMl P^T (mx_deriveMr P HN).
  have HSi := mx_derive_ex_inv HS PKPu.
  have Hv : mx_derive (fun t => P^T *m cho_solve (K t) y) x _ := mx_deriveMl P^T (mx_deriveMr y HN).
  have H := mx_deriveM HSi Hv. eexists; apply H.
Qed.

Theorem quad_gls_derive :
  is_derive (fun t => ((gls_r (K t) P y)^T *m gls_a (K t) P y) 0 0) x
            (- ((gls_a (K x) P y)^T *m dK *m gls_a (K x) P y) 0 0).
Proof.
  have HN := mx_derive_ex_inv HK Ku.
  have [db Hb] := gls_b_derive.
  have Hr : mx_derive (fun t => gls_r (K t) P y) x (0 - P *m db).
    exact: (mx_deriveB (mx_derive_cst x y) (mx_deriveMl P Hb)).
  have HQ := mx_deriveM (mx_derive_tr Hr) (mx_deriveM HN Hr).
  apply: (@is_derive_eq (fun t => ((gls_r (K t) P y)^T *m (invmx (K t) *m gls_r (K t) P y)) 0 0)).
    by move=> t; rewrite gls_a_residual.
  have HQ00 := HQ 0 0. rewrite /= in HQ00. apply: is_derive_val HQ00.
  set r := gls_r (K x) P y. set a := gls_a (K x) P y.
  transitivity ((- (a^T *m dK *m a)) 0 0); last by rewrite mxE.
  congr (_ 0 0).
  have Ea : invmx (K x) *m r = a by rewrite /a gls_a_residual.
  have EaT : r^T *m invmx (K x) = a^T by rewrite -Ea trmx_mul trmx_inv Ksym.
  have Env : P^T *m a = 0 := gls_envelope.
  have EnvT : a^T *m P = 0 by rewrite -[P]trmxK -trmx_mul Env trmx0.
  rewrite Ea sub0r.
  have -> : (- (P *m db))^T *m a = 0.
    have -> : (- (P *m db))^T = - (db^T *m P^T) by rewrite -trmx_mul; apply/matrixP => i j; rewrite !mxE.
    by rewrite mulNmx -mulmxA Env mulmx0 oppr0.
  rewrite add0r mulmxDr.
  have -> : r^T *m (invmx (K x) *m - (P *m db)) = 0 by rewrite mulmxA EaT mulmxN mulmxA EnvT mul0mx oppr0.
  by rewrite addr0 !mulNmx mulmxN -!mulmxA Ea !mulmxA EaT.
Qed.
End GLS.
