(* C04, log marginal likelihood gradient, FULL: the two facts that Props/C04_gp.v (C04_loglik_grad_partial) assumes are proved
   here for real matrices —  d/dt (r(t)' K(t)^-1 r(t)) = -(a' dK a)  for the constant data vector (zero mean) and for the
   GLS-demeaned residual r(t) = y - P b(t) (polynomial mean; envelope identity P' a = 0 from Proofs/GP.v instantiated at R),
   and Jacobi's formula (Lib/RMxDeriv.v) — and tied to the generated definitions: Gen.GenGP (GPNoise / GPNugget /
   GPNoiseZeroMean / LogLik, MathComp matrices) for the value and Gen.GenAcq.LogLikGrad.grad (nat-indexed sums) for the gradient.
   The Cholesky factor is a contract (chol_ok: L L' = K, lower triangular, positive diagonal, near the hyperparameter value);
   it gives 0 < det K, K symmetric and 2 * sum(log(diag L)) = log det K. *)
From Coq Require Import Reals Lra Psatz FunctionalExtensionality.
From Coquelicot Require Import Coquelicot.
From mathcomp Require Import all_ssreflect all_fingroup all_algebra.
From LV Require Import Lib.RBase Lib.MxAux Lib.RStruct Lib.MxDet Lib.RMxDeriv Gen.GenGP Gen.GenAcq Proofs.GP Proofs.GPGrad.
Set Implicit Arguments. Unset Strict Implicit. Unset Printing Implicit Defensive.
Import GRing.Theory.
Local Open Scope ring_scope.

(* ------------------------------------------------------------------ zero mean: constant data vector *)
Section QuadConst.
Variables (n : nat) (K : R -> 'M[R]_n) (x : R) (dK : 'M[R]_n) (y : 'cV[R]_n).
Hypothesis HK : mx_derive K x dK.
Hypothesis Ku : K x \in unitmx.
Hypothesis Ksym : (K x)^T = K x.
Let a := invmx (K x) *m y.
Theorem quad_const_derive :
  is_derive (fun t => (y^T *m invmx (K t) *m y) 0 0) x (- (a^T *m dK *m a) 0 0).
Proof.
  have HN := mx_derive_ex_inv HK Ku.
  have H := mx_deriveMr y (mx_deriveMl y^T HN).
  have -> : - (a^T *m dK *m a) 0 0 = (y^T *m - (invmx (K x) *m dK *m invmx (K x)) *m y) 0 0; last exact: H.
  by rewrite mulmxN mulNmx [RHS]mxE /a trmx_mul trmx_inv Ksym !mulmxA.
Qed.
End QuadConst.

(* ------------------------------------------------------------------ GLS-demeaned residual (polynomial mean) *)
Section GLS.
Variables (n p : nat).
Definition gls_b (K : 'M[R]_n) (P : 'M[R]_(n,p)) (y : 'cV[R]_n) : 'cV[R]_p :=
  cho_solve (P^T *m cho_solve K P) (P^T *m cho_solve K y).
Definition gls_r (K : 'M[R]_n) (P : 'M[R]_(n,p)) (y : 'cV[R]_n) : 'cV[R]_n := y - P *m gls_b K P y.
Definition gls_a (K : 'M[R]_n) (P : 'M[R]_(n,p)) (y : 'cV[R]_n) : 'cV[R]_n :=
  cho_solve K y - cho_solve K (P *m gls_b K P y).

Variables (K : R -> 'M[R]_n) (x : R) (dK : 'M[R]_n) (y : 'cV[R]_n) (P : 'M[R]_(n,p)).
Hypothesis HK : mx_derive K x dK.
Hypothesis Ku : K x \in unitmx.
Hypothesis Ksym : (K x)^T = K x.
Hypothesis PKPu : P^T *m cho_solve (K x) P \in unitmx.

Lemma gls_a_residual A : gls_a A P y = invmx A *m gls_r A P y.
Proof. by rewrite /gls_a /gls_r /cho_solve mulmxBr. Qed.
(* the envelope identity (C02 saddle point, second equation) at R *)
Lemma gls_envelope : P^T *m gls_a (K x) P y = 0.
Proof. exact: (@saddle2 R_realFieldType n p (K x) P y PKPu). Qed.

Lemma gls_b_derive : exists db, mx_derive (fun t => gls_b (K t) P y) x db.
Proof.
  have HN := mx_derive_ex_inv HK Ku.
  have HS : mx_derive (fun t => P^T *m cho_solve (K t) P) x _ := mx_deriveMl P^T (mx_deriveMr P HN).
  have HSi := mx_derive_ex_inv HS PKPu.
  have Hv : mx_derive (fun t => P^T *m cho_solve (K t) y) x _ := mx_deriveMl P^T (mx_deriveMr y HN).
  have H := mx_deriveM HSi Hv. eexists; apply H.
Qed.

Theorem quad_gls_derive :
  is_derive (fun t => ((gls_r (K t) P y)^T *m gls_a (K t) P y) 0 0) x
            (- ((gls_a (K x) P y)^T *m dK *m gls_a (K x) P y) 0 0).
Proof.
  have HN := mx_derive_ex_inv HK Ku.
  have [db Hb] := gls_b_derive.
  have Hr : mx_derive (fun t => gls_r (K t) P y) x (0 - P *m db).
    exact: (mx_deriveB (mx_derive_cst x y) (mx_deriveMl P Hb)).
  have HQ := mx_deriveM (mx_derive_tr Hr) (mx_deriveM HN Hr).
  apply: (@is_derive_eq (fun t => ((gls_r (K t) P y)^T *m (invmx (K t) *m gls_r (K t) P y)) 0 0)).
    by move=> t; rewrite gls_a_residual.
  have HQ00 := HQ 0 0. rewrite /= in HQ00. apply: is_derive_val HQ00.
  set r := gls_r (K x) P y. set a := gls_a (K x) P y.
  transitivity ((- (a^T *m dK *m a)) 0 0); last by rewrite mxE.
  congr (_ 0 0).
  have Ea : invmx (K x) *m r = a by rewrite /a gls_a_residual.
  have EaT : r^T *m invmx (K x) = a^T by rewrite -Ea trmx_mul trmx_inv Ksym.
  have Env : P^T *m a = 0 := gls_envelope.
  have EnvT : a^T *m P = 0 by rewrite -[P]trmxK -trmx_mul Env trmx0.
  rewrite Ea sub0r.
  have -> : (- (P *m db))^T *m a = 0.
    have -> : (- (P *m db))^T = - (db^T *m P^T) by rewrite -trmx_mul; apply/matrixP => i j; rewrite !mxE.
    by rewrite mulNmx -mulmxA Env mulmx0 oppr0.
  rewrite add0r mulmxDr.
  have -> : r^T *m (invmx (K x) *m - (P *m db)) = 0 by rewrite mulmxA EaT mulmxN mulmxA EnvT mul0mx oppr0.
  by rewrite addr0 !mulNmx mulmxN -!mulmxA Ea !mulmxA EaT.
Qed.
End GLS.

(* ------------------------------------------------------------------ nat-indexed views and the generated gradient *)
Section Views.
Definition mxv m n (A : 'M[R]_(m,n)) (i j : nat) : R :=
  match (insub i : option 'I_m), (insub j : option 'I_n) with Some i', Some j' => A i' j' | _, _ => 0 end.
Definition cvv n (v : 'cV[R]_n) (i : nat) : R := mxv v i 0.
Lemma mxvE m n (A : 'M[R]_(m,n)) (i : 'I_m) (j : 'I_n) : mxv A i j = A i j.
Proof. by rewrite /mxv !valK. Qed.
Lemma cvvE n (v : 'cV[R]_n) (i : 'I_n) : cvv v i = v i 0.
Proof. exact: (mxvE v i 0). Qed.
Lemma bigsum_ord n (f : nat -> R) : bigsum n f = \sum_(i < n) f i.
Proof. elim: n => [|n IH]; first by rewrite big_ord0. by rewrite big_ord_recr /= IH. Qed.

(* the generated per-hyperparameter gradient, in matrix form *)
Lemma loglik_grad_matrix_form n nh (a : 'cV[R]_n) (dKt : nat -> 'M[R]_n) (Kinv : 'M[R]_n) (s : R) (h : nat) :
  LogLikGrad.grad n nh (cvv a) (fun j l k => mxv (dKt k) j l) (mxv Kinv) s (fun _ => 1) h
  = - s * (- (a^T *m dKt h *m a) 0 0 + \tr (Kinv *m dKt h)).
Proof.
  rewrite /LogLikGrad.grad.
  have -> : bigsum n (fun j => bigsum n (fun l => (cvv a j * mxv (dKt h) j l * cvv a l)%Re)) = (a^T *m dKt h *m a) 0 0.
    rewrite bigsum_ord. under eq_bigr => j _ do rewrite bigsum_ord.
    rewrite [RHS]mxE. under [RHS]eq_bigr => l _ do rewrite mxE big_distrl /=.
    rewrite exchange_big /=. apply: eq_bigr => l _. apply: eq_bigr => j _. by rewrite cvvE mxvE cvvE !mxE.
  have -> : bigsum n (fun j => bigsum n (fun l => (mxv Kinv j l * mxv (dKt h) l j)%Re)) = \tr (Kinv *m dKt h).
    rewrite bigsum_ord. apply: eq_bigr => j _. rewrite bigsum_ord mxE. apply: eq_bigr => l _. by rewrite !mxvE.
  by rewrite -[RHS]mulr1.
Qed.
End Views.

(* ------------------------------------------------------------------ Cholesky diagonal: 2 * sum(log(diag L)) = log det K *)
Section CholLogDet.
Variable n : nat.
Definition chol_ok (L A : 'M[R]_n) : Prop := L *m L^T = A /\ is_trig_mx L /\ forall i, Rlt 0 (L i i).
Definition sumlogdiag (L : 'M[R]_n) : R := \sum_i ln (L i i).

Lemma ln_prod_pos (I : Type) (r : seq I) (f : I -> R) :
  (forall i, Rlt 0 (f i)) -> Rlt 0 (\prod_(i <- r) f i) /\ ln (\prod_(i <- r) f i) = \sum_(i <- r) ln (f i).
Proof.
  move=> Hf; elim: r => [|i r [IH1 IH2]].
  - rewrite !big_nil; split; [exact: Rlt_0_1|exact: ln_1].
  - rewrite !big_cons; split; first exact: Rmult_lt_0_compat.
    by rewrite -IH2; apply: ln_mult.
Qed.
Lemma chol_logdet (L A : 'M[R]_n) :
  chol_ok L A -> Rlt 0 (\det A) /\ A^T = A /\ 2%:R * sumlogdiag L = ln (\det A).
Proof.
  case=> HA [Ht Hd]. have [Hp Hl] := ln_prod_pos (index_enum _) Hd.
  have Ed : \det A = (\prod_i L i i) * (\prod_i L i i) by rewrite -HA det_mulmx det_tr det_trig.
  split; first by rewrite Ed; apply: Rmult_lt_0_compat.
  split; first by rewrite -HA trmx_mul trmxK.
  by rewrite Ed ln_mult // /sumlogdiag -Hl -RaddE -mulr2n mulr_natl.
Qed.
End CholLogDet.

(* ------------------------------------------------------------------ assembling the derivative of the value *)
Section Assemble.
Variables (n nh : nat) (chol : 'M[R]_n -> 'M[R]_n) (K : R -> 'M[R]_n) (x : R) (dKt : nat -> 'M[R]_n) (h : nat) (s : R).
Hypothesis HK : mx_derive K x (dKt h).
Hypothesis Hchol : locally x (fun t => chol_ok (chol (K t)) (K t)).

Lemma chol_at_x : chol_ok (chol (K x)) (K x).
Proof. exact: (locally_singleton _ _ Hchol). Qed.
Lemma chol_unit : K x \in unitmx.
Proof.
  have [Hp _] := chol_logdet chol_at_x. rewrite unitmxE unitfE. apply/RneqP => E. rewrite E in Hp. exact: (Rlt_irrefl _ Hp).
Qed.
Lemma chol_sym : (K x)^T = K x.
Proof. by have [_ [H _]] := chol_logdet chol_at_x. Qed.

Lemma logdet_chol_derive :
  is_derive (fun t => 2%:R * sumlogdiag (chol (K t))) x (\tr (invmx (K x) *m dKt h)).
Proof.
  have [Hp _] := chol_logdet chol_at_x.
  apply: (@is_derive_eq_loc (fun t => ln (\det (K t)))); last exact: jacobi_logdet.
  apply: locally_imp Hchol => t Ht. by have [_ [_ ->]] := chol_logdet Ht.
Qed.

Lemma loglik_assemble (Q : R -> R) (a : 'cV[R]_n) :
  is_derive Q x (- (a^T *m dKt h *m a) 0 0) ->
  is_derive (fun t => - s * (Q t + 2%:R * sumlogdiag (chol (K t)))) x
            (LogLikGrad.grad n nh (cvv a) (fun j l k => mxv (dKt k) j l) (mxv (invmx (K x))) s (fun _ => 1) h).
Proof.
  move=> HQ. rewrite loglik_grad_matrix_form. apply: is_deriveZ. exact: (is_deriveD HQ logdet_chol_derive).
Qed.
End Assemble.

(* ------------------------------------------------------------------ the textbook form: L(t) = -s (r' K^-1 r + log det K), no Cholesky *)
Section LogDetForm.
Variables (n p nh : nat) (K : R -> 'M[R]_n) (x : R) (dKt : nat -> 'M[R]_n) (h : nat) (y : 'cV[R]_n) (P : 'M[R]_(n,p)) (s : R).
Hypothesis HK : mx_derive K x (dKt h).
Hypothesis Kpos : Rlt 0 (\det (K x)).
Hypothesis Ksym : (K x)^T = K x.
Hypothesis PKPu : P^T *m cho_solve (K x) P \in unitmx.
Lemma pos_unit : K x \in unitmx.
Proof. rewrite unitmxE unitfE. apply/RneqP => E. have H := Kpos. rewrite E in H. exact: (Rlt_irrefl _ H). Qed.
Theorem loglik_logdet_grad :
  is_derive (fun t => - s * (((gls_r (K t) P y)^T *m gls_a (K t) P y) 0 0 + ln (\det (K t)))) x
            (LogLikGrad.grad n nh (cvv (gls_a (K x) P y)) (fun j l k => mxv (dKt k) j l) (mxv (invmx (K x))) s (fun _ => 1) h).
Proof.
  rewrite loglik_grad_matrix_form. apply: is_deriveZ. apply: is_deriveD; last exact: jacobi_logdet.
  exact: (quad_gls_derive y HK pos_unit Ksym PKPu).
Qed.
End LogDetForm.

(* ------------------------------------------------------------------ the generated value functions and their gradients *)
Section Final.
Variables (n p nh : nat) (chol : 'M[R]_n -> 'M[R]_n).
Variables (noise y : 'cV[R]_n) (Pmx : 'M[R]_(n,p)) (s : R).
Variables (x : R) (dKt : nat -> 'M[R]_n) (h : nat).

(* per-point noise, polynomial mean (GPNoise): value as a function of one hyperparameter t through the kernel matrix *)
Section Noise.
Variable Kker : R -> 'M[R]_n.
Let K t := GPNoise.kernel_matrix (Kker t) noise.
Definition loglik_noise (t : R) : R :=
  LogLik.log_likelihood_value chol (@sumlogdiag n) (K t)
    (GPNoise.demeaned_y (Kker t) noise y Pmx) (GPNoise.K_inv_demeaned_y (Kker t) noise y Pmx) s.
Hypothesis HK : mx_derive Kker x (dKt h).
Hypothesis Hchol : locally x (fun t => chol_ok (chol (K t)) (K t)).
Hypothesis PKPu : GPNoise.PT_K_inv_P (Kker x) noise Pmx \in unitmx.

Lemma noise_K_derive : mx_derive K x (dKt h).
Proof. apply: mx_derive_val (mx_deriveD HK (mx_derive_cst x (diag_mx noise^T))). by rewrite addr0. Qed.

Theorem loglik_noise_grad :
  is_derive loglik_noise x
    (LogLikGrad.grad n nh (cvv (GPNoise.K_inv_demeaned_y (Kker x) noise y Pmx)) (fun j l k => mxv (dKt k) j l)
                     (mxv (invmx (K x))) s (fun _ => 1) h).
Proof.
  apply: (loglik_assemble nh s noise_K_derive Hchol (Q := fun t => ((gls_r (K t) Pmx y)^T *m gls_a (K t) Pmx y) 0 0)).
  exact: (quad_gls_derive y noise_K_derive (chol_unit Hchol) (chol_sym Hchol) PKPu).
Qed.
End Noise.

(* nugget (auto-noise), polynomial mean (GPNugget): both the kernel part and the nugget may depend on t *)
Section Nugget.
Variables (Kker : R -> 'M[R]_n) (tik : R -> R) (dtik : R).
Let K t := GPNugget.kernel_matrix (Kker t) (tik t).
Definition loglik_nugget (t : R) : R :=
  LogLik.log_likelihood_value chol (@sumlogdiag n) (K t)
    (GPNugget.demeaned_y (Kker t) (tik t) y Pmx) (GPNugget.K_inv_demeaned_y (Kker t) (tik t) y Pmx) s.
Variable dKk : 'M[R]_n.
Hypothesis HK : mx_derive Kker x dKk.
Hypothesis Htik : is_derive tik x dtik.
Hypothesis HdK : dKt h = dKk + dtik%:M.
Hypothesis Hchol : locally x (fun t => chol_ok (chol (K t)) (K t)).
Hypothesis PKPu : GPNugget.PT_K_inv_P (Kker x) (tik x) Pmx \in unitmx.

Lemma nugget_K_derive : mx_derive K x (dKt h).
Proof.
  rewrite HdK. apply: mx_deriveD => // i j.
  apply: (@is_derive_eq (fun t => tik t *+ (i == j))); first by move=> t; rewrite !mxE.
  rewrite mxE. case: (i == j); [exact: Htik | exact: is_derive_cst].
Qed.

Theorem loglik_nugget_grad :
  is_derive loglik_nugget x
    (LogLikGrad.grad n nh (cvv (GPNugget.K_inv_demeaned_y (Kker x) (tik x) y Pmx)) (fun j l k => mxv (dKt k) j l)
                     (mxv (invmx (K x))) s (fun _ => 1) h).
Proof.
  apply: (loglik_assemble nh s nugget_K_derive Hchol (Q := fun t => ((gls_r (K t) Pmx y)^T *m gls_a (K t) Pmx y) 0 0)).
  exact: (quad_gls_derive y nugget_K_derive (chol_unit Hchol) (chol_sym Hchol) PKPu).
Qed.
End Nugget.

(* zero mean (GPNoiseZeroMean): r = y constant *)
Section ZeroMean.
Variable Kker : R -> 'M[R]_n.
Let K t := GPNoiseZeroMean.kernel_matrix (Kker t) noise.
Definition loglik_zero_mean (t : R) : R :=
  LogLik.log_likelihood_value chol (@sumlogdiag n) (K t)
    (GPNoiseZeroMean.demeaned_y y) (GPNoiseZeroMean.K_inv_demeaned_y (Kker t) noise y) s.
Hypothesis HK : mx_derive Kker x (dKt h).
Hypothesis Hchol : locally x (fun t => chol_ok (chol (K t)) (K t)).

Theorem loglik_zero_mean_grad :
  is_derive loglik_zero_mean x
    (LogLikGrad.grad n nh (cvv (GPNoiseZeroMean.K_inv_demeaned_y (Kker x) noise y)) (fun j l k => mxv (dKt k) j l)
                     (mxv (invmx (K x))) s (fun _ => 1) h).
Proof.
  have HKd : mx_derive K x (dKt h) := noise_K_derive HK.
  apply: (loglik_assemble nh s HKd Hchol (Q := fun t => (y^T *m (invmx (K t) *m y)) 0 0)).
  apply: (@is_derive_eq (fun t => (y^T *m invmx (K t) *m y) 0 0)); first by move=> t; rewrite mulmxA.
  exact: (quad_const_derive y HKd (chol_unit Hchol) (chol_sym Hchol)).
Qed.
End ZeroMean.
End Final.

(* ------------------------------------------------------------------ the whole gradient vector: one partial derivative per hyperparameter *)
Section GradientVector.
Variables (n p nh : nat) (chol : 'M[R]_n -> 'M[R]_n) (noise y : 'cV[R]_n) (Pmx : 'M[R]_(n,p)) (s : R).
Variable Kfun : (nat -> R) -> 'M[R]_n.          (* kernel matrix as a function of the hyperparameter vector *)
Variables (theta : nat -> R) (dKt : nat -> 'M[R]_n).
Definition upd (th : nat -> R) (h : nat) (t : R) : nat -> R := fun k => if k == h then t else th k.
Lemma upd_id th h : upd th h (th h) = th.
Proof. apply: functional_extensionality => k. by rewrite /upd; case: eqP => [->|]. Qed.

Theorem loglik_noise_gradient_vector h :
  mx_derive (fun t => Kfun (upd theta h t)) (theta h) (dKt h) ->
  locally (theta h) (fun t => let K := GPNoise.kernel_matrix (Kfun (upd theta h t)) noise in chol_ok (chol K) K) ->
  GPNoise.PT_K_inv_P (Kfun theta) noise Pmx \in unitmx ->
  is_derive (fun t => loglik_noise chol noise y Pmx s (fun u => Kfun (upd theta h u)) t) (theta h)
    (LogLikGrad.grad n nh (cvv (GPNoise.K_inv_demeaned_y (Kfun theta) noise y Pmx)) (fun j l k => mxv (dKt k) j l)
                     (mxv (invmx (GPNoise.kernel_matrix (Kfun theta) noise))) s (fun _ => 1) h).
Proof.
  move=> HK Hchol PKPu.
  have := @loglik_noise_grad n p nh chol noise y Pmx s (theta h) dKt h (fun u => Kfun (upd theta h u)) HK Hchol.
  rewrite upd_id. exact.
Qed.
End GradientVector.

(* ------------------------------------------------------------------ log parameterisation (log_domain=True) *)
Section LogDomain.
Variables (n p nh : nat) (chol : 'M[R]_n -> 'M[R]_n) (noise y : 'cV[R]_n) (Pmx : 'M[R]_(n,p)) (s : R).
Variables (al : R) (dKt : nat -> 'M[R]_n) (h : nat) (Kker : R -> 'M[R]_n).
Let K t := GPNoise.kernel_matrix (Kker t) noise.
Theorem loglik_noise_grad_log_domain :
  mx_derive Kker (exp al) (dKt h) -> locally (exp al) (fun t => chol_ok (chol (K t)) (K t)) ->
  GPNoise.PT_K_inv_P (Kker (exp al)) noise Pmx \in unitmx ->
  is_derive (fun u => loglik_noise chol noise y Pmx s Kker (exp u)) al
    (LogLikGrad.grad n nh (cvv (GPNoise.K_inv_demeaned_y (Kker (exp al)) noise y Pmx)) (fun j l k => mxv (dKt k) j l)
                     (mxv (invmx (K (exp al)))) s (fun _ => exp al) h).
Proof.
  move=> HK Hchol PKPu.
  exact: (loglik_grad_log_domain (loglik_noise chol noise y Pmx s Kker) _ al n nh _ _ _ s h
            (loglik_noise_grad nh y s HK Hchol PKPu) erefl).
Qed.
End LogDomain.

(* ------------------------------------------------------------------ the hypotheses are satisfiable: two observations, constant mean,
   kernel matrix t * I (signal-variance hyperparameter, far-apart points), no noise, at t = 1 *)
Section Instance.
Definition chol_scalar (A : 'M[R]_2) : 'M[R]_2 := (sqrt (A 0 0))%:M.
Let Kk (t : R) : 'M[R]_2 := t%:M.
Let P1 : 'M[R]_(2,1) := const_mx 1.
Let noise0 : 'cV[R]_2 := 0.
Lemma inst_K t : GPNoise.kernel_matrix (Kk t) noise0 = t%:M.
Proof. by rewrite /GPNoise.kernel_matrix /noise0 trmx0 linear0 addr0. Qed.
Lemma inst_derive : mx_derive Kk 1 (1%:M).
Proof.
  move=> i j. apply: (@is_derive_eq (fun t => t *+ (i == j))); first by move=> t; rewrite !mxE.
  rewrite mxE. case: (i == j); [exact: (@is_derive_id R_AbsRing) | exact: is_derive_cst].
Qed.
Lemma inst_chol : locally (1 : R) (fun t => chol_ok (chol_scalar (GPNoise.kernel_matrix (Kk t) noise0)) (GPNoise.kernel_matrix (Kk t) noise0)).
Proof.
  have H : locally (1 : R) (fun t => Rlt 0 t) := open_gt 0 1 Rlt_0_1.
  apply: locally_imp H => t Ht. rewrite inst_K /chol_scalar mxE eqxx mulr1n. split; last split.
  - rewrite tr_scalar_mx -scalar_mxM. have -> // : sqrt t * sqrt t = t. by apply: sqrt_sqrt; apply: Rlt_le.
  - exact: scalar_mx_is_trig.
  - move=> i. rewrite mxE eqxx mulr1n. exact: sqrt_lt_R0.
Qed.
Lemma inst_PKP : GPNoise.PT_K_inv_P (Kk 1) noise0 P1 \in unitmx.
Proof.
  rewrite /GPNoise.PT_K_inv_P /GPNoise.K_inv_P /GPNoise.P /cho_solve inst_K invmx1 mul1mx unitmxE det_mx11 unitfE.
  by rewrite mxE !big_ord_recl big_ord0 !mxE !mulr1 addr0 -(natrD _ 1 1) Num.Theory.pnatr_eq0.
Qed.
Theorem loglik_full_instance (y : 'cV[R]_2) (s : R) :
  is_derive (loglik_noise chol_scalar noise0 y P1 s Kk) 1
    (LogLikGrad.grad 2 1 (cvv (GPNoise.K_inv_demeaned_y (Kk 1) noise0 y P1)) (fun j l k => mxv (1%:M : 'M[R]_2) j l)
                     (mxv (invmx (GPNoise.kernel_matrix (Kk 1) noise0))) s (fun _ => 1) 0).
Proof. exact: (@loglik_noise_grad 2 1 1 chol_scalar noise0 y P1 s 1 (fun _ => 1%:M) 0%N Kk inst_derive inst_chol inst_PKP). Qed.
End Instance.
