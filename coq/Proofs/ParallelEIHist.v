(* Histories on one live ExpectedParallelImprovement object (Model.ParallelEIHist): nothing but the incumbent of the construction and the
   pending points assigned last survives in the object; every evaluation is the estimator of Model.ParallelEI on what the predictor
   answers at that moment. *)
From Coq Require Import List QArith Bool Arith Lia.
From LV Require Import Model.ParallelEI Model.ParallelEIHist Proofs.ParallelEI.
Import ListNotations.
Open Scope Q_scope.

Lemma run_app p o ops1 : forall p0 o0, p0 = p -> o0 = o -> forall ops2,
  run p o (ops1 ++ ops2) = run p o ops1 ++ run (fst (state_after p o ops1)) (snd (state_after p o ops1)) ops2.
Proof.
  revert p o. induction ops1 as [|op r IH]; intros p o p0 o0 _ _ ops2; [reflexivity|].
  destruct op as [p'|pts|sets e st]; cbn [app run state_after].
  - apply (IH p' o p' o eq_refl eq_refl).
  - apply (IH p (with_pending o pts) p _ eq_refl eq_refl).
  - rewrite (IH p o p o eq_refl eq_refl). reflexivity.
Qed.

Lemma run_length p o ops : length (run p o ops) = count_evals ops.
Proof. revert p o. induction ops as [|op r IH]; intros p o; [reflexivity|]. destruct op; cbn; rewrite ?IH; reflexivity. Qed.

(* the state after any history: the predictor named last, and an object that differs from the constructed one only in the pending
   points assigned last - evaluations leave nothing behind, earlier predictors and earlier pending sets leave nothing behind *)
Theorem state_after_spec ops : forall p o,
  state_after p o ops = (last_predictor p ops, mkobj (o_q o) (last_pending (o_pending o) ops) (o_best o) (o_N o) (o_B o)).
Proof.
  induction ops as [|op r IH]; intros p o; [destruct o; reflexivity|]. destruct op as [p'|pts|sets e st]; cbn [state_after last_predictor last_pending].
  - apply IH.
  - rewrite IH. reflexivity.
  - apply IH.
Qed.

(* every evaluation of a history ... *)
Theorem hist_eval p o ops1 sets e st ops2 :
  nth (count_evals ops1) (run p o (ops1 ++ QEval sets e st :: ops2)) [] =
  eval (last_predictor p ops1) (mkobj (o_q o) (last_pending (o_pending o) ops1) (o_best o) (o_N o) (o_B o)) sets e st.
Proof.
  rewrite (run_app p o ops1 p o eq_refl eq_refl). rewrite app_nth2; rewrite run_length; [|lia]. rewrite Nat.sub_diag.
  rewrite state_after_spec. reflexivity.
Qed.

(* ... is the evaluation of an object FRESHLY constructed, with the pending points held now, on the predictor as it answers now -
   given that this predictor still reports the incumbent the object was built with (lie data carry the worst value; otherwise the
   object keeps the incumbent of ITS construction: best_value is read once) *)
Theorem hist_eval_is_fresh p0 q pend0 N B ops1 sets e st ops2 :
  let p := last_predictor p0 ops1 in
  let pend := last_pending pend0 ops1 in
  nth (count_evals ops1) (run p0 (construct p0 q pend0 N B) (ops1 ++ QEval sets e st :: ops2)) [] = eval p (construct p0 q pend N B) sets e st /\
  (p_best p = p_best p0 -> construct p0 q pend N B = construct p q pend N B).
Proof.
  intros p pend. split; [apply hist_eval|]. unfold construct. intros ->. reflexivity.
Qed.

(* the reading of one estimate inside a history: the mean, over the executed draws of its call, of the improvement over the incumbent of
   the minimum of the sample m - L z, with m = the means the predictor answers NOW for the candidate set and for the pending points held
   NOW, L = the factor of the covariance it answers NOW for their union *)
Theorem hist_estimate_reading p o sets entry stream k :
  (forall s, In s sets -> length s = o_q o) -> (0 < o_q o + length (o_pending o))%nat -> (0 < o_N o)%nat -> (0 < o_B o)%nat -> (k < length sets)%nat ->
  let c := (o_q o + length (o_pending o))%nat in
  let bs := match entry with Some (Some b0) => if (b0 =? 0)%nat then length sets else b0 | _ => length sets end in
  let sk := nth k sets [] in
  nth k (eval p o sets entry stream) 0 ==
  set_estimate c (map (mean_of (p_means p)) sk, fac_of (p_facs p) (sk ++ o_pending o)) (mp_now p o) (o_best o)
    (executed_draws (o_N o) (o_B o) c (skipn ((k / bs) * (n_exec (o_N o) (o_B o) * c)) stream)).
Proof.
  intros Hq Hc HN HB Hk c bs sk.
  assert (Hwf : forall s, In s (csets_now p o sets) -> length (fst s) = o_q o).
  { intros s Hs. unfold csets_now in Hs. apply in_map_iff in Hs. destruct Hs as (s0 & <- & Hin). cbn [fst]. rewrite map_length. apply Hq. exact Hin. }
  assert (Hlen : length (csets_now p o sets) = length sets) by (unfold csets_now; apply map_length).
  assert (Hmp : length (mp_now p o) = length (o_pending o)) by (unfold mp_now; apply map_length).
  assert (Hnth : nth k (csets_now p o sets) ([], []) = (map (mean_of (p_means p)) sk, fac_of (p_facs p) (sk ++ o_pending o))).
  { unfold csets_now, sk. rewrite (nth_map_lt _ sets k ([], []) []); [reflexivity|exact Hk]. }
  unfold eval. destruct entry as [batch|].
  - pose proof (qei_public_estimate batch (o_q o) (csets_now p o sets) (mp_now p o) (o_best o) (o_N o) (o_B o) stream k Hwf) as H.
    rewrite Hmp, Hlen in H. specialize (H Hc HN HB Hk). cbv zeta in H. rewrite H. fold c. rewrite Hnth.
    assert (Ebs : match batch with Some b0 => if (b0 =? 0)%nat then length sets else b0 | None => length sets end = bs) by (unfold bs; destruct batch; reflexivity).
    rewrite Ebs. reflexivity.
  - pose proof (qei_estimate_is_sample_mean (o_q o) (csets_now p o sets) (mp_now p o) (o_best o) (o_N o) (o_B o) stream k Hwf) as H.
    rewrite Hmp, Hlen in H. specialize (H Hc HN HB Hk). rewrite H. fold c. rewrite Hnth.
    assert (Ek : (k / bs = 0)%nat) by (unfold bs; apply Nat.div_small; exact Hk). rewrite Ek. cbn [Nat.mul skipn]. reflexivity.
Qed.
