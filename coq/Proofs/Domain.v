(* Shared vocabulary: the decidable admissibility test is equivalent to Admissible (used by C09, C01, C10). *)
From Coq Require Import List QArith ZArith Bool SetoidList Qround Lia Lra Psatz.
From LV Require Import Model.Domain.
Import ListNotations.
Open Scope Q_scope.

Lemma Qltb_lt x y : Qltb x y = true <-> x < y.
Proof.
  unfold Qltb. rewrite negb_true_iff. split.
  - intros H. destruct (Qlt_le_dec x y) as [L|L]; [exact L|]. apply Qle_bool_iff in L. congruence.
  - intros H. destruct (Qle_bool y x) eqn:E; [|reflexivity]. apply Qle_bool_iff in E. exfalso. apply (Qlt_not_le _ _ H E).
Qed.
Lemma Qltb_ge x y : Qltb x y = false <-> y <= x.
Proof. unfold Qltb. rewrite negb_false_iff. apply Qle_bool_iff. Qed.

Lemma forall2b_spec {A B} (f : A -> B -> bool) : forall a b,
  forall2b f a b = true <-> Forall2 (fun x y => f x y = true) a b.
Proof.
  induction a as [|x a IH]; intros [|y b]; simpl; split; intros H; try discriminate; try constructor; try (inversion H; fail).
  - apply andb_true_iff in H. tauto.
  - apply andb_true_iff in H. apply IH. tauto.
  - inversion H; subst. apply andb_true_iff. split; [assumption|apply IH; assumption].
Qed.

Lemma Forall2_impl {A B} (P Q : A -> B -> Prop) : (forall a b, P a b -> Q a b) ->
  forall l m, Forall2 P l m -> Forall2 Q l m.
Proof. intros H l m F. induction F; constructor; auto. Qed.

Lemma is_intb_spec x : is_intb x = true <-> exists z, x == inject_Z z.
Proof.
  unfold is_intb. rewrite Qeq_bool_iff. split.
  - intros H. exists (Qfloor x). exact H.
  - intros [z Hz]. rewrite Hz at 2. rewrite Qfloor_Z. exact Hz.
Qed.
Lemma Qfloor_of_int x z : x == inject_Z z -> Qfloor x = z.
Proof. intros H. rewrite H. apply Qfloor_Z. Qed.

Lemma in_componentb_spec c x : in_componentb c x = true <-> in_component c x.
Proof.
  destruct c as [lo hi|lo hi|es|es]; simpl.
  - rewrite andb_true_iff, !Qle_bool_iff. tauto.
  - rewrite !andb_true_iff, is_intb_spec, !Z.leb_le. split.
    + intros [[[z Hz] H1] H2]. exists z. rewrite (Qfloor_of_int _ _ Hz) in H1, H2. auto.
    + intros [z [Hz [H1 H2]]]. rewrite (Qfloor_of_int _ _ Hz). split; [split; [exists z; exact Hz|exact H1]|exact H2].
  - rewrite existsb_exists. split; intros [z [Hi Hz]]; exists z; split; auto; apply Qeq_bool_iff; exact Hz.
  - rewrite existsb_exists. split; intros [z [Hi Hz]]; exists z; split; auto; apply Qeq_bool_iff; exact Hz.
Qed.

(* C01_admissibleb_spec of DESIGN Appendix A *)
Theorem admissibleb_spec d p : admissibleb d p = true <-> Admissible d p.
Proof.
  unfold admissibleb, Admissible. rewrite andb_true_iff, forall2b_spec, forallb_forall, Forall_forall. split.
  - intros [H1 H2]. split.
    + eapply Forall2_impl; [|exact H1]. intros a b. apply in_componentb_spec.
    + intros c Hc. apply Qle_bool_iff. apply H2. exact Hc.
  - intros [H1 H2]. split.
    + eapply Forall2_impl; [|exact H1]. intros a b. apply in_componentb_spec.
    + intros c Hc. apply Qle_bool_iff. apply H2. exact Hc.
Qed.
