(* Proofs about the live-object model of ContinuousDomain (Model/DomainHist.v), C08 over histories. *)
From Coq Require Import List QArith Qabs Bool Arith Lia Lra.
From LV Require Import Model.Restrict Model.Samplers Model.DomainHist Proofs.Restrict.
Import ListNotations.
Open Scope Q_scope.

(* ------------------------------------------------------------------ the stored fields are those of the latest set *)
Definition coherent (s : dstate) : Prop :=
  s_hs s = stored_hs (s_bounds s) (s_cons s) /\ s_uncon s = stored_uncon (s_bounds s) (s_cons s).

Lemma coherent_fresh bs : coherent (dfresh bs).
Proof. split; reflexivity. Qed.

Lemma dstep_bounds s o : s_bounds (fst (dstep s o)) = s_bounds s.
Proof.
  destruct o; simpl; try reflexivity.
  - destruct cs; reflexivity.
  - destruct (restrict_points_st s vp on us ps); reflexivity.
  - destruct (s_constrained s); [destruct (s_force s)|]; reflexivity.
Qed.

Lemma dstep_cons s o : s_cons (fst (dstep s o)) = latest_cons (s_cons s) [o].
Proof.
  destruct o; simpl; try reflexivity.
  - destruct cs; reflexivity.
  - destruct (restrict_points_st s vp on us ps); reflexivity.
  - destruct (s_constrained s); [destruct (s_force s)|]; reflexivity.
Qed.

Lemma dstep_coherent s o : coherent s -> coherent (fst (dstep s o)).
Proof.
  intros [H1 H2]. destruct o; simpl; try (split; assumption).
  - destruct cs as [|c cs]; split; reflexivity.
  - destruct (restrict_points_st s vp on us ps); split; assumption.
  - destruct (s_constrained s); [destruct (s_force s)|]; split; assumption.
Qed.

Lemma drun_coherent : forall ops s, coherent s -> coherent (drun s ops).
Proof. induction ops as [|o r IH]; intros s H; simpl; [exact H|]. apply IH, dstep_coherent, H. Qed.

Lemma drun_bounds : forall ops s, s_bounds (drun s ops) = s_bounds s.
Proof. induction ops as [|o r IH]; intros s; simpl; [reflexivity|]. rewrite IH. apply dstep_bounds. Qed.

Lemma latest_cons_step o : forall r cur, latest_cons cur (o :: r) = latest_cons (latest_cons cur [o]) r.
Proof. intros r cur. destruct o; reflexivity. Qed.

Lemma drun_cons : forall ops s, s_cons (drun s ops) = latest_cons (s_cons s) ops.
Proof.
  induction ops as [|o r IH]; intros s; simpl drun; [reflexivity|].
  rewrite IH, dstep_cons. symmetry. apply latest_cons_step.
Qed.

Lemma dtrace_nth : forall pre s o post,
  nth (length pre) (dtrace s (pre ++ o :: post)) ONone = snd (dstep (drun s pre) o).
Proof.
  induction pre as [|p pre IH]; intros s o post; simpl.
  - destruct (dstep s o); reflexivity.
  - destruct (dstep s p) as [s' out] eqn:E. simpl. rewrite IH.
    change s' with (fst (s', out)). rewrite <- E. reflexivity.
Qed.

Theorem history_stored_fields bs ops :
  let s := drun (dfresh bs) ops in
  s_bounds s = bs /\ s_cons s = latest_cons [] ops /\
  s_hs s = stored_hs bs (latest_cons [] ops) /\ s_uncon s = stored_uncon bs (latest_cons [] ops).
Proof.
  cbv zeta. pose proof (drun_coherent ops _ (coherent_fresh bs)) as [H1 H2].
  rewrite drun_bounds, drun_cons in H1, H2. repeat split; try assumption; [apply drun_bounds|apply drun_cons].
Qed.

(* ------------------------------------------------------------------ the unconstrained indices are the columns no constraint mentions *)
Lemma nth_repeat0 : forall k i, nth i (repeat 0 k) 0 = 0.
Proof. induction k as [|k IH]; intros [|i]; simpl; auto. Qed.

Lemma nnz_app a b : nnz (a ++ b) = (nnz a + nnz b)%nat.
Proof. unfold nnz. rewrite filter_app, app_length. reflexivity. Qed.

Lemma column_app j a b : column j (a ++ b) = column j a ++ column j b.
Proof. unfold column. apply map_app. Qed.

Lemma unit_entry (v : Q) pre k j : nth j (repeat 0 pre ++ v :: repeat 0 k) 0 = if Nat.eqb j pre then v else 0.
Proof.
  revert j. induction pre as [|pre IH]; intros j; simpl.
  - destruct j as [|j]; simpl; [reflexivity|apply nth_repeat0].
  - destruct j as [|j]; simpl; [reflexivity|apply IH].
Qed.

Lemma nnz_cons_cell (x : Q) l : nnz (x :: l) = ((if Qeq_bool x 0 then 0 else 1) + nnz l)%nat.
Proof. unfold nnz. simpl. destruct (Qeq_bool x 0); reflexivity. Qed.

Lemma window_step pre n j : j <> pre ->
  Nat.leb (S pre) j && Nat.ltb j (S pre + n) = Nat.leb pre j && Nat.ltb j (pre + S n).
Proof.
  intros Hne. apply Bool.eq_iff_eq_true. rewrite !andb_true_iff, !Nat.leb_le, !Nat.ltb_lt. lia.
Qed.
Lemma window_here pre n : Nat.leb (S pre) pre && Nat.ltb pre (S pre + n) = false /\ Nat.leb pre pre && Nat.ltb pre (pre + S n) = true.
Proof.
  split.
  - apply andb_false_iff. left. apply Nat.leb_gt. lia.
  - apply andb_true_iff. split; [apply Nat.leb_le|apply Nat.ltb_lt]; lia.
Qed.
Lemma window_empty pre j : Nat.leb pre j && Nat.ltb j (pre + 0) = false.
Proof.
  destruct (Nat.leb pre j) eqn:E1; [|reflexivity]. apply Nat.leb_le in E1. simpl. apply Nat.ltb_ge. lia.
Qed.

Lemma lower_column : forall bs pre j,
  nnz (column j (lower_rows pre bs)) = if Nat.leb pre j && Nat.ltb j (pre + length bs) then 1%nat else 0%nat.
Proof.
  induction bs as [|b bs IH]; intros pre j; simpl lower_rows.
  - simpl length. rewrite window_empty. reflexivity.
  - unfold column in *. simpl map. rewrite nnz_cons_cell. simpl fst. rewrite unit_entry, IH. simpl length.
    destruct (Nat.eqb j pre) eqn:E.
    + apply Nat.eqb_eq in E. subst j. destruct (window_here pre (length bs)) as [W1 W2]. rewrite W1, W2. reflexivity.
    + apply Nat.eqb_neq in E. rewrite (window_step pre (length bs) j E). reflexivity.
Qed.

Lemma upper_column : forall bs pre j,
  nnz (column j (upper_rows pre bs)) = if Nat.leb pre j && Nat.ltb j (pre + length bs) then 1%nat else 0%nat.
Proof.
  induction bs as [|b bs IH]; intros pre j; simpl upper_rows.
  - simpl length. rewrite window_empty. reflexivity.
  - unfold column in *. simpl map. rewrite nnz_cons_cell. simpl fst. rewrite unit_entry, IH. simpl length.
    destruct (Nat.eqb j pre) eqn:E.
    + apply Nat.eqb_eq in E. subst j. destruct (window_here pre (length bs)) as [W1 W2]. rewrite W1, W2. reflexivity.
    + apply Nat.eqb_neq in E. rewrite (window_step pre (length bs) j E). reflexivity.
Qed.

Lemma Qeq_bool_opp x : Qeq_bool (- x) 0 = Qeq_bool x 0.
Proof.
  destruct (Qeq_bool x 0) eqn:E.
  - apply Qeq_bool_iff in E. apply Qeq_bool_iff. rewrite E. reflexivity.
  - apply Qeq_bool_neq in E. destruct (Qeq_bool (- x) 0) eqn:F; [|reflexivity].
    apply Qeq_bool_iff in F. exfalso. apply E. rewrite <- (Qopp_involutive x), F. reflexivity.
Qed.

Lemma cons_column j : forall cs : list (point * Q),
  Nat.eqb (nnz (column j (map (fun c => (map Qopp (fst c), - snd c)) cs))) 0 =
  forallb (fun c => Qeq_bool (nth j (fst c) 0) 0) cs.
Proof.
  induction cs as [|c cs IH]; [reflexivity|].
  unfold column in *. simpl map. rewrite nnz_cons_cell. simpl fst. simpl forallb.
  change 0 with (Qopp 0) at 1. rewrite map_nth, Qeq_bool_opp.
  destruct (Qeq_bool (nth j (fst c) 0) 0); simpl; [exact IH|reflexivity].
Qed.

Lemma infer_is_free bs cs : infer_uncon (length bs) (halfspaces (Dom bs cs)) = free_columns bs cs.
Proof.
  unfold infer_uncon, free_columns. apply filter_ext_in. intros j Hj. apply in_seq in Hj.
  unfold halfspaces, cons_rows. simpl bounds. simpl cstrs.
  rewrite !column_app, !nnz_app, lower_column, upper_column.
  replace (Nat.leb 0 j && Nat.ltb j (0 + length bs)) with true
    by (symmetry; apply andb_true_iff; split; [apply Nat.leb_le|apply Nat.ltb_lt]; lia).
  rewrite <- cons_column. set (a := nnz _). destruct a as [|a]; [reflexivity|]. apply Nat.eqb_neq. lia.
Qed.

Lemma stored_uncon_free bs cs : stored_uncon bs cs = free_columns bs cs.
Proof.
  destruct cs as [|c cs]; [|apply infer_is_free].
  unfold stored_uncon, free_columns. simpl. induction (seq 0 (length bs)); simpl; congruence.
Qed.

(* which indices the inference lists: exactly the coordinates of the box that every constraint gives weight zero *)
Theorem uncon_indices_spec bs cs j :
  In j (stored_uncon bs cs) <-> (j < length bs)%nat /\ forall c, In c cs -> nth j (fst c) 0 == 0.
Proof.
  rewrite stored_uncon_free. unfold free_columns. rewrite filter_In, in_seq, forallb_forall. split.
  - intros [H1 H2]. split; [lia|]. intros c Hc. apply Qeq_bool_iff, H2, Hc.
  - intros [H1 H2]. split; [lia|]. intros c Hc. apply Qeq_bool_iff, H2, Hc.
Qed.

(* ------------------------------------------------------------------ every query answers as a freshly built domain would *)
Lemma constrained_dom s : is_constrained (dom_of s) = s_constrained s.
Proof. reflexivity. Qed.

Lemma stored_hs_constrained s : coherent s -> s_constrained s = true -> s_hs s = halfspaces (dom_of s).
Proof.
  intros [H _] Hc. rewrite H. unfold stored_hs, dom_of. unfold s_constrained in Hc. destruct (s_cons s); [discriminate|reflexivity].
Qed.

Lemma acceptable_fresh s x : coherent s -> acceptable_st s x = acceptable (dom_of s) x.
Proof.
  intros H. unfold acceptable_st, acceptable. rewrite constrained_dom. simpl bounds.
  destruct (s_constrained s) eqn:E; [|reflexivity]. rewrite (stored_hs_constrained s H E). reflexivity.
Qed.

Lemma select_viable_fresh s vp : coherent s -> s_constrained s = true ->
  select_viable_st s vp = select_viable (dom_of s) (s_centre s) vp.
Proof.
  intros H E. unfold select_viable_st, select_viable. destruct vp as [v|]; [|reflexivity].
  rewrite (acceptable_fresh s v H). unfold on_boundary_st, on_boundary. rewrite (stored_hs_constrained s H E). reflexivity.
Qed.

Lemma restrict_fresh s vp on us ps : coherent s ->
  restrict_points_st s vp on us ps = restrict_points (dom_of s) (s_centre s) vp on us ps.
Proof.
  intros H. unfold restrict_points_st, restrict_points. rewrite constrained_dom. simpl bounds.
  destruct (s_constrained s) eqn:E; [|reflexivity].
  rewrite (select_viable_fresh s vp H E), (stored_hs_constrained s H E). reflexivity.
Qed.

Lemma near_fresh s pt on zs us : coherent s -> near_point_st s pt on zs us = near_point (dom_of s) (s_centre s) pt on zs us.
Proof.
  intros H. unfold near_point_st, near_point. rewrite (acceptable_fresh s pt H), restrict_fresh by exact H. reflexivity.
Qed.

Lemma existsb_eqb_In j l : existsb (Nat.eqb j) l = true <-> In j l.
Proof.
  rewrite existsb_exists. split; [intros [x [Hx E]]; apply Nat.eqb_eq in E; subst; exact Hx|].
  intros Hj. exists j. split; [exact Hj|apply Nat.eqb_refl].
Qed.

Lemma forallb_ext' {A} (f g : A -> bool) : (forall x, f x = g x) -> forall l, forallb f l = forallb g l.
Proof. intros H. induction l as [|a l IH]; simpl; [reflexivity|]. rewrite H, IH. reflexivity. Qed.

Lemma fixed_ok_fresh s fixed : coherent s -> fixed_ok_st s fixed = fixed_ok (dom_of s) fixed.
Proof.
  intros H. unfold fixed_ok_st, fixed_ok. revert fixed. apply forallb_ext'. intros iv. rewrite constrained_dom. simpl bounds. unfold s_dim.
  destruct (Nat.ltb (fst iv) (length (s_bounds s))) eqn:L; [|reflexivity]. f_equal.
  destruct (s_constrained s) eqn:E; [|reflexivity]. simpl. apply Nat.ltb_lt in L.
  destruct H as [_ H2]. rewrite H2. unfold stored_uncon, dom_of. unfold s_constrained in E.
  destruct (s_cons s) as [|c cs] eqn:Ec; [discriminate|].
  destruct (Nat.eqb (nnz (column (fst iv) (halfspaces (Dom (s_bounds s) (c :: cs))))) 2) eqn:N.
  - apply existsb_eqb_In. unfold infer_uncon. apply filter_In. split; [apply in_seq; lia|exact N].
  - destruct (existsb (Nat.eqb (fst iv)) _) eqn:X; [|reflexivity].
    apply existsb_eqb_In in X. unfold infer_uncon in X. apply filter_In in X. destruct X as [_ X]. congruence.
Qed.

Theorem query_is_fresh s o : coherent s -> is_query o = true -> snd (dstep s o) = fresh_out (dom_of s) (s_centre s) o.
Proof.
  intros H Q. destruct o; try discriminate; simpl.
  - rewrite (restrict_fresh s vp on us ps H). destruct (restrict_points _ _ _ _ _ _); reflexivity.
  - rewrite (near_fresh s pt on zs us H). reflexivity.
  - rewrite (acceptable_fresh s x H). reflexivity.
  - destruct H as [_ H2]. rewrite H2, stored_uncon_free. reflexivity.
  - rewrite (fixed_ok_fresh s fixed H). reflexivity.
Qed.

(* a query reads only *)
Theorem query_reads_only s o : is_query o = true -> fst (dstep s o) = s.
Proof.
  intros Q. destruct o; try discriminate; simpl; try reflexivity.
  destruct (restrict_points_st s vp on us ps); reflexivity.
Qed.

(* the headline: after ANY history on one object, a query returns what a freshly built domain returns whose constraint list is
   the one the history's latest set_constraint_list handed over (and whose centre is the one found for it) *)
Theorem history_query_is_fresh bs pre o post : is_query o = true ->
  let s := drun (dfresh bs) pre in
  nth (length pre) (dtrace (dfresh bs) (pre ++ o :: post)) ONone = fresh_out (Dom bs (latest_cons [] pre)) (s_centre s) o.
Proof.
  intros Q. cbv zeta. rewrite dtrace_nth.
  rewrite (query_is_fresh _ o (drun_coherent pre _ (coherent_fresh bs)) Q).
  unfold dom_of. rewrite drun_bounds, drun_cons. reflexivity.
Qed.

(* ------------------------------------------------------------------ hence the region clauses hold for the constraints set last *)
Theorem history_restrict_feasible s vp on us ps : coherent s -> s_constrained s = true ->
  interior (dom_of s) (s_centre s) -> Forall (fun p => length p = s_dim s) ps -> Forall unit_interval us ->
  (forall h, In h (cons_rows (dom_of s)) -> (2 <= nnz (fst h))%nat) ->
  exists m used, snd (dstep s (DRestrict vp on us ps)) = OPts m used /\ length m = length ps /\ Forall (feasible (dom_of s)) m.
Proof.
  intros H E Hi Hps Hus Hnz. simpl. rewrite (restrict_fresh s vp on us ps H).
  pose proof (restrict_in_domain (dom_of s) (s_centre s) vp on us ps Hi Hps Hus Hnz) as F.
  pose proof (restrict_points_correct (dom_of s) (s_centre s) vp on us ps Hi Hps Hus) as R. cbv zeta in R.
  destruct (restrict_points (dom_of s) (s_centre s) vp on us ps) as [m rest]. simpl in *.
  exists m, (length us - length rest)%nat. split; [reflexivity|]. split; [apply R|exact F].
Qed.

Theorem history_near_feasible s pt on zs us m : coherent s -> s_constrained s = true ->
  interior (dom_of s) (s_centre s) -> Forall (fun z => length z = s_dim s) zs -> Forall unit_interval us ->
  (forall h, In h (cons_rows (dom_of s)) -> (2 <= nnz (fst h))%nat) ->
  snd (dstep s (DNear pt on zs us)) = ONear (Some m) -> length m = length zs /\ Forall (feasible (dom_of s)) m.
Proof.
  intros H E Hi Hzs Hus Hnz. simpl. rewrite (near_fresh s pt on zs us H).
  destruct (near_point (dom_of s) (s_centre s) pt on zs us) as [[out rest]|] eqn:N; simpl; [|discriminate].
  intros X. injection X as <-. apply (near_point_in_domain _ _ _ _ _ _ _ _ Hi Hus Hzs Hnz N).
Qed.

(* a fixed-coordinate wrapper the domain accepts fixes only coordinates that no constraint of the latest set mentions *)
Theorem fixed_accepted_is_valid s fixed : coherent s -> fixed_ok_st s fixed = true -> fixed_valid (dom_of s) fixed.
Proof.
  intros H F iv Hin. unfold fixed_ok_st in F. rewrite forallb_forall in F. specialize (F iv Hin).
  apply andb_true_iff in F. destruct F as [F F3]. apply andb_true_iff in F. destruct F as [F1 F2].
  apply Nat.ltb_lt in F1. apply andb_true_iff in F2. destruct F2 as [Fa Fb]. apply Qle_bool_iff in Fa, Fb.
  simpl bounds. simpl cstrs. split; [exact F1|]. split; [split; assumption|].
  destruct (s_constrained s) eqn:E; simpl in F3.
  - apply existsb_eqb_In in F3. destruct H as [_ H2]. rewrite H2 in F3. apply uncon_indices_spec in F3. apply F3.
  - unfold s_constrained in E. destruct (s_cons s); [intros c []|discriminate].
Qed.

(* the sampling entry point: whatever the sampler it calls returns - provided it keeps the contract of C08's sampler theorems for
   the half-space system it was HANDED - comes back as points of the region of the latest constraints *)
Lemma Forall_map2 {A B C} (P : C -> Prop) (f : A -> B -> C) : forall l1 l2,
  (forall a b, In a l1 -> In b l2 -> P (f a b)) -> Forall P (map2 f l1 l2).
Proof.
  induction l1 as [|a l1 IH]; intros [|b l2] H; simpl; try constructor.
  - apply H; left; reflexivity.
  - apply IH. intros a' b' Ha Hb. apply H; right; assumption.
Qed.

Lemma combine_sub_bounds bs : forall idx vals, Forall2 (fun b x => fst b <= x <= snd b) (map (fun j => nth j bs (0, 0)) idx) vals ->
  forall iv, In iv (combine idx vals) -> fst (nth (fst iv) bs (0, 0)) <= snd iv <= snd (nth (fst iv) bs (0, 0)).
Proof.
  induction idx as [|j idx IH]; intros vals F iv Hin; [destruct Hin|].
  destruct vals as [|x vals]; [destruct Hin|]. simpl in F. inversion F; subst. destruct Hin as [<-|Hin]; [assumption|].
  apply (IH vals); assumption.
Qed.

Theorem history_sample_feasible s n raw ok vals : coherent s -> s_constrained s = true ->
  Forall (fun p => length p = s_dim s /\ sat_all (s_hs s) p) raw ->
  Forall (in_box (sub_bounds s)) vals ->
  exists forced x0 box out, snd (dstep s (DSample n raw ok vals)) = OSample forced (halfspaces (dom_of s)) x0 box out /\
                            Forall (feasible (dom_of s)) out.
Proof.
  intros H E Hraw Hvals. simpl. rewrite E. rewrite <- (stored_hs_constrained s H E).
  assert (Fraw : Forall (feasible (dom_of s)) raw).
  { apply Forall_forall. intros p Hp. rewrite Forall_forall in Hraw. destruct (Hraw p Hp) as [L S].
    rewrite (stored_hs_constrained s H E) in S. apply halfspaces_sat_iff; assumption. }
  destruct (s_force s).
  - eexists _, _, _, _. split; [reflexivity|]. apply Forall_map2. intros p v Hp Hv.
    unfold overwrite_st. apply fixed_point_feasible; [|rewrite Forall_forall in Fraw; apply Fraw, Hp].
    intros iv Hin. rewrite Forall_forall in Hvals. specialize (Hvals v Hv). unfold in_box, sub_bounds in Hvals.
    pose proof (combine_sub_bounds (s_bounds s) (s_uncon s) v Hvals iv Hin) as Hb.
    assert (Hj : In (fst iv) (s_uncon s)) by (destruct iv as [j x]; apply (in_combine_l _ _ _ _ Hin)).
    destruct H as [_ H2]. rewrite H2 in Hj. apply uncon_indices_spec in Hj. destruct Hj as [Hj Hz].
    simpl bounds. simpl cstrs. split; [exact Hj|]. split; [exact Hb|exact Hz].
  - eexists _, _, _, _. split; [reflexivity|]. exact Fraw.
Qed.
