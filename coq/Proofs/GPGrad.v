(* C04, GP part: gradients of the posterior mean and variance, and the (partial) log-likelihood gradient, on the scalar
   definitions REGENERATED from gaussian_process.py / log_likelihood.py (Gen.GenAcq, modules GPScalar and LogLikGrad). *)
From Coq Require Import Reals Lra Psatz Arith Lia.
From Coquelicot Require Import Coquelicot.
From LV Require Import Lib.RBase Gen.GenAcq.
Open Scope R_scope.

Lemma is_derive_bigsum n (f : nat -> R -> R) (df : nat -> R) t :
  (forall j, (j < n)%nat -> is_derive (f j) t (df j)) ->
  is_derive (fun t => bigsum n (fun j => f j t)) t (bigsum n df).
Proof.
  induction n as [|n IH]; intros H; simpl.
  - apply @is_derive_const.
  - apply (@is_derive_plus _ _ (fun t => bigsum n (fun j => f j t)) (f n) t); [apply IH; intros; apply H; lia|apply H; lia].
Qed.

Lemma bigsum_swap n m (f : nat -> nat -> R) :
  bigsum n (fun j => bigsum m (fun l => f j l)) = bigsum m (fun l => bigsum n (fun j => f j l)).
Proof.
  induction n as [|n IH]; simpl.
  - induction m as [|m IHm]; simpl; [reflexivity|rewrite <- IHm; lra].
  - rewrite IH. rewrite <- bigsum_plus. reflexivity.
Qed.

(* d mean = sum_j k_j' a_j + sum_c p_c' b_c : the generated gradient of the mean is the derivative of the generated mean *)
Theorem gp_mean_grad_is_derivative dim n np x (ke pc : nat -> R -> R) (dke dpc : nat -> R) a b kxx t i k :
  (forall j, (j < n)%nat -> is_derive (ke j) t (dke j)) -> (forall c, (c < np)%nat -> is_derive (pc c) t (dpc c)) ->
  is_derive (fun t => GPScalar.mean dim n np x (fun _ j => ke j t) a b kxx (fun _ c => pc c t) i) t
            (GPScalar.grad_mean dim n np x (fun _ j _ => dke j) a b kxx (fun _ c _ => dpc c) i k).
Proof.
  intros Hk Hp. unfold GPScalar.mean, GPScalar.grad_mean.
  apply (@is_derive_plus _ _ (fun t => bigsum n (fun j => ke j t * a j)) (fun t => bigsum np (fun c => pc c t * b c)) t).
  - apply (is_derive_bigsum n (fun j t => ke j t * a j) (fun j => dke j * a j)). intros j Hj.
    evar_last. apply (is_derive_scal_l (ke j) t (dke j) (a j)). apply Hk; exact Hj. unfold scal; simpl; unfold mult; simpl; ring.
  - apply (is_derive_bigsum np (fun c t => pc c t * b c) (fun c => dpc c * b c)). intros c Hc.
    evar_last. apply (is_derive_scal_l (pc c) t (dpc c) (b c)). apply Hp; exact Hc. unfold scal; simpl; unfold mult; simpl; ring.
Qed.

(* variance: v(t) = k(x,x) - sum_j k_j(t) c_j(t), c = K^-1 k(t) with K^-1 symmetric, k(x,x) constant (translation invariance, C03) *)
Section Var.
Variables (n : nat) (Kinv : nat -> nat -> R) (ke : nat -> R -> R) (dke : nat -> R) (kxx : R) (t : R).
Hypothesis Ksym : forall j l, Kinv j l = Kinv l j.
Hypothesis Hk : forall j, (j < n)%nat -> is_derive (ke j) t (dke j).
Definition cardf (j : nat) (u : R) : R := bigsum n (fun l => Kinv j l * ke l u).

Lemma cardf_deriv j : is_derive (cardf j) t (bigsum n (fun l => Kinv j l * dke l)).
Proof.
  unfold cardf. apply (is_derive_bigsum n (fun l u => Kinv j l * ke l u) (fun l => Kinv j l * dke l)). intros l Hl.
  apply (is_derive_scal (ke l) t (Kinv j l)). apply Hk; exact Hl.
Qed.

Lemma quad_deriv :
  is_derive (fun u => bigsum n (fun j => ke j u * cardf j u)) t (2 * bigsum n (fun j => dke j * cardf j t)).
Proof.
  evar_last.
  apply (is_derive_bigsum n (fun j u => ke j u * cardf j u) (fun j => dke j * cardf j t + ke j t * bigsum n (fun l => Kinv j l * dke l))).
  - intros j Hj. evar_last. apply @is_derive_mult; [apply Hk; exact Hj|apply cardf_deriv|intros; apply Rmult_comm].
    unfold plus, mult; simpl. ring.
  - rewrite bigsum_plus.
    assert (E : bigsum n (fun j => ke j t * bigsum n (fun l => Kinv j l * dke l)) = bigsum n (fun l => dke l * cardf l t)).
    { rewrite (bigsum_ext n _ (fun j => bigsum n (fun l => ke j t * (Kinv j l * dke l)))) by (intros; rewrite bigsum_scal; reflexivity).
      rewrite bigsum_swap. apply bigsum_ext. intros l _. unfold cardf. rewrite <- bigsum_scal. apply bigsum_ext. intros j _.
      rewrite (Ksym l j). ring. }
    rewrite E. ring.
Qed.

Theorem gp_var_grad_is_derivative dim np a b i k :
  is_derive (fun u => kxx - bigsum n (fun j => ke j u * cardf j u)) t
            (GPScalar.grad_var dim n np (fun _ j _ => dke j) (fun _ j => cardf j t) a b (fun _ => kxx) i k).
Proof.
  unfold GPScalar.grad_var. evar_last.
  apply @is_derive_minus. apply @is_derive_const. apply quad_deriv.
  unfold minus, plus, opp, zero; simpl. ring.
Qed.

(* where the variance floor is inactive, the generated (floored) variance has that derivative too *)
Theorem gp_floored_var_grad_is_derivative dim np (x : nat -> nat -> R) a b i k :
  1 / 10 ^ 100 < kxx - bigsum n (fun j => ke j t * cardf j t) ->
  is_derive (fun u => GPScalar.var dim n np x (fun _ j => ke j u) (fun _ j => cardf j u) a b (fun _ => kxx) i) t
            (GPScalar.grad_var dim n np (fun _ j _ => dke j) (fun _ j => cardf j t) a b (fun _ => kxx) i k).
Proof.
  intros Hpos. unfold GPScalar.var.
  set (fl := 1 / _). assert (Efl : fl = 1 / 10 ^ 100) by (unfold fl; f_equal; lra).
  set (v := fun u => kxx - bigsum n (fun j => ke j u * cardf j u)).
  assert (Hd := gp_var_grad_is_derivative dim np a b i k). fold v in Hd.
  assert (Hc : continuous v t) by (apply (ex_derive_continuous v); eexists; exact Hd).
  apply (is_derive_ext_loc v); [|exact Hd].
  assert (Hloc : locally t (fun u => fl < v u)).
  { apply (Hc (fun y => fl < y)). apply (open_gt fl). rewrite Efl. exact Hpos. }
  revert Hloc. apply filter_imp. intros u Hu. unfold v in *. rewrite Rmax_right by lra. reflexivity.
Qed.
End Var.

(* ------------------------------------------------------------------ log marginal likelihood gradient (PARTIAL) *)
(* L(theta) = -s (Q(theta) + D(theta)), Q = r' K^-1 r for the GLS residual, D = log det K.  Assumed, not proved (no
   determinant calculus over R is available): H_quad — dQ = -(a' dK a), which combines d(K^-1) = -K^-1 dK K^-1 with the
   envelope step P' a = 0 of C02 (that is why the code's omission of the non-zero-mean correction is exact);
   H_logdet — Jacobi's formula dD = tr(K^-1 dK). *)
Section LogLik.
Variables (n nh : nat) (a : nat -> R) (dK : nat -> nat -> nat -> R) (Kinv : nat -> nat -> R) (s : R) (h : nat).
Variables (Q D : R -> R) (theta : R).
Definition quadform : R := bigsum n (fun j => bigsum n (fun l => a j * dK j l h * a l)).
Definition tracef : R := bigsum n (fun j => bigsum n (fun l => Kinv j l * dK l j h)).
Hypothesis H_quad : is_derive Q theta (- quadform).
Hypothesis H_logdet : is_derive D theta tracef.

Theorem loglik_grad_linear_partial :
  is_derive (fun th => - s * (Q th + D th)) theta (LogLikGrad.grad n nh a dK Kinv s (fun _ => 1) h).
Proof.
  unfold LogLikGrad.grad. fold quadform tracef. evar_last.
  apply (is_derive_scal (fun th => Q th + D th) theta (- s)). apply @is_derive_plus; [exact H_quad|exact H_logdet].
  unfold plus; simpl. ring.
Qed.
End LogLik.

(* log parameterisation: d/da L(exp a) = L'(exp a) * exp a — the generated log_scaling factor *)
Theorem loglik_grad_log_domain (L : R -> R) (dL : R) (al : R) n nh a dK Kinv s h :
  is_derive L (exp al) dL -> dL = LogLikGrad.grad n nh a dK Kinv s (fun _ => 1) h ->
  is_derive (fun u => L (exp u)) al (LogLikGrad.grad n nh a dK Kinv s (fun _ => exp al) h).
Proof.
  intros HL E. evar_last. apply (is_derive_comp L exp al). exact HL. apply is_derive_Reals. apply derivable_pt_lim_exp.
  unfold scal; simpl; unfold mult; simpl. rewrite E. unfold LogLikGrad.grad. ring.
Qed.
