(* C04 composed: C04_loglik_grad_full (Props/C04_loglik.v: the regenerated log-likelihood value is differentiable in a hyperparameter with the
   regenerated gradient as derivative, GIVEN that the kernel-matrix entries are differentiable with the tensor slice as derivative) and
   C04_kernels (Props/C04_kernels.v / Proofs/CovarianceGrad.v: per kernel, the regenerated hyperparameter-gradient entries are the
   derivatives of the regenerated pairwise covariance in alpha and in every length scale) are joined: for the SquareExponential, C2 and C4
   radial Matern kernels the differentiability hypothesis is DISCHARGED.

   Steps:
     1. the matrix entry points are the pairwise entry points, entry by entry (kernel_matrix_sym j j2 = covariance of the pair (xs j, xs j2)
        + noise on the diagonal; kernel_hparam_grad_tensor_sym j j2 h = hyperparameter_grad_covariance of that pair, column h);
     2. so every entry of the kernel matrix is differentiable in alpha (column 0) and in length scale k0 (column S k0, positive length scale,
        lcu k0 = ls k0 ^ 3 as set_hyperparameters stores it) with the tensor entry as derivative   (lemmas X_entry_alpha / X_entry_ls, X = SE, C2, C4);
     3. generic in the kernel (Section Kernel): the kernel matrix as a function Kfun of the hyperparameter VECTOR theta (theta 0 = alpha,
        theta (S k) = length scale k), mx_derive of t |-> Kfun (upd theta h t) at theta h with the h-th tensor slice (Kfun_derive);
     4. plugged into Proofs/LogLikFull.v: noise / zero mean / nugget (kernel hyperparameter, constant nugget) / log domain.
   The gradient is fed the regenerated tensor itself (grad_tensor_view: LogLikGrad.grad only reads entries j, l < n). *)
From Coq Require Import Reals Lra Psatz Arith Lia FunctionalExtensionality.
From Coquelicot Require Import Coquelicot.
From mathcomp Require Import all_ssreflect all_fingroup all_algebra.
From LV Require Import Lib.RBase Lib.MxAux Lib.RStruct Lib.RMxDeriv Gen.GenGP Gen.GenAcq Gen.GenCovariance Proofs.Covariance Proofs.CovarianceGrad
                       Proofs.GP Proofs.LogLikFull Proofs.HandIR.
Set Implicit Arguments. Unset Strict Implicit. Unset Printing Implicit Defensive.
Import GRing.Theory.
Local Open Scope ring_scope.

(* ------------------------------------------------------------------ 1./2. matrix entry points = pairwise entry points; entry derivatives *)
Section Entries.
Local Open Scope R_scope.
Variables (dim nh : nat) (xs : nat -> nat -> R) (nz : nat -> R) (lsq lcu : nat -> R).

(* the pair (point j, point j2) as the two one-row point sets the pairwise entry points take *)
Definition prow (j : nat) : nat -> nat -> R := fun _ => xs j.

Lemma dsq_pair ls j j2 :
  bigsum dim (fun k => (xs j k / ls k - xs j2 k / ls k) ^ 2) = d2w dim (prow j) (prow j2) ls 0 0.
Proof. rewrite /d2w /prow. apply: bigsum_ext => k _. rewrite /Rdiv. ring. Qed.
Lemma d2w_sqrt_sq x z ls i j : sqrt (d2w dim x z ls i j) ^ 2 = d2w dim x z ls i j.
Proof. apply: sqrt_pow2. exact: d2w_nonneg. Qed.

(* f + constant has the derivative of f *)
Lemma is_derive_plus_cst (f : R -> R) (c x df : R) : is_derive f x df -> is_derive (fun t => f t + c) x df.
Proof.
  move=> H. apply: (@is_derive_val _ _ (df + 0)%Re); first by rewrite Rplus_0_r.
  exact: (is_deriveD H (is_derive_cst c x)).
Qed.

(* ---- SquareExponential *)
Lemma SE_sym_cov ls alpha j j2 :
  SquareExponential.kernel_matrix_sym dim xs nz ls lsq lcu alpha j j2
  = SquareExponential.covariance dim (prow j) (prow j2) ls lsq lcu alpha 0 + (if Nat.eqb j j2 then nz j else 0).
Proof.
  rewrite /SquareExponential.kernel_matrix_sym /SquareExponential.covariance dsq_pair.
  by rewrite -/(d2w dim (prow j) (prow j2) ls 0 0) d2w_sqrt_sq.
Qed.
Lemma SE_tensor_cov ls alpha j j2 h :
  SquareExponential.kernel_hparam_grad_tensor_sym dim nh xs ls lsq lcu alpha j j2 h
  = SquareExponential.hyperparameter_grad_covariance dim nh (prow j) (prow j2) ls lsq lcu alpha 0 h.
Proof.
  rewrite /SquareExponential.kernel_hparam_grad_tensor_sym /SquareExponential.hyperparameter_grad_covariance dsq_pair.
  by rewrite -/(d2w dim (prow j) (prow j2) ls 0 0) d2w_sqrt_sq.
Qed.
Lemma SE_entry_alpha ls alpha j j2 :
  is_derive (fun a => SquareExponential.kernel_matrix_sym dim xs nz ls lsq lcu a j j2) alpha
            (SquareExponential.kernel_hparam_grad_tensor_sym dim nh xs ls lsq lcu alpha j j2 0).
Proof.
  rewrite SE_tensor_cov.
  apply: (is_derive_ext (fun a => SquareExponential.covariance dim (prow j) (prow j2) ls lsq lcu a 0 + (if Nat.eqb j j2 then nz j else 0))).
    by move=> a; rewrite SE_sym_cov.
  apply: is_derive_plus_cst.
  rewrite /SquareExponential.covariance /SquareExponential.hyperparameter_grad_covariance /=.
  match goal with |- is_derive (fun a => a * ?E) _ _ => set e := E end. auto_derive; [exact I|ring].
Qed.
Lemma SE_entry_ls ls alpha j j2 k0 : (k0 < dim)%coq_nat -> 0 < ls k0 -> lcu k0 = ls k0 ^ 3 ->
  is_derive (fun l => SquareExponential.kernel_matrix_sym dim xs nz (updl ls k0 l) lsq lcu alpha j j2) (ls k0)
            (SquareExponential.kernel_hparam_grad_tensor_sym dim nh xs ls lsq lcu alpha j j2 (S k0)).
Proof.
  move=> Hk Hl Hc. rewrite SE_tensor_cov.
  apply: (is_derive_ext (fun l => SquareExponential.covariance dim (prow j) (prow j2) (updl ls k0 l) lsq lcu alpha 0
                                  + (if Nat.eqb j j2 then nz j else 0))).
    by move=> l; rewrite SE_sym_cov.
  apply: is_derive_plus_cst.
  by have [H _] := SE_hparam_grad_is_derivative dim nh (prow j) (prow j2) ls lsq lcu alpha 0 k0 Hk Hl Hc.
Qed.

(* ---- C2RadialMatern *)
Lemma C2_sym_cov ls alpha j j2 :
  C2RadialMatern.kernel_matrix_sym dim xs nz ls lsq lcu alpha j j2
  = C2RadialMatern.covariance dim (prow j) (prow j2) ls lsq lcu alpha 0 + (if Nat.eqb j j2 then nz j else 0).
Proof. by rewrite /C2RadialMatern.kernel_matrix_sym /C2RadialMatern.covariance dsq_pair. Qed.
Lemma C2_tensor_cov ls alpha j j2 h :
  C2RadialMatern.kernel_hparam_grad_tensor_sym dim nh xs ls lsq lcu alpha j j2 h
  = C2RadialMatern.hyperparameter_grad_covariance dim nh (prow j) (prow j2) ls lsq lcu alpha 0 h.
Proof. by rewrite /C2RadialMatern.kernel_hparam_grad_tensor_sym /C2RadialMatern.hyperparameter_grad_covariance dsq_pair. Qed.
Lemma C2_entry_alpha ls alpha j j2 :
  is_derive (fun a => C2RadialMatern.kernel_matrix_sym dim xs nz ls lsq lcu a j j2) alpha
            (C2RadialMatern.kernel_hparam_grad_tensor_sym dim nh xs ls lsq lcu alpha j j2 0).
Proof.
  rewrite C2_tensor_cov.
  apply: (is_derive_ext (fun a => C2RadialMatern.covariance dim (prow j) (prow j2) ls lsq lcu a 0 + (if Nat.eqb j j2 then nz j else 0))).
    by move=> a; rewrite C2_sym_cov.
  apply: is_derive_plus_cst.
  rewrite /C2RadialMatern.covariance /C2RadialMatern.hyperparameter_grad_covariance /=.
  match goal with |- is_derive (fun a => a * ?E) _ _ => set e := E end. auto_derive; [exact I|ring].
Qed.
Lemma C2_entry_ls ls alpha j j2 k0 : (k0 < dim)%coq_nat -> 0 < ls k0 -> lcu k0 = ls k0 ^ 3 ->
  is_derive (fun l => C2RadialMatern.kernel_matrix_sym dim xs nz (updl ls k0 l) lsq lcu alpha j j2) (ls k0)
            (C2RadialMatern.kernel_hparam_grad_tensor_sym dim nh xs ls lsq lcu alpha j j2 (S k0)).
Proof.
  move=> Hk Hl Hc. rewrite C2_tensor_cov.
  apply: (is_derive_ext (fun l => C2RadialMatern.covariance dim (prow j) (prow j2) (updl ls k0 l) lsq lcu alpha 0
                                  + (if Nat.eqb j j2 then nz j else 0))).
    by move=> l; rewrite C2_sym_cov.
  apply: is_derive_plus_cst.
  by have [H _] := C2_hparam_grad_is_derivative dim nh (prow j) (prow j2) ls lsq lcu alpha 0 k0 Hk Hl Hc.
Qed.

(* ---- C4RadialMatern (the library's default kernel) *)
Lemma C4_sym_cov ls alpha j j2 :
  C4RadialMatern.kernel_matrix_sym dim xs nz ls lsq lcu alpha j j2
  = C4RadialMatern.covariance dim (prow j) (prow j2) ls lsq lcu alpha 0 + (if Nat.eqb j j2 then nz j else 0).
Proof.
  rewrite /C4RadialMatern.kernel_matrix_sym /C4RadialMatern.covariance dsq_pair.
  by rewrite -/(d2w dim (prow j) (prow j2) ls 0 0) d2w_sqrt_sq.
Qed.
Lemma C4_tensor_cov ls alpha j j2 h :
  C4RadialMatern.kernel_hparam_grad_tensor_sym dim nh xs ls lsq lcu alpha j j2 h
  = C4RadialMatern.hyperparameter_grad_covariance dim nh (prow j) (prow j2) ls lsq lcu alpha 0 h.
Proof.
  rewrite /C4RadialMatern.kernel_hparam_grad_tensor_sym /C4RadialMatern.hyperparameter_grad_covariance dsq_pair.
  by rewrite -/(d2w dim (prow j) (prow j2) ls 0 0) d2w_sqrt_sq.
Qed.
Lemma C4_entry_alpha ls alpha j j2 :
  is_derive (fun a => C4RadialMatern.kernel_matrix_sym dim xs nz ls lsq lcu a j j2) alpha
            (C4RadialMatern.kernel_hparam_grad_tensor_sym dim nh xs ls lsq lcu alpha j j2 0).
Proof.
  rewrite C4_tensor_cov.
  apply: (is_derive_ext (fun a => C4RadialMatern.covariance dim (prow j) (prow j2) ls lsq lcu a 0 + (if Nat.eqb j j2 then nz j else 0))).
    by move=> a; rewrite C4_sym_cov.
  apply: is_derive_plus_cst.
  rewrite /C4RadialMatern.covariance /C4RadialMatern.hyperparameter_grad_covariance /=.
  match goal with |- is_derive (fun a => a * ?E) _ _ => set e := E end. auto_derive; [exact I|ring].
Qed.
Lemma C4_entry_ls ls alpha j j2 k0 : (k0 < dim)%coq_nat -> 0 < ls k0 -> lcu k0 = ls k0 ^ 3 ->
  is_derive (fun l => C4RadialMatern.kernel_matrix_sym dim xs nz (updl ls k0 l) lsq lcu alpha j j2) (ls k0)
            (C4RadialMatern.kernel_hparam_grad_tensor_sym dim nh xs ls lsq lcu alpha j j2 (S k0)).
Proof.
  move=> Hk Hl Hc. rewrite C4_tensor_cov.
  apply: (is_derive_ext (fun l => C4RadialMatern.covariance dim (prow j) (prow j2) (updl ls k0 l) lsq lcu alpha 0
                                  + (if Nat.eqb j j2 then nz j else 0))).
    by move=> l; rewrite C4_sym_cov.
  apply: is_derive_plus_cst.
  by have [H _] := C4_hparam_grad_is_derivative dim nh (prow j) (prow j2) ls lsq lcu alpha 0 k0 Hk Hl Hc.
Qed.
End Entries.

(* ------------------------------------------------------------------ 3./4. generic in the kernel *)
(* the shape of the generated entry points *)
Definition ksym_t := nat -> (nat -> nat -> R) -> (nat -> R) -> (nat -> R) -> (nat -> R) -> (nat -> R) -> R -> nat -> nat -> R.
Definition ktens_t := nat -> nat -> (nat -> nat -> R) -> (nat -> R) -> (nat -> R) -> (nat -> R) -> R -> nat -> nat -> nat -> R.
(* what C04_kernels gives, entry by entry: column 0 is d/d alpha, column S k0 is d/d (length scale k0) *)
Definition kernel_entries_ok (ksym : ksym_t) (ktens : ktens_t) : Prop :=
  forall dim nh xs nz lsq lcu ls alpha j j2,
    is_derive (fun a => ksym dim xs nz ls lsq lcu a j j2) alpha (ktens dim nh xs ls lsq lcu alpha j j2 0%N) /\
    forall k0, (k0 < dim)%coq_nat -> Rlt 0 (ls k0) -> lcu k0 = (ls k0 ^ 3)%Re ->
      is_derive (fun l => ksym dim xs nz (updl ls k0 l) lsq lcu alpha j j2) (ls k0) (ktens dim nh xs ls lsq lcu alpha j j2 (S k0)).

Lemma SE_entries_ok : kernel_entries_ok SquareExponential.kernel_matrix_sym SquareExponential.kernel_hparam_grad_tensor_sym.
Proof. move=> *; split; [exact: SE_entry_alpha | move=> *; exact: SE_entry_ls]. Qed.
Lemma C2_entries_ok : kernel_entries_ok C2RadialMatern.kernel_matrix_sym C2RadialMatern.kernel_hparam_grad_tensor_sym.
Proof. move=> *; split; [exact: C2_entry_alpha | move=> *; exact: C2_entry_ls]. Qed.
Lemma C4_entries_ok : kernel_entries_ok C4RadialMatern.kernel_matrix_sym C4RadialMatern.kernel_hparam_grad_tensor_sym.
Proof. move=> *; split; [exact: C4_entry_alpha | move=> *; exact: C4_entry_ls]. Qed.

Lemma mxv_lt m' n' (A : 'M[R]_(m',n')) (a b : nat) (Ha : (a < m')%N) (Hb : (b < n')%N) : mxv A a b = A (Ordinal Ha) (Ordinal Hb).
Proof. by rewrite /mxv !insubT. Qed.

Section Kernel.
Variables (ksym : ksym_t) (ktens : ktens_t).
Hypothesis Hker : kernel_entries_ok ksym ktens.
Variables (n dim nh : nat) (xs : nat -> nat -> R) (lsq lcu : nat -> R).

(* hyperparameter vector theta: theta 0 = alpha (process variance), theta (S k) = length scale k *)
Definition hyp_ls (theta : nat -> R) : nat -> R := fun k => theta (S k).
(* kernel part of the kernel matrix (build_kernel_matrix(points_sampled), no noise: GenGP's kernel_matrix adds the noise / nugget) *)
Definition Kfun (theta : nat -> R) : 'M[R]_n := \matrix_(i, j) ksym dim xs (fun _ => 0%Re) (hyp_ls theta) lsq lcu (theta 0%N) i j.
(* slice h of the hyperparameter gradient tensor (build_kernel_hparam_grad_tensor(points_sampled)[:, :, h]) *)
Definition dKfun (theta : nat -> R) (h : nat) : 'M[R]_n := \matrix_(i, j) ktens dim nh xs (hyp_ls theta) lsq lcu (theta 0%N) i j h.
(* the guard of C04_kernels on a length-scale hyperparameter h = S k0; nothing is asked of h = 0 (alpha) *)
Definition hparam_ok (theta : nat -> R) (h : nat) : Prop :=
  forall k0, h = S k0 -> (k0 < dim)%coq_nat /\ Rlt 0 (theta h) /\ lcu k0 = (theta h ^ 3)%Re.

Lemma hyp_ls_upd0 theta t : hyp_ls (LogLikFull.upd theta 0 t) = hyp_ls theta.
Proof. by []. Qed.
Lemma hyp_ls_updS theta k0 t : hyp_ls (LogLikFull.upd theta (S k0) t) = updl (hyp_ls theta) k0 t.
Proof.
  apply: functional_extensionality => k. rewrite /hyp_ls /LogLikFull.upd /updl eqSS.
  by case: (Nat.eqb_spec k k0) => [->|/eqP/negbTE->]; rewrite ?eqxx.
Qed.

(* THE DISCHARGED HYPOTHESIS, entry by entry (any pair of points j, j2, any constant diagonal term nz): the kernel-matrix entry is
   differentiable in hyperparameter h with the tensor entry (column h) as derivative *)
Theorem kernel_entry_derive theta h (nz : nat -> R) (j j2 : nat) : hparam_ok theta h ->
  is_derive (fun t => ksym dim xs nz (hyp_ls (LogLikFull.upd theta h t)) lsq lcu (LogLikFull.upd theta h t 0%N) j j2) (theta h)
            (ktens dim nh xs (hyp_ls theta) lsq lcu (theta 0%N) j j2 h).
Proof.
  case: h => [|k0] Hok.
  - by have [H _] := Hker dim nh xs nz lsq lcu (hyp_ls theta) (theta 0%N) j j2.
  - have [Hk [Hl Hc]] := Hok k0 erefl.
    have [_ H] := Hker dim nh xs nz lsq lcu (hyp_ls theta) (theta 0%N) j j2.
    apply: is_derive_ext (H k0 Hk Hl Hc) => t. by rewrite hyp_ls_updS.
Qed.
(* ... as a statement about the kernel matrix *)
Theorem Kfun_derive theta h : hparam_ok theta h ->
  mx_derive (fun t => Kfun (LogLikFull.upd theta h t)) (theta h) (dKfun theta h).
Proof.
  move=> Hok i j. rewrite [dKfun _ _ _ _]mxE.
  apply: is_derive_ext (kernel_entry_derive (fun _ => 0%Re) i j Hok) => t. by rewrite mxE.
Qed.

(* LogLikGrad.grad reads its tensor argument only at j, l < n: feed it the generated tensor itself *)
Lemma grad_tensor_view (a : nat -> R) (Kinv : nat -> nat -> R) (s0 : R) (lsc : nat -> R) theta h :
  LogLikGrad.grad n nh a (fun j l k => mxv (dKfun theta k) j l) Kinv s0 lsc h
  = LogLikGrad.grad n nh a (ktens dim nh xs (hyp_ls theta) lsq lcu (theta 0%N)) Kinv s0 lsc h.
Proof.
  have E j l : (j < n)%coq_nat -> (l < n)%coq_nat -> mxv (dKfun theta h) j l = ktens dim nh xs (hyp_ls theta) lsq lcu (theta 0%N) j l h.
    by move=> /ltP Hj /ltP Hl; rewrite (mxv_lt _ Hj Hl) mxE.
  rewrite /LogLikGrad.grad. congr (_ * (- _ + _) * _)%Re.
  - apply: bigsum_ext => j Hj. apply: bigsum_ext => l Hl. by rewrite E.
  - apply: bigsum_ext => j Hj. apply: bigsum_ext => l Hl. by rewrite E.
Qed.

Variables (p : nat) (chol : 'M[R]_n -> 'M[R]_n) (noise y : 'cV[R]_n) (Pmx : 'M[R]_(n,p)) (s : R).
Variables (theta : nat -> R) (h : nat).
Hypothesis Hok : hparam_ok theta h.
Let Kt (t : R) : 'M[R]_n := Kfun (LogLikFull.upd theta h t).
Let tensor := ktens dim nh xs (hyp_ls theta) lsq lcu (theta 0%N).

Lemma Kt_at : Kt (theta h) = Kfun theta.
Proof. by rewrite /Kt upd_id. Qed.

(* per-point noise, polynomial mean *)
Theorem loglik_grad_kernel :
  locally (theta h) (fun t => let K := GPNoise.kernel_matrix (Kt t) noise in chol_ok (chol K) K) ->
  GPNoise.PT_K_inv_P (Kfun theta) noise Pmx \in unitmx ->
  is_derive (fun t => LogLik.log_likelihood_value chol (@sumlogdiag n) (GPNoise.kernel_matrix (Kt t) noise)
                        (GPNoise.demeaned_y (Kt t) noise y Pmx) (GPNoise.K_inv_demeaned_y (Kt t) noise y Pmx) s) (theta h)
    (LogLikGrad.grad n nh (cvv (GPNoise.K_inv_demeaned_y (Kfun theta) noise y Pmx)) tensor
                     (mxv (invmx (GPNoise.kernel_matrix (Kfun theta) noise))) s (fun _ => 1%Re) h).
Proof.
  move=> Hc Hu. rewrite -grad_tensor_view.
  exact: (@loglik_noise_gradient_vector n p nh chol noise y Pmx s Kfun theta (dKfun theta) h (Kfun_derive Hok) Hc Hu).
Qed.

(* per-point noise, zero mean *)
Theorem loglik_grad_kernel_zero_mean :
  locally (theta h) (fun t => let K := GPNoiseZeroMean.kernel_matrix (Kt t) noise in chol_ok (chol K) K) ->
  is_derive (fun t => LogLik.log_likelihood_value chol (@sumlogdiag n) (GPNoiseZeroMean.kernel_matrix (Kt t) noise)
                        (GPNoiseZeroMean.demeaned_y y) (GPNoiseZeroMean.K_inv_demeaned_y (Kt t) noise y) s) (theta h)
    (LogLikGrad.grad n nh (cvv (GPNoiseZeroMean.K_inv_demeaned_y (Kfun theta) noise y)) tensor
                     (mxv (invmx (GPNoiseZeroMean.kernel_matrix (Kfun theta) noise))) s (fun _ => 1%Re) h).
Proof.
  move=> Hc. rewrite -grad_tensor_view.
  have := @loglik_zero_mean_grad n nh chol noise y s (theta h) (dKfun theta) h Kt (Kfun_derive Hok) Hc.
  by rewrite Kt_at.
Qed.

(* Tikhonov nugget tik (use_auto_noise), h a KERNEL hyperparameter: the nugget does not depend on it *)
Theorem loglik_grad_kernel_nugget (tik : R) :
  locally (theta h) (fun t => let K := GPNugget.kernel_matrix (Kt t) tik in chol_ok (chol K) K) ->
  GPNugget.PT_K_inv_P (Kfun theta) tik Pmx \in unitmx ->
  is_derive (fun t => LogLik.log_likelihood_value chol (@sumlogdiag n) (GPNugget.kernel_matrix (Kt t) tik)
                        (GPNugget.demeaned_y (Kt t) tik y Pmx) (GPNugget.K_inv_demeaned_y (Kt t) tik y Pmx) s) (theta h)
    (LogLikGrad.grad n nh (cvv (GPNugget.K_inv_demeaned_y (Kfun theta) tik y Pmx)) tensor
                     (mxv (invmx (GPNugget.kernel_matrix (Kfun theta) tik))) s (fun _ => 1%Re) h).
Proof.
  move=> Hc Hu. rewrite -grad_tensor_view.
  have HdK : dKfun theta h = dKfun theta h + (0 : R)%:M by rewrite raddf0 addr0.
  have Hu' : GPNugget.PT_K_inv_P (Kt (theta h)) tik Pmx \in unitmx by rewrite Kt_at.
  have := @loglik_nugget_grad n p nh chol y Pmx s (theta h) (dKfun theta) h Kt (fun _ => tik) 0 (dKfun theta h)
            (Kfun_derive Hok) (is_derive_cst tik (theta h)) HdK Hc Hu'.
  by rewrite Kt_at.
Qed.

(* log parameterisation (log_domain=True): theta h = exp al, derivative in al carries the generated log_scaling factor exp al *)
Theorem loglik_grad_kernel_log_domain (al : R) : theta h = exp al ->
  locally (exp al) (fun t => let K := GPNoise.kernel_matrix (Kt t) noise in chol_ok (chol K) K) ->
  GPNoise.PT_K_inv_P (Kfun theta) noise Pmx \in unitmx ->
  is_derive (fun u => LogLik.log_likelihood_value chol (@sumlogdiag n) (GPNoise.kernel_matrix (Kt (exp u)) noise)
                        (GPNoise.demeaned_y (Kt (exp u)) noise y Pmx) (GPNoise.K_inv_demeaned_y (Kt (exp u)) noise y Pmx) s) al
    (LogLikGrad.grad n nh (cvv (GPNoise.K_inv_demeaned_y (Kfun theta) noise y Pmx)) tensor
                     (mxv (invmx (GPNoise.kernel_matrix (Kfun theta) noise))) s (fun _ => exp al) h).
Proof.
  move=> He Hc Hu. rewrite -grad_tensor_view.
  have HK : mx_derive Kt (exp al) (dKfun theta h) by rewrite -He; exact: (Kfun_derive Hok).
  have Hu' : GPNoise.PT_K_inv_P (Kt (exp al)) noise Pmx \in unitmx by rewrite -He Kt_at.
  have := @loglik_noise_grad_log_domain n p nh chol noise y Pmx s al (dKfun theta) h Kt HK Hc Hu'.
  by rewrite -He Kt_at.
Qed.
(* the same two statements about the TRANSLATED per-hyperparameter loops of compute_grad_log_likelihood (Gen.GenAcq.LogLikGrad.grad_linear /
   grad_logdom, equal to the hand-written form by Proofs/HandIR.v); hyp is the hyperparameter vector the loop reads its log_scaling from *)
Theorem loglik_grad_kernel_linear_loop (hyp : nat -> R) :
  locally (theta h) (fun t => let K := GPNoise.kernel_matrix (Kt t) noise in chol_ok (chol K) K) ->
  GPNoise.PT_K_inv_P (Kfun theta) noise Pmx \in unitmx ->
  is_derive (fun t => LogLik.log_likelihood_value chol (@sumlogdiag n) (GPNoise.kernel_matrix (Kt t) noise)
                        (GPNoise.demeaned_y (Kt t) noise y Pmx) (GPNoise.K_inv_demeaned_y (Kt t) noise y Pmx) s) (theta h)
    (LogLikGrad.grad_linear n nh (cvv (GPNoise.K_inv_demeaned_y (Kfun theta) noise y Pmx)) tensor s hyp
                            (mxv (invmx (GPNoise.kernel_matrix (Kfun theta) noise))) h).
Proof. move=> Hc Hu. rewrite -loglik_grad_hand_is_translated_linear. exact: loglik_grad_kernel. Qed.

Theorem loglik_grad_kernel_logdom_loop (hyp : nat -> R) : theta h = exp (hyp h) ->
  locally (exp (hyp h)) (fun t => let K := GPNoise.kernel_matrix (Kt t) noise in chol_ok (chol K) K) ->
  GPNoise.PT_K_inv_P (Kfun theta) noise Pmx \in unitmx ->
  is_derive (fun u => LogLik.log_likelihood_value chol (@sumlogdiag n) (GPNoise.kernel_matrix (Kt (exp u)) noise)
                        (GPNoise.demeaned_y (Kt (exp u)) noise y Pmx) (GPNoise.K_inv_demeaned_y (Kt (exp u)) noise y Pmx) s) (hyp h)
    (LogLikGrad.grad_logdom n nh (cvv (GPNoise.K_inv_demeaned_y (Kfun theta) noise y Pmx)) tensor s hyp
                            (mxv (invmx (GPNoise.kernel_matrix (Kfun theta) noise))) h).
Proof. move=> He Hc Hu. rewrite -loglik_grad_hand_is_translated_logdom. exact: (loglik_grad_kernel_log_domain He Hc Hu). Qed.
End Kernel.

(* ------------------------------------------------------------------ the hypotheses are satisfiable (SquareExponential): one observation in
   dimension 1, constant mean, any alpha > 0, length scale l > 0 with lcu 0 = l^3, noise >= 0; differentiation in the LENGTH SCALE (h = 1).
   The Cholesky factor of the 1 x 1 kernel matrix is its square root. *)
Section SEInstance.
Definition chol11 (A : 'M[R]_1) : 'M[R]_1 := (sqrt (A 0 0))%:M.
Lemma chol11_ok (A : 'M[R]_1) : Rlt 0 (A 0 0) -> chol_ok (chol11 A) A.
Proof.
  move=> H; split; last split.
  - rewrite /chol11 tr_scalar_mx -scalar_mxM.
    have -> : sqrt (A 0 0) * sqrt (A 0 0) = A 0 0 by apply: sqrt_sqrt; apply: Rlt_le.
    by rewrite -mx11_scalar.
  - exact: scalar_mx_is_trig.
  - move=> i. rewrite mxE eqxx mulr1n. exact: sqrt_lt_R0.
Qed.

Variables (nh : nat) (xs : nat -> nat -> R) (lsq lcu theta : nat -> R) (noise y : 'cV[R]_1) (s : R).
Hypothesis Halpha : Rlt 0 (theta 0%N).
Hypothesis Hl : Rlt 0 (theta 1%N).
Hypothesis Hlcu : lcu 0%N = (theta 1%N ^ 3)%Re.
Hypothesis Hnoise : Rle 0 (noise 0 0).
Let Kse := Kfun SquareExponential.kernel_matrix_sym 1 1 xs lsq lcu.
Let P1 : 'M[R]_(1,1) := const_mx 1.

Lemma SE_K11_pos th : Rlt 0 (th 0%N) -> Rlt 0 (GPNoise.kernel_matrix (Kse th) noise 0 0).
Proof.
  move=> H. rewrite /GPNoise.kernel_matrix mxE [Kse _ _ _]mxE !mxE eqxx mulr1n /GRing.add /=.
  apply: Rplus_lt_le_0_compat; last exact: Hnoise.
  rewrite /SquareExponential.kernel_matrix_sym /= Rplus_0_r. apply: Rmult_lt_0_compat => //. exact: exp_pos.
Qed.
Lemma inst_hparam_ok : hparam_ok 1 lcu theta 1.
Proof. move=> k0 [<-]. split; first exact: Nat.lt_0_1. by split. Qed.
Lemma inst_chol : locally (theta 1%N) (fun t => let K := GPNoise.kernel_matrix (Kse (LogLikFull.upd theta 1 t)) noise in chol_ok (chol11 K) K).
Proof. apply: filter_forall => t. apply: chol11_ok. exact: SE_K11_pos. Qed.
Lemma inst_PKP : GPNoise.PT_K_inv_P (Kse theta) noise P1 \in unitmx.
Proof.
  have -> : P1 = 1%:M by apply/matrixP => i j; rewrite !mxE !ord1.
  rewrite /GPNoise.PT_K_inv_P /GPNoise.K_inv_P /GPNoise.P /cho_solve trmx1 mul1mx mulmx1 unitmx_inv unitmxE det_mx11 unitfE.
  apply/RneqP => E. have := SE_K11_pos Halpha. rewrite E. exact: Rlt_irrefl.
Qed.

Theorem loglik_grad_se_instance :
  is_derive (fun t => let Kk := Kse (LogLikFull.upd theta 1 t) in
               LogLik.log_likelihood_value chol11 (@sumlogdiag 1) (GPNoise.kernel_matrix Kk noise)
                 (GPNoise.demeaned_y Kk noise y P1) (GPNoise.K_inv_demeaned_y Kk noise y P1) s) (theta 1%N)
    (LogLikGrad.grad 1 nh (cvv (GPNoise.K_inv_demeaned_y (Kse theta) noise y P1))
                     (SquareExponential.kernel_hparam_grad_tensor_sym 1 nh xs (hyp_ls theta) lsq lcu (theta 0%N))
                     (mxv (invmx (GPNoise.kernel_matrix (Kse theta) noise))) s (fun _ => 1%Re) 1).
Proof. exact: (loglik_grad_kernel SE_entries_ok nh y s inst_hparam_ok inst_chol inst_PKP). Qed.
End SEInstance.
