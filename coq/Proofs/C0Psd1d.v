(* C03, optional extra: the ONE-DIMENSIONAL C0 Matern kernel exp(-|s - t| / l) has positive semi-definite Gram matrices, for all n and all
   point sets.  Elementary: exp(-|s-t|) = exp(-s) * min(exp(2s), exp(2t)) * exp(-t), and for ANY non-negative numbers c_0 .. c_(n-1)
   the matrix min(c_a, c_b) is a Schur multiplier (SEPsd.schur; in particular PSD): peel off the smallest positive value m,
     min(c_a, c_b) = m * [c_a > 0][c_b > 0] + min(c'_a, c'_b),   c' = c - m on the positive entries, 0 elsewhere,
   a rank-one matrix plus a matrix of the same kind with one positive entry fewer.  No sorting, no re-indexing.
   In dimension >= 2 the C0 kernel, and the C2 / C4 kernels in every dimension, are NOT covered: PSD of their Gram matrices stays a
   hypothesis (Schoenberg). *)
From Coq Require Import Reals Lra Psatz Arith Lia.
From LV Require Import Lib.RBase Gen.GenCovariance Gen.GenMultitask Proofs.Hadamard Proofs.SEPsd.
Open Scope R_scope.

(* number of positive entries among c 0 .. c (n-1) *)
Fixpoint cnt (n : nat) (c : nat -> R) : nat :=
  match n with O => O | S m => (cnt m c + if Rlt_dec 0 (c m) then 1 else 0)%nat end.

Lemma cnt_zero n c : cnt n c = O -> forall a, (a < n)%nat -> ~ 0 < c a.
Proof.
  induction n as [|n IH]; intros H a Ha; [lia|]. simpl in H.
  destruct (Rlt_dec 0 (c n)) as [Hp|Hp]; [lia|].
  destruct (Nat.eq_dec a n) as [->|Hne]; [exact Hp|apply IH; lia].
Qed.

Lemma cnt_le n c c' : (forall a, (a < n)%nat -> 0 < c' a -> 0 < c a) -> (cnt n c' <= cnt n c)%nat.
Proof.
  induction n as [|n IH]; intros H; simpl; [lia|].
  assert (cnt n c' <= cnt n c)%nat by (apply IH; intros a Ha; apply H; lia).
  destruct (Rlt_dec 0 (c' n)) as [Hp'|Hp']; destruct (Rlt_dec 0 (c n)) as [Hp|Hp]; try lia.
  exfalso. apply Hp, H; [lia|exact Hp'].
Qed.

Lemma cnt_decr n c c' a0 : (a0 < n)%nat -> 0 < c a0 -> ~ 0 < c' a0 ->
  (forall a, (a < n)%nat -> 0 < c' a -> 0 < c a) -> (cnt n c' < cnt n c)%nat.
Proof.
  induction n as [|n IH]; intros Ha0 Hp0 Hn0 H; [lia|]. simpl.
  destruct (Nat.eq_dec a0 n) as [->|Hne].
  - assert (cnt n c' <= cnt n c)%nat by (apply cnt_le; intros a Ha; apply H; lia).
    destruct (Rlt_dec 0 (c' n)); [contradiction|]. destruct (Rlt_dec 0 (c n)); [lia|contradiction].
  - assert (cnt n c' < cnt n c)%nat by (apply IH; try assumption; [lia|intros a Ha; apply H; lia]).
    destruct (Rlt_dec 0 (c' n)) as [Hp'|Hp']; destruct (Rlt_dec 0 (c n)) as [Hp|Hp]; try lia.
    exfalso. apply Hp, H; [lia|exact Hp'].
Qed.

(* a smallest positive entry exists when there is a positive entry *)
Lemma argmin_pos n c : (0 < cnt n c)%nat ->
  exists a0, (a0 < n)%nat /\ 0 < c a0 /\ forall a, (a < n)%nat -> 0 < c a -> c a0 <= c a.
Proof.
  induction n as [|n IH]; intros H; simpl in H; [lia|].
  destruct (Rlt_dec 0 (c n)) as [Hp|Hp].
  - destruct (Nat.eq_dec (cnt n c) 0) as [Hz|Hnz].
    + exists n. repeat split; [lia|exact Hp|]. intros a Ha Hpa.
      destruct (Nat.eq_dec a n) as [->|Hne]; [lra|]. exfalso. apply (cnt_zero n c Hz a); [lia|exact Hpa].
    + destruct IH as (a1 & Ha1 & Hp1 & Hmin); [lia|].
      destruct (Rle_dec (c a1) (c n)) as [Hle|Hgt].
      * exists a1. repeat split; [lia|exact Hp1|]. intros a Ha Hpa.
        destruct (Nat.eq_dec a n) as [->|Hne]; [exact Hle|apply Hmin; [lia|exact Hpa]].
      * exists n. repeat split; [lia|exact Hp|]. intros a Ha Hpa.
        destruct (Nat.eq_dec a n) as [->|Hne]; [lra|]. assert (c a1 <= c a) by (apply Hmin; [lia|exact Hpa]). lra.
  - destruct IH as (a1 & Ha1 & Hp1 & Hmin); [lia|].
    exists a1. repeat split; [lia|exact Hp1|]. intros a Ha Hpa.
    destruct (Nat.eq_dec a n) as [->|Hne]; [contradiction|apply Hmin; [lia|exact Hpa]].
Qed.

Definition posb (x : R) : R := if Rlt_dec 0 x then 1 else 0.
Definition peel (m : R) (c : nat -> R) (a : nat) : R := if Rlt_dec 0 (c a) then c a - m else 0.

Lemma min_peel m (x y : R) : 0 <= x -> 0 <= y -> (0 < x -> m <= x) -> (0 < y -> m <= y) ->
  Rmin x y = m * (posb x * posb y) + Rmin (if Rlt_dec 0 x then x - m else 0) (if Rlt_dec 0 y then y - m else 0).
Proof.
  intros Hx Hy Hmx Hmy. unfold posb.
  destruct (Rlt_dec 0 x) as [Hpx|Hpx]; destruct (Rlt_dec 0 y) as [Hpy|Hpy];
    try specialize (Hmx Hpx); try specialize (Hmy Hpy); unfold Rmin;
    repeat match goal with |- context [Rle_dec ?p ?q] => destruct (Rle_dec p q) end; lra.
Qed.

Lemma min_schur_aux N : forall n c, (cnt n c <= N)%nat -> (forall a, (a < n)%nat -> 0 <= c a) ->
  schur n (fun a b => Rmin (c a) (c b)).
Proof.
  induction N as [|N IH]; intros n c Hcnt Hc.
  - apply (schur_ext n (fun _ _ => 0)); [|apply schur_zero]. intros a b Ha Hb.
    assert (Hz : cnt n c = O) by lia.
    pose proof (cnt_zero n c Hz a Ha). pose proof (cnt_zero n c Hz b Hb).
    pose proof (Hc a Ha). pose proof (Hc b Hb). unfold Rmin. destruct (Rle_dec (c a) (c b)); lra.
  - destruct (Nat.eq_dec (cnt n c) 0) as [Hz|Hnz]; [apply (IH n c); [lia|exact Hc]|].
    destruct (argmin_pos n c) as (a0 & Ha0 & Hp0 & Hmin); [lia|].
    set (m := c a0).
    apply (schur_ext n (fun a b => m * (posb (c a) * posb (c b)) + Rmin (peel m c a) (peel m c b))).
    + intros a b Ha Hb. symmetry. unfold peel. apply min_peel; auto.
    + apply (schur_plus n (fun a b => m * (posb (c a) * posb (c b))) (fun a b => Rmin (peel m c a) (peel m c b))).
      * apply schur_scale; [unfold m; lra|].
        apply (schur_factored n 1 _ (fun a _ => posb (c a))). intros a b _ _. simpl. ring.
      * apply IH.
        -- assert (cnt n (peel m c) < cnt n c)%nat; [|lia].
           apply (cnt_decr n c (peel m c) a0 Ha0 Hp0).
           ++ unfold peel, m. destruct (Rlt_dec 0 (c a0)); lra.
           ++ intros a Ha. unfold peel. destruct (Rlt_dec 0 (c a)); [auto|lra].
        -- intros a Ha. unfold peel. destruct (Rlt_dec 0 (c a)) as [Hp|Hp]; [|lra].
           specialize (Hmin a Ha Hp). unfold m. lra.
Qed.

(* the min matrix of non-negative numbers is a Schur multiplier, in particular PSD *)
Theorem min_schur n c : (forall a, (a < n)%nat -> 0 <= c a) -> schur n (fun a b => Rmin (c a) (c b)).
Proof. intros Hc. exact (min_schur_aux (cnt n c) n c (le_n _) Hc). Qed.

(* ------------------------------------------------------------------ exp(-|s - t|) *)
Lemma exp_abs_split s t : exp (- Rabs (s - t)) = exp (- s) * Rmin (exp (2 * s)) (exp (2 * t)) * exp (- t).
Proof.
  destruct (Rle_dec s t) as [Hle|Hgt].
  - rewrite Rmin_left.
    + rewrite <- !exp_plus. f_equal. rewrite Rabs_left1 by lra. ring.
    + destruct (Req_dec s t) as [->|Hne]; [lra|]. left. apply exp_increasing. lra.
  - rewrite Rmin_right.
    + rewrite <- !exp_plus. f_equal. rewrite Rabs_right by lra. ring.
    + left. apply exp_increasing. lra.
Qed.

Theorem laplace1d_schur n (s : nat -> R) : schur n (fun a b => exp (- Rabs (s a - s b))).
Proof.
  apply (schur_ext n (fun a b => exp (- s a) * Rmin (exp (2 * s a)) (exp (2 * s b)) * exp (- s b))).
  - intros a b _ _. symmetry. apply exp_abs_split.
  - apply (schur_congr n (fun a => exp (- s a)) (fun a b => Rmin (exp (2 * s a)) (exp (2 * s b)))).
    apply (min_schur n (fun a => exp (2 * s a))). intros a _. left. apply exp_pos.
Qed.

(* ------------------------------------------------------------------ the generated C0RadialMatern entry points in dimension 1 *)
Lemma C0_1d_sym_abs xs noise ls lsq lcu alpha a b :
  C0RadialMatern.kernel_matrix_sym 1 xs noise ls lsq lcu alpha a b
  = alpha * exp (- Rabs (xs a O / ls O - xs b O / ls O)) + (if Nat.eqb a b then noise a else 0).
Proof.
  unfold C0RadialMatern.kernel_matrix_sym. simpl. f_equal. f_equal. f_equal. f_equal.
  rewrite Rplus_0_l, Rmult_1_r. apply sqrt_Rsqr_abs.
Qed.

Lemma C0_1d_pair_abs_ (xs : nat -> nat -> R) ls lsq lcu alpha i (a b : nat) :
  C0RadialMatern._covariance 1 (fun _ => xs a) (fun _ => xs b) ls lsq lcu alpha i = exp (- Rabs (xs a O / ls O - xs b O / ls O)).
Proof.
  unfold C0RadialMatern._covariance. simpl. f_equal. f_equal.
  rewrite Rplus_0_l, Rmult_1_r. fold (Rsqr ((xs a O - xs b O) / ls O)). rewrite sqrt_Rsqr_abs. f_equal. unfold Rdiv. ring.
Qed.

Theorem C0_1d_sym_gram_schur n xs noise ls lsq lcu alpha :
  0 <= alpha -> (forall j, 0 <= noise j) ->
  schur n (fun a b => C0RadialMatern.kernel_matrix_sym 1 xs noise ls lsq lcu alpha a b).
Proof.
  intros Ha Hn.
  apply (schur_ext n (fun a b => alpha * exp (- Rabs (xs a O / ls O - xs b O / ls O)) + (if Nat.eqb a b then noise a else 0))).
  - intros a b _ _. symmetry. apply C0_1d_sym_abs.
  - apply (schur_plus n (fun a b => alpha * exp (- Rabs (xs a O / ls O - xs b O / ls O))) (fun a b => if Nat.eqb a b then noise a else 0)).
    + apply schur_scale; [exact Ha|]. apply (laplace1d_schur n (fun a => xs a O / ls O)).
    + apply schur_diag. intros a _. apply Hn.
Qed.

Theorem C0_1d_sym_gram_psd n xs ls lsq lcu alpha noise :
  (forall k, 0 < ls k) -> 0 <= alpha -> (forall j, 0 <= noise j) ->
  psdR n (fun a b => C0RadialMatern.kernel_matrix_sym 1 xs noise ls lsq lcu alpha a b).
Proof. intros _ Ha Hn. apply schur_psd, C0_1d_sym_gram_schur; assumption. Qed.

Theorem C0_1d_pair_gram_schur_ n xs ls lsq lcu alpha i :
  schur n (fun a b => C0RadialMatern._covariance 1 (fun _ => xs a) (fun _ => xs b) ls lsq lcu alpha i).
Proof.
  apply (schur_ext n (fun a b => exp (- Rabs (xs a O / ls O - xs b O / ls O)))).
  - intros a b _ _. symmetry. apply C0_1d_pair_abs_.
  - apply (laplace1d_schur n (fun a => xs a O / ls O)).
Qed.

(* multitask kernel with a one-dimensional C0 task kernel (not the library's default, which is SquareExponential) *)
Theorem multitask_c0_task_psd n (P : nat -> nat -> R) ts lst lsqt lcut alphat pg tg ph th :
  psdR n P ->
  psdR n (fun a b => GenMultitask._covariance (fun _ => P a b)
                       (fun i => C0RadialMatern._covariance 1 (fun _ => ts a) (fun _ => ts b) lst lsqt lcut alphat i) pg tg ph th 0%nat).
Proof.
  intros HP. unfold GenMultitask._covariance.
  apply (psd_ext n (fun a b => C0RadialMatern._covariance 1 (fun _ => ts a) (fun _ => ts b) lst lsqt lcut alphat 0%nat * P a b));
    [intros; ring|].
  apply (C0_1d_pair_gram_schur_ n ts lst lsqt lcut alphat 0%nat), HP.
Qed.
