(* C05, Gaussian-integral part: what Proofs/Acq.v had to assume (0 < Phi < 1) or could only state in derivative form
   (expected improvement = E[max(best - Y, 0)]) is proved here from Lib/Gauss.v. *)
From Coq Require Import Reals Lra Psatz.
From Coquelicot Require Import Coquelicot.
From LV Require Import Lib.RBase Lib.Gauss Gen.GenAcq Proofs.Acq.
Open Scope R_scope.

(* ------------------------------------------------------------------ G z = z Phi z + pdf z: tail and positivity *)
Theorem G_lim_m : is_lim G m_infty 0.
Proof.
  replace (Finite 0) with (Finite (0 + 0)) by (f_equal; ring).
  unfold G. apply (is_lim_plus' (fun z => z * Phi z) pdf); [apply zPhi_lim_m|apply pdf_lim_m].
Qed.

Lemma G_increasing a b : a < b -> G a < G b.
Proof.
  intros Hab. destruct (MVT_cor2 G Phi a b Hab) as (c & Heq & Hc).
  { intros x _. apply is_derive_Reals, G_deriv. }
  destruct (Phi_range c). nra.
Qed.

Theorem G_pos z : 0 < G z.
Proof.
  destruct (Rlt_or_le z 0) as [Hz|Hz].
  - apply Rle_lt_trans with (G (z - 1)); [|apply G_increasing; lra].
    unfold G. assert (Hz1 : z - 1 < 0) by lra. destruct (zPhi_bounds _ Hz1). lra.
  - unfold G. destruct (Phi_range z). pose proof (pdf_pos z). nra.
Qed.

(* ------------------------------------------------------------------ the success-probability model CDF has range (0,1) *)
Theorem cdf_model_range_unconditional dim x mean var gmean gvar thr i :
  0 < CDF.value dim x mean var gmean gvar thr i < 1.
Proof. apply cdf_model_range, Phi_range. Qed.

(* ------------------------------------------------------------------ expected improvement is E[max(best - Y, 0)], Y ~ N(mu, sigma^2) *)
Section EI_integral.
Variables mu sigma best : R.
Hypothesis Hs : 0 < sigma.

(* the N(mu, sigma^2) density *)
Definition ndens (y : R) : R := pdf ((y - mu) / sigma) / sigma.
Let F (b : R) : R := sigma * G ((b - mu) / sigma).
Let K (a : R) : R := F best - F a - (best - a) * Phi ((a - mu) / sigma).

Lemma ndens_Phi_deriv y : is_derive (fun y => Phi ((y - mu) / sigma)) y (ndens y).
Proof.
  evar_last.
  apply (is_derive_comp Phi (fun y => (y - mu) / sigma)). apply Phi_deriv.
  auto_derive; [exact I|reflexivity].
  unfold ndens, scal; simpl. unfold mult; simpl. field. lra.
Qed.

Lemma ei_K_deriv a : is_derive (fun a => - K a) a ((best - a) * ndens a).
Proof.
  unfold K. evar_last.
  apply @is_derive_opp. apply @is_derive_minus. apply @is_derive_minus.
  apply is_derive_const. apply (ei_incumbent_derivative mu sigma a Hs).
  apply (is_derive_mult (fun a => best - a) (fun a => Phi ((a - mu) / sigma)) a (- 1) (ndens a)).
  auto_derive; [exact I|ring]. apply ndens_Phi_deriv. intros; apply Rmult_comm.
  unfold opp, minus, plus, opp, zero, mult; simpl. ring.
Qed.

Lemma ei_integrand_cont y : continuous (fun y => (best - y) * ndens y) y.
Proof.
  apply (ex_derive_continuous (fun y => (best - y) * ndens y) y). unfold ndens, pdf. auto_derive.
  repeat split; lra.
Qed.

(* proper integral over [a, best] *)
Lemma ei_integral_proper a :
  is_RInt (fun y => (best - y) * ndens y) a best
          (sigma * G ((best - mu) / sigma) - sigma * G ((a - mu) / sigma) - (best - a) * Phi ((a - mu) / sigma)).
Proof.
  evar_last.
  apply (is_RInt_derive (fun a => - K a) (fun y => (best - y) * ndens y) a best).
  - intros y _. apply ei_K_deriv.
  - intros y _. apply ei_integrand_cont.
  - unfold K, F, minus, plus, opp; simpl. ring.
Qed.

Lemma ei_K_lim : is_lim K m_infty (sigma * G ((best - mu) / sigma)).
Proof.
  assert (Hc : 0 < / sigma) by (apply Rinv_0_lt_compat; exact Hs).
  apply (is_lim_ext (fun a => F best - sigma * G (/ sigma * a + - mu / sigma)
                              - ((best - mu) * Phi (/ sigma * a + - mu / sigma)
                                 - sigma * ((/ sigma * a + - mu / sigma) * Phi (/ sigma * a + - mu / sigma))))).
  { intros a. unfold K, F. replace (/ sigma * a + - mu / sigma) with ((a - mu) / sigma) by (field; lra). field. lra. }
  replace (Finite (sigma * G ((best - mu) / sigma))) with (Finite (F best - sigma * 0 - ((best - mu) * 0 - sigma * 0))).
  2:{ unfold F. f_equal. ring. }
  apply is_lim_minus'; [apply is_lim_minus'; [apply is_lim_const|]|apply is_lim_minus'].
  - apply (is_lim_scal_l (fun a => G (/ sigma * a + - mu / sigma)) sigma m_infty 0).
    apply (is_lim_lin_mm G (/ sigma) (- mu / sigma) 0 Hc G_lim_m).
  - apply (is_lim_scal_l (fun a => Phi (/ sigma * a + - mu / sigma)) (best - mu) m_infty 0).
    apply (is_lim_lin_mm Phi (/ sigma) (- mu / sigma) 0 Hc Phi_lim_m).
  - apply (is_lim_scal_l (fun a => (/ sigma * a + - mu / sigma) * Phi (/ sigma * a + - mu / sigma)) sigma m_infty 0).
    apply (is_lim_lin_mm (fun z => z * Phi z) (/ sigma) (- mu / sigma) 0 Hc zPhi_lim_m).
Qed.

(* improper integral over (-oo, best], as the limit of proper Riemann integrals *)
Theorem ei_is_expected_improvement_lim :
  is_lim (fun a => RInt (fun y => (best - y) * ndens y) a best) m_infty (sigma * G ((best - mu) / sigma)).
Proof.
  apply (is_lim_ext K); [|apply ei_K_lim].
  intros a. symmetry. apply is_RInt_unique. apply ei_integral_proper.
Qed.

(* the same with the integrand parenthesised ((best - y) * pdf z) / sigma *)
Corollary ei_is_expected_improvement_lim' :
  is_lim (fun a => RInt (fun y => (best - y) * pdf ((y - mu) / sigma) / sigma) a best) m_infty (sigma * G ((best - mu) / sigma)).
Proof.
  apply (is_lim_ext (fun a => RInt (fun y => (best - y) * ndens y) a best)); [|apply ei_is_expected_improvement_lim].
  intros a. apply RInt_ext. intros y _. unfold ndens, Rdiv. symmetry; apply Rmult_assoc.
Qed.

(* the same, as Coquelicot's generalised Riemann integral *)
Theorem ei_is_expected_improvement_gen :
  is_RInt_gen (fun y => (best - y) * ndens y) (Rbar_locally m_infty) (at_point best) (sigma * G ((best - mu) / sigma)).
Proof.
  intros P HP.
  destruct (ei_K_lim P HP) as [M HM].
  apply (Filter_prod _ _ _ (fun a => a < M) (fun b => b = best)); [exists M; intros a Ha; exact Ha|reflexivity|].
  intros a b Ha ->. exists (K a). split; [apply ei_integral_proper|apply HM, Ha].
Qed.
(* ... and over the whole real line, with the integrand written max(best - y, 0) * density: this is literally
   E[max(best - Y, 0)] for Y ~ N(mu, sigma^2) *)
Lemma ei_integral_proper_max a c : a <= best -> best <= c ->
  is_RInt (fun y => Rmax (best - y) 0 * ndens y) a c
          (sigma * G ((best - mu) / sigma) - sigma * G ((a - mu) / sigma) - (best - a) * Phi ((a - mu) / sigma)).
Proof.
  intros Ha Hc. evar_last.
  apply (is_RInt_Chasles (V := R_NormedModule) _ a best c).
  - apply (is_RInt_ext (fun y => (best - y) * ndens y)); [|apply ei_integral_proper].
    intros y Hy. rewrite Rmin_left, Rmax_right in Hy by exact Ha. rewrite Rmax_left by lra. reflexivity.
  - apply (is_RInt_ext (fun _ => 0)); [|apply (is_RInt_const (V := R_NormedModule))].
    intros y Hy. rewrite Rmin_left, Rmax_right in Hy by exact Hc. rewrite Rmax_right by lra. symmetry; apply Rmult_0_l.
  - unfold plus, scal; simpl. unfold mult; simpl. ring.
Qed.

Theorem ei_is_expected_improvement_line :
  is_RInt_gen (fun y => Rmax (best - y) 0 * ndens y) (Rbar_locally m_infty) (Rbar_locally p_infty)
              (sigma * G ((best - mu) / sigma)).
Proof.
  intros P HP.
  destruct (ei_K_lim P HP) as [M HM].
  apply (Filter_prod _ _ _ (fun a => a < Rmin M best) (fun c => best < c));
    [exists (Rmin M best); intros a Ha; exact Ha|exists best; intros c Hc; exact Hc|].
  intros a c Ha Hc. simpl in *. exists (K a).
  pose proof (Rmin_l M best). pose proof (Rmin_r M best).
  split; [apply ei_integral_proper_max; lra|apply HM; lra].
Qed.

(* ndens is a probability density: it is positive and integrates to 1 *)
Lemma ndens_pos y : 0 < ndens y.
Proof. unfold ndens. apply Rdiv_lt_0_compat; [apply pdf_pos|exact Hs]. Qed.

Lemma ndens_cont y : continuous ndens y.
Proof.
  apply (ex_derive_continuous ndens y). unfold ndens, pdf. auto_derive. repeat split; lra.
Qed.

Lemma ndens_integral_proper a b : is_RInt ndens a b (Phi ((b - mu) / sigma) - Phi ((a - mu) / sigma)).
Proof.
  apply (is_RInt_derive (fun y => Phi ((y - mu) / sigma)) ndens a b).
  - intros y _. apply ndens_Phi_deriv.
  - intros y _. apply ndens_cont.
Qed.

Theorem ndens_total_mass : is_RInt_gen ndens (Rbar_locally m_infty) (Rbar_locally p_infty) 1.
Proof.
  assert (Hc : 0 < / sigma) by (apply Rinv_0_lt_compat; exact Hs).
  assert (Z : forall y, (y - mu) / sigma = / sigma * y + - mu / sigma) by (intros y; field; lra).
  replace 1 with (plus (Phi ((mu - mu) / sigma) - 0) (1 - Phi ((mu - mu) / sigma))) by (unfold plus; simpl; ring).
  apply (is_RInt_gen_Chasles (V := R_NormedModule) ndens mu).
  - intros P HP.
    assert (L : is_lim (fun a => Phi ((mu - mu) / sigma) - Phi ((a - mu) / sigma)) m_infty (Phi ((mu - mu) / sigma) - 0)).
    { apply is_lim_minus'; [apply is_lim_const|].
      apply (is_lim_ext (fun a => Phi (/ sigma * a + - mu / sigma))); [intros a; rewrite Z; reflexivity|].
      apply (is_lim_lin_mm Phi (/ sigma) (- mu / sigma) 0 Hc Phi_lim_m). }
    destruct (L P HP) as [M HM].
    apply (Filter_prod _ _ _ (fun a => a < M) (fun b => b = mu)); [exists M; intros a Ha; exact Ha|reflexivity|].
    intros a b Ha ->. eexists. split; [apply ndens_integral_proper|apply HM, Ha].
  - intros P HP.
    assert (L : is_lim (fun b => Phi ((b - mu) / sigma) - Phi ((mu - mu) / sigma)) p_infty (1 - Phi ((mu - mu) / sigma))).
    { apply is_lim_minus'; [|apply is_lim_const].
      apply (is_lim_ext (fun a => Phi (/ sigma * a + - mu / sigma))); [intros a; rewrite Z; reflexivity|].
      apply (is_lim_lin_pp Phi (/ sigma) (- mu / sigma) 1 Hc Phi_lim_p). }
    destruct (L P HP) as [M HM].
    apply (Filter_prod _ _ _ (fun a => a = mu) (fun b => M < b)); [reflexivity|exists M; intros b Hb; exact Hb|].
    intros a b -> Hb. eexists. split; [apply ndens_integral_proper|apply HM, Hb].
Qed.
End EI_integral.

(* ------------------------------------------------------------------ consequences for the generated EI *)
(* the clamp max(0, .) in the generated EI value is never active *)
Theorem ei_value_no_clamp dim x mean var gmean gvar best i :
  EI.value dim x mean var gmean gvar best i = sqrt (var i) * G ((best - mean i) / sqrt (var i)).
Proof. rewrite ei_formula. rewrite Rmax_right; [reflexivity|left; apply G_pos]. Qed.

Theorem ei_value_pos dim x mean var gmean gvar best i : 0 < var i -> 0 < EI.value dim x mean var gmean gvar best i.
Proof. intros Hv. rewrite ei_value_no_clamp. apply Rmult_lt_0_compat; [apply sqrt_lt_R0, Hv|apply G_pos]. Qed.

(* C04: the generated EI gradient is the derivative of the generated EI value, without the side condition 0 < G z *)
Theorem ei_grad_is_derivative_unconditional (mu v dmu dv : R -> R) best dim x t i k :
  (forall t, is_derive mu t (dmu t)) -> (forall t, is_derive v t (dv t)) -> (forall t, 0 < v t) ->
  is_derive (fun t => EI.value dim x (C1 (mu t)) (C1 (v t)) (C2 0) (C2 0) best i) t
            (EI.grad dim x (C1 (mu t)) (C1 (v t)) (C2 (dmu t)) (C2 (dv t)) best i k).
Proof. intros H1 H2 H3. exact (ei_grad_is_derivative mu v dmu dv best dim x H1 H2 H3 t i k (G_pos _)). Qed.
