(* C09: the task-cost column of the views' encode entry point (views/view.py form_one_hot_points_with_tasks) and the
   task dimension of the domain it is decoded with (views/rest/gp_next_points_categorical.py
   _form_domain_with_task_dimension, Model.EndpointTail.with_task).

     - enc_in_box / encode_in_box: the encoding of an admissible point lies in the relaxed one-hot box;
     - encode_with_task_is_encode: appending the task cost to the encoding of p IS the encoding of p ++ [cost] in the
       domain with the task dimension;
     - task_roundtrip: for a valid point and a task cost that is one of the options, the encoded row (cost included)
       lies in the relaxed box of the task domain, the deterministic rounding functions leave it where it is, decoding
       returns the point with its cost, and snapping that cost to the options returns the cost itself. *)
From Coq Require Import List QArith ZArith Bool Arith Qround Qabs SetoidList Lia Lra Psatz.
From LV Require Import Model.Domain Model.Decode Proofs.Domain Proofs.Decode Model.EndpointTail.
Import ListNotations.
Open Scope Q_scope.

(* ------------------------------------------------------------------ minima / maxima of a list *)
Lemma fold_minb_lower : forall l a, fold_left Qminb l a <= a /\ forall e, In e l -> fold_left Qminb l a <= e.
Proof.
  induction l as [|b l IH]; intros a; simpl; [split; [lra|intros e []]|].
  destruct (IH (Qminb a b)) as [H1 H2]. assert (Hm : Qminb a b <= a /\ Qminb a b <= b).
  { unfold Qminb. destruct (Qle_bool a b) eqn:E; [apply Qle_bool_iff in E; split; lra|].
    assert (~ a <= b) by (intro Hc; apply Qle_bool_iff in Hc; congruence). split; lra. }
  split; [lra|]. intros e [<-|He]; [lra|apply H2; exact He].
Qed.
Lemma fold_maxb_upper : forall l a, a <= fold_left Qmaxb l a /\ forall e, In e l -> e <= fold_left Qmaxb l a.
Proof.
  induction l as [|b l IH]; intros a; simpl; [split; [lra|intros e []]|].
  destruct (IH (Qmaxb a b)) as [H1 H2]. assert (Hm : a <= Qmaxb a b /\ b <= Qmaxb a b).
  { unfold Qmaxb. destruct (Qle_bool a b) eqn:E; [apply Qle_bool_iff in E; split; lra|].
    assert (~ a <= b) by (intro Hc; apply Qle_bool_iff in Hc; congruence). split; lra. }
  split; [lra|]. intros e [<-|He]; [lra|apply H2; exact He].
Qed.
Lemma list_min_lower l e : In e l -> list_min l <= e.
Proof.
  destruct l as [|a l]; [intros []|]. simpl. destruct (fold_minb_lower l a) as [H1 H2]. intros [<-|He]; [exact H1|apply H2; exact He].
Qed.
Lemma list_max_upper l e : In e l -> e <= list_max l.
Proof.
  destruct l as [|a l]; [intros []|]. simpl. destruct (fold_maxb_upper l a) as [H1 H2]. intros [<-|He]; [exact H1|apply H2; exact He].
Qed.

(* ------------------------------------------------------------------ the encoding lies in the relaxed box *)
Lemma in_box_app a b x y : in_box a x -> in_box b y -> in_box (a ++ b) (x ++ y).
Proof. unfold in_box. intros H1 H2. apply Forall2_app; assumption. Qed.
Lemma cat_block_in_box v : forall es, in_box (repeat (0, 1) (length es)) (map (fun e => if Qeq_bool v (inject_Z e) then 1 else 0) es).
Proof.
  induction es as [|e es IH]; simpl; [constructor|]. constructor; [|exact IH]. simpl. destruct (Qeq_bool v (inject_Z e)); lra.
Qed.
Lemma enc_in_box : forall cs p, Forall2 in_component cs p -> in_box (flat_map box_of cs) (enc cs p).
Proof.
  intros cs p H. induction H as [|c v cs p Hc _ IH]; [constructor|].
  destruct c as [lo hi|lo hi|es|es]; cbn [flat_map box_of enc].
  - constructor; [simpl; exact Hc|exact IH].
  - constructor; [|exact IH]. simpl. destruct Hc as (z & Hz & Hlo & Hhi). rewrite Hz. rewrite <- !Zle_Qle. split; assumption.
  - apply in_box_app; [apply cat_block_in_box|exact IH].
  - constructor; [|exact IH]. simpl. destruct Hc as (e & He & Hv). rewrite Hv. split; [apply list_min_lower|apply list_max_upper]; exact He.
Qed.
Theorem encode_in_box d p : Admissible d p -> in_box (one_hot_box d) (encode d p).
Proof. intros [Hin _]. rewrite (encode_enc d p Hin). apply enc_in_box. exact Hin. Qed.
Lemma in_box_b : forall b x, in_box b x -> in_boxb b x = true.
Proof.
  unfold in_box, in_boxb. intros b x H. induction H as [|[lo hi] v b x [H1 H2] _ IH]; simpl; [reflexivity|].
  simpl in H1, H2. apply Qle_bool_iff in H1. apply Qle_bool_iff in H2. rewrite H1, H2, IH. reflexivity.
Qed.

(* ------------------------------------------------------------------ the task column *)
Lemma has_cat_task cs lo hi : has_cat (cs ++ [Double lo hi]) = has_cat cs.
Proof. unfold has_cat. rewrite existsb_app. simpl. rewrite !orb_false_r. reflexivity. Qed.
Lemma enc_task : forall cs p lo hi c, length cs = length p -> enc (cs ++ [Double lo hi]) (p ++ [c]) = enc cs p ++ [c].
Proof.
  induction cs as [|k cs IH]; intros [|v p] lo hi c Hl; simpl in Hl; try discriminate; [reflexivity|].
  destruct k; cbn [app enc]; rewrite IH by lia; try reflexivity. rewrite app_assoc. reflexivity.
Qed.
Lemma encode_with_task_is_encode d opts p c : Forall2 in_component (comps d) p ->
  encode_with_task d p (Some c) = encode (with_task d opts) (p ++ [c]).
Proof.
  intros Hin. pose proof (Forall2_len _ _ _ Hin) as Hl. unfold encode_with_task, encode. cbn [with_task comps].
  rewrite has_cat_task. destruct (has_cat (comps d)) eqn:E; [rewrite enc_task by exact Hl; reflexivity|reflexivity].
Qed.
Lemma dot_task : forall a x b y, length a = length x -> dot (a ++ b) (x ++ y) == dot a x + dot b y.
Proof.
  induction a as [|u a IH]; intros [|v x] b y Hl; simpl in Hl; try discriminate; simpl; [ring|]. rewrite IH by lia. ring.
Qed.
Lemma with_task_admits d opts p c : wf_domain d = true -> Admissible d p -> In c opts -> Admissible (with_task d opts) (p ++ [c]).
Proof.
  intros Hwf [Hin Hk] Hc. split; cbn [with_task comps cons].
  - apply Forall2_app; [exact Hin|]. constructor; [|constructor]. simpl. split; [apply list_min_lower|apply list_max_upper]; exact Hc.
  - rewrite Forall_forall in *. intros k' Hk'. apply in_map_iff in Hk' as (k & <- & Hkin). cbn [rhs weights].
    assert (Hl : length (weights k) = length p).
    { unfold wf_domain in Hwf. apply andb_true_iff in Hwf as [_ Hw]. rewrite forallb_forall in Hw. specialize (Hw k Hkin).
      unfold wf_constraint in Hw. apply andb_true_iff in Hw as [Hw _]. apply Nat.eqb_eq in Hw. rewrite Hw. eapply Forall2_len; exact Hin. }
    rewrite dot_task by exact Hl. simpl. specialize (Hk k Hkin). lra.
Qed.
Lemma forall2b_snoc {A B} (f : A -> B -> bool) : forall l m a b, forall2b f l m = true -> f a b = true -> forall2b f (l ++ [a]) (m ++ [b]) = true.
Proof.
  induction l as [|x l IH]; intros [|y m] a b H Hab; simpl in *; try discriminate; [rewrite Hab; reflexivity|].
  apply andb_true_iff in H as [H1 H2]. rewrite H1. simpl. apply IH; assumption.
Qed.
Lemma with_task_wellformed d opts : wf_domain d = true -> list_min opts < list_max opts -> wf_domain (with_task d opts) = true.
Proof.
  intros Hwf Hlt. unfold wf_domain in *. apply andb_true_iff in Hwf as [H1 H2]. apply andb_true_iff. cbn [with_task comps cons]. split.
  - rewrite forallb_app, H1. simpl. rewrite andb_true_r. apply Qltb_lt. exact Hlt.
  - rewrite forallb_forall in *. intros k' Hk'. apply in_map_iff in Hk' as (k & <- & Hk). specialize (H2 k Hk).
    unfold wf_constraint in *. cbn [weights cty]. apply andb_true_iff in H2 as [A B]. apply andb_true_iff. split.
    + rewrite !app_length. simpl. apply Nat.eqb_eq in A. apply Nat.eqb_eq. lia.
    + apply forall2b_snoc; [exact B|]. unfold weight_ok. simpl. reflexivity.
Qed.
Lemma one_hot_dim_task cs lo hi : one_hot_dim (cs ++ [Double lo hi]) = S (one_hot_dim cs).
Proof. induction cs as [|k cs IH]; simpl; [reflexivity|]. rewrite IH. lia. Qed.

(* snapping a cost that is one of the options returns it *)
Lemma snap_task_fixed c opts : In c opts -> nearest c opts == c.
Proof.
  intros Hc. pose proof (nearest_min c opts c Hc) as H. assert (E : c - c == 0) by ring. rewrite E in H. change (Qabs 0) with 0 in H.
  apply Qabs_Qle_condition in H. destruct H as [H1 H2]. lra.
Qed.

Theorem task_roundtrip d opts p c : wf_domain d = true -> list_min opts < list_max opts -> Admissible d p -> In c opts ->
  let x := encode_with_task d p (Some c) in
  in_boxb (one_hot_box (with_task d opts)) x = true /\
  peq (snap_det (with_task d opts) x) x /\
  length x = S (one_hot_dim (comps d)) /\
  (exists q, decode_det (with_task d opts) x = Some q /\ peq q (p ++ [c])) /\
  peq (snap_tasks [c] opts) [c].
Proof.
  intros Hwf Hlt Hadm Hc x. destruct Hadm as [Hin Hk].
  pose proof (with_task_wellformed d opts Hwf Hlt) as Hwt.
  pose proof (with_task_admits d opts p c Hwf (conj Hin Hk) Hc) as Hat.
  assert (Hx : x = encode (with_task d opts) (p ++ [c])) by (apply encode_with_task_is_encode; exact Hin).
  destruct (round_roundtrip (with_task d opts) (p ++ [c]) Hwt Hat) as (q & Hq & Hpq & Hfix & Hlen).
  rewrite Hx. split; [|split; [|split; [|split]]].
  - apply in_box_b. apply encode_in_box. exact Hat.
  - exact Hfix.
  - rewrite Hlen. cbn [with_task comps]. apply one_hot_dim_task.
  - exists q. split; assumption.
  - unfold snap_tasks. simpl. constructor; [apply snap_task_fixed; exact Hc|constructor].
Qed.

(* ------------------------------------------------------------------ the task-cost clause on the multitask tail of the GP endpoint
   (Model.TaskTail / Model.EndpointTail.gp_tail): every returned cost is a nearest option of the raw task coordinate of the row it is
   returned with - for the proposals that were kept and for the rows drawn to replace rejected duplicates alike *)
From LV Require Import Model.TaskTail.
Module DSX := LV.Model.Distinct.

Lemma forall2_map_l {A B C} (P : B -> C -> Prop) (f : A -> B) : forall l m, Forall2 (fun a c => P (f a) c) l m -> Forall2 P (map f l) m.
Proof. induction 1; simpl; constructor; assumption. Qed.
Theorem task_tail_costs_snapped d opts parallel af xs hist hist_oh o r : opts <> [] ->
  gp_tail d opts parallel af xs hist hist_oh o = Some r ->
  exists out costs, task_tail_rows d opts af xs hist_oh o = Some out /\
    r_points r = map (@removelast Q) out /\ r_costs r = Some costs /\
    Forall2 (fun p c => In c opts /\ forall e, In e opts -> Qabs (last p 0 - c) <= Qabs (last p 0 - e)) out costs.
Proof.
  intros Hne H. destruct opts as [|o1 orest]; [congruence|]. cbn [gp_tail] in H. unfold task_tail_rows. unfold obind in *.
  set (opts := o1 :: orest) in *. set (dt := with_task d opts) in *.
  destruct (convert_from_one_hot dt false af (g_dec o) xs) as [pts|]; [|discriminate].
  destruct (decode_b dt (g_hdec o) hist_oh) as [aug|]; [|discriminate].
  destruct (replace_dups dt pts aug uniq_tol (g_choice o) (g_q o)) as [out|]; [|discriminate]. injection H as <-.
  exists out, (snap_tasks (map (fun p : point => last p 0) out) opts). cbn [r_points r_costs].
  split; [reflexivity|]. split; [reflexivity|]. split; [reflexivity|].
  pose proof (snap_tasks_nearest (map (fun p : point => last p 0) out) opts Hne) as Hs.
  unfold snap_tasks in *. rewrite map_map in *.
  clear -Hs. induction out as [|p out IH]; simpl in *; [constructor|]. inversion Hs; subst. constructor; [assumption|apply IH; assumption].
Qed.

(* the rows the costs are returned with: the proposals kept by the two duplicate tests (in order), followed by the rows drawn for the
   rejected ones; on an unconstrained domain these are the per-component draws, the LAST column being the uniform draw of the task
   dimension (the domain with the task dimension is never discrete, so the distinct sampler is the plain per-component sampler) *)
Theorem task_tail_rows_structure d opts af xs hist_oh o out :
  task_tail_rows d opts af xs hist_oh o = Some out ->
  let dt := with_task d opts in
  exists pts aug kept fill,
    convert_from_one_hot dt false af (g_dec o) xs = Some pts /\ decode_b dt (g_hdec o) hist_oh = Some aug /\
    kept_of dt pts aug uniq_tol = Some kept /\ out = kept ++ fill /\
    ((DSX.zlen pts - DSX.zlen kept =? 0)%Z = true -> fill = []) /\
    ((DSX.zlen pts - DSX.zlen kept =? 0)%Z = false -> is_constrained d = false ->
       fill = DSX.quasi_random (DSX.zlen pts - DSX.zlen kept) (q_cols (g_q o))).
Proof.
  intros H dt. unfold task_tail_rows, obind in H. fold dt in H.
  destruct (convert_from_one_hot dt false af (g_dec o) xs) as [pts|] eqn:Ec; [|discriminate].
  destruct (decode_b dt (g_hdec o) hist_oh) as [aug|] eqn:Ea; [|discriminate].
  unfold replace_dups in H. destruct (kept_of dt pts aug uniq_tol) as [kept|] eqn:Ek; [|discriminate].
  destruct (distinct_pts dt (DSX.zlen pts - DSX.zlen kept) aug (g_choice o) (g_q o)) as [fill|] eqn:Ef; [|discriminate].
  injection H as <-. exists pts, aug, kept, fill.
  split; [first [reflexivity|exact Ec]|]. split; [first [reflexivity|exact Ea]|]. split; [first [reflexivity|exact Ek]|]. split; [reflexivity|]. split.
  - intros Hz. unfold distinct_pts in Ef. rewrite Hz in Ef. congruence.
  - intros Hz Hc. unfold distinct_pts in Ef. rewrite Hz in Ef.
    assert (Hd : is_discrete dt = false).
    { unfold dt, is_discrete, DSX.is_discrete, ddom. cbn [with_task comps]. rewrite map_app, forallb_app. simpl. apply andb_false_r. }
    rewrite Hd in Ef. simpl in Ef. unfold quasi_points in Ef.
    assert (Hk : is_constrained dt = false).
    { unfold is_constrained in *. unfold dt. cbn [with_task cons]. rewrite map_length. exact Hc. }
    rewrite Hk in Ef. congruence.
Qed.

Lemma task_costs_okb_sound opts rows costs : task_costs_okb opts rows costs = true ->
  Forall2 (fun p c => InA Qeq c opts /\ forall e, In e opts -> Qabs (last p 0 - c) <= Qabs (last p 0 - e)) rows costs.
Proof.
  unfold task_costs_okb. intros H. apply andb_true_iff in H as [_ H]. revert costs H.
  induction rows as [|p rows IH]; intros [|c costs] H; simpl in H; try discriminate; constructor.
  - apply andb_true_iff in H as [H _]. unfold nearest_option_b in H. apply andb_true_iff in H as [H1 H2]. split.
    + apply existsb_exists in H1 as (e & He & Heq). apply Qeq_bool_iff in Heq. apply InA_alt. exists e. split; assumption.
    + rewrite forallb_forall in H2. intros e He. apply Qle_bool_iff. apply H2. exact He.
  - apply IH. apply andb_true_iff in H as [_ H]. exact H.
Qed.
