(* C04, kernels: the public pairwise entry points.  For every point pair (coincident ones included), every coordinate k0
   and positive length scales, grad_covariance is the derivative of covariance in coordinate k0 of its first argument, and
   the length-scale column of hyperparameter_grad_covariance is the derivative in that length scale (away from coincidence
   it is proved; at coincidence the value is constant in l). All statements are about the REGENERATED definitions. *)
From Coq Require Import Reals Lra Psatz Arith Lia.
From Coquelicot Require Import Coquelicot.
From LV Require Import Lib.RBase Gen.GenCovariance Proofs.Covariance.
Open Scope R_scope.

(* replace coordinate k0 of row i by t *)
Definition upd (x : nat -> nat -> R) (i k0 : nat) (t : R) : nat -> nat -> R :=
  fun a k => if (Nat.eqb a i && Nat.eqb k k0)%bool then t else x a k.

Definition rest (dim : nat) (x z : nat -> nat -> R) (ls : nat -> R) (i k0 : nat) : R :=
  bigsum dim (fun k => if Nat.eqb k k0 then 0 else ((x i k - z i k) / ls k) ^ 2).

Lemma rest_nonneg dim x z ls i k0 : 0 <= rest dim x z ls i k0.
Proof. apply bigsum_nonneg. intros k _. destruct (Nat.eqb k k0); [lra|apply pow2_ge_0]. Qed.

Lemma d2w_line dim x z ls i k0 t : (k0 < dim)%nat ->
  d2w dim (upd x i k0 t) z ls i i = d2of (rest dim x z ls i k0) (z i k0) (ls k0) t.
Proof.
  intros Hk. unfold d2w, d2of, rest.
  rewrite (bigsum_split dim _ k0 Hk). unfold upd at 1. rewrite !Nat.eqb_refl. cbn [andb].
  rewrite Rplus_comm. f_equal. apply bigsum_ext. intros k _.
  destruct (Nat.eqb_spec k k0) as [->|Hne]; [reflexivity|].
  unfold upd. rewrite Nat.eqb_refl. cbn [andb]. destruct (Nat.eqb_spec k k0); [contradiction|reflexivity].
Qed.

Lemma upd_same x i k0 : forall a k, upd x i k0 (x i k0) a k = x a k.
Proof.
  intros a k. unfold upd. destruct (Nat.eqb_spec a i) as [->|]; cbn [andb]; [|reflexivity].
  destruct (Nat.eqb_spec k k0) as [->|]; reflexivity.
Qed.
Lemma d2w_at dim x z ls i k0 : (k0 < dim)%nat ->
  d2w dim x z ls i i = d2of (rest dim x z ls i k0) (z i k0) (ls k0) (x i k0).
Proof.
  intros Hk. rewrite <- (d2w_line dim x z ls i k0 (x i k0) Hk). unfold d2w. apply bigsum_ext. intros k _.
  rewrite upd_same. reflexivity.
Qed.

(* generic lifting from the scalar line lemma to the coordinate statement *)
Section Lift.
Variables (kval : R -> R) (kgrad : R -> R -> R -> R).
Hypothesis regular : forall c z l t, l <> 0 -> 0 < d2of c z l t ->
  is_derive (fun t => kval (d2of c z l t)) t (kgrad (d2of c z l t) (t - z) (l ^ 2)).
Hypothesis coincident : forall z l, l <> 0 -> is_derive (fun t => kval (d2of 0 z l t)) z 0.
Hypothesis kgrad_zero_diff : forall d l, kgrad d 0 l = 0.

Lemma lift_line dim x z ls alpha i k0 : (k0 < dim)%nat -> ls k0 <> 0 ->
  is_derive (fun t => alpha * kval (d2w dim (upd x i k0 t) z ls i i)) (x i k0)
            (alpha * kgrad (d2w dim x z ls i i) (x i k0 - z i k0) (ls k0 ^ 2)).
Proof.
  intros Hk Hl.
  apply (is_derive_ext (fun t => alpha * kval (d2of (rest dim x z ls i k0) (z i k0) (ls k0) t))).
  { intros t. rewrite d2w_line by exact Hk. reflexivity. }
  rewrite (d2w_at dim x z ls i k0 Hk).
  set (c := rest dim x z ls i k0). pose proof (rest_nonneg dim x z ls i k0) as Hc. fold c in Hc.
  assert (Hd2 : 0 <= d2of c (z i k0) (ls k0) (x i k0)) by (unfold d2of; pose proof (pow2_ge_0 ((x i k0 - z i k0) / ls k0)); lra).
  destruct (Rle_lt_or_eq_dec _ _ Hd2) as [Hpos|Hzero].
  - exact (is_derive_scal (fun t => kval (d2of c (z i k0) (ls k0) t)) (x i k0) alpha _ (regular _ _ _ _ Hl Hpos)).
  - (* coincident in every coordinate: c = 0 and x i k0 = z i k0 *)
    unfold d2of in Hzero. pose proof (pow2_ge_0 ((x i k0 - z i k0) / ls k0)) as Hp.
    assert (Hc0 : c = 0) by lra.
    assert (Hq : ((x i k0 - z i k0) / ls k0) ^ 2 = 0) by lra.
    assert (Hx : x i k0 - z i k0 = 0).
    { assert (E : (x i k0 - z i k0) / ls k0 = 0) by (apply Rsqr_0_uniq; unfold Rsqr; simpl in Hq; lra).
      apply (Rmult_eq_compat_r (ls k0)) in E. unfold Rdiv in E. rewrite Rmult_assoc, Rinv_l, Rmult_1_r, Rmult_0_l in E by exact Hl.
      exact E. }
    rewrite Hx, kgrad_zero_diff, Rmult_0_r. rewrite Hc0.
    replace (x i k0) with (z i k0) by lra.
    pose proof (is_derive_scal (fun t => kval (d2of 0 (z i k0) (ls k0) t)) (z i k0) alpha 0 (coincident _ _ Hl)) as Hd.
    rewrite Rmult_0_r in Hd. exact Hd.
Qed.
End Lift.

(* ------------------------------------------------------------------ behaviour at coincident points: squeeze *)
Lemma exp_ge_1_minus r : 1 - r <= exp (- r).
Proof. pose proof (exp_ineq1_le (- r)). lra. Qed.

Lemma sqrt_sq_div z l t : l <> 0 -> sqrt (0 + ((t - z) / l) ^ 2) = Rabs ((t - z) / l).
Proof. intros Hl. rewrite Rplus_0_l. replace (((t - z) / l) ^ 2) with (Rsqr ((t - z) / l)) by (unfold Rsqr; ring). apply sqrt_Rsqr_abs. Qed.

Lemma coincident_from_bound (phi : R -> R) : phi 0 = 1 -> (forall r, 0 <= r -> 1 - r ^ 2 <= phi r <= 1) ->
  forall z l, l <> 0 -> is_derive (fun t => phi (sqrt (d2of 0 z l t))) z 0.
Proof.
  intros H0 Hb z l Hl. apply (is_derive_sq_bound _ z (/ (l ^ 2))). intros t. unfold d2of.
  rewrite !sqrt_sq_div by exact Hl. replace ((z - z) / l) with 0 by (field; exact Hl). rewrite Rabs_R0, H0.
  set (r := Rabs ((t - z) / l)). assert (Hr : 0 <= r) by apply Rabs_pos.
  destruct (Hb r Hr) as [B1 B2].
  assert (Er : r ^ 2 = / l ^ 2 * (t - z) ^ 2).
  { unfold r. rewrite RPow_abs, Rabs_pos_eq by apply pow2_ge_0. field. exact Hl. }
  rewrite <- Er. apply Rabs_le. lra.
Qed.

Lemma phiC2_lower r : 0 <= r -> 1 - r ^ 2 <= phiC2 r <= 1.
Proof.
  intros Hr. split; [|apply phiC2_range; exact Hr]. unfold phiC2. pose proof (exp_ge_1_minus r).
  assert (0 < exp (- r)) by apply exp_pos. nra.
Qed.
Lemma phiC4_lower r : 0 <= r -> 1 - r ^ 2 <= phiC4 r <= 1.
Proof.
  intros Hr. split; [|apply phiC4_range; exact Hr]. unfold phiC4. pose proof (exp_ge_1_minus r).
  assert (0 < exp (- r)) by apply exp_pos. nra.
Qed.

(* ------------------------------------------------------------------ the three differentiable kernels *)
Definition valSE (d : R) := SquareExponential.eval_radial_kernel (K2 d) O O.
Definition gradSE (dim : nat) (d df lq : R) := SquareExponential.eval_radial_kernel_grad dim (K2 d) (K3 df) (K1 0) (K1 lq) (K1 0) 1 O O O.
Definition valC2 (d : R) := C2RadialMatern.eval_radial_kernel (K2 d) O O.
Definition gradC2 (dim : nat) (d df lq : R) := C2RadialMatern.eval_radial_kernel_grad dim (K2 d) (K3 df) (K1 0) (K1 lq) (K1 0) 1 O O O.
Definition valC4 (d : R) := C4RadialMatern.eval_radial_kernel (K2 d) O O.
Definition gradC4 (dim : nat) (d df lq : R) := C4RadialMatern.eval_radial_kernel_grad dim (K2 d) (K3 df) (K1 0) (K1 lq) (K1 0) 1 O O O.

Lemma SE_coincident z l : l <> 0 -> is_derive (fun t => valSE (d2of 0 z l t)) z 0.
Proof.
  intros Hl. unfold valSE, SquareExponential.eval_radial_kernel, K2, d2of. auto_derive; [exact I|].
  replace (z - z) with 0 by ring. unfold Rdiv. ring.
Qed.
Lemma C2_coincident z l : l <> 0 -> is_derive (fun t => valC2 (d2of 0 z l t)) z 0.
Proof. intros Hl. exact (coincident_from_bound phiC2 phiC2_0 phiC2_lower z l Hl). Qed.
Lemma C4_coincident z l : l <> 0 -> is_derive (fun t => valC4 (d2of 0 z l t)) z 0.
Proof.
  intros Hl. apply (is_derive_ext (fun t => phiC4 (sqrt (d2of 0 z l t)))).
  - intros t. unfold valC4, C4RadialMatern.eval_radial_kernel, K2, phiC4. f_equal.
    assert (H0 : 0 <= d2of 0 z l t) by (unfold d2of; pose proof (pow2_ge_0 ((t - z) / l)); lra).
    replace (sqrt (d2of 0 z l t) ^ 2) with (d2of 0 z l t) by (simpl; rewrite Rmult_1_r, sqrt_sqrt; lra). lra.
  - exact (coincident_from_bound phiC4 phiC4_0 phiC4_lower z l Hl).
Qed.

Lemma SE_regular dim c z l t : l <> 0 -> 0 < d2of c z l t ->
  is_derive (fun t => valSE (d2of c z l t)) t (gradSE dim (d2of c z l t) (t - z) (l ^ 2)).
Proof. intros Hl _. exact (SE_grad_input dim c z l t Hl). Qed.
Lemma C2_regular dim c z l t : l <> 0 -> 0 < d2of c z l t ->
  is_derive (fun t => valC2 (d2of c z l t)) t (gradC2 dim (d2of c z l t) (t - z) (l ^ 2)).
Proof. exact (C2_grad_input dim c z l t). Qed.
Lemma C4_regular dim c z l t : l <> 0 -> 0 < d2of c z l t ->
  is_derive (fun t => valC4 (d2of c z l t)) t (gradC4 dim (d2of c z l t) (t - z) (l ^ 2)).
Proof. exact (C4_grad_input dim c z l t). Qed.

Lemma gradSE_zero dim d l : gradSE dim d 0 l = 0.
Proof. unfold gradSE, SquareExponential.eval_radial_kernel_grad, K1, K2, K3. unfold Rdiv. ring. Qed.
Lemma gradC2_zero dim d l : gradC2 dim d 0 l = 0.
Proof. unfold gradC2, C2RadialMatern.eval_radial_kernel_grad, K1, K2, K3. unfold Rdiv. ring. Qed.
Lemma gradC4_zero dim d l : gradC4 dim d 0 l = 0.
Proof. unfold gradC4, C4RadialMatern.eval_radial_kernel_grad, K1, K2, K3. unfold Rdiv. ring. Qed.

(* bridging the pairwise entry points to (value, gradient) of the radial profile *)
Lemma sqrt_pow2 s : 0 <= s -> sqrt s ^ 2 = s.
Proof. intros H. simpl. rewrite Rmult_1_r. apply sqrt_sqrt, H. Qed.

Theorem SE_grad_covariance_is_derivative dim x z ls lsq lcu alpha i k0 :
  (k0 < dim)%nat -> ls k0 <> 0 -> lsq k0 = ls k0 ^ 2 ->
  is_derive (fun t => SquareExponential.covariance dim (upd x i k0 t) z ls lsq lcu alpha i) (x i k0)
            (SquareExponential.grad_covariance dim x z ls lsq lcu alpha i k0).
Proof.
  intros Hk Hl Hq.
  apply (is_derive_ext (fun t => alpha * valSE (d2w dim (upd x i k0 t) z ls i i))).
  { intros t. unfold valSE, SquareExponential.eval_radial_kernel, K2, SquareExponential.covariance.
    fold (d2w dim (upd x i k0 t) z ls i i). rewrite sqrt_pow2 by apply d2w_nonneg. reflexivity. }
  replace (SquareExponential.grad_covariance dim x z ls lsq lcu alpha i k0)
    with (alpha * gradSE dim (d2w dim x z ls i i) (x i k0 - z i k0) (ls k0 ^ 2)).
  { exact (lift_line valSE (gradSE dim) (SE_regular dim) SE_coincident (gradSE_zero dim) dim x z ls alpha i k0 Hk Hl). }
  unfold gradSE, SquareExponential.grad_covariance, SquareExponential.eval_radial_kernel_grad, K1, K2, K3.
  fold (d2w dim x z ls i i). rewrite sqrt_pow2 by apply d2w_nonneg. rewrite Hq. reflexivity.
Qed.

Theorem C2_grad_covariance_is_derivative dim x z ls lsq lcu alpha i k0 :
  (k0 < dim)%nat -> ls k0 <> 0 -> lsq k0 = ls k0 ^ 2 ->
  is_derive (fun t => C2RadialMatern.covariance dim (upd x i k0 t) z ls lsq lcu alpha i) (x i k0)
            (C2RadialMatern.grad_covariance dim x z ls lsq lcu alpha i k0).
Proof.
  intros Hk Hl Hq.
  apply (is_derive_ext (fun t => alpha * valC2 (d2w dim (upd x i k0 t) z ls i i))).
  { intros t. reflexivity. }
  replace (C2RadialMatern.grad_covariance dim x z ls lsq lcu alpha i k0)
    with (alpha * gradC2 dim (d2w dim x z ls i i) (x i k0 - z i k0) (ls k0 ^ 2)).
  { exact (lift_line valC2 (gradC2 dim) (C2_regular dim) C2_coincident (gradC2_zero dim) dim x z ls alpha i k0 Hk Hl). }
  unfold gradC2, C2RadialMatern.grad_covariance, C2RadialMatern.eval_radial_kernel_grad, K1, K2, K3.
  fold (d2w dim x z ls i i). rewrite Hq. reflexivity.
Qed.

Theorem C4_grad_covariance_is_derivative dim x z ls lsq lcu alpha i k0 :
  (k0 < dim)%nat -> ls k0 <> 0 -> lsq k0 = ls k0 ^ 2 ->
  is_derive (fun t => C4RadialMatern.covariance dim (upd x i k0 t) z ls lsq lcu alpha i) (x i k0)
            (C4RadialMatern.grad_covariance dim x z ls lsq lcu alpha i k0).
Proof.
  intros Hk Hl Hq.
  apply (is_derive_ext (fun t => alpha * valC4 (d2w dim (upd x i k0 t) z ls i i))).
  { intros t. unfold valC4, C4RadialMatern.eval_radial_kernel, K2, C4RadialMatern.covariance.
    fold (d2w dim (upd x i k0 t) z ls i i). rewrite sqrt_pow2 by apply d2w_nonneg. reflexivity. }
  replace (C4RadialMatern.grad_covariance dim x z ls lsq lcu alpha i k0)
    with (alpha * gradC4 dim (d2w dim x z ls i i) (x i k0 - z i k0) (ls k0 ^ 2)).
  { exact (lift_line valC4 (gradC4 dim) (C4_regular dim) C4_coincident (gradC4_zero dim) dim x z ls alpha i k0 Hk Hl). }
  unfold gradC4, C4RadialMatern.grad_covariance, C4RadialMatern.eval_radial_kernel_grad, K1, K2, K3.
  fold (d2w dim x z ls i i). rewrite Hq. reflexivity.
Qed.

(* ------------------------------------------------------------------ hyperparameter gradients of the pairwise entry point *)
Definition updl (ls : nat -> R) (k0 : nat) (l : R) : nat -> R := fun k => if Nat.eqb k k0 then l else ls k.

Lemma d2w_line_l dim x z ls i k0 l : (k0 < dim)%nat ->
  d2w dim x z (updl ls k0 l) i i = d2of (rest dim x z ls i k0) (z i k0) l (x i k0).
Proof.
  intros Hk. unfold d2w, d2of, rest.
  rewrite (bigsum_split dim _ k0 Hk). unfold updl at 1. rewrite Nat.eqb_refl.
  rewrite Rplus_comm. f_equal. apply bigsum_ext. intros k _.
  destruct (Nat.eqb_spec k k0) as [->|Hne]; [reflexivity|].
  unfold updl. destruct (Nat.eqb_spec k k0); [contradiction|reflexivity].
Qed.
Lemma updl_same ls k0 : forall k, updl ls k0 (ls k0) k = ls k.
Proof. intros k. unfold updl. destruct (Nat.eqb_spec k k0) as [->|]; reflexivity. Qed.

Section LiftL.
Variables (kval : R -> R) (khgrad : R -> R -> R -> R).
Hypothesis regular_l : forall c z t l, 0 < l -> 0 < d2of c z l t ->
  is_derive (fun l => kval (d2of c z l t)) l (khgrad (d2of c z l t) (t - z) (l ^ 3)).
Hypothesis khgrad_zero_diff : forall d l, khgrad d 0 l = 0.

Lemma lift_line_l dim x z ls alpha i k0 : (k0 < dim)%nat -> 0 < ls k0 ->
  is_derive (fun l => alpha * kval (d2w dim x z (updl ls k0 l) i i)) (ls k0)
            (alpha * khgrad (d2w dim x z ls i i) (x i k0 - z i k0) (ls k0 ^ 3)).
Proof.
  intros Hk Hl.
  apply (is_derive_ext (fun l => alpha * kval (d2of (rest dim x z ls i k0) (z i k0) l (x i k0)))).
  { intros l. rewrite d2w_line_l by exact Hk. reflexivity. }
  rewrite (d2w_at dim x z ls i k0 Hk).
  set (c := rest dim x z ls i k0). pose proof (rest_nonneg dim x z ls i k0) as Hc. fold c in Hc.
  assert (Hd2 : 0 <= d2of c (z i k0) (ls k0) (x i k0)) by (unfold d2of; pose proof (pow2_ge_0 ((x i k0 - z i k0) / ls k0)); lra).
  destruct (Rle_lt_or_eq_dec _ _ Hd2) as [Hpos|Hzero].
  - exact (is_derive_scal (fun l => kval (d2of c (z i k0) l (x i k0))) (ls k0) alpha _ (regular_l _ _ _ _ Hl Hpos)).
  - (* coincident: the value does not depend on l *)
    unfold d2of in Hzero. pose proof (pow2_ge_0 ((x i k0 - z i k0) / ls k0)) as Hp.
    assert (Hc0 : c = 0) by lra.
    assert (Hq : ((x i k0 - z i k0) / ls k0) ^ 2 = 0) by lra.
    assert (Hx : x i k0 - z i k0 = 0).
    { assert (E : (x i k0 - z i k0) / ls k0 = 0) by (apply Rsqr_0_uniq; unfold Rsqr; simpl in Hq; lra).
      apply (Rmult_eq_compat_r (ls k0)) in E. unfold Rdiv in E. rewrite Rmult_assoc, Rinv_l, Rmult_1_r, Rmult_0_l in E by lra.
      exact E. }
    rewrite Hx, khgrad_zero_diff, Rmult_0_r.
    apply (is_derive_ext (fun _ : R => alpha * kval 0)).
    { intros l. unfold d2of. rewrite Hc0, Hx. f_equal. f_equal. unfold Rdiv. ring. }
    apply @is_derive_const.
Qed.
End LiftL.

Definition hgradSE (dim : nat) (d df lc : R) := SquareExponential.eval_radial_kernel_hparam_grad dim (K2 d) (K3 df) (K1 0) (K1 0) (K1 lc) 1 O O O.
Definition hgradC2 (dim : nat) (d df lc : R) := C2RadialMatern.eval_radial_kernel_hparam_grad dim (K2 d) (K3 df) (K1 0) (K1 0) (K1 lc) 1 O O O.
Definition hgradC4 (dim : nat) (d df lc : R) := C4RadialMatern.eval_radial_kernel_hparam_grad dim (K2 d) (K3 df) (K1 0) (K1 0) (K1 lc) 1 O O O.

Lemma SE_regular_l dim c z t l : 0 < l -> 0 < d2of c z l t ->
  is_derive (fun l => valSE (d2of c z l t)) l (hgradSE dim (d2of c z l t) (t - z) (l ^ 3)).
Proof. intros Hl _. apply (SE_grad_lengthscale dim c z t l). lra. Qed.
Lemma C2_regular_l dim c z t l : 0 < l -> 0 < d2of c z l t ->
  is_derive (fun l => valC2 (d2of c z l t)) l (hgradC2 dim (d2of c z l t) (t - z) (l ^ 3)).
Proof. exact (C2_grad_lengthscale dim c z t l). Qed.
Lemma C4_regular_l dim c z t l : 0 < l -> 0 < d2of c z l t ->
  is_derive (fun l => valC4 (d2of c z l t)) l (hgradC4 dim (d2of c z l t) (t - z) (l ^ 3)).
Proof. exact (C4_grad_lengthscale dim c z t l). Qed.
Lemma hgradSE_zero dim d l : hgradSE dim d 0 l = 0.
Proof. unfold hgradSE, SquareExponential.eval_radial_kernel_hparam_grad, K1, K2, K3. unfold Rdiv. ring. Qed.
Lemma hgradC2_zero dim d l : hgradC2 dim d 0 l = 0.
Proof. unfold hgradC2, C2RadialMatern.eval_radial_kernel_hparam_grad, K1, K2, K3. unfold Rdiv. ring. Qed.
Lemma hgradC4_zero dim d l : hgradC4 dim d 0 l = 0.
Proof. unfold hgradC4, C4RadialMatern.eval_radial_kernel_hparam_grad, K1, K2, K3. unfold Rdiv. ring. Qed.

(* column S k0 of hyperparameter_grad_covariance = d/d l_k0 ; column 0 = d/d alpha *)
Theorem SE_hparam_grad_is_derivative dim nh x z ls lsq lcu alpha i k0 :
  (k0 < dim)%nat -> 0 < ls k0 -> lcu k0 = ls k0 ^ 3 ->
  is_derive (fun l => SquareExponential.covariance dim x z (updl ls k0 l) lsq lcu alpha i) (ls k0)
            (SquareExponential.hyperparameter_grad_covariance dim nh x z ls lsq lcu alpha i (S k0)) /\
  is_derive (fun a => SquareExponential.covariance dim x z ls lsq lcu a i) alpha
            (SquareExponential.hyperparameter_grad_covariance dim nh x z ls lsq lcu alpha i O).
Proof.
  intros Hk Hl Hq. split.
  - apply (is_derive_ext (fun l => alpha * valSE (d2w dim x z (updl ls k0 l) i i))).
    { intros l. unfold valSE, SquareExponential.eval_radial_kernel, K2, SquareExponential.covariance.
      fold (d2w dim x z (updl ls k0 l) i i). rewrite sqrt_pow2 by apply d2w_nonneg. reflexivity. }
    replace (SquareExponential.hyperparameter_grad_covariance dim nh x z ls lsq lcu alpha i (S k0))
      with (alpha * hgradSE dim (d2w dim x z ls i i) (x i k0 - z i k0) (ls k0 ^ 3)).
    { exact (lift_line_l valSE (hgradSE dim) (SE_regular_l dim) (hgradSE_zero dim) dim x z ls alpha i k0 Hk Hl). }
    unfold hgradSE, SquareExponential.hyperparameter_grad_covariance, SquareExponential.eval_radial_kernel_hparam_grad, K1, K2, K3.
    cbn [Nat.eqb]. replace (S k0 - 1)%nat with k0 by lia.
    fold (d2w dim x z ls i i). rewrite sqrt_pow2 by apply d2w_nonneg. rewrite Hq. reflexivity.
  - unfold SquareExponential.covariance, SquareExponential.hyperparameter_grad_covariance. cbn [Nat.eqb].
    match goal with |- is_derive (fun a => a * ?E) _ _ => set (e := E) end. auto_derive; [exact I|ring].
Qed.

Theorem C2_hparam_grad_is_derivative dim nh x z ls lsq lcu alpha i k0 :
  (k0 < dim)%nat -> 0 < ls k0 -> lcu k0 = ls k0 ^ 3 ->
  is_derive (fun l => C2RadialMatern.covariance dim x z (updl ls k0 l) lsq lcu alpha i) (ls k0)
            (C2RadialMatern.hyperparameter_grad_covariance dim nh x z ls lsq lcu alpha i (S k0)) /\
  is_derive (fun a => C2RadialMatern.covariance dim x z ls lsq lcu a i) alpha
            (C2RadialMatern.hyperparameter_grad_covariance dim nh x z ls lsq lcu alpha i O).
Proof.
  intros Hk Hl Hq. split.
  - apply (is_derive_ext (fun l => alpha * valC2 (d2w dim x z (updl ls k0 l) i i))).
    { intros l. reflexivity. }
    replace (C2RadialMatern.hyperparameter_grad_covariance dim nh x z ls lsq lcu alpha i (S k0))
      with (alpha * hgradC2 dim (d2w dim x z ls i i) (x i k0 - z i k0) (ls k0 ^ 3)).
    { exact (lift_line_l valC2 (hgradC2 dim) (C2_regular_l dim) (hgradC2_zero dim) dim x z ls alpha i k0 Hk Hl). }
    unfold hgradC2, C2RadialMatern.hyperparameter_grad_covariance, C2RadialMatern.eval_radial_kernel_hparam_grad, K1, K2, K3.
    cbn [Nat.eqb]. replace (S k0 - 1)%nat with k0 by lia.
    fold (d2w dim x z ls i i). rewrite Hq. reflexivity.
  - unfold C2RadialMatern.covariance, C2RadialMatern.hyperparameter_grad_covariance. cbn [Nat.eqb].
    match goal with |- is_derive (fun a => a * ?E) _ _ => set (e := E) end. auto_derive; [exact I|ring].
Qed.

Theorem C4_hparam_grad_is_derivative dim nh x z ls lsq lcu alpha i k0 :
  (k0 < dim)%nat -> 0 < ls k0 -> lcu k0 = ls k0 ^ 3 ->
  is_derive (fun l => C4RadialMatern.covariance dim x z (updl ls k0 l) lsq lcu alpha i) (ls k0)
            (C4RadialMatern.hyperparameter_grad_covariance dim nh x z ls lsq lcu alpha i (S k0)) /\
  is_derive (fun a => C4RadialMatern.covariance dim x z ls lsq lcu a i) alpha
            (C4RadialMatern.hyperparameter_grad_covariance dim nh x z ls lsq lcu alpha i O).
Proof.
  intros Hk Hl Hq. split.
  - apply (is_derive_ext (fun l => alpha * valC4 (d2w dim x z (updl ls k0 l) i i))).
    { intros l. unfold valC4, C4RadialMatern.eval_radial_kernel, K2, C4RadialMatern.covariance.
      fold (d2w dim x z (updl ls k0 l) i i). rewrite sqrt_pow2 by apply d2w_nonneg. reflexivity. }
    replace (C4RadialMatern.hyperparameter_grad_covariance dim nh x z ls lsq lcu alpha i (S k0))
      with (alpha * hgradC4 dim (d2w dim x z ls i i) (x i k0 - z i k0) (ls k0 ^ 3)).
    { exact (lift_line_l valC4 (hgradC4 dim) (C4_regular_l dim) (hgradC4_zero dim) dim x z ls alpha i k0 Hk Hl). }
    unfold hgradC4, C4RadialMatern.hyperparameter_grad_covariance, C4RadialMatern.eval_radial_kernel_hparam_grad, K1, K2, K3.
    cbn [Nat.eqb]. replace (S k0 - 1)%nat with k0 by lia.
    fold (d2w dim x z ls i i). rewrite Hq. reflexivity.
  - unfold C4RadialMatern.covariance, C4RadialMatern.hyperparameter_grad_covariance. cbn [Nat.eqb].
    match goal with |- is_derive (fun a => a * ?E) _ _ => set (e := E) end. auto_derive; [exact I|ring].
Qed.
