(* Proofs for C07 about Model.Multistart. *)
From Coq Require Import List QArith Bool Arith Lia Lra.
From LV Require Import Model.Optim Model.Multistart Proofs.Optim.
Import ListNotations.
Open Scope Q_scope.

Section MSProofs.
  Variable acc : point -> bool.
  Variable run : nat -> point -> outcome.
  Variable gen : nat -> batch.

  Lemma ms_record_success p o fv : ms_record acc p o = (fv, true) -> acc (end_of p o) = true.
  Proof. unfold ms_record. destruct (acc (end_of p o)); [reflexivity | intro H; discriminate]. Qed.

  (* the returned point is an acceptable end point of a successful run, or one of the starting points (only the
     very first start can be taken, when its run failed) *)
  Lemma ms_loop_acceptable nm nsel (all : batch) : forall todo k st st',
    incl todo all ->
    (forall p, ms_best st = Some p -> acc p = true \/ In p all) ->
    ms_loop acc run nm nsel k todo st = Ok st' ->
    exists p, ms_best st' = Some p /\ (acc p = true \/ In p all).
  Proof.
    induction todo as [|p r IH]; intros k st st' Hin Hst Hl; simpl in Hl; [discriminate|].
    destruct (ms_record acc p (run k p)) as [fv sc] eqn:Er.
    assert (Hr : incl r all) by (intros q Hq; apply Hin; right; exact Hq).
    assert (Hp : In p all) by (apply Hin; left; reflexivity).
    destruct (is_none (ms_best st) || sc && gtv fv (ms_bestv st)) eqn:Etake.
    - destruct (is_none (ms_best st) && negb sc) eqn:Efirst.
      + match type of Hl with (if ?c then _ else _) = _ => destruct c end.
        * injection Hl as <-. cbn [ms_best]. eexists. split; [reflexivity | right; exact Hp].
        * apply (IH _ _ _ Hr) in Hl; [exact Hl|]. cbn [ms_best]. intros q Hq. injection Hq as <-. right. exact Hp.
      + assert (Hsc : sc = true).
        { destruct sc; [reflexivity|]. simpl in Efirst, Etake. rewrite orb_false_r in Etake. rewrite andb_true_r in Efirst. congruence. }
        subst sc. pose proof (ms_record_success _ _ _ Er) as Hacc.
        match type of Hl with (if ?c then _ else _) = _ => destruct c end.
        * injection Hl as <-. cbn [ms_best]. eexists. split; [reflexivity | left; exact Hacc].
        * apply (IH _ _ _ Hr) in Hl; [exact Hl|]. cbn [ms_best]. intros q Hq. injection Hq as <-. left. exact Hacc.
    - assert (Hb : exists q, ms_best st = Some q).
      { destruct (ms_best st); [eauto | discriminate]. }
      destruct Hb as (q & Eq).
      match type of Hl with (if ?c then _ else _) = _ => destruct c end.
      * injection Hl as <-. cbn [ms_best]. exists q. split; [exact Eq | apply Hst; exact Eq].
      * apply (IH _ _ _ Hr) in Hl; [exact Hl|]. cbn [ms_best]. exact Hst.
  Qed.

  Theorem ms_optimize_acceptable nm selected st :
    ms_optimize acc run gen nm selected = Ok st ->
    exists p, ms_best st = Some p /\
      (acc p = true \/ In p (match selected with Some s => s | None => [] end) \/ exists k, In p (gen k)).
  Proof.
    unfold ms_optimize. intro H.
    set (sel := match selected with Some s => s | None => [] end) in *.
    set (initial := if (nm <=? length sel)%nat then sel else sel ++ gen (nm - length sel)) in *.
    assert (Hl : ms_loop acc run nm (length sel) 0 (initial ++ gen NUM_BACKUP) ms_init = Ok st).
    { destruct selected; [exact H|]. destruct (nm <? 1)%nat; [discriminate | exact H]. }
    apply (ms_loop_acceptable nm (length sel) (initial ++ gen NUM_BACKUP)) in Hl;
      [|apply incl_refl | intros p Hp; discriminate].
    destruct Hl as (p & Ep & [Hp | Hp]); exists p; (split; [exact Ep|]); [left; exact Hp | right].
    apply in_app_or in Hp. destruct Hp as [Hp | Hp]; [|right; eauto].
    unfold initial in Hp. destruct (nm <=? length sel)%nat; [left; exact Hp|].
    apply in_app_or in Hp. destruct Hp; [left; assumption | right; eauto].
  Qed.

  (* ---------------------------------------------------------------------------------------------------------------
     The full multistart clause: the reported lists are the per-start outcomes and the result is the first successful
     end point of maximal value.  Specification side (no reference to the loop): *)

  (* what the code records for one run: start, end point, function value (None = NaN), success *)
  Record ms_row := mkrow { r_start : point; r_end : point; r_val : option Q; r_succ : bool }.
  Definition ms_row_of (k : nat) (p : point) : ms_row :=
    let o := run k p in mkrow p (end_of p o) (fst (ms_record acc p o)) (snd (ms_record acc p o)).
  (* the rows of the runs number k, k+1, ... started at the given points *)
  Fixpoint ms_rows (k : nat) (ps : batch) : list ms_row :=
    match ps with [] => [] | p :: r => ms_row_of k p :: ms_rows (S k) r end.

  (* a run counts when it is recorded as successful (so its end point is acceptable) with a real value *)
  Definition good_row (r : ms_row) : Prop := r_succ r = true /\ exists v, r_val r = Some v.
  (* e is the end point and v the value of the FIRST row that counts and has maximal value among the rows that count *)
  Definition first_max_success (rows : list ms_row) (e : point) (v : Q) : Prop :=
    exists pre r post, rows = pre ++ r :: post /\ r_succ r = true /\ r_val r = Some v /\ r_end r = e /\
      (forall r' w, In r' pre -> r_succ r' = true -> r_val r' = Some w -> w < v) /\
      (forall r' w, In r' post -> r_succ r' = true -> r_val r' = Some w -> w <= v).
  Definition no_good_row (rows : list ms_row) : Prop := forall r, In r rows -> r_succ r = true -> r_val r = None.

  Lemma first_max_success_all_le rows e v : first_max_success rows e v ->
    forall r' w, In r' rows -> r_succ r' = true -> r_val r' = Some w -> w <= v.
  Proof.
    intros (pre & r & post & -> & Hs & Hv & _ & Hpre & Hpost) r' w Hin Hs' Hw.
    apply in_app_or in Hin. destruct Hin as [Hin | [<- | Hin]].
    - apply Qlt_le_weak. eapply Hpre; eauto.
    - rewrite Hv in Hw. injection Hw as <-. apply Qle_refl.
    - eapply Hpost; eauto.
  Qed.

  Lemma first_max_success_good rows e v : first_max_success rows e v -> exists r, In r rows /\ good_row r.
  Proof.
    intros (pre & r & post & -> & Hs & Hv & _). exists r. split; [apply in_or_app; right; left; reflexivity|].
    split; [exact Hs | eauto].
  Qed.

  Lemma ms_row_of_acceptable k p : r_succ (ms_row_of k p) = true -> acc (r_end (ms_row_of k p)) = true.
  Proof.
    unfold ms_row_of. cbn [r_succ r_end]. destruct (ms_record acc p (run k p)) as [fv sc] eqn:E. cbn [snd].
    intros ->. exact (ms_record_success _ _ _ E).
  Qed.

  Lemma ms_rows_acceptable ps : forall k r, In r (ms_rows k ps) -> r_succ r = true -> acc (r_end r) = true.
  Proof.
    induction ps as [|p ps IH]; intros k r Hin Hs; simpl in Hin; [contradiction|].
    destruct Hin as [<- | Hin]; [apply ms_row_of_acceptable; exact Hs | eapply IH; eauto].
  Qed.

  Lemma ms_rows_app ps qs : forall k, ms_rows k (ps ++ qs) = ms_rows k ps ++ ms_rows (k + length ps) qs.
  Proof.
    induction ps as [|p ps IH]; intro k; simpl; [rewrite Nat.add_0_r; reflexivity|].
    rewrite IH. rewrite <- plus_n_Sm. reflexivity.
  Qed.

  Lemma ms_rows_length ps : forall k, length (ms_rows k ps) = length ps.
  Proof. induction ps as [|p ps IH]; intro k; simpl; [reflexivity | rewrite IH; reflexivity]. Qed.

  Lemma ms_rows_starts ps : forall k, map r_start (ms_rows k ps) = ps.
  Proof. induction ps as [|p ps IH]; intro k; simpl; [reflexivity | rewrite IH; reflexivity]. Qed.

  (* the loop invariant: `done` are the rows of the runs made so far *)
  Definition ms_inv (done : list ms_row) (st : ms_state) : Prop :=
    ms_starts st = map r_start done /\ ms_ends st = map r_end done /\
    ms_vals st = map r_val done /\ ms_succ st = map r_succ done /\
    match done with
    | [] => ms_best st = None /\ ms_bestv st = None
    | r1 :: _ =>
        match ms_bestv st with
        | Some v => exists e, ms_best st = Some e /\ first_max_success done e v
        | None => no_good_row done /\ ms_best st = Some (if r_succ r1 then r_end r1 else r_start r1)
        end
    end.

  Lemma ms_inv_init : ms_inv [] ms_init.
  Proof. repeat split. Qed.

  (* one pass through the loop body *)
  Definition ms_body (k : nat) (p : point) (st : ms_state) : ms_state :=
    let o := run k p in
    let '(fv, sc) := ms_record acc p o in
    let st1 := mkms (ms_best st) (ms_bestv st) (ms_starts st ++ [p]) (ms_ends st ++ [end_of p o])
                    (ms_vals st ++ [fv]) (ms_succ st ++ [sc]) in
    let take := is_none (ms_best st) || (sc && gtv fv (ms_bestv st)) in
    if take then
      if is_none (ms_best st) && negb sc
      then mkms (Some p) (ms_bestv st1) (ms_starts st1) (ms_ends st1) (ms_vals st1) (ms_succ st1)
      else mkms (Some (end_of p o)) (match fv with None => ms_bestv st | Some f => Some f end)
                (ms_starts st1) (ms_ends st1) (ms_vals st1) (ms_succ st1)
    else st1.

  Lemma ms_loop_unfold nm nsel k p r st :
    ms_loop acc run nm nsel k (p :: r) st =
    let st2 := ms_body k p st in
    if (if Nat.eqb nm 0 then Nat.eqb (length (ms_vals st2)) nsel else (nm <=? length (ms_vals st2))%nat)
    then Ok st2 else ms_loop acc run nm nsel (S k) r st2.
  Proof. unfold ms_body. cbn [ms_loop]. destruct (ms_record acc p (run k p)) as [fv sc]. reflexivity. Qed.

  Lemma ms_body_inv done st k p : ms_inv done st -> ms_inv (done ++ [ms_row_of k p]) (ms_body k p st).
  Proof.
    intros (Hst & Hen & Hva & Hsu & Hbest).
    unfold ms_body, ms_row_of. destruct (ms_record acc p (run k p)) as [fv sc] eqn:Er. cbn [fst snd].
    set (row := mkrow p (end_of p (run k p)) fv sc).
    assert (Hlists : forall b bv, 
              match done ++ [row] with
              | [] => b = None /\ bv = None
              | r1 :: _ => match bv with
                           | Some v => exists e, b = Some e /\ first_max_success (done ++ [row]) e v
                           | None => no_good_row (done ++ [row]) /\ b = Some (if r_succ r1 then r_end r1 else r_start r1)
                           end
              end ->
              ms_inv (done ++ [row])
              (mkms b bv (ms_starts st ++ [p]) (ms_ends st ++ [end_of p (run k p)]) (ms_vals st ++ [fv]) (ms_succ st ++ [sc]))).
    { intros b bv. unfold ms_inv. cbn [ms_starts ms_ends ms_vals ms_succ ms_best ms_bestv].
      rewrite !map_app, Hst, Hen, Hva, Hsu. cbn [map r_start r_end r_val r_succ row]. tauto. }
    clear Hst Hen Hva Hsu.
    remember (ms_best st) as b0 eqn:Eb0. remember (ms_bestv st) as bv0 eqn:Ebv0. clear Eb0 Ebv0.
    destruct done as [|r1 done'].
    - (* first run *)
      destruct Hbest as (-> & ->). cbn [is_none orb andb].
      destruct sc; cbn [negb].
      + apply Hlists. cbn [app]. destruct fv as [f|].
        * exists (end_of p (run k p)). split; [reflexivity|].
          exists [], row, []. repeat split; try reflexivity; intros r' w [].
        * split; [|reflexivity]. intros r [<- | []] _. reflexivity.
      + apply Hlists. cbn [app]. split; [|reflexivity]. intros r [<- | []] Hs. discriminate.
    - (* later runs: there is an incumbent *)
      assert (Hkeep : forall e v, first_max_success (r1 :: done') e v ->
                (forall w, sc = true -> fv = Some w -> w <= v) -> first_max_success ((r1 :: done') ++ [row]) e v).
      { intros e v (pre & r & post & E & Hs & Hv & He & Hpre & Hpost) Hrow.
        exists pre, r, (post ++ [row]). split; [rewrite E, <- app_assoc; reflexivity|].
        repeat split; try assumption.
        intros r' w Hin Hs' Hw. apply in_app_or in Hin. destruct Hin as [Hin | [<- | []]]; [eapply Hpost; eauto|].
        apply Hrow; assumption. }
      assert (Hnone : no_good_row (r1 :: done') -> (sc = true -> fv = None) -> no_good_row ((r1 :: done') ++ [row])).
      { intros Hno Hrow r Hin Hs. apply in_app_or in Hin. destruct Hin as [Hin | [<- | []]]; [apply Hno; assumption|].
        apply Hrow. exact Hs. }
      change (r1 :: done' ++ [row]) with ((r1 :: done') ++ [row]) in Hlists.
      destruct bv0 as [v|].
      + destruct Hbest as (e & -> & Hfm). cbn [is_none orb andb].
        destruct sc; cbn [andb].
        * destruct fv as [f|]; cbn [gtv].
          -- destruct (Qltb v f) eqn:Elt.
             ++ apply Qltb_true in Elt. apply Hlists. cbn [app].
                exists (end_of p (run k p)). split; [reflexivity|].
                exists (r1 :: done'), row, []. repeat split; try reflexivity.
                ** intros r' w Hin Hs Hw.
                   apply (Qle_lt_trans _ v); [exact (first_max_success_all_le _ _ _ Hfm r' w Hin Hs Hw) | exact Elt].
                ** intros r' w [].
             ++ apply Qltb_false in Elt. apply Hlists. cbn [app]. exists e. split; [reflexivity|].
                apply Hkeep; [exact Hfm|]. intros w _ Hw. injection Hw as <-. exact Elt.
          -- apply Hlists. cbn [app]. exists e. split; [reflexivity|].
             apply Hkeep; [exact Hfm|]. intros w _ Hw. discriminate.
        * apply Hlists. cbn [app]. exists e. split; [reflexivity|].
          apply Hkeep; [exact Hfm|]. intros w Hw. discriminate.
      + destruct Hbest as (Hno & ->). cbn [is_none orb andb].
        destruct sc; cbn [andb].
        * destruct fv as [f|]; cbn [gtv].
          -- apply Hlists. cbn [app]. exists (end_of p (run k p)). split; [reflexivity|].
             exists (r1 :: done'), row, []. repeat split; try reflexivity.
             ++ intros r' w Hin Hs Hw. rewrite (Hno r' Hin Hs) in Hw. discriminate.
             ++ intros r' w [].
          -- apply Hlists. cbn [app]. split; [|reflexivity]. apply Hnone; [exact Hno | reflexivity].
        * apply Hlists. cbn [app]. split; [|reflexivity]. apply Hnone; [exact Hno | discriminate].
  Qed.

  (* the stopping test of the loop after n recorded runs *)
  Definition ms_stop (nm nsel n : nat) : bool := if Nat.eqb nm 0 then Nat.eqb n nsel else (nm <=? n)%nat.

  Lemma ms_loop_spec nm nsel : forall todo k st st' done,
    ms_inv done st -> ms_loop acc run nm nsel k todo st = Ok st' ->
    exists ran rest, todo = ran ++ rest /\ ran <> [] /\ ms_inv (done ++ ms_rows k ran) st' /\
      ms_stop nm nsel (length done + length ran) = true /\
      (forall m, (1 <= m < length ran)%nat -> ms_stop nm nsel (length done + m) = false).
  Proof.
    induction todo as [|p r IH]; intros k st st' done Hinv Hl; [discriminate|].
    rewrite ms_loop_unfold in Hl. cbv zeta in Hl.
    pose proof (ms_body_inv done st k p Hinv) as Hinv2.
    assert (Hlen : length (ms_vals (ms_body k p st)) = (length done + 1)%nat).
    { destruct Hinv2 as (_ & _ & -> & _). rewrite map_length, app_length. reflexivity. }
    rewrite Hlen in Hl. fold (ms_stop nm nsel (length done + 1)) in Hl.
    destruct (ms_stop nm nsel (length done + 1)) eqn:Estop.
    - injection Hl as <-. exists [p], r. split; [reflexivity|]. split; [discriminate|].
      split; [exact Hinv2|]. split; [exact Estop|]. cbn [length]. intros m Hm. lia.
    - destruct (IH _ _ _ _ Hinv2 Hl) as (ran & rest & -> & Hne & Hinv' & Hs & Hm).
      exists (p :: ran), rest. split; [reflexivity|]. split; [discriminate|].
      rewrite app_length in Hs, Hm. cbn [length] in *. split; [|split].
      + cbn [ms_rows]. rewrite <- app_assoc in Hinv'. exact Hinv'.
      + replace (length done + S (length ran))%nat with (length done + 1 + length ran)%nat by lia. exact Hs.
      + intros m Hr. destruct (Nat.eq_dec m 1) as [-> | Hn1]; [exact Estop|].
        replace (length done + m)%nat with (length done + 1 + (m - 1))%nat by lia. apply Hm. lia.
  Qed.

  (* the starts the loop walks through *)
  Definition ms_all_starts (nm : nat) (selected : option batch) : batch :=
    let sel := match selected with None => [] | Some s => s end in
    (if (nm <=? length sel)%nat then sel else sel ++ gen (nm - length sel)) ++ gen NUM_BACKUP.
  Definition ms_num_runs (nm : nat) (selected : option batch) : nat :=
    if Nat.eqb nm 0 then length (match selected with None => [] | Some s => s end) else nm.

  (* MultistartOptimizer.optimize, whenever it returns: *)
  Theorem ms_optimize_best_successful nm selected st :
    ms_optimize acc run gen nm selected = Ok st ->
    exists p1 ran' rest,
      (* the starts that were run are the first num_runs of all_starts; there is at least one *)
      ms_all_starts nm selected = (p1 :: ran') ++ rest /\ length (p1 :: ran') = ms_num_runs nm selected /\
      let rows := ms_rows 0 (p1 :: ran') in
      let row1 := ms_row_of 0 p1 in
      (* (a) the reported lists are the rows of these runs, in order *)
      ms_starts st = p1 :: ran' /\ ms_ends st = map r_end rows /\ ms_vals st = map r_val rows /\ ms_succ st = map r_succ rows /\
      (* (b) some run counts: first successful end point of maximal value, with that value; it is acceptable *)
      ((exists r, In r rows /\ good_row r) ->
         exists e v, ms_best st = Some e /\ ms_bestv st = Some v /\ first_max_success rows e v /\ acc e = true) /\
      (* (c) no run counts: the first start -- unless the first run is recorded as successful (with a NaN value), then
         its acceptable end point *)
      (no_good_row rows ->
         ms_bestv st = None /\
         ms_best st = Some (if r_succ row1 then r_end row1 else p1) /\
         (r_succ row1 = true -> acc (r_end row1) = true) /\
         ((forall r, In r rows -> r_succ r = false) -> ms_best st = Some p1)).
  Proof.
    unfold ms_optimize. intro H.
    fold (ms_all_starts nm selected) in H.
    set (sel := match selected with Some s => s | None => [] end) in *.
    assert (Hl : ms_loop acc run nm (length sel) 0 (ms_all_starts nm selected) ms_init = Ok st).
    { unfold ms_all_starts. fold sel. destruct selected; [exact H|]. destruct (nm <? 1)%nat; [discriminate | exact H]. }
    clear H. destruct (ms_loop_spec _ _ _ _ _ _ _ ms_inv_init Hl) as (ran & rest & Eall & Hne & Hinv & Hstop & Hbefore).
    cbn [app length Nat.add] in Hinv, Hstop, Hbefore.
    destruct ran as [|p1 ran']; [congruence|]. clear Hne.
    exists p1, ran', rest.
    split; [exact Eall|].
    split.
    { unfold ms_num_runs. fold sel. unfold ms_stop in Hstop, Hbefore. destruct (Nat.eqb nm 0) eqn:E0.
      - apply Nat.eqb_eq in Hstop. exact Hstop.
      - apply Nat.eqb_neq in E0. apply Nat.leb_le in Hstop. cbn [length] in *.
        destruct (Nat.eq_dec nm (S (length ran'))) as [E | Hn]; [symmetry; exact E|].
        specialize (Hbefore (length ran')). assert (Hr : (1 <= length ran' < S (length ran'))%nat) by lia.
        apply Hbefore in Hr. apply Nat.leb_gt in Hr. lia. }
    cbv zeta.
    destruct Hinv as (Hst & Hen & Hva & Hsu & Hbest).
    split; [rewrite Hst; apply ms_rows_starts|]. split; [exact Hen|]. split; [exact Hva|]. split; [exact Hsu|].
    cbn [ms_rows] in Hbest |- *. destruct (ms_bestv st) as [v|] eqn:Ebv.
    - destruct Hbest as (e & Hb & Hfm). split.
      + intros _. exists e, v. repeat split; try assumption.
        destruct Hfm as (pre & r & post & E & Hs & _ & <- & _).
        apply (ms_rows_acceptable (p1 :: ran') 0%nat); [|exact Hs].
        cbn [ms_rows]. rewrite E. apply in_or_app. right. left. reflexivity.
      + intro Hno. exfalso. destruct (first_max_success_good _ _ _ Hfm) as (r & Hin & Hs & w & Hw).
        rewrite (Hno r Hin Hs) in Hw. discriminate.
    - destruct Hbest as (Hno & Hb). split.
      + intros (r & Hin & Hs & w & Hw). exfalso. rewrite (Hno r Hin Hs) in Hw. discriminate.
      + intros _. split; [reflexivity|]. split; [exact Hb|]. split; [apply ms_row_of_acceptable|].
        intro Hall. rewrite Hb. rewrite (Hall (ms_row_of 0 p1) (or_introl eq_refl)). reflexivity.
  Qed.

  (* every row either counts or not, so (b) and (c) cover all returns *)
  Lemma good_row_dec rows : (exists r, In r rows /\ good_row r) \/ no_good_row rows.
  Proof.
    induction rows as [|r rows IH]; [right; intros r []|].
    destruct IH as [(r' & Hin & Hg) | Hno]; [left; exists r'; split; [right; exact Hin | exact Hg]|].
    destruct (r_succ r) eqn:Es.
    - destruct (r_val r) as [v|] eqn:Ev.
      + left. exists r. split; [left; reflexivity | split; eauto].
      + right. intros r' [<- | Hin] Hs; [exact Ev | apply Hno; assumption].
    - right. intros r' [<- | Hin] Hs; [congruence | apply Hno; assumption].
  Qed.
End MSProofs.

(* the loop stops after exactly max(num_multistarts, len(selected_starts))-many runs when num_multistarts = 0 (selected
   starts only) resp. num_multistarts runs otherwise, whatever the outcomes are: no RuntimeError while starts remain.
   (Before the repair of the `continue` branch this failed for num_multistarts = 0 with one failing start.) *)
Section MSStops.
  Variable acc : point -> bool.
  Variable run : nat -> point -> outcome.

  Lemma ms_loop_stops nm nsel : forall todo k st,
    (length (ms_vals st) < (if Nat.eqb nm 0 then nsel else nm))%nat ->
    ((if Nat.eqb nm 0 then nsel else nm) <= length (ms_vals st) + length todo)%nat ->
    exists st', ms_loop acc run nm nsel k todo st = Ok st' /\ length (ms_vals st') = (if Nat.eqb nm 0 then nsel else nm).
  Proof.
    induction todo as [|p r IH]; intros k st Hlt Hge; simpl in Hge; [lia|].
    assert (Hstep : forall st2, length (ms_vals st2) = S (length (ms_vals st)) ->
      exists st', (if (if Nat.eqb nm 0 then Nat.eqb (length (ms_vals st2)) nsel else (nm <=? length (ms_vals st2))%nat)
                   then Ok st2 else ms_loop acc run nm nsel (S k) r st2) = Ok st' /\
                  length (ms_vals st') = (if Nat.eqb nm 0 then nsel else nm)).
    { intros st2 Hn. rewrite Hn. destruct (Nat.eqb nm 0) eqn:E0.
      - destruct (Nat.eqb (S (length (ms_vals st))) nsel) eqn:E1.
        + exists st2. split; [reflexivity|]. apply Nat.eqb_eq in E1. lia.
        + apply Nat.eqb_neq in E1. apply IH; lia.
      - destruct (nm <=? S (length (ms_vals st)))%nat eqn:E1.
        + exists st2. split; [reflexivity|]. apply Nat.leb_le in E1. lia.
        + apply Nat.leb_gt in E1. apply IH; lia. }
    simpl. destruct (ms_record acc p (run k p)) as [fv sc].
    destruct (is_none (ms_best st) || sc && gtv fv (ms_bestv st));
      [destruct (is_none (ms_best st) && negb sc)|]; apply Hstep; cbn [ms_vals]; rewrite app_length; simpl; lia.
  Qed.
End MSStops.

(* the corner repaired in /repo (num_multistarts = 0, one selected start whose run fails) now returns that start *)
Lemma ms_single_failing_start_returns :
  exists st, ms_optimize (fun _ => true) (fun _ p => mkoc false false p None) (fun k => repeat [0] k) 0 (Some [[0]]) = Ok st
             /\ ms_best st = Some [0] /\ ms_vals st = [None].
Proof. eexists. vm_compute. repeat split. Qed.

(* The literal reading of the fall-back clause ("no successful in-domain run with a real value => the first starting point
   is returned") is FALSE for the code: a first run that reports success with a NaN value (and an acceptable end point)
   makes its end point the result.  One start [0], the run ends at [1] with success = True and fun = NaN: the loop
   returns [1].  (Replayed on MultistartOptimizer in /repo: best_point = [1.], function_values = [nan].) *)
Lemma ms_first_start_fallback_refuted :
  exists acc run gen nm selected st p1,
    ms_optimize acc run gen nm selected = Ok st /\ ms_starts st = [p1] /\
    no_good_row (ms_rows acc run 0 [p1]) /\ ms_best st <> Some p1.
Proof.
  exists (fun _ => true), (fun _ _ => mkoc false true [1] None), (fun k => repeat [2] k), 1%nat, (Some [[0]]).
  eexists. exists [0]. split; [vm_compute; reflexivity|]. split; [reflexivity|]. split.
  - intros r [<- | []] _. reflexivity.
  - vm_compute. intro H. discriminate.
Qed.

(* a run with several starts: the second run raises (its start is recorded as end point, NaN), the fourth ends outside the
   domain [0,4] (NaN, its huge value is ignored), the third and fifth tie for the best value 5: the third is kept *)
Definition ms_example_acc (p : point) : bool := Qle_bool 0 (nth 0 p 0) && Qle_bool (nth 0 p 0) 4.
Definition ms_example_run (k : nat) (_ : point) : outcome :=
  nth k [mkoc false true [1] (Some 3); mkoc true false [0] None; mkoc false true [3] (Some 5);
         mkoc false true [9] (Some 100); mkoc false true [2] (Some 5)] (mkoc false false [] None).
Lemma ms_example_run_result :
  exists st, ms_optimize ms_example_acc ms_example_run (fun k => repeat [2] k) 5 (Some [[0]; [1]]) = Ok st /\
    ms_best st = Some [3] /\ ms_bestv st = Some 5 /\
    ms_starts st = [[0]; [1]; [2]; [2]; [2]] /\ ms_ends st = [[1]; [1]; [3]; [9]; [2]] /\
    ms_vals st = [Some 3; None; Some 5; None; Some 5] /\ ms_succ st = [true; false; true; false; true] /\
    first_max_success (ms_rows ms_example_acc ms_example_run 0 (ms_starts st)) [3] 5.
Proof.
  eexists. split; [vm_compute; reflexivity|]. cbn [ms_best ms_bestv ms_starts ms_ends ms_vals ms_succ].
  repeat (split; [reflexivity|]).
  exists [ms_row_of ms_example_acc ms_example_run 0 [0]; ms_row_of ms_example_acc ms_example_run 1 [1]],
         (ms_row_of ms_example_acc ms_example_run 2 [2]),
         [ms_row_of ms_example_acc ms_example_run 3 [2]; ms_row_of ms_example_acc ms_example_run 4 [2]].
  split; [reflexivity|]. split; [reflexivity|]. split; [reflexivity|]. split; [reflexivity|]. split.
  - intros r' w [<- | [<- | []]] Hs Hw; vm_compute in Hs, Hw; try discriminate. injection Hw as <-. reflexivity.
  - intros r' w [<- | [<- | []]] Hs Hw; vm_compute in Hs, Hw; try discriminate. injection Hw as <-. discriminate.
Qed.
