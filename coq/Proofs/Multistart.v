(* Proofs for C07 about Model.Multistart. *)
From Coq Require Import List QArith Bool Arith Lia.
From LV Require Import Model.Optim Model.Multistart.
Import ListNotations.
Open Scope Q_scope.

Section MSProofs.
  Variable acc : point -> bool.
  Variable run : nat -> point -> outcome.
  Variable gen : nat -> batch.

  Lemma ms_record_success p o fv : ms_record acc p o = (fv, true) -> acc (end_of p o) = true.
  Proof. unfold ms_record. destruct (acc (end_of p o)); [reflexivity | intro H; discriminate]. Qed.

  (* the returned point is an acceptable end point of a successful run, or one of the starting points (only the
     very first start can be taken, when its run failed) *)
  Lemma ms_loop_acceptable nm nsel (all : batch) : forall todo k st st',
    incl todo all ->
    (forall p, ms_best st = Some p -> acc p = true \/ In p all) ->
    ms_loop acc run nm nsel k todo st = Ok st' ->
    exists p, ms_best st' = Some p /\ (acc p = true \/ In p all).
  Proof.
    induction todo as [|p r IH]; intros k st st' Hin Hst Hl; simpl in Hl; [discriminate|].
    destruct (ms_record acc p (run k p)) as [fv sc] eqn:Er.
    assert (Hr : incl r all) by (intros q Hq; apply Hin; right; exact Hq).
    assert (Hp : In p all) by (apply Hin; left; reflexivity).
    destruct (is_none (ms_best st) || sc && gtv fv (ms_bestv st)) eqn:Etake.
    - destruct (is_none (ms_best st) && negb sc) eqn:Efirst.
      + match type of Hl with (if ?c then _ else _) = _ => destruct c end.
        * injection Hl as <-. cbn [ms_best]. eexists. split; [reflexivity | right; exact Hp].
        * apply (IH _ _ _ Hr) in Hl; [exact Hl|]. cbn [ms_best]. intros q Hq. injection Hq as <-. right. exact Hp.
      + assert (Hsc : sc = true).
        { destruct sc; [reflexivity|]. simpl in Efirst, Etake. rewrite orb_false_r in Etake. rewrite andb_true_r in Efirst. congruence. }
        subst sc. pose proof (ms_record_success _ _ _ Er) as Hacc.
        match type of Hl with (if ?c then _ else _) = _ => destruct c end.
        * injection Hl as <-. cbn [ms_best]. eexists. split; [reflexivity | left; exact Hacc].
        * apply (IH _ _ _ Hr) in Hl; [exact Hl|]. cbn [ms_best]. intros q Hq. injection Hq as <-. left. exact Hacc.
    - assert (Hb : exists q, ms_best st = Some q).
      { destruct (ms_best st); [eauto | discriminate]. }
      destruct Hb as (q & Eq).
      match type of Hl with (if ?c then _ else _) = _ => destruct c end.
      * injection Hl as <-. cbn [ms_best]. exists q. split; [exact Eq | apply Hst; exact Eq].
      * apply (IH _ _ _ Hr) in Hl; [exact Hl|]. cbn [ms_best]. exact Hst.
  Qed.

  Theorem ms_optimize_acceptable nm selected st :
    ms_optimize acc run gen nm selected = Ok st ->
    exists p, ms_best st = Some p /\
      (acc p = true \/ In p (match selected with Some s => s | None => [] end) \/ exists k, In p (gen k)).
  Proof.
    unfold ms_optimize. intro H.
    set (sel := match selected with Some s => s | None => [] end) in *.
    set (initial := if (nm <=? length sel)%nat then sel else sel ++ gen (nm - length sel)) in *.
    assert (Hl : ms_loop acc run nm (length sel) 0 (initial ++ gen NUM_BACKUP) ms_init = Ok st).
    { destruct selected; [exact H|]. destruct (nm <? 1)%nat; [discriminate | exact H]. }
    apply (ms_loop_acceptable nm (length sel) (initial ++ gen NUM_BACKUP)) in Hl;
      [|apply incl_refl | intros p Hp; discriminate].
    destruct Hl as (p & Ep & [Hp | Hp]); exists p; (split; [exact Ep|]); [left; exact Hp | right].
    apply in_app_or in Hp. destruct Hp as [Hp | Hp]; [|right; eauto].
    unfold initial in Hp. destruct (nm <=? length sel)%nat; [left; exact Hp|].
    apply in_app_or in Hp. destruct Hp; [left; assumption | right; eauto].
  Qed.
End MSProofs.

(* the loop stops after exactly max(num_multistarts, len(selected_starts))-many runs when num_multistarts = 0 (selected
   starts only) resp. num_multistarts runs otherwise, whatever the outcomes are: no RuntimeError while starts remain.
   (Before the repair of the `continue` branch this failed for num_multistarts = 0 with one failing start.) *)
Section MSStops.
  Variable acc : point -> bool.
  Variable run : nat -> point -> outcome.

  Lemma ms_loop_stops nm nsel : forall todo k st,
    (length (ms_vals st) < (if Nat.eqb nm 0 then nsel else nm))%nat ->
    ((if Nat.eqb nm 0 then nsel else nm) <= length (ms_vals st) + length todo)%nat ->
    exists st', ms_loop acc run nm nsel k todo st = Ok st' /\ length (ms_vals st') = (if Nat.eqb nm 0 then nsel else nm).
  Proof.
    induction todo as [|p r IH]; intros k st Hlt Hge; simpl in Hge; [lia|].
    assert (Hstep : forall st2, length (ms_vals st2) = S (length (ms_vals st)) ->
      exists st', (if (if Nat.eqb nm 0 then Nat.eqb (length (ms_vals st2)) nsel else (nm <=? length (ms_vals st2))%nat)
                   then Ok st2 else ms_loop acc run nm nsel (S k) r st2) = Ok st' /\
                  length (ms_vals st') = (if Nat.eqb nm 0 then nsel else nm)).
    { intros st2 Hn. rewrite Hn. destruct (Nat.eqb nm 0) eqn:E0.
      - destruct (Nat.eqb (S (length (ms_vals st))) nsel) eqn:E1.
        + exists st2. split; [reflexivity|]. apply Nat.eqb_eq in E1. lia.
        + apply Nat.eqb_neq in E1. apply IH; lia.
      - destruct (nm <=? S (length (ms_vals st)))%nat eqn:E1.
        + exists st2. split; [reflexivity|]. apply Nat.leb_le in E1. lia.
        + apply Nat.leb_gt in E1. apply IH; lia. }
    simpl. destruct (ms_record acc p (run k p)) as [fv sc].
    destruct (is_none (ms_best st) || sc && gtv fv (ms_bestv st));
      [destruct (is_none (ms_best st) && negb sc)|]; apply Hstep; cbn [ms_vals]; rewrite app_length; simpl; lia.
  Qed.
End MSStops.

(* the corner repaired in /repo (num_multistarts = 0, one selected start whose run fails) now returns that start *)
Lemma ms_single_failing_start_returns :
  exists st, ms_optimize (fun _ => true) (fun _ p => mkoc false false p None) (fun k => repeat [0] k) 0 (Some [[0]]) = Ok st
             /\ ms_best st = Some [0] /\ ms_vals st = [None].
Proof. eexists. vm_compute. repeat split. Qed.
