(* C13: the incremental dominance filter is exact; epsilon thresholds; minimum-success repair. *)
From Coq Require Import List QArith Bool Arith Lia Lra Psatz.
From LV Require Import Model.Pareto.
Import ListNotations.
Open Scope Q_scope.

(* ------------------------------------------------------------------ dominance *)
(* c dominates v (maximisation): v <= c in every metric and v < c in at least one *)
Definition Dominates (c v : row) : Prop :=
  (forall m, (m < length v)%nat -> nth m v 0 <= nth m c 0) /\
  (exists m, (m < length v)%nat /\ nth m v 0 < nth m c 0).

Lemma Qltb_lt x y : Qltb x y = true <-> x < y.
Proof.
  unfold Qltb. rewrite negb_true_iff. split.
  - intros H. destruct (Qlt_le_dec x y) as [L|L]; [exact L|]. apply Qle_bool_iff in L. congruence.
  - intros H. destruct (Qle_bool y x) eqn:E; [|reflexivity]. apply Qle_bool_iff in E. exfalso. apply (Qlt_not_le _ _ H E).
Qed.
Lemma Qltb_ge x y : Qltb x y = false <-> y <= x.
Proof. unfold Qltb. rewrite negb_false_iff. apply Qle_bool_iff. Qed.

Lemma all2_spec f : forall v c, length v = length c ->
  (all2 f v c = true <-> forall m, (m < length v)%nat -> f (nth m v 0) (nth m c 0) = true).
Proof.
  induction v as [|x v IH]; intros [|y c] Hl; simpl in *; try discriminate.
  - split; [intros _ m Hm; lia|reflexivity].
  - rewrite andb_true_iff, IH by lia. split.
    + intros [H0 H] [|m] Hm; [exact H0|apply H; lia].
    + intros H. split; [apply (H O); lia|intros m Hm; apply (H (S m)); lia].
Qed.
Lemma any2_spec f : forall v c, length v = length c ->
  (any2 f v c = true <-> exists m, (m < length v)%nat /\ f (nth m v 0) (nth m c 0) = true).
Proof.
  induction v as [|x v IH]; intros [|y c] Hl; simpl in *; try discriminate.
  - split; [discriminate|intros (m & Hm & _); lia].
  - rewrite orb_true_iff, IH by lia. split.
    + intros [H0|(m & Hm & H)]; [exists O; split; [lia|exact H0]|exists (S m); split; [lia|exact H]].
    + intros ([|m] & Hm & H); [left; exact H|right; exists m; split; [lia|exact H]].
Qed.

Lemma dom_spec c v : length v = length c -> (dom c v = true <-> Dominates c v).
Proof.
  intros Hl. unfold dom, keep, Dominates. rewrite negb_true_iff, orb_false_iff. split.
  - intros [Ha Hany]. split.
    + intros m Hm. destruct (Qlt_le_dec (nth m c 0) (nth m v 0)) as [L|L]; [|exact L].
      exfalso. assert (any2 (fun vi ci => Qltb ci vi) v c = true) as E; [|congruence].
      apply any2_spec; [exact Hl|]. exists m. split; [exact Hm|apply Qltb_lt; exact L].
    + destruct (all2 (fun vi ci => Qle_bool ci vi) v c) eqn:E; [discriminate|]. clear Ha.
      assert (Hx : ~ forall m, (m < length v)%nat -> Qle_bool (nth m c 0) (nth m v 0) = true).
      { intros H. apply (all2_spec (fun vi ci => Qle_bool ci vi)) in H; [congruence|exact Hl]. }
      (* a finite search for the witness *)
      assert (Hs : forall n, (n <= length v)%nat ->
                 (forall m, (m < n)%nat -> Qle_bool (nth m c 0) (nth m v 0) = true) \/
                 exists m, (m < n)%nat /\ nth m v 0 < nth m c 0).
      { induction n as [|n IHn]; intros Hnn; [left; intros m Hm; lia|].
        destruct IHn as [Hall|(m & Hm & Hlt)]; [lia| |right; exists m; split; [lia|exact Hlt]].
        destruct (Qle_bool (nth n c 0) (nth n v 0)) eqn:En.
        - left. intros m Hm. destruct (Nat.eq_dec m n) as [->|Hne]; [exact En|apply Hall; lia].
        - right. exists n. split; [lia|]. apply Qltb_lt. unfold Qltb. rewrite En. reflexivity. }
      destruct (Hs (length v) (le_n _)) as [Hall|Hex]; [contradiction|exact Hex].
  - intros [Hle (m & Hm & Hlt)]. split.
    + destruct (all2 (fun vi ci => Qle_bool ci vi) v c) eqn:E; [|reflexivity]. exfalso.
      rewrite (all2_spec (fun vi ci => Qle_bool ci vi)) in E by exact Hl. specialize (E m Hm).
      apply Qle_bool_iff in E. apply (Qlt_not_le _ _ Hlt E).
    + destruct (any2 (fun vi ci => Qltb ci vi) v c) eqn:E; [|reflexivity]. exfalso.
      apply any2_spec in E; [|exact Hl]. destruct E as (k & Hk & E). apply Qltb_lt in E.
      apply (Qlt_not_le _ _ E (Hle k Hk)).
Qed.

Lemma Dominates_trans a b c : length b = length a -> length c = length b ->
  Dominates a b -> Dominates b c -> Dominates a c.
Proof.
  intros Hab Hbc [H1 (m & Hm & Hlt)] [H2 _]. split.
  - intros k Hk. eapply Qle_trans; [apply H2; exact Hk|apply H1; lia].
  - exists m. split; [lia|]. eapply Qle_lt_trans; [apply H2; lia|exact Hlt].
Qed.

(* ------------------------------------------------------------------ the in-place filter loop *)
Section Loop.
Variable vals : list row.
Variable width : nat.
Hypothesis rect : forall r, In r vals -> length r = width.
Let n := length vals.
Let d : row := [].

Lemma row_len i : (i < n)%nat -> length (nth i vals d) = width.
Proof. intros Hi. apply rect. apply nth_In. exact Hi. Qed.

Lemma dom_trans_ix i j k : (i < n)%nat -> (j < n)%nat -> (k < n)%nat ->
  dom (nth i vals d) (nth j vals d) = true -> dom (nth j vals d) (nth k vals d) = true ->
  dom (nth i vals d) (nth k vals d) = true.
Proof.
  intros Hi Hj Hk H1 H2.
  apply dom_spec in H1; [|rewrite !row_len by assumption; reflexivity].
  apply dom_spec in H2; [|rewrite !row_len by assumption; reflexivity].
  apply dom_spec; [rewrite !row_len by assumption; reflexivity|].
  eapply Dominates_trans; [| |exact H1|exact H2]; rewrite !row_len by assumption; reflexivity.
Qed.

Definition Inv (S : list nat) (good : list bool) : Prop :=
  length good = n /\
  (forall j, (j < n)%nat -> nth j good false = false ->
     exists i, In i S /\ (i < n)%nat /\ dom (nth i vals d) (nth j vals d) = true) /\
  (forall i j, In i S -> (i < n)%nat -> (j < n)%nat -> nth j good false = true ->
     dom (nth i vals d) (nth j vals d) = false).

Lemma nth_step_true good i j :
  length good = n -> nth i good false = true -> (j < n)%nat ->
  nth j (step vals good i) false = nth j good false && negb (dom (nth i vals d) (nth j vals d)).
Proof.
  intros Hl Hi Hj. unfold step. rewrite Hi.
  set (f := fun gv : bool * row => fst gv && negb (dom (nth i vals []) (snd gv))).
  rewrite nth_indep with (d' := f (false, d)).
  2:{ rewrite map_length, combine_length. unfold n in *. lia. }
  rewrite (map_nth f). rewrite combine_nth by exact Hl. reflexivity.
Qed.

Lemma step_length good i : length good = n -> length (step vals good i) = n.
Proof.
  intros Hl. unfold step. destruct (nth i good false); [|exact Hl].
  rewrite map_length, combine_length. unfold n in *. lia.
Qed.

Lemma step_inv S good i : (i < n)%nat -> Inv S good -> Inv (i :: S) (step vals good i).
Proof.
  intros Hi (Hl & H1 & H2). split; [apply step_length; exact Hl|].
  destruct (nth i good false) eqn:Hgi.
  - split.
    + intros j Hj Hf. rewrite nth_step_true in Hf by assumption.
      apply andb_false_iff in Hf. destruct Hf as [Hf|Hf].
      * destruct (H1 j Hj Hf) as (i0 & Hin & Hlt & Hd). exists i0. split; [right; exact Hin|split; assumption].
      * apply negb_false_iff in Hf. exists i. split; [left; reflexivity|split; assumption].
    + intros i0 j Hin Hi0 Hj Ht. rewrite nth_step_true in Ht by assumption.
      apply andb_true_iff in Ht. destruct Ht as [Hg Hn]. apply negb_true_iff in Hn.
      destruct Hin as [<-|Hin]; [exact Hn|]. apply H2; assumption.
  - assert (Hs : step vals good i = good) by (unfold step; rewrite Hgi; reflexivity). rewrite Hs.
    split.
    + intros j Hj Hf. destruct (H1 j Hj Hf) as (i0 & Hin & Hlt & Hd). exists i0. split; [right; exact Hin|split; assumption].
    + intros i0 j Hin Hi0 Hj Ht. destruct Hin as [<-|Hin]; [|apply H2; assumption].
      destruct (H1 i Hi0 Hgi) as (i1 & Hin1 & Hlt1 & Hd1).
      destruct (dom (nth i vals d) (nth j vals d)) eqn:Hd; [|reflexivity].
      pose proof (dom_trans_ix _ _ _ Hlt1 Hi0 Hj Hd1 Hd) as Hc. rewrite (H2 i1 j Hin1 Hlt1 Hj Ht) in Hc. discriminate.
Qed.

Lemma loop_inv : forall idxs S good,
  (forall i, In i idxs -> (i < n)%nat) -> Inv S good ->
  Inv (rev idxs ++ S) (fold_left (step vals) idxs good).
Proof.
  induction idxs as [|i idxs IH]; intros S good Hb HI; cbn [fold_left rev app]; [exact HI|].
  rewrite <- app_assoc. cbn [app]. apply IH.
  - intros k Hk. apply Hb. right; exact Hk.
  - apply step_inv; [apply Hb; left; reflexivity|exact HI].
Qed.

Lemma inv0 : Inv [] (repeat true n).
Proof.
  split; [apply repeat_length|]. split.
  - intros j0 Hj0 Hf. exfalso. rewrite nth_indep with (d' := true) in Hf by (rewrite repeat_length; exact Hj0).
    rewrite nth_repeat in Hf. discriminate.
  - intros i j0 [].
Qed.

Lemma pareto_mask_length : length (pareto_mask vals) = n.
Proof. exact (proj1 (loop_inv (seq 0 n) [] _ (fun i Hi => proj2 (proj1 (in_seq _ _ _) Hi)) inv0)). Qed.

(* the mask marks exactly the rows no other row dominates *)
Lemma pareto_mask_exact j : (j < n)%nat ->
  (nth j (pareto_mask vals) false = true <->
   forall k, (k < n)%nat -> dom (nth k vals d) (nth j vals d) = false).
Proof.
  intros Hj. unfold pareto_mask. fold n.
  pose proof (loop_inv (seq 0 n) [] _ (fun i Hi => proj2 (proj1 (in_seq _ _ _) Hi)) inv0) as (Hl & H1 & H2).
  rewrite app_nil_r in *. split.
  - intros Ht k Hk. apply (H2 k j); [|exact Hk|exact Hj|exact Ht]. apply -> in_rev. apply in_seq. lia.
  - intros Hnd. destruct (nth j (fold_left _ _ _) false) eqn:Hg; [reflexivity|].
    destruct (H1 j Hj Hg) as (i & _ & Hlt & Hd). rewrite (Hnd i Hlt) in Hd. discriminate.
Qed.

Lemma nondominated_b_spec j : (j < n)%nat ->
  (nondominated_b vals j = true <-> ~ exists k, (k < n)%nat /\ Dominates (nth k vals d) (nth j vals d)).
Proof.
  intros Hj. unfold nondominated_b. rewrite forallb_forall. split.
  - intros H (k & Hk & HD). specialize (H (nth k vals d) (nth_In _ _ Hk)).
    apply negb_true_iff in H. apply dom_spec in HD; [unfold d in *; congruence|]. rewrite !row_len by assumption. reflexivity.
  - intros H c Hc. apply negb_true_iff. destruct (dom c (nth j vals [])) eqn:E; [|reflexivity]. exfalso. apply H.
    destruct (In_nth _ _ d Hc) as (k & Hk & <-). exists k. split; [exact Hk|].
    apply dom_spec; [|exact E]. rewrite !row_len by assumption. reflexivity.
Qed.

Lemma mask_is_nondominated_b j : (j < n)%nat -> nth j (pareto_mask vals) false = nondominated_b vals j.
Proof.
  intros Hj. apply eq_true_iff_eq. rewrite pareto_mask_exact by exact Hj. unfold nondominated_b.
  rewrite forallb_forall. split.
  - intros H c Hc. destruct (In_nth _ _ d Hc) as (k & Hk & <-). pose proof (H k Hk) as E. unfold d in *. rewrite E. reflexivity.
  - intros H k Hk. specialize (H _ (nth_In _ d Hk)). apply negb_true_iff in H. exact H.
Qed.
End Loop.

(* ------------------------------------------------------------------ select / partition facts *)
Lemma select_seq_filter : forall (mask : list bool) (s : nat),
  select mask (seq s (length mask)) = filter (fun j => nth (j - s) mask false) (seq s (length mask)).
Proof.
  induction mask as [|b mask IH]; intros s; [reflexivity|].
  change (length (b :: mask)) with (S (length mask)). rewrite <- cons_seq.
  assert (E : filter (fun j => nth (j - s) (b :: mask) false) (seq (S s) (length mask)) =
              filter (fun j => nth (j - S s) mask false) (seq (S s) (length mask))).
  { apply filter_ext_in. intros j Hj. apply in_seq in Hj. replace (j - s)%nat with (S (j - S s)) by lia. reflexivity. }
  cbn [select filter]. rewrite E, <- IH. rewrite Nat.sub_diag. cbn [nth]. destruct b; reflexivity.
Qed.

Lemma pareto_split_seq vals width :
  (forall r, In r vals -> length r = width) ->
  pareto_split vals (seq 0 (length vals)) =
  (filter (nondominated_b vals) (seq 0 (length vals)),
   filter (fun j => negb (nondominated_b vals j)) (seq 0 (length vals))).
Proof.
  intros rect. unfold pareto_split.
  pose proof (pareto_mask_length vals width rect) as Hl.
  f_equal.
  - rewrite <- Hl at 1. rewrite select_seq_filter, Hl. apply filter_ext_in. intros j Hj. apply in_seq in Hj.
    rewrite Nat.sub_0_r. apply (mask_is_nondominated_b vals width rect). exact (proj2 Hj).
  - assert (Hl' : length (map negb (pareto_mask vals)) = length vals) by (rewrite map_length; exact Hl).
    rewrite <- Hl' at 1. rewrite select_seq_filter, Hl'. apply filter_ext_in. intros j Hj. apply in_seq in Hj.
    rewrite Nat.sub_0_r. change false with (negb true). rewrite map_nth. f_equal.
    rewrite nth_indep with (d' := false) by (rewrite Hl; exact (proj2 Hj)). apply (mask_is_nondominated_b vals width rect). exact (proj2 Hj).
Qed.

Lemma select_map {A B} (f : A -> B) : forall mask l, select mask (map f l) = map f (select mask l).
Proof.
  induction mask as [|b m IH]; intros [|x l]; simpl; try reflexivity. destruct b; simpl; rewrite IH; reflexivity.
Qed.

(* the statement for arbitrary observation labels: both returned lists are the labels at those index sets *)
Theorem pareto_partition_exact {A} (vals : list row) (width : nat) (obs : list A) (dflt : A) :
  (forall r, In r vals -> length r = width) -> length obs = length vals ->
  let ix := seq 0 (length vals) in
  pareto_split vals obs =
  (map (fun j => nth j obs dflt) (filter (nondominated_b vals) ix),
   map (fun j => nth j obs dflt) (filter (fun j => negb (nondominated_b vals j)) ix))
  /\ forall j, (j < length vals)%nat ->
       (nondominated_b vals j = true <->
        ~ exists k, (k < length vals)%nat /\ Dominates (nth k vals []) (nth j vals [])).
Proof.
  intros rect Hlen ix. split.
  - pose proof (pareto_split_seq vals width rect) as H. unfold pareto_split in *.
    assert (Hobs : obs = map (fun j => nth j obs dflt) (seq 0 (length vals))).
    { rewrite <- Hlen. clear. induction obs as [|x obs IH]; [reflexivity|]. cbn [length seq map nth]. f_equal.
      rewrite <- seq_shift, map_map. exact IH. }
    injection H as H1 H2. unfold ix. rewrite <- H1, <- H2, <- !select_map, <- Hobs. reflexivity.
  - intros j Hj. apply (nondominated_b_spec vals width rect j Hj).
Qed.

(* ------------------------------------------------------------------ epsilon thresholds *)
Lemma convex_between eps a b lo hi :
  0 < eps -> eps < 1 -> lo <= a <= hi -> lo <= b <= hi -> lo <= convex eps a b <= hi.
Proof. unfold convex. intros He0 He1 [Ha1 Ha2] [Hb1 Hb2]. split; nra. Qed.

Lemma Qminb_cases a b : Qminb a b = a \/ Qminb a b = b.
Proof. unfold Qminb. destruct (Qle_bool a b); auto. Qed.
Lemma Qmaxb_cases a b : Qmaxb a b = a \/ Qmaxb a b = b.
Proof. unfold Qmaxb. destruct (Qle_bool a b); auto. Qed.

Lemma at_col : forall vals r c, (r < length vals)%nat -> at_ vals r c = nth r (col c vals) 0.
Proof.
  unfold at_, col. induction vals as [|x vals IH]; intros [|r] c Hr; simpl in *; try lia; [reflexivity|].
  apply IH. lia.
Qed.

(* first-minimum semantics of argmin *)
Lemma argmin_from_props : forall l best bi i dflt,
  (bi < i)%nat ->
  let r := argmin_from best bi i l in
  let v := if Nat.ltb r i then best else nth (r - i) l dflt in
  ((r = bi) \/ (i <= r < i + length l)%nat) /\ v <= best /\
  (forall k, (k < length l)%nat -> v <= nth k l dflt) /\
  (forall k, (k < length l)%nat -> (i + k < r)%nat -> v < nth k l dflt) /\
  ((i <= r)%nat -> v < best).
Proof.
  induction l as [|x l IH]; intros best bi i dflt Hbi; cbn [argmin_from length].
  - cbv zeta. assert (E : Nat.ltb bi i = true) by (apply Nat.ltb_lt; exact Hbi). rewrite E.
    repeat split; try (left; reflexivity); try apply Qle_refl; intros; lia.
  - destruct (Qltb x best) eqn:Ex.
    + apply Qltb_lt in Ex. specialize (IH x i (S i) dflt (Nat.lt_succ_diag_r i)). cbv zeta in *.
      destruct IH as (Hr & Hv & Hall & Hfirst & Hlt).
      set (r := argmin_from x i (S i) l) in *.
      assert (Hri : (i <= r)%nat) by (destruct Hr; lia).
      assert (El : Nat.ltb r i = false) by (apply Nat.ltb_ge; exact Hri). rewrite El.
      assert (Hval : (if Nat.ltb r (S i) then x else nth (r - S i) l dflt) = nth (r - i) (x :: l) dflt).
      { destruct (Nat.ltb r (S i)) eqn:E2.
        - apply Nat.ltb_lt in E2. replace (r - i)%nat with O by lia. reflexivity.
        - apply Nat.ltb_ge in E2. replace (r - i)%nat with (S (r - S i)) by lia. reflexivity. }
      rewrite <- Hval. repeat split.
      * right. destruct Hr; lia.
      * eapply Qle_trans; [exact Hv|apply Qlt_le_weak; exact Ex].
      * intros [|k] Hk; [exact Hv|apply Hall; lia].
      * intros [|k] Hk Hkr; cbn [nth].
        -- apply Hlt. lia.
        -- apply Hfirst; lia.
      * intros _. eapply Qle_lt_trans; [exact Hv|exact Ex].
    + apply Qltb_ge in Ex. specialize (IH best bi (S i) dflt (Nat.lt_lt_succ_r _ _ Hbi)). cbv zeta in *.
      destruct IH as (Hr & Hv & Hall & Hfirst & Hlt).
      set (r := argmin_from best bi (S i) l) in *.
      destruct Hr as [Hr|Hr].
      * assert (E1 : Nat.ltb r i = true) by (apply Nat.ltb_lt; lia).
        assert (E2 : Nat.ltb r (S i) = true) by (apply Nat.ltb_lt; lia). rewrite E1. rewrite E2 in *.
        repeat split; try (left; exact Hr); try apply Qle_refl.
        -- intros [|k] Hk; [exact Ex|apply Hall; lia].
        -- intros k Hk Hkr. lia.
        -- intros; lia.
      * assert (E1 : Nat.ltb r i = false) by (apply Nat.ltb_ge; lia).
        assert (E2 : Nat.ltb r (S i) = false) by (apply Nat.ltb_ge; lia). rewrite E1. rewrite E2 in *.
        replace (r - i)%nat with (S (r - S i)) by lia. cbn [nth].
        assert (Hs : nth (r - S i) l dflt < best) by (apply Hlt; lia).
        repeat split.
        -- right. lia.
        -- exact Hv.
        -- intros [|k] Hk; [eapply Qle_trans; [exact Hv|exact Ex]|apply Hall; lia].
        -- intros [|k] Hk Hkr; cbn [nth]; [eapply Qlt_le_trans; [exact Hs|exact Ex]|apply Hfirst; lia].
        -- intros _. exact Hs.
Qed.

Theorem argmin_first_min l dflt : l <> [] ->
  let r := argmin l in
  (r < length l)%nat /\ (forall k, (k < length l)%nat -> nth r l dflt <= nth k l dflt) /\
  (forall k, (k < r)%nat -> nth r l dflt < nth k l dflt).
Proof.
  destruct l as [|x l]; [congruence|intros _]. unfold argmin.
  pose proof (argmin_from_props l x O 1%nat dflt Nat.lt_0_1) as H. cbv zeta in *.
  set (r := argmin_from x O 1%nat l) in *. destruct H as (Hr & Hv & Hall & Hfirst & Hlt).
  destruct Hr as [Hr|Hr].
  - rewrite Hr in *. cbn [Nat.ltb Nat.leb nth length] in *. repeat split; [lia| |intros; lia].
    intros [|k] Hk; [apply Qle_refl|apply Hall; lia].
  - assert (E : Nat.ltb r 1 = false) by (apply Nat.ltb_ge; lia). rewrite E in *.
    destruct r as [|r]; [lia|]. replace (S r - 1)%nat with r in * by lia. cbn [nth length].
    repeat split; [lia| |].
    + intros [|k] Hk; [exact Hv|apply Hall; lia].
    + intros [|k] Hk; cbn [nth]; [apply Hlt; lia|apply Hfirst; lia].
Qed.

Definition in_col (cm : nat) (vals : list row) (x : Q) : Prop := exists r, In r vals /\ x = nth cm r 0.

Lemma at_in_col vals r cm : (r < length vals)%nat -> in_col cm vals (at_ vals r cm).
Proof. intros Hr. exists (nth r vals []). split; [apply nth_In; exact Hr|reflexivity]. Qed.

Lemma argmin_col_lt k vals : vals <> [] -> (argmin (col k vals) < length vals)%nat.
Proof.
  intros Hne. assert (Hc : col k vals <> []) by (destruct vals; [congruence|discriminate]).
  pose proof (argmin_first_min (col k vals) 0 Hc) as (H & _). unfold col in H at 2. rewrite map_length in H. exact H.
Qed.

(* Without thresholds: the convex combination, with fraction eps, of the constrained metric's values at the two
   single-metric optima (each the first minimum of its column). *)
Theorem epsilon_no_bounds eps cm vals : vals <> [] ->
  let b0 := argmin (col 0 vals) in let b1 := argmin (col 1 vals) in
  (b0 < length vals)%nat /\ (b1 < length vals)%nat /\
  (forall k, (k < length vals)%nat -> at_ vals b0 0 <= at_ vals k 0) /\
  (forall k, (k < length vals)%nat -> at_ vals b1 1 <= at_ vals k 1) /\
  (forall k, (k < b0)%nat -> at_ vals b0 0 < at_ vals k 0) /\
  (forall k, (k < b1)%nat -> at_ vals b1 1 < at_ vals k 1) /\
  find_eps eps cm vals None None =
    (1 - eps) * Qminb (at_ vals b0 cm) (at_ vals b1 cm) + eps * Qmaxb (at_ vals b0 cm) (at_ vals b1 cm).
Proof.
  intros Hne b0 b1.
  assert (Hc : forall k, col k vals <> []) by (intros k; destruct vals; [congruence|discriminate]).
  pose proof (at_col vals) as Hat.
  pose proof (argmin_first_min (col 0 vals) 0 (Hc O)) as (H0 & H0a & H0b).
  pose proof (argmin_first_min (col 1 vals) 0 (Hc 1%nat)) as (H1 & H1a & H1b).
  assert (Hlen : forall c, length (col c vals) = length vals) by (intros; unfold col; apply map_length).
  rewrite Hlen in H0, H1. fold b0 in H0, H0a, H0b. fold b1 in H1, H1a, H1b.
  repeat split; try assumption.
  - intros k Hk. rewrite !Hat by assumption. apply H0a. rewrite Hlen. exact Hk.
  - intros k Hk. rewrite !Hat by assumption. apply H1a. rewrite Hlen. exact Hk.
  - intros k Hk. rewrite !Hat by lia. apply H0b. exact Hk.
  - intros k Hk. rewrite !Hat by lia. apply H1b. exact Hk.
Qed.

Lemma eps_no_bounds_in_range eps cm vals lo hi :
  0 < eps -> eps < 1 -> vals <> [] -> (forall x, in_col cm vals x -> lo <= x <= hi) ->
  lo <= eps_no_bounds eps cm vals <= hi.
Proof.
  intros He0 He1 Hne Hr. unfold eps_no_bounds.
  pose proof (Hr _ (at_in_col vals _ cm (argmin_col_lt 0 vals Hne))) as Ha.
  pose proof (Hr _ (at_in_col vals _ cm (argmin_col_lt 1 vals Hne))) as Hb.
  apply convex_between; try assumption.
  - destruct (Qminb_cases (at_ vals (argmin (col 0 vals)) cm) (at_ vals (argmin (col 1 vals)) cm)) as [-> | ->]; assumption.
  - destruct (Qmaxb_cases (at_ vals (argmin (col 0 vals)) cm) (at_ vals (argmin (col 1 vals)) cm)) as [-> | ->]; assumption.
Qed.

Lemma select_incl {A} : forall mask (l : list A) x, In x (select mask l) -> In x l.
Proof.
  induction mask as [|b m IH]; intros [|y l] x H; simpl in *; try contradiction.
  destruct b; [destruct H as [->|H]; [left; reflexivity|right; apply IH; exact H]|right; apply IH; exact H].
Qed.
Lemma insert_row_in x l y : In y (insert_row x l) -> y = x \/ In y l.
Proof.
  induction l as [|z l IH]; simpl; [intros [<-|[]]; left; reflexivity|].
  destruct (Qle_bool _ _); simpl; intros [H|H]; subst; auto.
  destruct (IH H); auto.
Qed.
Lemma sort_rows_incl l y : In y (sort_rows l) -> In y l.
Proof.
  induction l as [|x l IH]; simpl; [tauto|]. intros H. apply insert_row_in in H. destruct H as [->|H]; auto.
Qed.
Lemma sorted_pareto_incl vals y : In y (sorted_pareto_min vals) -> In y vals.
Proof. intros H. apply sort_rows_incl in H. apply select_incl in H. exact H. Qed.

Lemma last_in {A} (l : list A) d : l <> [] -> In (last l d) l.
Proof.
  induction l as [|x l IH]; [congruence|intros _]. destruct l as [|y l]; [left; reflexivity|].
  right. apply IH. discriminate.
Qed.
Lemma hd_in {A} (l : list A) d : l <> [] -> In (hd d l) l.
Proof. destruct l; [congruence|left; reflexivity]. Qed.

(* With thresholds: the result stays within the range of the constrained metric over the observations. *)
Theorem epsilon_with_bounds_in_range eps cm vals t0 t1 lo hi :
  0 < eps -> eps < 1 -> vals <> [] -> (forall r, In r vals -> lo <= nth cm r 0 <= hi) ->
  lo <= find_eps eps cm vals t0 t1 <= hi.
Proof.
  intros He0 He1 Hne Hrange.
  assert (Hcol : forall x, in_col cm vals x -> lo <= x <= hi) by (intros x (r & Hr & ->); apply Hrange; exact Hr).
  assert (Hnb := eps_no_bounds_in_range eps cm vals lo hi He0 He1 Hne Hcol).
  assert (Hwb : lo <= eps_with_bounds eps cm vals t0 t1 <= hi).
  { unfold eps_with_bounds.
    destruct (Nat.ltb (count_true _) 1); [exact Hnb|].
    destruct (Nat.ltb (length (sorted_pareto_min vals)) 2) eqn:El; [exact Hnb|].
    set (sp := sorted_pareto_min vals) in *.
    assert (Hsp : sp <> []) by (apply Nat.ltb_ge in El; destruct sp; [simpl in El; lia|discriminate]).
    assert (Hin : forall r, In r sp -> lo <= nth cm r 0 <= hi) by (intros r Hr; apply Hrange, sorted_pareto_incl; exact Hr).
    assert (Hfirst := Hin _ (hd_in sp [] Hsp)). assert (Hlast := Hin _ (last_in sp [] Hsp)).
    set (m0 := if Nat.eqb cm 0 then _ else _). set (M0 := if Nat.eqb cm 1 then _ else _).
    assert (Hm0 : lo <= m0 <= hi) by (unfold m0; destruct (Nat.eqb cm 0); assumption).
    assert (HM0 : lo <= M0 <= hi) by (unfold M0; destruct (Nat.eqb cm 1); assumption).
    clearbody m0 M0.
    set (p1 := match t0 with None => (m0, M0) | Some t => _ end).
    assert (Hp1 : lo <= fst p1 <= hi /\ lo <= snd p1 <= hi).
    { unfold p1. destruct t0 as [t|]; [|split; assumption].
      destruct (filter _ sp) as [|r rs] eqn:Ef; [split; assumption|].
      assert (Hr : In r sp).
      { assert (Hr : In r (r :: rs)) by (left; reflexivity). rewrite <- Ef in Hr. apply filter_In in Hr. exact (proj1 Hr). }
      destruct (Nat.eqb cm 0); simpl; split; try assumption; apply Hin; exact Hr. }
    destruct p1 as [m1 M1]. simpl in Hp1. destruct Hp1 as [Hm1 HM1].
    set (p2 := match t1 with None => (m1, M1) | Some t => _ end).
    assert (Hp2 : lo <= fst p2 <= hi /\ lo <= snd p2 <= hi).
    { unfold p2. destruct t1 as [t|]; [|split; assumption].
      destruct (filter _ sp) as [|r rs] eqn:Ef; [split; assumption|].
      assert (Hr : In (last (r :: rs) []) sp).
      { assert (Hr : In (last (r :: rs) []) (r :: rs)) by (apply last_in; discriminate).
        rewrite <- Ef in Hr at 2. apply filter_In in Hr. exact (proj1 Hr). }
      destruct (Nat.eqb cm 0); simpl; split; try assumption; apply Hin; exact Hr. }
    destruct p2 as [m2 M2]. simpl in Hp2. destruct Hp2 as [Hm2 HM2].
    apply convex_between; assumption. }
  unfold find_eps. destruct t0, t1; assumption.
Qed.

(* ------------------------------------------------------------------ minimum number of successes *)
Lemma count_true_cons b l : count_true (b :: l) = ((if b then 1 else 0) + count_true l)%nat.
Proof. unfold count_true. simpl. destruct b; reflexivity. Qed.

Lemma clear_length : forall l i, length (clear i l) = length l.
Proof. induction l as [|b l IH]; intros [|i]; simpl; auto. Qed.
Lemma clear_nth : forall l i j, nth j (clear i l) false = if Nat.eqb i j then false else nth j l false.
Proof.
  induction l as [|b l IH]; intros [|i] [|j]; simpl; auto.
  - destruct (Nat.eqb i j); reflexivity.
Qed.
Lemma count_clear : forall l i, nth i l false = true -> S (count_true (clear i l)) = count_true l.
Proof.
  induction l as [|b l IH]; intros [|i] H; simpl in H; try discriminate.
  - subst. cbn [clear]. rewrite !count_true_cons. reflexivity.
  - cbn [clear]. rewrite !count_true_cons. rewrite <- (IH i H). lia.
Qed.

Lemma argmin_fail_spec : forall v fails i best (pre_v : list Q) (pre_f : list bool) dq,
  length pre_v = i -> length pre_f = i -> length v = length fails ->
  (match best with
   | None => forall k, (k < i)%nat -> nth k pre_f false = false
   | Some (bi, bx) => (bi < i)%nat /\ nth bi pre_f false = true /\ bx == nth bi pre_v dq /\
                      forall k, (k < i)%nat -> nth k pre_f false = true -> bx <= nth k pre_v dq
   end) ->
  match argmin_fail v fails i best with
  | None => forall k, (k < i + length v)%nat -> nth k (pre_f ++ fails) false = false
  | Some (bi, bx) => (bi < i + length v)%nat /\ nth bi (pre_f ++ fails) false = true /\ bx == nth bi (pre_v ++ v) dq /\
                     forall k, (k < i + length v)%nat -> nth k (pre_f ++ fails) false = true -> bx <= nth k (pre_v ++ v) dq
  end.
Proof.
  induction v as [|x v IH]; intros [|b fails] i best pre_v pre_f dq Hpv Hpf Hlen Hbest; simpl in Hlen; try discriminate.
  - cbn [argmin_fail length]. rewrite !app_nil_r, Nat.add_0_r. exact Hbest.
  - cbn [argmin_fail length].
    replace (pre_f ++ b :: fails) with ((pre_f ++ [b]) ++ fails) by (rewrite <- app_assoc; reflexivity).
    replace (pre_v ++ x :: v) with ((pre_v ++ [x]) ++ v) by (rewrite <- app_assoc; reflexivity).
    replace (i + S (length v))%nat with (S i + length v)%nat by lia.
    apply IH; try (rewrite app_length; simpl; lia); [lia|].
    assert (Hnf : forall k, (k < i)%nat -> nth k (pre_f ++ [b]) false = nth k pre_f false) by (intros; apply app_nth1; lia).
    assert (Hnv : forall k, (k < i)%nat -> nth k (pre_v ++ [x]) dq = nth k pre_v dq) by (intros; apply app_nth1; lia).
    assert (Hif : nth i (pre_f ++ [b]) false = b) by (rewrite app_nth2 by lia; rewrite Hpf, Nat.sub_diag; reflexivity).
    assert (Hiv : nth i (pre_v ++ [x]) dq = x) by (rewrite app_nth2 by lia; rewrite Hpv, Nat.sub_diag; reflexivity).
    destruct b.
    + destruct best as [[bi bx]|].
      * destruct Hbest as (Hbi & Hbf & Hbx & Hmin).
        destruct (Qltb x bx) eqn:Ex.
        -- apply Qltb_lt in Ex. repeat split; [lia|exact Hif|rewrite Hiv; reflexivity|].
           intros k Hk Hkf. destruct (Nat.eq_dec k i) as [->|Hne]; [rewrite Hiv; apply Qle_refl|].
           rewrite Hnv by lia. rewrite Hnf in Hkf by lia. eapply Qle_trans; [apply Qlt_le_weak; exact Ex|apply Hmin; [lia|exact Hkf]].
        -- apply Qltb_ge in Ex. repeat split; [lia|rewrite Hnf by lia; exact Hbf|rewrite Hnv by lia; exact Hbx|].
           intros k Hk Hkf. destruct (Nat.eq_dec k i) as [->|Hne]; [rewrite Hiv; exact Ex|].
           rewrite Hnv by lia. rewrite Hnf in Hkf by lia. apply Hmin; [lia|exact Hkf].
      * repeat split; [lia|exact Hif|rewrite Hiv; reflexivity|].
        intros k Hk Hkf. destruct (Nat.eq_dec k i) as [->|Hne]; [rewrite Hiv; apply Qle_refl|].
        rewrite Hnf in Hkf by lia. rewrite Hbest in Hkf by lia. discriminate.
    + destruct best as [[bi bx]|].
      * destruct Hbest as (Hbi & Hbf & Hbx & Hmin).
        repeat split; [lia|rewrite Hnf by lia; exact Hbf|rewrite Hnv by lia; exact Hbx|].
        intros k Hk Hkf. destruct (Nat.eq_dec k i) as [->|Hne]; [rewrite Hif in Hkf; discriminate|].
        rewrite Hnv by lia. rewrite Hnf in Hkf by lia. apply Hmin; [lia|exact Hkf].
      * intros k Hk. destruct (Nat.eq_dec k i) as [->|Hne]; [exact Hif|]. rewrite Hnf by lia. apply Hbest. lia.
Qed.

Lemma count_true_zero l : (forall k, (k < length l)%nat -> nth k l false = false) -> count_true l = O.
Proof.
  induction l as [|b l IH]; intros H; [reflexivity|]. rewrite count_true_cons.
  assert (Hb : b = false) by (apply (H O); simpl; lia). subst b. simpl. apply IH. intros k Hk. apply (H (S k)). simpl. lia.
Qed.

(* force_k clears exactly min(k, #failures) failures, never sets one, and every cleared row is <= every row left failed *)
Lemma force_k_spec : forall k v fails dq, length v = length fails ->
  let out := force_k k v fails in
  length out = length fails /\
  (forall j, nth j out false = true -> nth j fails false = true) /\
  (count_true out + Nat.min k (count_true fails) = count_true fails)%nat /\
  (forall a b, nth a fails false = true -> nth a out false = false -> nth b out false = true ->
     nth a v dq <= nth b v dq).
Proof.
  induction k as [|k IH]; intros v fails dq Hlen; cbn [force_k]; cbv zeta.
  - repeat split; auto. intros a b Ha Ha' Hb. congruence.
  - pose proof (argmin_fail_spec v fails O None [] [] dq eq_refl eq_refl Hlen (fun k Hk => ltac:(lia))) as Hs.
    destruct (argmin_fail v fails 0 None) as [[i x]|]; cbn [app length plus] in Hs.
    + destruct Hs as (Hi & Hif & Hix & Hmin).
      specialize (IH v (clear i fails) dq ltac:(rewrite clear_length; exact Hlen)). cbv zeta in IH.
      destruct IH as (L & Hsub & Hcnt & Hord). rewrite clear_length in L.
      pose proof (count_clear fails i Hif) as Hcc.
      repeat split.
      * exact L.
      * intros j Hj. specialize (Hsub j Hj). rewrite clear_nth in Hsub. destruct (Nat.eqb i j); [discriminate|exact Hsub].
      * lia.
      * intros a b Ha Ha' Hb. destruct (Nat.eq_dec a i) as [->|Hne].
        -- rewrite <- Hix. apply Hmin.
           ++ destruct (Nat.lt_ge_cases b (length v)) as [Hlt|Hge]; [exact Hlt|].
              rewrite nth_overflow in Hb by lia. discriminate.
           ++ specialize (Hsub b Hb). rewrite clear_nth in Hsub. destruct (Nat.eqb i b); [discriminate|exact Hsub].
        -- apply Hord; [|exact Ha'|exact Hb]. rewrite clear_nth.
           destruct (Nat.eqb i a) eqn:E; [apply Nat.eqb_eq in E; congruence|exact Ha].
    + rewrite Hlen in Hs. rewrite (count_true_zero fails Hs). repeat split; auto; try lia.
      intros a b Ha. rewrite Hs in Ha; [discriminate|].
      destruct (Nat.lt_ge_cases a (length fails)) as [Hlt|Hge]; [exact Hlt|]. rewrite nth_overflow in Ha by lia. discriminate.
Qed.

Lemma count_negb l : (count_true (map negb l) + count_true l = length l)%nat.
Proof. induction l as [|b l IH]; [reflexivity|]. cbn [map length]. rewrite !count_true_cons. destruct b; simpl; lia. Qed.

(* After the repair: only failures were cleared, the number of successes is max(before, min(5, n)), and every row
   that was flipped to success is no larger in the optimising metric than every row still failed. *)
Theorem min_successes om vals fails : length vals = length fails ->
  let out := force_min om vals fails in
  let succ l := count_true (map negb l) in
  length out = length fails /\
  (forall j, nth j out false = true -> nth j fails false = true) /\
  succ out = Nat.max (succ fails) (Nat.min min_success (length fails)) /\
  (forall a b, nth a fails false = true -> nth a out false = false -> nth b out false = true ->
     at_ vals a om <= at_ vals b om).
Proof.
  intros Hlen. cbv zeta. unfold force_min.
  pose proof (count_negb fails) as Hc.
  destruct (Nat.ltb (count_true (map negb fails)) min_success) eqn:El.
  - apply Nat.ltb_lt in El.
    assert (Hcl : length (col om vals) = length fails) by (unfold col; rewrite map_length; exact Hlen).
    pose proof (force_k_spec (min_success - count_true (map negb fails)) (col om vals) fails 0 Hcl) as H. cbv zeta in H.
    destruct H as (L & Hsub & Hcnt & Hord). pose proof (count_negb (force_k (min_success - count_true (map negb fails)) (col om vals) fails)) as Hc2.
    repeat split; [exact L|exact Hsub|lia|].
    intros a b Ha Ha' Hb.
    assert (Hb' : (b < length vals)%nat).
    { destruct (Nat.lt_ge_cases b (length vals)) as [Hlt|Hge]; [exact Hlt|]. rewrite nth_overflow in Hb by lia. discriminate. }
    assert (Ha'' : (a < length vals)%nat).
    { destruct (Nat.lt_ge_cases a (length vals)) as [Hlt|Hge]; [exact Hlt|]. rewrite nth_overflow in Ha by lia. discriminate. }
    pose proof (fun r => at_col vals r om) as Hat.
    rewrite !Hat by assumption. apply Hord; assumption.
  - apply Nat.ltb_ge in El. repeat split; auto; [unfold min_success in *; lia|]. intros a b Ha Ha'. congruence.
Qed.

(* the epsilon labelling followed by the repair never leaves fewer than min(5, n) successes *)
Theorem labelling_keeps_minimum eps om cm vals fails : length vals = length fails ->
  (Nat.min min_success (length fails) <= count_true (map negb (eps_labelling eps om cm vals fails)))%nat.
Proof.
  intros Hlen. unfold eps_labelling.
  set (merged := map _ (combine _ fails)).
  assert (Hm : length merged = length fails).
  { unfold merged, eps_failures. rewrite map_length, combine_length. destruct (no_success vals fails); rewrite map_length; lia. }
  pose proof (min_successes om vals merged ltac:(lia)) as H. cbv zeta in H. destruct H as (_ & _ & H & _).
  rewrite H, Hm. lia.
Qed.

(* ------------------------------------------------------------------ the frontier sorted along the first metric
   (_find_sorted_pareto_frontier_values_minimization): exactly the non-dominated rows under minimisation, every copy of
   a tied row kept, in non-decreasing order of the first metric *)
From Coq Require Import Permutation Sorted.

Definition le0 (a b : row) : Prop := nth 0 a 0 <= nth 0 b 0.

Lemma insert_row_perm x l : Permutation (insert_row x l) (x :: l).
Proof.
  induction l as [|y l IH]; simpl; [apply Permutation_refl|].
  destruct (Qle_bool _ _); [apply Permutation_refl|].
  eapply perm_trans; [apply perm_skip; exact IH|apply perm_swap].
Qed.

Lemma sort_rows_perm l : Permutation (sort_rows l) l.
Proof.
  induction l as [|x l IH]; simpl; [constructor|].
  eapply perm_trans; [apply insert_row_perm|apply perm_skip; exact IH].
Qed.

Lemma insert_row_sorted x l : Sorted le0 l -> Sorted le0 (insert_row x l).
Proof.
  induction l as [|y l IH]; intros H; simpl.
  - constructor; constructor.
  - destruct (Qle_bool (nth 0 x 0) (nth 0 y 0)) eqn:E.
    + constructor; [exact H|constructor; apply Qle_bool_iff; exact E].
    + assert (Hlt : nth 0 y 0 < nth 0 x 0) by (apply Qltb_lt; unfold Qltb; rewrite E; reflexivity).
      inversion H as [|y' l' Hs Hh]; subst. constructor; [apply IH; exact Hs|].
      destruct l as [|z l]; simpl.
      * constructor. unfold le0. lra.
      * destruct (Qle_bool (nth 0 x 0) (nth 0 z 0)); constructor; [unfold le0; lra|inversion Hh; assumption].
Qed.

Lemma sort_rows_sorted l : StronglySorted le0 (sort_rows l).
Proof.
  apply Sorted_StronglySorted; [intros a b c; unfold le0; intros; lra|].
  induction l as [|x l IH]; simpl; [constructor|apply insert_row_sorted; exact IH].
Qed.

Theorem sorted_frontier_exact (vals : list row) (width : nat) :
  (forall r, In r vals -> length r = width) ->
  let nv := neg_rows vals in
  Permutation (sorted_pareto_min vals)
              (map (fun j => nth j vals []) (filter (nondominated_b nv) (seq 0 (length vals)))) /\
  StronglySorted le0 (sorted_pareto_min vals) /\
  forall j, (j < length vals)%nat ->
    (nondominated_b nv j = true <->
     ~ exists k, (k < length vals)%nat /\ Dominates (nth k nv []) (nth j nv [])).
Proof.
  intros rect nv.
  assert (rect' : forall r, In r nv -> length r = width).
  { intros r Hr. unfold nv, neg_rows in Hr. apply in_map_iff in Hr. destruct Hr as (r0 & <- & Hin).
    rewrite map_length. apply rect. exact Hin. }
  assert (Hlen : length vals = length nv) by (unfold nv, neg_rows; rewrite map_length; reflexivity).
  destruct (@pareto_partition_exact row nv width vals [] rect' Hlen) as [Hsplit Hnd]. cbv zeta in Hsplit.
  unfold pareto_split in Hsplit. injection Hsplit as H1 _.
  split; [|split].
  - unfold sorted_pareto_min. fold nv. rewrite H1, <- Hlen. apply sort_rows_perm.
  - apply sort_rows_sorted.
  - intros j Hj. rewrite Hlen in Hj. rewrite Hlen. apply Hnd. exact Hj.
Qed.
