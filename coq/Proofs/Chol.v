(* C17: the sampling factor reproduces the covariance.  About the REGENERATED Gen.GenChol.Chol.factor, whose
   first_overwrite flag is read from the source. *)
From mathcomp Require Import all_ssreflect all_algebra.
From LV Require Import Gen.GenChol.
Set Implicit Arguments. Unset Strict Implicit. Unset Printing Implicit Defensive.
Import GRing.Theory Num.Theory.
Local Open Scope ring_scope.

Section Chol.
Variable F : rcfType.
Variable n : nat.
Variable chol_try : 'M[F]_n -> option 'M[F]_n.
Variable junk : 'M[F]_n -> 'M[F]_n.
Variable svdU : 'M[F]_n -> 'M[F]_n.
Variable svdE : 'M[F]_n -> 'rV[F]_n.
Variable qr_r : 'M[F]_n -> 'M[F]_n.
Definition sympsd (A : 'M[F]_n) := A^T = A /\ forall v : 'cV[F]_n, 0 <= (v^T *m A *m v) 0 0.
(* contracts (exact arithmetic): a successful Cholesky factorises its input; the SVD of a symmetric PSD matrix is an
   eigen-decomposition with non-negative spectrum; the R factor satisfies R^T R = B^T B *)
Hypothesis chol_ok : forall A L, chol_try A = Some L -> L *m L^T = A.
Hypothesis svd_ok : forall A, sympsd A ->
  svdU A *m diag_mx (svdE A) *m (svdU A)^T = A /\ forall i, 0 <= svdE A 0 i.
Hypothesis qr_ok : forall B, (qr_r B)^T *m qr_r B = B^T *m B.

Lemma sqrt_diag_sq (E : 'rV[F]_n) : (forall i, 0 <= E 0 i) -> Chol.sqrt_diag E *m (Chol.sqrt_diag E)^T = diag_mx E.
Proof.
  move=> HE; rewrite /Chol.sqrt_diag tr_diag_mx mul_diag_mx.
  apply/matrixP=> i j; rewrite !mxE.
  case: (i == j) / eqP => [->|_]; rewrite ?mulr1n ?mulr0n ?mulr0 //.
  by rewrite -expr2 sqr_sqrtr.
Qed.

(* for every symmetric PSD matrix (any rank) the returned factor satisfies L L^T = A *)
Theorem factor_reproduces A : sympsd A ->
  Chol.factor chol_try junk svdU svdE qr_r A *m (Chol.factor chol_try junk svdU svdE qr_r A)^T = A.
Proof.
  move=> HA; rewrite /Chol.factor /Chol.first_overwrite; case E: (chol_try A) => [L|]; first exact: chol_ok E.
  case: (svd_ok HA) => Hsvd Hpos.
  rewrite trmxK qr_ok trmxK trmx_mul -mulmxA [Chol.sqrt_diag _ *m _]mulmxA.
  by rewrite [_ *m (Chol.sqrt_diag _)^T](sqrt_diag_sq Hpos) mulmxA.
Qed.
End Chol.
