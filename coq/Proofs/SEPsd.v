(* C03: every Gram matrix of the SQUARE-EXPONENTIAL kernel is positive semi-definite — for all n, all dimensions, all point sets, all
   length scales.  No Bochner / Schoenberg: a finite-dimensional argument.

     exp(-1/2 sum_k (u_a k - u_b k)^2) = g a * exp(<u_a, u_b>) * g b,   g a = exp(-1/2 |u_a|^2),   u_a k = x_a k / l_k
     exp(t) = lim_N sum_{m<N} t^m / m!

   The matrix <u_a,u_b> has the factor u (Hadamard.factored); entrywise powers of it, non-negative scalings, finite sums, pointwise limits
   and congruences by a diagonal stay in the class of

     SCHUR MULTIPLIERS   schur n A := forall B, psdR n B -> psdR n (A .* B)

   which contains every factored matrix (Hadamard.hadamard_psd), is contained in the PSD matrices (take B = all ones) and — unlike
   "factored" or "PSD" — is closed under the entrywise product for free ((A .* A') .* B = A .* (A' .* B)).  So the Gram matrix of the SE
   kernel (with non-negative noise on the diagonal) is not only PSD: its entrywise product with ANY PSD matrix is PSD.  That is what the
   multitask kernel (physical kernel x SE task kernel) needs, without asking for a factor of the physical Gram matrix.

   The Matérn kernels (C0, C2, C4) are NOT covered here: PSD of their n x n Gram matrices stays a hypothesis (Schoenberg), decided
   numerically by the plug-in. *)
From Coq Require Import Reals Lra Psatz Arith Lia.
From Coquelicot Require Import Coquelicot.
From LV Require Import Lib.RBase Gen.GenCovariance Gen.GenMultitask Proofs.Hadamard Proofs.Covariance.
Open Scope R_scope.

(* ------------------------------------------------------------------ finite sums: a few more lemmas *)
Lemma bigsum_zero n : bigsum n (fun _ => 0) = 0.
Proof. induction n as [|n IH]; simpl; [reflexivity|rewrite IH; ring]. Qed.

Lemma bigsum_ext2 n m (f g : nat -> nat -> R) :
  (forall a b, (a < n)%nat -> (b < m)%nat -> f a b = g a b) ->
  bigsum n (fun a => bigsum m (fun b => f a b)) = bigsum n (fun a => bigsum m (fun b => g a b)).
Proof. intros H. apply bigsum_ext. intros a Ha. apply bigsum_ext. intros b Hb. apply H; assumption. Qed.

(* sum of a function supported at one index *)
Lemma bigsum_delta n a (f : nat -> R) : (a < n)%nat -> bigsum n (fun b => if Nat.eqb a b then f b else 0) = f a.
Proof.
  intros Ha. rewrite (bigsum_split n _ a Ha). rewrite Nat.eqb_refl.
  rewrite (bigsum_ext n _ (fun _ => 0)); [rewrite bigsum_zero; ring|].
  intros k _. destruct (Nat.eqb_spec k a) as [->|Hne]; [reflexivity|].
  destruct (Nat.eqb_spec a k); [congruence|reflexivity].
Qed.

(* sum over a concatenated index range *)
Lemma bigsum_app m1 m2 (f : nat -> R) : bigsum (m1 + m2) f = bigsum m1 f + bigsum m2 (fun k => f (m1 + k)%nat).
Proof.
  induction m2 as [|m2 IH]; simpl.
  - rewrite Nat.add_0_r. ring.
  - rewrite Nat.add_succ_r. simpl. rewrite IH. ring.
Qed.

(* limits of finite sums *)
Lemma is_lim_seq_bigsum n (f : nat -> nat -> R) (l : nat -> R) :
  (forall k, (k < n)%nat -> is_lim_seq (fun N => f N k) (l k)) ->
  is_lim_seq (fun N => bigsum n (f N)) (bigsum n l).
Proof.
  induction n as [|n IH]; intros H; simpl.
  - apply is_lim_seq_const.
  - apply is_lim_seq_plus'; [apply IH; intros k Hk; apply H; lia|apply H; lia].
Qed.

(* ------------------------------------------------------------------ the exponential series with bigsum partial sums *)
Lemma sum_n_bigsum (f : nat -> R) N : sum_n f N = bigsum (S N) f.
Proof. induction N as [|N IH]; [rewrite sum_O; simpl; ring|rewrite sum_Sn, IH; reflexivity]. Qed.

Lemma exp_series_lim t : is_lim_seq (fun N => bigsum N (fun m => t ^ m / INR (fact m))) (exp t).
Proof.
  apply is_lim_seq_incr_1.
  apply is_lim_seq_ext with (sum_n (fun k => scal (pow_n t k) (/ INR (fact k)))).
  - intros N. rewrite sum_n_bigsum. apply bigsum_ext. intros k _. rewrite pow_n_pow. reflexivity.
  - exact (is_exp_Reals t).
Qed.

(* ------------------------------------------------------------------ closure properties of psdR *)
Lemma psd_ext n K K' : (forall a b, (a < n)%nat -> (b < n)%nat -> K a b = K' a b) -> psdR n K -> psdR n K'.
Proof.
  intros HE HK v.
  rewrite (bigsum_ext2 n n _ (fun a b => v a * K a b * v b)); [apply HK|].
  intros a b Ha Hb. rewrite (HE a b Ha Hb). reflexivity.
Qed.

Lemma psd_zero n : psdR n (fun _ _ => 0).
Proof.
  intros v. rewrite (bigsum_ext2 n n _ (fun _ _ => 0)) by (intros; ring).
  rewrite (bigsum_ext n _ (fun _ => 0)) by (intros; apply bigsum_zero). rewrite bigsum_zero. lra.
Qed.

Lemma psd_plus n K1 K2 : psdR n K1 -> psdR n K2 -> psdR n (fun a b => K1 a b + K2 a b).
Proof.
  intros H1 H2 v.
  rewrite (bigsum_ext n _ (fun a => bigsum n (fun b => v a * K1 a b * v b) + bigsum n (fun b => v a * K2 a b * v b))).
  - rewrite bigsum_plus. pose proof (H1 v). pose proof (H2 v). lra.
  - intros a _. rewrite <- bigsum_plus. apply bigsum_ext. intros; ring.
Qed.

Lemma psd_bigsum n N (K : nat -> nat -> nat -> R) :
  (forall m, (m < N)%nat -> psdR n (K m)) -> psdR n (fun a b => bigsum N (fun m => K m a b)).
Proof.
  induction N as [|N IH]; intros H; simpl.
  - apply psd_zero.
  - apply (psd_plus n (fun a b => bigsum N (fun m => K m a b)) (K N)); [apply IH; intros m Hm; apply H; lia|apply H; lia].
Qed.

(* the all-ones matrix has the factor (1, ..., 1)' *)
Lemma ones_factored n : factored n 1 (fun _ _ => 1) (fun _ _ => 1).
Proof. intros a b _ _. simpl. ring. Qed.
Lemma psd_ones n : psdR n (fun _ _ => 1).
Proof. exact (factored_psd n 1 _ _ (ones_factored n)). Qed.

(* congruence by a diagonal matrix: substitute v a := g a * v a *)
Lemma psd_congr n (g : nat -> R) K : psdR n K -> psdR n (fun a b => g a * K a b * g b).
Proof.
  intros HK v.
  rewrite (bigsum_ext2 n n _ (fun a b => (g a * v a) * K a b * (g b * v b))) by (intros; ring).
  apply (HK (fun a => g a * v a)).
Qed.

(* a pointwise limit of PSD matrices is PSD: for fixed v the quadratic form is a finite sum of products of the entries *)
Lemma psd_lim n (K : nat -> nat -> nat -> R) (Kl : nat -> nat -> R) :
  (forall N, psdR n (K N)) ->
  (forall a b, (a < n)%nat -> (b < n)%nat -> is_lim_seq (fun N => K N a b) (Kl a b)) ->
  psdR n Kl.
Proof.
  intros HK HL v.
  assert (Hlim : is_lim_seq (fun N => bigsum n (fun a => bigsum n (fun b => v a * K N a b * v b)))
                            (bigsum n (fun a => bigsum n (fun b => v a * Kl a b * v b)))).
  { apply (is_lim_seq_bigsum n (fun N a => bigsum n (fun b => v a * K N a b * v b))). intros a Ha.
    apply (is_lim_seq_bigsum n (fun N b => v a * K N a b * v b)). intros b Hb.
    apply is_lim_seq_mult'; [apply is_lim_seq_mult'|]; [apply is_lim_seq_const|apply HL; assumption|apply is_lim_seq_const]. }
  pose proof (is_lim_seq_le (fun _ => 0) _ 0 _ (fun N => HK N v) (is_lim_seq_const 0) Hlim) as Hle.
  exact Hle.
Qed.

(* diagonal entries of a PSD matrix are non-negative (v := the a-th unit vector) *)
Lemma psd_diag_nonneg n K a : psdR n K -> (a < n)%nat -> 0 <= K a a.
Proof.
  intros HK Ha. pose proof (HK (fun c => if Nat.eqb a c then 1 else 0)) as H.
  rewrite (bigsum_ext n _ (fun c => if Nat.eqb a c then K c c else 0)) in H.
  - rewrite bigsum_delta in H by exact Ha. exact H.
  - intros c Hc. destruct (Nat.eqb_spec a c) as [<-|Hne].
    + rewrite (bigsum_ext n _ (fun b => if Nat.eqb a b then K a b else 0)).
      * apply bigsum_delta, Ha.
      * intros b _. destruct (Nat.eqb a b); ring.
    + rewrite (bigsum_ext n _ (fun _ => 0)) by (intros; ring). apply bigsum_zero.
Qed.

(* a diagonal matrix with non-negative entries is PSD *)
Lemma psd_diag n (d : nat -> R) : (forall a, (a < n)%nat -> 0 <= d a) -> psdR n (fun a b => if Nat.eqb a b then d a else 0).
Proof.
  intros Hd v. apply bigsum_nonneg. intros a Ha.
  rewrite (bigsum_ext n _ (fun b => if Nat.eqb a b then v a * d a * v b else 0)) by (intros b _; destruct (Nat.eqb a b); ring).
  rewrite bigsum_delta by exact Ha. specialize (Hd a Ha). nra.
Qed.

(* ------------------------------------------------------------------ Schur multipliers *)
Definition schur (n : nat) (A : nat -> nat -> R) : Prop :=
  forall B, psdR n B -> psdR n (fun a b => A a b * B a b).

Lemma schur_factored n m A L : factored n m A L -> schur n A.
Proof. intros HF B HB. exact (hadamard_psd n m A L B HF HB). Qed.

Lemma schur_psd n A : schur n A -> psdR n A.
Proof. intros HA. apply (psd_ext n (fun a b => A a b * 1)); [intros; ring|]. apply HA, psd_ones. Qed.

Lemma schur_ext n A A' : (forall a b, (a < n)%nat -> (b < n)%nat -> A a b = A' a b) -> schur n A -> schur n A'.
Proof.
  intros HE HA B HB. apply (psd_ext n (fun a b => A a b * B a b)); [|apply HA, HB].
  intros a b Ha Hb. rewrite (HE a b Ha Hb). reflexivity.
Qed.

Lemma schur_one n : schur n (fun _ _ => 1).
Proof. exact (schur_factored n 1 _ _ (ones_factored n)). Qed.

Lemma schur_zero n : schur n (fun _ _ => 0).
Proof. intros B _. apply (psd_ext n (fun _ _ => 0)); [intros; ring|apply psd_zero]. Qed.

(* the entrywise product of two Schur multipliers is one *)
Lemma schur_mult n A A' : schur n A -> schur n A' -> schur n (fun a b => A a b * A' a b).
Proof.
  intros HA HA' B HB. apply (psd_ext n (fun a b => A a b * (A' a b * B a b))); [intros; ring|].
  apply HA. apply HA', HB.
Qed.

Lemma schur_pow n A p : schur n A -> schur n (fun a b => A a b ^ p).
Proof.
  intros HA. induction p as [|p IH]; simpl.
  - apply schur_one.
  - apply (schur_mult n A (fun a b => A a b ^ p)); assumption.
Qed.

Lemma schur_scale n c A : 0 <= c -> schur n A -> schur n (fun a b => c * A a b).
Proof.
  intros Hc HA B HB. apply (psd_ext n (fun a b => c * (A a b * B a b))); [intros; ring|].
  apply psd_scale; [exact Hc|apply HA, HB].
Qed.

Lemma schur_plus n A A' : schur n A -> schur n A' -> schur n (fun a b => A a b + A' a b).
Proof.
  intros HA HA' B HB. apply (psd_ext n (fun a b => A a b * B a b + A' a b * B a b)); [intros; ring|].
  apply (psd_plus n (fun a b => A a b * B a b) (fun a b => A' a b * B a b)); [apply HA|apply HA']; exact HB.
Qed.

Lemma schur_bigsum n N (A : nat -> nat -> nat -> R) :
  (forall m, (m < N)%nat -> schur n (A m)) -> schur n (fun a b => bigsum N (fun m => A m a b)).
Proof.
  induction N as [|N IH]; intros H; simpl.
  - apply schur_zero.
  - apply (schur_plus n (fun a b => bigsum N (fun m => A m a b)) (A N)); [apply IH; intros m Hm; apply H; lia|apply H; lia].
Qed.

Lemma schur_lim n (A : nat -> nat -> nat -> R) (Al : nat -> nat -> R) :
  (forall N, schur n (A N)) ->
  (forall a b, (a < n)%nat -> (b < n)%nat -> is_lim_seq (fun N => A N a b) (Al a b)) ->
  schur n Al.
Proof.
  intros HA HL B HB. apply (psd_lim n (fun N a b => A N a b * B a b)).
  - intros N. apply HA, HB.
  - intros a b Ha Hb. apply is_lim_seq_mult'; [apply HL; assumption|apply is_lim_seq_const].
Qed.

Lemma schur_congr n (g : nat -> R) A : schur n A -> schur n (fun a b => g a * A a b * g b).
Proof.
  intros HA B HB. apply (psd_ext n (fun a b => A a b * (g a * B a b * g b))); [intros; ring|].
  apply HA. apply psd_congr, HB.
Qed.

(* non-negative diagonal matrices (observation noise) *)
Lemma schur_diag n (d : nat -> R) : (forall a, (a < n)%nat -> 0 <= d a) -> schur n (fun a b => if Nat.eqb a b then d a else 0).
Proof.
  intros Hd B HB. apply (psd_ext n (fun a b => if Nat.eqb a b then d a * B a a else 0)).
  - intros a b _ _. destruct (Nat.eqb_spec a b) as [->|_]; ring.
  - apply (psd_diag n (fun a => d a * B a a)). intros a Ha.
    apply Rmult_le_pos; [apply Hd, Ha|apply (psd_diag_nonneg n B a HB Ha)].
Qed.

(* ------------------------------------------------------------------ MILESTONE 1: every partial sum of the exponential series of a factored
   matrix is a Schur multiplier (in particular PSD) *)
Definition expS (N : nat) (t : R) : R := bigsum N (fun m => t ^ m / INR (fact m)).

Lemma inv_fact_nonneg m : 0 <= / INR (fact m).
Proof. left. apply Rinv_0_lt_compat, INR_fact_lt_0. Qed.

Lemma expS_schur n A N : schur n A -> schur n (fun a b => expS N (A a b)).
Proof.
  intros HA. unfold expS. apply (schur_bigsum n N (fun m a b => A a b ^ m / INR (fact m))). intros m _.
  apply (schur_ext n (fun a b => / INR (fact m) * A a b ^ m)); [intros; unfold Rdiv; ring|].
  apply schur_scale; [apply inv_fact_nonneg|apply schur_pow, HA].
Qed.

Theorem expS_factored_psd n m A L N : factored n m A L -> psdR n (fun a b => expS N (A a b)).
Proof. intros HF. apply schur_psd, expS_schur, (schur_factored n m A L HF). Qed.

(* ------------------------------------------------------------------ MILESTONE 2: the limit; exp of a Schur multiplier, entrywise *)
Lemma exp_schur n A : schur n A -> schur n (fun a b => exp (A a b)).
Proof.
  intros HA. apply (schur_lim n (fun N a b => expS N (A a b))).
  - intros N. apply expS_schur, HA.
  - intros a b _ _. apply exp_series_lim.
Qed.

(* the Gaussian kernel of m-dimensional feature vectors u_a *)
Definition dotu (m : nat) (u : nat -> nat -> R) (a b : nat) : R := bigsum m (fun k => u a k * u b k).
Definition gaussu (m : nat) (u : nat -> nat -> R) (a b : nat) : R := exp (- (1/2) * bigsum m (fun k => (u a k - u b k) ^ 2)).

Lemma dotu_factored n m u : factored n m (dotu m u) u.
Proof. intros a b _ _. reflexivity. Qed.

Lemma gaussu_split m u a b :
  gaussu m u a b = exp (- (1/2) * dotu m u a a) * exp (dotu m u a b) * exp (- (1/2) * dotu m u b b).
Proof.
  unfold gaussu, dotu. rewrite <- !exp_plus. f_equal.
  rewrite <- (expand_square m (fun k => u a k) (fun k => u b k)).
  rewrite (bigsum_ext m (fun k => u a k ^ 2) (fun k => u a k * u a k)) by (intros; ring).
  rewrite (bigsum_ext m (fun k => u b k ^ 2) (fun k => u b k * u b k)) by (intros; ring).
  field.
Qed.

Theorem gaussu_schur n m u : schur n (gaussu m u).
Proof.
  apply (schur_ext n (fun a b => exp (- (1/2) * dotu m u a a) * exp (dotu m u a b) * exp (- (1/2) * dotu m u b b))).
  - intros a b _ _. symmetry. apply gaussu_split.
  - apply (schur_congr n (fun a => exp (- (1/2) * dotu m u a a)) (fun a b => exp (dotu m u a b))).
    apply exp_schur. exact (schur_factored n m _ _ (dotu_factored n m u)).
Qed.

Theorem gaussu_psd n m u : psdR n (gaussu m u).
Proof. apply schur_psd, gaussu_schur. Qed.

(* ---- the generated SquareExponential entry points are gaussu of u a k = xs a k / ls k (no condition on ls: x / 0 is a real number) *)
Definition scaled (xs : nat -> nat -> R) (ls : nat -> R) (a k : nat) : R := xs a k / ls k.

Lemma SE_sym_gauss dim xs noise ls lsq lcu alpha a b :
  SquareExponential.kernel_matrix_sym dim xs noise ls lsq lcu alpha a b
  = alpha * gaussu dim (scaled xs ls) a b + (if Nat.eqb a b then noise a else 0).
Proof. reflexivity. Qed.

Lemma SE_cross_gauss dim xs ls lsq lcu alpha a b :
  SquareExponential.kernel_matrix_cross dim xs xs ls lsq lcu alpha a b = alpha * gaussu dim (scaled xs ls) a b.
Proof.
  unfold SquareExponential.kernel_matrix_cross, gaussu, scaled. f_equal. f_equal. f_equal.
  rewrite (expand_square dim (fun k => xs a k / ls k) (fun k => xs b k / ls k)).
  apply Rmax_right. apply bigsum_nonneg. intros k _. apply pow2_ge_0.
Qed.

Lemma SE_pair_gauss_ dim xs ls lsq lcu alpha i a b :
  SquareExponential._covariance dim (fun _ => xs a) (fun _ => xs b) ls lsq lcu alpha i = gaussu dim (scaled xs ls) a b.
Proof.
  unfold SquareExponential._covariance, gaussu, scaled. f_equal. f_equal.
  simpl. rewrite Rmult_1_r. rewrite sqrt_sqrt by (apply bigsum_nonneg; intros k _; apply pow2_ge_0).
  apply bigsum_ext. intros k _. unfold Rdiv. ring.
Qed.
Lemma SE_pair_gauss dim xs ls lsq lcu alpha i a b :
  SquareExponential.covariance dim (fun _ => xs a) (fun _ => xs b) ls lsq lcu alpha i = alpha * gaussu dim (scaled xs ls) a b.
Proof. rewrite <- (SE_pair_gauss_ dim xs ls lsq lcu alpha i a b). reflexivity. Qed.

(* symmetric entry point: build_kernel_matrix(points_sampled, noise_variance) *)
Theorem SE_sym_gram_schur n dim xs noise ls lsq lcu alpha :
  0 <= alpha -> (forall j, 0 <= noise j) ->
  schur n (fun a b => SquareExponential.kernel_matrix_sym dim xs noise ls lsq lcu alpha a b).
Proof.
  intros Ha Hn.
  apply (schur_ext n (fun a b => alpha * gaussu dim (scaled xs ls) a b + (if Nat.eqb a b then noise a else 0))).
  - intros a b _ _. symmetry. apply SE_sym_gauss.
  - apply (schur_plus n (fun a b => alpha * gaussu dim (scaled xs ls) a b) (fun a b => if Nat.eqb a b then noise a else 0)).
    + apply schur_scale; [exact Ha|apply gaussu_schur].
    + apply schur_diag. intros a _. apply Hn.
Qed.
Theorem SE_sym_gram_psd_any_ls n dim xs ls lsq lcu alpha noise :
  0 <= alpha -> (forall j, 0 <= noise j) ->
  psdR n (fun a b => SquareExponential.kernel_matrix_sym dim xs noise ls lsq lcu alpha a b).
Proof. intros Ha Hn. apply schur_psd, SE_sym_gram_schur; assumption. Qed.
Theorem SE_sym_gram_psd n dim xs ls lsq lcu alpha noise :
  (forall k, 0 < ls k) -> 0 <= alpha -> (forall j, 0 <= noise j) ->
  psdR n (fun a b => SquareExponential.kernel_matrix_sym dim xs noise ls lsq lcu alpha a b).
Proof. intros _. apply SE_sym_gram_psd_any_ls. Qed.

(* cross entry point evaluated on one point set: build_kernel_matrix(points_sampled, points_to_sample = points_sampled) *)
Theorem SE_cross_gram_schur n dim xs ls lsq lcu alpha : 0 <= alpha ->
  schur n (fun a b => SquareExponential.kernel_matrix_cross dim xs xs ls lsq lcu alpha a b).
Proof.
  intros Ha. apply (schur_ext n (fun a b => alpha * gaussu dim (scaled xs ls) a b)).
  - intros a b _ _. symmetry. apply SE_cross_gauss.
  - apply schur_scale; [exact Ha|apply gaussu_schur].
Qed.
Theorem SE_cross_gram_psd n dim xs ls lsq lcu alpha :
  (forall k, 0 < ls k) -> 0 <= alpha ->
  psdR n (fun a b => SquareExponential.kernel_matrix_cross dim xs xs ls lsq lcu alpha a b).
Proof. intros _ Ha. apply schur_psd, SE_cross_gram_schur, Ha. Qed.

(* pairwise entry point covariance(x, z)[i] on the pair (point a, point b) of one set *)
Theorem SE_pair_gram_schur n dim xs ls lsq lcu alpha i : 0 <= alpha ->
  schur n (fun a b => SquareExponential.covariance dim (fun _ => xs a) (fun _ => xs b) ls lsq lcu alpha i).
Proof.
  intros Ha. apply (schur_ext n (fun a b => alpha * gaussu dim (scaled xs ls) a b)).
  - intros a b _ _. symmetry. apply SE_pair_gauss.
  - apply schur_scale; [exact Ha|apply gaussu_schur].
Qed.
Theorem SE_pair_gram_psd n dim xs ls lsq lcu alpha i :
  (forall k, 0 < ls k) -> 0 <= alpha ->
  psdR n (fun a b => SquareExponential.covariance dim (fun _ => xs a) (fun _ => xs b) ls lsq lcu alpha i).
Proof. intros _ Ha. apply schur_psd, SE_pair_gram_schur, Ha. Qed.
(* ... and of _covariance (no process variance), the function the multitask kernel calls *)
Theorem SE_pair_gram_schur_ n dim xs ls lsq lcu alpha i :
  schur n (fun a b => SquareExponential._covariance dim (fun _ => xs a) (fun _ => xs b) ls lsq lcu alpha i).
Proof.
  apply (schur_ext n (gaussu dim (scaled xs ls))).
  - intros a b _ _. symmetry. apply SE_pair_gauss_.
  - apply gaussu_schur.
Qed.

(* ------------------------------------------------------------------ MILESTONE 3: the multitask kernel with a SquareExponential task kernel *)
(* physical Gram matrix P merely PSD (no factor needed), task kernel = SE on the task coordinates ts (dimt = 1 in the library):
   MultitaskTensorCovariance._covariance multiplies the two _covariance values. *)
Theorem multitask_se_task_psd n (P : nat -> nat -> R) dimt ts lst lsqt lcut alphat pg tg ph th :
  psdR n P ->
  psdR n (fun a b => GenMultitask._covariance (fun _ => P a b)
                       (fun i => SquareExponential._covariance dimt (fun _ => ts a) (fun _ => ts b) lst lsqt lcut alphat i) pg tg ph th 0%nat).
Proof.
  intros HP. unfold GenMultitask._covariance.
  apply (psd_ext n (fun a b => SquareExponential._covariance dimt (fun _ => ts a) (fun _ => ts b) lst lsqt lcut alphat 0%nat * P a b));
    [intros; ring|].
  apply (SE_pair_gram_schur_ n dimt ts lst lsqt lcut alphat 0%nat), HP.
Qed.

(* both factors SquareExponential: unconditional.  (Process variance alpha >= 0 applied to the product, as the library does.) *)
Theorem multitask_se_se_psd n dim xs ls lsq lcu alphap dimt ts lst lsqt lcut alphat alpha pg tg ph th :
  0 <= alpha ->
  psdR n (fun a b => alpha * GenMultitask._covariance
                       (fun i => SquareExponential._covariance dim (fun _ => xs a) (fun _ => xs b) ls lsq lcu alphap i)
                       (fun i => SquareExponential._covariance dimt (fun _ => ts a) (fun _ => ts b) lst lsqt lcut alphat i) pg tg ph th 0%nat).
Proof.
  intros Ha. apply psd_scale; [exact Ha|].
  apply (multitask_se_task_psd n (fun a b => SquareExponential._covariance dim (fun _ => xs a) (fun _ => xs b) ls lsq lcu alphap 0%nat)).
  apply schur_psd, SE_pair_gram_schur_.
Qed.

(* the kernel-matrix path: _build_kernel_matrix multiplies the two kernel matrices entrywise; the physical one may carry the noise *)
Theorem multitask_se_se_matrix_psd n dim xs noise ls lsq lcu alpha dimt ts lst lsqt lcut alphat pg tg ph th :
  0 <= alpha -> 0 <= alphat -> (forall j, 0 <= noise j) ->
  psdR n (fun a b => GenMultitask._covariance
                       (fun _ => SquareExponential.kernel_matrix_sym dim xs noise ls lsq lcu alpha a b)
                       (fun _ => SquareExponential.kernel_matrix_cross dimt ts ts lst lsqt lcut alphat a b) pg tg ph th 0%nat).
Proof.
  intros Ha Hat Hn. unfold GenMultitask._covariance.
  apply (psd_ext n (fun a b => SquareExponential.kernel_matrix_cross dimt ts ts lst lsqt lcut alphat a b
                               * SquareExponential.kernel_matrix_sym dim xs noise ls lsq lcu alpha a b)); [intros; ring|].
  apply (SE_cross_gram_schur n dimt ts lst lsqt lcut alphat Hat).
  apply SE_sym_gram_psd_any_ls; assumption.
Qed.

(* the alternative reading: the product of two SE kernels on disjoint coordinate blocks is ONE SE kernel on the concatenated coordinates *)
Definition concat (m1 : nat) (u w : nat -> nat -> R) (a k : nat) : R := if Nat.ltb k m1 then u a k else w a (k - m1)%nat.
Lemma gaussu_concat m1 m2 u w a b : gaussu m1 u a b * gaussu m2 w a b = gaussu (m1 + m2) (concat m1 u w) a b.
Proof.
  unfold gaussu. rewrite <- exp_plus. f_equal. rewrite bigsum_app.
  rewrite (bigsum_ext m1 (fun k => (concat m1 u w a k - concat m1 u w b k) ^ 2) (fun k => (u a k - u b k) ^ 2)).
  - rewrite (bigsum_ext m2 (fun k => (concat m1 u w a (m1 + k) - concat m1 u w b (m1 + k)) ^ 2) (fun k => (w a k - w b k) ^ 2)); [ring|].
    intros k _. unfold concat. destruct (Nat.ltb_spec (m1 + k) m1); [lia|]. replace (m1 + k - m1)%nat with k by lia. reflexivity.
  - intros k Hk. unfold concat. destruct (Nat.ltb_spec k m1); [reflexivity|lia].
Qed.

(* the same on the generated definitions: SE(x,z; ls) * SE(t,s; lst) = SE((x,t),(z,s); (ls,lst)) — the multitask kernel with two
   SquareExponential factors IS a SquareExponential kernel in dim + dimt coordinates *)
Definition cat (m : nat) (f g : nat -> R) (k : nat) : R := if Nat.ltb k m then f k else g (k - m)%nat.
Lemma sqrt_sq_bigsum n (f : nat -> R) : sqrt (bigsum n (fun k => f k ^ 2)) ^ 2 = bigsum n (fun k => f k ^ 2).
Proof. simpl. rewrite Rmult_1_r. apply sqrt_sqrt. apply bigsum_nonneg. intros k _. apply pow2_ge_0. Qed.
Theorem SE_product_is_SE dim dimt x z t s ls lst lsq lcu alpha lsq' lcu' alpha' lsq'' lcu'' alpha'' i :
  SquareExponential._covariance dim x z ls lsq lcu alpha i * SquareExponential._covariance dimt t s lst lsq' lcu' alpha' i
  = SquareExponential._covariance (dim + dimt) (fun j => cat dim (x j) (t j)) (fun j => cat dim (z j) (s j)) (cat dim ls lst)
      lsq'' lcu'' alpha'' i.
Proof.
  unfold SquareExponential._covariance. rewrite !sqrt_sq_bigsum. rewrite <- exp_plus. f_equal. rewrite bigsum_app.
  rewrite (bigsum_ext dim (fun k => ((cat dim (x i) (t i) k - cat dim (z i) (s i) k) / cat dim ls lst k) ^ 2)
                          (fun k => ((x i k - z i k) / ls k) ^ 2)).
  - rewrite (bigsum_ext dimt (fun k => ((cat dim (x i) (t i) (dim + k) - cat dim (z i) (s i) (dim + k)) / cat dim ls lst (dim + k)) ^ 2)
                             (fun k => ((t i k - s i k) / lst k) ^ 2)); [ring|].
    intros k _. unfold cat. destruct (Nat.ltb_spec (dim + k) dim); [lia|]. replace (dim + k - dim)%nat with k by lia. reflexivity.
  - intros k Hk. unfold cat. destruct (Nat.ltb_spec k dim); [reflexivity|lia].
Qed.

(* the form of Props/C03_psd.v (physical Gram matrix with a factor), its hypothesis on the task matrix discharged *)
Theorem multitask_se_task_factored n m (P L : nat -> nat -> R) dimt ts lst lsqt lcut alphat pg tg ph th :
  factored n m P L ->
  psdR n (fun a b => GenMultitask._covariance (fun _ => P a b)
                       (fun i => SquareExponential._covariance dimt (fun _ => ts a) (fun _ => ts b) lst lsqt lcut alphat i) pg tg ph th 0%nat).
Proof.
  intros HF. apply (hadamard_psd n m P L _ HF). apply schur_psd, SE_pair_gram_schur_.
Qed.
