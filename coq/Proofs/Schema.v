(* Proofs for C20 about LV.Model.Schema. *)
From Coq Require Import List ZArith NArith QArith Bool Arith Lia String.
From LV Require Import Model.Schema.
Import ListNotations.

(* ------------------------------------------------------------------------------------------------ basics *)
Lemma str_eqb_eq a : forall b, str_eqb a b = true -> a = b.
Proof.
  induction a as [|x a IH]; intros [|y b] H; cbn in H; try discriminate; auto.
  apply andb_true_iff in H as [H1 H2]. apply N.eqb_eq in H1. subst. f_equal. auto.
Qed.

Lemma str_eqb_refl a : str_eqb a a = true.
Proof. induction a as [|x a IH]; cbn; auto. rewrite N.eqb_refl, IH. reflexivity. Qed.

Lemma mem_str_In k l : mem_str k l = true <-> In k l.
Proof.
  unfold mem_str. rewrite existsb_exists. split.
  - intros [x [Hin He]]. apply str_eqb_eq in He. subst. exact Hin.
  - intros H. exists k. split; auto. apply str_eqb_refl.
Qed.

(* induction along the first element of the context list: the only recursion process_error performs *)
Lemma verr_ind_first (P : verr -> Prop) :
  (forall k vv i st sp pt p m, P (VErr k vv i st sp pt p m [])) ->
  (forall k vv i st sp pt p m c cs, P c -> P (VErr k vv i st sp pt p m (c :: cs))) ->
  forall e, P e.
Proof.
  intros H0 H1. fix IH 1. intros [k vv i st sp pt p m [|c cs]].
  - apply H0.
  - apply H1. apply IH.
Qed.

Lemma existsb_hd_filter {A} (f : A -> bool) l :
  existsb f l = true -> exists x, hd_error (filter f l) = Some x /\ In x l /\ f x = true.
Proof.
  induction l as [|a l IH]; cbn; intros H; try discriminate.
  destruct (f a) eqn:Hf.
  - exists a. cbn. auto.
  - cbn in H. destruct (IH H) as [x [Hh [Hi Hx]]]. exists x. auto.
Qed.

(* ------------------------------------------------------------------------------------------------ messages *)
Lemma m_props_ne b : msg_nonempty (m_props b) = true. Proof. destruct b; reflexivity. Qed.
Lemma m_bound_ne b : msg_nonempty (m_bound b) = true. Proof. destruct b; reflexivity. Qed.
Lemma m_length_ne b : msg_nonempty (m_length b) = true. Proof. destruct b; reflexivity. Qed.
Lemma m_type_ne b : msg_nonempty (m_type b) = true. Proof. destruct b; reflexivity. Qed.

Lemma required_outcome_msg vv inst le :
  required_outcome vv inst = Lib le -> msg_nonempty (err_msg le) = true.
Proof.
  unfold required_outcome. intros H.
  destruct inst; try (destruct (subscript0 vv); inversion H; reflexivity).
  destruct (iter_json vv); try discriminate. destruct (forallb hashable l); inversion H. reflexivity.
Qed.

(* whenever process_error produces a library error its message is non-empty (no assumption on the record) *)
Lemma process_error_msg_nonempty : forall e le, process_error e = Lib le -> msg_nonempty (err_msg le) = true.
Proof.
  apply (verr_ind_first (fun e => forall le, process_error e = Lib le -> msg_nonempty (err_msg le) = true)).
  - intros k vv i st sp pt p m le H. cbn in H.
    destruct k; try (inversion H; subst; cbn [err_msg];
                     first [reflexivity | apply m_props_ne | apply m_bound_ne | apply m_length_ne]).
    + destruct (is_false vv); inversion H; reflexivity.
    + destruct st; inversion H. cbn [err_msg]. apply m_type_ne.
    + eapply required_outcome_msg; eauto.
    + destruct (iter_json vv); inversion H. reflexivity.
  - intros k vv i st sp pt p m c cs IH le H. cbn in H.
    destruct k; try (inversion H; subst; cbn [err_msg];
                     first [reflexivity | apply m_props_ne | apply m_bound_ne | apply m_length_ne]).
    + destruct (is_false vv); inversion H; reflexivity.
    + destruct st; inversion H. cbn [err_msg]. apply m_type_ne.
    + eapply required_outcome_msg; eauto.
    + destruct (iter_json vv); inversion H. reflexivity.
    + apply IH. exact H.
    + apply IH. exact H.
Qed.

Lemma is_str_hashable ks : forallb is_str ks = true -> forallb hashable ks = true.
Proof.
  induction ks as [|a ks IH]; cbn; auto. intros H. apply andb_true_iff in H as [H1 H2].
  rewrite (IH H2). destruct a; try discriminate; reflexivity.
Qed.

(* a well-formed record is never translated into a non-library exception *)
Lemma process_error_wf_lib : forall e, wf_verr e = true -> exists le, process_error e = Lib le.
Proof.
  apply (verr_ind_first (fun e => wf_verr e = true -> exists le, process_error e = Lib le)).
  - intros k vv i st sp pt p m H. cbn in H. cbn [process_error].
    destruct k; try (eexists; reflexivity).
    + destruct (is_false vv); eexists; reflexivity.
    + destruct st; try discriminate. eexists; reflexivity.
    + destruct i; try discriminate. destruct vv; try discriminate.
      apply andb_true_iff in H as [H1 H2]. unfold required_outcome. cbn [iter_json].
      rewrite (is_str_hashable _ H1). eexists; reflexivity.
    + destruct vv; try discriminate. eexists; reflexivity.
  - intros k vv i st sp pt p m c cs IH H. cbn in H. cbn [process_error].
    destruct k; try (eexists; reflexivity).
    + destruct (is_false vv); eexists; reflexivity.
    + destruct st; try discriminate. eexists; reflexivity.
    + destruct i; try discriminate. destruct vv; try discriminate.
      apply andb_true_iff in H as [H1 H2]. unfold required_outcome. cbn [iter_json].
      rewrite (is_str_hashable _ H1). eexists; reflexivity.
    + destruct vv; try discriminate. eexists; reflexivity.
    + destruct vv; try discriminate. apply andb_true_iff in H as [H1 _]. apply IH. exact H1.
    + destruct vv; try discriminate. apply andb_true_iff in H as [H1 _]. apply IH. exact H1.
Qed.

Theorem process_error_total_lib e :
  wf_verr e = true -> exists le, process_error e = Lib le /\ msg_nonempty (err_msg le) = true.
Proof.
  intros H. destruct (process_error_wf_lib e H) as [le Hle]. exists le. split; auto.
  eapply process_error_msg_nonempty; eauto.
Qed.

(* ------------------------------------------------------------------------------------------------ required *)
Theorem required_exposes_key e :
  wf_verr e = true -> v_kind e = VRequired ->
  exists k kvs ks m,
    v_inst e = JObj kvs /\ v_value e = JArr ks /\
    process_error e = Lib (EMissingKey (Some (JStr k)) m) /\
    In (JStr k) ks /\ ~ In k (keys kvs).
Proof.
  destruct e as [k vv i st sp pt p m ctx]. cbn [v_kind v_inst v_value]. intros H Hk. subst k.
  cbn in H. destruct i; try discriminate. destruct vv; try discriminate.
  apply andb_true_iff in H as [H1 H2].
  destruct (existsb_hd_filter _ _ H2) as [x [Hh [Hi Hx]]].
  assert (Hs : is_str x = true) by (rewrite forallb_forall in H1; auto).
  destruct x; try discriminate.
  exists s, kvs, l, m_missing. repeat split; auto.
  - cbn [process_error]. unfold required_outcome. cbn [iter_json]. rewrite (is_str_hashable _ H1). rewrite Hh. reflexivity.
  - intros Hin. apply mem_str_In in Hin. cbn in Hx. rewrite Hin in Hx. discriminate.
Qed.

(* ------------------------------------------------------------------------------------------------ type *)
Theorem type_exposes_value_and_type e :
  wf_verr e = true -> v_kind e = VType ->
  exists t ts m,
    v_sty e = Some t /\ type_decl t = Some ts /\
    process_error e = Lib (EInvalidType (v_inst e) t m) /\
    existsb (has_type (v_inst e)) ts = false.
Proof.
  destruct e as [k vv i st sp pt p m ctx]. cbn [v_kind v_inst v_sty]. intros H Hk. subst k.
  cbn in H. destruct st as [t|]; try discriminate. destruct (type_decl t) as [ts|] eqn:Ht; try discriminate.
  apply andb_true_iff in H as [_ H2]. apply negb_true_iff in H2.
  exists t, ts. eexists. repeat split; eauto.
Qed.

(* ------------------------------------------------------------------------------------------------ the scanner *)
Fixpoint run (st : sstate) (s : str) : sstate :=
  match s with [] => st | c :: r => run (fst (step st c)) r end.

Lemma scan_app a : forall st b, scan st (a ++ b) = scan st a ++ scan (run st a) b.
Proof.
  induction a as [|c a IH]; intros st b; cbn [app scan run]; auto.
  destruct (step st c) as [st' [w|]]; cbn [fst]; rewrite IH; reflexivity.
Qed.

Lemma run_app a : forall st b, run st (a ++ b) = run (run st a) b.
Proof. induction a as [|c a IH]; intros st b; cbn [app run]; auto. Qed.

Lemma scan_word w : forall acc, forallb wordchar w = true ->
  scan (InWord acc) w = [] /\ run (InWord acc) w = InWord (rev w ++ acc).
Proof.
  induction w as [|c w IH]; intros acc H; cbn [scan run rev app]; auto.
  cbn in H. apply andb_true_iff in H as [Hc Hw]. cbn [step]. rewrite Hc. cbn [fst].
  destruct (IH (c :: acc) Hw) as [E1 E2]. rewrite E1, E2. split; auto.
  rewrite <- app_assoc. reflexivity.
Qed.

Lemma scan_repr k : ident k = true ->
  scan Idle (py_repr_plain k) = [k] /\ run Idle (py_repr_plain k) = AfterClose.
Proof.
  intros Hid. unfold ident in Hid. destruct k as [|c0 k0] eqn:Ek; try discriminate. rewrite <- Ek in *.
  assert (Hne : rev k <> []).
  { intros E. apply (f_equal (@rev N)) in E. rewrite rev_involutive in E. subst k. cbn in E. discriminate. }
  unfold py_repr_plain. cbn [scan run]. change (step Idle c_quote) with (InWord [], @None str). cbn [fst].
  rewrite scan_app, run_app. destruct (scan_word k [] Hid) as [E1 E2]. rewrite E1, E2. rewrite app_nil_r.
  cbn [app scan run step]. change (wordchar c_quote) with false. cbv iota. rewrite N.eqb_refl.
  destruct (rev k) eqn:Er; [contradiction|]. cbn [fst]. rewrite <- Er, rev_involutive. split; reflexivity.
Qed.

Lemma scan_join ks : forallb ident ks = true ->
  scan Idle (join_reprs ks) = ks /\ run Idle (join_reprs ks) = match ks with [] => Idle | _ => AfterClose end.
Proof.
  induction ks as [|k r IH]; intros H; [split; reflexivity|].
  cbn in H. apply andb_true_iff in H as [Hk Hr]. destruct (scan_repr k Hk) as [E1 E2].
  destruct r as [|k2 r'].
  - cbn [join_reprs]. auto.
  - change (join_reprs (k :: k2 :: r')) with (py_repr_plain k ++ [c_comma; 32%N] ++ join_reprs (k2 :: r')).
    rewrite scan_app, run_app, E1, E2. rewrite scan_app, run_app.
    change (scan AfterClose [c_comma; 32%N]) with (@nil str).
    change (run AfterClose [c_comma; 32%N]) with Idle.
    destruct (IH Hr) as [I1 I2]. rewrite I1, I2. split; reflexivity.
Qed.

Lemma addl_suffix_quiet n st : st = Idle \/ st = AfterClose -> scan st (addl_suffix n) = [].
Proof. unfold addl_suffix. intros [E|E]; subst; destruct (Nat.eqb n 1); vm_compute; reflexivity. Qed.

(* on the message jsonschema builds, the regular expression returns exactly the listed keys *)
Theorem findall_addl_message ks : forallb ident ks = true -> findall_keys (addl_message ks) = ks.
Proof.
  intros H. unfold findall_keys, addl_message. rewrite scan_app.
  change (scan Idle addl_prefix) with (@nil str).
  assert (Ep : run Idle addl_prefix = Idle) by (vm_compute; reflexivity). rewrite Ep.
  rewrite scan_app. destruct (scan_join ks H) as [E1 E2]. rewrite E1, E2.
  rewrite addl_suffix_quiet; [apply app_nil_r|]. destruct ks; auto.
Qed.

(* ------------------------------------------------------------------------------------------------ sorting *)
Lemma insert_str_In x l y : In y (insert_str x l) <-> y = x \/ In y l.
Proof.
  induction l as [|a l IH]; cbn; [intuition|].
  destruct (str_leb x a); cbn; [intuition|]. rewrite IH. intuition.
Qed.

Lemma sort_strs_In l y : In y (sort_strs l) <-> In y l.
Proof.
  induction l as [|a l IH]; cbn; [intuition|]. rewrite insert_str_In, IH. intuition.
Qed.

Lemma sort_strs_forallb f l : forallb f l = true -> forallb f (sort_strs l) = true.
Proof.
  rewrite !forallb_forall. intros H x Hx. apply H. apply sort_strs_In. exact Hx.
Qed.

(* ------------------------------------------------------------------------------------------------ unknown keys *)
Theorem additional_exposes_key_partial e :
  wf_verr e = true -> v_kind e = VAdditional -> v_spat e = false ->
  forallb ident (extras_of (v_inst e) (v_sprops e)) = true ->
  exists k kvs m,
    v_inst e = JObj kvs /\
    process_error e = Lib (EInvalidKey (Some k) m) /\
    In k (keys kvs) /\ ~ In k (v_sprops e) /\ ident k = true /\
    hd_error (sort_strs (extras_of (v_inst e) (v_sprops e))) = Some k.
Proof.
  destruct e as [kd vv i st sp pt p m ctx]. cbn [v_kind v_inst v_spat v_sprops]. intros H Hk Hp Hid. subst kd pt.
  cbn [wf_verr] in H. apply andb_true_iff in H as [H H3]. apply andb_true_iff in H as [H1 H2].
  destruct i; try discriminate. cbn [orb] in H3. apply andb_true_iff in H3 as [Hne Hm].
  rewrite Hid in Hm. apply str_eqb_eq in Hm.
  set (ex := extras_of (JObj kvs) sp) in *.
  assert (Hs : forallb ident (sort_strs ex) = true) by (apply sort_strs_forallb; exact Hid).
  destruct (sort_strs ex) as [|k r] eqn:Es.
  { destruct ex as [|x ex'] eqn:Ex; try discriminate.
    assert (In x (sort_strs (x :: ex'))) by (apply sort_strs_In; left; reflexivity). rewrite Es in H. contradiction. }
  assert (Hin : In k ex) by (apply sort_strs_In; rewrite Es; left; reflexivity).
  unfold ex, extras_of in Hin. apply filter_In in Hin as [Hk1 Hk2]. apply negb_true_iff in Hk2.
  exists k, kvs, m_unknown_keys. repeat split; auto.
  - cbn [process_error]. rewrite H1. subst m. rewrite findall_addl_message by exact Hs. reflexivity.
  - intros Hc. apply mem_str_In in Hc. rewrite Hc in Hk2. discriminate.
  - cbn in Hs. apply andb_true_iff in Hs as [Hs _]. exact Hs.
Qed.

(* ------------------------------------------------------------------------------------------------ validate *)
Section Validate.
  Variable rxm : N -> str -> bool.
  Variable js : json -> schema -> js_result.
  (* the contract on jsonschema: it raises ValidationError exactly on non-conforming values, and the record is well-formed *)
  Hypothesis js_iff : forall v s, js v s = JsOk <-> conforms rxm s v = true.
  Hypothesis js_wf : forall v s e, js v s = JsError e -> wf_verr e = true.

  Theorem validate_silent_iff_conforms v s : validate js v s = Silent <-> conforms rxm s v = true.
  Proof.
    unfold validate. rewrite <- js_iff. destruct (js v s); split; intros H; try reflexivity; discriminate.
  Qed.

  Theorem validate_raises_lib_only v s :
    (validate js v s = Silent /\ conforms rxm s v = true) \/
    (exists le, validate js v s = Raises (Lib le) /\ msg_nonempty (err_msg le) = true /\ conforms rxm s v = false).
  Proof.
    unfold validate. destruct (js v s) as [|e] eqn:E.
    - left. split; auto. apply js_iff. exact E.
    - right. destruct (process_error_total_lib e (js_wf _ _ _ E)) as [le [H1 H2]].
      exists le. rewrite H1. repeat split; auto.
      destruct (conforms rxm s v) eqn:C; auto. apply js_iff in C. rewrite C in E. discriminate.
  Qed.
End Validate.

(* the contract is satisfiable: a jsonschema that reports every failure as an untranslated keyword *)
Definition js_trivial (rxm : N -> str -> bool) (v : json) (s : schema) : js_result :=
  if conforms rxm s v then JsOk else JsError (VErr VOther JNull v None [] false [] [] []).

Lemma js_trivial_contract rxm :
  (forall v s, js_trivial rxm v s = JsOk <-> conforms rxm s v = true) /\
  (forall v s e, js_trivial rxm v s = JsError e -> wf_verr e = true).
Proof.
  split; intros v s; unfold js_trivial; destruct (conforms rxm s v).
  - split; auto.
  - split; discriminate.
  - discriminate.
  - intros e H. inversion H. reflexivity.
Qed.

(* ------------------------------------------------------------------------------------------------ refutation:
   without the draft-4+ contract on `required` the translation escapes with TypeError.  jsonschema's draft-3 `required`
   raises exactly this record for validate({}, {"$schema": draft-03, "properties": {"a": {"required": true}}}). *)
Definition draft3_required_error : verr :=
  VErr VRequired (JBool true) (JObj []) None [codes "a"%string] false [] (codes "'a' is a required property"%string) [].

Theorem process_error_total_refuted :
  exists e, v_kind e = VRequired /\ v_value e = JBool true /\ process_error e = Raw RTypeError /\ wf_verr e = false.
Proof. exists draft3_required_error. vm_compute. repeat split; reflexivity. Qed.
