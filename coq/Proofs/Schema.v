(* Proofs for C20 about LV.Model.Schema. *)
From Coq Require Import List ZArith NArith QArith Bool Arith Lia String.
From LV Require Import Model.Schema.
Import ListNotations.

(* ------------------------------------------------------------------------------------------------ basics *)
Lemma str_eqb_eq a : forall b, str_eqb a b = true -> a = b.
Proof.
  induction a as [|x a IH]; intros [|y b] H; cbn in H; try discriminate; auto.
  apply andb_true_iff in H as [H1 H2]. apply N.eqb_eq in H1. subst. f_equal. auto.
Qed.

Lemma str_eqb_refl a : str_eqb a a = true.
Proof. induction a as [|x a IH]; cbn; auto. rewrite N.eqb_refl, IH. reflexivity. Qed.

Lemma mem_str_In k l : mem_str k l = true <-> In k l.
Proof.
  unfold mem_str. rewrite existsb_exists. split.
  - intros [x [Hin He]]. apply str_eqb_eq in He. subst. exact Hin.
  - intros H. exists k. split; auto. apply str_eqb_refl.
Qed.

(* induction along the first element of the context list: the only recursion process_error performs *)
Lemma verr_ind_first (P : verr -> Prop) :
  (forall k vv i st sp pt pts p m, P (VErr k vv i st sp pt pts p m [])) ->
  (forall k vv i st sp pt pts p m c cs, P c -> P (VErr k vv i st sp pt pts p m (c :: cs))) ->
  forall e, P e.
Proof.
  intros H0 H1. fix IH 1. intros [k vv i st sp pt pts p m [|c cs]].
  - apply H0.
  - apply H1. apply IH.
Qed.

Lemma existsb_hd_filter {A} (f : A -> bool) l :
  existsb f l = true -> exists x, hd_error (filter f l) = Some x /\ In x l /\ f x = true.
Proof.
  induction l as [|a l IH]; cbn; intros H; try discriminate.
  destruct (f a) eqn:Hf.
  - exists a. cbn. auto.
  - cbn in H. destruct (IH H) as [x [Hh [Hi Hx]]]. exists x. auto.
Qed.

(* ------------------------------------------------------------------------------------------------ messages *)
Lemma m_props_ne b : msg_nonempty (m_props b) = true. Proof. destruct b; reflexivity. Qed.
Lemma m_bound_ne b : msg_nonempty (m_bound b) = true. Proof. destruct b; reflexivity. Qed.
Lemma m_length_ne b : msg_nonempty (m_length b) = true. Proof. destruct b; reflexivity. Qed.
Lemma m_type_ne b : msg_nonempty (m_type b) = true. Proof. destruct b; reflexivity. Qed.

Lemma required_outcome_msg vv inst path le :
  required_outcome vv inst path = Lib le -> msg_nonempty (err_msg le) = true.
Proof.
  unfold required_outcome. intros H.
  assert (G : match inst with
              | JObj kvs =>
                  match iter_json vv with
                  | None => Raw RTypeError
                  | Some ks =>
                      if forallb hashable ks
                      then Lib (EMissingKey (hd_error (filter (fun k => negb (key_in k kvs)) ks)) m_missing)
                      else Raw RTypeError
                  end
              | _ => match subscript0 vv with inl x => Raw x | inr k => Lib (EMissingKey (Some k) m_missing) end
              end = Lib le -> msg_nonempty (err_msg le) = true).
  { clear H. intros H.
    destruct inst; try (destruct (subscript0 vv); inversion H; reflexivity).
    destruct (iter_json vv); try discriminate. destruct (forallb hashable l); inversion H. reflexivity. }
  destruct vv; try (apply G; exact H).
  inversion H. reflexivity.
Qed.

(* whenever process_error produces a library error its message is non-empty (no assumption on the record) *)
Lemma process_error_msg_nonempty : forall e le, process_error e = Lib le -> msg_nonempty (err_msg le) = true.
Proof.
  apply (verr_ind_first (fun e => forall le, process_error e = Lib le -> msg_nonempty (err_msg le) = true)).
  - intros k vv i st sp pt pts p m le H. cbn in H.
    destruct k; try (inversion H; subst; cbn [err_msg];
                     first [reflexivity | apply m_props_ne | apply m_bound_ne | apply m_length_ne]).
    + destruct (is_false vv); inversion H; reflexivity.
    + destruct st; inversion H. cbn [err_msg]. apply m_type_ne.
    + eapply required_outcome_msg; eauto.
    + destruct (iter_json vv); inversion H. reflexivity.
  - intros k vv i st sp pt pts p m c cs IH le H. cbn in H.
    destruct k; try (inversion H; subst; cbn [err_msg];
                     first [reflexivity | apply m_props_ne | apply m_bound_ne | apply m_length_ne]).
    + destruct (is_false vv); inversion H; reflexivity.
    + destruct st; inversion H. cbn [err_msg]. apply m_type_ne.
    + eapply required_outcome_msg; eauto.
    + destruct (iter_json vv); inversion H. reflexivity.
    + apply IH. exact H.
    + apply IH. exact H.
Qed.

Lemma is_str_hashable ks : forallb is_str ks = true -> forallb hashable ks = true.
Proof.
  induction ks as [|a ks IH]; cbn; auto. intros H. apply andb_true_iff in H as [H1 H2].
  rewrite (IH H2). destruct a; try discriminate; reflexivity.
Qed.

(* a well-formed record is never translated into a non-library exception *)
Lemma process_error_wf_lib pm : forall e, wf_verr pm e = true -> exists le, process_error e = Lib le.
Proof.
  apply (verr_ind_first (fun e => wf_verr pm e = true -> exists le, process_error e = Lib le)).
  - intros k vv i st sp pt pts p m H. cbn in H. cbn [process_error].
    destruct k; try (eexists; reflexivity).
    + destruct (is_false vv); eexists; reflexivity.
    + destruct st; try discriminate. eexists; reflexivity.
    + destruct i; try discriminate. destruct vv; try discriminate.
      * unfold required_outcome. eexists; reflexivity.
      * apply andb_true_iff in H as [H1 H2]. unfold required_outcome. cbn [iter_json].
        rewrite (is_str_hashable _ H1). eexists; reflexivity.
    + destruct vv; try discriminate. eexists; reflexivity.
  - intros k vv i st sp pt pts p m c cs IH H. cbn in H. cbn [process_error].
    destruct k; try (eexists; reflexivity).
    + destruct (is_false vv); eexists; reflexivity.
    + destruct st; try discriminate. eexists; reflexivity.
    + destruct i; try discriminate. destruct vv; try discriminate.
      * unfold required_outcome. eexists; reflexivity.
      * apply andb_true_iff in H as [H1 H2]. unfold required_outcome. cbn [iter_json].
        rewrite (is_str_hashable _ H1). eexists; reflexivity.
    + destruct vv; try discriminate. eexists; reflexivity.
    + destruct vv; try discriminate. apply andb_true_iff in H as [H1 _]. apply IH. exact H1.
    + destruct vv; try discriminate. apply andb_true_iff in H as [H1 _]. apply IH. exact H1.
Qed.

Theorem process_error_total_lib pm e :
  wf_verr pm e = true -> exists le, process_error e = Lib le /\ msg_nonempty (err_msg le) = true.
Proof.
  intros H. destruct (process_error_wf_lib pm e H) as [le Hle]. exists le. split; auto.
  eapply process_error_msg_nonempty; eauto.
Qed.

(* ------------------------------------------------------------------------------------------------ required *)
(* a `required` record of either shape - the list of required keys of draft 4 and later, or the boolean of draft 3 whose
   key ends the path - is translated to MissingJsonKeyError exposing a key that is required and absent from the instance *)
Theorem required_exposes_key pm e :
  wf_verr pm e = true -> v_kind e = VRequired ->
  exists k kvs m,
    v_inst e = JObj kvs /\
    process_error e = Lib (EMissingKey (Some (JStr k)) m) /\
    ~ In k (keys kvs) /\
    ((exists ks, v_value e = JArr ks /\ In (JStr k) ks) \/
     (v_value e = JBool true /\ last_part (v_path e) = Some (PKey k) /\ In k (v_sprops e))).
Proof.
  destruct e as [k vv i st sp pt pts p m ctx]. cbn [v_kind v_inst v_value v_path v_sprops]. intros H Hk. subst k.
  cbn in H. destruct i; try discriminate. destruct vv; try discriminate.
  - (* draft 3 *)
    destruct b; try discriminate.
    destruct (last_part p) as [[n|k]|] eqn:Hl; try discriminate.
    apply andb_true_iff in H as [H1 H2]. apply negb_true_iff in H1.
    exists k, kvs, m_missing. repeat split.
    + cbn [process_error]. unfold required_outcome. rewrite Hl. reflexivity.
    + intros Hin. apply mem_str_In in Hin. rewrite Hin in H1. discriminate.
    + right. repeat split; auto. apply mem_str_In. exact H2.
  - (* draft 4 and later *)
    apply andb_true_iff in H as [H1 H2].
    destruct (existsb_hd_filter _ _ H2) as [x [Hh [Hi Hx]]].
    assert (Hs : is_str x = true) by (rewrite forallb_forall in H1; auto).
    destruct x; try discriminate.
    exists s, kvs, m_missing. repeat split.
    + cbn [process_error]. unfold required_outcome. cbn [iter_json]. rewrite (is_str_hashable _ H1). rewrite Hh. reflexivity.
    + intros Hin. apply mem_str_In in Hin. cbn in Hx. rewrite Hin in Hx. discriminate.
    + left. exists l. split; auto.
Qed.

(* the draft-3 shape alone, for every such record: the exposed key is the last element of the error's path *)
Theorem required_draft3_exposes_path_key pm e b :
  wf_verr pm e = true -> v_kind e = VRequired -> v_value e = JBool b ->
  exists k kvs m front,
    b = true /\ v_inst e = JObj kvs /\ v_path e = front ++ [PKey k] /\
    process_error e = Lib (EMissingKey (Some (JStr k)) m) /\
    ~ In k (keys kvs) /\ In k (v_sprops e).
Proof.
  intros H Hk Hv. destruct (required_exposes_key pm e H Hk) as [k [kvs [m [Hi [Hp [Hn [[ks [E _]]|[E [Hl Hs]]]]]]]]].
  - rewrite Hv in E. discriminate.
  - rewrite Hv in E. inversion E. subst b.
    assert (Hf : forall p q, last_part p = Some q -> exists front, p = front ++ [q]).
    { induction p as [|a p IH]; intros q Hq; [discriminate|].
      destruct p as [|a' p'].
      - cbn in Hq. inversion Hq. subst. exists []. reflexivity.
      - change (last_part (a :: a' :: p')) with (last_part (a' :: p')) in Hq.
        destruct (IH q Hq) as [front Ef]. exists (a :: front). rewrite Ef. reflexivity. }
    destruct (Hf _ _ Hl) as [front Ef].
    exists k, kvs, m, front. repeat split; auto.
Qed.

(* ------------------------------------------------------------------------------------------------ type *)
Theorem type_exposes_value_and_type pm e :
  wf_verr pm e = true -> v_kind e = VType ->
  exists t ts m,
    v_sty e = Some t /\ type_decl t = Some ts /\
    process_error e = Lib (EInvalidType (v_inst e) t m) /\
    existsb (has_type (v_inst e)) ts = false.
Proof.
  destruct e as [k vv i st sp pt pts p m ctx]. cbn [v_kind v_inst v_sty]. intros H Hk. subst k.
  cbn in H. destruct st as [t|]; try discriminate. destruct (type_decl t) as [ts|] eqn:Ht; try discriminate.
  apply andb_true_iff in H as [_ H2]. apply negb_true_iff in H2.
  exists t, ts. eexists. repeat split; eauto.
Qed.

(* the record with an EMPTY path - a type error on the document itself, or the first branch of a oneOf / anyOf whose own
   `type` fails (a context record's path is relative to its parent) - takes the keyless message form of
   InvalidTypeError.__init__ and exposes value and type all the same *)
Theorem type_keyless_exposes_value_and_type pm e :
  wf_verr pm e = true -> v_kind e = VType -> v_path e = [] ->
  exists t ts,
    v_sty e = Some t /\ type_decl t = Some ts /\
    process_error e = Lib (EInvalidType (v_inst e) t (m_type false)) /\
    existsb (has_type (v_inst e)) ts = false.
Proof.
  destruct e as [k vv i st sp pt pts p m ctx]. cbn [v_kind v_inst v_sty v_path]. intros H Hk Hp. subst k p.
  cbn in H. destruct st as [t|]; try discriminate. destruct (type_decl t) as [ts|] eqn:Ht; try discriminate.
  apply andb_true_iff in H as [_ H2]. apply negb_true_iff in H2.
  exists t, ts. repeat split; auto.
Qed.

(* a oneOf / anyOf record with a context is translated as its FIRST context record, whatever that is *)
Theorem combinator_translates_first_context e c rest :
  (v_kind e = VOneOf \/ v_kind e = VAnyOf) -> v_ctx e = c :: rest -> process_error e = process_error c.
Proof.
  destruct e as [k vv i st sp pt pts p m ctx]. cbn [v_kind v_ctx]. intros [Hk|Hk] Hc; subst k ctx; reflexivity.
Qed.

(* ------------------------------------------------------------------------------------------------ the scanner *)
Fixpoint run (st : sstate) (s : str) : sstate :=
  match s with [] => st | c :: r => run (fst (step st c)) r end.

Lemma scan_app a : forall st b, scan st (a ++ b) = scan st a ++ scan (run st a) b.
Proof.
  induction a as [|c a IH]; intros st b; cbn [app scan run]; auto.
  destruct (step st c) as [st' [w|]]; cbn [fst]; rewrite IH; reflexivity.
Qed.

Lemma run_app a : forall st b, run st (a ++ b) = run (run st a) b.
Proof. induction a as [|c a IH]; intros st b; cbn [app run]; auto. Qed.

Lemma scan_word w : forall acc, forallb wordchar w = true ->
  scan (InWord acc) w = [] /\ run (InWord acc) w = InWord (rev w ++ acc).
Proof.
  induction w as [|c w IH]; intros acc H; cbn [scan run rev app]; auto.
  cbn in H. apply andb_true_iff in H as [Hc Hw]. cbn [step]. rewrite Hc. cbn [fst].
  destruct (IH (c :: acc) Hw) as [E1 E2]. rewrite E1, E2. split; auto.
  rewrite <- app_assoc. reflexivity.
Qed.

Lemma scan_repr k : ident k = true ->
  scan Idle (py_repr_plain k) = [k] /\ run Idle (py_repr_plain k) = AfterClose.
Proof.
  intros Hid. unfold ident in Hid. destruct k as [|c0 k0] eqn:Ek; try discriminate. rewrite <- Ek in *.
  assert (Hne : rev k <> []).
  { intros E. apply (f_equal (@rev N)) in E. rewrite rev_involutive in E. subst k. cbn in E. discriminate. }
  unfold py_repr_plain. cbn [scan run]. change (step Idle c_quote) with (InWord [], @None str). cbn [fst].
  rewrite scan_app, run_app. destruct (scan_word k [] Hid) as [E1 E2]. rewrite E1, E2. rewrite app_nil_r.
  cbn [app scan run step]. change (wordchar c_quote) with false. cbv iota. rewrite N.eqb_refl.
  destruct (rev k) eqn:Er; [contradiction|]. cbn [fst]. rewrite <- Er, rev_involutive. split; reflexivity.
Qed.

Lemma scan_join ks : forallb ident ks = true ->
  scan Idle (join_reprs ks) = ks /\ run Idle (join_reprs ks) = match ks with [] => Idle | _ => AfterClose end.
Proof.
  induction ks as [|k r IH]; intros H; [split; reflexivity|].
  cbn in H. apply andb_true_iff in H as [Hk Hr]. destruct (scan_repr k Hk) as [E1 E2].
  destruct r as [|k2 r'].
  - cbn [join_reprs]. auto.
  - change (join_reprs (k :: k2 :: r')) with (py_repr_plain k ++ [c_comma; 32%N] ++ join_reprs (k2 :: r')).
    rewrite scan_app, run_app, E1, E2. rewrite scan_app, run_app.
    change (scan AfterClose [c_comma; 32%N]) with (@nil str).
    change (run AfterClose [c_comma; 32%N]) with Idle.
    destruct (IH Hr) as [I1 I2]. rewrite I1, I2. split; reflexivity.
Qed.

Lemma addl_suffix_quiet n st : st = Idle \/ st = AfterClose -> scan st (addl_suffix n) = [].
Proof. unfold addl_suffix. intros [E|E]; subst; destruct (Nat.eqb n 1); vm_compute; reflexivity. Qed.

(* on the message jsonschema builds, the regular expression returns exactly the listed keys *)
Theorem findall_addl_message ks : forallb ident ks = true -> findall_keys (addl_message ks) = ks.
Proof.
  intros H. unfold findall_keys, addl_message. rewrite scan_app.
  change (scan Idle addl_prefix) with (@nil str).
  assert (Ep : run Idle addl_prefix = Idle) by (vm_compute; reflexivity). rewrite Ep.
  rewrite scan_app. destruct (scan_join ks H) as [E1 E2]. rewrite E1, E2.
  rewrite addl_suffix_quiet; [apply app_nil_r|]. destruct ks; auto.
Qed.

(* ------------------------------------------------------------------------------------------------ sorting *)
Lemma insert_str_In x l y : In y (insert_str x l) <-> y = x \/ In y l.
Proof.
  induction l as [|a l IH]; cbn; [intuition|].
  destruct (str_leb x a); cbn; [intuition|]. rewrite IH. intuition.
Qed.

Lemma sort_strs_In l y : In y (sort_strs l) <-> In y l.
Proof.
  induction l as [|a l IH]; cbn; [intuition|]. rewrite insert_str_In, IH. intuition.
Qed.

Lemma sort_strs_forallb f l : forallb f l = true -> forallb f (sort_strs l) = true.
Proof.
  rewrite !forallb_forall. intros H x Hx. apply H. apply sort_strs_In. exact Hx.
Qed.

(* ------------------------------------------------------------------------------------------------ unknown keys *)
Lemma extras_pat_nil pm inst sp : extras_pat pm inst sp [] = extras_of inst sp.
Proof.
  unfold extras_pat, extras_of. destruct inst; auto. apply filter_ext. intros k.
  unfold pat_matched. cbn. apply andb_true_r.
Qed.

Lemma prefix_str_app p : forall m, prefix_str p m = true -> exists t, m = p ++ t.
Proof.
  induction p as [|x p IH]; intros m H.
  - exists m. reflexivity.
  - destruct m as [|y m]; cbn in H; try discriminate. apply andb_true_iff in H as [H1 H2].
    apply N.eqb_eq in H1. subst y. destruct (IH m H2) as [t Et]. exists t. rewrite Et. reflexivity.
Qed.

(* after a non-empty list of identifier-like keys the scanner has returned exactly those keys, whatever follows *)
Lemma scan_join_tail ks tail : forallb ident ks = true -> ks <> [] ->
  scan Idle (join_reprs ks ++ tail) = ks ++ scan AfterClose tail.
Proof.
  intros H Hne. rewrite scan_app. destruct (scan_join ks H) as [E1 E2]. rewrite E1, E2.
  destruct ks; [contradiction|reflexivity].
Qed.

(* on every message that starts the way jsonschema starts it with patternProperties, the regular expression returns
   the listed keys first; what follows them comes from the text after the keys (the patterns) *)
Theorem findall_addl_pat_head ks tail : forallb ident ks = true -> ks <> [] ->
  exists rest, findall_keys (addl_pat_head ks ++ tail) = ks ++ rest.
Proof.
  intros H Hne. unfold findall_keys, addl_pat_head. rewrite <- !app_assoc. rewrite scan_join_tail by assumption.
  eexists. reflexivity.
Qed.

(* ------------------------------------------------------------------------------------------------
   the complete result of the regular expression on the patternProperties message, for patterns whose repr is the
   plain one: printable ASCII without single quote and backslash (double quotes allowed: without a single quote in the
   string Python still delimits with single quotes).  Such a pattern is returned iff it is identifier-like. *)
Definition plain_char (c : N) : bool :=
  N.leb 32 c && N.ltb c 127 && negb (N.eqb c c_quote) && negb (N.eqb c c_bslash).
Definition plain_pat (p : str) : bool := forallb plain_char p.

Lemma repr_char_plain c : plain_char c = true -> repr_char c_quote c = [c].
Proof.
  unfold plain_char, repr_char, c_quote, c_bslash. intros H.
  apply andb_true_iff in H as [H H4]. apply andb_true_iff in H as [H H3]. apply andb_true_iff in H as [H1 H2].
  apply negb_true_iff in H3. apply negb_true_iff in H4. apply N.leb_le in H1. apply N.ltb_lt in H2.
  unfold c_quote in H3. unfold c_bslash in H4. rewrite H3, H4. cbn [orb].
  assert (E9 : N.eqb c 9 = false) by (apply N.eqb_neq; lia).
  assert (E10 : N.eqb c 10 = false) by (apply N.eqb_neq; lia).
  assert (E13 : N.eqb c 13 = false) by (apply N.eqb_neq; lia).
  assert (E32 : N.ltb c 32 = false) by (apply N.ltb_ge; lia).
  assert (E127 : N.eqb c 127 = false) by (apply N.eqb_neq; lia).
  rewrite E9, E10, E13, E32, E127. reflexivity.
Qed.

Lemma plain_char_facts c : plain_char c = true -> N.ltb c 128 = true /\ N.eqb c_quote c = false.
Proof.
  unfold plain_char. intros H.
  apply andb_true_iff in H as [H H4]. apply andb_true_iff in H as [H H3]. apply andb_true_iff in H as [H1 H2].
  apply negb_true_iff in H3. apply N.ltb_lt in H2. split.
  - apply N.ltb_lt. lia.
  - rewrite N.eqb_sym. exact H3.
Qed.

Lemma py_repr_plain_pat p : plain_pat p = true -> py_repr p = Some (py_repr_plain p).
Proof.
  intros H. unfold py_repr, py_repr_plain.
  assert (Ha : is_ascii p = true).
  { unfold is_ascii. apply forallb_forall. intros c Hc. unfold plain_pat in H. rewrite forallb_forall in H.
    apply (plain_char_facts c (H c Hc)). }
  assert (Hq : has_char c_quote p = false).
  { unfold has_char. apply not_true_is_false. intros E. apply existsb_exists in E as [c [Hc Ec]].
    unfold plain_pat in H. rewrite forallb_forall in H. destruct (plain_char_facts c (H c Hc)) as [_ F].
    rewrite F in Ec. discriminate. }
  rewrite Ha, Hq. cbn [andb]. f_equal. f_equal.
  assert (Hf : flat_map (repr_char c_quote) p = p).
  { unfold plain_pat in H. induction p as [|c p IH]; [reflexivity|]. cbn in H. apply andb_true_iff in H as [Hc Hp].
    cbn [flat_map]. rewrite (repr_char_plain c Hc), IH by (try exact Hp; clear IH; unfold is_ascii in Ha; cbn in Ha;
      apply andb_true_iff in Ha as [_ Ha]; try exact Ha;
      unfold has_char in Hq; cbn in Hq; apply orb_false_iff in Hq as [_ Hq]; exact Hq). reflexivity. }
  rewrite Hf. reflexivity.
Qed.

Lemma py_reprs_plain pats : forallb plain_pat pats = true -> py_reprs pats = Some (map py_repr_plain pats).
Proof.
  induction pats as [|p r IH]; intros H; [reflexivity|]. cbn in H. apply andb_true_iff in H as [Hp Hr].
  unfold py_reprs in *. cbn [fold_right map]. rewrite (IH Hr), (py_repr_plain_pat p Hp). reflexivity.
Qed.

Definition no_quote (p : str) : bool := forallb (fun c => negb (N.eqb c c_quote)) p.
Definition neutral (st : sstate) : Prop := st = Idle \/ st = SawU \/ st = AfterClose \/ st = InWord [].

Lemma plain_no_quote p : plain_pat p = true -> no_quote p = true.
Proof.
  unfold plain_pat, no_quote. rewrite !forallb_forall. intros H c Hc. specialize (H c Hc). unfold plain_char in H.
  apply andb_true_iff in H as [H _]. apply andb_true_iff in H as [_ H]. exact H.
Qed.

(* outside a quoted word nothing is returned until the next quote *)
Lemma scan_quiet s : no_quote s = true -> forall st, st = Idle \/ st = SawU ->
  scan st s = [] /\ (run st s = Idle \/ run st s = SawU).
Proof.
  induction s as [|c s IH]; intros H st Hst; [cbn; auto|].
  cbn in H. apply andb_true_iff in H as [Hc Hs]. apply negb_true_iff in Hc.
  assert (E : step st c = (step_idle c, None)) by (destruct Hst; subst; reflexivity).
  cbn [scan run]. rewrite E. cbn [fst].
  assert (Hn : step_idle c = Idle \/ step_idle c = SawU).
  { unfold step_idle. destruct (N.eqb c c_u); auto. rewrite Hc. auto. }
  apply IH; assumption.
Qed.

Lemma wordchar_quote : wordchar c_quote = false. Proof. reflexivity. Qed.

(* from "inside the quotes, nothing read yet": one quoted quote-free string *)
Lemma scan_quoted_body p : no_quote p = true ->
  scan (InWord []) (p ++ [c_quote]) = (if ident p then [p] else []) /\
  run (InWord []) (p ++ [c_quote]) = (if ident p then AfterClose else InWord []).
Proof.
  intros Hq. destruct (ident p) eqn:Hid.
  - unfold ident in Hid. destruct p as [|c0 p0] eqn:Ep; try discriminate. rewrite <- Ep in *.
    assert (Hne : rev p <> []).
    { intros E. apply (f_equal (@rev N)) in E. rewrite rev_involutive in E. subst p. cbn in E. discriminate. }
    rewrite scan_app, run_app. destruct (scan_word p [] Hid) as [E1 E2]. rewrite E1, E2, app_nil_r.
    cbn [app scan run step]. rewrite wordchar_quote. cbv iota. rewrite N.eqb_refl.
    destruct (rev p) eqn:Er; [contradiction|]. cbn [fst]. rewrite <- Er, rev_involutive. split; reflexivity.
  - (* p is empty or has a first non-word character *)
    assert (G : forall acc, forallb wordchar p = false ->
                scan (InWord acc) (p ++ [c_quote]) = [] /\ run (InWord acc) (p ++ [c_quote]) = InWord []).
    { clear Hid. induction p as [|c p IH]; intros acc Hw; [discriminate|].
      cbn in Hq. apply andb_true_iff in Hq as [Hc Hp]. apply negb_true_iff in Hc.
      cbn [app scan run step]. destruct (wordchar c) eqn:Wc.
      - cbn [fst]. cbn in Hw. rewrite Wc in Hw. cbn in Hw. apply IH; assumption.
      - rewrite Hc. cbn [fst].
        rewrite scan_app, run_app. destruct (scan_quiet p Hp Idle (or_introl eq_refl)) as [Q1 Q2]. rewrite Q1.
        cbn [app]. destruct Q2 as [Q2|Q2]; rewrite Q2; split; reflexivity. }
    destruct p as [|c p].
    + split; reflexivity.
    + apply G. unfold ident in Hid. exact Hid.
Qed.

Lemma scan_quoted p st : no_quote p = true -> neutral st ->
  scan st (py_repr_plain p) = (if ident p then [p] else []) /\
  run st (py_repr_plain p) = (if ident p then AfterClose else InWord []).
Proof.
  intros Hq Hst. unfold py_repr_plain.
  assert (E : step st c_quote = (InWord [], None)) by (destruct Hst as [H|[H|[H|H]]]; subst; reflexivity).
  cbn [scan run]. rewrite E. cbn [fst]. apply scan_quoted_body. exact Hq.
Qed.

Lemma scan_sep st : st = AfterClose \/ st = InWord [] ->
  scan st [c_comma; 32%N] = [] /\ run st [c_comma; 32%N] = Idle.
Proof. intros [H|H]; subst; split; reflexivity. Qed.

Lemma scan_join_pats pats : forallb no_quote pats = true -> forall st, neutral st ->
  scan st (join_comma (map py_repr_plain pats)) = filter ident pats.
Proof.
  induction pats as [|p r IH]; intros H st Hst; [reflexivity|].
  cbn in H. apply andb_true_iff in H as [Hp Hr]. destruct (scan_quoted p st Hp Hst) as [E1 E2].
  destruct r as [|p2 r'].
  - cbn [map join_comma filter]. rewrite E1. destruct (ident p); reflexivity.
  - change (join_comma (map py_repr_plain (p :: p2 :: r')))
      with (py_repr_plain p ++ [c_comma; 32%N] ++ join_comma (map py_repr_plain (p2 :: r'))).
    rewrite scan_app, E1, E2, scan_app.
    assert (Hs : (if ident p then AfterClose else InWord []) = AfterClose \/ (if ident p then AfterClose else InWord []) = InWord [])
      by (destruct (ident p); auto).
    destruct (scan_sep _ Hs) as [S1 S2]. rewrite S1, S2. cbn [app].
    rewrite (IH Hr Idle (or_introl eq_refl)). cbn [filter]. destruct (ident p); reflexivity.
Qed.

Lemma scan_verb (b : bool) st : st = Idle \/ st = AfterClose ->
  scan st ((if b then codes " does" else codes " do") ++ codes " not match any of the regexes: ") = [] /\
  run st ((if b then codes " does" else codes " do") ++ codes " not match any of the regexes: ") = Idle.
Proof. intros [H|H]; subst; destruct b; vm_compute; split; reflexivity. Qed.

Theorem findall_addl_message_pat ks pats :
  forallb ident ks = true -> forallb plain_pat pats = true ->
  exists m, addl_message_pat ks pats = Some m /\ findall_keys m = ks ++ filter ident pats.
Proof.
  intros Hk Hp. unfold addl_message_pat. rewrite (py_reprs_plain pats Hp). eexists. split; [reflexivity|].
  unfold findall_keys, addl_pat_head. rewrite <- !app_assoc. rewrite scan_app.
  destruct (scan_join ks Hk) as [E1 E2]. rewrite E1, E2.
  rewrite app_assoc, scan_app.
  assert (Hst : match ks with [] => Idle | _ => AfterClose end = Idle \/ match ks with [] => Idle | _ => AfterClose end = AfterClose)
    by (destruct ks; auto).
  destruct (scan_verb (Nat.eqb (List.length ks) 1) _ Hst) as [V1 V2]. rewrite V1, V2. cbn [app].
  f_equal. apply scan_join_pats; [|left; reflexivity].
  apply forallb_forall. intros p Hin. rewrite forallb_forall in Hp. apply plain_no_quote. apply Hp. exact Hin.
Qed.

Lemma sort_strs_nonempty l : l <> [] -> sort_strs l <> [].
Proof.
  destruct l as [|x l]; [contradiction|]. intros _ E.
  assert (H : In x (sort_strs (x :: l))) by (apply sort_strs_In; left; reflexivity). rewrite E in H. contradiction.
Qed.

Theorem additional_exposes_key_patterns pm e :
  wf_verr pm e = true -> v_kind e = VAdditional ->
  forallb ident (extras_pat pm (v_inst e) (v_sprops e) (v_spats e)) = true ->
  exists k kvs m rest,
    v_inst e = JObj kvs /\
    process_error e = Lib (EInvalidKey (Some k) m) /\
    In k (keys kvs) /\ ~ In k (v_sprops e) /\ pat_matched pm (v_spats e) k = false /\ ident k = true /\
    hd_error (sort_strs (extras_pat pm (v_inst e) (v_sprops e) (v_spats e))) = Some k /\
    findall_keys (v_message e) = sort_strs (extras_pat pm (v_inst e) (v_sprops e) (v_spats e)) ++ rest /\
    (v_spat e = false -> rest = []).
Proof.
  destruct e as [kd vv i st sp pt pts p m ctx]. cbn [v_kind v_inst v_spat v_spats v_sprops v_message]. intros H Hk Hid. subst kd.
  cbn [wf_verr] in H. apply andb_true_iff in H as [H H4]. apply andb_true_iff in H as [H H3].
  apply andb_true_iff in H as [H1 H2].
  destruct i; try discriminate. cbv zeta in H4. apply andb_true_iff in H4 as [Hne Hm].
  rewrite Hid in Hm.
  set (ex := extras_pat pm (JObj kvs) sp pts) in *.
  assert (Hex : ex <> []) by (intros E; rewrite E in Hne; discriminate).
  assert (Hs : forallb ident (sort_strs ex) = true) by (apply sort_strs_forallb; exact Hid).
  assert (Hsn : sort_strs ex <> []) by (apply sort_strs_nonempty; exact Hex).
  assert (Hfind : exists rest, findall_keys m = sort_strs ex ++ rest /\ (pt = false -> rest = [])).
  { unfold addl_msg_ok in Hm. destruct pt.
    - apply andb_true_iff in Hm as [Hpre _]. apply prefix_str_app in Hpre as [tail Et]. subst m.
      destruct (findall_addl_pat_head (sort_strs ex) tail Hs Hsn) as [rest Er]. exists rest. split; [exact Er|discriminate].
    - apply str_eqb_eq in Hm. subst m. exists []. rewrite app_nil_r. split; [apply findall_addl_message; exact Hs|reflexivity]. }
  destruct Hfind as [rest [Hf Hr]].
  destruct (sort_strs ex) as [|k r] eqn:Es; [contradiction|].
  assert (Hin : In k ex) by (apply sort_strs_In; rewrite Es; left; reflexivity).
  unfold ex, extras_pat in Hin. apply filter_In in Hin as [Hk1 Hk2]. apply andb_true_iff in Hk2 as [Hk2 Hk3].
  apply negb_true_iff in Hk2. apply negb_true_iff in Hk3.
  exists k, kvs, m_unknown_keys, rest. repeat split; auto.
  - cbn [process_error]. rewrite H1, Hf. reflexivity.
  - intros Hc. apply mem_str_In in Hc. rewrite Hc in Hk2. discriminate.
  - cbn in Hs. apply andb_true_iff in Hs as [Hs _]. exact Hs.
Qed.

(* the case without patternProperties (the list of patterns is then empty and no key is matched) *)
Theorem additional_exposes_key_partial pm e :
  wf_verr pm e = true -> v_kind e = VAdditional -> v_spat e = false ->
  forallb ident (extras_of (v_inst e) (v_sprops e)) = true ->
  exists k kvs m,
    v_inst e = JObj kvs /\
    process_error e = Lib (EInvalidKey (Some k) m) /\
    In k (keys kvs) /\ ~ In k (v_sprops e) /\ ident k = true /\
    hd_error (sort_strs (extras_of (v_inst e) (v_sprops e))) = Some k.
Proof.
  intros H Hk Hp Hid.
  assert (Hps : v_spats e = []).
  { destruct e as [kd vv i st sp pt pts p m ctx]. cbn [v_kind v_spat v_spats] in *. subst kd pt.
    cbn [wf_verr] in H. apply andb_true_iff in H as [H _]. apply andb_true_iff in H as [_ H3].
    destruct pts; [reflexivity|discriminate]. }
  pose proof (additional_exposes_key_patterns pm e H Hk) as T. rewrite Hps, extras_pat_nil in T.
  destruct (T Hid) as [k [kvs [m [rest [A [B [C [D [_ [E [F _]]]]]]]]]]].
  exists k, kvs, m. repeat split; auto.
Qed.

(* what the premise "there is an unknown key" buys: a record with NO unknown key (jsonschema never raises one: the
   error is yielded only `elif not aP and extras`) whose message has the patternProperties form exposes a PATTERN *)
Definition no_unknown_key_error : verr :=
  VErr VAdditional (JBool false) (JObj [(codes "abc1"%string, JNull)]) None [] true [codes "abc"%string] []
       (match addl_message_pat [] [codes "abc"%string] with Some m => m | None => [] end) [].

Theorem additional_no_unknown_key_exposes_pattern :
  let pm := fun _ _ => true in
  v_kind no_unknown_key_error = VAdditional /\
  extras_pat pm (v_inst no_unknown_key_error) (v_sprops no_unknown_key_error) (v_spats no_unknown_key_error) = [] /\
  addl_message_pat [] (v_spats no_unknown_key_error) = Some (v_message no_unknown_key_error) /\
  process_error no_unknown_key_error = Lib (EInvalidKey (Some (codes "abc"%string)) m_unknown_keys) /\
  In (codes "abc"%string) (v_spats no_unknown_key_error) /\
  wf_verr pm no_unknown_key_error = false.
Proof. vm_compute. repeat split; auto. Qed.

(* in general, for patterns with plain reprs: a record without unknown key exposes the first identifier-like pattern
   (in sorted order), or None when no pattern is identifier-like *)
Theorem additional_no_unknown_key_general vv inst sty sp pts path ctx m :
  is_false vv = true -> forallb plain_pat pts = true -> addl_message_pat [] pts = Some m ->
  process_error (VErr VAdditional vv inst sty sp true pts path m ctx) =
  Lib (EInvalidKey (hd_error (filter ident pts)) m_unknown_keys).
Proof.
  intros Hv Hp Hm. destruct (findall_addl_message_pat [] pts eq_refl Hp) as [m' [E1 E2]].
  rewrite Hm in E1. inversion E1. subst m'. cbn [process_error]. rewrite Hv, E2. reflexivity.
Qed.

(* ------------------------------------------------------------------------------------------------ validate *)
Section Validate.
  Variable rxm : N -> str -> bool.
  Variable pm : list str -> str -> bool.
  Variable js : json -> schema -> js_result.
  (* the contract on jsonschema: it raises ValidationError exactly on non-conforming values, and the record is well-formed *)
  Hypothesis js_iff : forall v s, js v s = JsOk <-> conforms rxm pm s v = true.
  Hypothesis js_wf : forall v s e, js v s = JsError e -> wf_verr pm e = true.

  Theorem validate_silent_iff_conforms v s : validate js v s = Silent <-> conforms rxm pm s v = true.
  Proof.
    unfold validate. rewrite <- js_iff. destruct (js v s); split; intros H; try reflexivity; discriminate.
  Qed.

  Theorem validate_raises_lib_only v s :
    (validate js v s = Silent /\ conforms rxm pm s v = true) \/
    (exists le, validate js v s = Raises (Lib le) /\ msg_nonempty (err_msg le) = true /\ conforms rxm pm s v = false).
  Proof.
    unfold validate. destruct (js v s) as [|e] eqn:E.
    - left. split; auto. apply js_iff. exact E.
    - right. destruct (process_error_total_lib pm e (js_wf _ _ _ E)) as [le [H1 H2]].
      exists le. rewrite H1. repeat split; auto.
      destruct (conforms rxm pm s v) eqn:C; auto. apply js_iff in C. rewrite C in E. discriminate.
  Qed.
End Validate.

(* the contract is satisfiable: a jsonschema that reports every failure as an untranslated keyword *)
Definition js_trivial (rxm : N -> str -> bool) (pm : list str -> str -> bool) (v : json) (s : schema) : js_result :=
  if conforms rxm pm s v then JsOk else JsError (VErr VOther JNull v None [] false [] [] [] []).

Lemma js_trivial_contract rxm pm :
  (forall v s, js_trivial rxm pm v s = JsOk <-> conforms rxm pm s v = true) /\
  (forall v s e, js_trivial rxm pm v s = JsError e -> wf_verr pm e = true).
Proof.
  split; intros v s; unfold js_trivial; destruct (conforms rxm pm s v).
  - split; auto.
  - split; discriminate.
  - discriminate.
  - intros e H. inversion H. reflexivity.
Qed.

(* ------------------------------------------------------------------------------------------------ draft 3:
   the record jsonschema raises for validate({}, {"$schema": draft-03, "properties": {"a": {"required": true}}}) - a
   boolean validator value, the missing key at the end of the path - is well-formed and is translated to the library's
   MissingJsonKeyError exposing "a" (before the repair of process_error the boolean was iterated: TypeError). *)
Definition draft3_required_error : verr :=
  VErr VRequired (JBool true) (JObj []) None [codes "a"%string] false [] [PKey (codes "a"%string)]
       (codes "'a' is a required property"%string) [].

Theorem draft3_required_translated :
  (forall pm, wf_verr pm draft3_required_error = true) /\
  process_error draft3_required_error = Lib (EMissingKey (Some (JStr (codes "a"%string))) m_missing).
Proof. split; [intros pm|]; vm_compute; reflexivity. Qed.
