(* C14: the data filters return aligned arrays built from the right metric columns; SPE failure augmentation. *)
From Coq Require Import List QArith ZArith Bool Arith Lia Lra Psatz.
From LV Require Import Model.Pareto Proofs.Pareto Model.Phases Proofs.Phases Model.Filters.
Import ListNotations.
Open Scope Q_scope.

(* ------------------------------------------------------------------ list facts *)
Lemma select_length_eq {A B} : forall (m : list bool) (a : list A) (b : list B),
  length a = length b -> length (select m a) = length (select m b).
Proof.
  induction m as [|x m IH]; intros [|p a] [|q b] H; simpl in *; try reflexivity; try discriminate.
  destruct x; simpl; [f_equal|]; apply IH; lia.
Qed.

Lemma select_combine {A B} : forall (m : list bool) (a : list A) (b : list B),
  select m (combine a b) = combine (select m a) (select m b).
Proof.
  induction m as [|x m IH]; intros [|p a] [|q b]; simpl; try reflexivity.
  - destruct x; simpl; destruct (select m a); reflexivity.
  - destruct x; simpl; [f_equal|]; apply IH.
Qed.

(* the members of a selection are the members at the selected positions *)
Lemma select_spec {A} : forall (m : list bool) (l : list A) x,
  In x (select m l) <-> exists j, nth j m false = true /\ nth_error l j = Some x.
Proof.
  induction m as [|b m IH]; intros [|y l] x; simpl.
  - split; [tauto|intros ([|j] & H & _); discriminate].
  - split; [tauto|intros ([|j] & H & _); discriminate].
  - split; [tauto|intros ([|j] & _ & H); discriminate].
  - destruct b; simpl; rewrite IH; split.
    + intros [->|(j & H1 & H2)]; [exists O; split; reflexivity|exists (S j); split; assumption].
    + intros ([|j] & H1 & H2); [left; simpl in H2; congruence|right; exists j; split; assumption].
    + intros (j & H1 & H2). exists (S j). split; assumption.
    + intros ([|j] & H1 & H2); [discriminate|exists j; split; assumption].
Qed.

Lemma select_length_count {A} : forall (m : list bool) (l : list A), length m = length l ->
  length (select m l) = count_true m.
Proof.
  induction m as [|b m IH]; intros [|y l] H; simpl in *; try reflexivity; try discriminate.
  rewrite count_true_cons. destruct b; simpl; rewrite IH by lia; reflexivity.
Qed.

Lemma col_length k vals : length (col k vals) = length vals.
Proof. unfold col. apply map_length. Qed.

Lemma set_where_length mask x l : length mask = length l -> length (set_where mask x l) = length l.
Proof. intros H. unfold set_where. rewrite map_length, combine_length. lia. Qed.

Lemma set_where_nth : forall mask x l j d, length mask = length l -> (j < length l)%nat ->
  nth j (set_where mask x l) d = if nth j mask false then x else nth j l d.
Proof.
  induction mask as [|b m IH]; intros x [|y l] j d H Hj; simpl in *; try lia.
  destruct j as [|j]; [reflexivity|]. apply IH; lia.
Qed.

Lemma col_nth k vals j : (j < length vals)%nat -> nth j (col k vals) 0 = at_ vals j k.
Proof. intros H. symmetry. apply at_col. exact H. Qed.

Lemma dot2 a b w0 w1 : dot [a; b] [w0; w1] == w0 * a + w1 * b.
Proof. unfold dot. simpl. ring. Qed.

(* ------------------------------------------------------------------ labellings *)
Lemma eps_failures_length eps cm vals fails : length (eps_failures eps cm vals fails) = length vals.
Proof. unfold eps_failures. destruct (no_success vals fails); apply map_length. Qed.

Lemma pf_labelling_length eps om cm vals fails : length (pf_labelling eps om cm vals fails) = length vals.
Proof.
  unfold pf_labelling.
  destruct (min_successes om vals (eps_failures eps cm vals fails)) as [L _]; [now rewrite eps_failures_length|].
  rewrite L. apply eps_failures_length.
Qed.

Lemma merged_length eps cm vals fails : length vals = length fails ->
  length (map (fun p : bool * bool => fst p || snd p) (combine (eps_failures eps cm vals fails) fails)) = length vals.
Proof. intros H. rewrite map_length, combine_length, eps_failures_length. lia. Qed.

Lemma eps_labelling_length eps om cm vals fails : length vals = length fails ->
  length (eps_labelling eps om cm vals fails) = length vals.
Proof.
  intros H. unfold eps_labelling.
  destruct (min_successes om vals _ (eq_sym (merged_length eps cm vals fails H))) as [L _].
  rewrite L. apply merged_length. exact H.
Qed.

(* the threshold the epsilon-constraint filters use: the C13 value on the rows reported as successes *)
Definition eps_threshold (eps : Q) (cm : nat) (vals : list row) (fails : list bool) : Q :=
  eps_no_bounds eps cm (select (map negb fails) vals).

(* with no row reported as a success nothing is labelled by the threshold *)
Lemma eps_failures_nth eps cm vals fails j : (j < length vals)%nat ->
  nth j (eps_failures eps cm vals fails) false =
  negb (no_success vals fails) && Qle_bool (eps_threshold eps cm vals fails) (at_ vals j cm).
Proof.
  intros H. unfold eps_failures, eps_threshold, at_. destruct (no_success vals fails); cbn [negb andb].
  - set (f := fun _ : row => false). rewrite (nth_indep _ false (f [])) by (rewrite map_length; exact H).
    rewrite map_nth. reflexivity.
  - set (f := fun r : row => Qle_bool (eps_no_bounds eps cm (select (map negb fails) vals)) (nth cm r 0)).
    rewrite (nth_indep _ false (f [])) by (rewrite map_length; exact H).
    rewrite map_nth. reflexivity.
Qed.

Lemma merged_nth eps cm vals fails j : length vals = length fails -> (j < length vals)%nat ->
  nth j (map (fun p : bool * bool => fst p || snd p) (combine (eps_failures eps cm vals fails) fails)) false =
  negb (no_success vals fails) && Qle_bool (eps_threshold eps cm vals fails) (at_ vals j cm) || nth j fails false.
Proof.
  intros HL H.
  set (g := fun p : bool * bool => fst p || snd p).
  change false with (g (false, false)) at 1. rewrite map_nth, combine_nth by (rewrite eps_failures_length; exact HL).
  unfold g. cbn [fst snd]. rewrite eps_failures_nth by exact H. reflexivity.
Qed.

(* ------------------------------------------------------------------ lengths *)
Definition aligned (n : nat) (pts vals vars : list row) (fails : list bool) : Prop :=
  length pts = n /\ length vals = n /\ length vars = n /\ length fails = n.

Theorem filter_gp_lengths info n pts vals vars fails lie : aligned n pts vals vars fails ->
  let o := filter_gp info pts vals vars fails lie in
  length (o_pts o) = arr_len (o_vals o) /\ arr_len (o_vals o) = arr_len (o_vars o) /\
  (match info with EpsC _ _ _ => (arr_len (o_vals o) <= n)%nat | _ => arr_len (o_vals o) = n end).
Proof.
  intros (Hp & Hv & Hs & Hf). destruct info as [|om cm|w0 w1|om cm eps]; cbn -[col];
  rewrite ?col_length; try (repeat split; congruence).
  split; [|split].
  - apply select_length_eq. rewrite col_length. congruence.
  - apply select_length_eq. rewrite !col_length. congruence.
  - rewrite select_length_count by (rewrite map_length, pf_labelling_length, col_length; reflexivity).
    assert (H := count_negb (pf_labelling eps om cm vals fails)). rewrite pf_labelling_length in H. lia.
Qed.

Theorem filter_spe_lengths info n pts vals fails lie : aligned n pts vals vals fails ->
  let o := filter_spe info pts vals fails lie in length (fst o) = n /\ length (snd o) = n.
Proof.
  intros (Hp & Hv & _ & Hf). destruct info as [|om cm|w0 w1|om cm eps]; cbn -[col dot eps_labelling]; split; try exact Hp;
  rewrite set_where_length; rewrite ?col_length, ?map_length, ?eps_labelling_length; congruence.
Qed.

(* ------------------------------------------------------------------ columns, GP path *)
(* sum-of-GPs mode: both metric columns, untouched; single-metric modes: that metric's column *)
Theorem filter_gp_columns_plain info pts vals vars fails lie :
  match info with
  | Convex _ _ => filter_gp info pts vals vars fails lie = {| o_pts := pts; o_vals := A2 vals; o_vars := A2 vars; o_lie := A1 lie |}
  | OptOne om _ => filter_gp info pts vals vars fails lie =
                   {| o_pts := pts; o_vals := A1 (col om vals); o_vars := A1 (col om vars); o_lie := Sc (nth om lie 0) |}
  | NotMM => filter_gp info pts vals vars fails lie =
             {| o_pts := pts; o_vals := A1 (col 0 vals); o_vars := A1 (col 0 vars); o_lie := Sc (nth 0 lie 0) |}
  | EpsC _ _ _ => True
  end.
Proof. destruct info; reflexivity || exact I. Qed.

(* epsilon-constraint mode on the GP path: the output triples are exactly the input triples (point, optimising-metric
   value, optimising-metric variance) of the rows kept, in order; a removed row violates the threshold on the constrained
   metric; at least min(5, n) rows are kept; the rows restored by the minimum rule have the smallest optimising values *)
Theorem filter_gp_columns_eps eps om cm n pts vals vars fails lie : aligned n pts vals vars fails ->
  let o := filter_gp (EpsC om cm eps) pts vals vars fails lie in
  let lab := pf_labelling eps om cm vals fails in
  let thr := eps_threshold eps cm vals fails in
  length lab = n /\
  combine (o_pts o) (combine (arr1 (o_vals o)) (arr1 (o_vars o))) =
    select (map negb lab) (combine pts (combine (col om vals) (col om vars))) /\
  o_lie o = Sc (nth om lie 0) /\
  (forall j, (j < n)%nat -> nth j lab false = true -> thr <= at_ vals j cm) /\
  (forall j, (j < n)%nat -> at_ vals j cm < thr -> nth j lab false = false) /\
  (Nat.min 5 n <= count_true (map negb lab))%nat /\
  (forall a b, (a < n)%nat -> thr <= at_ vals a cm -> nth a lab false = false -> nth b lab false = true ->
     at_ vals a om <= at_ vals b om).
Proof.
  intros (Hp & Hv & Hs & Hf). cbv zeta.
  assert (HL : length vals = length (eps_failures eps cm vals fails)) by (now rewrite eps_failures_length).
  destruct (min_successes om vals _ HL) as (L & Hsub & Hcnt & Hord). fold (pf_labelling eps om cm vals fails) in *.
  rewrite eps_failures_length in L, Hcnt.
  split; [congruence|]. split; [|split; [reflexivity|]].
  - cbn -[col pf_labelling]. rewrite !select_combine. reflexivity.
  - split; [|split; [|split]].
    + intros j Hj Hlab. apply Hsub in Hlab. rewrite eps_failures_nth in Hlab by lia. apply andb_true_iff in Hlab.
      apply Qle_bool_iff. exact (proj2 Hlab).
    + intros j Hj Hlt. destruct (nth j (pf_labelling eps om cm vals fails) false) eqn:E; [|reflexivity].
      apply Hsub in E. rewrite eps_failures_nth in E by lia. apply andb_true_iff in E. destruct E as [_ E].
      apply Qle_bool_iff in E. lra.
    + rewrite Hcnt, Hv. unfold min_success. lia.
    + intros a b Ha Hthr Hna Hb. apply Hord; [|exact Hna|exact Hb].
      rewrite eps_failures_nth by lia.
      assert (Hb' : (b < n)%nat).
      { destruct (Nat.lt_ge_cases b n) as [Hlt|Hge]; [exact Hlt|]. rewrite nth_overflow in Hb by lia. discriminate. }
      pose proof (Hsub b Hb) as Eb. rewrite eps_failures_nth in Eb by lia. apply andb_true_iff in Eb. destruct Eb as [-> _].
      apply Qle_bool_iff. exact Hthr.
Qed.

(* ------------------------------------------------------------------ columns, Parzen-estimator path *)
Theorem filter_spe_columns_plain info n pts vals fails lie j : aligned n pts vals vals fails -> (j < n)%nat ->
  let o := filter_spe info pts vals fails lie in
  fst o = pts /\
  match info with
  | NotMM => nth j (snd o) 0 = if nth j fails false then nth 0 lie 0 else at_ vals j 0
  | OptOne om _ => nth j (snd o) 0 = if nth j fails false then nth om lie 0 else at_ vals j om
  | Convex w0 w1 => nth j (snd o) 0 = if nth j fails false then dot lie [w0; w1] else dot (nth j vals []) [w0; w1]
  | EpsC _ _ _ => True
  end.
Proof.
  intros (Hp & Hv & _ & Hf) Hj. destruct info as [|om cm|w0 w1|om cm eps]; cbn -[col dot]; (split; [reflexivity|]);
  try exact I.
  - rewrite set_where_nth by (rewrite ?col_length; lia). rewrite col_nth by lia. reflexivity.
  - rewrite set_where_nth by (rewrite ?col_length; lia). rewrite col_nth by lia. reflexivity.
  - rewrite set_where_nth by (rewrite ?map_length; lia).
    destruct (nth j fails false); [reflexivity|].
    change 0 with ((fun r : row => dot r [w0; w1]) []) at 1. rewrite map_nth. reflexivity.
Qed.

(* epsilon-constraint mode on the Parzen-estimator path: points untouched; a labelled row carries the lie value of the
   optimising metric, any other row its optimising-metric value; a labelled row is a reported failure or violates the
   threshold on the constrained metric; at least min(5, n) rows keep their value *)
Theorem filter_spe_columns_eps eps om cm n pts vals fails lie : aligned n pts vals vals fails ->
  let o := filter_spe (EpsC om cm eps) pts vals fails lie in
  let lab := eps_labelling eps om cm vals fails in
  let thr := eps_threshold eps cm vals fails in
  fst o = pts /\ length lab = n /\
  (forall j, (j < n)%nat -> nth j (snd o) 0 = if nth j lab false then nth om lie 0 else at_ vals j om) /\
  (forall j, (j < n)%nat -> nth j lab false = true -> nth j fails false = true \/ thr <= at_ vals j cm) /\
  (Nat.min 5 n <= count_true (map negb lab))%nat.
Proof.
  intros (Hp & Hv & _ & Hf). cbv zeta.
  assert (HL : length vals = length fails) by congruence.
  assert (LL := eps_labelling_length eps om cm vals fails HL).
  split; [reflexivity|]. split; [congruence|]. split; [|split].
  - intros j Hj. cbn -[col eps_labelling]. rewrite set_where_nth by (rewrite ?col_length; lia).
    rewrite col_nth by lia. reflexivity.
  - intros j Hj Hlab. unfold eps_labelling in Hlab.
    destruct (min_successes om vals _ (eq_sym (merged_length eps cm vals fails HL))) as (_ & Hsub & _).
    apply Hsub in Hlab. rewrite merged_nth in Hlab by lia. apply orb_true_iff in Hlab.
    destruct Hlab as [E|E]; [right; apply andb_true_iff in E; apply Qle_bool_iff; exact (proj2 E)|left; exact E].
  - assert (H := labelling_keeps_minimum eps om cm vals fails HL). rewrite Hf in H. exact H.
Qed.

(* ------------------------------------------------------------------ SPE failure augmentation *)
Lemma forall_ix_spec {A} (f : nat -> A -> bool) : forall l i,
  forall_ix f i l = true <-> forall k x, nth_error l k = Some x -> f (i + k)%nat x = true.
Proof.
  induction l as [|y l IH]; intros i; simpl.
  - split; [intros _ [|k] x H; discriminate|reflexivity].
  - rewrite andb_true_iff, IH. split.
    + intros [H0 H] [|k] x E; simpl in E; [injection E as <-; rewrite Nat.add_0_r; exact H0|].
      replace (i + S k)%nat with (S i + k)%nat by lia. apply H. exact E.
    + intros H. split; [specialize (H O y eq_refl); rewrite Nat.add_0_r in H; exact H|].
      intros k x E. replace (S i + k)%nat with (i + S k)%nat by lia. apply H. exact E.
Qed.

(* a row exceeds iff some metric with a (non-NaN) threshold is at or above it *)
Theorem exceeds_spec vals thr j : (j < length vals)%nat ->
  (nth j (exceeds vals thr) false = true <->
   exists i t, nth_error thr i = Some (Some t) /\ t <= at_ vals j i).
Proof.
  intros Hj. unfold exceeds, at_.
  set (f := fun r : row => negb (within thr r)).
  rewrite (nth_indep _ false (f [])) by (rewrite map_length; exact Hj). rewrite map_nth. unfold f.
  generalize (nth j vals []). intros r. rewrite negb_true_iff. unfold within. split.
  - intros H.
    assert (D : forall l i, forall_ix (fun i t => match t with None => true | Some t => Qltb (nth i r 0) t end) i l = false ->
                exists k t, nth_error l k = Some (Some t) /\ t <= nth (i + k) r 0).
    { induction l as [|y l IH]; intros i E; simpl in E; [discriminate|].
      apply andb_false_iff in E. destruct E as [E|E].
      - destruct y as [t|]; [|discriminate]. exists O, t. split; [reflexivity|]. rewrite Nat.add_0_r. apply Qltb_ge. exact E.
      - destruct (IH _ E) as (k & t & E1 & E2). exists (S k), t. split; [exact E1|].
        replace (i + S k)%nat with (S i + k)%nat by lia. exact E2. }
    destruct (D thr O H) as (k & t & E1 & E2). exists k, t. split; assumption.
  - intros (i & t & E1 & E2).
    destruct (forall_ix _ 0 thr) eqn:E; [|reflexivity]. exfalso.
    rewrite forall_ix_spec in E. specialize (E i (Some t) E1). simpl in E. apply Qltb_lt in E. lra.
Qed.

Lemma or3_length : forall a b c, length a = length b -> length a = length c -> length (or3 a b c) = length a.
Proof.
  induction a as [|x a IH]; intros [|y b] [|z c] H1 H2; simpl in *; try reflexivity; try discriminate.
  f_equal. apply IH; lia.
Qed.
Lemma or3_nth : forall a b c j, length a = length b -> length a = length c ->
  nth j (or3 a b c) false = nth j a false || nth j b false || nth j c false.
Proof.
  induction a as [|x a IH]; intros [|y b] [|z c] j H1 H2; simpl in *; try discriminate.
  - destruct j; reflexivity.
  - destruct j; [reflexivity|]. apply IH; lia.
Qed.

Lemma exceeds_length vals thr : length (exceeds vals thr) = length vals.
Proof. unfold exceeds. apply map_length. Qed.

(* the augmented mask contains the reported failures; it adds only rows that exceed an optimised-metric threshold (two-metric
   requests) or a constraint threshold (requests with constraints); and either nothing is added or at least five rows
   stay successes and at least one row is within the optimised-metric thresholds *)
Theorem spe_augmentation_spec rp hc obs af_vals opt_thr pf_vals con_thr :
  length af_vals = length obs -> length pf_vals = length obs ->
  let out := augment rp hc obs af_vals opt_thr pf_vals con_thr in
  let bv := if rp then exceeds af_vals opt_thr else repeat false (length obs) in
  let cv := if hc then exceeds pf_vals con_thr else repeat false (length obs) in
  length out = length obs /\
  (forall j, nth j obs false = true -> nth j out false = true) /\
  (forall j, nth j out false = true -> nth j obs false = true \/ nth j bv false = true \/ nth j cv false = true) /\
  (out = obs \/
   (out = or3 obs bv cv /\ (5 <= count_true (map negb out))%nat /\ (1 <= count_true (map negb bv))%nat)).
Proof.
  intros Ha Hp. cbv zeta. unfold augment.
  set (bv := if rp then exceeds af_vals opt_thr else repeat false (length obs)).
  set (cv := if hc then exceeds pf_vals con_thr else repeat false (length obs)).
  assert (Lb : length obs = length bv) by (unfold bv; destruct rp; rewrite ?exceeds_length, ?repeat_length; congruence).
  assert (Lc : length obs = length cv) by (unfold cv; destruct hc; rewrite ?exceeds_length, ?repeat_length; congruence).
  destruct (negb (rp || hc)); [repeat split; auto|].
  destruct ((Z.of_nat (length obs) - 1 <? zcount bv)%Z || (Z.of_nat (length obs) - 5 <? zcount cv)%Z
            || (Z.of_nat (length obs) - 5 <? zcount (or3 obs bv cv))%Z) eqn:E; [repeat split; auto|].
  apply orb_false_iff in E. destruct E as [E E3]. apply orb_false_iff in E. destruct E as [E1 E2].
  apply Z.ltb_ge in E1, E2, E3. unfold zcount in *.
  split; [apply or3_length; assumption|]. split; [|split].
  - intros j H. rewrite or3_nth by assumption. rewrite H. reflexivity.
  - intros j H. rewrite or3_nth in H by assumption. apply orb_true_iff in H. destruct H as [H|H]; [|tauto].
    apply orb_true_iff in H. tauto.
  - right. split; [reflexivity|].
    assert (C1 := count_negb (or3 obs bv cv)). rewrite or3_length in C1 by assumption.
    assert (C2 := count_negb bv). lia.
Qed.

(* ------------------------------------------------------------------ C13 at the wrappers: the guaranteed minimum survives
   the data flow of filter_multimetric_points_sampled (GP) and filter_multimetric_points_sampled_spe (Parzen estimator) *)
Lemma own_count_set_where : forall (lab : list bool) (x : Q) (l : list Q), length lab = length l ->
  (count_true (map negb lab) <= own_count l (set_where lab x l))%nat.
Proof.
  unfold own_count, set_where.
  induction lab as [|b lab IH]; intros x [|v l] H; simpl in *; try discriminate; [apply Nat.le_refl|].
  rewrite !count_true_cons. specialize (IH x l ltac:(lia)).
  destruct b; simpl.
  - lia.
  - assert (E : Qeq_bool v v = true) by (apply Qeq_bool_iff; reflexivity). rewrite E. lia.
Qed.

Lemma not_lie_count_set_where : forall (lab : list bool) (x : Q) (l : list Q), length lab = length l ->
  (forall v, In v l -> ~ v == x) ->
  not_lie_count x (set_where lab x l) = count_true (map negb lab).
Proof.
  unfold not_lie_count, set_where.
  induction lab as [|b lab IH]; intros x [|v l] H Hd; simpl in *; try discriminate; [reflexivity|].
  rewrite !count_true_cons. rewrite (IH x l) by (try lia; intros w Hw; apply Hd; right; exact Hw).
  destruct b; simpl.
  - assert (E : Qeq_bool x x = true) by (apply Qeq_bool_iff; reflexivity). rewrite E. reflexivity.
  - destruct (Qeq_bool v x) eqn:E; [|reflexivity]. apply Qeq_bool_iff in E. exfalso. apply (Hd v); [left; reflexivity|exact E].
Qed.

(* GP path: at least min(5, n) rows are handed on; the three outputs are equally long and are the (point, optimising
   value, optimising variance) triples of the rows kept, in order *)
Theorem wrapper_gp_keeps_minimum eps om cm n pts vals vars fails lie : aligned n pts vals vars fails ->
  let o := filter_gp (EpsC om cm eps) pts vals vars fails lie in
  (Nat.min 5 n <= length (o_pts o))%nat /\
  length (o_pts o) = arr_len (o_vals o) /\ arr_len (o_vals o) = arr_len (o_vars o) /\
  exists keepm, length keepm = n /\ count_true keepm = length (o_pts o) /\
    o_pts o = select keepm pts /\ o_vals o = A1 (select keepm (col om vals)) /\ o_vars o = A1 (select keepm (col om vars)).
Proof.
  intros Hal. cbv zeta.
  pose proof (filter_gp_lengths (EpsC om cm eps) n pts vals vars fails lie Hal) as HL. cbv zeta in HL.
  destruct HL as (L1 & L2 & _).
  pose proof (filter_gp_columns_eps eps om cm n pts vals vars fails lie Hal) as HC. cbv zeta in HC.
  destruct HC as (Llab & _ & _ & _ & _ & Hmin & _).
  destruct Hal as (Hp & Hv & Hs & Hf).
  assert (Hlen : length (o_pts (filter_gp (EpsC om cm eps) pts vals vars fails lie)) =
                 count_true (map negb (pf_labelling eps om cm vals fails))).
  { cbn -[pf_labelling]. apply select_length_count. rewrite map_length. congruence. }
  split; [rewrite Hlen; exact Hmin|]. split; [exact L1|]. split; [exact L2|].
  exists (map negb (pf_labelling eps om cm vals fails)). rewrite map_length.
  split; [exact Llab|]. split; [symmetry; exact Hlen|]. repeat split; reflexivity.
Qed.

(* Parzen-estimator path: points untouched; every row carries its own optimising value or the lie value; at least
   min(5, n) rows carry their own value, and when the lie value differs from every observed value at least min(5, n)
   rows are not the lie *)
Theorem wrapper_spe_keeps_minimum eps om cm n pts vals fails lie : aligned n pts vals vals fails ->
  let o := filter_spe (EpsC om cm eps) pts vals fails lie in
  fst o = pts /\ length (snd o) = n /\
  (forall j, (j < n)%nat -> nth j (snd o) 0 = at_ vals j om \/ nth j (snd o) 0 = nth om lie 0) /\
  (Nat.min 5 n <= own_count (col om vals) (snd o))%nat /\
  ((forall j, (j < n)%nat -> ~ at_ vals j om == nth om lie 0) ->
   (Nat.min 5 n <= not_lie_count (nth om lie 0%Q) (snd o))%nat).
Proof.
  intros Hal. cbv zeta.
  pose proof (filter_spe_columns_eps eps om cm n pts vals fails lie Hal) as HC. cbv zeta in HC.
  destruct HC as (Hpts & Llab & Hnth & _ & Hmin).
  pose proof (filter_spe_lengths (EpsC om cm eps) n pts vals fails lie Hal) as HL. cbv zeta in HL. destruct HL as (_ & L2).
  destruct Hal as (Hp & Hv & _ & Hf).
  split; [exact Hpts|]. split; [exact L2|]. split; [|split].
  - intros j Hj. rewrite Hnth by exact Hj. destruct (nth j _ false); [right|left]; reflexivity.
  - cbn -[col eps_labelling own_count not_lie_count set_where]. eapply Nat.le_trans; [exact Hmin|].
    apply own_count_set_where. rewrite col_length. congruence.
  - intros Hd. cbn -[col eps_labelling own_count not_lie_count set_where]. rewrite not_lie_count_set_where; [exact Hmin|rewrite col_length; congruence|].
    intros v Hin. apply In_nth with (d := 0) in Hin. destruct Hin as (j & Hj & <-). rewrite col_length in Hj.
    rewrite col_nth by exact Hj. apply Hd. lia.
Qed.

(* every observation a reported failure (n of them, any n): nothing is labelled by the threshold, the repair promotes the
   min(5, n) lowest rows of the optimising metric; the GP is handed all n rows, the Parzen estimator exactly min(5, n)
   rows with their own value when the lie value differs from every observed value *)
Theorem wrapper_all_failed eps om cm n pts vals vars lie : aligned n pts vals vars (repeat true n) ->
  let fails := repeat true n in
  eps_failures eps cm vals fails = repeat false n /\
  o_pts (filter_gp (EpsC om cm eps) pts vals vars fails lie) = pts /\
  ((forall j, (j < n)%nat -> ~ at_ vals j om == nth om lie 0) ->
   not_lie_count (nth om lie 0%Q) (snd (filter_spe (EpsC om cm eps) pts vals fails lie)) = Nat.min 5 n).
Proof.
  intros (Hp & Hv & Hs & Hf). cbv zeta.
  assert (Hsel : forall (l : list row), select (map negb (repeat true (length l))) l = []).
  { induction l as [|x l IH]; [reflexivity|exact IH]. }
  assert (Hno : no_success vals (repeat true n) = true) by (unfold no_success; rewrite <- Hv, Hsel; reflexivity).
  assert (Hef : eps_failures eps cm vals (repeat true n) = repeat false n).
  { unfold eps_failures. rewrite Hno, <- Hv. clear. induction vals as [|x l IH]; [reflexivity|]. cbn. f_equal. exact IH. }
  assert (Hcnt0 : forall k, count_true (map negb (repeat false k)) = k).
  { induction k as [|k IH]; [reflexivity|]. cbn [repeat map negb]. rewrite count_true_cons, IH. reflexivity. }
  assert (HcntT : forall k, count_true (map negb (repeat true k)) = O).
  { induction k as [|k IH]; [reflexivity|]. cbn [repeat map negb]. rewrite count_true_cons, IH. reflexivity. }
  split; [exact Hef|]. split.
  - cbn -[pf_labelling]. unfold pf_labelling. rewrite Hef.
    assert (HL : length vals = length (repeat false n)) by (rewrite repeat_length; exact Hv).
    destruct (min_successes om vals (repeat false n) HL) as (L & Hsub & _ & _).
    assert (Hall : force_min om vals (repeat false n) = repeat false n).
    { apply nth_ext with (d := false) (d' := false); [rewrite L; reflexivity|]. intros j Hj.
      destruct (nth j (force_min om vals (repeat false n)) false) eqn:E; [apply Hsub in E|]; rewrite ?nth_repeat in *; congruence. }
    rewrite Hall. clear - Hp. revert pts Hp. induction n as [|k IH]; intros [|x pts] Hp; try discriminate; [reflexivity|].
    cbn. f_equal. apply IH. cbn in Hp. lia.
  - intros Hd. cbn -[col eps_labelling not_lie_count set_where Nat.min].
    assert (HLf : length vals = length (repeat true n)) by (rewrite repeat_length; exact Hv).
    rewrite not_lie_count_set_where.
    + unfold eps_labelling. set (merged := map _ (combine _ _)).
      assert (Hm : merged = repeat true n).
      { unfold merged. rewrite Hef. clear. induction n as [|k IH]; [reflexivity|]. cbn. f_equal. exact IH. }
      rewrite Hm. destruct (min_successes om vals (repeat true n) HLf) as (_ & _ & Hc & _). cbv zeta in Hc.
      rewrite Hc, HcntT, repeat_length. unfold min_success. lia.
    + rewrite col_length, eps_labelling_length by exact HLf. reflexivity.
    + intros v Hin. apply In_nth with (d := 0) in Hin. destruct Hin as (j & Hj & <-). rewrite col_length in Hj.
      rewrite col_nth by exact Hj. apply Hd. lia.
Qed.
