(* Theorems about Model.ScipyCons: the inequality handed to SciPy is the user's constraint tightened by MARGIN * |rhs|. *)
From Coq Require Import List QArith Qabs Bool Lia Lra Psatz.
From LV Require Import Model.Restrict Model.ScipyCons.
Import ListNotations.
Open Scope Q_scope.

Lemma Qltb_true x y : Qltb x y = true <-> x < y.
Proof.
  unfold Qltb. rewrite negb_true_iff. split; intro H.
  - apply Qnot_le_lt. intro L. apply Qle_bool_iff in L. congruence.
  - destruct (Qle_bool y x) eqn:E; [|reflexivity]. apply Qle_bool_iff in E. exfalso. apply (Qlt_not_le _ _ H E).
Qed.
Lemma Qltb_false x y : Qltb x y = false <-> y <= x.
Proof.
  unfold Qltb. rewrite negb_false_iff. apply Qle_bool_iff.
Qed.

(* (1 + m sign r) r = r + m |r| *)
Lemma scipy_rhs_abs r : scipy_rhs r == r + safety_margin * Qabs r.
Proof.
  unfold scipy_rhs, sgn.
  destruct (Qltb 0 r) eqn:P.
  - apply Qltb_true in P. rewrite (Qabs_pos r) by lra. ring.
  - apply Qltb_false in P. destruct (Qltb r 0) eqn:N.
    + apply Qltb_true in N. rewrite (Qabs_neg r) by lra. ring.
    + apply Qltb_false in N. assert (r == 0) as -> by lra. reflexivity.
Qed.

Lemma margin_pos : 0 < safety_margin. Proof. reflexivity. Qed.

Lemma scipy_rhs_tightens r : r <= scipy_rhs r.
Proof.
  rewrite scipy_rhs_abs. pose proof (Qabs_nonneg r). pose proof margin_pos. nra.
Qed.

Lemma scipy_rhs_strict r : ~ r == 0 -> r < scipy_rhs r.
Proof.
  intro H. rewrite scipy_rhs_abs. pose proof margin_pos.
  assert (0 < Qabs r).
  { destruct (Qlt_le_dec 0 r) as [P|P]; [rewrite Qabs_pos; lra|].
    rewrite Qabs_neg by lra. destruct (Qeq_dec r 0); [contradiction|lra]. }
  nra.
Qed.

(* the SciPy inequality, even when violated by an absolute error delta, leaves slack m |r| - delta in the user's one *)
Lemma scipy_fun_slack w r x delta :
  - delta <= scipy_fun w r x -> r + (safety_margin * Qabs r - delta) <= dot w x.
Proof.
  unfold scipy_fun. rewrite scipy_rhs_abs. intro H. lra.
Qed.

Lemma scipy_fun_implies_constraint w r x : 0 <= scipy_fun w r x -> r <= dot w x.
Proof.
  intro H. pose proof (scipy_fun_slack w r x 0). pose proof (Qabs_nonneg r). pose proof margin_pos.
  assert (- 0 <= scipy_fun w r x) by lra. specialize (H0 H3). nra.
Qed.

(* fun is affine with gradient jac: fun (x + h) - fun x = jac x . h *)
Lemma dot_add w : forall x h, length x = length h -> dot w (map2 Qplus x h) == dot w x + dot w h.
Proof.
  induction w as [|a w IH]; intros [|x0 x] [|h0 h] L; simpl in *; try lra; try discriminate.
  rewrite IH by lia. ring.
Qed.
Lemma scipy_jac_is_gradient w r x h : length x = length h ->
  scipy_fun w r (map2 Qplus x h) - scipy_fun w r x == dot (scipy_jac w x) h.
Proof.
  intro L. unfold scipy_fun, scipy_jac. rewrite dot_add by exact L. ring.
Qed.

(* whole domain: a point SLSQP-feasible up to delta satisfies every user constraint with slack min_c (m |rhs_c|) - delta;
   stated per constraint *)
Lemma scipy_feasible_slack d x delta :
  scipy_feasible_b delta d x = true ->
  Forall (fun c => snd c + (safety_margin * Qabs (snd c) - delta) <= dot (fst c) x) (cstrs d).
Proof.
  unfold scipy_feasible_b, scipy_funs, scipy_constraints. rewrite forallb_forall. intro H.
  apply Forall_forall. intros c Hc. apply scipy_fun_slack. apply Qle_bool_iff. apply H.
  apply in_map_iff. exists c. split; [reflexivity|exact Hc].
Qed.

Lemma scipy_feasible_sound d x :
  scipy_feasible_b 0 d x = true -> Forall (fun c => snd c <= dot (fst c) x) (cstrs d).
Proof.
  intro H. apply scipy_feasible_slack in H. eapply Forall_impl; [|exact H]. cbv beta. intros c Hc.
  pose proof (Qabs_nonneg (snd c)). pose proof margin_pos. nra.
Qed.

Lemma scipy_constraints_count d : length (scipy_funs d nil) = length (cstrs d) /\ (cstrs d = [] -> scipy_constraints d = []).
Proof.
  unfold scipy_funs, scipy_constraints. rewrite map_length. split; [reflexivity|auto].
Qed.

(* an SLSQP feasibility error not larger than the margin of a constraint is absorbed by it *)
Lemma scipy_feasible_inside d x delta :
  scipy_feasible_b delta d x = true ->
  Forall (fun c => snd c + (safety_margin * Qabs (snd c) - delta) <= dot (fst c) x) (cstrs d) /\
  Forall (fun c => delta <= safety_margin * Qabs (snd c) -> snd c <= dot (fst c) x) (cstrs d).
Proof.
  intro H. pose proof (scipy_feasible_slack d x delta H) as S. split; [exact S|].
  eapply Forall_impl; [|exact S]. cbv beta. intros c Hc Hd. lra.
Qed.
