(* Theorems about Model.Poly: closed forms of the polynomial matrix and its gradient tensor (the shortcut branches coincide with
   the general formula), and over R: every entry of the gradient tensor is the partial derivative of the corresponding entry of
   the polynomial matrix. *)
From Coq Require Import List QArith Reals Arith Bool Lia Lra.
From Coquelicot Require Import Coquelicot.
From LV Require Import Model.Poly.
Import ListNotations.

(* ------------------------------------------------------------------------------------------ over R *)
Section OverR.
Open Scope R_scope.

Local Notation powR := (powT R 1 Rmult).
Local Notation mono_goR := (mono_go R 1 Rmult).
Local Notation grad_goR := (grad_go R 0 1 Rmult INR).

Lemma powR_pow x n : powR x n = x ^ n.
Proof. induction n as [|n IH]; simpl; [reflexivity|rewrite IH; reflexivity]. Qed.

Lemma mono_go_scale : forall x e acc, mono_goR acc x e = acc * mono_goR 1 x e.
Proof.
  induction x as [|xi x IH]; intros [|ei e] acc; simpl; try ring.
  rewrite (IH e (acc * powR xi ei)), (IH e (1 * powR xi ei)). ring.
Qed.

Lemma grad_go_scale : forall x e acc k d, grad_goR acc k d x e = acc * grad_goR 1 k d x e.
Proof.
  induction x as [|xi x IH]; intros [|ei e] acc k d; simpl; try ring.
  destruct (Nat.eqb d k).
  - destruct ei as [|ei'].
    + rewrite (IH e 0 (S k) d). ring.
    + rewrite (IH e (acc * _) (S k) d), (IH e (1 * _) (S k) d). ring.
  - rewrite (IH e (acc * _) (S k) d), (IH e (1 * _) (S k) d). ring.
Qed.

Lemma grad_go_shift : forall x e acc k d, grad_goR acc (S k) (S d) x e = grad_goR acc k d x e.
Proof.
  induction x as [|xi x IH]; intros [|ei e] acc k d; simpl; try reflexivity.
  destruct (Nat.eqb d k); apply IH.
Qed.

Lemma grad_go_past : forall x e acc k d, (d < k)%nat -> grad_goR acc k d x e = mono_goR acc x e.
Proof.
  induction x as [|xi x IH]; intros [|ei e] acc k d H; simpl; try reflexivity.
  destruct (Nat.eqb_spec d k) as [E|E]; [lia|]. apply IH. lia.
Qed.

(* the point with coordinate d replaced by t *)
Fixpoint upd (x : list R) (d : nat) (t : R) : list R :=
  match x, d with
  | [], _ => []
  | _ :: x', O => t :: x'
  | xi :: x', S d' => xi :: upd x' d' t
  end.

Lemma upd_nth : forall x d, (d < length x)%nat -> upd x d (nth d x 0) = x.
Proof.
  induction x as [|xi x IH]; intros [|d] H; simpl in *; try lia; try reflexivity.
  rewrite IH by lia. reflexivity.
Qed.

Lemma is_derive_powR ei t : is_derive (fun u => powR u ei) t (match ei with O => 0 | S ei' => INR ei * powR t ei' end).
Proof.
  apply (is_derive_ext (fun u => u ^ ei)); [intro u; symmetry; apply powR_pow|].
  destruct ei as [|ei'].
  - simpl. apply (is_derive_const (V := R_NormedModule) 1 t).
  - evar_last. { apply (is_derive_pow (fun u => u) (S ei') t 1). apply (is_derive_id (K := R_AbsRing)). }
    cbn [Init.Nat.pred]. rewrite <- (powR_pow t ei'). ring.
Qed.

(* every entry of the gradient tensor is the partial derivative of the entry of the polynomial matrix *)
Theorem mono_partial_derivative : forall x e d, (d < length x)%nat -> length x = length e ->
  is_derive (fun t => monoR (upd x d t) e) (nth d x 0) (grad_entryR x e d).
Proof.
  unfold monoR, mono, grad_entryR, grad_entry.
  induction x as [|xi x IH]; intros [|ei e] d Hd Hl; simpl in Hd, Hl; try lia; try discriminate.
  destruct d as [|d'].
  - (* the coordinate being differentiated is the first one *)
    simpl upd. simpl nth. cbn [mono_go grad_go Nat.eqb].
    apply (is_derive_ext (fun t => powR t ei * mono_goR 1 x e)).
    { intro t. rewrite (mono_go_scale x e (1 * powR t ei)), Rmult_1_l. reflexivity. }
    evar_last. { apply (@is_derive_mult R_AbsRing (fun t => powR t ei) (fun _ => mono_goR 1 x e) xi (match ei with O => 0 | S ei' => INR ei * powR xi ei' end) 0);
                 [apply is_derive_powR|apply (is_derive_const (V := R_NormedModule))|intros; apply Rmult_comm]. }
    unfold plus, mult; simpl.
    rewrite grad_go_past by lia. unfold zero; simpl.
    destruct ei as [|ei']; [rewrite (mono_go_scale x e 0)|rewrite (mono_go_scale x e (1 * _))]; ring.
  - simpl upd. simpl nth. cbn [mono_go grad_go Nat.eqb].
    apply (is_derive_ext (fun t => powR xi ei * mono_goR 1 (upd x d' t) e)).
    { intro t. rewrite (mono_go_scale _ e (1 * powR xi ei)), Rmult_1_l. reflexivity. }
    rewrite grad_go_shift, (grad_go_scale x e (1 * powR xi ei)).
    replace (1 * powR xi ei * grad_goR 1 0 d' x e) with (powR xi ei * grad_goR 1 0 d' x e) by ring.
    apply is_derive_scal. apply IH; [lia|congruence].
Qed.

(* closed form of one entry: the product of the coordinates raised to their exponents *)
Fixpoint mono_spec (x : list R) (e : list nat) : R :=
  match x, e with xi :: x', ei :: e' => xi ^ ei * mono_spec x' e' | _, _ => 1 end.
Theorem mono_closed_form : forall x e, monoR x e = mono_spec x e.
Proof.
  unfold monoR, mono. induction x as [|xi x IH]; intros [|ei e]; simpl; try reflexivity.
  rewrite mono_go_scale, IH, powR_pow. ring.
Qed.

(* the shortcut branches of the two builders agree with the general formula *)
Lemma mono_zero_exponents : forall x e acc, forallb (Nat.eqb 0) e = true -> mono_goR acc x e = acc.
Proof.
  induction x as [|xi x IH]; intros [|ei e] acc H; simpl in *; try reflexivity.
  apply andb_true_iff in H. destruct H as [H0 H]. destruct ei as [|ei']; [|discriminate]. simpl. rewrite IH by exact H. ring.
Qed.

Lemma grad_zero_exponents : forall x e acc k d, forallb (Nat.eqb 0) e = true -> (k <= d)%nat -> (d < k + length x)%nat -> length x = length e ->
  grad_goR acc k d x e = 0.
Proof.
  induction x as [|xi x IH]; intros [|ei e] acc k d H Hk Hd Hl; simpl in *; try lia; try discriminate.
  apply andb_true_iff in H. destruct H as [H0 H]. destruct ei as [|ei']; [|discriminate].
  destruct (Nat.eqb_spec d k) as [E|E].
  - rewrite grad_go_scale. ring.
  - apply IH; [exact H|lia|lia|congruence].
Qed.

Theorem polymat_entries dim idx pts : idx <> [] -> List.Forall (fun p => length p = dim) pts ->
  polymatR dim idx pts = map (fun p => map (monoR p) idx) pts.
Proof.
  intros Hne Hp. unfold polymatR, build_polynomial_matrix.
  destruct idx as [|e0 idx']; [contradiction|].
  destruct (is_constant_mean (e0 :: idx') dim) eqn:C; [|reflexivity].
  unfold is_constant_mean in C. destruct idx' as [|e1 idx'']; [|discriminate].
  apply andb_true_iff in C. destruct C as [_ C].
  apply map_ext_in. intros p _. simpl. unfold monoR, mono. rewrite mono_zero_exponents by exact C. reflexivity.
Qed.

Lemma repeat_map_seq (c : R) n : forall st, repeat c n = map (fun _ : nat => c) (seq st n).
Proof. induction n as [|n IHn]; intro st; simpl; [reflexivity|]. f_equal. apply IHn. Qed.

Theorem gradten_entries dim idx pts : idx <> [] -> List.Forall (fun p => length p = dim) pts ->
  gradtenR dim idx pts = map (fun p => map (fun e => map (grad_entryR p e) (seq 0 dim)) idx) pts.
Proof.
  intros Hne Hp. unfold gradtenR, build_grad_polynomial_tensor.
  destruct idx as [|e0 idx']; [contradiction|].
  destruct (is_constant_mean (e0 :: idx') dim) eqn:C; [|reflexivity].
  simpl orb. cbv iota.
  unfold is_constant_mean in C. destruct idx' as [|e1 idx'']; [|discriminate].
  apply andb_true_iff in C. destruct C as [L C]. apply Nat.eqb_eq in L.
  apply map_ext_in. intros p Hin. rewrite List.Forall_forall in Hp. specialize (Hp p Hin). simpl. f_equal.
  transitivity (map (fun _ : nat => 0) (seq 0 dim)).
  { apply repeat_map_seq. }
  apply map_ext_in. intros d Hd. apply in_seq in Hd. unfold grad_entryR, grad_entry. symmetry.
  apply grad_zero_exponents; [exact C|lia|lia|congruence].
Qed.
End OverR.
