(* The two units of Gen.GenAcq whose IR is written by hand (tools/py2v/units_acq.py: _prod_grad_ir, _llgrad_ir) are EQUAL to the
   definitions the translator now produces from the same source loops (range loops, boolean masks, per-element stores):
   Product.grad = Product.grad_loop and LogLikGrad.grad = LogLikGrad.grad_linear / grad_logdom.  Every theorem stated about the
   hand-written forms is thereby a theorem about regenerated code. *)
From Coq Require Import Reals Arith.
From LV Require Import Lib.RBase Gen.GenAcq.
Open Scope R_scope.

Lemma product_grad_hand_is_translated dim nq poss gposs i k :
  Product.grad dim nq poss gposs i k = Product.grad_loop dim nq poss gposs i k.
Proof. unfold Product.grad, Product.grad_loop. ring. Qed.

Lemma quad_form_assoc n (a : nat -> R) (dK : nat -> nat -> nat -> R) h :
  bigsum n (fun j => bigsum n (fun l => a j * dK j l h * a l)) = bigsum n (fun j => a j * bigsum n (fun l => dK j l h * a l)).
Proof.
  apply bigsum_ext. intros j _. rewrite <- bigsum_scal. apply bigsum_ext. intros l _. ring.
Qed.

Lemma loglik_grad_hand_is_translated_linear n nh a dK Kinv s hyp h :
  LogLikGrad.grad n nh a dK Kinv s (fun _ => 1) h = LogLikGrad.grad_linear n nh a dK s hyp Kinv h.
Proof. unfold LogLikGrad.grad, LogLikGrad.grad_linear. rewrite quad_form_assoc. reflexivity. Qed.

Lemma loglik_grad_hand_is_translated_logdom n nh a dK Kinv s hyp h :
  LogLikGrad.grad n nh a dK Kinv s (fun h => exp (hyp h)) h = LogLikGrad.grad_logdom n nh a dK s hyp Kinv h.
Proof. unfold LogLikGrad.grad, LogLikGrad.grad_logdom. rewrite quad_form_assoc. reflexivity. Qed.
