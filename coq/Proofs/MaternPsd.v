(* C03: every Gram matrix of the MATERN kernels C0RadialMatern, C2RadialMatern, C4RadialMatern (C4 is the library's default) is positive
   semi-definite — for all n, all dimensions, all point sets, all length scales — and is even a SCHUR MULTIPLIER (Proofs/SEPsd.v): its
   entrywise product with any PSD matrix is PSD.  This closes the "Schoenberg" hypothesis of C03.

   Route.  Proofs/MaternMixture.v:  C_k * phi_k(r) = lim_N int_{1/(N+1)}^{N+1} u^k exp(-u^2) * exp(-(r^2/4)/u^2) du  (k = 0, 2, 4 for C0, C2,
   C4; C_k > 0).  For a finite point set, r_ab^2 = |u_a - u_b|^2 and
     - for fixed u > 0 the matrix exp(-s |u_a - u_b|^2), s = 1/(4u^2) >= 0, is the Gaussian kernel of the rescaled points: a Schur
       multiplier (SEPsd.gaussu_schur), and so is its non-negative multiple by u^k exp(-u^2);
     - the class of Schur multipliers is closed under Riemann integration over a parameter (schur_RInt: for a fixed vector the quadratic
       form is a FINITE sum, so it commutes with RInt by linearity, and the integral of a non-negative function is non-negative — no
       Riemann sums needed);
     - and under pointwise limits (SEPsd.schur_lim).
   All entries use the SAME parameter interval [1/(N+1), N+1], which is why MaternMixture proves the limits on intervals that do not depend
   on r. *)
From Coq Require Import Reals Lra Psatz Arith Lia.
From Coquelicot Require Import Coquelicot.
From LV Require Import Lib.RBase Lib.Gauss Gen.GenCovariance Gen.GenMultitask Proofs.Hadamard Proofs.Covariance Proofs.SEPsd
  Proofs.MaternMixture.
Open Scope R_scope.

(* ------------------------------------------------------------------ PSD and Schur multipliers are closed under integration *)
Lemma is_RInt_bigsum n (f : nat -> R -> R) a b (l : nat -> R) :
  (forall k, (k < n)%nat -> is_RInt (f k) a b (l k)) ->
  is_RInt (fun s => bigsum n (fun k => f k s)) a b (bigsum n l).
Proof.
  induction n as [|n IH]; intros H; simpl.
  - evar_last. apply (@is_RInt_const R_NormedModule a b 0). unfold scal; simpl; unfold mult; simpl; ring.
  - apply (is_RInt_plus (V := R_NormedModule) (fun s => bigsum n (fun k => f k s)) (f n)).
    + apply IH. intros k Hk. apply H. lia.
    + apply H. lia.
Qed.

Lemma psd_RInt n (K : R -> nat -> nat -> R) a b : a <= b ->
  (forall s, a <= s <= b -> psdR n (K s)) ->
  (forall i j, (i < n)%nat -> (j < n)%nat -> ex_RInt (fun s => K s i j) a b) ->
  psdR n (fun i j => RInt (fun s => K s i j) a b).
Proof.
  intros Hab HK Hex v.
  apply (is_RInt_ge_0 (fun s => bigsum n (fun i => bigsum n (fun j => v i * K s i j * v j))) a b); [exact Hab| |].
  - apply (is_RInt_bigsum n (fun i s => bigsum n (fun j => v i * K s i j * v j)) a b
             (fun i => bigsum n (fun j => v i * RInt (fun s => K s i j) a b * v j))).
    intros i Hi.
    apply (is_RInt_bigsum n (fun j s => v i * K s i j * v j) a b (fun j => v i * RInt (fun s => K s i j) a b * v j)).
    intros j Hj.
    apply (is_RInt_ext (fun s => scal (v i * v j) (K s i j))).
    { intros s _. unfold scal; simpl. unfold mult; simpl. ring. }
    replace (v i * RInt (fun s => K s i j) a b * v j) with (scal (v i * v j) (RInt (fun s => K s i j) a b))
      by (unfold scal; simpl; unfold mult; simpl; ring).
    apply @is_RInt_scal. apply (@RInt_correct R_CompleteNormedModule). apply Hex; assumption.
  - intros s Hs. apply HK. lra.
Qed.

Lemma schur_RInt n (A : R -> nat -> nat -> R) a b : a <= b ->
  (forall s, a <= s <= b -> schur n (A s)) ->
  (forall i j, (i < n)%nat -> (j < n)%nat -> ex_RInt (fun s => A s i j) a b) ->
  schur n (fun i j => RInt (fun s => A s i j) a b).
Proof.
  intros Hab HA Hex B HB.
  apply (psd_ext n (fun i j => RInt (fun s => A s i j * B i j) a b)).
  - intros i j Hi Hj.
    rewrite (RInt_ext _ (fun s => scal (B i j) (A s i j))) by (intros s _; unfold scal; simpl; unfold mult; simpl; ring).
    rewrite (RInt_scal (V := R_CompleteNormedModule)) by (apply Hex; assumption).
    unfold scal; simpl. unfold mult; simpl. ring.
  - apply (psd_RInt n (fun s i j => A s i j * B i j) a b Hab).
    + intros s Hs. apply HA; assumption.
    + intros i j Hi Hj. apply (ex_RInt_ext (fun s => scal (B i j) (A s i j))).
      { intros s _. unfold scal; simpl. unfold mult; simpl. ring. }
      apply @ex_RInt_scal. apply Hex; assumption.
Qed.

(* ------------------------------------------------------------------ the Gaussian kernels exp(-s |u_a - u_b|^2), s >= 0 *)
Definition du2 (m : nat) (u : nat -> nat -> R) (a b : nat) : R := bigsum m (fun k => (u a k - u b k) ^ 2).

Lemma du2_nonneg m u a b : 0 <= du2 m u a b.
Proof. apply bigsum_nonneg. intros k _. apply pow2_ge_0. Qed.

Lemma gauss_scale_schur n m u s : 0 <= s -> schur n (fun a b => exp (- s * du2 m u a b)).
Proof.
  intros Hs. apply (schur_ext n (gaussu m (fun a k => sqrt (2 * s) * u a k))); [|apply gaussu_schur].
  intros a b _ _. unfold gaussu, du2. f_equal.
  rewrite (bigsum_ext m _ (fun k => (2 * s) * (u a k - u b k) ^ 2)).
  - rewrite bigsum_scal. field.
  - intros k _. transitivity ((sqrt (2 * s) * sqrt (2 * s)) * (u a k - u b k) ^ 2); [ring|]. rewrite sqrt_sqrt by lra. reflexivity.
Qed.

(* the integrand of the mixture, as a matrix: u^k E_c(u) with c = r_ab / 2 *)
Definition cab (m : nat) (u : nat -> nat -> R) (a b : nat) : R := sqrt (du2 m u a b) / 2.

Lemma cab_sq m u a b : cab m u a b ^ 2 = du2 m u a b / 4.
Proof. unfold cab. transitivity (sqrt (du2 m u a b) * sqrt (du2 m u a b) / 4); [field|]. rewrite sqrt_sqrt by apply du2_nonneg. reflexivity. Qed.

Lemma mix_integrand_schur n m u (k : nat) t : 0 < t -> schur n (fun a b => t ^ k * Ec (cab m u a b) t).
Proof.
  intros Ht.
  apply (schur_ext n (fun a b => (t ^ k * exp (- t ^ 2)) * exp (- (/ (4 * t ^ 2)) * du2 m u a b))).
  - intros a b _ _. unfold Ec. rewrite cab_sq. rewrite Rmult_assoc, <- exp_plus. f_equal. f_equal. field. lra.
  - apply schur_scale.
    + apply Rmult_le_pos; [apply pow_le; lra|left; apply exp_pos].
    + apply gauss_scale_schur. left. apply Rinv_0_lt_compat. nra.
Qed.

Lemma mix_integrand_ex_RInt (k : nat) c a b : 0 < a -> 0 < b -> ex_RInt (fun t => t ^ k * Ec c t) a b.
Proof.
  intros Ha Hb. apply ex_RInt_pos; [exact Ha|exact Hb|]. intros x Hx.
  apply (continuous_mult (fun t => t ^ k) (Ec c)).
  - apply (ex_derive_continuous (fun t => t ^ k) x). auto_derive. exact I.
  - apply Ec_cont. lra.
Qed.

(* ------------------------------------------------------------------ FROM A MIXTURE IDENTITY TO SCHUR MULTIPLIERS *)
Theorem mixture_schur (k : nat) (C : R) (phi : R -> R) :
  0 < C ->
  (forall c, 0 <= c -> is_lim (fun x => RInt (fun t => t ^ k * Ec c t) (1 / x) x) p_infty (C * phi (2 * c))) ->
  forall n m u, schur n (fun a b => phi (sqrt (du2 m u a b))).
Proof.
  intros HC Hmix n m u.
  apply (schur_ext n (fun a b => / C * (C * phi (2 * cab m u a b)))).
  { intros a b _ _. unfold cab. replace (2 * (sqrt (du2 m u a b) / 2)) with (sqrt (du2 m u a b)) by field. field. lra. }
  apply schur_scale; [left; apply Rinv_0_lt_compat, HC|].
  apply (schur_lim n (fun N a b => RInt (fun t => t ^ k * Ec (cab m u a b) t) (1 / (INR N + 1)) (INR N + 1))).
  - intros N. pose proof (pos_INR N) as HN.
    assert (H1 : 0 < 1 / (INR N + 1)) by (apply Rdiv_lt_0_compat; lra).
    assert (H2 : 1 / (INR N + 1) <= INR N + 1) by (apply Rle_div_l; nra).
    apply (schur_RInt n (fun t a b => t ^ k * Ec (cab m u a b) t)); [exact H2| |].
    + intros t Ht. apply mix_integrand_schur. lra.
    + intros a b _ _. apply mix_integrand_ex_RInt; lra.
  - intros a b _ _.
    apply (seq_of_lim (fun x => RInt (fun t => t ^ k * Ec (cab m u a b) t) (1 / x) x)).
    apply Hmix. unfold cab. pose proof (sqrt_pos (du2 m u a b)). lra.
Qed.

(* ------------------------------------------------------------------ the three Matern profiles of any finite point set in any dimension *)
Theorem C0_profile_schur n m u : schur n (fun a b => phiC0 (sqrt (du2 m u a b))).
Proof.
  apply (mixture_schur 0 (sqrt PI / 2) phiC0).
  - pose proof sqrtPI_pos. lra.
  - intros c Hc. apply (is_lim_ext (fun x => RInt (Ec c) (1 / x) x)).
    { intros x. apply RInt_ext. intros t _. simpl. ring. }
    replace (sqrt PI / 2 * phiC0 (2 * c)) with (L0 c) by (unfold L0, phiC0; f_equal; f_equal; ring).
    apply mix0, Hc.
Qed.

Theorem C2_profile_schur n m u : schur n (fun a b => phiC2 (sqrt (du2 m u a b))).
Proof.
  apply (mixture_schur 2 (sqrt PI / 4) phiC2).
  - pose proof sqrtPI_pos. lra.
  - intros c Hc.
    replace (sqrt PI / 4 * phiC2 (2 * c)) with (sqrt PI / 4 * (1 + 2 * c) * exp (- 2 * c))
      by (unfold phiC2; replace (- (2 * c)) with (- 2 * c) by ring; ring).
    exact (mix2 c Hc).
Qed.

Theorem C4_profile_schur n m u : schur n (fun a b => phiC4 (sqrt (du2 m u a b))).
Proof.
  apply (mixture_schur 4 (3 * sqrt PI / 8) phiC4).
  - pose proof sqrtPI_pos. lra.
  - intros c Hc.
    replace (3 * sqrt PI / 8 * phiC4 (2 * c)) with (3 * sqrt PI / 8 * (1 + 2 * c + 4 * c ^ 2 / 3) * exp (- 2 * c))
      by (unfold phiC4; replace (- (2 * c)) with (- 2 * c) by ring; field).
    exact (mix4 c Hc).
Qed.

(* ------------------------------------------------------------------ the three entry points of a radial kernel alpha * phi(r), r the
   length-scale-weighted distance: squared distances as the generated code writes them *)
Lemma sym_d2 dim xs ls a b :
  bigsum dim (fun k => (xs a k / ls k - xs b k / ls k) ^ 2) = du2 dim (scaled xs ls) a b.
Proof. reflexivity. Qed.
Lemma cross_d2 dim (xs : nat -> nat -> R) ls a b :
  Rmax 0 (bigsum dim (fun k => (xs a k / ls k) ^ 2) + bigsum dim (fun k => (xs b k / ls k) ^ 2)
          - 2 * bigsum dim (fun k => xs a k / ls k * (xs b k / ls k))) = du2 dim (scaled xs ls) a b.
Proof.
  rewrite (expand_square dim (fun k => xs a k / ls k) (fun k => xs b k / ls k)).
  apply Rmax_right. apply bigsum_nonneg. intros k _. apply pow2_ge_0.
Qed.
Lemma pair_d2 dim (xs : nat -> nat -> R) ls a b :
  bigsum dim (fun k => ((xs a k - xs b k) / ls k) ^ 2) = du2 dim (scaled xs ls) a b.
Proof. apply bigsum_ext. intros k _. unfold scaled, Rdiv. ring. Qed.

Section RadialSchur.
Variable phi : R -> R.
Hypothesis phi_schur : forall n m u, schur n (fun a b => phi (sqrt (du2 m u a b))).

Lemma radial_gram_schur n dim xs ls alpha : 0 <= alpha ->
  schur n (fun a b => alpha * phi (sqrt (du2 dim (scaled xs ls) a b))).
Proof. intros Ha. apply schur_scale; [exact Ha|apply phi_schur]. Qed.

Lemma radial_noise_gram_schur n dim xs ls alpha noise : 0 <= alpha -> (forall j, 0 <= noise j) ->
  schur n (fun a b => alpha * phi (sqrt (du2 dim (scaled xs ls) a b)) + (if Nat.eqb a b then noise a else 0)).
Proof.
  intros Ha Hn.
  apply (schur_plus n (fun a b => alpha * phi (sqrt (du2 dim (scaled xs ls) a b))) (fun a b => if Nat.eqb a b then noise a else 0)).
  - apply radial_gram_schur, Ha.
  - apply schur_diag. intros a _. apply Hn.
Qed.
End RadialSchur.

Lemma phiC4_sqrt d : 0 <= d -> (1 + sqrt d + 1 / 3 * d) * exp (- sqrt d) = phiC4 (sqrt d).
Proof. intros Hd. unfold phiC4. f_equal. transitivity (1 + sqrt d + sqrt d * sqrt d / 3); [rewrite sqrt_sqrt by exact Hd; field|field]. Qed.

(* ---- C0RadialMatern *)
Lemma C0_sym_profile dim xs noise ls lsq lcu alpha a b :
  C0RadialMatern.kernel_matrix_sym dim xs noise ls lsq lcu alpha a b
  = alpha * phiC0 (sqrt (du2 dim (scaled xs ls) a b)) + (if Nat.eqb a b then noise a else 0).
Proof. reflexivity. Qed.
Lemma C0_cross_profile dim xs ls lsq lcu alpha a b :
  C0RadialMatern.kernel_matrix_cross dim xs xs ls lsq lcu alpha a b = alpha * phiC0 (sqrt (du2 dim (scaled xs ls) a b)).
Proof. unfold C0RadialMatern.kernel_matrix_cross. rewrite cross_d2. reflexivity. Qed.
Lemma C0_pair_profile_ dim xs ls lsq lcu alpha i a b :
  C0RadialMatern._covariance dim (fun _ => xs a) (fun _ => xs b) ls lsq lcu alpha i = phiC0 (sqrt (du2 dim (scaled xs ls) a b)).
Proof. unfold C0RadialMatern._covariance. rewrite pair_d2. reflexivity. Qed.
Lemma C0_pair_profile dim xs ls lsq lcu alpha i a b :
  C0RadialMatern.covariance dim (fun _ => xs a) (fun _ => xs b) ls lsq lcu alpha i = alpha * phiC0 (sqrt (du2 dim (scaled xs ls) a b)).
Proof. unfold C0RadialMatern.covariance. rewrite pair_d2. reflexivity. Qed.

(* ---- C2RadialMatern *)
Lemma C2_sym_profile dim xs noise ls lsq lcu alpha a b :
  C2RadialMatern.kernel_matrix_sym dim xs noise ls lsq lcu alpha a b
  = alpha * phiC2 (sqrt (du2 dim (scaled xs ls) a b)) + (if Nat.eqb a b then noise a else 0).
Proof. reflexivity. Qed.
Lemma C2_cross_profile dim xs ls lsq lcu alpha a b :
  C2RadialMatern.kernel_matrix_cross dim xs xs ls lsq lcu alpha a b = alpha * phiC2 (sqrt (du2 dim (scaled xs ls) a b)).
Proof. unfold C2RadialMatern.kernel_matrix_cross. rewrite cross_d2. reflexivity. Qed.
Lemma C2_pair_profile_ dim xs ls lsq lcu alpha i a b :
  C2RadialMatern._covariance dim (fun _ => xs a) (fun _ => xs b) ls lsq lcu alpha i = phiC2 (sqrt (du2 dim (scaled xs ls) a b)).
Proof. unfold C2RadialMatern._covariance. rewrite pair_d2. reflexivity. Qed.
Lemma C2_pair_profile dim xs ls lsq lcu alpha i a b :
  C2RadialMatern.covariance dim (fun _ => xs a) (fun _ => xs b) ls lsq lcu alpha i = alpha * phiC2 (sqrt (du2 dim (scaled xs ls) a b)).
Proof. unfold C2RadialMatern.covariance. rewrite pair_d2. reflexivity. Qed.

(* ---- C4RadialMatern *)
Lemma C4_sym_profile dim xs noise ls lsq lcu alpha a b :
  C4RadialMatern.kernel_matrix_sym dim xs noise ls lsq lcu alpha a b
  = alpha * phiC4 (sqrt (du2 dim (scaled xs ls) a b)) + (if Nat.eqb a b then noise a else 0).
Proof. unfold C4RadialMatern.kernel_matrix_sym. rewrite sym_d2. rewrite phiC4_sqrt by apply du2_nonneg. reflexivity. Qed.
Lemma C4_cross_profile dim xs ls lsq lcu alpha a b :
  C4RadialMatern.kernel_matrix_cross dim xs xs ls lsq lcu alpha a b = alpha * phiC4 (sqrt (du2 dim (scaled xs ls) a b)).
Proof. unfold C4RadialMatern.kernel_matrix_cross. rewrite cross_d2. rewrite phiC4_sqrt by apply du2_nonneg. reflexivity. Qed.
Lemma C4_pair_profile_ dim xs ls lsq lcu alpha i a b :
  C4RadialMatern._covariance dim (fun _ => xs a) (fun _ => xs b) ls lsq lcu alpha i = phiC4 (sqrt (du2 dim (scaled xs ls) a b)).
Proof. unfold C4RadialMatern._covariance. rewrite pair_d2. unfold phiC4. f_equal. field. Qed.
Lemma C4_pair_profile dim xs ls lsq lcu alpha i a b :
  C4RadialMatern.covariance dim (fun _ => xs a) (fun _ => xs b) ls lsq lcu alpha i = alpha * phiC4 (sqrt (du2 dim (scaled xs ls) a b)).
Proof. unfold C4RadialMatern.covariance. rewrite pair_d2. unfold phiC4. f_equal. f_equal. field. Qed.

(* ================================================================== C0RadialMatern: Gram matrices on the generated entry points *)
(* symmetric entry point: build_kernel_matrix(points_sampled, noise_variance) *)
Theorem C0_sym_gram_schur n dim xs noise ls lsq lcu alpha :
  0 <= alpha -> (forall j, 0 <= noise j) ->
  schur n (fun a b => C0RadialMatern.kernel_matrix_sym dim xs noise ls lsq lcu alpha a b).
Proof.
  intros Ha Hn.
  apply (schur_ext n (fun a b => alpha * phiC0 (sqrt (du2 dim (scaled xs ls) a b)) + (if Nat.eqb a b then noise a else 0))).
  - intros a b _ _. symmetry. apply C0_sym_profile.
  - apply (radial_noise_gram_schur phiC0 C0_profile_schur); assumption.
Qed.
Theorem C0_sym_gram_psd_any_ls n dim xs ls lsq lcu alpha noise :
  0 <= alpha -> (forall j, 0 <= noise j) ->
  psdR n (fun a b => C0RadialMatern.kernel_matrix_sym dim xs noise ls lsq lcu alpha a b).
Proof. intros Ha Hn. apply schur_psd, C0_sym_gram_schur; assumption. Qed.
Theorem C0_sym_gram_psd n dim xs ls lsq lcu alpha noise :
  (forall k, 0 < ls k) -> 0 <= alpha -> (forall j, 0 <= noise j) ->
  psdR n (fun a b => C0RadialMatern.kernel_matrix_sym dim xs noise ls lsq lcu alpha a b).
Proof. intros _. apply C0_sym_gram_psd_any_ls. Qed.

(* cross entry point on one point set: build_kernel_matrix(points_sampled, points_to_sample = points_sampled), clamped expansion *)
Theorem C0_cross_gram_schur n dim xs ls lsq lcu alpha : 0 <= alpha ->
  schur n (fun a b => C0RadialMatern.kernel_matrix_cross dim xs xs ls lsq lcu alpha a b).
Proof.
  intros Ha. apply (schur_ext n (fun a b => alpha * phiC0 (sqrt (du2 dim (scaled xs ls) a b)))).
  - intros a b _ _. symmetry. apply C0_cross_profile.
  - apply (radial_gram_schur phiC0 C0_profile_schur), Ha.
Qed.
Theorem C0_cross_gram_psd n dim xs ls lsq lcu alpha :
  (forall k, 0 < ls k) -> 0 <= alpha ->
  psdR n (fun a b => C0RadialMatern.kernel_matrix_cross dim xs xs ls lsq lcu alpha a b).
Proof. intros _ Ha. apply schur_psd, C0_cross_gram_schur, Ha. Qed.

(* pairwise entry point covariance(x, z)[i] on the pairs (point a, point b) of one set, and _covariance (no process variance) *)
Theorem C0_pair_gram_schur n dim xs ls lsq lcu alpha i : 0 <= alpha ->
  schur n (fun a b => C0RadialMatern.covariance dim (fun _ => xs a) (fun _ => xs b) ls lsq lcu alpha i).
Proof.
  intros Ha. apply (schur_ext n (fun a b => alpha * phiC0 (sqrt (du2 dim (scaled xs ls) a b)))).
  - intros a b _ _. symmetry. apply C0_pair_profile.
  - apply (radial_gram_schur phiC0 C0_profile_schur), Ha.
Qed.
Theorem C0_pair_gram_psd n dim xs ls lsq lcu alpha i :
  (forall k, 0 < ls k) -> 0 <= alpha ->
  psdR n (fun a b => C0RadialMatern.covariance dim (fun _ => xs a) (fun _ => xs b) ls lsq lcu alpha i).
Proof. intros _ Ha. apply schur_psd, C0_pair_gram_schur, Ha. Qed.
Theorem C0_pair_gram_schur_ n dim xs ls lsq lcu alpha i :
  schur n (fun a b => C0RadialMatern._covariance dim (fun _ => xs a) (fun _ => xs b) ls lsq lcu alpha i).
Proof.
  apply (schur_ext n (fun a b => phiC0 (sqrt (du2 dim (scaled xs ls) a b)))).
  - intros a b _ _. symmetry. apply C0_pair_profile_.
  - apply C0_profile_schur.
Qed.

(* multitask kernel, physical kernel C0RadialMatern, task kernel SquareExponential: unconditional
   (process variance alpha >= 0 applied to the product, as the library does) *)
Theorem multitask_C0_se_psd n dim xs ls lsq lcu alphap dimt ts lst lsqt lcut alphat alpha pg tg ph th :
  0 <= alpha ->
  psdR n (fun a b => alpha * GenMultitask._covariance
                       (fun i => C0RadialMatern._covariance dim (fun _ => xs a) (fun _ => xs b) ls lsq lcu alphap i)
                       (fun i => SquareExponential._covariance dimt (fun _ => ts a) (fun _ => ts b) lst lsqt lcut alphat i) pg tg ph th 0%nat).
Proof.
  intros Ha. apply psd_scale; [exact Ha|].
  apply (multitask_se_task_psd n (fun a b => C0RadialMatern._covariance dim (fun _ => xs a) (fun _ => xs b) ls lsq lcu alphap 0%nat)).
  apply schur_psd, C0_pair_gram_schur_.
Qed.
(* the kernel-matrix path: physical kernel matrix (with noise) .* task kernel matrix *)
Theorem multitask_C0_se_matrix_psd n dim xs noise ls lsq lcu alpha dimt ts lst lsqt lcut alphat pg tg ph th :
  0 <= alpha -> 0 <= alphat -> (forall j, 0 <= noise j) ->
  psdR n (fun a b => GenMultitask._covariance
                       (fun _ => C0RadialMatern.kernel_matrix_sym dim xs noise ls lsq lcu alpha a b)
                       (fun _ => SquareExponential.kernel_matrix_cross dimt ts ts lst lsqt lcut alphat a b) pg tg ph th 0%nat).
Proof.
  intros Ha Hat Hn. unfold GenMultitask._covariance.
  apply (C0_sym_gram_schur n dim xs noise ls lsq lcu alpha Ha Hn).
  apply schur_psd, SE_cross_gram_schur, Hat.
Qed.
(* both factors C0RadialMatern-compatible: the product of the physical Gram matrix with ANY Schur multiplier / PSD task matrix T *)
Theorem multitask_C0_any_task_psd n dim xs ls lsq lcu alphap (T : nat -> nat -> R) pg tg ph th :
  psdR n T ->
  psdR n (fun a b => GenMultitask._covariance
                       (fun i => C0RadialMatern._covariance dim (fun _ => xs a) (fun _ => xs b) ls lsq lcu alphap i)
                       (fun _ => T a b) pg tg ph th 0%nat).
Proof. intros HT. unfold GenMultitask._covariance. apply (C0_pair_gram_schur_ n dim xs ls lsq lcu alphap 0%nat), HT. Qed.

(* ================================================================== C2RadialMatern: Gram matrices on the generated entry points *)
(* symmetric entry point: build_kernel_matrix(points_sampled, noise_variance) *)
Theorem C2_sym_gram_schur n dim xs noise ls lsq lcu alpha :
  0 <= alpha -> (forall j, 0 <= noise j) ->
  schur n (fun a b => C2RadialMatern.kernel_matrix_sym dim xs noise ls lsq lcu alpha a b).
Proof.
  intros Ha Hn.
  apply (schur_ext n (fun a b => alpha * phiC2 (sqrt (du2 dim (scaled xs ls) a b)) + (if Nat.eqb a b then noise a else 0))).
  - intros a b _ _. symmetry. apply C2_sym_profile.
  - apply (radial_noise_gram_schur phiC2 C2_profile_schur); assumption.
Qed.
Theorem C2_sym_gram_psd_any_ls n dim xs ls lsq lcu alpha noise :
  0 <= alpha -> (forall j, 0 <= noise j) ->
  psdR n (fun a b => C2RadialMatern.kernel_matrix_sym dim xs noise ls lsq lcu alpha a b).
Proof. intros Ha Hn. apply schur_psd, C2_sym_gram_schur; assumption. Qed.
Theorem C2_sym_gram_psd n dim xs ls lsq lcu alpha noise :
  (forall k, 0 < ls k) -> 0 <= alpha -> (forall j, 0 <= noise j) ->
  psdR n (fun a b => C2RadialMatern.kernel_matrix_sym dim xs noise ls lsq lcu alpha a b).
Proof. intros _. apply C2_sym_gram_psd_any_ls. Qed.

(* cross entry point on one point set: build_kernel_matrix(points_sampled, points_to_sample = points_sampled), clamped expansion *)
Theorem C2_cross_gram_schur n dim xs ls lsq lcu alpha : 0 <= alpha ->
  schur n (fun a b => C2RadialMatern.kernel_matrix_cross dim xs xs ls lsq lcu alpha a b).
Proof.
  intros Ha. apply (schur_ext n (fun a b => alpha * phiC2 (sqrt (du2 dim (scaled xs ls) a b)))).
  - intros a b _ _. symmetry. apply C2_cross_profile.
  - apply (radial_gram_schur phiC2 C2_profile_schur), Ha.
Qed.
Theorem C2_cross_gram_psd n dim xs ls lsq lcu alpha :
  (forall k, 0 < ls k) -> 0 <= alpha ->
  psdR n (fun a b => C2RadialMatern.kernel_matrix_cross dim xs xs ls lsq lcu alpha a b).
Proof. intros _ Ha. apply schur_psd, C2_cross_gram_schur, Ha. Qed.

(* pairwise entry point covariance(x, z)[i] on the pairs (point a, point b) of one set, and _covariance (no process variance) *)
Theorem C2_pair_gram_schur n dim xs ls lsq lcu alpha i : 0 <= alpha ->
  schur n (fun a b => C2RadialMatern.covariance dim (fun _ => xs a) (fun _ => xs b) ls lsq lcu alpha i).
Proof.
  intros Ha. apply (schur_ext n (fun a b => alpha * phiC2 (sqrt (du2 dim (scaled xs ls) a b)))).
  - intros a b _ _. symmetry. apply C2_pair_profile.
  - apply (radial_gram_schur phiC2 C2_profile_schur), Ha.
Qed.
Theorem C2_pair_gram_psd n dim xs ls lsq lcu alpha i :
  (forall k, 0 < ls k) -> 0 <= alpha ->
  psdR n (fun a b => C2RadialMatern.covariance dim (fun _ => xs a) (fun _ => xs b) ls lsq lcu alpha i).
Proof. intros _ Ha. apply schur_psd, C2_pair_gram_schur, Ha. Qed.
Theorem C2_pair_gram_schur_ n dim xs ls lsq lcu alpha i :
  schur n (fun a b => C2RadialMatern._covariance dim (fun _ => xs a) (fun _ => xs b) ls lsq lcu alpha i).
Proof.
  apply (schur_ext n (fun a b => phiC2 (sqrt (du2 dim (scaled xs ls) a b)))).
  - intros a b _ _. symmetry. apply C2_pair_profile_.
  - apply C2_profile_schur.
Qed.

(* multitask kernel, physical kernel C2RadialMatern, task kernel SquareExponential: unconditional
   (process variance alpha >= 0 applied to the product, as the library does) *)
Theorem multitask_C2_se_psd n dim xs ls lsq lcu alphap dimt ts lst lsqt lcut alphat alpha pg tg ph th :
  0 <= alpha ->
  psdR n (fun a b => alpha * GenMultitask._covariance
                       (fun i => C2RadialMatern._covariance dim (fun _ => xs a) (fun _ => xs b) ls lsq lcu alphap i)
                       (fun i => SquareExponential._covariance dimt (fun _ => ts a) (fun _ => ts b) lst lsqt lcut alphat i) pg tg ph th 0%nat).
Proof.
  intros Ha. apply psd_scale; [exact Ha|].
  apply (multitask_se_task_psd n (fun a b => C2RadialMatern._covariance dim (fun _ => xs a) (fun _ => xs b) ls lsq lcu alphap 0%nat)).
  apply schur_psd, C2_pair_gram_schur_.
Qed.
(* the kernel-matrix path: physical kernel matrix (with noise) .* task kernel matrix *)
Theorem multitask_C2_se_matrix_psd n dim xs noise ls lsq lcu alpha dimt ts lst lsqt lcut alphat pg tg ph th :
  0 <= alpha -> 0 <= alphat -> (forall j, 0 <= noise j) ->
  psdR n (fun a b => GenMultitask._covariance
                       (fun _ => C2RadialMatern.kernel_matrix_sym dim xs noise ls lsq lcu alpha a b)
                       (fun _ => SquareExponential.kernel_matrix_cross dimt ts ts lst lsqt lcut alphat a b) pg tg ph th 0%nat).
Proof.
  intros Ha Hat Hn. unfold GenMultitask._covariance.
  apply (C2_sym_gram_schur n dim xs noise ls lsq lcu alpha Ha Hn).
  apply schur_psd, SE_cross_gram_schur, Hat.
Qed.
(* both factors C2RadialMatern-compatible: the product of the physical Gram matrix with ANY Schur multiplier / PSD task matrix T *)
Theorem multitask_C2_any_task_psd n dim xs ls lsq lcu alphap (T : nat -> nat -> R) pg tg ph th :
  psdR n T ->
  psdR n (fun a b => GenMultitask._covariance
                       (fun i => C2RadialMatern._covariance dim (fun _ => xs a) (fun _ => xs b) ls lsq lcu alphap i)
                       (fun _ => T a b) pg tg ph th 0%nat).
Proof. intros HT. unfold GenMultitask._covariance. apply (C2_pair_gram_schur_ n dim xs ls lsq lcu alphap 0%nat), HT. Qed.

(* ================================================================== C4RadialMatern: Gram matrices on the generated entry points *)
(* symmetric entry point: build_kernel_matrix(points_sampled, noise_variance) *)
Theorem C4_sym_gram_schur n dim xs noise ls lsq lcu alpha :
  0 <= alpha -> (forall j, 0 <= noise j) ->
  schur n (fun a b => C4RadialMatern.kernel_matrix_sym dim xs noise ls lsq lcu alpha a b).
Proof.
  intros Ha Hn.
  apply (schur_ext n (fun a b => alpha * phiC4 (sqrt (du2 dim (scaled xs ls) a b)) + (if Nat.eqb a b then noise a else 0))).
  - intros a b _ _. symmetry. apply C4_sym_profile.
  - apply (radial_noise_gram_schur phiC4 C4_profile_schur); assumption.
Qed.
Theorem C4_sym_gram_psd_any_ls n dim xs ls lsq lcu alpha noise :
  0 <= alpha -> (forall j, 0 <= noise j) ->
  psdR n (fun a b => C4RadialMatern.kernel_matrix_sym dim xs noise ls lsq lcu alpha a b).
Proof. intros Ha Hn. apply schur_psd, C4_sym_gram_schur; assumption. Qed.
Theorem C4_sym_gram_psd n dim xs ls lsq lcu alpha noise :
  (forall k, 0 < ls k) -> 0 <= alpha -> (forall j, 0 <= noise j) ->
  psdR n (fun a b => C4RadialMatern.kernel_matrix_sym dim xs noise ls lsq lcu alpha a b).
Proof. intros _. apply C4_sym_gram_psd_any_ls. Qed.

(* cross entry point on one point set: build_kernel_matrix(points_sampled, points_to_sample = points_sampled), clamped expansion *)
Theorem C4_cross_gram_schur n dim xs ls lsq lcu alpha : 0 <= alpha ->
  schur n (fun a b => C4RadialMatern.kernel_matrix_cross dim xs xs ls lsq lcu alpha a b).
Proof.
  intros Ha. apply (schur_ext n (fun a b => alpha * phiC4 (sqrt (du2 dim (scaled xs ls) a b)))).
  - intros a b _ _. symmetry. apply C4_cross_profile.
  - apply (radial_gram_schur phiC4 C4_profile_schur), Ha.
Qed.
Theorem C4_cross_gram_psd n dim xs ls lsq lcu alpha :
  (forall k, 0 < ls k) -> 0 <= alpha ->
  psdR n (fun a b => C4RadialMatern.kernel_matrix_cross dim xs xs ls lsq lcu alpha a b).
Proof. intros _ Ha. apply schur_psd, C4_cross_gram_schur, Ha. Qed.

(* pairwise entry point covariance(x, z)[i] on the pairs (point a, point b) of one set, and _covariance (no process variance) *)
Theorem C4_pair_gram_schur n dim xs ls lsq lcu alpha i : 0 <= alpha ->
  schur n (fun a b => C4RadialMatern.covariance dim (fun _ => xs a) (fun _ => xs b) ls lsq lcu alpha i).
Proof.
  intros Ha. apply (schur_ext n (fun a b => alpha * phiC4 (sqrt (du2 dim (scaled xs ls) a b)))).
  - intros a b _ _. symmetry. apply C4_pair_profile.
  - apply (radial_gram_schur phiC4 C4_profile_schur), Ha.
Qed.
Theorem C4_pair_gram_psd n dim xs ls lsq lcu alpha i :
  (forall k, 0 < ls k) -> 0 <= alpha ->
  psdR n (fun a b => C4RadialMatern.covariance dim (fun _ => xs a) (fun _ => xs b) ls lsq lcu alpha i).
Proof. intros _ Ha. apply schur_psd, C4_pair_gram_schur, Ha. Qed.
Theorem C4_pair_gram_schur_ n dim xs ls lsq lcu alpha i :
  schur n (fun a b => C4RadialMatern._covariance dim (fun _ => xs a) (fun _ => xs b) ls lsq lcu alpha i).
Proof.
  apply (schur_ext n (fun a b => phiC4 (sqrt (du2 dim (scaled xs ls) a b)))).
  - intros a b _ _. symmetry. apply C4_pair_profile_.
  - apply C4_profile_schur.
Qed.

(* multitask kernel, physical kernel C4RadialMatern, task kernel SquareExponential: unconditional
   (process variance alpha >= 0 applied to the product, as the library does) *)
Theorem multitask_C4_se_psd n dim xs ls lsq lcu alphap dimt ts lst lsqt lcut alphat alpha pg tg ph th :
  0 <= alpha ->
  psdR n (fun a b => alpha * GenMultitask._covariance
                       (fun i => C4RadialMatern._covariance dim (fun _ => xs a) (fun _ => xs b) ls lsq lcu alphap i)
                       (fun i => SquareExponential._covariance dimt (fun _ => ts a) (fun _ => ts b) lst lsqt lcut alphat i) pg tg ph th 0%nat).
Proof.
  intros Ha. apply psd_scale; [exact Ha|].
  apply (multitask_se_task_psd n (fun a b => C4RadialMatern._covariance dim (fun _ => xs a) (fun _ => xs b) ls lsq lcu alphap 0%nat)).
  apply schur_psd, C4_pair_gram_schur_.
Qed.
(* the kernel-matrix path: physical kernel matrix (with noise) .* task kernel matrix *)
Theorem multitask_C4_se_matrix_psd n dim xs noise ls lsq lcu alpha dimt ts lst lsqt lcut alphat pg tg ph th :
  0 <= alpha -> 0 <= alphat -> (forall j, 0 <= noise j) ->
  psdR n (fun a b => GenMultitask._covariance
                       (fun _ => C4RadialMatern.kernel_matrix_sym dim xs noise ls lsq lcu alpha a b)
                       (fun _ => SquareExponential.kernel_matrix_cross dimt ts ts lst lsqt lcut alphat a b) pg tg ph th 0%nat).
Proof.
  intros Ha Hat Hn. unfold GenMultitask._covariance.
  apply (C4_sym_gram_schur n dim xs noise ls lsq lcu alpha Ha Hn).
  apply schur_psd, SE_cross_gram_schur, Hat.
Qed.
(* both factors C4RadialMatern-compatible: the product of the physical Gram matrix with ANY Schur multiplier / PSD task matrix T *)
Theorem multitask_C4_any_task_psd n dim xs ls lsq lcu alphap (T : nat -> nat -> R) pg tg ph th :
  psdR n T ->
  psdR n (fun a b => GenMultitask._covariance
                       (fun i => C4RadialMatern._covariance dim (fun _ => xs a) (fun _ => xs b) ls lsq lcu alphap i)
                       (fun _ => T a b) pg tg ph th 0%nat).
Proof. intros HT. unfold GenMultitask._covariance. apply (C4_pair_gram_schur_ n dim xs ls lsq lcu alphap 0%nat), HT. Qed.
