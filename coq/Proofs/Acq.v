(* C05 and the acquisition part of C04: theorems about the definitions REGENERATED from predictor.py,
   expected_improvement.py, probabilistic_failures.py, multitask_acquisition_function.py and sigopt_parzen_estimator.py
   (coq/Gen/GenAcq.v). *)
From Coq Require Import Reals Lra Psatz Arith Lia.
From Coquelicot Require Import Coquelicot.
From LV Require Import Lib.RBase Gen.GenAcq.
Open Scope R_scope.

Definition C1 (v : R) : nat -> R := fun _ => v.
Definition C2 (v : R) : nat -> nat -> R := fun _ _ => v.
Definition G (z : R) : R := z * Phi z + pdf z.

(* ------------------------------------------------------------------ expected improvement: value *)
Lemma ei_formula dim x mean var gmean gvar best i :
  EI.value dim x mean var gmean gvar best i =
  sqrt (var i) * Rmax 0 (G ((best - mean i) / sqrt (var i))).
Proof. reflexivity. Qed.

Lemma ei_nonneg dim x mean var gmean gvar best i : 0 <= EI.value dim x mean var gmean gvar best i.
Proof. rewrite ei_formula. apply Rmult_le_pos; [apply sqrt_pos|apply Rmax_l]. Qed.

Lemma G_deriv z : is_derive G z (Phi z).
Proof.
  unfold G. evar_last.
  apply @is_derive_plus. apply @is_derive_mult. apply is_derive_id. apply Phi_deriv.
  intros; apply Rmult_comm. apply pdf_deriv.
  unfold plus, mult, one; simpl. ring.
Qed.

(* d/d best [ sigma * G((best - mu)/sigma) ] = Phi(z) = P(Y <= best): the derivative characterisation of E[max(best - Y, 0)] *)
Lemma ei_incumbent_derivative mu sigma best : 0 < sigma ->
  is_derive (fun b => sigma * G ((b - mu) / sigma)) best (Phi ((best - mu) / sigma)).
Proof.
  intros Hs. evar_last.
  apply (is_derive_scal (fun b => G ((b - mu) / sigma)) best sigma).
  apply (is_derive_comp G (fun b => (b - mu) / sigma)). apply G_deriv.
  auto_derive; [exact I|reflexivity].
  unfold scal; simpl. unfold mult; simpl. field. lra.
Qed.

(* value is the normalised form applied to the core components (the public entry point is a projection of them) *)
Lemma ei_value_is_normalized dim x mean var gmean gvar best i gsv :
  EI.value dim x mean var gmean gvar best i =
  EI.normalized dim mean var (Core.func_z dim x mean var gmean gvar best) (Core.func_sqrt_var dim x mean var gmean gvar best)
                (Core.func_cdf_z dim x mean var gmean gvar best) (Core.func_pdf_z dim x mean var gmean gvar best) gmean gvar gsv i.
Proof. reflexivity. Qed.
Lemma ei_grad_is_normalized dim x mean var gmean gvar best i k :
  EI.grad dim x mean var gmean gvar best i k =
  EI.grad_normalized dim mean var (Core.grad_z dim x mean var gmean gvar best) (Core.grad_sqrt_var dim x mean var gmean gvar best)
                (Core.grad_cdf_z dim x mean var gmean gvar best) (Core.grad_pdf_z dim x mean var gmean gvar best) gmean gvar
                (Core.grad_grad_sqrt_var dim x mean var gmean gvar best) i k.
Proof. reflexivity. Qed.

(* ------------------------------------------------------------------ expected improvement: gradient (C04) *)
Section EIgrad.
Variables (mu v : R -> R) (dmu dv : R -> R) (best : R) (dim : nat) (x : nat -> nat -> R).
Hypothesis Hmu : forall t, is_derive mu t (dmu t).
Hypothesis Hv : forall t, is_derive v t (dv t).
Hypothesis vpos : forall t, 0 < v t.

Let s t := sqrt (v t).
Let zf t := (best - mu t) / s t.

Lemma s_deriv t : is_derive s t (/ (2 * sqrt (v t)) * dv t).
Proof.
  unfold s. evar_last. apply (is_derive_comp sqrt v). 2: apply Hv.
  apply is_derive_Reals. apply derivable_pt_lim_sqrt. apply vpos.
  unfold scal; simpl. unfold mult; simpl. ring.
Qed.
Lemma s_pos t : 0 < s t. Proof. apply sqrt_lt_R0, vpos. Qed.

Lemma zf_deriv t : is_derive zf t (- dmu t / s t - zf t * (/ (2 * sqrt (v t)) * dv t) / s t).
Proof.
  unfold zf. evar_last.
  apply (is_derive_div (fun t => best - mu t) s t (- dmu t) (/ (2 * sqrt (v t)) * dv t)).
  - evar_last. apply @is_derive_minus. apply is_derive_const. apply Hmu. unfold minus, plus, opp, zero; simpl; ring.
  - apply s_deriv.
  - apply Rgt_not_eq, s_pos.
  - unfold minus, plus, opp, scal, mult; simpl. unfold mult; simpl. field. split; apply Rgt_not_eq; [apply s_pos|apply sqrt_lt_R0, vpos].
Qed.

(* where the clamp max(0, .) is inactive the generated gradient is the derivative of the generated value *)
Theorem ei_grad_is_derivative t i k : 0 < G (zf t) ->
  is_derive (fun t => EI.value dim x (C1 (mu t)) (C1 (v t)) (C2 0) (C2 0) best i) t
            (EI.grad dim x (C1 (mu t)) (C1 (v t)) (C2 (dmu t)) (C2 (dv t)) best i k).
Proof.
  intros HG. unfold EI.value, EI.grad, C1, C2. fold (s t) (zf t).
  (* near t the clamp stays inactive *)
  assert (Hcont : continuous (fun t => G (zf t)) t).
  { apply (ex_derive_continuous (fun t => G (zf t))). eexists. apply (is_derive_comp G zf). apply G_deriv. apply zf_deriv. }
  apply (is_derive_ext_loc (fun t => s t * G (zf t))).
  { assert (Hloc : locally t (fun u => 0 < G (zf u))).
    { apply (Hcont (fun y => 0 < y)). apply (open_gt 0). exact HG. }
    revert Hloc. apply filter_imp. intros u Hu. unfold G, zf, s in *. rewrite Rmax_right by lra. reflexivity. }
  evar_last.
  apply @is_derive_mult. apply s_deriv. apply (is_derive_comp G zf). apply G_deriv. apply zf_deriv.
  intros; apply Rmult_comm.
  unfold plus, mult, scal; simpl. unfold mult; simpl. unfold G. fold (s t) (zf t).
  pose proof (s_pos t) as Hs. unfold s in *. field. apply Rgt_not_eq. exact Hs.
Qed.
End EIgrad.

(* ------------------------------------------------------------------ penalties *)
Lemma eip_is_product dim mean var z sv cdf pdfz gmean gvar gsv pen gpen i :
  EIP.value_penalty dim mean var z sv cdf pdfz gmean gvar gsv pen gpen i =
  EI.normalized dim mean var z sv cdf pdfz gmean gvar gsv i * pen i.
Proof. reflexivity. Qed.

(* product rule: the generated penalised gradient is ei' * pen + ei * pen' *)
Lemma eip_grad_product_rule dim mean var z sv cdf pdfz gmean gvar gsv pen gpen i k :
  EIP.grad_penalty dim mean var z sv cdf pdfz gmean gvar gsv pen gpen i k =
  EI.grad_normalized dim mean var z sv cdf pdfz gmean gvar gsv i k * pen i
  + EI.normalized dim mean var z sv cdf pdfz gmean gvar gsv i * gpen i k.
Proof. reflexivity. Qed.
Lemma product_rule_derive (f g : R -> R) t df dg :
  is_derive f t df -> is_derive g t dg -> is_derive (fun t => f t * g t) t (df * g t + f t * dg).
Proof. intros Hf Hg. evar_last. apply @is_derive_mult; [exact Hf|exact Hg|intros; apply Rmult_comm]. unfold plus, mult; simpl. ring. Qed.

Lemma aei_penalty_range dim mean var z sv cdf pdfz gmean gvar gsv nu i : 0 < nu -> 0 <= var i ->
  0 <= AEI.penalty_value dim mean var z sv cdf pdfz gmean gvar gsv nu i < 1.
Proof.
  intros Hnu Hv. unfold AEI.penalty_value.
  assert (Hq : 0 < nu / (var i + nu) <= 1).
  { split; [apply Rdiv_lt_0_compat; lra|]. apply Rle_div_l; lra. }
  assert (H1 : 0 < sqrt (nu / (var i + nu))) by (apply sqrt_lt_R0; lra).
  assert (H2 : sqrt (nu / (var i + nu)) <= 1) by (rewrite <- sqrt_1; apply sqrt_le_1_alt; lra).
  lra.
Qed.

Lemma aei_penalty_grad_is_derivative (v dv : R -> R) nu t dim i k :
  0 < nu -> 0 <= v t -> is_derive v t (dv t) ->
  is_derive (fun t => AEI.penalty_value dim (C1 0) (C1 (v t)) (C1 0) (C1 0) (C1 0) (C1 0) (C2 0) (C2 0) (C2 0) nu i) t
            (AEI.penalty_grad dim (C1 0) (C1 (v t)) (C1 0) (C1 0) (C1 0) (C1 0) (C2 0) (C2 (dv t)) (C2 0) nu i k).
Proof.
  intros Hnu Hv Hd. unfold AEI.penalty_value, AEI.penalty_grad, C1, C2.
  assert (Hp : 0 < v t + nu) by lra.
  assert (Hq : 0 < nu / (v t + nu)) by (apply Rdiv_lt_0_compat; lra).
  evar_last.
  apply @is_derive_minus. apply is_derive_const.
  apply (is_derive_comp sqrt (fun t => nu / (v t + nu))).
  - apply is_derive_Reals. apply derivable_pt_lim_sqrt. exact Hq.
  - apply (is_derive_div (fun _ => nu) (fun t => v t + nu) t 0 (dv t)).
    + exact (is_derive_const _ _).
    + evar_last. apply @is_derive_plus. exact Hd. apply is_derive_const. unfold plus, zero; simpl; ring.
    + lra.
  - unfold minus, plus, opp, zero, scal, mult; simpl. unfold mult; simpl.
    set (q := sqrt (nu / (v t + nu))).
    assert (Hqq : q * q = nu / (v t + nu)) by (apply sqrt_sqrt; lra).
    assert (Hq0 : q <> 0) by (apply Rgt_not_eq, sqrt_lt_R0; exact Hq).
    assert (E : nu = q * q * (v t + nu)) by (rewrite Hqq; field; lra).
    rewrite E at 1 2. field. split; lra.
Qed.

Lemma multitask_is_quotient dimp1 x af g i : MultitaskAF.value dimp1 x af g i = af i / x i (dimp1 - 1)%nat.
Proof. reflexivity. Qed.
Lemma multitask_joint_value_same dimp1 x af g i : MultitaskAF.joint_value dimp1 x af g i = MultitaskAF.value dimp1 x af g i.
Proof. reflexivity. Qed.

(* quotient rule, including the special last (task) coordinate: with c the task cost,
   d/dx_k (af/c) = af_k / c for a physical coordinate, and d/dc (af/c) = (af_c - af/c)/c *)
Lemma multitask_grad_physical dimp1 x af g i kk : (kk + 1 <> dimp1)%nat ->
  MultitaskAF.joint_grad dimp1 x af g i kk = g i kk / x i (dimp1 - 1)%nat.
Proof. intros H. unfold MultitaskAF.joint_grad. destruct (Nat.eqb_spec (kk + 1) dimp1); [contradiction|reflexivity]. Qed.
Lemma multitask_grad_task dimp1 x af g i : (1 <= dimp1)%nat ->
  MultitaskAF.joint_grad dimp1 x af g i (dimp1 - 1) =
  (g i (dimp1 - 1)%nat - af i / x i (dimp1 - 1)%nat) / x i (dimp1 - 1)%nat.
Proof.
  intros H. unfold MultitaskAF.joint_grad. replace (dimp1 - 1 + 1)%nat with dimp1 by lia. rewrite !Nat.eqb_refl. reflexivity.
Qed.
Lemma quotient_rule_cost (a : R -> R) da c : c <> 0 -> is_derive a c da ->
  is_derive (fun c => a c / c) c ((da - a c / c) / c).
Proof.
  intros Hc Ha. evar_last. apply (is_derive_div a (fun c => c) c da 1); [exact Ha|exact (is_derive_id c)|exact Hc].
  unfold minus, plus, opp, scal, mult, one; simpl. unfold mult; simpl. field. exact Hc.
Qed.
Lemma quotient_rule_physical (a : R -> R) t da c : c <> 0 -> is_derive a t da -> is_derive (fun t => a t / c) t (da / c).
Proof.
  intros Hc Ha. evar_last. apply (is_derive_scal_l a t da (/ c)). exact Ha. unfold scal; simpl. unfold mult; simpl. unfold Rdiv. ring.
Qed.

(* ------------------------------------------------------------------ success probabilities *)
Lemma logistic_range dim x mean var gmean gvar kappa thr i :
  0 < Logistic.value dim x mean var gmean gvar kappa thr i < 1.
Proof.
  unfold Logistic.value. set (e := exp _). assert (0 < e) by apply exp_pos. split.
  - apply Rdiv_lt_0_compat; lra.
  - apply Rlt_div_l; lra.
Qed.
Lemma logistic_nonincreasing dim x m1 m2 var gmean gvar kappa thr i : 0 < kappa -> m1 <= m2 ->
  Logistic.value dim x (C1 m2) var gmean gvar kappa thr i <= Logistic.value dim x (C1 m1) var gmean gvar kappa thr i.
Proof.
  intros Hk Hm. unfold Logistic.value, C1.
  assert (He : exp (Rmin (kappa * (m1 - thr)) 40) <= exp (Rmin (kappa * (m2 - thr)) 40)).
  { destruct (Rle_lt_or_eq_dec _ _ (Rle_min_compat_r (kappa * (m1 - thr)) (kappa * (m2 - thr)) 40 ltac:(nra))) as [L|E].
    - left. apply exp_increasing. exact L.
    - rewrite E. apply Rle_refl. }
  assert (0 < exp (Rmin (kappa * (m1 - thr)) 40)) by apply exp_pos.
  unfold Rdiv. rewrite !Rmult_1_l. apply Rinv_le_contravar; lra.
Qed.
Lemma logistic_grad_is_derivative (m dm : R -> R) kappa thr t dim x i k :
  kappa * (m t - thr) < 40 -> is_derive m t (dm t) ->
  is_derive (fun t => Logistic.value dim x (C1 (m t)) (C1 0) (C2 0) (C2 0) kappa thr i) t
            (Logistic.grad dim x (C1 (m t)) (C1 0) (C2 (dm t)) (C2 0) kappa thr i k).
Proof.
  intros Hcap Hm. unfold Logistic.value, Logistic.grad, C1, C2.
  assert (Hc : continuous m t) by (apply (ex_derive_continuous m); eexists; exact Hm).
  apply (is_derive_ext_loc (fun t => 1 / (1 + exp (kappa * (m t - thr))))).
  { assert (Hc2 : continuous (fun t => kappa * (m t - thr)) t).
    { apply (ex_derive_continuous (fun t => kappa * (m t - thr))). eexists. apply (is_derive_scal (fun t => m t - thr) t kappa).
      apply @is_derive_minus. exact Hm. apply is_derive_const. }
    assert (Hloc : locally t (fun u => kappa * (m u - thr) < 40)) by (apply (Hc2 (fun y => y < 40)); apply (open_lt 40); exact Hcap).
    revert Hloc. apply filter_imp. intros u Hu. rewrite Rmin_left by lra. reflexivity. }
  rewrite Rmin_left by lra.
  assert (He : 0 < exp (kappa * (m t - thr))) by apply exp_pos.
  evar_last.
  apply (is_derive_div (fun _ => 1) (fun t => 1 + exp (kappa * (m t - thr))) t 0 (exp (kappa * (m t - thr)) * (kappa * dm t))).
  - exact (is_derive_const _ _).
  - evar_last. apply @is_derive_plus. apply is_derive_const.
    apply (is_derive_comp exp (fun t => kappa * (m t - thr))).
    + apply is_derive_Reals. apply derivable_pt_lim_exp.
    + apply (is_derive_scal (fun t => m t - thr) t kappa). apply @is_derive_minus. exact Hm. apply is_derive_const.
    + unfold plus, zero, minus, opp, scal, mult; simpl. unfold plus, mult; simpl. ring.
  - lra.
  - unfold minus, plus, opp, zero, scal, mult; simpl. unfold mult; simpl. field. lra.
Qed.

Lemma cdf_model_is_Phi dim x mean var gmean gvar thr i :
  CDF.value dim x mean var gmean gvar thr i = Phi ((thr - mean i) / sqrt (var i)).
Proof. reflexivity. Qed.
Lemma cdf_model_decreasing dim x m1 m2 var gmean gvar thr i : 0 < var i -> m1 < m2 ->
  CDF.value dim x (C1 m2) var gmean gvar thr i < CDF.value dim x (C1 m1) var gmean gvar thr i.
Proof.
  intros Hv Hm. unfold CDF.value, C1. apply Phi_increasing.
  assert (0 < sqrt (var i)) by (apply sqrt_lt_R0; exact Hv).
  apply Rmult_lt_compat_r; [apply Rinv_0_lt_compat; assumption|lra].
Qed.
(* the range of the CDF model is the range of Phi: it needs the Gaussian integral, which is a stated assumption *)
Lemma cdf_model_range dim x mean var gmean gvar thr i :
  (forall z, 0 < Phi z < 1) -> 0 < CDF.value dim x mean var gmean gvar thr i < 1.
Proof. intros H. apply H. Qed.

Section CDFgrad.
Variables (mu v : R -> R) (dmu dv : R -> R) (thr : R) (dim : nat) (x : nat -> nat -> R).
Hypothesis Hmu : forall t, is_derive mu t (dmu t).
Hypothesis Hv : forall t, is_derive v t (dv t).
Hypothesis vpos : forall t, 0 < v t.
Theorem cdf_grad_is_derivative t i k :
  is_derive (fun t => CDF.value dim x (C1 (mu t)) (C1 (v t)) (C2 0) (C2 0) thr i) t
            (CDF.grad dim x (C1 (mu t)) (C1 (v t)) (C2 (dmu t)) (C2 (dv t)) thr i k).
Proof.
  unfold CDF.value, CDF.grad, C1, C2.
  evar_last.
  apply (is_derive_comp Phi (fun t => (thr - mu t) / sqrt (v t))). apply Phi_deriv.
  apply (zf_deriv mu v dmu dv thr Hmu Hv vpos t).
  unfold scal; simpl. unfold mult; simpl.
  assert (Hs : 0 < sqrt (v t)) by (apply sqrt_lt_R0, vpos). field. apply Rgt_not_eq. exact Hs.
Qed.
End CDFgrad.

(* product of a list of success probabilities *)
Lemma product_model_is_product nq poss i : Product.value nq poss i = bigprod nq (fun q => poss q i).
Proof. reflexivity. Qed.
Lemma bigprod_range n f : (forall q, (q < n)%nat -> 0 <= f q <= 1) -> 0 <= bigprod n f <= 1.
Proof.
  induction n as [|n IH]; intros H; simpl; [lra|].
  assert (0 <= bigprod n f <= 1) by (apply IH; intros; apply H; lia). assert (0 <= f n <= 1) by (apply H; lia). nra.
Qed.
Lemma product_model_range nq poss i : (forall q, (q < nq)%nat -> 0 <= poss q i <= 1) -> 0 <= Product.value nq poss i <= 1.
Proof. intros H. apply bigprod_range. exact H. Qed.

(* product rule over n factors: the generated (hand-IR) gradient is the derivative of the product *)
Lemma bigprod_except_ge n q f : (n <= q)%nat -> bigprod n (fun q2 => if Nat.eqb q2 q then 1 else f q2) = bigprod n f.
Proof.
  induction n as [|n IH]; intros H; simpl; [reflexivity|]. rewrite IH by lia.
  destruct (Nat.eqb_spec n q); [lia|reflexivity].
Qed.
Lemma prod_grad_step n (pv dpv : nat -> R) :
  bigsum (S n) (fun q => dpv q * bigprod (S n) (fun q2 => if Nat.eqb q2 q then 1 else pv q2))
  = bigsum n (fun q => dpv q * bigprod n (fun q2 => if Nat.eqb q2 q then 1 else pv q2)) * pv n + bigprod n pv * dpv n.
Proof.
  cbn [bigsum bigprod]. rewrite Nat.eqb_refl, Rmult_1_r, (bigprod_except_ge n n) by lia.
  assert (E : bigsum n (fun q => dpv q * (bigprod n (fun q2 => if Nat.eqb q2 q then 1 else pv q2) * (if Nat.eqb n q then 1 else pv n)))
            = pv n * bigsum n (fun q => dpv q * bigprod n (fun q2 => if Nat.eqb q2 q then 1 else pv q2))).
  { rewrite <- bigsum_scal. apply bigsum_ext. intros q Hq. destruct (Nat.eqb_spec n q); [lia|ring]. }
  rewrite E. ring.
Qed.

Theorem product_grad_is_derivative nq (p dp : nat -> R -> R) t dim i k :
  (forall q, (q < nq)%nat -> is_derive (p q) t (dp q t)) ->
  is_derive (fun t => Product.value nq (fun q _ => p q t) i) t
            (Product.grad dim nq (fun q _ => p q t) (fun q _ _ => dp q t) i k).
Proof.
  unfold Product.value, Product.grad. induction nq as [|n IH]; intros H.
  - simpl. apply @is_derive_const.
  - rewrite (prod_grad_step n (fun q => p q t) (fun q => dp q t)).
    cbn [bigprod]. evar_last.
    apply (product_rule_derive (fun t => bigprod n (fun q => p q t)) (p n) t). apply IH. intros; apply H; lia. apply H; lia.
    ring.
Qed.

(* ------------------------------------------------------------------ Parzen-estimator improvement ratio *)
Definition lpdf_of dim ng nl x Kl Gl Kg Gg gamma i := Parzen.ei_lpdf dim ng nl x Kl Gl Kg Gg gamma i.
Lemma parzen_ratio_formula dim ng nl x Kl Gl Kg Gg gamma i :
  Parzen.ei_ratio dim ng nl x Kl Gl Kg Gg gamma i =
  1 / (gamma + Parzen.ei_gpdf dim ng nl x Kl Gl Kg Gg gamma i / Parzen.ei_lpdf dim ng nl x Kl Gl Kg Gg gamma i * (1 - gamma)).
Proof. reflexivity. Qed.
Lemma ratio_range (l g gamma : R) : 0 < l -> 0 <= g -> 0 < gamma < 1 -> 0 < 1 / (gamma + g / l * (1 - gamma)) <= 1 / gamma.
Proof.
  intros Hl Hg [H0 H1]. assert (Hq : 0 <= g / l) by (apply Rle_mult_inv_pos; assumption).
  assert (Hd : gamma <= gamma + g / l * (1 - gamma)) by nra.
  split; [apply Rdiv_lt_0_compat; lra|].
  unfold Rdiv. rewrite !Rmult_1_l. apply Rinv_le_contravar; lra.
Qed.
Lemma density_nonneg n (K : nat -> R) : (0 < n)%nat -> (forall j, (j < n)%nat -> 0 <= K j) -> 0 <= bigsum n K / INR n.
Proof. intros Hn H. apply Rle_mult_inv_pos; [apply bigsum_nonneg; exact H|apply lt_0_INR; exact Hn]. Qed.
Lemma parzen_lower_floor dim ng nl x Kl Gl Kg Gg gamma i : (0 < nl)%nat -> (forall j, 0 <= Kl i j) ->
  0 < Parzen.ei_lpdf dim ng nl x Kl Gl Kg Gg gamma i.
Proof.
  intros Hn H. unfold Parzen.ei_lpdf.
  assert (0 <= bigsum nl (fun jl => Kl i jl) / INR nl) by (apply density_nonneg; [exact Hn|intros; apply H]). lra.
Qed.
Theorem parzen_ratio_range dim ng nl x Kl Gl Kg Gg gamma i :
  (0 < nl)%nat -> (0 < ng)%nat -> (forall j, 0 <= Kl i j) -> (forall j, 0 <= Kg i j) -> 0 < gamma < 1 ->
  0 < Parzen.ei_ratio dim ng nl x Kl Gl Kg Gg gamma i <= 1 / gamma.
Proof.
  intros Hl Hg HKl HKg Hgam. rewrite parzen_ratio_formula. apply ratio_range; [|apply density_nonneg; [exact Hg|intros; apply HKg]|exact Hgam].
  apply parzen_lower_floor; assumption.
Qed.
(* gradient of the ratio along a coordinate, for differentiable densities l(t) > 0, g(t) *)
Lemma ratio_grad_is_derivative (l g dl dg : R -> R) gamma t :
  0 < l t -> gamma + g t / l t * (1 - gamma) <> 0 -> is_derive l t (dl t) -> is_derive g t (dg t) ->
  is_derive (fun t => 1 / (gamma + g t / l t * (1 - gamma))) t
            (- (1 / (gamma + g t / l t * (1 - gamma))) ^ 2 * (1 - gamma) * (l t * dg t - g t * dl t) / l t ^ 2).
Proof.
  intros Hl Hd Hdl Hdg. evar_last.
  apply (is_derive_div (fun _ => 1) (fun t => gamma + g t / l t * (1 - gamma)) t 0 ((dg t * l t - g t * dl t) / l t ^ 2 * (1 - gamma))).
  - exact (is_derive_const _ _).
  - evar_last. apply @is_derive_plus. apply is_derive_const.
    apply (is_derive_scal_l (fun t => g t / l t) t ((dg t * l t - g t * dl t) / l t ^ 2) (1 - gamma)).
    evar_last. apply (is_derive_div g l t (dg t) (dl t)); [exact Hdg|exact Hdl|lra].
    unfold minus, plus, opp, scal, mult; simpl. unfold mult; simpl. field. lra.
    unfold plus, zero, minus, opp, scal, mult; simpl. unfold mult; simpl. field. lra.
  - exact Hd.
  - unfold minus, plus, opp, zero, scal, mult; simpl. unfold mult; simpl.
    assert (Hd2 : gamma * l t + g t * (1 - gamma) <> 0).
    { intros E. apply Hd. replace (gamma + g t / l t * (1 - gamma)) with ((gamma * l t + g t * (1 - gamma)) / l t) by (field; lra).
      rewrite E. unfold Rdiv. ring. }
    field. split; [lra|exact Hd2].
Qed.
