(* Positive semi-definiteness is preserved by the entrywise product (Schur product theorem), in the form the multitask kernel needs:
   if A has a factor (A = L L', the form in which a PSD matrix is used throughout this development, cf. C17) and B is PSD, then the
   entrywise product of A and B is PSD.  Quadratic forms are written with Lib.RBase.bigsum over index ranges. *)
From Coq Require Import Reals Arith Lia Lra.
From LV Require Import Lib.RBase.
Open Scope R_scope.

Definition psdR (n : nat) (K : nat -> nat -> R) : Prop :=
  forall v : nat -> R, 0 <= bigsum n (fun a => bigsum n (fun b => v a * K a b * v b)).
Definition factored (n m : nat) (A L : nat -> nat -> R) : Prop :=
  forall a b, (a < n)%nat -> (b < n)%nat -> A a b = bigsum m (fun k => L a k * L b k).

Lemma bigsum_swap n m (f : nat -> nat -> R) :
  bigsum n (fun a => bigsum m (fun k => f a k)) = bigsum m (fun k => bigsum n (fun a => f a k)).
Proof.
  induction n as [|n IH]; simpl.
  - induction m as [|m IHm]; simpl; [reflexivity|rewrite <- IHm; ring].
  - rewrite IH, <- bigsum_plus. reflexivity.
Qed.

Lemma bigsum_scal_r n c f : bigsum n (fun k => f k * c) = bigsum n f * c.
Proof. rewrite (bigsum_ext n _ (fun k => c * f k)) by (intros; ring). rewrite bigsum_scal. ring. Qed.

Lemma factored_psd n m A L : factored n m A L -> psdR n A.
Proof.
  intros HF v.
  rewrite (bigsum_ext n _ (fun a => bigsum m (fun k => (v a * L a k) * bigsum n (fun b => L b k * v b)))).
  - rewrite bigsum_swap. apply bigsum_nonneg. intros k _.
    rewrite (bigsum_ext n _ (fun a => (L a k * v a) * bigsum n (fun b => L b k * v b))) by (intros; ring).
    rewrite bigsum_scal_r. apply Rle_0_sqr.
  - intros a Ha.
    rewrite (bigsum_ext n _ (fun b => bigsum m (fun k => (v a * L a k) * (L b k * v b)))).
    + rewrite bigsum_swap. apply bigsum_ext. intros k _. rewrite bigsum_scal. reflexivity.
    + intros b Hb. rewrite (HF a b Ha Hb).
      rewrite (bigsum_ext m (fun k => v a * L a k * (L b k * v b)) (fun k => (v a * v b) * (L a k * L b k))) by (intros; ring).
      rewrite bigsum_scal. ring.
Qed.

Theorem hadamard_psd n m A L B : factored n m A L -> psdR n B -> psdR n (fun a b => A a b * B a b).
Proof.
  intros HF HB v.
  rewrite (bigsum_ext n _ (fun a => bigsum m (fun k => bigsum n (fun b => (v a * L a k) * B a b * (v b * L b k))))).
  - rewrite bigsum_swap. apply bigsum_nonneg. intros k _. apply (HB (fun a => v a * L a k)).
  - intros a Ha.
    rewrite (bigsum_ext n _ (fun b => bigsum m (fun k => (v a * L a k) * B a b * (v b * L b k)))).
    + apply bigsum_swap.
    + intros b Hb. rewrite (HF a b Ha Hb).
      rewrite (bigsum_ext m (fun k => v a * L a k * B a b * (v b * L b k)) (fun k => (v a * B a b * v b) * (L a k * L b k))) by (intros; ring).
      rewrite bigsum_scal. ring.
Qed.

(* scaling by a non-negative constant keeps PSD *)
Lemma psd_scale n c K : 0 <= c -> psdR n K -> psdR n (fun a b => c * K a b).
Proof.
  intros Hc HK v.
  rewrite (bigsum_ext n _ (fun a => c * bigsum n (fun b => v a * K a b * v b))).
  - rewrite bigsum_scal. apply Rmult_le_pos; [exact Hc|apply HK].
  - intros a _. rewrite <- bigsum_scal. apply bigsum_ext. intros; ring.
Qed.
