(* Proofs for C19 (search acquisition).  Model: LV.Model.SearchAF. *)
From Coq Require Import List QArith Bool Arith Lia Lra Psatz Qabs.
From LV Require Import Model.SearchAF.
Import ListNotations.
Open Scope Q_scope.

(* ------------------------------------------------------------------ booleans on Q *)
Lemma Qltb_lt x y : Qltb x y = true <-> x < y.
Proof.
  unfold Qltb. rewrite negb_true_iff. split.
  - intros H. apply Qnot_le_lt. intros C. apply Qle_bool_iff in C. congruence.
  - intros H. destruct (Qle_bool y x) eqn:E; [|reflexivity].
    apply Qle_bool_iff in E. exfalso. exact (Qlt_not_le _ _ H E).
Qed.

Lemma Qltb_false x y : Qltb x y = false <-> y <= x.
Proof.
  unfold Qltb. rewrite negb_false_iff. apply Qle_bool_iff.
Qed.

Lemma Qltb_comp x x' y y' : x == x' -> y == y' -> Qltb x y = Qltb x' y'.
Proof. intros A B. unfold Qltb. now rewrite A, B. Qed.

Lemma Qmaxb_nonneg v : 0 <= v -> Qmaxb 0 v == v.
Proof. intros H. unfold Qmaxb. apply Qle_bool_iff in H. rewrite H. reflexivity. Qed.

(* ------------------------------------------------------------------ zipw, firstn, skipn *)
Lemma zipw_length {A B C} (f : A -> B -> C) la lb : length (zipw f la lb) = Nat.min (length la) (length lb).
Proof. revert lb; induction la as [|a la IH]; intros [|b lb]; simpl; auto. Qed.

Lemma zipw_app {A B C} (f : A -> B -> C) a1 a2 b1 b2 :
  length a1 = length b1 -> zipw f (a1 ++ a2) (b1 ++ b2) = zipw f a1 b1 ++ zipw f a2 b2.
Proof.
  revert b1; induction a1 as [|x a1 IH]; intros [|y b1] H; simpl in *; try discriminate; auto.
  f_equal. apply IH. lia.
Qed.

Lemma firstn_app_len {A} (a b : list A) k : length a = k -> firstn k (a ++ b) = a.
Proof. intros <-. rewrite firstn_app, Nat.sub_diag, firstn_all. simpl. apply app_nil_r. Qed.

Lemma skipn_app_len {A} (a b : list A) k : length a = k -> skipn k (a ++ b) = b.
Proof. intros <-. rewrite skipn_app, Nat.sub_diag, skipn_all. reflexivity. Qed.

Lemma split_at {A} (l : list A) k : (k <= length l)%nat ->
  l = firstn k l ++ skipn k l /\ length (firstn k l) = k /\ length (skipn k l) = (length l - k)%nat.
Proof. intros H. rewrite firstn_skipn, firstn_length, skipn_length. repeat split; lia. Qed.

(* ------------------------------------------------------------------ squared distance *)
Lemma sumsq_cons a x : sumsq (a :: x) = a * a + sumsq x.
Proof. reflexivity. Qed.
Lemma dot_cons a b x z : dot (a :: x) (b :: z) = a * b + dot x z.
Proof. reflexivity. Qed.
Lemma sqdist_cons a b x z : sqdist (a :: x) (b :: z) = (a - b) * (a - b) + sqdist x z.
Proof. reflexivity. Qed.

Lemma sq_nn (a : Q) : 0 <= a * a.
Proof. nra. Qed.

Lemma sqdist_nonneg x z : 0 <= sqdist x z.
Proof.
  revert z; induction x as [|a x IH]; intros [|b z]; try (unfold sqdist; simpl; lra).
  rewrite sqdist_cons. specialize (IH z). pose proof (sq_nn (a - b)). lra.
Qed.

Lemma expand_sqdist x z : length x = length z -> sumsq x + sumsq z - 2 * dot x z == sqdist x z.
Proof.
  revert z; induction x as [|a x IH]; intros [|b z] H; simpl in H; try discriminate.
  - unfold sumsq, dot, sqdist. simpl. ring.
  - rewrite !sumsq_cons, dot_cons, sqdist_cons. rewrite <- (IH z) by lia. ring.
Qed.

(* the library's formula is the sum of squared coordinate differences *)
Lemma dist2_sqdist x z : length x = length z -> dist2 x z == sqdist x z.
Proof.
  intros H. unfold dist2. rewrite Qmaxb_nonneg; rewrite (expand_sqdist x z H); [reflexivity|apply sqdist_nonneg].
Qed.

Lemma sqdist_refl x : sqdist x x == 0.
Proof. induction x as [|a x IH]; [reflexivity|]. rewrite sqdist_cons, IH. ring. Qed.

Lemma sqdist_sym x z : sqdist x z == sqdist z x.
Proof.
  revert z; induction x as [|a x IH]; intros [|b z]; try reflexivity.
  rewrite !sqdist_cons, (IH z). ring.
Qed.

Lemma sqdist_app a1 a2 b1 b2 : length a1 = length b1 ->
  sqdist (a1 ++ a2) (b1 ++ b2) == sqdist a1 b1 + sqdist a2 b2.
Proof.
  revert b1; induction a1 as [|x a1 IH]; intros [|y b1] H; simpl in H; try discriminate.
  - simpl. unfold sqdist at 2. simpl. ring.
  - simpl app. rewrite !sqdist_cons, (IH b1) by lia. ring.
Qed.

(* ------------------------------------------------------------------ near *)
Lemma near_spec dp rs s : near dp rs s = true <-> exists r, In r rs /\ dist2 r s < dp.
Proof.
  unfold near. rewrite existsb_exists. split; intros [r [I H]]; exists r; split; auto; now apply Qltb_lt.
Qed.

Lemma near_sqdist dp rs s : (forall r, In r rs -> length r = length s) ->
  (near dp rs s = true <-> exists r, In r rs /\ sqdist r s < dp).
Proof.
  intros L. rewrite near_spec. split; intros [r [I H]]; exists r; split; auto.
  - rewrite <- (dist2_sqdist r s (L r I)). exact H.
  - rewrite (dist2_sqdist r s (L r I)). exact H.
Qed.

(* ------------------------------------------------------------------ shapes *)
Lemma oh_bounds_length d : length (oh_bounds d) = one_hot_dim d.
Proof.
  induction d as [|c d IH]; [reflexivity|]. unfold oh_bounds in *. simpl. rewrite app_length, IH.
  destruct c; simpl; [reflexivity|]. now rewrite repeat_length.
Qed.

Lemma one_hot_block_length k b t : length (one_hot_block k b t) = k.
Proof. unfold one_hot_block. now rewrite map_length, seq_length. Qed.

Lemma round_cats_length d t : forall u, length u = one_hot_dim d -> length (round_cats d t u) = one_hot_dim d.
Proof.
  induction d as [|c d IH]; intros u H; [reflexivity|].
  destruct c as [lo hi|k]; cbn [round_cats one_hot_dim comp_width] in *; rewrite app_length.
  - rewrite firstn_length, IH; [lia|]. rewrite skipn_length. lia.
  - rewrite one_hot_block_length, IH; [lia|]. rewrite skipn_length. lia.
Qed.

Lemma to_search_length d t p : length p = one_hot_dim d -> length (to_search d t p) = one_hot_dim d.
Proof.
  intros H. unfold to_search. apply round_cats_length. unfold to_unit. rewrite zipw_length, oh_bounds_length. lia.
Qed.

Lemma wf_point_iff d p : wf_point d p = true <-> length p = one_hot_dim d.
Proof. unfold wf_point. apply Nat.eqb_eq. Qed.

Definition reps_wf (d : domain) (s : st) : Prop := forall r, In r (reps s) -> length r = one_hot_dim d.

Lemma add_repulsors_spec d t s pts s' : add_repulsors d t s pts = Some s' ->
  reps s' = reps s ++ map (to_search d t) pts /\ dpar s' = dpar s /\ (forall p, In p pts -> length p = one_hot_dim d).
Proof.
  unfold add_repulsors. destruct (forallb (wf_point d) pts) eqn:E; [|discriminate]. intros H; inversion H; subst; simpl.
  repeat split. intros p I. rewrite forallb_forall in E. now apply wf_point_iff, E.
Qed.

Lemma add_repulsors_wf d t s pts s' : reps_wf d s -> add_repulsors d t s pts = Some s' -> reps_wf d s'.
Proof.
  intros W H. destruct (add_repulsors_spec _ _ _ _ _ H) as [R [_ L]]. intros r I. rewrite R in I.
  apply in_app_or in I. destruct I as [I|I]; [now apply W|].
  apply in_map_iff in I. destruct I as [p [<- I]]. apply to_search_length, L, I.
Qed.

Lemma pi_search_init_wf d t dp r0 s : pi_search_init d t dp r0 = Some s -> reps_wf d s.
Proof.
  destruct r0 as [pts|]; simpl; intros H.
  - eapply add_repulsors_wf; [|exact H]. intros r [].
  - inversion H. intros r [].
Qed.

(* ------------------------------------------------------------------ value_is_probability_or_zero *)
Theorem value_is_probability_or_zero d t s fm p :
  reps_wf d s -> length p = one_hot_dim d -> 0 <= fm p <= 1 ->
  let v := eval_point d t s fm p in
  ((exists r, In r (reps s) /\ sqdist r (to_search d t p) < dpar s) -> v = 0) /\
  ((forall r, In r (reps s) -> dpar s <= sqdist r (to_search d t p)) -> v = fm p) /\
  0 <= v <= 1.
Proof.
  intros W L R v. subst v. unfold eval_point.
  assert (LL : forall r, In r (reps s) -> length r = length (to_search d t p)).
  { intros r I. rewrite (W r I). symmetry. now apply to_search_length. }
  pose proof (near_sqdist (dpar s) (reps s) (to_search d t p) LL) as N.
  destruct (near (dpar s) (reps s) (to_search d t p)) eqn:E.
  - split; [reflexivity|]. split; [|lra].
    intros F. destruct (proj1 N eq_refl) as [r [I H]]. specialize (F r I). lra.
  - split; [|split; [reflexivity|exact R]].
    intros X. apply N in X. discriminate.
Qed.

(* every value returned by one batch is eval_point of its row *)
Lemma eval_batch_spec d t s fm pts : (forall p, In p pts -> length p = one_hot_dim d) ->
  eval_batch d t s fm pts = Some (map (eval_point d t s fm) pts).
Proof.
  intros H. unfold eval_batch. replace (forallb (wf_point d) pts) with true; [reflexivity|].
  symmetry. apply forallb_forall. intros p I. now apply wf_point_iff, H.
Qed.

(* ------------------------------------------------------------------ failure models *)
Lemma prodQ_range l : Forall (fun q => 0 <= q <= 1) l -> 0 <= prodQ l <= 1.
Proof.
  induction 1 as [|q l Hq _ IH]; unfold prodQ in *; simpl; [lra|]. nra.
Qed.

Theorem prod_fm_range fms p : (forall f, In f fms -> 0 <= f p <= 1) -> 0 <= prod_fm fms p <= 1.
Proof.
  intros H. unfold prod_fm. apply (prodQ_range (map (fun f => f p) fms)).
  apply Forall_forall. intros q I. apply in_map_iff in I. destruct I as [f [<- I]]. now apply H.
Qed.

Lemma logistic_range e : 0 <= e -> 0 < logistic e /\ logistic e <= 1.
Proof.
  intros H. unfold logistic. assert (P : 0 < 1 + e) by lra. split.
  - apply Qlt_shift_div_l; lra.
  - apply Qle_shift_div_r; lra.
Qed.

(* ------------------------------------------------------------------ unit cube *)
Lemma from_to_unit1 b x : ~ snd b == fst b -> from_unit1 b (to_unit1 b x) == x.
Proof. intros H. unfold from_unit1, to_unit1. field. intros C. apply H. lra. Qed.

Lemma to_from_unit1 b u : ~ snd b == fst b -> to_unit1 b (from_unit1 b u) == u.
Proof. intros H. unfold from_unit1, to_unit1. field. intros C. apply H. lra. Qed.

Lemma to_unit1_range b x : fst b < snd b -> fst b <= x <= snd b -> 0 <= to_unit1 b x <= 1.
Proof.
  intros H [A B]. unfold to_unit1. assert (P : 0 < snd b - fst b) by lra. split.
  - apply Qle_shift_div_l; lra.
  - apply Qle_shift_div_r; lra.
Qed.

Theorem unit_cube_roundtrip bs : Forall (fun b => ~ snd b == fst b) bs -> forall p, length p = length bs ->
  Forall2 Qeq (from_unit bs (to_unit bs p)) p /\ Forall2 Qeq (to_unit bs (from_unit bs p)) p.
Proof.
  induction 1 as [|b bs Hb _ IH]; intros [|x p] L; simpl in L; try discriminate.
  - split; constructor.
  - destruct (IH p ltac:(lia)) as [A B]. split; simpl; constructor; auto.
    + now apply from_to_unit1.
    + now apply to_from_unit1.
Qed.

Theorem unit_cube_range bs : forall p, Forall2 (fun b x => fst b < snd b /\ fst b <= x <= snd b) bs p ->
  Forall (fun u => 0 <= u <= 1) (to_unit bs p).
Proof.
  induction 1 as [|b x bs p [H1 H2] _ IH]; simpl; constructor; auto. now apply to_unit1_range.
Qed.

(* ------------------------------------------------------------------ structure of to_search *)
Lemma to_search_nil t p : to_search [] t p = [].
Proof. reflexivity. Qed.

Lemma to_search_num lo hi d t x p :
  to_search (Num lo hi :: d) t (x :: p) = to_unit1 (lo, hi) x :: to_search d t p.
Proof. reflexivity. Qed.

Lemma argmax_from_ext l l' : Forall2 Qeq l l' -> forall best best' bi i, best == best' ->
  argmax_from best bi i l = argmax_from best' bi i l'.
Proof.
  induction 1 as [|x x' l l' Hx _ IH]; intros best best' bi i Hb; simpl; [reflexivity|].
  rewrite (Qltb_comp best best' x x' Hb Hx). destruct (Qltb best' x'); apply IH; auto.
Qed.

Lemma argmax_ext l l' : Forall2 Qeq l l' -> argmax l = argmax l'.
Proof. intros H; destruct H as [|x x' l l' Hx H]; simpl; [reflexivity|]. now apply argmax_from_ext. Qed.

Lemma unit01_id blk : Forall2 Qeq (zipw to_unit1 (repeat (0, 1) (length blk)) blk) blk.
Proof.
  induction blk as [|x blk IH]; simpl; constructor; auto. unfold to_unit1. simpl. field.
Qed.

Lemma to_search_cat k d t blk p : length blk = k ->
  to_search (Cat k :: d) t (blk ++ p) = one_hot_block k (argmax blk) t ++ to_search d t p.
Proof.
  intros L. unfold to_search, to_unit, oh_bounds. simpl flat_map. fold (oh_bounds d).
  rewrite zipw_app by (now rewrite repeat_length). simpl round_cats.
  assert (LZ : length (zipw to_unit1 (repeat (0, 1) k) blk) = k).
  { rewrite zipw_length, repeat_length. lia. }
  rewrite (firstn_app_len _ _ k LZ), (skipn_app_len _ _ k LZ). f_equal. f_equal.
  apply argmax_ext. subst k. apply unit01_id.
Qed.

Lemma cat_choice_cat k d blk p : length blk = k -> cat_choice (Cat k :: d) (blk ++ p) = argmax blk :: cat_choice d p.
Proof. intros L. simpl. now rewrite (firstn_app_len _ _ k L), (skipn_app_len _ _ k L). Qed.

(* ------------------------------------------------------------------ categories_apart *)
Lemma argmax_from_lt l : forall best bi i, (bi < i)%nat -> (argmax_from best bi i l < i + length l)%nat.
Proof.
  induction l as [|x l IH]; intros best bi i H; simpl; [lia|].
  destruct (Qltb best x).
  - specialize (IH x i (S i) ltac:(lia)). lia.
  - specialize (IH best bi (S i) ltac:(lia)). lia.
Qed.

Lemma argmax_lt l : l <> [] -> (argmax l < length l)%nat.
Proof.
  destruct l as [|x l]; [congruence|]. intros _. simpl. pose proof (argmax_from_lt l x 0%nat 1%nat ltac:(lia)). lia.
Qed.

Definition inb (a s k : nat) : bool := Nat.leb s a && Nat.ltb a (s + k).

Lemma inb_zero a s : inb a s 0 = false.
Proof. unfold inb. destruct (Nat.leb_spec s a), (Nat.ltb_spec a (s + 0)); simpl; try reflexivity; lia. Qed.

Lemma inb_step a s k : inb a s (S k) = Nat.eqb s a || inb a (S s) k.
Proof.
  unfold inb.
  destruct (Nat.eqb_spec s a), (Nat.leb_spec s a), (Nat.ltb_spec a (s + S k)), (Nat.leb_spec (S s) a), (Nat.ltb_spec a (S s + k));
    simpl; try reflexivity; lia.
Qed.

Lemma inb_self_false a s k : s = a -> inb a (S s) k = false.
Proof. intros E. unfold inb. destruct (Nat.leb_spec (S s) a); simpl; [lia|reflexivity]. Qed.

Lemma block_dist_gen t a b : a <> b -> forall k s,
  sqdist (map (fun j => if Nat.eqb j a then t else 0) (seq s k)) (map (fun j => if Nat.eqb j b then t else 0) (seq s k))
  == (if inb a s k then t * t else 0) + (if inb b s k then t * t else 0).
Proof.
  intros N. induction k as [|k IH]; intros s.
  - rewrite !inb_zero. simpl. unfold sqdist. simpl. ring.
  - simpl seq. simpl map. rewrite sqdist_cons, (IH (S s)), !inb_step.
    destruct (Nat.eqb_spec s a) as [Ea|Ea], (Nat.eqb_spec s b) as [Eb|Eb]; try lia.
    + rewrite (inb_self_false a s k Ea). simpl orb. destruct (inb b (S s) k); ring.
    + rewrite (inb_self_false b s k Eb). simpl orb. destruct (inb a (S s) k); ring.
    + simpl orb. destruct (inb a (S s) k), (inb b (S s) k); ring.
Qed.

Lemma block_dist k a b t : (a < k)%nat -> (b < k)%nat -> a <> b ->
  sqdist (one_hot_block k a t) (one_hot_block k b t) == 2 * (t * t).
Proof.
  intros A B N. unfold one_hot_block. rewrite (block_dist_gen t a b N k 0%nat). unfold inb.
  replace (Nat.leb 0 a) with true by (symmetry; apply Nat.leb_le; lia).
  replace (Nat.leb 0 b) with true by (symmetry; apply Nat.leb_le; lia).
  replace (Nat.ltb a (0 + k)) with true by (symmetry; apply Nat.ltb_lt; lia).
  replace (Nat.ltb b (0 + k)) with true by (symmetry; apply Nat.ltb_lt; lia).
  simpl. ring.
Qed.

Theorem categories_apart d t : forall p q, length p = one_hot_dim d -> length q = one_hot_dim d ->
  cat_choice d p <> cat_choice d q -> 2 * (t * t) <= sqdist (to_search d t p) (to_search d t q).
Proof.
  induction d as [|c d IH]; intros p q Lp Lq N; [simpl in N; congruence|].
  destruct c as [lo hi|k].
  - destruct p as [|x p]; [simpl in Lp; lia|]. destruct q as [|y q]; [simpl in Lq; lia|].
    rewrite !to_search_num, sqdist_cons. simpl in Lp, Lq, N.
    specialize (IH p q ltac:(lia) ltac:(lia) N).
    pose proof (sq_nn (to_unit1 (lo, hi) x - to_unit1 (lo, hi) y)). lra.
  - simpl in Lp, Lq.
    destruct (split_at p k ltac:(lia)) as [Ep [Lp1 Lp2]]. destruct (split_at q k ltac:(lia)) as [Eq [Lq1 Lq2]].
    rewrite Ep, Eq in N |- *. rewrite !(cat_choice_cat k d _ _) in N by assumption.
    rewrite !(to_search_cat k d t _ _) by assumption.
    rewrite sqdist_app by (now rewrite !one_hot_block_length).
    pose proof (sqdist_nonneg (one_hot_block k (argmax (firstn k p)) t) (one_hot_block k (argmax (firstn k q)) t)) as P1.
    pose proof (sqdist_nonneg (to_search d t (skipn k p)) (to_search d t (skipn k q))) as P2.
    destruct (Nat.eq_dec (argmax (firstn k p)) (argmax (firstn k q))) as [E|NE].
    + assert (N' : cat_choice d (skipn k p) <> cat_choice d (skipn k q)) by (intros C; apply N; now rewrite E, C).
      specialize (IH (skipn k p) (skipn k q) ltac:(lia) ltac:(lia) N'). lra.
    + assert (K : (0 < k)%nat).
      { destruct k; [|lia]. exfalso. apply NE. now rewrite !firstn_O. }
      assert (A : (argmax (firstn k p) < k)%nat).
      { rewrite <- Lp1 at 2. apply argmax_lt. intros C. rewrite C in Lp1. simpl in Lp1. lia. }
      assert (B : (argmax (firstn k q) < k)%nat).
      { rewrite <- Lq1 at 2. apply argmax_lt. intros C. rewrite C in Lq1. simpl in Lq1. lia. }
      rewrite (block_dist k _ _ t A B NE). lra.
Qed.

(* a repulsor whose category differs from the evaluated point's never zeroes it once the squared radius is at most 2 t^2 *)
Corollary categories_never_repel d t dp p q : length p = one_hot_dim d -> length q = one_hot_dim d ->
  cat_choice d p <> cat_choice d q -> dp <= 2 * (t * t) ->
  Qltb (dist2 (to_search d t q) (to_search d t p)) dp = false.
Proof.
  intros Lp Lq N H. apply Qltb_false. rewrite dist2_sqdist by (now rewrite !to_search_length).
  pose proof (categories_apart d t q p Lq Lp (fun C => N (eq_sym C))). lra.
Qed.

(* the scheduled squared radii *)
Lemma get_dp_range n w : (0 < n)%nat -> (w < 4)%nat ->
  0 < get_dp n w /\ get_dp n w <= inject_Z (Z.of_nat n) * (4 # 100).
Proof.
  intros Hn Hw. unfold get_dp.
  assert (P : 1 <= inject_Z (Z.of_nat n)).
  { change 1 with (inject_Z 1). rewrite <- Zle_Qle. lia. }
  destruct w as [|[|[|[|w]]]]; try lia; simpl nth; split; nra.
Qed.

Lemma dim_le_one_hot_dim d : (forall k, In (Cat k) d -> (1 <= k)%nat) -> (length d <= one_hot_dim d)%nat.
Proof.
  induction d as [|c d IH]; intros H; simpl; [lia|].
  assert (W : (1 <= comp_width c)%nat).
  { destruct c; simpl; [lia|]. apply H. now left. }
  specialize (IH (fun k I => H k (or_intror I))). lia.
Qed.

(* with the scheduled radii and t^2 within 1% of the one-hot dimension, the radius never reaches across categories *)
Theorem schedule_below_category_gap d t w : d <> [] -> (forall k, In (Cat k) d -> (1 <= k)%nat) -> (w < 4)%nat ->
  inject_Z (Z.of_nat (one_hot_dim d)) * (99 # 100) <= t * t ->
  get_dp (length d) w < 2 * (t * t).
Proof.
  intros Hd Hk Hw Ht.
  assert (Hn : (0 < length d)%nat) by (destruct d; [congruence|simpl; lia]).
  destruct (get_dp_range (length d) w Hn Hw) as [_ U].
  pose proof (dim_le_one_hot_dim d Hk) as LE.
  assert (Q1 : inject_Z (Z.of_nat (length d)) <= inject_Z (Z.of_nat (one_hot_dim d))) by (rewrite <- Zle_Qle; lia).
  assert (Q0 : 1 <= inject_Z (Z.of_nat (length d))).
  { change 1 with (inject_Z 1). rewrite <- Zle_Qle. lia. }
  nra.
Qed.

(* ------------------------------------------------------------------ batch independence *)
Lemma forallb_firstn_skipn {A} (f : A -> bool) k l : forallb f l = true ->
  forallb f (firstn k l) = true /\ forallb f (skipn k l) = true.
Proof. intros H. rewrite <- (firstn_skipn k l), forallb_app in H. now apply andb_true_iff in H. Qed.

Lemma eval_chunks_S f bs d t s fm pts : pts <> [] ->
  eval_chunks (S f) bs d t s fm pts =
  match eval_batch d t s fm (firstn bs pts), eval_chunks f bs d t s fm (skipn bs pts) with
  | Some a, Some b => Some (a ++ b)
  | _, _ => None
  end.
Proof. destruct pts; [congruence|reflexivity]. Qed.

Lemma eval_chunks_map d t s fm bs : (0 < bs)%nat -> forall fuel pts, (length pts <= fuel)%nat ->
  forallb (wf_point d) pts = true -> eval_chunks fuel bs d t s fm pts = Some (map (eval_point d t s fm) pts).
Proof.
  intros Hb. induction fuel as [|f IH]; intros pts L W.
  - destruct pts; [reflexivity|simpl in L; lia].
  - assert (C : pts = [] \/ pts <> []) by (destruct pts; [now left|right; discriminate]).
    destruct C as [E|NE]; [subst pts; reflexivity|].
    rewrite (eval_chunks_S f bs d t s fm pts NE).
    destruct (forallb_firstn_skipn (wf_point d) bs pts W) as [W1 W2].
    unfold eval_batch. rewrite W1.
    assert (Lp : (0 < length pts)%nat) by (destruct pts; [congruence|simpl; lia]).
    rewrite IH; [|rewrite skipn_length; lia|exact W2].
    rewrite <- map_app, firstn_skipn. reflexivity.
Qed.

Theorem batch_independent d t s fm pts b : pts <> [] -> (0 < b)%nat ->
  (forall p, In p pts -> length p = one_hot_dim d) ->
  evaluate (Some b) d t s fm pts = Some (map (eval_point d t s fm) pts) /\
  evaluate None d t s fm pts = Some (map (eval_point d t s fm) pts).
Proof.
  intros NE Hb L.
  assert (W : forallb (wf_point d) pts = true).
  { apply forallb_forall. intros p I. now apply wf_point_iff, L. }
  assert (Ln : (0 < length pts)%nat) by (destruct pts; [congruence|simpl; lia]).
  unfold evaluate. rewrite W. split.
  - destruct b as [|b']; [lia|]. simpl Nat.eqb. cbv iota. apply eval_chunks_map; auto; lia.
  - destruct (length pts) as [|n] eqn:E; [lia|]. simpl Nat.eqb. cbv iota. rewrite <- E. apply eval_chunks_map; auto; lia.
Qed.

(* ------------------------------------------------------------------ the optimisation loop *)
Lemma nth_error_firstn_lt {A} (l : list A) : forall i j, (j < i)%nat -> nth_error (firstn i l) j = nth_error l j.
Proof.
  induction l as [|x l IH]; intros [|i] [|j] H; simpl; try reflexivity; try lia. apply IH. lia.
Qed.

Section LoopProofs.
  Variable d : domain.
  Variable t : Q.
  Variable opt : st -> point.

  Lemma loop_nth : forall draws s tr e, loop d t opt s draws = Some (tr, e) ->
    length tr = length draws /\
    reps e = reps s ++ map (to_search d t) (map snd tr) /\
    forall i si pi, nth_error tr i = Some (si, pi) ->
      pi = opt si /\ length pi = one_hot_dim d /\
      reps si = reps s ++ map (to_search d t) (firstn i (map snd tr)) /\
      dpar si = match i with O => dpar s | S j => get_dp (length d) (nth j draws O) end.
  Proof.
    induction draws as [|w r IH]; intros s tr e H; simpl in H.
    - inversion H; subst. simpl. rewrite app_nil_r. split; [reflexivity|]. split; [reflexivity|]. intros [|i] si pi X; discriminate.
    - destruct (add_repulsors d t s [opt s]) as [s1|] eqn:A; [|discriminate].
      destruct (add_repulsors_spec _ _ _ _ _ A) as [R1 [D1 L1]].
      destruct (loop d t opt (mkst (reps s1) (get_dp (length d) w)) r) as [[tr' e']|] eqn:Lp; [|discriminate].
      inversion H; subst tr e. clear H.
      destruct (IH _ _ _ Lp) as [Len [Re Nth]]. simpl reps in *. simpl dpar in *.
      split; [simpl; lia|]. split.
      + rewrite Re, R1. simpl. now rewrite <- app_assoc.
      + intros [|i] si pi X; simpl in X.
        * inversion X; subst si pi. simpl. rewrite app_nil_r. repeat split; auto. apply L1. now left.
        * destruct (Nth i si pi X) as [P1 [P2 [P3 P4]]]. repeat split; auto.
          -- rewrite P3, R1. simpl. now rewrite <- app_assoc.
          -- rewrite P4. destruct i; reflexivity.
  Qed.

  Theorem picks_become_repulsors s0 draws picks s_after tr :
    search_opt d t opt s0 draws = Some (picks, s_after, tr) ->
    length picks = length draws /\ picks = map snd tr /\
    forall i si pi, nth_error tr i = Some (si, pi) ->
      pi = opt si /\
      reps si = reps s0 ++ map (to_search d t) (firstn i picks) /\
      dpar si = match i with O => dpar s0 | S j => get_dp (length d) (nth j draws O) end /\
      forall j pj, (j < i)%nat -> nth_error picks j = Some pj ->
        In (to_search d t pj) (reps si) /\
        (0 < dpar si -> forall fm, eval_point d t si fm pj = 0).
  Proof.
    unfold search_opt. destruct (loop d t opt s0 draws) as [[tr0 e]|] eqn:Lp; [|discriminate].
    intros H; inversion H; subst picks s_after tr. clear H.
    destruct (loop_nth _ _ _ _ Lp) as [Len [_ Nth]].
    split; [now rewrite map_length|]. split; [reflexivity|].
    intros i si pi X. destruct (Nth i si pi X) as [P1 [P2 [P3 P4]]].
    split; [exact P1|]. split; [exact P3|]. split; [exact P4|].
    intros j pj Hj Xj.
    assert (I : In (to_search d t pj) (reps si)).
    { rewrite P3. apply in_or_app. right. apply in_map.
      assert (Xf : nth_error (firstn i (map snd tr0)) j = Some pj) by (rewrite nth_error_firstn_lt; [exact Xj|exact Hj]).
      eapply nth_error_In; eauto. }
    split; [exact I|].
    intros Pos fm. unfold eval_point.
    replace (near (dpar si) (reps si) (to_search d t pj)) with true; [reflexivity|].
    symmetry. apply near_spec. exists (to_search d t pj). split; [exact I|].
    rewrite dist2_sqdist by reflexivity. now rewrite sqdist_refl.
  Qed.

  Theorem state_restored s0 draws picks s_after tr :
    search_opt d t opt s0 draws = Some (picks, s_after, tr) ->
    reps s_after = reps s0 /\ dpar s_after = dpar s0.
  Proof.
    unfold search_opt. destruct (loop d t opt s0 draws) as [[tr0 e]|]; [|discriminate].
    intros H; inversion H; subst. split; reflexivity.
  Qed.
End LoopProofs.

(* the view seeds the repulsors with the observed points followed by the pending points *)
Theorem view_repulsors d t sampled pending w s : view_init d t sampled pending w = Some s ->
  reps s = map (to_search d t) (sampled ++ pending) /\ dpar s = get_dp (length d) w /\ reps_wf d s.
Proof.
  intros H. pose proof (pi_search_init_wf _ _ _ _ _ H) as W. unfold view_init, pi_search_init in H.
  destruct (add_repulsors_spec _ _ _ _ _ H) as [R [D _]]. simpl in R, D.
  split; [|split; auto]. rewrite R. destruct pending; [now rewrite app_nil_r|reflexivity].
Qed.

(* combined forms used by Props/C19.v *)
Theorem repulsors_well_shaped d t dp r0 s pts s' :
  pi_search_init d t dp r0 = Some s -> add_repulsors d t s pts = Some s' ->
  reps_wf d s /\ reps_wf d s' /\ reps s' = reps s ++ map (to_search d t) pts /\ dpar s' = dpar s.
Proof.
  intros H A. pose proof (pi_search_init_wf _ _ _ _ _ H) as W.
  destruct (add_repulsors_spec _ _ _ _ _ A) as [R [D _]].
  split; [exact W|]. split; [eapply add_repulsors_wf; eauto|]. split; assumption.
Qed.

Theorem schedule_positive_below_category_gap d t w :
  d <> [] -> (forall k, In (Cat k) d -> (1 <= k)%nat) -> (w < 4)%nat ->
  inject_Z (Z.of_nat (one_hot_dim d)) * (99 # 100) <= t * t ->
  0 < get_dp (length d) w /\ get_dp (length d) w < 2 * (t * t).
Proof.
  intros Hd Hk Hw Ht. split; [|now apply schedule_below_category_gap].
  apply get_dp_range; [|exact Hw]. destruct d; [congruence|simpl; lia].
Qed.
