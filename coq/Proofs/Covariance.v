(* C03 (and the kernel part of C04): theorems about the definitions REGENERATED from covariance.py, covariance_base.py and
   geometry_utils.py (coq/Gen/GenCovariance.v). *)
From Coq Require Import Reals Lra Psatz Arith Lia.
From Coquelicot Require Import Coquelicot.
From LV Require Import Lib.RBase Gen.GenCovariance.
Open Scope R_scope.

(* ------------------------------------------------------------------ the documented radial profiles *)
Definition phiSE (r : R) : R := exp (- (r ^ 2) / 2).
Definition phiC0 (r : R) : R := exp (- r).
Definition phiC2 (r : R) : R := (1 + r) * exp (- r).
Definition phiC4 (r : R) : R := (1 + r + r ^ 2 / 3) * exp (- r).

(* squared length-scale-weighted distance between row i of x and row j of z, and the distance r *)
Definition d2w (dim : nat) (x z : nat -> nat -> R) (ls : nat -> R) (i j : nat) : R :=
  bigsum dim (fun k => ((x i k - z j k) / ls k) ^ 2).
Definition rw dim x z ls i j : R := sqrt (d2w dim x z ls i j).

Lemma d2w_nonneg dim x z ls i j : 0 <= d2w dim x z ls i j.
Proof. apply bigsum_nonneg. intros k _. apply pow2_ge_0. Qed.
Lemma rw_sq dim x z ls i j : rw dim x z ls i j ^ 2 = d2w dim x z ls i j.
Proof. unfold rw. simpl. rewrite Rmult_1_r. apply sqrt_sqrt, d2w_nonneg. Qed.
Lemma rw_nonneg dim x z ls i j : 0 <= rw dim x z ls i j.
Proof. apply sqrt_pos. Qed.

(* ------------------------------------------------------------------ closed forms: covariance(x, z)[i] = alpha * phi(r) *)
Lemma SE_closed_form dim x z ls lsq lcu alpha i :
  SquareExponential.covariance dim x z ls lsq lcu alpha i = alpha * phiSE (rw dim x z ls i i).
Proof. unfold SquareExponential.covariance, phiSE, rw, d2w. f_equal. f_equal. field. Qed.
Lemma C0_closed_form dim x z ls lsq lcu alpha i :
  C0RadialMatern.covariance dim x z ls lsq lcu alpha i = alpha * phiC0 (rw dim x z ls i i).
Proof. reflexivity. Qed.
Lemma C2_closed_form dim x z ls lsq lcu alpha i :
  C2RadialMatern.covariance dim x z ls lsq lcu alpha i = alpha * phiC2 (rw dim x z ls i i).
Proof. reflexivity. Qed.
Lemma C4_closed_form dim x z ls lsq lcu alpha i :
  C4RadialMatern.covariance dim x z ls lsq lcu alpha i = alpha * phiC4 (rw dim x z ls i i).
Proof. unfold C4RadialMatern.covariance, phiC4, rw, d2w. f_equal. f_equal. field. Qed.

(* ------------------------------------------------------------------ the clamped expansion is the squared distance *)
Lemma expand_square n (a b : nat -> R) :
  bigsum n (fun k => a k ^ 2) + bigsum n (fun k => b k ^ 2) - 2 * bigsum n (fun k => a k * b k)
  = bigsum n (fun k => (a k - b k) ^ 2).
Proof. induction n as [|n IH]; simpl; [lra|]. simpl in IH. lra. Qed.

Lemma dist_matrix_identity dim x z i j :
  Geometry.compute_distance_matrix_squared dim x z i j = bigsum dim (fun k => (x i k - z j k) ^ 2).
Proof.
  unfold Geometry.compute_distance_matrix_squared.
  rewrite (expand_square dim (fun k => x i k) (fun k => z j k)).
  apply Rmax_right. apply bigsum_nonneg. intros k _. apply pow2_ge_0.
Qed.

Lemma scaled_distance dim xe xs ls i j : (forall k, ls k <> 0) ->
  Rmax 0 (bigsum dim (fun k => (xe i k / ls k) ^ 2) + bigsum dim (fun k => (xs j k / ls k) ^ 2)
          - 2 * bigsum dim (fun k => xe i k / ls k * (xs j k / ls k)))
  = d2w dim xe xs ls i j.
Proof.
  intros Hl. rewrite (expand_square dim (fun k => xe i k / ls k) (fun k => xs j k / ls k)).
  rewrite Rmax_right by (apply bigsum_nonneg; intros k _; apply pow2_ge_0).
  unfold d2w. apply bigsum_ext. intros k _. f_equal. field. apply Hl.
Qed.

Lemma pdist_distance dim xs ls j j2 : (forall k, ls k <> 0) ->
  bigsum dim (fun k => (xs j k / ls k - xs j2 k / ls k) ^ 2) = d2w dim xs xs ls j j2.
Proof. intros Hl. unfold d2w. apply bigsum_ext. intros k _. f_equal. field. apply Hl. Qed.

(* ------------------------------------------------------------------ entry points agree (cross matrix, symmetric matrix, pairwise) *)
(* The cross-matrix entry (i, j) is the pairwise covariance of row i of the evaluation points with row j of the data;
   the symmetric matrix entry (j, j2) is the pairwise covariance plus the noise of point j on the diagonal only. *)
Section EntryPoints.
Variables (dim : nat) (xe xs : nat -> nat -> R) (ls lsq lcu noise : nat -> R) (alpha : R).
Hypothesis ls_nz : forall k, ls k <> 0.

Lemma SE_cross i j : SquareExponential.kernel_matrix_cross dim xs xe ls lsq lcu alpha i j = alpha * phiSE (rw dim xe xs ls i j).
Proof.
  unfold SquareExponential.kernel_matrix_cross. rewrite scaled_distance by exact ls_nz.
  unfold phiSE. rewrite rw_sq. f_equal. f_equal. field.
Qed.
Lemma SE_sym j j2 : SquareExponential.kernel_matrix_sym dim xs noise ls lsq lcu alpha j j2
  = alpha * phiSE (rw dim xs xs ls j j2) + (if Nat.eqb j j2 then noise j else 0).
Proof.
  unfold SquareExponential.kernel_matrix_sym. rewrite pdist_distance by exact ls_nz.
  unfold phiSE. rewrite rw_sq. f_equal. f_equal. f_equal. field.
Qed.
Lemma C0_cross i j : C0RadialMatern.kernel_matrix_cross dim xs xe ls lsq lcu alpha i j = alpha * phiC0 (rw dim xe xs ls i j).
Proof. unfold C0RadialMatern.kernel_matrix_cross. rewrite scaled_distance by exact ls_nz. reflexivity. Qed.
Lemma C0_sym j j2 : C0RadialMatern.kernel_matrix_sym dim xs noise ls lsq lcu alpha j j2
  = alpha * phiC0 (rw dim xs xs ls j j2) + (if Nat.eqb j j2 then noise j else 0).
Proof. unfold C0RadialMatern.kernel_matrix_sym. rewrite pdist_distance by exact ls_nz. reflexivity. Qed.
Lemma C2_cross i j : C2RadialMatern.kernel_matrix_cross dim xs xe ls lsq lcu alpha i j = alpha * phiC2 (rw dim xe xs ls i j).
Proof. unfold C2RadialMatern.kernel_matrix_cross. rewrite scaled_distance by exact ls_nz. reflexivity. Qed.
Lemma C2_sym j j2 : C2RadialMatern.kernel_matrix_sym dim xs noise ls lsq lcu alpha j j2
  = alpha * phiC2 (rw dim xs xs ls j j2) + (if Nat.eqb j j2 then noise j else 0).
Proof. unfold C2RadialMatern.kernel_matrix_sym. rewrite pdist_distance by exact ls_nz. reflexivity. Qed.
Lemma C4_cross i j : C4RadialMatern.kernel_matrix_cross dim xs xe ls lsq lcu alpha i j = alpha * phiC4 (rw dim xe xs ls i j).
Proof.
  unfold C4RadialMatern.kernel_matrix_cross. rewrite scaled_distance by exact ls_nz.
  unfold phiC4. rewrite rw_sq. unfold rw. f_equal. f_equal. field.
Qed.
Lemma C4_sym j j2 : C4RadialMatern.kernel_matrix_sym dim xs noise ls lsq lcu alpha j j2
  = alpha * phiC4 (rw dim xs xs ls j j2) + (if Nat.eqb j j2 then noise j else 0).
Proof.
  unfold C4RadialMatern.kernel_matrix_sym. rewrite pdist_distance by exact ls_nz.
  unfold phiC4. rewrite rw_sq. unfold rw. f_equal. f_equal. f_equal. field.
Qed.
End EntryPoints.

(* ------------------------------------------------------------------ properties of any kernel of the form alpha * phi(r) *)
Lemma d2w_diag dim x ls i : d2w dim x x ls i i = 0.
Proof.
  unfold d2w. induction dim as [|n IH]; cbn [bigsum]; [reflexivity|]. rewrite IH.
  unfold Rminus. rewrite Rplus_opp_r. unfold Rdiv. rewrite Rmult_0_l. simpl. ring.
Qed.
Lemma rw_diag dim x ls i : rw dim x x ls i i = 0.
Proof. unfold rw. rewrite d2w_diag. apply sqrt_0. Qed.
Lemma d2w_sym dim x z ls i j : d2w dim x z ls i j = d2w dim z x ls j i.
Proof. unfold d2w. apply bigsum_ext. intros k _. unfold Rdiv. ring. Qed.
Lemma rw_sym dim x z ls i j : rw dim x z ls i j = rw dim z x ls j i.
Proof. unfold rw. rewrite d2w_sym. reflexivity. Qed.
Lemma d2w_translate dim x z ls (t : nat -> R) i j :
  d2w dim (fun a k => x a k + t k) (fun a k => z a k + t k) ls i j = d2w dim x z ls i j.
Proof. unfold d2w. apply bigsum_ext. intros k _. f_equal. f_equal. ring. Qed.
Lemma rw_translate dim x z ls (t : nat -> R) i j :
  rw dim (fun a k => x a k + t k) (fun a k => z a k + t k) ls i j = rw dim x z ls i j.
Proof. unfold rw. rewrite d2w_translate. reflexivity. Qed.

Lemma phiSE_0 : phiSE 0 = 1. Proof. unfold phiSE. replace (- 0 ^ 2 / 2) with 0 by field. apply exp_0. Qed.
Lemma phiC0_0 : phiC0 0 = 1. Proof. unfold phiC0. rewrite Ropp_0. apply exp_0. Qed.
Lemma phiC2_0 : phiC2 0 = 1. Proof. unfold phiC2. rewrite Ropp_0, exp_0. lra. Qed.
Lemma phiC4_0 : phiC4 0 = 1. Proof. unfold phiC4. rewrite Ropp_0, exp_0. lra. Qed.

(* derivatives of the profiles, hence monotone decrease on r >= 0 *)
Lemma phiSE_deriv r : is_derive phiSE r (- r * exp (- (r ^ 2) / 2)).
Proof. unfold phiSE. auto_derive; [exact I|]. norm_fun exp. field. Qed.
Lemma phiC0_deriv r : is_derive phiC0 r (- exp (- r)).
Proof. unfold phiC0. auto_derive; [exact I|]. field. Qed.
Lemma phiC2_deriv r : is_derive phiC2 r (- r * exp (- r)).
Proof. unfold phiC2. auto_derive; [exact I|]. field. Qed.
Lemma phiC4_deriv r : is_derive phiC4 r (- (r / 3) * (1 + r) * exp (- r)).
Proof. unfold phiC4. auto_derive; [exact I|]. field. Qed.

Lemma nonincreasing_from_deriv (phi dphi : R -> R) :
  (forall r, is_derive phi r (dphi r)) -> (forall r, 0 <= r -> dphi r <= 0) ->
  forall r1 r2, 0 <= r1 -> r1 <= r2 -> phi r2 <= phi r1.
Proof.
  intros Hd Hneg r1 r2 H0 H12. destruct (Req_dec r1 r2) as [->|Hne]; [lra|].
  assert (Hlt : r1 < r2) by lra.
  destruct (MVT_cor2 phi dphi r1 r2 Hlt) as (c & Heq & Hc).
  { intros x _. apply is_derive_Reals, Hd. }
  assert (dphi c <= 0) by (apply Hneg; lra). nra.
Qed.

Lemma phiSE_nonincreasing r1 r2 : 0 <= r1 -> r1 <= r2 -> phiSE r2 <= phiSE r1.
Proof.
  apply (nonincreasing_from_deriv phiSE _ phiSE_deriv). intros r Hr.
  assert (0 < exp (- r ^ 2 / 2)) by apply exp_pos. nra.
Qed.
Lemma phiC0_nonincreasing r1 r2 : 0 <= r1 -> r1 <= r2 -> phiC0 r2 <= phiC0 r1.
Proof.
  apply (nonincreasing_from_deriv phiC0 _ phiC0_deriv). intros r Hr.
  assert (0 < exp (- r)) by apply exp_pos. lra.
Qed.
Lemma phiC2_nonincreasing r1 r2 : 0 <= r1 -> r1 <= r2 -> phiC2 r2 <= phiC2 r1.
Proof.
  apply (nonincreasing_from_deriv phiC2 _ phiC2_deriv). intros r Hr.
  assert (0 < exp (- r)) by apply exp_pos. nra.
Qed.
Lemma phiC4_nonincreasing r1 r2 : 0 <= r1 -> r1 <= r2 -> phiC4 r2 <= phiC4 r1.
Proof.
  apply (nonincreasing_from_deriv phiC4 _ phiC4_deriv). intros r Hr.
  assert (0 < exp (- r)) by apply exp_pos. nra.
Qed.

(* 0 < phi <= 1 on r >= 0: the 2x2 Gram matrices are positive semi-definite, |k(x,z)| <= alpha *)
Lemma phiSE_range r : 0 <= r -> 0 < phiSE r <= 1.
Proof. intros Hr. split; [apply exp_pos|]. rewrite <- phiSE_0. apply phiSE_nonincreasing; lra. Qed.
Lemma phiC0_range r : 0 <= r -> 0 < phiC0 r <= 1.
Proof. intros Hr. split; [apply exp_pos|]. rewrite <- phiC0_0. apply phiC0_nonincreasing; lra. Qed.
Lemma phiC2_range r : 0 <= r -> 0 < phiC2 r <= 1.
Proof.
  intros Hr. split; [unfold phiC2; assert (0 < exp (- r)) by apply exp_pos; nra|].
  rewrite <- phiC2_0. apply phiC2_nonincreasing; lra.
Qed.
Lemma phiC4_range r : 0 <= r -> 0 < phiC4 r <= 1.
Proof.
  intros Hr. split; [unfold phiC4; assert (0 < exp (- r)) by apply exp_pos; nra|].
  rewrite <- phiC4_0. apply phiC4_nonincreasing; lra.
Qed.

(* a kernel k(x,z) = alpha * phi(r(x,z)) with phi(0) = 1, 0 < phi <= 1 *)
Section RadialKernelLaws.
Variable phi : R -> R.
Hypothesis phi0 : phi 0 = 1.
Hypothesis phi_range : forall r, 0 <= r -> 0 < phi r <= 1.
Variables (dim : nat) (ls : nat -> R) (alpha : R).
Hypothesis alpha_pos : 0 < alpha.
Definition kern (x z : nat -> nat -> R) (i j : nat) : R := alpha * phi (rw dim x z ls i j).

Lemma kern_diag x i : kern x x i i = alpha.
Proof. unfold kern. rewrite rw_diag, phi0. lra. Qed.
Lemma kern_symmetric x z i j : kern x z i j = kern z x j i.
Proof. unfold kern. rewrite rw_sym. reflexivity. Qed.
Lemma kern_translation_invariant x z t i j :
  kern (fun a k => x a k + t k) (fun a k => z a k + t k) i j = kern x z i j.
Proof. unfold kern. rewrite rw_translate. reflexivity. Qed.
Lemma kern_bounded x z i j : 0 < kern x z i j <= alpha.
Proof. unfold kern. pose proof (phi_range _ (rw_nonneg dim x z ls i j)). nra. Qed.
(* every 2x2 Gram matrix [[a, k],[k, a]] (+ non-negative noise on the diagonal) is positive semi-definite *)
Lemma kern_psd_2x2 x z i j (n1 n2 u v : R) : 0 <= n1 -> 0 <= n2 ->
  0 <= (kern x x i i + n1) * u ^ 2 + 2 * kern x z i j * u * v + (kern z z j j + n2) * v ^ 2.
Proof.
  intros H1 H2. rewrite !kern_diag. pose proof (kern_bounded x z i j) as [Hk1 Hk2].
  set (k := kern x z i j) in *.
  assert (0 <= alpha * u ^ 2 + 2 * k * u * v + alpha * v ^ 2).
  { replace (alpha * u ^ 2 + 2 * k * u * v + alpha * v ^ 2)
      with (k * (u + v) ^ 2 + (alpha - k) * (u ^ 2 + v ^ 2)) by ring.
    assert (0 <= (u + v) ^ 2) by apply pow2_ge_0. assert (0 <= u ^ 2) by apply pow2_ge_0.
    assert (0 <= v ^ 2) by apply pow2_ge_0. nra. }
  assert (0 <= u ^ 2) by apply pow2_ge_0. assert (0 <= v ^ 2) by apply pow2_ge_0. nra.
Qed.
End RadialKernelLaws.

(* ------------------------------------------------------------------ C04, kernels: the generated gradients are the derivatives *)
(* Along coordinate k0 of the first argument, with the other coordinates collected in c >= 0:
   d2 = c + ((t - z)/l)^2 ; the generated entry-wise gradient formulas are instantiated at constant matrices. *)
Definition d2of (c z l t : R) : R := c + ((t - z) / l) ^ 2.
Definition K2 (v : R) : nat -> nat -> R := fun _ _ => v.
Definition K3 (v : R) : nat -> nat -> nat -> R := fun _ _ _ => v.
Definition K1 (v : R) : nat -> R := fun _ => v.

Ltac side_pos c t z l :=
  repeat split; auto;
  match goal with |- 0 < ?a => replace a with (c + ((t - z) / l) ^ 2) by (field; auto) end; auto.

Lemma SE_grad_input dim c z l t : l <> 0 ->
  is_derive (fun t => SquareExponential.eval_radial_kernel (K2 (d2of c z l t)) O O) t
            (SquareExponential.eval_radial_kernel_grad dim (K2 (d2of c z l t)) (K3 (t - z)) (K1 l) (K1 (l ^ 2)) (K1 (l ^ 3)) 1 O O O).
Proof.
  intros Hl. unfold SquareExponential.eval_radial_kernel, SquareExponential.eval_radial_kernel_grad, K1, K2, K3, d2of.
  auto_derive; [exact I|]. norm_fun exp. field. exact Hl.
Qed.
Lemma SE_grad_lengthscale dim c z t l : l <> 0 ->
  is_derive (fun l => SquareExponential.eval_radial_kernel (K2 (d2of c z l t)) O O) l
            (SquareExponential.eval_radial_kernel_hparam_grad dim (K2 (d2of c z l t)) (K3 (t - z)) (K1 l) (K1 (l ^ 2)) (K1 (l ^ 3)) 1 O O O).
Proof.
  intros Hl. unfold SquareExponential.eval_radial_kernel, SquareExponential.eval_radial_kernel_hparam_grad, K1, K2, K3, d2of.
  auto_derive; [exact Hl|]. norm_fun exp. field. exact Hl.
Qed.

Lemma C2_grad_input dim c z l t : l <> 0 -> 0 < d2of c z l t ->
  is_derive (fun t => C2RadialMatern.eval_radial_kernel (K2 (d2of c z l t)) O O) t
            (C2RadialMatern.eval_radial_kernel_grad dim (K2 (d2of c z l t)) (K3 (t - z)) (K1 l) (K1 (l ^ 2)) (K1 (l ^ 3)) 1 O O O).
Proof.
  intros Hl Hpos. unfold C2RadialMatern.eval_radial_kernel, C2RadialMatern.eval_radial_kernel_grad, K1, K2, K3, d2of in *.
  auto_derive; [side_pos c t z l|].
  norm_fun sqrt. set (s := sqrt _).
  assert (Hs : s <> 0) by (unfold s; apply Rgt_not_eq, sqrt_lt_R0; exact Hpos).
  field. split; auto.
Qed.
Lemma C2_grad_lengthscale dim c z t l : 0 < l -> 0 < d2of c z l t ->
  is_derive (fun l => C2RadialMatern.eval_radial_kernel (K2 (d2of c z l t)) O O) l
            (C2RadialMatern.eval_radial_kernel_hparam_grad dim (K2 (d2of c z l t)) (K3 (t - z)) (K1 l) (K1 (l ^ 2)) (K1 (l ^ 3)) 1 O O O).
Proof.
  intros Hl Hpos. assert (Hl0 : l <> 0) by lra.
  unfold C2RadialMatern.eval_radial_kernel, C2RadialMatern.eval_radial_kernel_hparam_grad, K1, K2, K3, d2of in *.
  auto_derive; [side_pos c t z l|].
  norm_fun sqrt. set (s := sqrt _).
  assert (Hs : s <> 0) by (unfold s; apply Rgt_not_eq, sqrt_lt_R0; exact Hpos).
  field. split; auto.
Qed.

Lemma C4_grad_input dim c z l t : l <> 0 -> 0 < d2of c z l t ->
  is_derive (fun t => C4RadialMatern.eval_radial_kernel (K2 (d2of c z l t)) O O) t
            (C4RadialMatern.eval_radial_kernel_grad dim (K2 (d2of c z l t)) (K3 (t - z)) (K1 l) (K1 (l ^ 2)) (K1 (l ^ 3)) 1 O O O).
Proof.
  intros Hl Hpos. unfold C4RadialMatern.eval_radial_kernel, C4RadialMatern.eval_radial_kernel_grad, K1, K2, K3, d2of in *.
  auto_derive; [side_pos c t z l|].
  norm_fun sqrt. set (s := sqrt _).
  assert (Hs : s <> 0) by (unfold s; apply Rgt_not_eq, sqrt_lt_R0; exact Hpos).
  assert (Hss : s * s = c + ((t - z) / l) ^ 2) by (unfold s; apply sqrt_sqrt; lra).
  rewrite <- Hss. field. split; auto.
Qed.
Lemma C4_grad_lengthscale dim c z t l : 0 < l -> 0 < d2of c z l t ->
  is_derive (fun l => C4RadialMatern.eval_radial_kernel (K2 (d2of c z l t)) O O) l
            (C4RadialMatern.eval_radial_kernel_hparam_grad dim (K2 (d2of c z l t)) (K3 (t - z)) (K1 l) (K1 (l ^ 2)) (K1 (l ^ 3)) 1 O O O).
Proof.
  intros Hl Hpos. assert (Hl0 : l <> 0) by lra.
  unfold C4RadialMatern.eval_radial_kernel, C4RadialMatern.eval_radial_kernel_hparam_grad, K1, K2, K3, d2of in *.
  auto_derive; [side_pos c t z l|].
  norm_fun sqrt. set (s := sqrt _).
  assert (Hs : s <> 0) by (unfold s; apply Rgt_not_eq, sqrt_lt_R0; exact Hpos).
  assert (Hss : s * s = c + ((t - z) / l) ^ 2) by (unfold s; apply sqrt_sqrt; lra).
  rewrite <- Hss. field. split; auto.
Qed.
