(* C16 over histories: a live Parzen estimator always scores the data, kernels and gamma it holds NOW.
   Lemmas and theorems about LV.Model.ParzenHist (which re-uses the lie state machine of LV.Model.Lies). *)
From Coq Require Import List QArith Bool Arith Lia Lra Psatz.
From LV Require Import Model.ParzenSplit Model.ParzenSplitCorr Model.ParzenHist Proofs.ParzenSplit.
From LV Require Model.Lies Proofs.Lies.
Import ListNotations.
Open Scope Q_scope.

Section Hist.
  Variable kern : list Q -> point -> point -> Q.

  (* ------------------------------------------------------------------ generic facts about run / trace *)
  Lemma hrun_cons s o ops : hrun kern s (o :: ops) = hrun kern (fst (hstep kern s o)) ops.
  Proof. reflexivity. Qed.

  Lemma hrun_app s a b : hrun kern s (a ++ b) = hrun kern (hrun kern s a) b.
  Proof. unfold hrun, Lies.run. apply fold_left_app. Qed.

  Lemma htrace_cons s o ops : htrace kern s (o :: ops) = snd (hstep kern s o) :: htrace kern (fst (hstep kern s o)) ops.
  Proof. unfold htrace. cbn [Lies.trace]. destruct (hstep kern s o) as [s' x]. reflexivity. Qed.

  Lemma htrace_nth pre : forall s o post d,
    nth (length pre) (htrace kern s (pre ++ o :: post)) d = snd (hstep kern (hrun kern s pre) o).
  Proof.
    induction pre as [|p pre IH]; intros s o post d.
    - cbn [app length]. rewrite htrace_cons. reflexivity.
    - cbn [app length]. rewrite htrace_cons, hrun_cons. cbn [nth]. apply IH.
  Qed.

  Lemma htrace_length ops : forall s, length (htrace kern s ops) = length ops.
  Proof. induction ops as [|o ops IH]; intros s; [reflexivity|]. rewrite htrace_cons. cbn [length]. now rewrite IH. Qed.

  (* ------------------------------------------------------------------ evaluations only read *)
  Lemma hstep_eval s o : is_eval o = true ->
    hstep kern s o = (s, fresh_out kern (e_gamma s) (e_hl s) (e_hg s) (e_lower s) (e_greater s) o).
  Proof. destruct o; cbn [is_eval]; intro H; try discriminate H; reflexivity. Qed.

  Theorem eval_reads_only s o : is_eval o = true -> fst (hstep kern s o) = s.
  Proof. intro H. rewrite (hstep_eval s o H). reflexivity. Qed.

  (* erasing every evaluation from a history leaves the object in the same state *)
  Theorem run_erases_evals ops : forall s, hrun kern s ops = hrun kern s (mutations ops).
  Proof.
    induction ops as [|o ops IH]; intros s; [reflexivity|].
    unfold mutations. cbn [filter]. destruct (is_eval o) eqn:E; cbn [negb].
    - rewrite hrun_cons, (eval_reads_only s o E). apply IH.
    - rewrite !hrun_cons. apply IH.
  Qed.

  (* THE CLAUSE.  Whatever happened to the object before (lies told, withdrawn, replaced; kernels replaced or re-tuned in place;
     gamma and the sets assigned directly; any number of evaluations, at these very points or others, in between), an evaluation
     returns what a freshly built estimator returns whose sets, kernels and gamma are those the MUTATIONS of the history
     leave - the earlier evaluations do not matter. *)
  Theorem history_eval_is_fresh s pre o post : is_eval o = true ->
    let s' := hrun kern s (mutations pre) in
    nth (length pre) (htrace kern s (pre ++ o :: post)) HNone =
      fresh_out kern (e_gamma s') (e_hl s') (e_hg s') (e_lower s') (e_greater s') o.
  Proof.
    intros E s'. rewrite htrace_nth, (run_erases_evals pre s). fold s'. rewrite (hstep_eval s' o E). reflexivity.
  Qed.

  (* two histories that leave the same sets, kernels and gamma answer every evaluation alike *)
  Theorem same_content_same_answers s1 s2 o : is_eval o = true ->
    e_gamma s1 = e_gamma s2 -> e_hl s1 = e_hl s2 -> e_hg s1 = e_hg s2 -> e_lower s1 = e_lower s2 -> e_greater s1 = e_greater s2 ->
    snd (hstep kern s1 o) = snd (hstep kern s2 o).
  Proof. intros E G L H Lo Gr. rewrite (hstep_eval s1 o E), (hstep_eval s2 o E), G, L, H, Lo, Gr. reflexivity. Qed.

  (* ------------------------------------------------------------------ the lies of a history (C15's invariant carried along) *)
  Lemma hstep_pz_no_assign s o : assigns_sets o = false ->
    e_pz (fst (hstep kern s o)) = match o with HLie p => fst (Lies.pz_step (e_pz s) p) | _ => e_pz s end.
  Proof.
    destruct o; cbn [assigns_sets]; intro H; try discriminate H; cbn [hstep]; try reflexivity.
    - destruct (Lies.pz_step (e_pz s) o) as [z r]. reflexivity.
    - destruct (_ && _); reflexivity.
    - destruct lower; reflexivity.
  Qed.

  Lemma hrun_pz_no_assign ops : forall s, forallb (fun o => negb (assigns_sets o)) ops = true ->
    e_pz (hrun kern s ops) = Lies.run Lies.pz_step (e_pz s) (lie_ops ops).
  Proof.
    induction ops as [|o ops IH]; intros s H; [reflexivity|].
    cbn [forallb] in H. apply andb_prop in H. destruct H as [Ho H]. apply negb_true_iff in Ho.
    rewrite hrun_cons, (IH _ H), (hstep_pz_no_assign s o Ho).
    destruct o; try reflexivity.
  Qed.

  Lemma lie_ops_ok d ops : Forall (fun o => match o with HLie p => Proofs.Lies.pop_ok d p | _ => True end) ops ->
    Forall (Proofs.Lies.pop_ok d) (lie_ops ops).
  Proof.
    induction 1 as [|o ops Ho _ IH]; [constructor|].
    unfold lie_ops. cbn [flat_map]. destruct o; cbn [app]; try exact IH. constructor; assumption.
  Qed.

  (* An estimator whose sets are never assigned from outside: after ANY history of lies (told, cleared, stashed, recovered),
     kernel changes, gamma changes and evaluations, the set each density is taken over is the constructor's set followed by
     exactly the lies outstanding now - so an evaluation is the fresh answer for (base ++ current lies). *)
  Theorem history_sets_are_base_plus_lies s ops :
    Lies.p_lower_lies (e_pz s) = [] -> Lies.p_greater_lies (e_pz s) = [] ->
    forallb (fun o => negb (assigns_sets o)) ops = true ->
    Forall (fun o => match o with HLie p => Proofs.Lies.pop_ok (e_dim s) p | _ => True end) ops ->
    let s' := hrun kern s ops in
    e_lower s' = e_lower s ++ Lies.p_lower_lies (e_pz s') /\ e_greater s' = e_greater s ++ Lies.p_greater_lies (e_pz s').
  Proof.
    intros L0 G0 Hn Hok s'. unfold e_lower, e_greater. subst s'. rewrite (hrun_pz_no_assign ops s Hn).
    assert (Hi : Proofs.Lies.pz_inv (Lies.p_lower (e_pz s)) (Lies.p_greater (e_pz s)) (e_pz s)).
    { unfold Proofs.Lies.pz_inv. rewrite L0, G0, !app_nil_r. repeat split; constructor. }
    destruct (Proofs.Lies.parzen_run_inv _ _ (lie_ops ops) (e_pz s) Hi (lie_ops_ok _ ops Hok)) as [(H1 & H2 & _) _].
    split; assumption.
  Qed.

  (* ------------------------------------------------------------------ lies over a history *)
  Lemma krow_app h a b x : krow kern h (a ++ b) x = krow kern h a x ++ krow kern h b x.
  Proof. unfold krow. apply map_app. Qed.

  Lemma krow_nonempty h pts x : pts <> [] -> krow kern h pts x <> [].
  Proof. destruct pts; [congruence|discriminate]. Qed.

  (* Telling a lie at p to a live estimator (whatever its history) does not lower the density the estimator reports at p:
     kernel contract k(p, z) <= k(p, p) for the points held (C03: a radial kernel is maximal at distance 0). *)
  Theorem history_lie_raises_greater_density s p d d' :
    length p = e_dim s -> e_greater s <> [] ->
    (forall z, In z (e_greater s) -> kern (e_hg s) p z <= kern (e_hg s) p p) ->
    let s' := fst (hstep kern s (HLie (Lies.PAppend [p] false))) in
    snd (hstep kern s (HGreaterDens [p])) = HDens [Some d] -> snd (hstep kern s' (HGreaterDens [p])) = HDens [Some d'] ->
    d <= d'.
  Proof.
    intros Hd Hn Hk s' H1 H2.
    assert (Es : e_greater s' = e_greater s ++ [p] /\ e_hg s' = e_hg s).
    { subst s'. cbn [hstep Lies.pz_step]. unfold Lies.pz_append, Lies.rows_ok. cbn [forallb]. unfold e_dim in Hd.
      rewrite Hd, Nat.eqb_refl. cbn. split; reflexivity. }
    destruct Es as [Eg Eh].
    cbn [hstep snd fresh_out map] in H1, H2. rewrite Eg, Eh in H2. unfold fresh_greater, greater_density in H1, H2. rewrite krow_app in H2.
    injection H1 as H1. injection H2 as H2.
    refine (proj1 (lies_raise_density (krow kern (e_hg s) (e_greater s) p) (kern (e_hg s) p p) 1 d d' _ _ H1 H2)).
    - apply krow_nonempty; exact Hn.
    - intros x Hx. unfold krow in Hx. apply in_map_iff in Hx. destruct Hx as (z & <- & Hz). apply Hk; exact Hz.
  Qed.

  Theorem history_lie_raises_lower_density s p l l' :
    length p = e_dim s -> e_lower s <> [] ->
    (forall z, In z (e_lower s) -> kern (e_hl s) p z <= kern (e_hl s) p p) ->
    let s' := fst (hstep kern s (HLie (Lies.PAppend [p] true))) in
    snd (hstep kern s (HLowerDens [p])) = HDens [Some l] -> snd (hstep kern s' (HLowerDens [p])) = HDens [Some l'] ->
    l <= l'.
  Proof.
    intros Hd Hn Hk s' H1 H2.
    assert (Es : e_lower s' = e_lower s ++ [p] /\ e_hl s' = e_hl s).
    { subst s'. cbn [hstep Lies.pz_step]. unfold Lies.pz_append, Lies.rows_ok. cbn [forallb]. unfold e_dim in Hd.
      rewrite Hd, Nat.eqb_refl. cbn. split; reflexivity. }
    destruct Es as [Eg Eh].
    cbn [hstep snd fresh_out map] in H1, H2. rewrite Eg, Eh in H2. unfold fresh_lower in H1, H2. rewrite krow_app in H2.
    injection H1 as H1. injection H2 as H2.
    refine (lie_raises_lower_density (krow kern (e_hl s) (e_lower s) p) (kern (e_hl s) p p) l l' _ _ H1 H2).
    - apply krow_nonempty; exact Hn.
    - intros x Hx. unfold krow in Hx. apply in_map_iff in Hx. destruct Hx as (z & <- & Hz). apply Hk; exact Hz.
  Qed.

  (* ------------------------------------------------------------------ the ratio clause at any moment of a history *)
  Theorem history_ratio_clause s x alpha :
    0 < e_gamma s -> e_gamma s < 1 -> e_lower s <> [] -> e_greater s <> [] ->
    (forall z, In z (e_lower s) -> 0 <= kern (e_hl s) x z <= alpha) ->
    (forall z, In z (e_greater s) -> 0 <= kern (e_hg s) x z <= alpha) ->
    exists l g r, snd (hstep kern s (HEval [x])) = HEI [Some (l, g, r)] /\
      fresh_lower kern (e_hl s) (e_lower s) x = Some l /\ fresh_greater kern (e_hg s) (e_greater s) x = Some g /\
      0 < l /\ 0 <= g /\ r == 1 / (e_gamma s + (1 - e_gamma s) * (g / l)) /\ 0 < r /\ r <= 1 / e_gamma s.
  Proof.
    intros G0 G1 Nl Ng Kl Kg.
    destruct (ei_spec (e_gamma s) alpha (krow kern (e_hl s) (e_lower s) x) (krow kern (e_hg s) (e_greater s) x))
      as (l & g & r & E & El & Eg & R); try assumption.
    - apply krow_nonempty; exact Nl.
    - apply krow_nonempty; exact Ng.
    - intros v Hv. unfold krow in Hv. apply in_map_iff in Hv. destruct Hv as (z & <- & Hz). apply Kl; exact Hz.
    - intros v Hv. unfold krow in Hv. apply in_map_iff in Hv. destruct Hv as (z & <- & Hz). apply Kg; exact Hz.
    - exists l, g, r. split; [|split; [exact El|split; [exact Eg|exact R]]].
      cbn [hstep snd fresh_out map]. unfold fresh_ei. rewrite E. reflexivity.
  Qed.
End Hist.

(* ------------------------------------------------------------------ the rational kernel of the correspondence is a valid
   instance of the contracts used above (so the theorems are not vacuous for it) *)
Lemma dist2_nonneg ls : forall x z, (forall l, In l ls -> 0 < l) -> 0 <= dist2 ls x z.
Proof.
  induction ls as [|l ls IH]; intros x z H; [destruct x, z; cbn [dist2]; apply Qle_refl|].
  destruct x as [|a x]; [cbn [dist2]; apply Qle_refl|]. destruct z as [|b z]; [cbn [dist2]; apply Qle_refl|]. cbn [dist2].
  assert (0 <= dist2 ls x z) by (apply IH; intros l' Hl'; apply H; right; exact Hl').
  assert (0 <= ((a - b) / l) * ((a - b) / l)) by (generalize ((a - b) / l); intro t; destruct (Qlt_le_dec t 0) as [N|P];
      [setoid_replace (t * t) with ((- t) * (- t)) by ring; apply Qmult_le_0_compat; lra|apply Qmult_le_0_compat; exact P]).
  lra.
Qed.

Lemma dist2_refl ls : forall x, dist2 ls x x == 0.
Proof.
  induction ls as [|l ls IH]; intros x; [destruct x; reflexivity|]. destruct x as [|a x]; [reflexivity|].
  cbn [dist2]. rewrite IH. unfold Qminus. rewrite Qplus_opp_r. unfold Qdiv. rewrite Qmult_0_l. ring.
Qed.

Theorem rkern_contract alpha ls x z : 0 < alpha -> (forall l, In l ls -> 0 < l) ->
  0 < rkern (alpha :: ls) x z <= alpha /\ rkern (alpha :: ls) x x == alpha.
Proof.
  intros Ha Hl. cbn [rkern]. pose proof (dist2_nonneg ls x z Hl) as Hd. split; [split|].
  - apply Qlt_shift_div_l; lra.
  - apply Qle_shift_div_r; [lra|]. nra.
  - rewrite dist2_refl. field.
Qed.
