(* C08: the LP assembled by find_interior_point describes exactly the balls inscribed in the polytope, so an LP optimum is
   a maximal inscribed ball; meaning of the feasibility flag.  Stated over Q with the row norms supplied as data
   (n_i >= 0, n_i^2 = sum_j a_ij^2), which avoids square roots. *)
From Coq Require Import List QArith Bool ZArith Lia Lra Psatz.
From LV Require Import Model.Restrict Proofs.Restrict.
Import ListNotations.
Open Scope Q_scope.

Fixpoint sumsq (a : point) : Q := match a with [] => 0 | x :: r => x * x + sumsq r end.
Definition vsub (y x : point) : point := map2 Qminus y x.
(* closed Euclidean ball B(x, r), by squares *)
Definition in_ball (x : point) (r : Q) (y : point) : Prop := length y = length x /\ sumsq (vsub y x) <= r * r.
Definition norms_ok (dim : nat) (hs : list halfspace) (norms : list Q) : Prop :=
  length norms = length hs /\
  forall h n, In (h, n) (combine hs norms) -> 0 <= n /\ n * n == sumsq (fst h) /\ length (fst h) = dim.
(* the constraints of the LP  (A_ub [x; r] <= b_ub,  r >= 0) *)
Definition lp_feasible (hs : list halfspace) (norms : list Q) (x : point) (r : Q) : Prop :=
  0 <= r /\ forall h n, In (h, n) (combine hs norms) -> dot (fst h) x + n * r <= snd h.

Lemma lp_feasible_b_iff hs norms x r : lp_feasible_b hs norms x r = true <-> lp_feasible hs norms x r.
Proof.
  unfold lp_feasible_b, lp_feasible. rewrite andb_true_iff, forallb_forall. split.
  - intros [H0 H]. split; [apply Qle_bool_iff, H0|]. intros h n Hin. specialize (H (h, n) Hin). apply Qle_bool_iff in H. exact H.
  - intros [H0 H]. split; [apply Qle_bool_iff, H0|]. intros [h n] Hin. apply Qle_bool_iff. apply (H h n Hin).
Qed.

Lemma sumsq_nonneg a : 0 <= sumsq a.
Proof. induction a as [|x a IH]; simpl; [lra|nra]. Qed.

Lemma quad_nonneg (al be : Q) : forall a d,
  0 <= al * al * sumsq a + 2 * al * be * dot a d + be * be * sumsq d.
Proof.
  induction a as [|ai a IH]; intros [|di d]; simpl.
  - lra.
  - pose proof (sumsq_nonneg (di :: d)) as H. simpl in H. set (T := di * di + sumsq d) in *.
    assert (H0 : 0 <= be * be) by nra. pose proof (Qmult_le_0_compat _ _ H0 H). lra.
  - pose proof (sumsq_nonneg (ai :: a)) as H. simpl in H. set (T := ai * ai + sumsq a) in *.
    assert (H0 : 0 <= al * al) by nra. pose proof (Qmult_le_0_compat _ _ H0 H). lra.
  - specialize (IH d). assert (Hw : forall w : Q, 0 <= w * w) by (intros; nra). pose proof (Hw (al * ai + be * di)). nra.
Qed.
Lemma sumsq_zero_dot : forall a d, sumsq a == 0 -> dot a d == 0.
Proof.
  induction a as [|ai a IH]; intros [|di d] H; simpl in *; try lra.
  pose proof (sumsq_nonneg a). assert (sumsq a == 0) by nra. assert (ai == 0) by nra. rewrite (IH d) by assumption. nra.
Qed.
Lemma cauchy_schwarz a d : dot a d * dot a d <= sumsq a * sumsq d.
Proof.
  pose proof (sumsq_nonneg a) as HA. pose proof (sumsq_nonneg d) as HD.
  destruct (Qlt_le_dec 0 (sumsq a)) as [L|L].
  - pose proof (quad_nonneg (- dot a d) (sumsq a) a d) as H.
    set (S := dot a d) in *. set (A := sumsq a) in *. set (D := sumsq d) in *.
    assert (H' : 0 <= A * (A * D - S * S)) by nra. nra.
  - assert (E : sumsq a == 0) by lra. rewrite (sumsq_zero_dot a d E). nra.
Qed.
Lemma dot_self a : dot a a == sumsq a.
Proof. induction a as [|x a IH]; simpl; [lra|]. rewrite IH. ring. Qed.
Lemma sumsq_shift k : forall x a, length a = length x -> sumsq (vsub (map2 (fun xi ai => xi + k * ai) x a) x) == k * k * sumsq a.
Proof.
  induction x as [|xi x IH]; intros [|ai a] Hl; simpl in Hl; try discriminate; simpl; [ring|].
  unfold vsub in IH. rewrite IH by lia. ring.
Qed.
Lemma map2_len {A B C} (f : A -> B -> C) : forall l1 l2, length l1 = length l2 -> length (map2 f l1 l2) = length l1.
Proof. induction l1 as [|a l1 IH]; intros [|b l2] H; simpl in *; try discriminate; [reflexivity|]. rewrite IH by lia. reflexivity. Qed.
Lemma sumsq_self_zero : forall x, sumsq (vsub x x) == 0.
Proof. induction x as [|xi x IH]; simpl; [lra|]. unfold vsub in IH. rewrite IH. ring. Qed.
Lemma combine_partner {A B} : forall (l : list A) (m : list B) a, length m = length l -> In a l -> exists b, In (a, b) (combine l m).
Proof.
  induction l as [|a' l IH]; intros [|b m] a Hl Hin; simpl in *; try discriminate; try contradiction.
  destruct Hin as [->|Hin]; [exists b; left; reflexivity|]. destruct (IH m a ltac:(lia) Hin) as [b' Hb]. exists b'. right. exact Hb.
Qed.

(* (x, r) satisfies the LP constraints  iff  r >= 0 and the ball B(x, r) lies inside the polytope *)
Theorem cheby_lp_is_inscribed_ball dim hs norms x r : norms_ok dim hs norms -> length x = dim ->
  (lp_feasible hs norms x r <-> 0 <= r /\ forall y, in_ball x r y -> sat_all hs y).
Proof.
  intros [Hlen Hn] Hx. split.
  - intros [Hr H]. split; [exact Hr|]. intros y [Hy Hb] h Hin.
    destruct (combine_partner hs norms h Hlen Hin) as [n Hc].
    destruct (Hn h n Hc) as [N0 [N2 _]]. specialize (H h n Hc). unfold sat.
    assert (E : dot (fst h) (vsub y x) == dot (fst h) y - dot (fst h) x).
    { unfold vsub. rewrite (dot_map2_affine Qminus 1 (-(1))) by (try exact Hy; intros; ring). ring. }
    pose proof (cauchy_schwarz (fst h) (vsub y x)) as CS. rewrite <- N2 in CS.
    set (S := dot (fst h) (vsub y x)) in *. set (D := sumsq (vsub y x)) in *.
    assert (HD : 0 <= D) by apply sumsq_nonneg.
    assert (HS : S <= n * r).
    { destruct (Qlt_le_dec (n * r) S) as [L|L]; [exfalso|exact L].
      assert (0 <= n * r) by nra. assert (n * r * (n * r) < S * S) by nra. assert (n * n * D <= n * n * (r * r)) by nra. nra. }
    lra.
  - intros [Hr H]. split; [exact Hr|]. intros h n Hc.
    destruct (Hn h n Hc) as [N0 [N2 Nl]].
    assert (Hin : In h hs) by apply (in_combine_l _ _ _ _ Hc).
    destruct (Qlt_le_dec 0 n) as [L|L].
    + set (k := r / n). assert (Ek : k * n == r) by (unfold k; field; lra).
      set (y := map2 (fun xi ai => xi + k * ai) x (fst h)).
      assert (Hy : in_ball x r y).
      { split; [unfold y; apply map2_len; lia|]. unfold y. rewrite sumsq_shift by lia. rewrite <- N2.
        setoid_replace (k * k * (n * n)) with ((k * n) * (k * n)) by ring. rewrite Ek. lra. }
      specialize (H y Hy h Hin). unfold sat in H. unfold y in H.
      rewrite (dot_map2_affine (fun xi ai => xi + k * ai) 1 k) in H by (try lia; intros; ring).
      rewrite dot_self, <- N2 in H. setoid_replace (n * r) with (k * (n * n)) by (rewrite <- Ek; ring). lra.
    + assert (En : n == 0) by lra.
      assert (Hy : in_ball x r x). { split; [reflexivity|]. rewrite sumsq_self_zero. nra. }
      specialize (H x Hy h Hin). unfold sat in H. rewrite En. lra.
Qed.

(* hence a solution of the LP (maximal r among LP-feasible pairs) is a largest ball inscribed in the polytope *)
Theorem cheby_optimum_is_maximal dim hs norms x r : norms_ok dim hs norms -> length x = dim ->
  lp_feasible hs norms x r -> (forall x' r', length x' = dim -> lp_feasible hs norms x' r' -> r' <= r) ->
  (forall y, in_ball x r y -> sat_all hs y) /\
  (forall x' r', length x' = dim -> 0 <= r' -> (forall y, in_ball x' r' y -> sat_all hs y) -> r' <= r).
Proof.
  intros Hn Hx Hf Hopt. split.
  - apply (cheby_lp_is_inscribed_ball dim hs norms x r Hn Hx), Hf.
  - intros x' r' Hx' Hr' Hb. apply (Hopt x' r' Hx'). apply (cheby_lp_is_inscribed_ball dim hs norms x' r' Hn Hx'). split; assumption.
Qed.

(* reported feasible iff the solver succeeded, did not report status 2 (infeasible) and the radius is at least 1e-8 *)
Theorem cheby_flag_spec success status radius :
  cheby_flag success status radius = true <-> success = true /\ status <> 2%Z /\ (1 # 100000000) <= radius.
Proof.
  unfold cheby_flag, min_radius. rewrite andb_true_iff, negb_true_iff, orb_false_iff, Z.eqb_neq, Qltb_ge. tauto.
Qed.

(* a centre reported feasible is strictly inside every row with a non-zero normal: the `interior` hypothesis of the
   restriction theorems is what the flag delivers *)
Theorem cheby_flag_gives_interior dim hs norms x r success status : norms_ok dim hs norms ->
  (forall h n, In (h, n) (combine hs norms) -> 0 < n) ->
  lp_feasible hs norms x r -> cheby_flag success status r = true -> strict_all hs x.
Proof.
  intros [Hlen Hn] Hpos [Hr H] Hf. apply cheby_flag_spec in Hf. destruct Hf as [_ [_ Hrad]].
  intros h Hin. destruct (combine_partner hs norms h Hlen Hin) as [n Hc].
  specialize (H h n Hc). specialize (Hpos h n Hc). unfold strict. nra.
Qed.
