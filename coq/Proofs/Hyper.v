From Coq Require Import List QArith Bool Arith Lia.
From LV Require Import Model.Hyper.
Import ListNotations.
Open Scope Q_scope.

Definition Bad (h : xreal) : Prop := match h with Fin q => q <= 0 | _ => True end.

Lemma entry_ok_spec h : entry_ok h = false <-> Bad h.
Proof.
  destruct h as [q| | |]; simpl; try tauto.
  rewrite negb_false_iff. apply Qle_bool_iff.
Qed.

(* rejected exactly when some entry is <= 0, NaN or +-inf *)
Theorem hyper_rejects hp : hp <> [] -> (radial_set hp = None <-> exists h, In h hp /\ Bad h).
Proof.
  intros Hne. destruct hp as [|a ls]; [congruence|]. unfold radial_set.
  destruct (valid (a :: ls)) eqn:E.
  - split; [discriminate|]. intros (h & Hin & Hb). unfold valid in E. rewrite forallb_forall in E.
    apply entry_ok_spec in Hb. rewrite (E h Hin) in Hb. discriminate.
  - split; [intros _|reflexivity]. unfold valid in E.
    assert (H : exists h, In h (a :: ls) /\ entry_ok h = false).
    { clear Hne. induction (a :: ls) as [|x l IH]; [discriminate|]. simpl in E. apply andb_false_iff in E.
      destruct E as [E|E]; [exists x; split; [left; reflexivity|exact E]|].
      destruct (IH E) as (h & Hin & Hh). exists h. split; [right; exact Hin|exact Hh]. }
    destruct H as (h & Hin & Hh). exists h. split; [exact Hin|apply entry_ok_spec; exact Hh].
Qed.

(* get after set is the identity *)
Theorem hyper_roundtrip_radial hp k : radial_set hp = Some k -> hp <> [] -> radial_get k = hp.
Proof.
  destruct hp as [|a ls]; [congruence|]. unfold radial_set. destruct (valid (a :: ls)); [|discriminate].
  intros H _. injection H as <-. reflexivity.
Qed.

(* the kernel computes with what it was given: process variance = first entry, length scales = the rest *)
Theorem radial_set_fields hp k a ls : radial_set hp = Some k -> hp = a :: ls -> r_hp k = hp /\ r_alpha k = a /\ r_ls k = ls.
Proof.
  intros H ->. unfold radial_set in H. destruct (valid (a :: ls)); [|discriminate]. injection H as <-. cbn. auto.
Qed.

Theorem hyper_roundtrip_multitask hp k : multitask_set hp = Some k -> (2 <= length hp)%nat -> multitask_get k = hp.
Proof.
  destruct hp as [|a rest]; [discriminate|]. intros H Hlen. simpl in Hlen.
  assert (Hr : rest <> []) by (destruct rest; simpl in *; [lia|discriminate]).
  unfold multitask_set in H. destruct (entry_ok a); [|discriminate].
  destruct (radial_set (one :: removelast rest)) as [p|] eqn:Ep; [|discriminate].
  destruct (radial_set [one; last rest NaN]) as [t|] eqn:Et; [|discriminate].
  injection H as <-. unfold multitask_get. cbn [m_alpha m_phys m_task].
  apply hyper_roundtrip_radial in Ep; [|discriminate]. apply hyper_roundtrip_radial in Et; [|discriminate].
  unfold radial_get in *. rewrite Ep, Et. cbn [tl last]. f_equal. symmetry. apply app_removelast_last. exact Hr.
Qed.

Lemma valid_app a b : valid (a ++ b) = valid a && valid b.
Proof. unfold valid. apply forallb_app. Qed.

(* the tensor kernel rejects exactly when some entry (process variance, a physical or the task length scale) is bad *)
Theorem hyper_rejects_multitask hp : (2 <= length hp)%nat ->
  (multitask_set hp = None <-> exists h, In h hp /\ Bad h).
Proof.
  intros Hlen. destruct hp as [|a rest]; [simpl in Hlen; lia|]. simpl in Hlen.
  assert (Hr : rest <> []) by (destruct rest; simpl in *; [lia|discriminate]).
  pose proof (app_removelast_last NaN Hr) as Hsplit.
  assert (Hv : valid (a :: rest) = entry_ok a && (valid (removelast rest) && entry_ok (last rest NaN))).
  { rewrite Hsplit at 1. change (a :: removelast rest ++ [last rest NaN]) with ((a :: removelast rest) ++ [last rest NaN]).
    rewrite valid_app. unfold valid at 1 2. cbn [forallb]. rewrite andb_true_r. symmetry. apply andb_assoc. }
  assert (Hset : multitask_set (a :: rest) = None <-> valid (a :: rest) = false).
  { rewrite Hv. unfold multitask_set, radial_set.
    assert (E1 : valid (one :: removelast rest) = valid (removelast rest)) by reflexivity.
    assert (E2 : valid [one; last rest NaN] = entry_ok (last rest NaN)).
    { unfold valid. cbn [forallb]. rewrite andb_true_r. reflexivity. }
    rewrite E1, E2.
    destruct (entry_ok a); cbn [andb]; [|tauto].
    destruct (valid (removelast rest)); cbn [andb]; [|tauto].
    destruct (entry_ok (last rest NaN)); cbn [andb]; split; intros H; try discriminate; reflexivity. }
  rewrite Hset. clear Hset Hv Hsplit.
  pose proof (hyper_rejects (a :: rest) ltac:(discriminate)) as H. unfold radial_set in H.
  destruct (valid (a :: rest)); split; intros X; try discriminate; try reflexivity.
  - apply H in X. discriminate.
  - apply H. reflexivity.
Qed.

(* ================================================================================================================================
   LIVE OBJECTS: sequences of assignments (accepted and rejected), read-backs and uses on one kernel object
   ================================================================================================================================ *)

Lemma xeqb_refl x : xeqb x x = true.
Proof. destruct x as [q| | |]; cbn; try reflexivity. apply Qeq_bool_iff. reflexivity. Qed.
Lemma xlist_eqb_refl l : xlist_eqb l l = true.
Proof. induction l as [|x l IH]; cbn; [reflexivity|]. rewrite xeqb_refl, IH. reflexivity. Qed.

Lemma radial_set_none_iff hp : radial_set hp = None <-> valid hp = false.
Proof. unfold radial_set. destruct hp as [|a ls]; [cbn; split; discriminate|]. destruct (valid (a :: ls)); split; congruence. Qed.

Lemma radial_set_get hp k : radial_set hp = Some k -> radial_get k = hp.
Proof. unfold radial_set. destruct hp as [|a ls]; [intros H; injection H as <-; reflexivity|]. destruct (valid (a :: ls)); [|discriminate]. intros H; injection H as <-. reflexivity. Qed.

(* what an assignment does: accepted iff every entry is admissible; accepted -> the vector reads back; rejected -> NOTHING changed *)
Theorem radial_assign_spec k hp :
  snd (radial_assign k hp) = valid hp /\
  (valid hp = true -> radial_get (fst (radial_assign k hp)) = hp) /\
  (valid hp = false -> fst (radial_assign k hp) = k).
Proof.
  unfold radial_assign. destruct (radial_set hp) as [k'|] eqn:E.
  - assert (V : valid hp = true). { destruct (valid hp) eqn:V; [reflexivity|]. apply radial_set_none_iff in V. congruence. }
    cbn [fst snd]. split; [symmetry; exact V|split; [intros _; apply (radial_set_get _ _ E)|congruence]].
  - apply radial_set_none_iff in E. cbn [fst snd]. split; [symmetry; exact E|split; [congruence|reflexivity]].
Qed.

Theorem radial_rejected_unchanged k hp k' : radial_assign k hp = (k', false) -> k' = k.
Proof.
  intros H. destruct (radial_assign_spec k hp) as (Hs & _ & Hu). rewrite H in Hs, Hu. cbn in Hs, Hu. symmetry in Hs. exact (Hu Hs).
Qed.

(* the invariant of a live radial kernel: it reads back exactly what it computes with, and that is admissible *)
Definition RCoh (k : radial) : Prop := r_hp k = r_alpha k :: r_ls k /\ valid (r_hp k) = true.

Lemma RCoh_b k : RCoh k -> radial_coherent k = true.
Proof. intros [H V]. unfold radial_coherent, radial_get. rewrite V, H. rewrite xlist_eqb_refl. reflexivity. Qed.

Lemma radial_set_RCoh hp k : radial_set hp = Some k -> hp <> [] -> RCoh k.
Proof.
  intros H Hne. destruct hp as [|a ls]; [congruence|]. unfold radial_set in H. destruct (valid (a :: ls)) eqn:V; [|discriminate].
  injection H as <-. split; [reflexivity|exact V].
Qed.

Definition nonempty_sets (ops : list hop) : Prop := Forall (fun o => match o with HSet hp => hp <> [] | _ => True end) ops.
Definition long_sets (ops : list hop) : Prop := Forall (fun o => match o with HSet hp => (2 <= length hp)%nat | _ => True end) ops.

Lemma radial_assign_RCoh k hp : RCoh k -> hp <> [] -> RCoh (fst (radial_assign k hp)).
Proof.
  intros Hk Hne. unfold radial_assign. destruct (radial_set hp) as [k'|] eqn:E; cbn; [exact (radial_set_RCoh _ _ E Hne)|exact Hk].
Qed.

Lemma radial_step_RCoh k o : RCoh k -> match o with HSet hp => hp <> [] | _ => True end -> RCoh (fst (radial_step k o)).
Proof.
  intros Hk Ho. destruct o as [hp| |]; cbn; try exact Hk.
  pose proof (radial_assign_RCoh k hp Hk Ho) as H. destruct (radial_assign k hp). exact H.
Qed.

Lemma run_cons {S} (step : S -> hop -> S * hout) k o r :
  run step k (o :: r) = (fst (run step (fst (step k o)) r), snd (step k o) :: snd (run step (fst (step k o)) r)).
Proof. cbn. destruct (step k o) as [k1 out]. cbn. destruct (run step k1 r). reflexivity. Qed.

Theorem radial_run_coherent ops : forall k, RCoh k -> nonempty_sets ops -> RCoh (fst (run radial_step k ops)).
Proof.
  induction ops as [|o r IH]; intros k Hk Hn; [exact Hk|]. rewrite run_cons. cbn [fst]. inversion Hn as [|? ? Ho Hr]; subst.
  apply IH; [apply radial_step_RCoh; assumption|exact Hr].
Qed.

(* the getter after ANY sequence of operations: the last vector that was accepted (the constructor's if none was) *)
Theorem radial_run_get ops : forall k, radial_get (fst (run radial_step k ops)) = last_accepted (radial_get k) ops.
Proof.
  induction ops as [|o r IH]; intros k; [reflexivity|]. rewrite run_cons. cbn [fst]. rewrite IH. destruct o as [hp| |]; cbn [last_accepted]; try reflexivity.
  destruct (radial_assign_spec k hp) as (_ & Ha & Hu). cbn [radial_step]. destruct (radial_assign k hp) as [k' ok] eqn:E. cbn [fst] in *.
  destruct (valid hp); [rewrite (Ha eq_refl)|rewrite (Hu eq_refl)]; reflexivity.
Qed.

Lemma run_app {S} (step : S -> hop -> S * hout) ops1 : forall k ops2,
  run step k (ops1 ++ ops2) = (fst (run step (fst (run step k ops1)) ops2), snd (run step k ops1) ++ snd (run step (fst (run step k ops1)) ops2)).
Proof.
  induction ops1 as [|o r IH]; intros k ops2; [cbn; destruct (run step k ops2); reflexivity|].
  change ((o :: r) ++ ops2) with (o :: (r ++ ops2)). rewrite !run_cons. rewrite IH. cbn [fst snd]. reflexivity.
Qed.

Lemma run_length {S} (step : S -> hop -> S * hout) ops : forall k, length (snd (run step k ops)) = length ops.
Proof. induction ops as [|o r IH]; intros k; [reflexivity|]. rewrite run_cons. cbn. rewrite IH. reflexivity. Qed.

(* every read-back in a history shows the last vector accepted before it; every use in between is the use of that kernel *)
Theorem radial_history_readback k ops1 ops2 :
  nth (length ops1) (snd (run radial_step k (ops1 ++ HGet :: ops2))) (OSet false) = OGet (last_accepted (radial_get k) ops1).
Proof.
  rewrite run_app. cbn [snd]. rewrite app_nth2; rewrite run_length; [|lia]. rewrite Nat.sub_diag. rewrite run_cons. cbn [snd nth radial_step].
  rewrite radial_run_get. reflexivity.
Qed.

Theorem radial_history_probe k ops1 ops2 : RCoh k -> nonempty_sets ops1 ->
  exists a ls, last_accepted (radial_get k) ops1 = a :: ls /\
  nth (length ops1) (snd (run radial_step k (ops1 ++ HProbe :: ops2))) (OSet false) = OProbe a true.
Proof.
  intros Hk Hn. pose proof (radial_run_coherent ops1 k Hk Hn) as Hc. pose proof (radial_run_get ops1 k) as Hg.
  set (k1 := fst (run radial_step k ops1)) in *. exists (r_alpha k1), (r_ls k1). split.
  - rewrite <- Hg. unfold radial_get. exact (proj1 Hc).
  - rewrite run_app. cbn [snd]. rewrite app_nth2; rewrite run_length; [|lia]. rewrite Nat.sub_diag. rewrite run_cons. cbn [snd nth radial_step].
    fold k1. rewrite (RCoh_b _ Hc). reflexivity.
Qed.

(* the model satisfies the specification that the correspondence evaluates on the implementation's own outputs *)
Theorem radial_model_meets_spec ops : forall k, RCoh k -> nonempty_sets ops ->
  spec_outs true (radial_get k) ops (snd (run radial_step k ops)) = true.
Proof.
  induction ops as [|o r IH]; intros k Hk Hn; [reflexivity|]. inversion Hn as [|? ? Ho Hr]; subst. rewrite run_cons. cbn [snd].
  pose proof (radial_step_RCoh k o Hk Ho) as Hk1. destruct o as [hp| |]; cbn [radial_step] in *.
  - destruct (radial_assign_spec k hp) as (Hs & Ha & Hu). destruct (radial_assign k hp) as [k' ok] eqn:E. cbn [fst snd] in *. cbn [spec_outs].
    rewrite Hs. rewrite eqb_reflx. cbn [andb]. destruct (valid hp) eqn:V.
    + rewrite <- (Ha eq_refl). apply IH; assumption.
    + rewrite (Hu eq_refl) in *. apply IH; assumption.
  - cbn [fst snd spec_outs]. destruct Hk as [H V]. unfold radial_get in *. rewrite V. cbn [andb].
    assert (M : match r_hp k with [] => true | _ :: _ => xlist_eqb (r_hp k) (r_hp k) end = true) by (destruct (r_hp k); [reflexivity|apply xlist_eqb_refl]).
    rewrite M. cbn [andb]. apply IH; [split; assumption|exact Hr].
  - cbn [fst snd spec_outs]. rewrite (RCoh_b _ Hk). cbn [andb]. destruct Hk as [H V]. unfold radial_get in *. rewrite H at 1. rewrite xeqb_refl. cbn [andb].
    apply IH; [split; assumption|exact Hr].
Qed.

(* ---- the multitask tensor kernel as a live object ---- *)
Definition MCoh (k : multitask) : Prop :=
  entry_ok (m_alpha k) = true /\ RCoh (m_phys k) /\ RCoh (m_task k) /\ r_alpha (m_phys k) = one /\ r_alpha (m_task k) = one
  /\ length (r_ls (m_task k)) = 1%nat.

Lemma component_set ls p : radial_set (one :: ls) = Some p -> RCoh p /\ r_alpha p = one /\ r_ls p = ls.
Proof.
  intros H. split; [apply (radial_set_RCoh _ _ H); discriminate|]. destruct (radial_set_fields _ _ one ls H eq_refl) as (_ & Ha & Hl). auto.
Qed.

Lemma MCoh_b k : MCoh k -> multitask_coherent k = true.
Proof.
  intros (Ha & Hp & Ht & Hp1 & Ht1 & Hl). unfold multitask_coherent. rewrite Ha, (RCoh_b _ Hp), (RCoh_b _ Ht), Hp1, Ht1, Hl. reflexivity.
Qed.

Lemma multitask_set_MCoh hp k : multitask_set hp = Some k -> MCoh k.
Proof.
  unfold multitask_set. destruct hp as [|a rest]; [discriminate|]. destruct (entry_ok a) eqn:Ea; [|discriminate].
  destruct (radial_set (one :: removelast rest)) as [p|] eqn:Ep; [|discriminate].
  destruct (radial_set [one; last rest NaN]) as [t|] eqn:Et; [|discriminate]. intros H; injection H as <-.
  destruct (component_set _ _ Ep) as (Cp & Cp1 & _). destruct (component_set _ _ Et) as (Ct & Ct1 & Ctl).
  unfold MCoh. cbn [m_alpha m_phys m_task]. rewrite Ctl. repeat split; assumption || reflexivity || apply Cp || apply Ct.
Qed.

Lemma multitask_assign_MCoh k hp : MCoh k -> MCoh (fst (multitask_assign k hp)).
Proof.
  intros Hk. unfold multitask_assign. destruct (multitask_set hp) as [k'|] eqn:E; cbn [fst]; [exact (multitask_set_MCoh _ _ E)|exact Hk].
Qed.

Lemma multitask_set_none_iff hp : (2 <= length hp)%nat -> (multitask_set hp = None <-> valid hp = false).
Proof.
  intros Hl. rewrite (hyper_rejects_multitask hp Hl). rewrite <- radial_set_none_iff. symmetry. apply hyper_rejects. destruct hp; [cbn in Hl; lia|discriminate].
Qed.

(* an assignment on a live tensor kernel: accepted iff every entry is admissible; accepted -> the vector reads back; rejected - for the
   process variance, a physical length scale or the task length scale - NOTHING changed *)
Theorem multitask_assign_spec k hp : (2 <= length hp)%nat ->
  snd (multitask_assign k hp) = valid hp /\ (valid hp = true -> multitask_get (fst (multitask_assign k hp)) = hp) /\
  (valid hp = false -> fst (multitask_assign k hp) = k).
Proof.
  intros Hl. pose proof (multitask_set_none_iff hp Hl) as Hn. unfold multitask_assign.
  destruct (multitask_set hp) as [k'|] eqn:E; cbn [fst snd].
  - assert (V : valid hp = true). { destruct (valid hp); [reflexivity|]. destruct Hn as [_ Hn]. specialize (Hn eq_refl). discriminate. }
    split; [symmetry; exact V|split; [intros _; exact (hyper_roundtrip_multitask hp k' E Hl)|congruence]].
  - destruct Hn as [Hn _]. rewrite (Hn eq_refl). split; [reflexivity|split; [discriminate|reflexivity]].
Qed.

Theorem multitask_rejected_unchanged k hp k' : multitask_assign k hp = (k', false) -> k' = k.
Proof. unfold multitask_assign. destruct (multitask_set hp); intros H; inversion H. reflexivity. Qed.

Lemma multitask_step_MCoh k o : MCoh k -> MCoh (fst (multitask_step k o)).
Proof.
  intros Hk. destruct o as [hp| |]; cbn; try exact Hk. pose proof (multitask_assign_MCoh k hp Hk) as H. destruct (multitask_assign k hp). exact H.
Qed.

(* whatever is assigned, accepted or rejected, in whatever order: the tensor kernel stays a kernel that computes with the admissible
   hyperparameters it reads back *)
Theorem multitask_run_coherent ops : forall k, MCoh k -> MCoh (fst (run multitask_step k ops)).
Proof.
  induction ops as [|o r IH]; intros k Hk; [exact Hk|]. rewrite run_cons. cbn [fst]. apply IH. apply multitask_step_MCoh. exact Hk.
Qed.

Lemma MCoh_get_valid k : MCoh k -> valid (multitask_get k) = true /\ exists r, multitask_get k = m_alpha k :: r.
Proof.
  intros (Ha & (Hp & Vp) & (Ht & Vt) & Hp1 & Ht1 & Hl). unfold multitask_get, radial_get. split; [|eexists; reflexivity].
  rewrite Hp, Ht in *. cbn [tl]. destruct (r_ls (m_task k)) as [|lt [|? ?]]; try discriminate Hl. cbn [last].
  change (m_alpha k :: r_ls (m_phys k) ++ [lt]) with ([m_alpha k] ++ r_ls (m_phys k) ++ [lt]). rewrite !valid_app.
  unfold valid in *. cbn [forallb] in *. rewrite Ha. apply andb_true_iff in Vp. destruct Vp as [_ Vp]. rewrite Vp.
  apply andb_true_iff in Vt. destruct Vt as [_ Vt]. rewrite Vt. reflexivity.
Qed.

(* the getter after ANY sequence of operations: the last vector that was accepted (the constructor's if none was) *)
Theorem multitask_run_get ops : forall k, long_sets ops -> multitask_get (fst (run multitask_step k ops)) = last_accepted (multitask_get k) ops.
Proof.
  induction ops as [|o r IH]; intros k Hn; [reflexivity|]. inversion Hn as [|? ? Ho Hr]; subst. rewrite run_cons. cbn [fst]. rewrite (IH _ Hr).
  destruct o as [hp| |]; cbn [last_accepted]; try reflexivity.
  destruct (multitask_assign_spec k hp Ho) as (_ & Ha & Hu). cbn [multitask_step]. destruct (multitask_assign k hp) as [k' ok] eqn:E. cbn [fst] in *.
  destruct (valid hp); [rewrite (Ha eq_refl)|rewrite (Hu eq_refl)]; reflexivity.
Qed.

Theorem multitask_model_meets_spec ops : forall k, MCoh k -> long_sets ops ->
  spec_outs true (multitask_get k) ops (snd (run multitask_step k ops)) = true.
Proof.
  induction ops as [|o r IH]; intros k Hk Hn; [reflexivity|]. inversion Hn as [|? ? Ho Hr]; subst. rewrite run_cons. cbn [snd].
  pose proof (multitask_step_MCoh k o Hk) as Hk1. destruct (MCoh_get_valid k Hk) as (Vg & rg & Eg). destruct o as [hp| |]; cbn [multitask_step] in *.
  - destruct (multitask_assign_spec k hp Ho) as (Hs & Ha & Hu). destruct (multitask_assign k hp) as [k' ok] eqn:E. cbn [fst snd] in *. cbn [spec_outs].
    rewrite Hs. rewrite eqb_reflx. cbn [andb]. destruct (valid hp) eqn:V.
    + rewrite <- (Ha eq_refl). apply IH; assumption.
    + rewrite (Hu eq_refl) in *. apply IH; assumption.
  - cbn [fst snd spec_outs]. rewrite Vg. cbn [andb].
    assert (M : match multitask_get k with [] => true | _ :: _ => xlist_eqb (multitask_get k) (multitask_get k) end = true) by (destruct (multitask_get k); [reflexivity|apply xlist_eqb_refl]).
    rewrite M. cbn [andb]. apply IH; assumption.
  - cbn [fst snd spec_outs]. rewrite (MCoh_b _ Hk). cbn [andb]. rewrite Eg at 1. rewrite xeqb_refl. cbn [andb]. apply IH; assumption.
Qed.

(* from construction on *)
Theorem radial_life_coherent hp0 k ops : radial_set hp0 = Some k -> hp0 <> [] -> nonempty_sets ops ->
  RCoh (fst (run radial_step k ops)) /\ radial_get (fst (run radial_step k ops)) = last_accepted hp0 ops.
Proof.
  intros H Hne Hn. split; [apply radial_run_coherent; [exact (radial_set_RCoh _ _ H Hne)|exact Hn]|]. rewrite radial_run_get, (radial_set_get _ _ H). reflexivity.
Qed.

Theorem multitask_life_coherent hp0 k ops : multitask_set hp0 = Some k -> (2 <= length hp0)%nat -> long_sets ops ->
  let k' := fst (run multitask_step k ops) in
  MCoh k' /\ valid (multitask_get k') = true /\ multitask_get k' = last_accepted hp0 ops.
Proof.
  intros H Hl Hn k'. pose proof (multitask_run_coherent ops k (multitask_set_MCoh _ _ H)) as Hc. split; [exact Hc|split; [exact (proj1 (MCoh_get_valid _ Hc))|]].
  unfold k'. rewrite (multitask_run_get ops k Hn), (hyper_roundtrip_multitask hp0 k H Hl). reflexivity.
Qed.

Theorem valid_false_iff_bad hp : valid hp = false <-> exists h, In h hp /\ Bad h.
Proof.
  destruct hp as [|a ls]; [cbn; split; [discriminate|intros (h & [] & _)]|]. rewrite <- radial_set_none_iff. apply hyper_rejects. discriminate.
Qed.
