From Coq Require Import List QArith Bool Lia.
From LV Require Import Model.Hyper.
Import ListNotations.
Open Scope Q_scope.

Definition Bad (h : xreal) : Prop := match h with Fin q => q <= 0 | _ => True end.

Lemma entry_ok_spec h : entry_ok h = false <-> Bad h.
Proof.
  destruct h as [q| | |]; simpl; try tauto.
  rewrite negb_false_iff. apply Qle_bool_iff.
Qed.

(* rejected exactly when some entry is <= 0, NaN or +-inf *)
Theorem hyper_rejects hp : hp <> [] -> (radial_set hp = None <-> exists h, In h hp /\ Bad h).
Proof.
  intros Hne. destruct hp as [|a ls]; [congruence|]. unfold radial_set.
  destruct (valid (a :: ls)) eqn:E.
  - split; [discriminate|]. intros (h & Hin & Hb). unfold valid in E. rewrite forallb_forall in E.
    apply entry_ok_spec in Hb. rewrite (E h Hin) in Hb. discriminate.
  - split; [intros _|reflexivity]. unfold valid in E.
    assert (H : exists h, In h (a :: ls) /\ entry_ok h = false).
    { clear Hne. induction (a :: ls) as [|x l IH]; [discriminate|]. simpl in E. apply andb_false_iff in E.
      destruct E as [E|E]; [exists x; split; [left; reflexivity|exact E]|].
      destruct (IH E) as (h & Hin & Hh). exists h. split; [right; exact Hin|exact Hh]. }
    destruct H as (h & Hin & Hh). exists h. split; [exact Hin|apply entry_ok_spec; exact Hh].
Qed.

(* get after set is the identity *)
Theorem hyper_roundtrip_radial hp k : radial_set hp = Some k -> hp <> [] -> radial_get k = hp.
Proof.
  destruct hp as [|a ls]; [congruence|]. unfold radial_set. destruct (valid (a :: ls)); [|discriminate].
  intros H _. injection H as <-. reflexivity.
Qed.

Theorem hyper_roundtrip_multitask hp k : multitask_set hp = Some k -> (2 <= length hp)%nat -> multitask_get k = hp.
Proof.
  destruct hp as [|a rest]; [discriminate|]. intros H Hlen. simpl in Hlen.
  assert (Hr : rest <> []) by (destruct rest; simpl in *; [lia|discriminate]).
  unfold multitask_set in H. destruct (entry_ok a); [|discriminate].
  destruct (radial_set (one :: removelast rest)) as [p|] eqn:Ep; [|discriminate].
  destruct (radial_set [one; last rest NaN]) as [t|] eqn:Et; [|discriminate].
  injection H as <-. unfold multitask_get. cbn [m_alpha m_phys m_task].
  apply hyper_roundtrip_radial in Ep; [|discriminate]. apply hyper_roundtrip_radial in Et; [|discriminate].
  destruct p as [pa pl]. destruct t as [ta tl]. unfold radial_get in *. cbn [r_alpha r_ls] in *.
  injection Ep as _ ->. injection Et as _ ->. cbn [last]. f_equal. symmetry. apply app_removelast_last. exact Hr.
Qed.

Lemma valid_app a b : valid (a ++ b) = valid a && valid b.
Proof. unfold valid. apply forallb_app. Qed.

(* the tensor kernel rejects exactly when some entry (process variance, a physical or the task length scale) is bad *)
Theorem hyper_rejects_multitask hp : (2 <= length hp)%nat ->
  (multitask_set hp = None <-> exists h, In h hp /\ Bad h).
Proof.
  intros Hlen. destruct hp as [|a rest]; [simpl in Hlen; lia|]. simpl in Hlen.
  assert (Hr : rest <> []) by (destruct rest; simpl in *; [lia|discriminate]).
  pose proof (app_removelast_last NaN Hr) as Hsplit.
  assert (Hv : valid (a :: rest) = entry_ok a && (valid (removelast rest) && entry_ok (last rest NaN))).
  { rewrite Hsplit at 1. change (a :: removelast rest ++ [last rest NaN]) with ((a :: removelast rest) ++ [last rest NaN]).
    rewrite valid_app. unfold valid at 1 2. cbn [forallb]. rewrite andb_true_r. symmetry. apply andb_assoc. }
  assert (Hset : multitask_set (a :: rest) = None <-> valid (a :: rest) = false).
  { rewrite Hv. unfold multitask_set, radial_set.
    assert (E1 : valid (one :: removelast rest) = valid (removelast rest)) by reflexivity.
    assert (E2 : valid [one; last rest NaN] = entry_ok (last rest NaN)).
    { unfold valid. cbn [forallb]. rewrite andb_true_r. reflexivity. }
    rewrite E1, E2.
    destruct (entry_ok a); cbn [andb]; [|tauto].
    destruct (valid (removelast rest)); cbn [andb]; [|tauto].
    destruct (entry_ok (last rest NaN)); cbn [andb]; split; intros H; try discriminate; reflexivity. }
  rewrite Hset. clear Hset Hv Hsplit.
  pose proof (hyper_rejects (a :: rest) ltac:(discriminate)) as H. unfold radial_set in H.
  destruct (valid (a :: rest)); split; intros X; try discriminate; try reflexivity.
  - apply H in X. discriminate.
  - apply H. reflexivity.
Qed.
