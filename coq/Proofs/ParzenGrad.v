(* C04: the generated gradient of the Parzen-estimator improvement ratio is the derivative of the generated ratio. *)
From Coq Require Import Reals Lra Psatz Arith Lia.
From Coquelicot Require Import Coquelicot.
From LV Require Import Lib.RBase Gen.GenAcq Proofs.Acq Proofs.GPGrad.
Open Scope R_scope.

Lemma mean_deriv n (f : nat -> R -> R) (df : nat -> R) t : (0 < n)%nat ->
  (forall j, (j < n)%nat -> is_derive (f j) t (df j)) ->
  is_derive (fun t => bigsum n (fun j => f j t) / INR n) t (bigsum n df / INR n).
Proof.
  intros Hn H. evar_last.
  apply (is_derive_scal_l (fun t => bigsum n (fun j => f j t)) t (bigsum n df) (/ INR n)). apply is_derive_bigsum. exact H.
  unfold scal; simpl; unfold mult; simpl. unfold Rdiv. ring.
Qed.

Theorem parzen_grad_is_derivative dim ng nl x (kl kg : nat -> R -> R) (dkl dkg : nat -> R) Gl0 Gg0 gamma t i k :
  (0 < nl)%nat -> (0 < ng)%nat -> 0 < gamma < 1 ->
  (forall j, (j < nl)%nat -> is_derive (kl j) t (dkl j)) -> (forall j, (j < ng)%nat -> is_derive (kg j) t (dkg j)) ->
  (forall j, 0 <= kl j t) -> (forall j, 0 <= kg j t) ->
  is_derive (fun t => Parzen.ei_ratio dim ng nl x (fun _ j => kl j t) Gl0 (fun _ j => kg j t) Gg0 gamma i) t
            (Parzen.grad_ei dim ng nl x (fun _ j => kl j t) (fun _ j _ => dkl j) (fun _ j => kg j t) (fun _ j _ => dkg j) gamma i k).
Proof.
  intros Hnl Hng Hgam Hkl Hkg Pl Pg. unfold Parzen.ei_ratio, Parzen.grad_ei.
  set (l := fun t => bigsum nl (fun j => kl j t) / INR nl + 1 / 10000000000).
  set (g := fun t => bigsum ng (fun j => kg j t) / INR ng).
  assert (Hl : is_derive l t (bigsum nl dkl / INR nl)).
  { unfold l. evar_last. apply @is_derive_plus. exact (mean_deriv nl kl dkl t Hnl Hkl). apply @is_derive_const. unfold plus, zero; simpl; ring. }
  assert (Hg : is_derive g t (bigsum ng dkg / INR ng)) by exact (mean_deriv ng kg dkg t Hng Hkg).
  assert (Hlpos : 0 < l t).
  { unfold l. assert (0 <= bigsum nl (fun j => kl j t) / INR nl) by (apply density_nonneg; [exact Hnl|intros; apply Pl]). lra. }
  assert (Hgpos : 0 <= g t) by (apply density_nonneg; [exact Hng|intros; apply Pg]).
  assert (Hden : gamma + g t / l t * (1 - gamma) <> 0).
  { assert (0 <= g t / l t) by (apply Rle_mult_inv_pos; assumption). nra. }
  pose proof (ratio_grad_is_derivative l g (fun _ => bigsum nl dkl / INR nl) (fun _ => bigsum ng dkg / INR ng) gamma t Hlpos Hden Hl Hg) as H.
  exact H.
Qed.
