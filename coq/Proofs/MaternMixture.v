(* C03, analytic part for the Matern kernels: C0, C2 and C4 are POSITIVE SCALE MIXTURES OF GAUSSIANS (Schoenberg), proved as statements
   about proper Riemann integrals and their limits (improper integrals over (0, oo)).  With

     E_c(u) = exp(-u^2 - c^2/u^2) = exp(-u^2) * exp(-(r^2/4)/u^2),   c = r/2 >= 0,

   (for fixed u > 0 a Gaussian exp(-s r^2) in r, s = 1/(4u^2), times the positive weight exp(-u^2)):

     int_0^oo       E_c(u) du =   sqrt(PI)/2 *                   exp(-r)     (mix0 / C0_mixture)
     int_0^oo u^2 * E_c(u) du =   sqrt(PI)/4 * (1 + r)         * exp(-r)     (mix2 / C2_mixture)
     int_0^oo u^4 * E_c(u) du = 3 sqrt(PI)/8 * (1 + r + r^2/3) * exp(-r)     (mix4 / C4_mixture)

   where int_0^oo means  lim_{x -> +oo} RInt _ (1/x) x  (P0_limit: any la/x, mu*x), and, for the PSD argument, the limit along x = N+1.

   Proofs.  No differentiation under the integral sign, no Fubini:
   * E_c(u) = exp(-2c) gs(u - c/u), gs t = exp(-t^2).  Cauchy-Schloemilch: the substitutions t = u - c/u (sub1) and v = c/u (sub2) in
     PROPER integrals (Coquelicot is_RInt_comp) give on the SYMMETRIC interval [c/b, b], with no remainder at all,
        int_{c/b}^b gs(u - c/u) du = Ig (b - c/b),  Ig x = int_0^x exp(-t^2) dt             (sym_int)
     and Ig -> sqrt(PI)/2 is the Gaussian integral of Lib/Gauss.v.  An interval [la/x, mu x] differs from the symmetric one by a piece
     of length O(1/x) on which 0 < E_c <= 1 (RInt_Ec_small).  c = 0 is the Gaussian integral itself.
   * u^2 and u^4: the fundamental theorem of calculus for u E_c(u) and u^3 E_c(u) (FTC1, FTC3; d/du E_c = (-2u + 2c^2/u^3) E_c)
     and  int_a^b c^2/u^2 E_c(u) du = c int_{c/b}^{c/a} E_c(v) dv  (Q_is, the substitution v = c/u again) give
        2 int u^2 E_c = int E_c + 2 c int' E_c - [u E_c],    2 int u^4 E_c = 3 int u^2 E_c + 2 c^2 int E_c - [u^3 E_c]
     exactly on every [a,b] in (0,oo) (M2_is, M4_is); the boundary terms vanish in the limit (B1_lim, B3_lim).
   No axioms beyond those of the standard library's real numbers. *)
From Coq Require Import Reals Lra Psatz Arith Lia.
From Coquelicot Require Import Coquelicot.
From LV Require Import Lib.RBase Lib.Gauss Proofs.Covariance.
Open Scope R_scope.

Definition gm (c u : R) : R := u - c / u.

Lemma between_pos a b x : 0 < a -> 0 < b -> Rmin a b <= x <= Rmax a b -> 0 < x.
Proof. intros Ha Hb [H _]. revert H. apply Rmin_case; lra. Qed.

Lemma gm_deriv c u : u <> 0 -> is_derive (gm c) u (1 + c / u ^ 2).
Proof. intros Hu. unfold gm. auto_derive; [exact Hu|field; exact Hu]. Qed.

Lemma gm_cont c u : u <> 0 -> continuous (gm c) u.
Proof. intros Hu. apply (ex_derive_continuous (gm c) u). eexists. apply gm_deriv, Hu. Qed.

Lemma gsgm_cont c u : u <> 0 -> continuous (fun v => gs (gm c v)) u.
Proof. intros Hu. apply (continuous_comp (gm c) gs); [apply gm_cont, Hu|apply gs_cont]. Qed.

Lemma sub1 c a b : 0 < a -> 0 < b ->
  is_RInt (fun u => (1 + c / u ^ 2) * gs (gm c u)) a b (RInt gs (gm c a) (gm c b)).
Proof.
  intros Ha Hb.
  apply (is_RInt_ext (fun u => scal (1 + c / u ^ 2) (gs (gm c u)))).
  { intros; reflexivity. }
  apply (is_RInt_comp gs (gm c) (fun u => 1 + c / u^2)).
  - intros x _. apply gs_cont.
  - intros x Hx. pose proof (between_pos a b x Ha Hb Hx). split.
    + apply gm_deriv. lra.
    + apply (ex_derive_continuous (fun u => 1 + c / u ^ 2) x). auto_derive. nra.
Qed.

Lemma gs_even t : gs (- t) = gs t.
Proof. unfold gs. f_equal. ring. Qed.

Lemma gm_inv c u : 0 < c -> u <> 0 -> gm c (c / u) = - gm c u.
Proof. intros Hc Hu. unfold gm. field. lra. Qed.

Lemma ex_RInt_pos (f : R -> R) a b : 0 < a -> 0 < b -> (forall x, 0 < x -> continuous f x) -> ex_RInt f a b.
Proof.
  intros Ha Hb Hf. apply (@ex_RInt_continuous R_CompleteNormedModule). intros x Hx. apply Hf. apply (between_pos a b x Ha Hb Hx).
Qed.

(* the substitution v = c / u *)
Lemma sub2 c a b : 0 < c -> 0 < a -> 0 < b ->
  is_RInt (fun u => (c / u ^ 2) * gs (gm c u)) a b (RInt (fun v => gs (gm c v)) (c / b) (c / a)).
Proof.
  intros Hc Ha Hb.
  assert (H : is_RInt (fun u => scal (- c / u ^ 2) (gs (gm c (c / u)))) a b (RInt (fun v => gs (gm c v)) (c / a) (c / b))).
  { apply (is_RInt_comp (fun v => gs (gm c v)) (fun u => c / u) (fun u => - c / u ^ 2)).
    - intros x Hx. pose proof (between_pos a b x Ha Hb Hx). apply gsgm_cont.
      apply Rgt_not_eq. apply Rdiv_lt_0_compat; lra.
    - intros x Hx. pose proof (between_pos a b x Ha Hb Hx). split.
      + auto_derive; [lra|field; lra].
      + apply (ex_derive_continuous (fun u => - c / u ^ 2) x). auto_derive. nra. }
  assert (Hca : 0 < c / a) by (apply Rdiv_lt_0_compat; lra).
  assert (Hcb : 0 < c / b) by (apply Rdiv_lt_0_compat; lra).
  rewrite <- (opp_RInt_swap (fun v => gs (gm c v)) (c / a) (c / b)).
  2:{ apply ex_RInt_pos; [exact Hca|exact Hcb|]. intros x Hx. apply gsgm_cont. lra. }
  apply (is_RInt_ext (fun u => opp (scal (- c / u ^ 2) (gs (gm c (c / u)))))).
  { intros x Hx. assert (0 < x) by (destruct Hx as [Hx _]; revert Hx; apply Rmin_case; lra).
    rewrite gm_inv, gs_even by lra. unfold opp, scal; simpl. unfold mult; simpl. field. lra. }
  apply @is_RInt_opp. exact H.
Qed.

Lemma Ig_odd x : Ig (- x) = - Ig x.
Proof.
  assert (E : (fun z => Ig (- z) + Ig z) x = (fun z => Ig (- z) + Ig z) 0).
  { apply (is_derive_0_const (fun z => Ig (- z) + Ig z)). clear x. intros x.
    evar_last.
    apply @is_derive_plus.
    apply (is_derive_comp Ig Ropp). apply Ig_deriv. apply @is_derive_opp. apply is_derive_id.
    apply Ig_deriv.
    rewrite gs_even. unfold plus, scal, opp, one, zero; simpl. unfold mult; simpl. ring. }
  simpl in E. rewrite Ropp_0, Ig_0 in E. lra.
Qed.

Lemma RInt_gs_Ig a b : RInt gs a b = Ig b - Ig a.
Proof.
  unfold Ig. rewrite <- (RInt_Chasles gs 0 a b) by apply gs_ex_RInt.
  change (plus (RInt gs 0 a) (RInt gs a b)) with (RInt gs 0 a + RInt gs a b). lra.
Qed.

Lemma gsgm_ex_RInt c a b : 0 < a -> 0 < b -> ex_RInt (fun v => gs (gm c v)) a b.
Proof. intros Ha Hb. apply ex_RInt_pos; [exact Ha|exact Hb|]. intros x Hx. apply gsgm_cont. lra. Qed.

(* Cauchy-Schloemilch on the symmetric interval [c/b, b]: no remainder *)
Lemma sym_int c b : 0 < c -> 0 < b -> RInt (fun u => gs (gm c u)) (c / b) b = Ig (gm c b).
Proof.
  intros Hc Hb.
  assert (Ha : 0 < c / b) by (apply Rdiv_lt_0_compat; lra).
  pose proof (sub1 c (c / b) b Ha Hb) as H1.
  pose proof (sub2 c (c / b) b Hc Ha Hb) as H2.
  replace (c / (c / b)) with b in H2 by (field; lra).
  pose proof (RInt_correct _ _ _ (gsgm_ex_RInt c (c / b) b Ha Hb)) as H0.
  pose proof (is_RInt_plus _ _ _ _ _ _ H0 H2) as H3.
  assert (H4 : is_RInt (fun u => (1 + c / u ^ 2) * gs (gm c u)) (c / b) b
                 (plus (RInt (fun u => gs (gm c u)) (c / b) b) (RInt (fun u => gs (gm c u)) (c / b) b))).
  { apply (is_RInt_ext (fun y => plus (gs (gm c y)) (c / y ^ 2 * gs (gm c y)))); [|exact H3].
    intros x _. unfold plus; simpl. ring. }
  pose proof (is_RInt_unique _ _ _ _ H1) as U1. pose proof (is_RInt_unique _ _ _ _ H4) as U4.
  rewrite U1 in U4. rewrite gm_inv, RInt_gs_Ig, Ig_odd in U4 by lra.
  unfold plus in U4; simpl in U4. lra.
Qed.

Definition Ec (c u : R) : R := exp (- u ^ 2 - c ^ 2 / u ^ 2).

Lemma Ec_gs c u : u <> 0 -> Ec c u = exp (- 2 * c) * gs (gm c u).
Proof. intros Hu. unfold Ec, gs, gm. rewrite <- exp_plus. f_equal. field. exact Hu. Qed.

Lemma exp_le_mono x y : x <= y -> exp x <= exp y.
Proof. intros [H| ->]; [left; apply exp_increasing, H|right; reflexivity]. Qed.

Lemma Ec_pos c u : 0 < Ec c u.
Proof. apply exp_pos. Qed.
Lemma Ec_le_1 c u : u <> 0 -> Ec c u <= 1.
Proof.
  intros Hu. unfold Ec. rewrite <- exp_0. apply exp_le_mono.
  replace (c ^ 2 / u ^ 2) with ((c / u) ^ 2) by (field; exact Hu).
  pose proof (pow2_ge_0 u). pose proof (pow2_ge_0 (c / u)). lra.
Qed.
Lemma Ec_cont c u : u <> 0 -> continuous (Ec c) u.
Proof.
  intros Hu. apply (ex_derive_continuous (Ec c) u). unfold Ec. auto_derive. nra.
Qed.
Lemma Ec_ex_RInt c a b : 0 < a -> 0 < b -> ex_RInt (Ec c) a b.
Proof. intros Ha Hb. apply ex_RInt_pos; [exact Ha|exact Hb|]. intros x Hx. apply Ec_cont. lra. Qed.

Lemma P0_sym c b : 0 < c -> 0 < b -> RInt (Ec c) (c / b) b = exp (- 2 * c) * Ig (gm c b).
Proof.
  intros Hc Hb. assert (Ha : 0 < c / b) by (apply Rdiv_lt_0_compat; lra).
  rewrite <- sym_int by assumption.
  rewrite (RInt_ext _ (fun u => scal (exp (- 2 * c)) (gs (gm c u)))).
  - apply (RInt_scal (V := R_CompleteNormedModule)). apply gsgm_ex_RInt; assumption.
  - intros x Hx. apply Ec_gs. apply Rgt_not_eq. apply (between_pos (c / b) b x Ha Hb). lra.
Qed.

(* ------------------------------------------------------------------ limits *)
Lemma gm_lim c mu : 0 <= c -> 0 < mu -> is_lim (fun x => gm c (mu * x)) p_infty p_infty.
Proof.
  intros Hc Hmu P [M HM]. exists (Rmax (1 / mu) ((M + c) / mu)). intros x Hx. apply HM.
  assert (H1 : 1 / mu < x) by (eapply Rle_lt_trans; [apply Rmax_l|exact Hx]).
  assert (H2 : (M + c) / mu < x) by (eapply Rle_lt_trans; [apply Rmax_r|exact Hx]).
  apply Rlt_div_l in H1; [|exact Hmu]. apply Rlt_div_l in H2; [|exact Hmu].
  unfold gm. assert (c / (mu * x) <= c).
  { apply Rle_div_l; [nra|nra]. }
  nra.
Qed.

Lemma Ig_gm_lim c mu : 0 <= c -> 0 < mu -> is_lim (fun x => Ig (gm c (mu * x))) p_infty (sqrt PI / 2).
Proof.
  intros Hc Hmu. apply (is_lim_comp Ig (fun x => gm c (mu * x)) p_infty (sqrt PI / 2) p_infty).
  - apply Ig_lim.
  - apply gm_lim; assumption.
  - exists 0. intros x _. discriminate.
Qed.

Lemma RInt_Ec_small c a b : 0 < a -> 0 < b -> Rabs (RInt (Ec c) a b) <= Rabs (b - a).
Proof.
  intros Ha Hb. rewrite <- (Rmult_1_r (Rabs (b - a))).
  apply (norm_RInt_le_const_abs (Ec c) a b (RInt (Ec c) a b) 1).
  - intros x Hx. pose proof (between_pos a b x Ha Hb Hx).
    unfold norm; simpl. unfold abs; simpl. rewrite Rabs_pos_eq by (left; apply Ec_pos). apply Ec_le_1. lra.
  - apply (@RInt_correct R_CompleteNormedModule). apply Ec_ex_RInt; assumption.
Qed.

(* the C0 mixture identity, improper form: int_{la/x}^{mu x} exp(-u^2 - c^2/u^2) du -> sqrt(PI)/2 exp(-2c) *)
Lemma P0_lim c la mu : 0 < c -> 0 < la -> 0 < mu ->
  is_lim (fun x => RInt (Ec c) (la / x) (mu * x)) p_infty (sqrt PI / 2 * exp (- 2 * c)).
Proof.
  intros Hc Hla Hmu.
  apply (is_lim_ext_loc (fun x => RInt (Ec c) (la / x) (c / (mu * x)) + exp (- 2 * c) * Ig (gm c (mu * x)))).
  { exists 0. intros x Hx.
    assert (Ha : 0 < la / x) by (apply Rdiv_lt_0_compat; lra).
    assert (Hb : 0 < mu * x) by nra.
    assert (Hm : 0 < c / (mu * x)) by (apply Rdiv_lt_0_compat; lra).
    rewrite <- P0_sym by assumption.
    apply (RInt_Chasles (Ec c)); apply Ec_ex_RInt; assumption. }
  replace (Finite (sqrt PI / 2 * exp (- 2 * c))) with (Finite (0 + exp (- 2 * c) * (sqrt PI / 2))) by (f_equal; ring).
  apply is_lim_plus'.
  - apply (is_lim_0_bound _ (fun x => Rabs (c / mu - la) * / x)).
    + exists 0. intros x Hx.
      assert (Ha : 0 < la / x) by (apply Rdiv_lt_0_compat; lra).
      assert (Hb : 0 < mu * x) by nra.
      assert (Hm : 0 < c / (mu * x)) by (apply Rdiv_lt_0_compat; lra).
      eapply Rle_trans; [apply RInt_Ec_small; assumption|].
      replace (c / (mu * x) - la / x) with ((c / mu - la) * / x) by (field; lra).
      rewrite Rabs_mult. rewrite (Rabs_pos_eq (/ x)); [lra|]. left. apply Rinv_0_lt_compat, Hx.
    + replace (Finite 0) with (Rbar_mult (Rabs (c / mu - la)) 0) by (simpl; f_equal; ring).
      apply is_lim_scal_l. apply is_lim_inv_p.
  - apply (is_lim_scal_l (fun x => Ig (gm c (mu * x))) (exp (- 2 * c)) p_infty (sqrt PI / 2)).
    apply Ig_gm_lim; lra.
Qed.

(* c = 0: the plain Gaussian integral *)
Lemma Ec_0 u : u <> 0 -> Ec 0 u = gs u.
Proof. intros Hu. unfold Ec, gs. f_equal. field. exact Hu. Qed.

Lemma Ig_small y : Rabs (Ig y) <= Rabs y.
Proof.
  unfold Ig. replace y with (y - 0) at 2 by ring. rewrite <- (Rmult_1_r (Rabs (y - 0))).
  apply (norm_RInt_le_const_abs gs 0 y (RInt gs 0 y) 1).
  - intros x _. unfold norm; simpl. unfold abs; simpl. rewrite Rabs_pos_eq by (left; apply gs_pos). apply gs_le_1.
  - apply (@RInt_correct R_CompleteNormedModule). apply gs_ex_RInt.
Qed.

Lemma P0_lim_0 la mu : 0 < la -> 0 < mu ->
  is_lim (fun x => RInt (Ec 0) (la / x) (mu * x)) p_infty (sqrt PI / 2).
Proof.
  intros Hla Hmu.
  apply (is_lim_ext_loc (fun x => Ig (mu * x + 0) - Ig (la / x))).
  { exists 0. intros x Hx.
    assert (Ha : 0 < la / x) by (apply Rdiv_lt_0_compat; lra).
    assert (Hb : 0 < mu * x) by nra.
    rewrite Rplus_0_r. rewrite <- RInt_gs_Ig. apply RInt_ext. intros u Hu. symmetry. apply Ec_0.
    apply Rgt_not_eq. apply (between_pos (la / x) (mu * x) u Ha Hb). lra. }
  replace (Finite (sqrt PI / 2)) with (Finite (sqrt PI / 2 - 0)) by (f_equal; ring).
  apply is_lim_minus'.
  - apply is_lim_lin_pp; [exact Hmu|apply Ig_lim].
  - apply (is_lim_0_bound _ (fun x => la * / x)).
    + exists 0. intros x Hx. eapply Rle_trans; [apply Ig_small|].
      rewrite Rabs_pos_eq; [unfold Rdiv; lra|]. left. apply Rdiv_lt_0_compat; lra.
    + replace (Finite 0) with (Rbar_mult la 0) by (simpl; f_equal; ring).
      apply is_lim_scal_l. apply is_lim_inv_p.
Qed.

Theorem P0_limit c la mu : 0 <= c -> 0 < la -> 0 < mu ->
  is_lim (fun x => RInt (Ec c) (la / x) (mu * x)) p_infty (sqrt PI / 2 * exp (- 2 * c)).
Proof.
  intros [Hc| <-] Hla Hmu; [apply P0_lim; assumption|].
  replace (-2 * 0) with 0 by ring. rewrite exp_0, Rmult_1_r. apply P0_lim_0; assumption.
Qed.

(* ------------------------------------------------------------------ the moments u^2, u^4 *)
Lemma Ec_deriv c u : u <> 0 -> is_derive (Ec c) u ((- 2 * u + 2 * c ^ 2 / u ^ 3) * Ec c u).
Proof. intros Hu. unfold Ec. auto_derive; [nra|]. norm_fun exp. field. exact Hu. Qed.

Definition w1 (c u : R) : R := (1 - 2 * u ^ 2 + 2 * (c ^ 2 / u ^ 2)) * Ec c u.
Definition w3 (c u : R) : R := (3 * u ^ 2 - 2 * u ^ 4 + 2 * c ^ 2) * Ec c u.

Lemma FTC1 c a b : 0 < a -> 0 < b -> is_RInt (w1 c) a b (b * Ec c b - a * Ec c a).
Proof.
  intros Ha Hb.
  apply (is_RInt_derive (fun u => u * Ec c u) (w1 c)).
  - intros x Hx. pose proof (between_pos a b x Ha Hb Hx). unfold w1.
    assert (Hx0 : x <> 0) by lra. unfold Ec. auto_derive; [nra|]. norm_fun exp. field. exact Hx0.
  - intros x Hx. pose proof (between_pos a b x Ha Hb Hx).
    apply (ex_derive_continuous (w1 c) x). unfold w1, Ec. auto_derive. nra.
Qed.

Lemma FTC3 c a b : 0 < a -> 0 < b -> is_RInt (w3 c) a b (b ^ 3 * Ec c b - a ^ 3 * Ec c a).
Proof.
  intros Ha Hb.
  apply (is_RInt_derive (fun u => u ^ 3 * Ec c u) (w3 c)).
  - intros x Hx. pose proof (between_pos a b x Ha Hb Hx). unfold w3.
    assert (Hx0 : x <> 0) by lra. unfold Ec. auto_derive; [nra|]. norm_fun exp. field. exact Hx0.
  - intros x Hx. pose proof (between_pos a b x Ha Hb Hx).
    apply (ex_derive_continuous (w3 c) x). unfold w3, Ec. auto_derive. nra.
Qed.

Lemma RInt_Ec_gs c a b : 0 < a -> 0 < b -> RInt (Ec c) a b = exp (- 2 * c) * RInt (fun u => gs (gm c u)) a b.
Proof.
  intros Ha Hb.
  rewrite (RInt_ext _ (fun u => scal (exp (- 2 * c)) (gs (gm c u)))).
  - apply (RInt_scal (V := R_CompleteNormedModule)). apply gsgm_ex_RInt; assumption.
  - intros x Hx. apply Ec_gs. apply Rgt_not_eq. apply (between_pos a b x Ha Hb). lra.
Qed.

Definition qc (c u : R) : R := c ^ 2 / u ^ 2 * Ec c u.
Definition m2 (c u : R) : R := u ^ 2 * Ec c u.
Definition m4 (c u : R) : R := u ^ 4 * Ec c u.

(* int_a^b c^2/u^2 E_c(u) du = c int_{c/b}^{c/a} E_c(v) dv   (v = c/u) *)
Lemma Q_is c a b : 0 <= c -> 0 < a -> 0 < b -> is_RInt (qc c) a b (c * RInt (Ec c) (c / b) (c / a)).
Proof.
  intros [Hc| <-] Ha Hb.
  - assert (Hca : 0 < c / a) by (apply Rdiv_lt_0_compat; lra).
    assert (Hcb : 0 < c / b) by (apply Rdiv_lt_0_compat; lra).
    rewrite RInt_Ec_gs by assumption.
    apply (is_RInt_ext (fun u => scal (c * exp (- 2 * c)) (c / u ^ 2 * gs (gm c u)))).
    { intros x Hx. assert (Hx0 : x <> 0).
      { apply Rgt_not_eq. apply (between_pos a b x Ha Hb). lra. }
      unfold qc. rewrite Ec_gs by exact Hx0. unfold scal; simpl. unfold mult; simpl. field. exact Hx0. }
    replace (c * (exp (- 2 * c) * RInt (fun u => gs (gm c u)) (c / b) (c / a)))
      with (scal (c * exp (- 2 * c)) (RInt (fun u => gs (gm c u)) (c / b) (c / a)))
      by (unfold scal; simpl; unfold mult; simpl; ring).
    apply @is_RInt_scal. apply sub2; assumption.
  - rewrite Rmult_0_l. apply (is_RInt_ext (fun _ => 0)).
    { intros x _. unfold qc. unfold Rdiv. rewrite pow_i by lia. rewrite !Rmult_0_l. reflexivity. }
    evar_last. apply (@is_RInt_const R_NormedModule a b 0). unfold scal; simpl; unfold mult; simpl; ring.
Qed.

Definition B1 (c a b : R) : R := b * Ec c b - a * Ec c a.
Definition B3 (c a b : R) : R := b ^ 3 * Ec c b - a ^ 3 * Ec c a.
Definition V2 (c a b : R) : R := (RInt (Ec c) a b + 2 * (c * RInt (Ec c) (c / b) (c / a)) - B1 c a b) / 2.
Definition V4 (c a b : R) : R := (3 * V2 c a b + 2 * c ^ 2 * RInt (Ec c) a b - B3 c a b) / 2.

Lemma M2_is c a b : 0 <= c -> 0 < a -> 0 < b -> is_RInt (m2 c) a b (V2 c a b).
Proof.
  intros Hc Ha Hb.
  pose proof (RInt_correct _ _ _ (Ec_ex_RInt c a b Ha Hb)) as H0.
  pose proof (Q_is c a b Hc Ha Hb) as HQ.
  pose proof (FTC1 c a b Ha Hb) as H1.
  apply (is_RInt_ext (fun u => scal (1 / 2) (minus (plus (Ec c u) (scal 2 (qc c u))) (w1 c u)))).
  { intros x Hx. unfold m2, qc, w1, scal, minus, plus, opp; simpl. unfold mult; simpl. field.
    apply Rgt_not_eq. apply (between_pos a b x Ha Hb). lra. }
  evar_last.
  apply @is_RInt_scal. apply @is_RInt_minus; [|exact H1]. apply @is_RInt_plus; [exact H0|]. apply @is_RInt_scal. exact HQ.
  unfold V2, B1, scal, minus, plus, opp; simpl. unfold mult; simpl. field.
Qed.

Lemma M4_is c a b : 0 <= c -> 0 < a -> 0 < b -> is_RInt (m4 c) a b (V4 c a b).
Proof.
  intros Hc Ha Hb.
  pose proof (RInt_correct _ _ _ (Ec_ex_RInt c a b Ha Hb)) as H0.
  pose proof (M2_is c a b Hc Ha Hb) as H2.
  pose proof (FTC3 c a b Ha Hb) as H3.
  apply (is_RInt_ext (fun u => scal (1 / 2) (minus (plus (scal 3 (m2 c u)) (scal (2 * c ^ 2) (Ec c u))) (w3 c u)))).
  { intros x Hx. unfold m4, m2, w3, scal, minus, plus, opp; simpl. unfold mult; simpl. field. }
  evar_last.
  apply @is_RInt_scal. apply @is_RInt_minus; [|exact H3]. apply @is_RInt_plus; apply @is_RInt_scal; [exact H2|exact H0].
  unfold V4, B3, scal, minus, plus, opp; simpl. unfold mult; simpl. field.
Qed.

(* ------------------------------------------------------------------ boundary terms vanish *)
Lemma exp_ge_sq y : 0 <= y -> y ^ 2 / 2 <= exp y.
Proof.
  intros Hy. pose proof (exp_ge_taylor y 2 Hy) as H. simpl in H. lra.
Qed.

Lemma exp_m_sq_le4 x : 0 < x -> exp (- x ^ 2) <= 2 / x ^ 4.
Proof.
  intros Hx. assert (H4 : 0 < x ^ 4) by (apply pow_lt; exact Hx).
  rewrite exp_Ropp. replace (2 / x ^ 4) with (/ (x ^ 4 / 2)) by (field; lra).
  apply Rinv_le_contravar; [lra|].
  replace (x ^ 4) with ((x ^ 2) ^ 2) by ring. apply exp_ge_sq. apply pow2_ge_0.
Qed.

Lemma Ec_le_gs c x : x <> 0 -> Ec c x <= exp (- x ^ 2).
Proof.
  intros Hx. unfold Ec. apply exp_le_mono.
  replace (c ^ 2 / x ^ 2) with ((c / x) ^ 2) by (field; exact Hx).
  pose proof (pow2_ge_0 (c / x)). lra.
Qed.

Lemma big_end c x (k : nat) : 1 <= x -> (k <= 3)%nat -> 0 <= x ^ k * Ec c x <= 2 / x.
Proof.
  intros Hx Hk. assert (Hx0 : x <> 0) by lra.
  assert (Hk0 : 0 < x ^ k) by (apply pow_lt; lra).
  pose proof (Ec_pos c x). split; [nra|].
  apply Rle_trans with (x ^ 3 * (2 / x ^ 4)).
  - apply Rmult_le_compat; [lra|lra| |].
    + apply Rle_pow; [lra|exact Hk].
    + eapply Rle_trans; [apply Ec_le_gs, Hx0|apply exp_m_sq_le4; lra].
  - right. field. lra.
Qed.

Lemma small_end c x (k : nat) : 1 <= x -> (1 <= k)%nat -> 0 <= (1 / x) ^ k * Ec c (1 / x) <= 1 / x.
Proof.
  intros Hx Hk. assert (H1 : 0 < 1 / x) by (apply Rdiv_lt_0_compat; lra).
  assert (H2 : 1 / x <= 1) by (apply Rle_div_l; lra).
  assert (Hk0 : 0 < (1 / x) ^ k) by (apply pow_lt; lra).
  pose proof (Ec_pos c (1 / x)). pose proof (Ec_le_1 c (1 / x)) as HE.
  split; [nra|].
  assert ((1 / x) ^ k <= 1 / x).
  { destruct k as [|k]; [lia|]. simpl.
    assert ((1 / x) ^ k <= 1) by (apply Rle_trans with (1 ^ k); [apply pow_incr; lra|rewrite pow1; lra]).
    assert (0 < (1 / x) ^ k) by (apply pow_lt; lra). nra. }
  assert (Ec c (1 / x) <= 1) by (apply HE; lra). nra.
Qed.

Lemma B1_lim c : is_lim (fun x => B1 c (1 / x) x) p_infty 0.
Proof.
  apply (is_lim_0_bound _ (fun x => 3 * / x)).
  - exists 1. intros x Hx. unfold B1.
    pose proof (big_end c x 1 (Rlt_le _ _ Hx) ltac:(lia)) as Hb. pose proof (small_end c x 1 (Rlt_le _ _ Hx) ltac:(lia)) as Hs.
    rewrite !pow_1 in *. apply Rabs_le. unfold Rdiv in *. lra.
  - replace (Finite 0) with (Rbar_mult 3 0) by (simpl; f_equal; ring).
    apply is_lim_scal_l. apply is_lim_inv_p.
Qed.

Lemma B3_lim c : is_lim (fun x => B3 c (1 / x) x) p_infty 0.
Proof.
  apply (is_lim_0_bound _ (fun x => 3 * / x)).
  - exists 1. intros x Hx. unfold B3.
    pose proof (big_end c x 3 (Rlt_le _ _ Hx) ltac:(lia)) as Hb. pose proof (small_end c x 3 (Rlt_le _ _ Hx) ltac:(lia)) as Hs.
    apply Rabs_le. unfold Rdiv in *. lra.
  - replace (Finite 0) with (Rbar_mult 3 0) by (simpl; f_equal; ring).
    apply is_lim_scal_l. apply is_lim_inv_p.
Qed.

(* ------------------------------------------------------------------ THE THREE MIXTURE IDENTITIES (improper integrals over (0, oo)) *)
Definition L0 (c : R) : R := sqrt PI / 2 * exp (- 2 * c).

Theorem mix0 c : 0 <= c -> is_lim (fun x => RInt (Ec c) (1 / x) x) p_infty (L0 c).
Proof.
  intros Hc. apply (is_lim_ext (fun x => RInt (Ec c) (1 / x) (1 * x))).
  { intros x. rewrite Rmult_1_l. reflexivity. }
  apply P0_limit; lra.
Qed.

Lemma Qterm_lim c : 0 <= c -> is_lim (fun x => c * RInt (Ec c) (c / x) (c / (1 / x))) p_infty (c * L0 c).
Proof.
  intros [Hc| <-].
  - apply (is_lim_scal_l (fun x => RInt (Ec c) (c / x) (c / (1 / x))) c p_infty (L0 c)).
    apply (is_lim_ext_loc (fun x => RInt (Ec c) (c / x) (c * x))).
    { exists 0. intros x Hx. f_equal. field. lra. }
    apply P0_lim; assumption.
  - apply (is_lim_ext (fun _ => 0)); [intros; ring|]. rewrite Rmult_0_l. apply is_lim_const.
Qed.

Lemma V2_lim c : 0 <= c -> is_lim (fun x => V2 c (1 / x) x) p_infty ((L0 c + 2 * (c * L0 c) - 0) / 2).
Proof.
  intros Hc. unfold V2.
  apply (is_lim_ext (fun x => / 2 * (RInt (Ec c) (1 / x) x + 2 * (c * RInt (Ec c) (c / x) (c / (1 / x))) - B1 c (1 / x) x))).
  { intros x. field. }
  replace (Finite ((L0 c + 2 * (c * L0 c) - 0) / 2)) with (Rbar_mult (/ 2) (L0 c + 2 * (c * L0 c) - 0)) by (simpl; f_equal; field).
  apply is_lim_scal_l.
  apply (is_lim_minus' _ _ p_infty (L0 c + 2 * (c * L0 c)) 0); [|apply B1_lim].
  apply (is_lim_plus' _ _ p_infty (L0 c) (2 * (c * L0 c))); [apply mix0, Hc|].
  apply (is_lim_scal_l _ 2 p_infty (c * L0 c)). apply Qterm_lim, Hc.
Qed.

Theorem mix2 c : 0 <= c -> is_lim (fun x => RInt (m2 c) (1 / x) x) p_infty (sqrt PI / 4 * (1 + 2 * c) * exp (- 2 * c)).
Proof.
  intros Hc.
  apply (is_lim_ext_loc (fun x => V2 c (1 / x) x)).
  { exists 0. intros x Hx. symmetry. apply is_RInt_unique. apply M2_is; [exact Hc| |exact Hx]. apply Rdiv_lt_0_compat; lra. }
  replace (Finite _) with (Finite ((L0 c + 2 * (c * L0 c) - 0) / 2)) by (f_equal; unfold L0; field).
  apply V2_lim, Hc.
Qed.

Theorem mix4 c : 0 <= c ->
  is_lim (fun x => RInt (m4 c) (1 / x) x) p_infty (3 * sqrt PI / 8 * (1 + 2 * c + 4 * c ^ 2 / 3) * exp (- 2 * c)).
Proof.
  intros Hc.
  apply (is_lim_ext_loc (fun x => / 2 * (3 * V2 c (1 / x) x + 2 * c ^ 2 * RInt (Ec c) (1 / x) x - B3 c (1 / x) x))).
  { exists 0. intros x Hx. symmetry. apply is_RInt_unique. evar_last.
    apply M4_is; [exact Hc| |exact Hx]. apply Rdiv_lt_0_compat; lra. unfold V4. field. }
  replace (Finite _) with (Rbar_mult (/ 2) (3 * ((L0 c + 2 * (c * L0 c) - 0) / 2) + 2 * c ^ 2 * L0 c - 0))
    by (simpl; f_equal; unfold L0; field).
  apply is_lim_scal_l.
  apply (is_lim_minus' _ _ p_infty (3 * ((L0 c + 2 * (c * L0 c) - 0) / 2) + 2 * c ^ 2 * L0 c) 0); [|apply B3_lim].
  apply (is_lim_plus' _ _ p_infty (3 * ((L0 c + 2 * (c * L0 c) - 0) / 2)) (2 * c ^ 2 * L0 c)).
  - apply (is_lim_scal_l _ 3 p_infty ((L0 c + 2 * (c * L0 c) - 0) / 2)). apply V2_lim, Hc.
  - apply (is_lim_scal_l _ (2 * c ^ 2) p_infty (L0 c)). apply mix0, Hc.
Qed.

(* ------------------------------------------------------------------ the same, read as mixtures of Gaussians in r and with the documented
   profiles phiC0, phiC2, phiC4 of Proofs/Covariance.v *)
Lemma Ec_gauss r u : u <> 0 -> Ec (r / 2) u = exp (- u ^ 2) * exp (- (/ (4 * u ^ 2)) * r ^ 2).
Proof. intros Hu. unfold Ec. rewrite <- exp_plus. f_equal. field. exact Hu. Qed.

Lemma RInt_ext_pos (f g : R -> R) x : 0 < x -> (forall u, 0 < u -> f u = g u) -> RInt f (1 / x) x = RInt g (1 / x) x.
Proof.
  intros Hx H. apply RInt_ext. intros u Hu. apply H.
  assert (Ha : 0 < 1 / x) by (apply Rdiv_lt_0_compat; lra). apply (between_pos (1 / x) x u Ha Hx). lra.
Qed.

Theorem C0_mixture r : 0 <= r ->
  is_lim (fun x => RInt (fun u => exp (- u ^ 2) * exp (- (/ (4 * u ^ 2)) * r ^ 2)) (1 / x) x) p_infty (sqrt PI / 2 * phiC0 r).
Proof.
  intros Hr. apply (is_lim_ext_loc (fun x => RInt (Ec (r / 2)) (1 / x) x)).
  { exists 0. intros x Hx. apply RInt_ext_pos; [exact Hx|]. intros u Hu. apply Ec_gauss. lra. }
  replace (sqrt PI / 2 * phiC0 r) with (L0 (r / 2)) by (unfold L0, phiC0; f_equal; f_equal; field).
  apply mix0. lra.
Qed.

Theorem C2_mixture r : 0 <= r ->
  is_lim (fun x => RInt (fun u => u ^ 2 * exp (- u ^ 2) * exp (- (/ (4 * u ^ 2)) * r ^ 2)) (1 / x) x) p_infty (sqrt PI / 4 * phiC2 r).
Proof.
  intros Hr. apply (is_lim_ext_loc (fun x => RInt (m2 (r / 2)) (1 / x) x)).
  { exists 0. intros x Hx. apply RInt_ext_pos; [exact Hx|]. intros u Hu. unfold m2. rewrite Ec_gauss by lra. ring. }
  replace (sqrt PI / 4 * phiC2 r) with (sqrt PI / 4 * (1 + 2 * (r / 2)) * exp (- 2 * (r / 2))).
  2:{ unfold phiC2. replace (- 2 * (r / 2)) with (- r) by field. field. }
  apply mix2. lra.
Qed.

Theorem C4_mixture r : 0 <= r ->
  is_lim (fun x => RInt (fun u => u ^ 4 * exp (- u ^ 2) * exp (- (/ (4 * u ^ 2)) * r ^ 2)) (1 / x) x) p_infty (3 * sqrt PI / 8 * phiC4 r).
Proof.
  intros Hr. apply (is_lim_ext_loc (fun x => RInt (m4 (r / 2)) (1 / x) x)).
  { exists 0. intros x Hx. apply RInt_ext_pos; [exact Hx|]. intros u Hu. unfold m4. rewrite Ec_gauss by lra. ring. }
  replace (3 * sqrt PI / 8 * phiC4 r) with (3 * sqrt PI / 8 * (1 + 2 * (r / 2) + 4 * (r / 2) ^ 2 / 3) * exp (- 2 * (r / 2))).
  2:{ unfold phiC4. replace (- 2 * (r / 2)) with (- r) by field. field. }
  apply mix4. lra.
Qed.

(* ------------------------------------------------------------------ along the sequence x = N + 1 *)
Lemma seq_of_lim (f : R -> R) (l : Rbar) : is_lim f p_infty l -> is_lim_seq (fun N => f (INR N + 1)) l.
Proof.
  intros H. apply (is_lim_comp_seq f (fun N => INR N + 1) p_infty l H).
  - exists 0%nat. intros n _. discriminate.
  - apply (is_lim_seq_ext (fun n => INR (S n))); [intros n; apply S_INR|].
    apply -> is_lim_seq_incr_1. apply is_lim_seq_INR.
Qed.
