(* C01 x C07 x C08: the optimiser / sampler stage hands feasible relaxed points to the endpoint tails.
   Bridges between the three domain vocabularies, the stage theorems, and the end-to-end statements. *)
From Coq Require Import List QArith ZArith Bool Arith Qround Qabs SetoidList Lia Lra Psatz Permutation.
From LV Require Import Model.Domain Model.Decode Proofs.Domain Proofs.Decode Model.EndpointTail Proofs.EndpointTail.
From LV Require Import Model.Compose01.
From LV Require Model.Restrict Model.Samplers Model.Optim Proofs.Restrict Proofs.Samplers Proofs.Optim.
Import ListNotations.
Open Scope Q_scope.

Module RP := LV.Proofs.Restrict.
Module SP := LV.Proofs.Samplers.
Module OPP := LV.Proofs.Optim.

(* ------------------------------------------------------------------ A. the three vocabularies agree *)
Lemma dot_R : Domain.dot = R.dot.
Proof. reflexivity. Qed.
Lemma dot_OP : Domain.dot = OP.dot.
Proof. reflexivity. Qed.
Lemma in_box_R bs x : RP.in_box bs x <-> in_box bs x.
Proof. unfold RP.in_box, in_box. split; intros H; exact H. Qed.

(* ------------------------------------------------------------------ B. the relaxed box of a well-formed domain *)
Lemma oh_box_ordered d : wf_domain d = true -> SP.ordered_bounds (one_hot_box d).
Proof.
  intros Hwf b Hb. pose proof (wf_domain_comps d Hwf) as Hc. unfold one_hot_box in Hb.
  apply in_flat_map in Hb as (c & Hin & Hb). rewrite Forall_forall in Hc. specialize (Hc c Hin).
  destruct c as [lo hi|lo hi|es|es]; simpl in Hb.
  - destruct Hb as [<-|[]]. simpl in *. apply Proofs.Domain.Qltb_lt in Hc. lra.
  - destruct Hb as [<-|[]]. simpl in *. apply Z.ltb_lt in Hc. rewrite <- Zle_Qle. lia.
  - apply repeat_spec in Hb. subst b. simpl. lra.
  - destruct Hb as [<-|[]]. simpl. pose proof (wf_grid_nonempty es Hc) as Hne. destruct es as [|e es]; [congruence|].
    destruct (grid_range (e :: es) e (or_introl eq_refl)). lra.
Qed.
Lemma is_constrained_R d : R.is_constrained (oh_dom d) = is_constrained d.
Proof. unfold R.is_constrained, is_constrained, oh_dom, oh_cons. simpl. destruct (cons d); reflexivity. Qed.
Lemma oh_dim_bounds d : length (R.bounds (oh_dom d)) = oh_dim d.
Proof. reflexivity. Qed.

(* ------------------------------------------------------------------ C. bridges into C01's relaxed_ok *)
(* C08's region of the search domain is inside C01's: the box is the same, the search domain carries every constraint
   (int-typed ones relaxed), relaxed_ok asks for the double-typed ones only *)
Lemma feasible_relaxed_ok d p : RP.feasible (oh_dom d) p -> relaxed_ok d p.
Proof.
  intros [Hb Hc]. split; [exact Hb|]. unfold sat_double_cons. apply Forall_forall. intros k Hk.
  apply dbl_cons_In in Hk as [Hk _].
  apply (Hc (oh_weights (comps d) (weights k), rhs k)). unfold oh_dom, oh_cons. simpl. apply in_map_iff. exists k. auto.
Qed.
Lemma feasible_length d p : RP.feasible (oh_dom d) p -> length p = oh_dim d.
Proof. intros [Hb _]. apply (RP.in_box_length _ _ Hb). Qed.
Lemma unconstrained_feasible d p : is_constrained d = false -> in_box (one_hot_box d) p -> RP.feasible (oh_dom d) p.
Proof.
  intros Hc Hb. split; [exact Hb|]. intros c Hin. unfold oh_dom, oh_cons in Hin. simpl in Hin.
  rewrite (unconstrained_cons d Hc) in Hin. destruct Hin.
Qed.

(* C07's boolean domain test on the derived representation: bounds of the relaxed box, any fixed coordinates, every
   constraint, read with tolerance tol *)
Definition relaxed_ok_tol (tol : Q) (d : domain) (x : row) : Prop :=
  in_box (one_hot_box d) x /\ Forall (fun k => rhs k - tol <= dot (oh_weights (comps d) (weights k)) x) (cons d).
Lemma op_in_box_b : forall bs p, OP.in_box_b (map fst bs) (map snd bs) p = true -> in_box bs p.
Proof.
  intros bs p H. unfold OP.in_box_b in H. apply andb_true_iff in H as [H H3]. apply andb_true_iff in H as [H1 _].
  apply Nat.eqb_eq in H1. rewrite map_length in H1. revert p H1 H3.
  induction bs as [|b bs IH]; intros [|x p] Hl H; simpl in Hl; try discriminate; [constructor|].
  simpl in H. apply andb_true_iff in H as [Hx H]. apply andb_true_iff in Hx as [Ha Hb].
  apply Qle_bool_iff in Ha. apply Qle_bool_iff in Hb. constructor; [split; assumption|apply IH; [lia|exact H]].
Qed.
Theorem in_dom_b_relaxed tol d fixed p :
  OP.in_dom_b tol (oh_lb d) (oh_ub d) fixed (oh_cons d) p = true -> relaxed_ok_tol tol d p.
Proof.
  unfold OP.in_dom_b. intros H. apply andb_true_iff in H as [H Hc]. apply andb_true_iff in H as [Hb _].
  split; [apply op_in_box_b; exact Hb|]. unfold OP.cons_ok_b in Hc. rewrite forallb_forall in Hc.
  apply Forall_forall. intros k Hk.
  specialize (Hc (oh_weights (comps d) (weights k), rhs k)). simpl in Hc. apply Qle_bool_iff. apply Hc.
  unfold oh_cons. apply in_map_iff. exists k. auto.
Qed.
Lemma relaxed_ok_tol_0 d p : relaxed_ok_tol 0 d p -> relaxed_ok d p.
Proof.
  intros [Hb Hc]. split; [exact Hb|]. unfold sat_double_cons. rewrite Forall_forall in *. intros k Hk.
  apply dbl_cons_In in Hk as [Hk _]. specialize (Hc k Hk). simpl in Hc. lra.
Qed.
Theorem in_dom_b_relaxed_ok d fixed p :
  OP.in_dom_b 0 (oh_lb d) (oh_ub d) fixed (oh_cons d) p = true -> relaxed_ok d p.
Proof. intros H. apply relaxed_ok_tol_0. eapply in_dom_b_relaxed. exact H. Qed.

(* ------------------------------------------------------------------ D. restriction on the search domain.
   C07's theorems ask of the restriction:  forall k b, Forall dom (restrict k b)  - for EVERY batch, also one whose rows
   do not have the dimension of the domain (numpy cannot build such an array; the model's lists can).  The statement
   that holds for every batch is: every returned row OF THE RIGHT LENGTH is in the region; the code's own shape
   assertion on the stage's result supplies the length. *)
Definition okpt (d : domain) (q : row) : Prop := length q = oh_dim d -> RP.feasible (oh_dom d) q.

Lemma map2_len {A B C} (f : A -> B -> C) : forall a b, length (R.map2 f a b) = Nat.min (length a) (length b).
Proof. induction a as [|x a IH]; intros [|y b]; simpl; try reflexivity. rewrite IH. reflexivity. Qed.
Lemma clip_long : forall bs p, SP.ordered_bounds bs -> (length bs <= length p)%nat -> RP.in_box bs (R.clip bs p).
Proof.
  induction bs as [|b bs IH]; intros p Hb Hl; [destruct p; constructor|].
  destruct p as [|x p]; simpl in Hl; [lia|]. unfold R.clip. simpl. constructor.
  - assert (B := Hb b (or_introl eq_refl)). unfold R.clip1.
    destruct (R.Qltb x (fst b)) eqn:E1; [lra|]. apply RP.Qltb_ge in E1.
    destruct (R.Qltb (snd b) x) eqn:E2; [lra|]. apply RP.Qltb_ge in E2. lra.
  - apply IH; [intros b' Hin; apply Hb; right; exact Hin|lia].
Qed.
Definition rag (bs : list (Q * Q)) (hs : list (list Q * Q)) (q : row) : Prop :=
  (RP.in_box bs q /\ RP.sat_all hs q) \/ (length q < length bs)%nat.
Lemma restrict_one_rag bs hs v on p us : RP.in_box bs v -> RP.strict_all hs v ->
  RP.in_box bs p \/ (length p < length bs)%nat -> Forall RP.unit_interval us ->
  rag bs hs (fst (R.restrict_one hs v on p us)) /\ Forall RP.unit_interval (snd (R.restrict_one hs v on p us)).
Proof.
  intros Bv Sv [Bp|Lp] Hus.
  - destruct (RP.restrict_one_correct bs hs v on p us Bv Sv Bp Hus) as (A & B & C). split; [left; split; assumption|exact C].
  - unfold R.restrict_one. destruct (R.needs_correction hs v p); [|split; [right; exact Lp|exact Hus]].
    assert (L : forall e, (length (R.combine_toward e p v) < length bs)%nat).
    { intros e. unfold R.combine_toward. rewrite map2_len. lia. }
    destruct on; [split; [right; apply L|exact Hus]|].
    destruct us as [|u us']; [split; [right; apply L|constructor]|].
    inversion Hus; subst. split; [right; apply L|assumption].
Qed.
Lemma restrict_list_rag bs hs v on : RP.in_box bs v -> RP.strict_all hs v ->
  forall ps us, Forall (fun p => RP.in_box bs p \/ (length p < length bs)%nat) ps -> Forall RP.unit_interval us ->
  Forall (rag bs hs) (fst (R.restrict_list hs v on ps us)) /\ length (fst (R.restrict_list hs v on ps us)) = length ps.
Proof.
  intros Bv Sv. induction ps as [|p ps IH]; intros us Hps Hus; simpl; [split; [constructor|reflexivity]|].
  inversion Hps; subst. destruct (restrict_one_rag bs hs v on p us Bv Sv H1 Hus) as [R1 R2].
  destruct (R.restrict_one hs v on p us) as [q us1]. simpl in R1, R2.
  destruct (IH us1 H2 R2) as [I1 I2]. destruct (R.restrict_list hs v on ps us1) as [qs us2]. simpl in *.
  split; [constructor; assumption|lia].
Qed.
Lemma nnz_opp w : R.nnz (map Qopp w) = R.nnz w.
Proof.
  unfold R.nnz. induction w as [|x w IH]; [reflexivity|]. simpl.
  assert (E : Qeq_bool (- x) 0 = Qeq_bool x 0).
  { destruct (Qeq_bool x 0) eqn:E1.
    - apply Qeq_bool_iff in E1. apply Qeq_bool_iff. rewrite E1. reflexivity.
    - destruct (Qeq_bool (- x) 0) eqn:E2; [|reflexivity]. apply Qeq_bool_iff in E2. assert (x == 0) by lra.
      apply Qeq_bool_iff in H. congruence. }
  rewrite E. destruct (Qeq_bool x 0); simpl; rewrite IH; reflexivity.
Qed.
Lemma cons_two_rows d : cons_two d -> forall h, In h (R.cons_rows (oh_dom d)) -> (2 <= R.nnz (fst h))%nat.
Proof.
  intros H2 h Hh. unfold R.cons_rows, oh_dom, oh_cons in Hh. simpl in Hh. rewrite map_map in Hh.
  apply in_map_iff in Hh as (k & <- & Hk). simpl. rewrite nnz_opp. apply H2. exact Hk.
Qed.
Lemma no_bound_feasible d q : cons_two d -> RP.in_box (one_hot_box d) q ->
  RP.sat_all (R.no_bound_rows (R.halfspaces (oh_dom d))) q -> RP.feasible (oh_dom d) q.
Proof.
  intros H2 Hb Hs. split; [exact Hb|]. apply RP.cons_rows_sat. intros h Hin. apply Hs. unfold R.no_bound_rows.
  apply filter_In. split; [unfold R.halfspaces; apply in_or_app; left; exact Hin|].
  apply Nat.ltb_lt. pose proof (cons_two_rows d H2 h Hin). lia.
Qed.
Lemma restrict_points_okpt d c vp on us ps : wf_domain d = true -> cons_two d ->
  (is_constrained d = true -> RP.interior (oh_dom d) c) -> Forall RP.unit_interval us ->
  Forall (okpt d) (fst (R.restrict_points (oh_dom d) c vp on us ps)) /\
  length (fst (R.restrict_points (oh_dom d) c vp on us ps)) = length ps.
Proof.
  intros Hwf H2 Hi Hus. unfold R.restrict_points. pose proof (oh_box_ordered d Hwf) as Hord.
  set (bs := one_hot_box d) in *. change (R.bounds (oh_dom d)) with bs.
  assert (Hclip : Forall (fun p => RP.in_box bs p \/ (length p < length bs)%nat) (map (R.clip bs) ps)).
  { apply Forall_forall. intros q Hq. apply in_map_iff in Hq as (p & <- & _).
    destruct (Nat.le_gt_cases (length bs) (length p)) as [L|L]; [left; apply clip_long; assumption|right].
    unfold R.clip. rewrite map2_len. lia. }
  rewrite is_constrained_R. destruct (is_constrained d) eqn:Ec.
  - specialize (Hi eq_refl). assert (Ec' : R.is_constrained (oh_dom d) = true) by (rewrite is_constrained_R; exact Ec).
    pose proof (RP.viable_point_is_strict (oh_dom d) c vp Ec' Hi) as Hv. set (v := R.select_viable (oh_dom d) c vp) in *.
    destruct (restrict_list_rag bs (R.no_bound_rows (R.halfspaces (oh_dom d))) v on (RP.interior_in_box _ _ Hv)
                (RP.strict_all_filter _ _ _ (proj2 Hv)) _ us Hclip Hus) as [A B].
    rewrite map_length in B. split; [|exact B].
    eapply Forall_impl; [|exact A]. intros q [[Hb Hs]|Hl] Hlen; [apply no_bound_feasible; assumption|].
    unfold oh_dim in Hlen. fold bs in Hlen. lia.
  - simpl. rewrite map_length. split; [|reflexivity].
    eapply Forall_impl; [|exact Hclip]. intros q [Hb|Hl] Hlen; [apply unconstrained_feasible; assumption|].
    unfold oh_dim in Hlen. fold bs in Hlen. lia.
Qed.
Lemma set_nth_length j v : forall p, length (R.set_nth j v p) = length p.
Proof. revert j. induction j as [|j IH]; intros [|x p]; simpl; try reflexivity. rewrite IH. reflexivity. Qed.
Lemma fix_point_length fixed : forall p, length (R.fix_point fixed p) = length p.
Proof.
  unfold R.fix_point. induction fixed as [|iv fixed IH]; intros p; simpl; [reflexivity|]. rewrite IH. apply set_nth_length.
Qed.
Lemma okpt_fix d fixed q : RP.fixed_valid (oh_dom d) fixed -> okpt d q -> okpt d (R.fix_point fixed q).
Proof. intros Hf Hq Hl. rewrite fix_point_length in Hl. apply RP.fixed_point_feasible; [exact Hf|apply Hq, Hl]. Qed.

(* the contract C07 asks of the restriction, for the restriction of the search domain, for every batch *)
Theorem oh_restrict_contract d fixed c us : wf_domain d = true -> cons_two d ->
  (is_constrained d = true -> RP.interior (oh_dom d) c) -> (forall k, Forall RP.unit_interval (us k)) ->
  RP.fixed_valid (oh_dom d) fixed ->
  (forall k b, Forall (okpt d) (oh_restrict d fixed c us k b)) /\ (forall k b, length (oh_restrict d fixed c us k b) = length b).
Proof.
  intros Hwf H2 Hi Hus Hf. split; intros k b; unfold oh_restrict, R.fixed_restrict;
    destruct (restrict_points_okpt d c None false (us k) b Hwf H2 Hi (Hus k)) as [A B].
  - apply Forall_forall. intros q Hq. apply in_map_iff in Hq as (p & <- & Hp). apply okpt_fix; [exact Hf|].
    rewrite Forall_forall in A. apply A, Hp.
  - rewrite map_length. exact B.
Qed.

(* ------------------------------------------------------------------ E. the optimiser stage (C07 instantiated with D) *)
Definition stage_ctx (d : domain) (fixed : list (nat * Q)) (c : row) : Prop :=
  wf_domain d = true /\ cons_two d /\ (is_constrained d = true -> RP.interior (oh_dom d) c) /\ RP.fixed_valid (oh_dom d) fixed.
Definition unit_stream (us : nat -> list Q) : Prop := forall k, Forall RP.unit_interval (us k).
Definition vorc_ok (o : vorc) : Prop := unit_stream (v_us_es o) /\ unit_stream (v_us_gd o).

Lemma best_location_evaluated af restrict (dom : row -> Prop) starting o p :
  OPP.run_ok af restrict dom starting o -> OP.best_location o = Some p -> dom p.
Proof.
  intros (He & (p' & v & Eb & Hfm & _) & _) Hp. unfold OP.best_location in Hp. rewrite Eb in Hp. simpl in Hp. injection Hp as <-.
  pose proof (OPP.first_max_in af _ _ _ Hfm) as Hin. apply in_concat in Hin as (b & Hb & Hpb).
  rewrite Forall_forall in He. specialize (He b Hb). rewrite Forall_forall in He. apply He, Hpb.
Qed.

Theorem vec_acq_opt_okpt d fixed c af best_obs P pretest o p : stage_ctx d fixed c -> vorc_ok o ->
  vec_acq_opt d fixed c af best_obs P pretest o = SOk p -> okpt d p.
Proof.
  intros (Hwf & H2 & Hi & Hf) [Hes Hgd] H. unfold vec_acq_opt in H. destruct pretest as [|x0 pre]; [discriminate|].
  destruct (OP.de_optimize _ _ _ _ _ _ _) as [o_es|e]; [|discriminate]. cbn [lift sbind] in H.
  destruct (OP.best_location o_es) as [best_es|]; [|discriminate].
  destruct (Nat.leb _ _); [|discriminate].
  destruct (OP.adam_optimize _ _ _ _ _ _ _) as [o_gd|e] eqn:Ea; [|discriminate]. cbn [lift sbind] in H.
  destruct (OP.best_location o_gd) as [q|] eqn:Eb; [|discriminate]. injection H as <-.
  destruct (oh_restrict_contract d fixed c (v_us_gd o) Hwf H2 Hi Hgd Hf) as [C1 _].
  eapply best_location_evaluated; [|exact Eb]. eapply OPP.adam_optimize_ok; [exact C1|exact Ea].
Qed.

Theorem cl_loop_feasible d fixed c afl best P pretest : stage_ctx d fixed c ->
  forall os lies xs, Forall vorc_ok os -> cl_loop d fixed c afl best P pretest lies os = SOk xs ->
  Forall (RP.feasible (oh_dom d)) xs /\ length xs = length os.
Proof.
  intros Hctx. induction os as [|o os IH]; intros lies xs Hos H; cbn [cl_loop] in H.
  - injection H as <-. split; [constructor|reflexivity].
  - inversion Hos as [|? ? Ho Hos']; subst. destruct (vec_acq_opt d fixed c (afl lies) (best lies) P pretest o) as [p|e] eqn:Ev; [|discriminate].
    cbn [sbind] in H. destruct (Nat.eqb (length p) (oh_dim d)) eqn:El; [|discriminate]. apply Nat.eqb_eq in El.
    destruct (cl_loop d fixed c afl best P pretest (lies ++ [p]) os) as [rest|e] eqn:Er; [|discriminate]. cbn [sbind] in H.
    injection H as <-. destruct (IH _ _ Hos' Er) as [A B]. split; [|simpl; lia].
    constructor; [|exact A]. apply (vec_acq_opt_okpt d fixed c _ _ P pretest o p Hctx Ho Ev El).
Qed.
Theorem cl_stage_feasible d fixed c afl best P pretest n os xs : stage_ctx d fixed c -> Forall vorc_ok os ->
  cl_stage d fixed c afl best P pretest n os = SOk xs -> Forall (RP.feasible (oh_dom d)) xs /\ length xs = n.
Proof.
  intros Hctx Hos H. unfold cl_stage in H. destruct (Nat.eqb (length os) n) eqn:E; [|discriminate]. apply Nat.eqb_eq in E.
  destruct (cl_loop_feasible d fixed c afl best P pretest Hctx os [] xs Hos H) as [A B]. split; [exact A|lia].
Qed.
Theorem qei_stage_feasible d fixed c af Pde maxiter gen us ds xs : stage_ctx d fixed c -> unit_stream us ->
  qei_stage d fixed c af Pde maxiter gen us ds = SOk xs -> Forall (RP.feasible (oh_dom d)) xs /\ length xs = 1%nat.
Proof.
  intros (Hwf & H2 & Hi & Hf) Hus H. unfold qei_stage in H.
  destruct (OP.de_optimize _ _ _ _ _ _ _) as [o|e] eqn:Ed; [|discriminate]. cbn [lift sbind] in H.
  destruct (OP.best_location o) as [p|] eqn:Eb; [|discriminate].
  destruct (Nat.eqb (length p) (oh_dim d)) eqn:El; [|discriminate]. apply Nat.eqb_eq in El. injection H as <-.
  destruct (oh_restrict_contract d fixed c us Hwf H2 Hi Hus Hf) as [C1 C2].
  split; [|reflexivity]. constructor; [|constructor].
  refine (best_location_evaluated af _ (okpt d) _ o p _ Eb El). eapply OPP.de_optimize_ok; [exact C1|exact C2|exact Ed].
Qed.
Theorem gp_stage_feasible D fixed c afl best n m xs : stage_ctx D fixed c ->
  match m with GCl _ _ os => Forall vorc_ok os | GQei _ _ _ us _ => unit_stream us end ->
  gp_stage D fixed c afl best n m = SOk xs -> Forall (RP.feasible (oh_dom D)) xs /\ length xs = n.
Proof.
  intros Hctx Hm H. destruct m as [P pretest os|Pde maxiter gen us ds]; cbn [gp_stage] in H.
  - eapply cl_stage_feasible; eassumption.
  - destruct (Nat.eqb n 1) eqn:E; [|discriminate]. apply Nat.eqb_eq in E. subst n. eapply qei_stage_feasible; eassumption.
Qed.
(* the statement the tails ask for *)
Corollary gp_stage_relaxed_ok D fixed c afl best n m xs : stage_ctx D fixed c ->
  match m with GCl _ _ os => Forall vorc_ok os | GQei _ _ _ us _ => unit_stream us end ->
  gp_stage D fixed c afl best n m = SOk xs -> Forall (relaxed_ok D) xs /\ length xs = n.
Proof.
  intros Hctx Hm H. destruct (gp_stage_feasible D fixed c afl best n m xs Hctx Hm H) as [A B]. split; [|exact B].
  eapply Forall_impl; [|exact A]. intros p. apply feasible_relaxed_ok.
Qed.
