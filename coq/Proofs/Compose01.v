(* C01 x C07 x C08: the optimiser / sampler stage hands feasible relaxed points to the endpoint tails.
   Bridges between the three domain vocabularies, the stage theorems, and the end-to-end statements. *)
From Coq Require Import List QArith ZArith Bool Arith Qround Qabs SetoidList Lia Lra Psatz Permutation.
From LV Require Import Model.Domain Model.Decode Proofs.Domain Proofs.Decode Model.EndpointTail Proofs.EndpointTail.
From LV Require Import Model.Compose01.
From LV Require Model.Restrict Model.Samplers Model.Optim Proofs.Restrict Proofs.Samplers Proofs.Optim.
Import ListNotations.
Open Scope Q_scope.

Module RP := LV.Proofs.Restrict.
Module SP := LV.Proofs.Samplers.
Module OPP := LV.Proofs.Optim.

(* ------------------------------------------------------------------ A. the three vocabularies agree *)
Lemma dot_R : Domain.dot = R.dot.
Proof. reflexivity. Qed.
Lemma dot_OP : Domain.dot = OP.dot.
Proof. reflexivity. Qed.
Lemma in_box_R bs x : RP.in_box bs x <-> in_box bs x.
Proof. unfold RP.in_box, in_box. split; intros H; exact H. Qed.

(* ------------------------------------------------------------------ B. the relaxed box of a well-formed domain *)
Lemma oh_box_ordered d : wf_domain d = true -> SP.ordered_bounds (one_hot_box d).
Proof.
  intros Hwf b Hb. pose proof (wf_domain_comps d Hwf) as Hc. unfold one_hot_box in Hb.
  apply in_flat_map in Hb as (c & Hin & Hb). rewrite Forall_forall in Hc. specialize (Hc c Hin).
  destruct c as [lo hi|lo hi|es|es]; simpl in Hb.
  - destruct Hb as [<-|[]]. simpl in *. apply Proofs.Domain.Qltb_lt in Hc. lra.
  - destruct Hb as [<-|[]]. simpl in *. apply Z.ltb_lt in Hc. rewrite <- Zle_Qle. lia.
  - apply repeat_spec in Hb. subst b. simpl. lra.
  - destruct Hb as [<-|[]]. simpl. pose proof (wf_grid_nonempty es Hc) as Hne. destruct es as [|e es]; [congruence|].
    destruct (grid_range (e :: es) e (or_introl eq_refl)). lra.
Qed.
Lemma is_constrained_R d : R.is_constrained (oh_dom d) = is_constrained d.
Proof. unfold R.is_constrained, is_constrained, oh_dom, oh_cons. simpl. destruct (cons d); reflexivity. Qed.
Lemma oh_dim_bounds d : length (R.bounds (oh_dom d)) = oh_dim d.
Proof. reflexivity. Qed.

(* ------------------------------------------------------------------ C. bridges into C01's relaxed_ok *)
(* C08's region of the search domain is inside C01's: the box is the same, the search domain carries every constraint
   (int-typed ones relaxed), relaxed_ok asks for the double-typed ones only *)
Lemma feasible_relaxed_ok d p : RP.feasible (oh_dom d) p -> relaxed_ok d p.
Proof.
  intros [Hb Hc]. split; [exact Hb|]. unfold sat_double_cons. apply Forall_forall. intros k Hk.
  apply dbl_cons_In in Hk as [Hk _].
  apply (Hc (oh_weights (comps d) (weights k), rhs k)). unfold oh_dom, oh_cons. simpl. apply in_map_iff. exists k. auto.
Qed.
Lemma feasible_length d p : RP.feasible (oh_dom d) p -> length p = oh_dim d.
Proof. intros [Hb _]. apply (RP.in_box_length _ _ Hb). Qed.
Lemma unconstrained_feasible d p : is_constrained d = false -> in_box (one_hot_box d) p -> RP.feasible (oh_dom d) p.
Proof.
  intros Hc Hb. split; [exact Hb|]. intros c Hin. unfold oh_dom, oh_cons in Hin. simpl in Hin.
  rewrite (unconstrained_cons d Hc) in Hin. destruct Hin.
Qed.

(* C07's boolean domain test on the derived representation: bounds of the relaxed box, any fixed coordinates, every
   constraint, read with tolerance tol *)
Definition relaxed_ok_tol (tol : Q) (d : domain) (x : row) : Prop :=
  in_box (one_hot_box d) x /\ Forall (fun k => rhs k - tol <= dot (oh_weights (comps d) (weights k)) x) (cons d).
Lemma op_in_box_b : forall bs p, OP.in_box_b (map fst bs) (map snd bs) p = true -> in_box bs p.
Proof.
  intros bs p H. unfold OP.in_box_b in H. apply andb_true_iff in H as [H H3]. apply andb_true_iff in H as [H1 _].
  apply Nat.eqb_eq in H1. rewrite map_length in H1. revert p H1 H3.
  induction bs as [|b bs IH]; intros [|x p] Hl H; simpl in Hl; try discriminate; [constructor|].
  simpl in H. apply andb_true_iff in H as [Hx H]. apply andb_true_iff in Hx as [Ha Hb].
  apply Qle_bool_iff in Ha. apply Qle_bool_iff in Hb. constructor; [split; assumption|apply IH; [lia|exact H]].
Qed.
Theorem in_dom_b_relaxed tol d fixed p :
  OP.in_dom_b tol (oh_lb d) (oh_ub d) fixed (oh_cons d) p = true -> relaxed_ok_tol tol d p.
Proof.
  unfold OP.in_dom_b. intros H. apply andb_true_iff in H as [H Hc]. apply andb_true_iff in H as [Hb _].
  split; [apply op_in_box_b; exact Hb|]. unfold OP.cons_ok_b in Hc. rewrite forallb_forall in Hc.
  apply Forall_forall. intros k Hk.
  specialize (Hc (oh_weights (comps d) (weights k), rhs k)). simpl in Hc. apply Qle_bool_iff. apply Hc.
  unfold oh_cons. apply in_map_iff. exists k. auto.
Qed.
Lemma relaxed_ok_tol_0 d p : relaxed_ok_tol 0 d p -> relaxed_ok d p.
Proof.
  intros [Hb Hc]. split; [exact Hb|]. unfold sat_double_cons. rewrite Forall_forall in *. intros k Hk.
  apply dbl_cons_In in Hk as [Hk _]. specialize (Hc k Hk). simpl in Hc. lra.
Qed.
Theorem in_dom_b_relaxed_ok d fixed p :
  OP.in_dom_b 0 (oh_lb d) (oh_ub d) fixed (oh_cons d) p = true -> relaxed_ok d p.
Proof. intros H. apply relaxed_ok_tol_0. eapply in_dom_b_relaxed. exact H. Qed.

(* ------------------------------------------------------------------ D. restriction on the search domain.
   C07's theorems ask of the restriction:  forall k b, Forall dom (restrict k b)  - for EVERY batch, also one whose rows
   do not have the dimension of the domain (numpy cannot build such an array; the model's lists can).  The statement
   that holds for every batch is: every returned row OF THE RIGHT LENGTH is in the region; the code's own shape
   assertion on the stage's result supplies the length. *)
Definition okpt (d : domain) (q : row) : Prop := length q = oh_dim d -> RP.feasible (oh_dom d) q.

Lemma map2_len {A B C} (f : A -> B -> C) : forall a b, length (R.map2 f a b) = Nat.min (length a) (length b).
Proof. induction a as [|x a IH]; intros [|y b]; simpl; try reflexivity. rewrite IH. reflexivity. Qed.
Lemma clip_long : forall bs p, SP.ordered_bounds bs -> (length bs <= length p)%nat -> RP.in_box bs (R.clip bs p).
Proof.
  induction bs as [|b bs IH]; intros p Hb Hl; [destruct p; constructor|].
  destruct p as [|x p]; simpl in Hl; [lia|]. unfold R.clip. simpl. constructor.
  - assert (B := Hb b (or_introl eq_refl)). unfold R.clip1.
    destruct (R.Qltb x (fst b)) eqn:E1; [lra|]. apply RP.Qltb_ge in E1.
    destruct (R.Qltb (snd b) x) eqn:E2; [lra|]. apply RP.Qltb_ge in E2. lra.
  - apply IH; [intros b' Hin; apply Hb; right; exact Hin|lia].
Qed.
Definition rag (bs : list (Q * Q)) (hs : list (list Q * Q)) (q : row) : Prop :=
  (RP.in_box bs q /\ RP.sat_all hs q) \/ (length q < length bs)%nat.
Lemma restrict_one_rag bs hs v on p us : RP.in_box bs v -> RP.strict_all hs v ->
  RP.in_box bs p \/ (length p < length bs)%nat -> Forall RP.unit_interval us ->
  rag bs hs (fst (R.restrict_one hs v on p us)) /\ Forall RP.unit_interval (snd (R.restrict_one hs v on p us)).
Proof.
  intros Bv Sv [Bp|Lp] Hus.
  - destruct (RP.restrict_one_correct bs hs v on p us Bv Sv Bp Hus) as (A & B & C). split; [left; split; assumption|exact C].
  - unfold R.restrict_one. destruct (R.needs_correction hs v p); [|split; [right; exact Lp|exact Hus]].
    assert (L : forall e, (length (R.combine_toward e p v) < length bs)%nat).
    { intros e. unfold R.combine_toward. rewrite map2_len. lia. }
    destruct on; [split; [right; apply L|exact Hus]|].
    destruct us as [|u us']; [split; [right; apply L|constructor]|].
    inversion Hus; subst. split; [right; apply L|assumption].
Qed.
Lemma restrict_list_rag bs hs v on : RP.in_box bs v -> RP.strict_all hs v ->
  forall ps us, Forall (fun p => RP.in_box bs p \/ (length p < length bs)%nat) ps -> Forall RP.unit_interval us ->
  Forall (rag bs hs) (fst (R.restrict_list hs v on ps us)) /\ length (fst (R.restrict_list hs v on ps us)) = length ps.
Proof.
  intros Bv Sv. induction ps as [|p ps IH]; intros us Hps Hus; simpl; [split; [constructor|reflexivity]|].
  inversion Hps; subst. destruct (restrict_one_rag bs hs v on p us Bv Sv H1 Hus) as [R1 R2].
  destruct (R.restrict_one hs v on p us) as [q us1]. simpl in R1, R2.
  destruct (IH us1 H2 R2) as [I1 I2]. destruct (R.restrict_list hs v on ps us1) as [qs us2]. simpl in *.
  split; [constructor; assumption|lia].
Qed.
Lemma nnz_opp w : R.nnz (map Qopp w) = R.nnz w.
Proof.
  unfold R.nnz. induction w as [|x w IH]; [reflexivity|]. simpl.
  assert (E : Qeq_bool (- x) 0 = Qeq_bool x 0).
  { destruct (Qeq_bool x 0) eqn:E1.
    - apply Qeq_bool_iff in E1. apply Qeq_bool_iff. rewrite E1. reflexivity.
    - destruct (Qeq_bool (- x) 0) eqn:E2; [|reflexivity]. apply Qeq_bool_iff in E2. assert (x == 0) by lra.
      apply Qeq_bool_iff in H. congruence. }
  rewrite E. destruct (Qeq_bool x 0); simpl; rewrite IH; reflexivity.
Qed.
Lemma cons_two_rows d : cons_two d -> forall h, In h (R.cons_rows (oh_dom d)) -> (2 <= R.nnz (fst h))%nat.
Proof.
  intros H2 h Hh. unfold R.cons_rows, oh_dom, oh_cons in Hh. simpl in Hh. rewrite map_map in Hh.
  apply in_map_iff in Hh as (k & <- & Hk). simpl. rewrite nnz_opp. apply H2. exact Hk.
Qed.
Lemma no_bound_feasible d q : cons_two d -> RP.in_box (one_hot_box d) q ->
  RP.sat_all (R.no_bound_rows (R.halfspaces (oh_dom d))) q -> RP.feasible (oh_dom d) q.
Proof.
  intros H2 Hb Hs. split; [exact Hb|]. apply RP.cons_rows_sat. intros h Hin. apply Hs. unfold R.no_bound_rows.
  apply filter_In. split; [unfold R.halfspaces; apply in_or_app; left; exact Hin|].
  apply Nat.ltb_lt. pose proof (cons_two_rows d H2 h Hin). lia.
Qed.
Lemma restrict_points_okpt d c vp on us ps : wf_domain d = true -> cons_two d ->
  (is_constrained d = true -> RP.interior (oh_dom d) c) -> Forall RP.unit_interval us ->
  Forall (okpt d) (fst (R.restrict_points (oh_dom d) c vp on us ps)) /\
  length (fst (R.restrict_points (oh_dom d) c vp on us ps)) = length ps.
Proof.
  intros Hwf H2 Hi Hus. unfold R.restrict_points. pose proof (oh_box_ordered d Hwf) as Hord.
  set (bs := one_hot_box d) in *. change (R.bounds (oh_dom d)) with bs.
  assert (Hclip : Forall (fun p => RP.in_box bs p \/ (length p < length bs)%nat) (map (R.clip bs) ps)).
  { apply Forall_forall. intros q Hq. apply in_map_iff in Hq as (p & <- & _).
    destruct (Nat.le_gt_cases (length bs) (length p)) as [L|L]; [left; apply clip_long; assumption|right].
    unfold R.clip. rewrite map2_len. lia. }
  rewrite is_constrained_R. destruct (is_constrained d) eqn:Ec.
  - specialize (Hi eq_refl). assert (Ec' : R.is_constrained (oh_dom d) = true) by (rewrite is_constrained_R; exact Ec).
    pose proof (RP.viable_point_is_strict (oh_dom d) c vp Ec' Hi) as Hv. set (v := R.select_viable (oh_dom d) c vp) in *.
    destruct (restrict_list_rag bs (R.no_bound_rows (R.halfspaces (oh_dom d))) v on (RP.interior_in_box _ _ Hv)
                (RP.strict_all_filter _ _ _ (proj2 Hv)) _ us Hclip Hus) as [A B].
    rewrite map_length in B. split; [|exact B].
    eapply Forall_impl; [|exact A]. intros q [[Hb Hs]|Hl] Hlen; [apply no_bound_feasible; assumption|].
    unfold oh_dim in Hlen. fold bs in Hlen. lia.
  - simpl. rewrite map_length. split; [|reflexivity].
    eapply Forall_impl; [|exact Hclip]. intros q [Hb|Hl] Hlen; [apply unconstrained_feasible; assumption|].
    unfold oh_dim in Hlen. fold bs in Hlen. lia.
Qed.
Lemma set_nth_length j v : forall p, length (R.set_nth j v p) = length p.
Proof. revert j. induction j as [|j IH]; intros [|x p]; simpl; try reflexivity. rewrite IH. reflexivity. Qed.
Lemma fix_point_length fixed : forall p, length (R.fix_point fixed p) = length p.
Proof.
  unfold R.fix_point. induction fixed as [|iv fixed IH]; intros p; simpl; [reflexivity|]. rewrite IH. apply set_nth_length.
Qed.
Lemma okpt_fix d fixed q : RP.fixed_valid (oh_dom d) fixed -> okpt d q -> okpt d (R.fix_point fixed q).
Proof. intros Hf Hq Hl. rewrite fix_point_length in Hl. apply RP.fixed_point_feasible; [exact Hf|apply Hq, Hl]. Qed.

(* the contract C07 asks of the restriction, for the restriction of the search domain, for every batch *)
Theorem oh_restrict_contract d fixed c us : wf_domain d = true -> cons_two d ->
  (is_constrained d = true -> RP.interior (oh_dom d) c) -> (forall k, Forall RP.unit_interval (us k)) ->
  RP.fixed_valid (oh_dom d) fixed ->
  (forall k b, Forall (okpt d) (oh_restrict d fixed c us k b)) /\ (forall k b, length (oh_restrict d fixed c us k b) = length b).
Proof.
  intros Hwf H2 Hi Hus Hf. split; intros k b; unfold oh_restrict, R.fixed_restrict;
    destruct (restrict_points_okpt d c None false (us k) b Hwf H2 Hi (Hus k)) as [A B].
  - apply Forall_forall. intros q Hq. apply in_map_iff in Hq as (p & <- & Hp). apply okpt_fix; [exact Hf|].
    rewrite Forall_forall in A. apply A, Hp.
  - rewrite map_length. exact B.
Qed.

(* ------------------------------------------------------------------ E. the optimiser stage (C07 instantiated with D) *)
Definition stage_ctx (d : domain) (fixed : list (nat * Q)) (c : row) : Prop :=
  wf_domain d = true /\ cons_two d /\ (is_constrained d = true -> RP.interior (oh_dom d) c) /\ RP.fixed_valid (oh_dom d) fixed.
Definition unit_stream (us : nat -> list Q) : Prop := forall k, Forall RP.unit_interval (us k).
Definition vorc_ok (o : vorc) : Prop := unit_stream (v_us_es o) /\ unit_stream (v_us_gd o).

Lemma best_location_evaluated af restrict (dom : row -> Prop) starting o p :
  OPP.run_ok af restrict dom starting o -> OP.best_location o = Some p -> dom p.
Proof.
  intros (He & (p' & v & Eb & Hfm & _) & _) Hp. unfold OP.best_location in Hp. rewrite Eb in Hp. simpl in Hp. injection Hp as <-.
  pose proof (OPP.first_max_in af _ _ _ Hfm) as Hin. apply in_concat in Hin as (b & Hb & Hpb).
  rewrite Forall_forall in He. specialize (He b Hb). rewrite Forall_forall in He. apply He, Hpb.
Qed.

Theorem vec_acq_opt_okpt d fixed c af best_obs P pretest o p : stage_ctx d fixed c -> vorc_ok o ->
  vec_acq_opt d fixed c af best_obs P pretest o = SOk p -> okpt d p.
Proof.
  intros (Hwf & H2 & Hi & Hf) [Hes Hgd] H. unfold vec_acq_opt in H. destruct pretest as [|x0 pre]; [discriminate|].
  destruct (OP.de_optimize _ _ _ _ _ _ _) as [o_es|e]; [|discriminate]. cbn [lift sbind] in H.
  destruct (OP.best_location o_es) as [best_es|]; [|discriminate].
  destruct (Nat.leb _ _); [|discriminate].
  destruct (OP.adam_optimize _ _ _ _ _ _ _) as [o_gd|e] eqn:Ea; [|discriminate]. cbn [lift sbind] in H.
  destruct (OP.best_location o_gd) as [q|] eqn:Eb; [|discriminate]. injection H as <-.
  destruct (oh_restrict_contract d fixed c (v_us_gd o) Hwf H2 Hi Hgd Hf) as [C1 _].
  eapply best_location_evaluated; [|exact Eb]. eapply OPP.adam_optimize_ok; [exact C1|exact Ea].
Qed.

Theorem cl_loop_feasible d fixed c afl best P pretest : stage_ctx d fixed c ->
  forall os lies xs, Forall vorc_ok os -> cl_loop d fixed c afl best P pretest lies os = SOk xs ->
  Forall (RP.feasible (oh_dom d)) xs /\ length xs = length os.
Proof.
  intros Hctx. induction os as [|o os IH]; intros lies xs Hos H; cbn [cl_loop] in H.
  - injection H as <-. split; [constructor|reflexivity].
  - inversion Hos as [|? ? Ho Hos']; subst. destruct (vec_acq_opt d fixed c (afl lies) (best lies) P pretest o) as [p|e] eqn:Ev; [|discriminate].
    cbn [sbind] in H. destruct (Nat.eqb (length p) (oh_dim d)) eqn:El; [|discriminate]. apply Nat.eqb_eq in El.
    destruct (cl_loop d fixed c afl best P pretest (lies ++ [p]) os) as [rest|e] eqn:Er; [|discriminate]. cbn [sbind] in H.
    injection H as <-. destruct (IH _ _ Hos' Er) as [A B]. split; [|simpl; lia].
    constructor; [|exact A]. apply (vec_acq_opt_okpt d fixed c _ _ P pretest o p Hctx Ho Ev El).
Qed.
Theorem cl_stage_feasible d fixed c afl best P pretest n os xs : stage_ctx d fixed c -> Forall vorc_ok os ->
  cl_stage d fixed c afl best P pretest n os = SOk xs -> Forall (RP.feasible (oh_dom d)) xs /\ length xs = n.
Proof.
  intros Hctx Hos H. unfold cl_stage in H. destruct (Nat.eqb (length os) n) eqn:E; [|discriminate]. apply Nat.eqb_eq in E.
  destruct (cl_loop_feasible d fixed c afl best P pretest Hctx os [] xs Hos H) as [A B]. split; [exact A|lia].
Qed.
Theorem qei_stage_feasible d fixed c af Pde maxiter gen us ds xs : stage_ctx d fixed c -> unit_stream us ->
  qei_stage d fixed c af Pde maxiter gen us ds = SOk xs -> Forall (RP.feasible (oh_dom d)) xs /\ length xs = 1%nat.
Proof.
  intros (Hwf & H2 & Hi & Hf) Hus H. unfold qei_stage in H.
  destruct (OP.de_optimize _ _ _ _ _ _ _) as [o|e] eqn:Ed; [|discriminate]. cbn [lift sbind] in H.
  destruct (OP.best_location o) as [p|] eqn:Eb; [|discriminate].
  destruct (Nat.eqb (length p) (oh_dim d)) eqn:El; [|discriminate]. apply Nat.eqb_eq in El. injection H as <-.
  destruct (oh_restrict_contract d fixed c us Hwf H2 Hi Hus Hf) as [C1 C2].
  split; [|reflexivity]. constructor; [|constructor].
  refine (best_location_evaluated af _ (okpt d) _ o p _ Eb El). eapply OPP.de_optimize_ok; [exact C1|exact C2|exact Ed].
Qed.
Theorem search_loop_feasible d c afl Pde maxiter pretest : stage_ctx d [] c ->
  forall os lies xs, Forall (fun o => unit_stream (so_us o)) os -> search_loop d c afl Pde maxiter pretest lies os = SOk xs ->
  Forall (RP.feasible (oh_dom d)) xs /\ length xs = length os.
Proof.
  intros (Hwf & H2 & Hi & Hf). induction os as [|o os IH]; intros lies xs Hos H; cbn [search_loop] in H.
  - injection H as <-. split; [constructor|reflexivity].
  - inversion Hos as [|? ? Ho Hos']; subst. destruct pretest as [|x0 pre]; [discriminate|].
    destruct (OP.de_optimize _ _ _ _ _ _ _) as [o_de|e] eqn:Ed; [|discriminate]. cbn [lift sbind] in H.
    destruct (OP.best_location o_de) as [p|] eqn:Eb; [|discriminate].
    destruct (Nat.eqb (length p) (oh_dim d)) eqn:El; [|discriminate]. apply Nat.eqb_eq in El.
    destruct (search_loop d c afl Pde maxiter (x0 :: pre) (lies ++ [p]) os) as [rest|e] eqn:Er; [|discriminate]. cbn [sbind] in H.
    injection H as <-. destruct (IH _ _ Hos' Er) as [A B]. split; [|simpl; lia]. constructor; [|exact A].
    destruct (oh_restrict_contract d [] c (so_us o) Hwf H2 Hi Ho Hf) as [C1 C2].
    refine (best_location_evaluated (afl lies) _ (okpt d) _ o_de p _ Eb El). eapply OPP.de_optimize_ok; [exact C1|exact C2|exact Ed].
Qed.
Definition mode_ok (m : gp_mode) : Prop :=
  match m with
  | GCl _ _ os => Forall vorc_ok os
  | GQei _ _ _ us _ => unit_stream us
  | GSearch _ _ _ os => Forall (fun o => unit_stream (so_us o)) os
  end.
Theorem gp_stage_feasible D fixed c afl best n m xs : stage_ctx D fixed c -> mode_ok m ->
  gp_stage D fixed c afl best n m = SOk xs -> Forall (RP.feasible (oh_dom D)) xs /\ length xs = n.
Proof.
  intros Hctx Hm H. destruct m as [P pretest os|Pde maxiter gen us ds|Pde maxiter pretest os]; cbn [gp_stage] in H.
  - eapply cl_stage_feasible; eassumption.
  - destruct (Nat.eqb n 1) eqn:E; [|discriminate]. apply Nat.eqb_eq in E. subst n. eapply qei_stage_feasible; eassumption.
  - destruct fixed; [|discriminate]. destruct (Nat.eqb (length os) n) eqn:E; [|discriminate]. apply Nat.eqb_eq in E.
    destruct (search_loop_feasible D c afl Pde maxiter pretest Hctx os [] xs Hm H) as [A B]. split; [exact A|lia].
Qed.
(* the statement the tails ask for *)
Corollary gp_stage_relaxed_ok D fixed c afl best n m xs : stage_ctx D fixed c -> mode_ok m ->
  gp_stage D fixed c afl best n m = SOk xs -> Forall (relaxed_ok D) xs /\ length xs = n.
Proof.
  intros Hctx Hm H. destruct (gp_stage_feasible D fixed c afl best n m xs Hctx Hm H) as [A B]. split; [|exact B].
  eapply Forall_impl; [|exact A]. intros p. apply feasible_relaxed_ok.
Qed.

(* ------------------------------------------------------------------ F. the one-hot sampler (C08's samplers on D) *)
Definition unit_row (n : nat) (u : row) : Prop := length u = n /\ Forall RP.unit_interval u.
Definition HR_RUNUP_DISCARD (dim : nat) : nat := (10 * (dim + 1) + 25 * (dim + 1))%nat.
(* range contracts of the primitive draws of generate_quasi_random_points_in_domain(n) *)
Definition samp_ok (d : domain) (n : nat) (o : samp_orc) : Prop :=
  let dim := oh_dim d in
  match o with
  | SLhs U perms => SP.lhs_draws_ok n dim U /\ (forall j, (j < dim)%nat -> Permutation (seq 0 n) (nth j perms []))
  | SUnit rows => Forall (unit_row dim) rows
  | SRej blocks draws =>
      Forall (Forall (unit_row dim)) blocks /\ SP.hr_draws_ok dim draws /\
      (* hit-and-run padding, when it runs, is given one draw triple per iteration *)
      (forall pts, SA.rejection_sampling (R.halfspaces (oh_dom d)) n REJECTION_SAMPLING_BLOCK_SIZE DEFAULT_REJECTION_SAMPLING_TRIALS
                     (map (SA.cube_sampler (one_hot_box d)) blocks) = (pts, false) ->
                   (HR_RUNUP_DISCARD dim + (n - length pts) <= length draws)%nat)
  | SHit draws urows =>
      SP.hr_draws_ok dim draws /\ (HR_RUNUP_DISCARD dim + n <= length draws)%nat /\
      length urows = n /\ Forall (Forall RP.unit_interval) urows
  end.

Lemma hr_loop_shape hs runup n : forall draws it x mean pts out,
  SP.hr_draws_ok n draws -> length x = n -> length mean = n -> Forall (fun p => length p = n) pts ->
  SA.hr_loop hs runup it x mean pts draws = Some out ->
  Forall (fun p => length p = n) out /\ length out = (length pts + length draws)%nat.
Proof.
  induction draws as [|[[z u] r] draws IH]; intros it x mean pts out Hd Hx Hm Hp; simpl.
  - intros E. injection E as <-. split; [exact Hp|lia].
  - inversion Hd as [|? ? [Hz Hu] Hd']; subst. simpl in Hz, Hu.
    set (dd := if Nat.ltb it runup then z else let w := R.map2 Qminus (nth r pts []) mean in if SA.is_zero_vec w then z else w).
    assert (Hdl : length dd = length x).
    { unfold dd. destruct (Nat.ltb it runup); [lia|]. cbv zeta.
      destruct (SA.is_zero_vec (R.map2 Qminus (nth r pts []) mean)) eqn:Ez; [lia|].
      destruct (Nat.lt_ge_cases r (length pts)) as [L|L].
      - rewrite map2_len. rewrite Forall_forall in Hp. rewrite (Hp (nth r pts [])) by (apply nth_In; exact L). lia.
      - rewrite nth_overflow in Ez by exact L. simpl in Ez. discriminate. }
    destruct (SA.hr_step hs x dd u) as [x'|] eqn:Es; [|discriminate].
    assert (Hx' : length x' = length x).
    { unfold SA.hr_step in Es. destruct (SA.max_list _); [|discriminate]. destruct (SA.min_list _); [|discriminate].
      injection Es as <-. rewrite map2_len. lia. }
    intros E. apply IH in E; try assumption; try lia.
    + destruct E as [A B]. split; [exact A|]. rewrite B, app_length. simpl. lia.
    + rewrite map2_len. lia.
    + apply Forall_app. split; [exact Hp|]. constructor; [lia|constructor].
Qed.
Lemma hitandrun_shape hs dim num x0 draws out : SP.hr_draws_ok dim draws -> length x0 = dim ->
  (HR_RUNUP_DISCARD dim + num <= length draws)%nat -> SA.hitandrun hs dim num x0 draws = Some out ->
  Forall (fun p => length p = dim) out /\ length out = num.
Proof.
  intros Hd Hx Hn. unfold SA.hitandrun, HR_RUNUP_DISCARD in *.
  set (tot := (10 * (dim + 1) + 25 * (dim + 1) + num)%nat) in *.
  destruct (SA.hr_loop hs (10 * (dim + 1)) 0 x0 (repeat 0 dim) [] (firstn tot draws)) as [pts|] eqn:E; [|discriminate].
  intros E'. injection E' as <-.
  assert (Hd' : SP.hr_draws_ok dim (firstn tot draws)).
  { unfold SP.hr_draws_ok in *. apply Forall_forall. intros q Hq. rewrite Forall_forall in Hd. apply Hd. apply (SP.firstn_In _ draws _ Hq). }
  destruct (hr_loop_shape hs _ dim _ _ _ _ _ _ Hd' Hx (repeat_length 0 dim) (Forall_nil _) E) as [A B].
  simpl in B. rewrite firstn_length_le in B by (unfold tot; lia). split.
  - apply Forall_forall. intros p Hp. rewrite Forall_forall in A. apply A.
    rewrite <- (firstn_skipn (25 * (dim + 1) + 10 * (dim + 1)) pts). apply in_or_app. right. exact Hp.
  - rewrite skipn_length, B. unfold tot. lia.
Qed.

Lemma sat_halfspaces_feasible d p : length p = oh_dim d -> RP.sat_all (R.halfspaces (oh_dom d)) p -> RP.feasible (oh_dom d) p.
Proof. intros Hl Hs. apply RP.halfspaces_sat_iff; assumption. Qed.

(* overwriting the columns no constraint mentions by uniform values of their own ranges keeps the region *)
Lemma combine_transform_In (f : nat -> Q * Q) : forall idx u j v,
  In (j, v) (combine idx (SA.cube_transform (map f idx) u)) -> Forall RP.unit_interval u ->
  In j idx /\ exists ui, RP.unit_interval ui /\ v = fst (f j) + (snd (f j) - fst (f j)) * ui.
Proof.
  induction idx as [|i idx IH]; intros [|ui u] j v Hin Hu; simpl in Hin; try contradiction.
  inversion Hu; subst. destruct Hin as [E|Hin].
  - injection E as <- <-. split; [left; reflexivity|]. exists ui. split; [assumption|reflexivity].
  - destruct (IH u j v Hin H2) as [A B]. split; [right; exact A|exact B].
Qed.
Lemma overwrite_uncon_feasible d p u : wf_domain d = true -> Forall RP.unit_interval u ->
  RP.feasible (oh_dom d) p -> RP.feasible (oh_dom d) (overwrite_uncon d p u).
Proof.
  intros Hwf Hu Hp. unfold overwrite_uncon. apply RP.fixed_point_feasible; [|exact Hp].
  intros [j v] Hin. simpl.
  destruct (combine_transform_In (fun j => nth j (one_hot_box d) (0, 0)) _ _ _ _ Hin Hu) as [Hj (ui & [U0 U1] & ->)].
  unfold uncon_idx in Hj. apply filter_In in Hj as [Hj Hz]. apply in_seq in Hj.
  split; [unfold oh_dom; simpl; unfold oh_dim in Hj; lia|]. split.
  - unfold oh_dom. simpl. set (b := nth j (one_hot_box d) (0, 0)).
    assert (B : fst b <= snd b). { apply (oh_box_ordered d Hwf). apply nth_In. unfold oh_dim in Hj. lia. }
    split; nra.
  - intros c0 Hc. rewrite forallb_forall in Hz. apply Qeq_bool_iff. apply Hz. exact Hc.
Qed.
Lemma map2_In {A B C} (f : A -> B -> C) : forall a b x, In x (R.map2 f a b) -> exists p q, In p a /\ In q b /\ x = f p q.
Proof.
  induction a as [|p a IH]; intros [|q b] x H; simpl in H; try contradiction. destruct H as [<-|H].
  - exists p, q. simpl. auto.
  - destruct (IH b x H) as (p' & q' & A1 & A2 & E). exists p', q'. simpl. auto.
Qed.

Theorem oh_sample_ok d c n o rows : wf_domain d = true -> (is_constrained d = true -> RP.interior (oh_dom d) c) ->
  samp_ok d n o -> oh_sample d c n o = Some rows -> Forall (RP.feasible (oh_dom d)) rows /\ length rows = n.
Proof.
  intros Hwf Hi Hs H. unfold oh_sample in H. rewrite is_constrained_R in H. pose proof (oh_box_ordered d Hwf) as Hord.
  destruct (is_constrained d) eqn:Ec.
  - destruct (Hi eq_refl) as [Hcl Hcs]. change (length (R.bounds (oh_dom d))) with (oh_dim d) in Hcl.
    pose proof (RP.strict_sat _ _ Hcs) as Hcsat.
    destruct o as [U perms|urows|blocks draws|draws urows]; try discriminate.
    + (* rejection sampling, hit-and-run padding *)
      destruct Hs as (Hbl & Hdr & Hlen). fold (oh_dim d) in H.
      set (hs := R.halfspaces (oh_dom d)) in *. set (cand := map (SA.cube_sampler (one_hot_box d)) blocks) in *.
      destruct (SA.rejection_with_padding hs (oh_dim d) n _ _ cand c draws) as [[out ok]|] eqn:E; [|discriminate].
      simpl in H. injection H as <-. unfold SA.rejection_with_padding in E.
      assert (Hcand : forall blk p, In blk cand -> In p blk -> length p = oh_dim d).
      { intros blk p Hb Hp. unfold cand in Hb. apply in_map_iff in Hb as (ub & <- & Hub).
        rewrite Forall_forall in Hbl. specialize (Hbl ub Hub).
        pose proof (SP.cube_sampler_in_box (one_hot_box d) ub Hord Hbl) as F. rewrite Forall_forall in F.
        apply (RP.in_box_length _ _ (F p Hp)). }
      pose proof (SP.rejection_outputs_feasible hs n REJECTION_SAMPLING_BLOCK_SIZE DEFAULT_REJECTION_SAMPLING_TRIALS cand
                    (fun p => length p = oh_dim d) Hcand) as Rj. cbv zeta in Rj.
      specialize (Hlen (fst (SA.rejection_sampling hs n REJECTION_SAMPLING_BLOCK_SIZE DEFAULT_REJECTION_SAMPLING_TRIALS cand))).
      destruct (SA.rejection_sampling hs n REJECTION_SAMPLING_BLOCK_SIZE DEFAULT_REJECTION_SAMPLING_TRIALS cand) as [pts ok'] eqn:Er.
      cbn [fst snd] in *. destruct Rj as [Rf Rn].
      assert (Fp : Forall (RP.feasible (oh_dom d)) pts).
      { eapply Forall_impl; [|exact Rf]. intros p [A B]. apply sat_halfspaces_feasible; assumption. }
      assert (Hle : ok' = false -> (length pts <= n)%nat).
      { intros ->. unfold SA.rejection_sampling in Er. destruct n as [|m]; [injection Er as <-; simpl; lia|].
        pose proof (SP.rejection_loop_count hs REJECTION_SAMPLING_BLOCK_SIZE cand [] (Z.of_nat (S m)) DEFAULT_REJECTION_SAMPLING_TRIALS) as Cn.
        destruct (SA.rejection_loop hs REJECTION_SAMPLING_BLOCK_SIZE cand [] (Z.of_nat (S m)) DEFAULT_REJECTION_SAMPLING_TRIALS) as [pp lft].
        cbn [fst snd length] in Cn. destruct (Z.ltb 0 lft) eqn:El; [|discriminate]. injection Er as <-. apply Z.ltb_lt in El. lia. }
      destruct ok'; cbn [negb andb] in E.
      * injection E as <- _. split; [exact Fp|apply Rn; reflexivity].
      * destruct (Nat.ltb 0 n) eqn:En.
        -- destruct (SA.hitandrun hs (oh_dim d) (n - length pts) c draws) as [more|] eqn:Eh; [|discriminate]. injection E as <- _.
           destruct (hitandrun_shape hs (oh_dim d) _ c draws more Hdr Hcl (Hlen eq_refl) Eh) as [Sl Sn].
           pose proof (SP.hitandrun_inside hs (oh_dim d) _ c draws more Hdr Hcl Hcsat Eh) as Sin.
           split; [|rewrite app_length, Sn; specialize (Hle eq_refl); lia].
           apply Forall_app. split; [exact Fp|]. apply Forall_forall. intros p Hp. rewrite Forall_forall in Sl, Sin.
           apply sat_halfspaces_feasible; [apply Sl, Hp|apply Sin, Hp].
        -- injection E as <- _. apply Nat.ltb_ge in En. split; [exact Fp|specialize (Hle eq_refl); lia].
    + (* hit-and-run with the unconstrained columns re-drawn *)
      destruct Hs as (Hdr & Hlen & Hul & Huu). fold (oh_dim d) in H.
      destruct (SA.hitandrun (R.halfspaces (oh_dom d)) (oh_dim d) n c draws) as [pts|] eqn:Eh; [|discriminate].
      simpl in H. injection H as <-.
      destruct (hitandrun_shape _ (oh_dim d) _ c draws pts Hdr Hcl Hlen Eh) as [Sl Sn].
      pose proof (SP.hitandrun_inside _ (oh_dim d) _ c draws pts Hdr Hcl Hcsat Eh) as Sin.
      split; [|rewrite map2_len; lia].
      apply Forall_forall. intros x Hx. apply map2_In in Hx as (p & u & Hp & Hu & ->).
      rewrite Forall_forall in Sl, Sin, Huu. apply overwrite_uncon_feasible; [exact Hwf|apply Huu, Hu|].
      apply sat_halfspaces_feasible; [apply Sl, Hp|apply Sin, Hp].
  - destruct o as [U perms|urows|blocks draws|draws urows]; try discriminate.
    + injection H as <-. destruct Hs as [HU HP].
      destruct (SP.lhs_points_in_box (one_hot_box d) n U perms Hord HU HP) as [L F]. split; [|exact L].
      eapply Forall_impl; [|exact F]. intros p Hp. apply unconstrained_feasible; assumption.
    + destruct (Nat.eqb (length urows) n) eqn:El; [|discriminate]. apply Nat.eqb_eq in El. injection H as <-.
      split; [|unfold SA.cube_sampler; rewrite map_length; exact El].
      pose proof (SP.cube_sampler_in_box (one_hot_box d) urows Hord Hs) as F.
      eapply Forall_impl; [|exact F]. intros p Hp. apply unconstrained_feasible; assumption.
Qed.

(* ------------------------------------------------------------------ G. end to end: no relaxed_ok hypothesis left.
   What remains are range contracts of the primitive random draws (numpy.random.random in [0,1], shuffles are
   permutations, hit-and-run draw triples, scipy.stats priors inside their supports, numpy.random.choice returns members)
   and, on a constrained domain, a strictly interior point c of the search domain (what find_interior_point returns when
   it reports feasibility: C08_cheby_flag_gives_interior). *)
Definition quasi_prim (d : domain) (c : row) (n : Z) (so : samp_orc) (cols : list (list Q)) (dec : dorc) : Prop :=
  if is_constrained d
  then samp_ok d (Z.to_nat n) so /\ (Z.to_nat n <= length (o_cats dec))%nat
  else DP.cols_ok (Z.to_nat n) (DS.quasi_requests (ddom d)) cols.
Lemma mk_qorc_ok d c n so cols dec q : wf_domain d = true -> (is_constrained d = true -> RP.interior (oh_dom d) c) ->
  quasi_prim d c n so cols dec -> mk_qorc d c n so cols dec = Some q -> qorc_ok d n q /\ q_cols q = cols.
Proof.
  intros Hwf Hi Hq H. unfold mk_qorc, quasi_prim, qorc_ok in *. destruct (is_constrained d) eqn:Ec.
  - destruct (oh_sample d c (Z.to_nat n) so) as [rows|] eqn:Es; [|discriminate]. simpl in H. injection H as <-. cbn [q_rows q_dec q_cols].
    destruct Hq as [Hs Hl]. destruct (oh_sample_ok d c _ so rows Hwf (fun _ => Hi eq_refl) Hs Es) as [A B]. split; [|reflexivity].
    split; [|split; [exact B|rewrite B; exact Hl]]. eapply Forall_impl; [|exact A]. intros p. apply feasible_relaxed_ok.
  - injection H as <-. split; [exact Hq|reflexivity].
Qed.

(* ---- the random endpoint (also: the initialisation / random branches of the Parzen endpoints) *)
Definition random_prim (d : domain) (ps : list DS.prior) (n : Z) (pcols : list (list Q)) (c : row) (so : samp_orc)
  (cols : list (list Q)) (dec : dorc) : Prop :=
  match DS.view_path ps (is_constrained d) with
  | DS.UsePriors => length ps = length (comps d) /\ Forall prior_valid ps /\ DP.cols_ok (Z.to_nat n) (prior_reqs d ps) pcols
  | DS.UseQuasi => quasi_prim d c n so cols dec
  end.
Theorem random_endpoint_admissible d opts ps n pcols c so cols dec draws r : wf_domain d = true -> (0 <= n)%Z ->
  (is_constrained d = true -> RP.interior (oh_dom d) c) -> random_prim d ps n pcols c so cols dec ->
  (opts <> [] -> draws_ok opts (length (r_points r)) draws) ->
  random_endpoint d opts ps n pcols c so cols dec draws = Some r -> resp_ok d opts (Z.to_nat n) r.
Proof.
  intros Hwf Hn Hi Hp Hd H. unfold random_endpoint, obind in H.
  destruct (mk_qorc d c n so cols dec) as [q|] eqn:Eq; [|discriminate].
  apply (tail_random_admissible d opts ps n pcols q draws r Hwf Hn); [| |exact H].
  - unfold random_contract, random_prim in *. destruct (DS.view_path ps (is_constrained d)); [exact Hp|].
    apply (mk_qorc_ok d c n so cols dec q Hwf Hi Hp Eq).
  - intros pts Hpts Hne. unfold random_tail, obind in H. rewrite Hpts in H. injection H as <-.
    unfold with_costs in Hd. cbn [r_points] in Hd. apply Hd. exact Hne.
Qed.

(* ---- the GP endpoint *)
Definition fill_prim (D : domain) (c : row) (k : Z) (hist : list point) (f : gp_fill) : Prop :=
  if negb (is_discrete D) || is_constrained D then quasi_prim D c k (f_so f) (f_cols f) (f_dec f)
  else DP.cols_ok (Z.to_nat k) (DS.quasi_requests (ddom D)) (f_cols f) /\
       DP.oracle_ok (DS.distinct_plan (ddom D) k hist DS.default_dup_prob) (f_choice f).
Lemma fill_prim_contract D c k hist f q : wf_domain D = true -> (is_constrained D = true -> RP.interior (oh_dom D) c) ->
  fill_prim D c k hist f -> mk_qorc D c k (f_so f) (f_cols f) (f_dec f) = Some q -> fill_contract D k hist (f_choice f) q.
Proof.
  intros Hwf Hi Hf Hq. unfold fill_prim, fill_contract in *. destruct (negb (is_discrete D) || is_constrained D) eqn:E.
  - apply (mk_qorc_ok D c k _ _ _ q Hwf Hi Hf Hq).
  - apply orb_false_iff in E as [_ Ec]. unfold mk_qorc in Hq. rewrite Ec in Hq. injection Hq as <-. exact Hf.
Qed.
Lemma fixed_valid_nil D : RP.fixed_valid D [].
Proof. intros iv []. Qed.
Lemma view_assert_some d n r x : view_assert d n r = Some x -> r = Some x.
Proof. unfold view_assert, obind. destruct r as [y|]; [|discriminate]. destruct (_ || _); [intros E; exact E|discriminate]. Qed.

Theorem gp_endpoint_admissible d c afl aft best n m hist dec f r :
  wf_domain d = true -> cons_two d -> (is_constrained d = true -> RP.interior (oh_dom d) c) -> mode_ok m ->
  (n <= length (o_cats dec))%nat ->
  (forall xs pts, gp_stage d [] c afl best n m = SOk xs -> convert_from_one_hot d (is_qei m) aft dec xs = Some pts ->
     fill_prim d c (fill_k d pts hist) hist f) ->
  gp_endpoint d c afl aft best n m hist dec f = Some r -> resp_ok d [] n r.
Proof.
  intros Hwf H2 Hi Hm Hl Hf H. unfold gp_endpoint in H.
  destruct (gp_stage d [] c afl best n m) as [xs|e] eqn:Es; [|discriminate].
  destruct (gp_stage_relaxed_ok d [] c afl best n m xs (conj Hwf (conj H2 (conj Hi (fixed_valid_nil _)))) Hm Es) as [Hxs Hlen].
  unfold obind in H. destruct (convert_from_one_hot d (is_qei m) aft dec xs) as [pts|] eqn:Ec; [|discriminate].
  destruct (mk_qorc d c (fill_k d pts hist) (f_so f) (f_cols f) (f_dec f)) as [q|] eqn:Eq; [|discriminate].
  apply view_assert_some in H. rewrite <- Hlen.
  eapply (tail_gp_admissible d (is_qei m) aft xs hist []); [exact Hwf|exact Hxs| | |exact H]; cbn [g_dec g_choice g_q]; [lia|].
  intros pts' u2 Ec' Ek. rewrite Ec in Ec'. injection Ec' as <-.
  pose proof (fill_prim_contract d c _ hist f q Hwf Hi (Hf xs pts eq_refl Ec) Eq) as Fc. unfold fill_k in Fc. rewrite Ek in Fc. exact Fc.
Qed.

(* ---- the GP endpoint with task options: the search domain carries the task column, fixed at the a-priori task *)
Lemma oh_weights_len : forall cs w, length w = length cs -> length (oh_weights cs w) = length (flat_map box_of cs).
Proof.
  induction cs as [|c cs IH]; intros [|a w] Hl; simpl in Hl; try discriminate; [reflexivity|].
  destruct c as [lo hi|lo hi|es|es]; cbn [oh_weights flat_map box_of]; rewrite ?app_length, ?repeat_length; simpl; rewrite IH by lia; reflexivity.
Qed.
Lemma oh_weights_app a b : forall cs w, length w = length cs -> oh_weights (cs ++ [Double a b]) (w ++ [0]) = oh_weights cs w ++ [0].
Proof.
  induction cs as [|c cs IH]; intros [|x w] Hl; simpl in Hl; try discriminate; [reflexivity|].
  destruct c as [lo hi|lo hi|es|es]; cbn [oh_weights app]; rewrite IH by lia; try reflexivity. rewrite app_assoc. reflexivity.
Qed.
Lemma wf_weights_len d k : wf_domain d = true -> In k (cons d) -> length (weights k) = length (comps d).
Proof.
  intros Hwf Hin. unfold wf_domain in Hwf. apply andb_true_iff in Hwf as [_ Hw]. rewrite forallb_forall in Hw. specialize (Hw k Hin).
  unfold wf_constraint in Hw. apply andb_true_iff in Hw as [Hw _]. apply Nat.eqb_eq in Hw. exact Hw.
Qed.
Lemma box_with_task d opts : one_hot_box (with_task d opts) = one_hot_box d ++ [(list_min opts, list_max opts)].
Proof. unfold one_hot_box. cbn [with_task comps]. rewrite flat_map_app. reflexivity. Qed.
Lemma nnz_app0 l : R.nnz (l ++ [0]) = R.nnz l.
Proof. unfold R.nnz. rewrite filter_app, app_length. simpl. lia. Qed.
Lemma cons_two_with_task d opts : wf_domain d = true -> cons_two d -> cons_two (with_task d opts).
Proof.
  intros Hwf H2 k' Hk'. cbn [with_task cons comps] in *. apply in_map_iff in Hk' as (k & <- & Hk). cbn [weights].
  rewrite oh_weights_app by (apply wf_weights_len; assumption). rewrite nnz_app0. apply H2, Hk.
Qed.
Lemma is_constrained_with_task d opts : is_constrained (with_task d opts) = is_constrained d.
Proof. unfold is_constrained. cbn [with_task cons]. rewrite map_length. reflexivity. Qed.
Lemma task_fixed_valid d opts t : wf_domain d = true -> In t opts -> RP.fixed_valid (oh_dom (with_task d opts)) (task_fixed d t).
Proof.
  intros Hwf Ht iv [<-|[]]. cbn [fst snd]. unfold oh_dom. cbn [R.bounds R.cstrs]. rewrite box_with_task. split; [|split].
  - rewrite app_length. unfold oh_dim. simpl. lia.
  - unfold oh_dim. rewrite app_nth2 by lia. rewrite Nat.sub_diag. simpl. apply grid_range. exact Ht.
  - intros c0 Hc. unfold oh_cons in Hc. cbn [with_task cons comps] in Hc. rewrite map_map in Hc.
    apply in_map_iff in Hc as (k & <- & Hk). cbn [weights fst].
    rewrite oh_weights_app by (apply wf_weights_len; assumption).
    assert (L : length (oh_weights (comps d) (weights k)) = oh_dim d) by (apply oh_weights_len, wf_weights_len; assumption).
    rewrite app_nth2 by lia. rewrite L, Nat.sub_diag. reflexivity.
Qed.

Theorem gp_endpoint_mt_admissible d opts t ct afl aft best n P pretest os hist_oh dec hdec f r :
  wf_domain d = true -> opts <> [] -> list_min opts < list_max opts -> In t opts -> cons_two d ->
  (is_constrained d = true -> RP.interior (oh_dom (with_task d opts)) ct) -> Forall vorc_ok os ->
  (n <= length (o_cats dec))%nat ->
  (forall xs pts aug, cl_stage (with_task d opts) (task_fixed d t) ct afl best P pretest n os = SOk xs ->
     convert_from_one_hot (with_task d opts) false aft dec xs = Some pts ->
     decode_b (with_task d opts) hdec hist_oh = Some aug ->
     fill_prim (with_task d opts) ct (fill_k (with_task d opts) pts aug) aug f) ->
  gp_endpoint_mt d opts t ct afl aft best n P pretest os hist_oh dec hdec f = Some r -> resp_ok d opts n r.
Proof.
  intros Hwf Hne Hlt Ht H2 Hi Hos Hl Hf H. unfold gp_endpoint_mt in H. set (dt := with_task d opts) in *.
  pose proof (with_task_wf d opts Hwf Hlt) as Hwt.
  assert (Hit : is_constrained dt = true -> RP.interior (oh_dom dt) ct) by (unfold dt; rewrite is_constrained_with_task; exact Hi).
  destruct (cl_stage dt (task_fixed d t) ct afl best P pretest n os) as [xs|e] eqn:Es; [|discriminate].
  assert (Hctx : stage_ctx dt (task_fixed d t) ct).
  { split; [exact Hwt|]. split; [apply cons_two_with_task; assumption|]. split; [exact Hit|apply task_fixed_valid; assumption]. }
  destruct (cl_stage_feasible dt _ ct afl best P pretest n os xs Hctx Hos Es) as [Hfe Hlen].
  assert (Hxs : Forall (relaxed_ok dt) xs) by (eapply Forall_impl; [|exact Hfe]; intros p; apply feasible_relaxed_ok).
  unfold obind in H. destruct (convert_from_one_hot dt false aft dec xs) as [pts|] eqn:Ec; [|discriminate].
  destruct (decode_b dt hdec hist_oh) as [aug|] eqn:Ea; [|discriminate].
  destruct (mk_qorc dt ct (fill_k dt pts aug) (f_so f) (f_cols f) (f_dec f)) as [q|] eqn:Eq; [|discriminate].
  apply view_assert_some in H. rewrite <- Hlen.
  eapply (tail_gp_multitask_admissible d opts aft xs [] hist_oh); [exact Hwf|exact Hne|exact Hlt|exact Hxs| | |exact H];
    cbn [g_dec g_hdec g_choice g_q]; [lia|].
  intros pts' aug' u2 Ec' Ea' Ek. fold dt in Ec', Ea', Ek |- *. rewrite Ec in Ec'. injection Ec' as <-. rewrite Ea in Ea'. injection Ea' as <-.
  pose proof (fill_prim_contract dt ct _ aug f q Hwt Hit (Hf xs pts aug eq_refl Ec eq_refl) Eq) as Fc. unfold fill_k in Fc. rewrite Ek in Fc. exact Fc.
Qed.

(* ---- the Parzen-estimator endpoint *)
Lemma restrict_points_feasible d c vp on us ps : wf_domain d = true -> cons_two d ->
  (is_constrained d = true -> RP.interior (oh_dom d) c) -> Forall RP.unit_interval us ->
  Forall (fun p => length p = oh_dim d) ps ->
  Forall (RP.feasible (oh_dom d)) (fst (R.restrict_points (oh_dom d) c vp on us ps)) /\
  length (fst (R.restrict_points (oh_dom d) c vp on us ps)) = length ps.
Proof.
  intros Hwf H2 Hi Hus Hps. destruct (restrict_points_okpt d c vp on us ps Hwf H2 Hi Hus) as [_ L]. split; [|exact L].
  destruct (is_constrained d) eqn:Ec.
  - apply RP.restrict_in_domain; [apply Hi; reflexivity|exact Hps|exact Hus|apply cons_two_rows; exact H2].
  - unfold R.restrict_points. rewrite is_constrained_R, Ec. simpl. apply Forall_forall. intros q Hq.
    apply in_map_iff in Hq as (p & <- & Hp). rewrite Forall_forall in Hps. apply unconstrained_feasible; [exact Ec|].
    apply clip_long; [apply oh_box_ordered; exact Hwf|]. rewrite (Hps p Hp). unfold oh_dim. simpl. lia.
Qed.
(* the SciPy multistart result is an arbitrary list of rows of the right length: re-restricted, it is feasible *)
Theorem spe_max_location_feasible d c scipy_out us : wf_domain d = true -> cons_two d ->
  (is_constrained d = true -> RP.interior (oh_dom d) c) -> Forall RP.unit_interval us ->
  Forall (fun p => length p = oh_dim d) scipy_out -> Forall (RP.feasible (oh_dom d)) (spe_max_location d c scipy_out us).
Proof. intros Hwf H2 Hi Hus Hps. apply (restrict_points_feasible d c None false us scipy_out Hwf H2 Hi Hus Hps). Qed.

Definition near_prim (d : domain) (m : nat) (pt : row) (o : nearorc) : Prop :=
  Forall RP.unit_interval (n_us o) /\ Forall (fun z => length z = oh_dim d) (n_zs o) /\
  (R.acceptable (oh_dom d) pt = false -> samp_ok d m (n_so o)).
Lemma near_or_sample_ok d c m pt o out : wf_domain d = true -> cons_two d ->
  (is_constrained d = true -> RP.interior (oh_dom d) c) -> near_prim d m pt o ->
  near_or_sample d c m pt o = Some out -> Forall (RP.feasible (oh_dom d)) out.
Proof.
  intros Hwf H2 Hi (Hus & Hzs & Hso) H. unfold near_or_sample, R.near_point in H.
  destruct (R.acceptable (oh_dom d) pt) eqn:Ea.
  - match type of H with context [R.restrict_points ?D ?cc ?vp ?on ?uu ?pp] => destruct (R.restrict_points D cc vp on uu pp) as [o1 o2] eqn:Er end.
    injection H as <-.
    assert (Hpt : length pt = oh_dim d).
    { unfold R.acceptable in Ea. apply andb_true_iff in Ea as [Eb _]. apply RP.in_box_b_iff in Eb. apply (RP.in_box_length _ _ Eb). }
    match type of Er with R.restrict_points ?D ?cc ?vp ?on ?uu ?pp = _ =>
      destruct (restrict_points_feasible d c vp on uu pp Hwf H2 Hi Hus) as [A _] end.
    + apply Forall_forall. intros p Hp. apply in_map_iff in Hp as (z & <- & Hz). rewrite Forall_forall in Hzs. specialize (Hzs z Hz).
      rewrite !map2_len. unfold R.widths. rewrite map_length. change (length (R.bounds (oh_dom d))) with (oh_dim d). lia.
    + rewrite Er in A. exact A.
  - apply (oh_sample_ok d c m (n_so o) out Hwf Hi (Hso eq_refl) H).
Qed.
Fixpoint props_prim (d : domain) (m : nat) (lower : list row) (os : list nearorc) : Prop :=
  match lower, os with pt :: l, o :: os' => near_prim d m pt o /\ props_prim d m l os' | _, _ => True end.
Lemma proposals_ok d c m : wf_domain d = true -> cons_two d -> (is_constrained d = true -> RP.interior (oh_dom d) c) ->
  forall lower os out, props_prim d m lower os -> proposals d c m lower os = Some out -> Forall (RP.feasible (oh_dom d)) out.
Proof.
  intros Hwf H2 Hi. induction lower as [|pt lower IH]; intros os out Hp H; cbn [proposals] in H.
  - injection H as <-. constructor.
  - destruct os as [|o os]; [discriminate|]. destruct Hp as [Hn Hp].
    destruct (near_or_sample d c m pt o) as [a|] eqn:Ea; [|discriminate].
    destruct (proposals d c m lower os) as [b|] eqn:Eb; [|discriminate]. injection H as <-.
    apply Forall_app. split; [eapply near_or_sample_ok; eassumption|eapply IH; eassumption].
Qed.
Definition SPE_BSZ : nat := Z.to_nat SPE_BATCH_SIZE.
Definition spe_prim (d : domain) (c : row) (n : nat) (g : speglue) : Prop :=
  Forall (fun it => props_prim d (SPE_BSZ / length (sg_lower g) + 1) (sg_lower g) (fst (fst it))) (sg_iters g) /\
  (forall batches, spe_batches d c g = Some batches ->
     let s := fst (spe_loop n SPE_BATCH_SIZE SPE_REJECTION_SAMPLES_LIMIT batches [] 0%Z) in
     ((length s < n)%nat -> samp_ok d (n - length s) (sg_pad g)) /\
     ((n < length s)%nat -> length (sg_ix g) = n /\ Forall (fun j => (j < length s)%nat) (sg_ix g))) /\
  (n <= length (o_cats (sg_dec g)))%nat.
Lemma combine3_rows (A : list row) (B C : list Q) x : In x (map (fun t : row * Q * Q => fst (fst t)) (combine (combine A B) C)) -> In x A.
Proof.
  intros H. apply in_map_iff in H as ([[a b] c0] & <- & Hin). simpl. apply in_combine_l in Hin. apply in_combine_l in Hin. exact Hin.
Qed.
Lemma spe_batch_rows d c bsz lower os eis us b x : spe_batch d c bsz lower os eis us = Some b ->
  In x (map (fun t : row * Q * Q => fst (fst t)) b) ->
  exists pts, proposals d c (bsz / length lower + 1) lower os = Some pts /\ In x pts.
Proof.
  unfold spe_batch. destruct (proposals d c (bsz / length lower + 1) lower os) as [pts|]; [|discriminate].
  intros E Hx. injection E as <-. exists pts. split; [reflexivity|]. apply combine3_rows in Hx. apply (In_firstn bsz). exact Hx.
Qed.

Theorem spe_endpoint_admissible d opts ps path n c g r : wf_domain d = true -> (0 <= n)%Z -> cons_two d ->
  (is_constrained d = true -> RP.interior (oh_dom d) c) ->
  match path with
  | SPERandom => random_prim d ps n (sg_pcols g) c (sg_rso g) (sg_rcols g) (sg_rdec g)
  | SPEDraw => spe_prim d c (Z.to_nat n) g
  end ->
  (opts <> [] -> draws_ok opts (length (r_points r)) (sg_draws g)) ->
  spe_endpoint d opts ps path n c g = Some r -> resp_ok d opts (Z.to_nat n) r.
Proof.
  intros Hwf Hn H2 Hi Hp Hd H. destruct path; cbn [spe_endpoint] in H.
  - eapply random_endpoint_admissible; eassumption.
  - unfold obind in H. destruct (spe_batches d c g) as [batches|] eqn:Eb; [|discriminate].
    destruct Hp as (Hits & Hrest & Hcat). destruct (Hrest batches Eb) as [Hpad Hix]. clear Hrest.
    set (s := fst (spe_loop (Z.to_nat n) SPE_BATCH_SIZE SPE_REJECTION_SAMPLES_LIMIT batches [] 0%Z)) in *.
    match type of H with match ?e with _ => _ end = _ => destruct e as [pad|] eqn:Epad; [|discriminate] end.
    match type of H with spe_tail _ _ _ _ _ ?oo = _ => set (o := oo) in * end.
    apply (tail_spe_admissible d opts ps SPEDraw n o r Hwf Hn); [|intros r' Hr' Hne; rewrite H in Hr'; injection Hr' as <-; apply Hd, Hne|exact H].
    unfold spe_contract. cbn [s_batches s_pad s_ix s_dec o]. fold s. split; [|split; [|split; [|split; [exact Hix|exact Hcat]]]].
    + (* every proposed test point is feasible *)
      apply Forall_forall. intros x Hx. apply feasible_relaxed_ok. unfold batch_rows in Hx. apply in_flat_map in Hx as (b & Hb & Hx).
      unfold spe_batches, spe_batches_n in Eb. pose proof (all_some_In _ _ b Eb Hb) as Hsb. apply in_map_iff in Hsb as (it & Eit & Hit).
      rewrite Forall_forall in Hits. specialize (Hits it Hit).
      destruct (spe_batch_rows d c _ _ _ _ _ b x Eit Hx) as (pts & Ep & Hxp).
      pose proof (proposals_ok d c _ Hwf H2 Hi _ _ _ Hits Ep) as F. rewrite Forall_forall in F. apply F, Hxp.
    + destruct (Nat.ltb (length s) (Z.to_nat n)) eqn:El.
      * apply Nat.ltb_lt in El. destruct (oh_sample_ok d c _ _ pad Hwf Hi (Hpad El) Epad) as [A _].
        eapply Forall_impl; [|exact A]. intros p. apply feasible_relaxed_ok.
      * injection Epad as <-. constructor.
    + intros El. pose proof El as El'. apply Nat.ltb_lt in El'. rewrite El' in Epad.
      destruct (oh_sample_ok d c _ _ pad Hwf Hi (Hpad El) Epad) as [_ B]. lia.
Qed.

(* ---- the search endpoints *)
Theorem search_endpoint_admissible d c ph u afl aft best n m afl_pi aft_pi Pde maxiter pretest sos hist dec f r :
  wf_domain d = true -> cons_two d -> (is_constrained d = true -> RP.interior (oh_dom d) c) ->
  mode_ok m -> Forall (fun o => unit_stream (so_us o)) sos -> (n <= length (o_cats dec))%nat ->
  (forall afl' aft' m' xs pts, gp_stage d [] c afl' best n m' = SOk xs -> convert_from_one_hot d (is_qei m') aft' dec xs = Some pts ->
     fill_prim d c (fill_k d pts hist) hist f) ->
  search_endpoint d c ph u afl aft best n m afl_pi aft_pi Pde maxiter pretest sos hist dec f = Some r -> resp_ok d [] n r.
Proof.
  intros Hwf H2 Hi Hm Hs Hl Hf H.
  assert (G : exists afl' aft' m', mode_ok m' /\ gp_endpoint d c afl' aft' best n m' hist dec f = Some r).
  { unfold search_endpoint in H. destruct ph; try (exists afl, aft, m; split; assumption).
    destruct (Qltb u RESOLVE_PHASE_PROB); [exists afl_pi, aft_pi, (GSearch Pde maxiter pretest sos)|exists afl, aft, m]; split; assumption. }
  destruct G as (afl' & aft' & m' & Hm' & G). eapply gp_endpoint_admissible; try eassumption. intros xs pts. apply Hf.
Qed.
Lemma spe_search_tail_as_spe d ps ph path n o :
  spe_search_tail d [] ps ph path n o = spe_tail d [] ps (match ph with SInit => SPERandom | SExploit => path | SResolve => SPEDraw end) n o.
Proof. destruct ph; reflexivity. Qed.
Theorem spe_search_endpoint_admissible d ps ph path n c g r : wf_domain d = true -> (0 <= n)%Z -> cons_two d ->
  (is_constrained d = true -> RP.interior (oh_dom d) c) ->
  match ph, path with
  | SInit, _ | SExploit, SPERandom => random_prim d ps n (sg_pcols g) c (sg_rso g) (sg_rcols g) (sg_rdec g)
  | _, _ => spe_prim d c (Z.to_nat n) g
  end ->
  spe_search_endpoint d ps ph path n c g = Some r -> resp_ok d [] (Z.to_nat n) r.
Proof.
  intros Hwf Hn H2 Hi Hp H. unfold spe_search_endpoint in H.
  eapply spe_endpoint_admissible; try eassumption; [|intros Hne; congruence].
  destruct ph; [exact Hp|destruct path; exact Hp|destruct path; exact Hp].
Qed.

(* ------------------------------------------------------------------ non-vacuity *)
Lemma cons_twob_spec d : cons_twob d = true <-> cons_two d.
Proof.
  unfold cons_twob, cons_two. rewrite forallb_forall. split; intros H k Hk; specialize (H k Hk).
  - apply Nat.leb_le in H. exact H.
  - apply Nat.leb_le. exact H.
Qed.
(* the triangle-like region  x + y <= 3  in [0,2]^2 with a two-valued categorical: relaxed dimension 4 *)
Definition cx_dom : domain :=
  {| comps := [Double 0 2; Double 0 2; Cat [1; 2]%Z];
     cons := [{| weights := [-(1); -(1); 0]; rhs := -(3); cty := CDouble |}] |}.
Definition cx_c : row := [1#2; 1#2; 1#2; 1#2].
Definition cx_so : samp_orc := SRej [[[1; 1; 0; 1]; [1#2; 1#4; 1; 0]; [1#4; 1#2; 0; 1#2]]] [].
Definition cx_dec : dorc := {| o_rnds := []; o_perms := []; o_cats := [[1%Z]; [2%Z]] |}.
(* the acquisition function after `lies` lies: x + y - |lies| * (first one-hot coordinate), undefined (NaN) where y > 3/2;
   cx_aft: the total function the neighbour search of the tail is given *)
Definition cx_af (lies : list row) (p : row) : option Q :=
  if Qltb (3#2) (nth 1 p 0) then None else Some (Qred (nth 0 p 0 + nth 1 p 0 - inject_Z (Z.of_nat (length lies)) * nth 2 p 0)).
Definition cx_aft (p : row) : Q := Qred (nth 0 p 0 + nth 1 p 0).
Definition cx_P : vpar := {| p_de := OP.mkde 3 4 true (1#2) 1; p_es_maxiter := 1; p_gd_n := 4; p_gd_maxiter := 2 |}.
Definition cx_vorc : vorc :=
  {| v_gen_es := fun k => repeat cx_c k; v_gen_gd := fun k => repeat cx_c k;
     v_us_es := fun _ => [1#2; 1#2; 1#2]; v_us_gd := fun _ => [1#2; 1#2; 1#2; 1#2];
     v_ds := [([(0, 1, 0); (1, 0, 0); (0, 1, 1)]%nat, [[0; 0; 0; 0]; [0; 0; 0; 0]; [0; 0; 0; 0]])];
     v_zs := [[1#4; -(1#4); 0; 0]]; v_us_near := [1#2]; v_fallback := [];
     v_choice := [0%nat; 2%nat];
     v_ups := [[[1; 1; 0; 0]; [1#4; 1#4; 0; 0]; [0; 0; 1; 0]; [-(1); 0; 0; 0]]] |}.
Definition cx_pretest : list row := [[1; 1#2; 0; 1]; [3#2; 1; 1; 0]].
Definition cx_mode : gp_mode := GCl cx_P cx_pretest [cx_vorc; cx_vorc].
Definition cx_fill : gp_fill :=
  {| f_so := SRej [[[1; 1; 1; 0]; [1#8; 1#4; 0; 1]]] []; f_cols := [];
     f_dec := {| o_rnds := []; o_perms := []; o_cats := [[2%Z]] |}; f_choice := [] |}.
Definition cx_hist : list point := [[7#4; 5#4; 1]].

Lemma cx_interior : RP.interior (oh_dom cx_dom) cx_c.
Proof.
  split; [reflexivity|]. intros h Hin. cbv in Hin.
  repeat (destruct Hin as [<-|Hin]; [cbv; reflexivity|]). destruct Hin.
Qed.
Lemma unit_half_stream l : Forall (fun u => u = (1#2)) l -> Forall RP.unit_interval l.
Proof. intros H. eapply Forall_impl; [|exact H]. intros u ->. unfold RP.unit_interval. lra. Qed.
Lemma cx_mode_ok : mode_ok cx_mode.
Proof.
  cbn [mode_ok cx_mode]. assert (V : vorc_ok cx_vorc).
  { split; intros k; apply unit_half_stream; repeat constructor. }
  constructor; [exact V|constructor; [exact V|constructor]].
Qed.
Lemma unit_row_intro n (u : row) : length u = n -> forallb (fun x => Qle_bool 0 x && Qle_bool x 1) u = true -> unit_row n u.
Proof.
  intros Hl Hb. split; [exact Hl|]. rewrite forallb_forall in Hb. apply Forall_forall. intros x Hx.
  specialize (Hb x Hx). apply andb_true_iff in Hb as [A B]. apply Qle_bool_iff in A. apply Qle_bool_iff in B. split; assumption.
Qed.
Definition unit_rowb (n : nat) (u : row) : bool := Nat.eqb (length u) n && forallb (fun x => Qle_bool 0 x && Qle_bool x 1) u.
Lemma blocks_intro n blocks : forallb (forallb (unit_rowb n)) blocks = true -> Forall (Forall (unit_row n)) blocks.
Proof.
  intros H. rewrite forallb_forall in H. apply Forall_forall. intros b Hb. specialize (H b Hb). rewrite forallb_forall in H.
  apply Forall_forall. intros u Hu. specialize (H u Hu). unfold unit_rowb in H. apply andb_true_iff in H as [A B].
  apply Nat.eqb_eq in A. apply unit_row_intro; assumption.
Qed.
Lemma cx_samp_ok : samp_ok cx_dom 2 cx_so.
Proof.
  cbn [samp_ok cx_so]. split; [|split; [constructor|]].
  - apply blocks_intro. reflexivity.
  - intros pts E. vm_compute in E. discriminate.
Qed.
Lemma cx_fill_prim : fill_prim cx_dom cx_c 1 cx_hist cx_fill.
Proof.
  unfold fill_prim. change (negb (is_discrete cx_dom) || is_constrained cx_dom) with true. cbv iota.
  unfold quasi_prim. change (is_constrained cx_dom) with true. cbv iota. split; [|simpl; lia].
  cbn [samp_ok cx_fill f_so]. split; [|split; [constructor|]].
  - apply blocks_intro. reflexivity.
  - intros pts E. vm_compute in E. discriminate.
Qed.
(* the random endpoint on the constrained domain: rejection sampling keeps two of three candidates *)
Example random_endpoint_example :
  wf_domain cx_dom = true /\ RP.interior (oh_dom cx_dom) cx_c /\ random_prim cx_dom [] 2 [] cx_c cx_so [] cx_dec /\
  random_endpoint cx_dom [] [] 2 [] cx_c cx_so [] cx_dec [] = Some {| r_points := [[2#2; 2#4; 1]; [2#4; 2#2; 2]]; r_costs := None |}.
Proof.
  split; [reflexivity|]. split; [exact cx_interior|]. split.
  - unfold random_prim. change (DS.view_path [] (is_constrained cx_dom)) with DS.UseQuasi. cbv iota.
    unfold quasi_prim. change (is_constrained cx_dom) with true. cbv iota. split; [exact cx_samp_ok|simpl; lia].
  - vm_compute. reflexivity.
Qed.
(* the GP endpoint: two constant-liar rounds (DE generation, near-best + random ES starts, one Adam step); the first
   suggestion lands on the face x + y = 3 through the constrained restriction, duplicates the history and is replaced
   by a fresh point of the rejection sampler *)
Example gp_endpoint_example :
  wf_domain cx_dom = true /\ cons_two cx_dom /\ RP.interior (oh_dom cx_dom) cx_c /\ mode_ok cx_mode /\
  gp_stage cx_dom [] cx_c cx_af (fun _ => [1; 1; 1; 0]) 2 cx_mode = SOk [[7#4; 5#4; 1; 0]; [3#2; 1; 1#4; 3#4]] /\
  fill_prim cx_dom cx_c 1 cx_hist cx_fill /\
  gp_endpoint cx_dom cx_c cx_af cx_aft (fun _ => [1; 1; 1; 0]) 2 cx_mode cx_hist cx_dec cx_fill
  = Some {| r_points := [[3#2; 1; 2]; [2#8; 2#4; 2]]; r_costs := None |} /\
  (* an acquisition function without any value: numpy.nanargmax raises ValueError, an error value of the stage *)
  gp_stage cx_dom [] cx_c (fun _ _ => None) (fun _ => [1; 1; 1; 0]) 2 cx_mode = SErr (SOpt OP.ValueError).
Proof.
  split; [reflexivity|]. split; [apply cons_twob_spec; reflexivity|]. split; [exact cx_interior|]. split; [exact cx_mode_ok|].
  split; [vm_compute; reflexivity|]. split; [exact cx_fill_prim|]. split; vm_compute; reflexivity.
Qed.
