(* C09: one-hot encoding, rounding, decoding and snapping of mixed parameters. *)
From Coq Require Import List QArith ZArith Bool Arith Qround Qabs SetoidList Lia Lra Psatz.
From LV Require Import Model.Domain Model.Decode Proofs.Domain.
Import ListNotations.
Open Scope Q_scope.

(* ------------------------------------------------------------------ round half to even *)
Lemma floor_bounds x : inject_Z (Qfloor x) <= x /\ x < inject_Z (Qfloor x + 1).
Proof. split; [apply Qfloor_le | apply Qlt_floor]. Qed.

Lemma round_near x : Qabs (x - inject_Z (round_half_even x)) <= 1#2.
Proof.
  unfold round_half_even. destruct (floor_bounds x) as [H1 H2].
  rewrite inject_Z_plus in H2. change (inject_Z 1) with 1 in H2.
  destruct (Qcompare (x - inject_Z (Qfloor x)) (1#2)) eqn:Hc.
  - apply Qeq_alt in Hc. destruct (Z.even (Qfloor x)).
    + apply Qabs_Qle_condition; split; lra.
    + rewrite inject_Z_plus. change (inject_Z 1) with 1. apply Qabs_Qle_condition; split; lra.
  - apply Qlt_alt in Hc. apply Qabs_Qle_condition; split; lra.
  - apply Qgt_alt in Hc. rewrite inject_Z_plus. change (inject_Z 1) with 1. apply Qabs_Qle_condition; split; lra.
Qed.

Lemma round_in_range x (lo hi : Z) :
  inject_Z lo <= x -> x <= inject_Z hi -> (lo <= round_half_even x <= hi)%Z.
Proof.
  intros Hlo Hhi. destruct (floor_bounds x) as [H1 H2].
  assert (Hf1 : (lo <= Qfloor x)%Z). { pose proof (Qfloor_resp_le _ _ Hlo) as H. rewrite Qfloor_Z in H. exact H. }
  assert (Hf2 : (Qfloor x <= hi)%Z). { pose proof (Qfloor_resp_le _ _ Hhi) as H. rewrite Qfloor_Z in H. exact H. }
  unfold round_half_even.
  destruct (Z.eq_dec (Qfloor x) hi) as [He|Hne].
  - assert (Hx : x - inject_Z (Qfloor x) == 0). { rewrite He in H1 |- *. lra. }
    assert (Hc : Qcompare (x - inject_Z (Qfloor x)) (1#2) = Lt). { apply (proj1 (Qlt_alt _ _)). lra. }
    rewrite Hc. lia.
  - destruct (Qcompare (x - inject_Z (Qfloor x)) (1#2)); try destruct (Z.even (Qfloor x)); lia.
Qed.

(* an integer is left where it is *)
Lemma round_of_int x z : x == inject_Z z -> round_half_even x = z.
Proof.
  intros H. unfold round_half_even. rewrite (Qfloor_of_int _ _ H).
  assert (Hc : Qcompare (x - inject_Z z) (1#2) = Lt). { apply (proj1 (Qlt_alt _ _)). lra. }
  rewrite Hc. reflexivity.
Qed.

(* ------------------------------------------------------------------ nearest element (first minimum of the distances) *)
Lemma nearest_from_spec x : forall l best,
  (nearest_from x best l = best \/ In (nearest_from x best l) l) /\
  Qabs (x - nearest_from x best l) <= Qabs (x - best) /\
  (forall e, In e l -> Qabs (x - nearest_from x best l) <= Qabs (x - e)).
Proof.
  induction l as [|e r IH]; intros best; cbn [nearest_from].
  - split; [left; reflexivity|split; [apply Qle_refl|intros e []]].
  - destruct (Qltb (Qabs (x - e)) (Qabs (x - best))) eqn:E.
    + apply Qltb_lt in E. destruct (IH e) as (A & B & Cc). split; [|split].
      * destruct A as [A|A]; [right; left; symmetry; exact A|right; right; exact A].
      * lra.
      * intros e' [<-|Hin]; [exact B|apply Cc; exact Hin].
    + apply Qltb_ge in E. destruct (IH best) as (A & B & Cc). split; [|split].
      * destruct A as [A|A]; [left; exact A|right; right; exact A].
      * exact B.
      * intros e' [<-|Hin]; [lra|apply Cc; exact Hin].
Qed.

Lemma nearest_In x es : es <> [] -> In (nearest x es) es.
Proof.
  destruct es as [|e r]; [congruence|intros _]. simpl.
  destruct (nearest_from_spec x r e) as ([A|A] & _); [left; symmetry; exact A|right; exact A].
Qed.
Lemma nearest_min x es e : In e es -> Qabs (x - nearest x es) <= Qabs (x - e).
Proof.
  destruct es as [|e0 r]; [intros []|]. simpl. destruct (nearest_from_spec x r e0) as (_ & B & Cc).
  intros [<-|Hin]; [exact B|apply Cc; exact Hin].
Qed.
(* a value that is itself an element is kept (up to Qeq) *)
Lemma nearest_fix x es e : In e es -> x == e -> nearest x es == x.
Proof.
  intros Hin He. pose proof (nearest_min x es e Hin) as H.
  assert (H0 : Qabs (x - e) == 0). { rewrite He. setoid_replace (e - e) with 0 by ring. reflexivity. }
  rewrite H0 in H. pose proof (Qabs_nonneg (x - nearest x es)) as Hn.
  assert (Hz : Qabs (x - nearest x es) <= 0) by lra.
  apply Qabs_Qle_condition in Hz. destruct Hz as [Hz1 Hz2]. lra.
Qed.

(* ------------------------------------------------------------------ arg-max (first maximum) *)
Lemma argmax_from_spec : forall l best bi i, (bi < i)%nat ->
  let k := argmax_from best bi i l in
  (k = bi \/ (i <= k < i + length l)%nat) /\
  let v := if Nat.eqb k bi then best else nth (k - i) l 0 in
  best <= v /\ (forall j, (j < length l)%nat -> nth j l 0 <= v) /\
  (k <> bi -> best < v) /\ (forall j, (i + j < k)%nat -> (j < length l)%nat -> nth j l 0 < v).
Proof.
  induction l as [|x r IH]; intros best bi i Hbi; simpl.
  - rewrite Nat.eqb_refl. split; [left; reflexivity|]. split; [apply Qle_refl|]. split; [intros j Hj; lia|]. split; [congruence|intros j Hj; lia].
  - destruct (Qltb best x) eqn:E.
    + apply Qltb_lt in E. destruct (IH x i (S i) (Nat.lt_succ_diag_r i)) as (A & B). cbv zeta in B.
      set (k := argmax_from x i (S i) r) in *. split; [right; lia|].
      assert (Hkb : Nat.eqb k bi = false) by (apply Nat.eqb_neq; lia). rewrite Hkb.
      destruct (Nat.eqb k i) eqn:Ek.
      * apply Nat.eqb_eq in Ek. rewrite Ek, Nat.sub_diag. simpl. destruct B as (B1 & B2 & B3 & B4).
        split; [lra|]. split; [intros [|j] Hj; [apply Qle_refl|apply B2; lia]|]. split; [intros _; exact E|].
        intros j Hj; lia.
      * apply Nat.eqb_neq in Ek. destruct B as (B1 & B2 & B3 & B4).
        replace (k - i)%nat with (S (k - S i)) by lia. simpl.
        split; [lra|]. split; [intros [|j] Hj; [exact B1|apply B2; lia]|]. split; [intros _; specialize (B3 Ek); lra|].
        intros [|j] Hj Hl; [apply B3; exact Ek|apply B4; lia].
    + apply Qltb_ge in E. destruct (IH best bi (S i) (Nat.lt_lt_succ_r _ _ Hbi)) as (A & B). cbv zeta in B.
      set (k := argmax_from best bi (S i) r) in *. split; [destruct A; [left; assumption|right; lia]|].
      destruct (Nat.eqb k bi) eqn:Ek.
      * destruct B as (B1 & B2 & B3 & B4). split; [apply Qle_refl|]. split; [intros [|j] Hj; [exact E|apply B2; lia]|].
        split; [apply Nat.eqb_eq in Ek; congruence|]. apply Nat.eqb_eq in Ek. intros j Hj; lia.
      * apply Nat.eqb_neq in Ek. destruct A as [A|A]; [congruence|]. destruct B as (B1 & B2 & B3 & B4).
        replace (k - i)%nat with (S (k - S i)) by lia. simpl.
        split; [exact B1|]. split; [intros [|j] Hj; [lra|apply B2; lia]|]. split; [intros _; apply B3; exact Ek|].
        intros [|j] Hj Hl; [specialize (B3 Ek); lra|apply B4; lia].
Qed.

(* numpy.argmax: in range, a maximum, and the first one *)
Lemma argmax_spec l : l <> [] ->
  (argmax l < length l)%nat /\ (forall j, (j < length l)%nat -> nth j l 0 <= nth (argmax l) l 0) /\
  (forall j, (j < argmax l)%nat -> nth j l 0 < nth (argmax l) l 0).
Proof.
  destruct l as [|x r]; [congruence|intros _]. unfold argmax.
  destruct (argmax_from_spec r x O 1%nat Nat.lt_0_1) as (A & B). cbv zeta in B.
  set (k := argmax_from x 0 1 r) in *. simpl length. destruct (Nat.eqb k 0) eqn:Ek.
  - apply Nat.eqb_eq in Ek. rewrite Ek. simpl. destruct B as (B1 & B2 & B3 & B4).
    split; [lia|]. split; [intros [|j] Hj; [apply Qle_refl|apply B2; lia]|intros j Hj; lia].
  - apply Nat.eqb_neq in Ek. destruct A as [A|A]; [congruence|]. destruct B as (B1 & B2 & B3 & B4).
    remember (k - 1)%nat as m eqn:Hm. assert (Hk : k = S m) by lia. clearbody k. subst k. simpl nth. split; [lia|].
    split; [intros [|j] Hj; [exact B1|apply B2; lia]|].
    intros [|j] Hj; [apply B3; exact Ek|apply B4; simpl in *; lia].
Qed.

(* conversely: the first position holding a maximum is what argmax returns *)
Lemma argmax_unique l k : (k < length l)%nat -> (forall j, (j < length l)%nat -> nth j l 0 <= nth k l 0) ->
  (forall j, (j < k)%nat -> nth j l 0 < nth k l 0) -> argmax l = k.
Proof.
  intros Hk Hmax Hfirst. assert (Hne : l <> []) by (destruct l; simpl in *; [lia|congruence]).
  destruct (argmax_spec l Hne) as (A & B & Cc).
  destruct (Nat.lt_trichotomy (argmax l) k) as [H|[H|H]]; [|exact H|].
  - specialize (Hfirst _ H). specialize (B k Hk). lra.
  - specialize (Cc _ H). specialize (Hmax _ A). lra.
Qed.
(* ------------------------------------------------------------------ what a decoded configuration looks like *)
(* coordinate by coordinate: doubles unchanged, ints moved to a nearest integer (the half-even one), grid values to a
   nearest element, each categorical to one of its elements; the relaxed point has exactly the one-hot length *)
Fixpoint decoded (cs : list component) (x : row) (q : point) : Prop :=
  match cs, q with
  | [], [] => x = []
  | Double _ _ :: r, o :: q' => exists v t, x = v :: t /\ o = v /\ decoded r t q'
  | Int _ _ :: r, o :: q' =>
      exists v t, x = v :: t /\ o = inject_Z (round_half_even v) /\ Qabs (v - o) <= 1#2 /\ decoded r t q'
  | Grid es :: r, o :: q' =>
      exists v t, x = v :: t /\ o = nearest v es /\ In o es /\ (forall e, In e es -> Qabs (v - o) <= Qabs (v - e)) /\ decoded r t q'
  | Cat es :: r, o :: q' =>
      exists z, In z es /\ o = inject_Z z /\ (length es <= length x)%nat /\ decoded r (skipn (length es) x) q'
  | _, _ => False
  end.

Definition choose_member {O} (choose : O -> row -> list Z -> option Z) : Prop :=
  forall o vals es c, choose o vals es = Some c -> In c es.

Lemma wf_grid_nonempty es : wf_component (Grid es) = true -> es <> [].
Proof. simpl. destruct es; [discriminate|congruence]. Qed.

Lemma decode_gen_decoded {O} (choose : O -> row -> list Z -> option Z) : choose_member choose ->
  forall cs, Forall (fun c => wf_component c = true) cs ->
  forall os x q, decode_gen choose cs os x = Some q -> decoded cs x q.
Proof.
  intros Hch cs Hwf. induction Hwf as [|c r Hc Hr IH]; intros os x q H.
  - simpl in H. destruct x; [|discriminate]. injection H as <-. reflexivity.
  - destruct c as [lo hi|lo hi|es|es].
    + cbn [decode_gen] in H. destruct x as [|v t]; [discriminate|].
      destruct (decode_gen choose r os t) as [q'|] eqn:E; [|discriminate]. injection H as <-.
      simpl. exists v, t. repeat split. eapply IH; exact E.
    + cbn [decode_gen] in H. destruct x as [|v t]; [discriminate|].
      destruct (decode_gen choose r os t) as [q'|] eqn:E; [|discriminate]. injection H as <-.
      cbn [decoded]. exists v, t. split; [reflexivity|]. split; [reflexivity|]. split; [apply round_near|]. eapply IH; exact E.
    + cbn [decode_gen] in H. destruct (Nat.ltb (length x) (length es)) eqn:El; [discriminate|]. apply Nat.ltb_ge in El.
      destruct os as [|o os']; [discriminate|].
      destruct (choose o (firstn (length es) x) es) as [z|] eqn:Ec; [|discriminate].
      destruct (decode_gen choose r os' (skipn (length es) x)) as [q'|] eqn:E; [|discriminate]. injection H as <-.
      cbn [decoded]. exists z. split; [eapply Hch; exact Ec|]. split; [reflexivity|]. split; [exact El|]. eapply IH; exact E.
    + cbn [decode_gen] in H. destruct x as [|v t]; [discriminate|].
      destruct (decode_gen choose r os t) as [q'|] eqn:E; [|discriminate]. injection H as <-.
      cbn [decoded]. exists v, t. split; [reflexivity|]. split; [reflexivity|].
      split; [apply nearest_In; apply wf_grid_nonempty; exact Hc|]. split; [intros e He; apply nearest_min; exact He|].
      eapply IH; exact E.
Qed.

Lemma Forall2_len {A B} (P : A -> B -> Prop) l m : Forall2 P l m -> length l = length m.
Proof. induction 1; simpl; congruence. Qed.

Lemma Forall2_app_skipn {A B} (P : A -> B -> Prop) l1 l2 x :
  Forall2 P (l1 ++ l2) x -> (length l1 <= length x)%nat /\ Forall2 P l2 (skipn (length l1) x).
Proof.
  intros H. apply Forall2_app_inv_l in H. destruct H as (x1 & x2 & H1 & H2 & ->).
  pose proof (Forall2_len _ _ _ H1) as Hl. rewrite app_length. split; [lia|].
  rewrite Hl, skipn_app, skipn_all, Nat.sub_diag. simpl. exact H2.
Qed.

(* a decoded point of the relaxed box lies in every component *)
Lemma decoded_in_components : forall cs x q, decoded cs x q -> in_box (flat_map box_of cs) x -> Forall2 in_component cs q.
Proof.
  induction cs as [|c r IH]; intros x q H Hb; destruct q as [|o q']; simpl in H; try contradiction.
  - constructor.
  - destruct c; contradiction.
  - destruct c as [lo hi|lo hi|es|es].
    + destruct H as (v & t & -> & -> & H). simpl in Hb. inversion Hb as [|? ? ? ? Hv Ht]; subst. simpl in Hv.
      constructor; [exact Hv|eapply IH; eassumption].
    + destruct H as (v & t & -> & -> & Hn & H). simpl in Hb. inversion Hb as [|? ? ? ? Hv Ht]; subst. simpl in Hv.
      constructor; [|eapply IH; eassumption]. exists (round_half_even v). split; [reflexivity|]. apply round_in_range; tauto.
    + destruct H as (z & Hz & -> & Hl & H). cbn [flat_map box_of] in Hb.
      apply Forall2_app_skipn in Hb. rewrite repeat_length in Hb. destruct Hb as [_ Hb].
      constructor; [exists z; split; [exact Hz|reflexivity]|eapply IH; eassumption].
    + destruct H as (v & t & -> & Ho & Hin & Hm & H). simpl in Hb. inversion Hb as [|? ? ? ? Hv Ht]; subst.
      constructor; [exists (nearest v es); split; [exact Hin|reflexivity]|eapply IH; eassumption].
Qed.

(* ------------------------------------------------------------------ constraints carried through the decode *)
Lemma dot_repeat0 : forall n a x, (n <= length x)%nat -> dot (repeat 0 n ++ a) x == dot a (skipn n x).
Proof.
  induction n as [|n IH]; intros a x Hl; simpl; [reflexivity|].
  destruct x as [|v t]; [simpl in Hl; lia|]. simpl in Hl. rewrite IH by lia. simpl. ring.
Qed.

(* a constraint whose non-zero weights sit on components whose value the decode did not move *)
Fixpoint unmoved (t : ctype) (cs : list component) (w : list Q) (x : row) : Prop :=
  match cs, w with
  | Cat es :: r, _ :: w' => unmoved t r w' (skipn (length es) x)
  | Int _ _ :: r, a :: w' => (a == 0 \/ exists z, hd 0 x == inject_Z z) /\ unmoved t r w' (tl x)
  | _ :: r, _ :: w' => unmoved t r w' (tl x)
  | _, _ => True
  end.

Lemma dot_decoded t : forall cs w x q, decoded cs x q -> forall2b (weight_ok t) w cs = true -> unmoved t cs w x ->
  dot w q == dot (oh_weights cs w) x.
Proof.
  induction cs as [|c r IH]; intros w x q H Hw Hu; destruct q as [|o q']; simpl in H; try contradiction.
  - destruct w; reflexivity.
  - destruct c; contradiction.
  - destruct w as [|a w']; [simpl in Hw; discriminate|]. cbn [forall2b] in Hw. apply andb_true_iff in Hw. destruct Hw as [Ha Hw].
    destruct c as [lo hi|lo hi|es|es].
    + destruct H as (v & tl_ & -> & -> & H). cbn [oh_weights dot]. simpl in Hu. rewrite (IH w' tl_ q' H Hw Hu). reflexivity.
    + destruct H as (v & tl_ & -> & -> & Hn & H). cbn [oh_weights dot]. simpl in Hu. destruct Hu as [Hz Hu].
      rewrite (IH w' tl_ q' H Hw Hu). destruct Hz as [Hz|[z Hz]].
      * rewrite Hz. ring.
      * simpl in Hz. rewrite (round_of_int _ _ Hz), <- Hz. reflexivity.
    + destruct H as (z & Hz & -> & Hl & H). cbn [oh_weights dot]. simpl in Hu.
      rewrite dot_repeat0 by exact Hl. rewrite <- (IH w' _ q' H Hw Hu).
      unfold weight_ok in Ha. rewrite orb_true_iff in Ha. destruct Ha as [Ha|Ha]; [|destruct t; discriminate].
      apply Qeq_bool_iff in Ha. rewrite Ha. ring.
    + destruct H as (v & tl_ & -> & Ho & Hin & Hm & H). cbn [oh_weights dot]. simpl in Hu. rewrite <- (IH w' tl_ q' H Hw Hu).
      unfold weight_ok in Ha. rewrite orb_true_iff in Ha. destruct Ha as [Ha|Ha]; [|destruct t; discriminate].
      apply Qeq_bool_iff in Ha. rewrite Ha. ring.
Qed.
Lemma unmoved_double : forall cs w x, forall2b (weight_ok CDouble) w cs = true -> unmoved CDouble cs w x.
Proof.
  induction cs as [|c r IH]; intros w x Hw; [destruct w; exact I|].
  destruct w as [|a w']; [simpl in Hw; discriminate|]. cbn [forall2b] in Hw. apply andb_true_iff in Hw. destruct Hw as [Ha Hw].
  destruct c; simpl; try (apply IH; exact Hw).
  split; [|apply IH; exact Hw]. left. unfold weight_ok in Ha. rewrite orb_true_iff in Ha. destruct Ha as [Ha|Ha]; [|discriminate].
  apply Qeq_bool_iff. exact Ha.
Qed.

Lemma wf_domain_comps d : wf_domain d = true -> Forall (fun c => wf_component c = true) (comps d).
Proof. unfold wf_domain. rewrite andb_true_iff, forallb_forall. intros [H _]. apply Forall_forall. exact H. Qed.
Lemma wf_domain_cons d k : wf_domain d = true -> In k (cons d) -> forall2b (weight_ok (cty k)) (weights k) (comps d) = true.
Proof.
  unfold wf_domain. rewrite andb_true_iff, !forallb_forall. intros [_ H] Hk. specialize (H k Hk).
  unfold wf_constraint in H. apply andb_true_iff in H. tauto.
Qed.

(* the general row statement: a relaxed point of the box that satisfies every constraint (in its one-hot form) and is
   integral wherever an int constraint looks decodes to an admissible configuration, coordinate by coordinate as `decoded` says *)
Theorem decode_row_admissible_gen {O} (choose : O -> row -> list Z -> option Z) d os x q :
  choose_member choose -> wf_domain d = true -> in_box (one_hot_box d) x ->
  (forall k, In k (cons d) -> rhs k <= dot (oh_weights (comps d) (weights k)) x) ->
  (forall k, In k (cons d) -> unmoved (cty k) (comps d) (weights k) x) ->
  decode_gen choose (comps d) os x = Some q -> Admissible d q /\ decoded (comps d) x q.
Proof.
  intros Hch Hwf Hb Hsat Hun H.
  pose proof (decode_gen_decoded choose Hch (comps d) (wf_domain_comps d Hwf) os x q H) as Hd.
  split; [|exact Hd]. split; [eapply decoded_in_components; eassumption|].
  apply Forall_forall. intros k Hk.
  rewrite (dot_decoded (cty k) (comps d) (weights k) x q Hd (wf_domain_cons d k Hwf Hk) (Hun k Hk)). apply Hsat. exact Hk.
Qed.

Lemma not_int_constrained d : is_int_constrained d = false -> forall k, In k (cons d) -> cty k = CDouble /\ In k (dbl_cons d).
Proof.
  unfold is_int_constrained. rewrite negb_false_iff, Nat.eqb_eq. intros H k Hk.
  destruct (cty k) eqn:E.
  - split; [reflexivity|]. unfold dbl_cons. apply filter_In. rewrite E. auto.
  - exfalso. assert (Hi : In k (int_cons d)) by (unfold int_cons; apply filter_In; rewrite E; auto).
    destruct (int_cons d); [exact Hi|discriminate].
Qed.

(* C09_decode_admissible for domains without int constraints (the decode of one row, any way of choosing the category that
   returns a member, in particular any temperature and any uniform draw) *)
Theorem decode_row_admissible {O} (choose : O -> row -> list Z -> option Z) d os x q :
  choose_member choose -> wf_domain d = true -> is_int_constrained d = false ->
  in_box (one_hot_box d) x -> sat_double_cons d x ->
  decode_gen choose (comps d) os x = Some q -> Admissible d q /\ decoded (comps d) x q.
Proof.
  intros Hch Hwf Hic Hb Hsat H. eapply decode_row_admissible_gen; try eassumption.
  - intros k Hk. destruct (not_int_constrained d Hic k Hk) as [_ Hd]. unfold sat_double_cons in Hsat.
    rewrite Forall_forall in Hsat. apply Hsat. exact Hd.
  - intros k Hk. destruct (not_int_constrained d Hic k Hk) as [Ht _]. rewrite Ht. apply unmoved_double.
    rewrite <- Ht. apply wf_domain_cons; assumption.
Qed.

Lemma choose_given_member : choose_member choose_given.
Proof.
  intros o vals es c. unfold choose_given. destruct (existsb (Z.eqb o) es) eqn:E; [|discriminate].
  intros H. injection H as <-. apply existsb_exists in E. destruct E as (z & Hz & Ez). apply Z.eqb_eq in Ez. subst. exact Hz.
Qed.
Lemma choose_argmax_member : choose_member choose_argmax.
Proof. intros o vals es c H. unfold choose_argmax in H. eapply nth_error_In; exact H. Qed.
Lemma choose_draw_member powf T : choose_member (choose_draw powf T).
Proof.
  intros u vals es c. unfold choose_draw. destruct (draw_ix u 0 (rel_probs powf T vals) 0); [|discriminate].
  intros H. eapply nth_error_In; exact H.
Qed.
(* ------------------------------------------------------------------ task snapping *)
Theorem snap_tasks_nearest costs options : options <> [] ->
  Forall2 (fun c o => In o options /\ forall e, In e options -> Qabs (c - o) <= Qabs (c - e)) costs (snap_tasks costs options).
Proof.
  intros Hne. unfold snap_tasks. induction costs as [|c r IH]; simpl; constructor; [|exact IH].
  split; [apply nearest_In; exact Hne|intros e He; apply nearest_min; exact He].
Qed.

(* ------------------------------------------------------------------ length scales *)
Lemma firstn_app_len {A} (a b : list A) n : length a = n -> firstn n (a ++ b) = a.
Proof. intros <-. rewrite firstn_app, Nat.sub_diag, firstn_all. simpl. apply app_nil_r. Qed.
Lemma skipn_app_len {A} (a b : list A) n : length a = n -> skipn n (a ++ b) = b.
Proof. intros <-. rewrite skipn_app, Nat.sub_diag, skipn_all. reflexivity. Qed.

Definition no_none (l : list (option Q)) : bool := negb (existsb (fun o => match o with None => true | Some _ => false end) l).
(* per-parameter length scales (one per scalar parameter, one per category) survive categorical -> one-hot -> categorical *)
Theorem length_scales_roundtrip : forall cs ls,
  Forall2 (fun c l => length l = width c /\ no_none l = true) cs ls ->
  ls_to_categorical cs (ls_to_one_hot cs ls) = ls.
Proof.
  intros cs ls H. induction H as [|c l cs' ls' [Hl Hn] _ IH]; [reflexivity|].
  unfold no_none in Hn. apply negb_true_iff in Hn. cbn [ls_to_one_hot]. rewrite Hn.
  destruct c as [lo hi|lo hi|es|es]; cbn [ls_to_categorical]; simpl in Hl;
    rewrite (firstn_app_len l _ _ Hl), (skipn_app_len l _ _ Hl), IH; reflexivity.
Qed.
(* a default categorical entry (a None inside) becomes all ones *)
Lemma length_scales_default es r l t : existsb (fun o => match o with None => true | Some _ => false end) l = true ->
  ls_to_one_hot (Cat es :: r) (l :: t) = repeat (Some 1) (length es) ++ ls_to_one_hot r t.
Proof. intros H. cbn [ls_to_one_hot]. rewrite H. reflexivity. Qed.

(* ------------------------------------------------------------------ the three rounding functions, composed *)
Definition snap_cs (cs : list component) (x : row) : row := round_grid_row cs (round_cat_row cs (round_int_row cs x)).
Definition snap1 (c : component) (v : Q) : Q :=
  match c with Int _ _ => inject_Z (round_half_even v) | Grid es => nearest v es | _ => v end.

Lemma snap_cs_scalar c r v t : is_cat c = false -> snap_cs (c :: r) (v :: t) = snap1 c v :: snap_cs r t.
Proof. destruct c; simpl; intros H; try discriminate; reflexivity. Qed.
Lemma unit_vec_length n k : length (unit_vec n k) = n.
Proof. unfold unit_vec. rewrite map_length, seq_length. reflexivity. Qed.
Lemma snap_cs_cat es r x : (length es <= length x)%nat ->
  snap_cs (Cat es :: r) x = unit_vec (length es) (argmax (firstn (length es) x)) ++ snap_cs r (skipn (length es) x).
Proof.
  intros Hl. unfold snap_cs. cbn [round_int_row].
  assert (Hf : length (firstn (length es) x) = length es) by (rewrite firstn_length; lia).
  cbn [round_cat_row]. rewrite (firstn_app_len _ _ _ Hf), (skipn_app_len _ _ _ Hf).
  cbn [round_grid_row]. rewrite (firstn_app_len _ _ _ (unit_vec_length _ _)), (skipn_app_len _ _ _ (unit_vec_length _ _)).
  reflexivity.
Qed.

Lemma nth_unit n k j : (j < n)%nat -> nth j (unit_vec n k) 0 = if Nat.eqb j k then 1 else 0.
Proof.
  intros Hj. unfold unit_vec. set (g := fun i => if Nat.eqb i k then 1 else 0).
  rewrite (nth_indep _ 0 (g O)) by (rewrite map_length, seq_length; exact Hj).
  rewrite map_nth, seq_nth by exact Hj. reflexivity.
Qed.
Lemma argmax_unit n k : (k < n)%nat -> argmax (unit_vec n k) = k.
Proof.
  intros Hk. apply argmax_unique; rewrite ?unit_vec_length; [exact Hk| |].
  - intros j Hj. rewrite !nth_unit by assumption. rewrite Nat.eqb_refl. destruct (Nat.eqb j k); lra.
  - intros j Hj. rewrite !nth_unit by lia. rewrite Nat.eqb_refl. destruct (Nat.eqb j k) eqn:E; [apply Nat.eqb_eq in E; lia|lra].
Qed.

Lemma nodupb_NoDup l : nodupb Z.eqb l = true -> NoDup l.
Proof.
  induction l as [|x r IH]; simpl; [constructor|]. rewrite andb_true_iff, negb_true_iff. intros [H1 H2].
  constructor; [|apply IH; exact H2]. intros Hin.
  assert (existsb (Z.eqb x) r = true) by (apply existsb_exists; exists x; split; [exact Hin|apply Z.eqb_refl]). congruence.
Qed.

(* the one-hot block written by the encoder for a member z of a duplicate-free element list: its first maximum is z's position *)
Lemma indicator_argmax v z es : v == inject_Z z -> In z es -> nodupb Z.eqb es = true ->
  exists k, nth_error es k = Some z /\ (k < length es)%nat /\
            argmax (map (fun e => if Qeq_bool v (inject_Z e) then 1 else 0) es) = k.
Proof.
  intros Hv Hin Hnd. apply nodupb_NoDup in Hnd. destruct (In_nth_error _ _ Hin) as [k Hk].
  assert (Hkl : (k < length es)%nat) by (apply nth_error_Some; congruence).
  exists k. split; [exact Hk|]. split; [exact Hkl|].
  set (f := fun e => if Qeq_bool v (inject_Z e) then 1 else 0).
  assert (Hnth : forall j, (j < length es)%nat -> nth j (map f es) 0 = f (nth j es 0%Z)).
  { intros j Hj. rewrite (nth_indep _ 0 (f 0%Z)) by (rewrite map_length; exact Hj). apply map_nth. }
  assert (Hzk : nth k es 0%Z = z) by (apply nth_error_nth; exact Hk).
  assert (Hfk : f (nth k es 0%Z) = 1).
  { rewrite Hzk. unfold f. assert (E : Qeq_bool v (inject_Z z) = true) by (apply Qeq_bool_iff; exact Hv). rewrite E. reflexivity. }
  apply argmax_unique; rewrite ?map_length; [exact Hkl| |].
  - intros j Hj. rewrite !Hnth by assumption. rewrite Hfk. unfold f. destruct (Qeq_bool v (inject_Z (nth j es 0%Z))); lra.
  - intros j Hj. rewrite !Hnth by lia. rewrite Hfk. unfold f.
    destruct (Qeq_bool v (inject_Z (nth j es 0%Z))) eqn:E; [|lra]. exfalso.
    apply Qeq_bool_iff in E. rewrite Hv in E. apply (proj1 (inject_Z_injective _ _)) in E.
    assert (j = k); [|lia]. apply (proj1 (NoDup_nth es 0%Z) Hnd); [lia|exact Hkl|congruence].
Qed.

Lemma wf_cat es : wf_component (Cat es) = true -> nodupb Z.eqb es = true.
Proof. simpl. rewrite andb_true_iff. tauto. Qed.

Lemma roundtrip_cs : forall cs p, Forall (fun c => wf_component c = true) cs -> Forall2 in_component cs p ->
  exists q, (forall os : list unit, (length cs <= length os)%nat ->
               decode_gen choose_argmax cs os (snap_cs cs (enc cs p)) = Some q) /\ peq q p /\
            peq (snap_cs cs (enc cs p)) (enc cs p) /\ length (enc cs p) = one_hot_dim cs.
Proof.
  intros cs p Hwf H. induction H as [|c v cs' p' Hc _ IH].
  - exists []. simpl. repeat split; constructor.
  - inversion Hwf as [|? ? Hwc Hwr]; subst. destruct (IH Hwr) as (q' & Hq & Hpe & Hfix & Hlen). clear IH.
    destruct c as [lo hi|lo hi|es|es].
    + cbn [enc]. rewrite snap_cs_scalar by reflexivity.
      exists (v :: q'). split; [intros os Hos; cbn [decode_gen snap1]; rewrite Hq by (simpl in Hos; lia); reflexivity|].
      repeat split; try (constructor; [reflexivity|assumption]). simpl in *. lia.
    + destruct Hc as (z & Hz & Hr). cbn [enc]. rewrite snap_cs_scalar by reflexivity. cbn [snap1]. rewrite (round_of_int _ _ Hz).
      exists (inject_Z z :: q').
      split; [intros os Hos; cbn [decode_gen]; rewrite Hq by (simpl in Hos; lia); rewrite (round_of_int (inject_Z z) z) by reflexivity; reflexivity|].
      repeat split; try (constructor; [symmetry; exact Hz|assumption]). simpl in *; lia.
    + destruct Hc as (z & Hz & Hv). cbn [enc].
      set (ind := map (fun e => if Qeq_bool v (inject_Z e) then 1 else 0) es).
      assert (Hil : length ind = length es) by (unfold ind; apply map_length).
      destruct (indicator_argmax v z es Hv Hz (wf_cat es Hwc)) as (k & Hk & Hkl & Hak). fold ind in Hak.
      rewrite snap_cs_cat by (rewrite app_length; lia).
      rewrite (firstn_app_len _ _ _ Hil), (skipn_app_len _ _ _ Hil), Hak.
      exists (inject_Z z :: q'). split.
      { intros os Hos. destruct os as [|o os']; [simpl in Hos; lia|]. cbn [decode_gen]. rewrite app_length, unit_vec_length.
        assert (El : Nat.ltb (length es + length (snap_cs cs' (enc cs' p'))) (length es) = false) by (apply Nat.ltb_ge; lia).
        rewrite El. rewrite (firstn_app_len _ _ _ (unit_vec_length _ _)), (skipn_app_len _ _ _ (unit_vec_length _ _)).
        unfold choose_argmax at 1. rewrite (argmax_unit _ _ Hkl), Hk, Hq by (simpl in Hos; lia). reflexivity. }
      split; [constructor; [symmetry; exact Hv|exact Hpe]|]. split.
      * apply Forall2_app; [|exact Hfix].
        (* the block is literally the unit vector at k *)
        assert (Hb : forall j, (j < length es)%nat -> nth j ind 0 == nth j (unit_vec (length es) k) 0).
        { intros j Hj. rewrite nth_unit by exact Hj. unfold ind. set (f := fun e => if Qeq_bool v (inject_Z e) then 1 else 0).
          rewrite (nth_indep _ 0 (f 0%Z)) by (rewrite map_length; exact Hj).
          rewrite map_nth. unfold f. destruct (Nat.eqb j k) eqn:E.
          - apply Nat.eqb_eq in E. subst j. rewrite (nth_error_nth _ _ _ Hk).
            assert (E : Qeq_bool v (inject_Z z) = true) by (apply Qeq_bool_iff; exact Hv). rewrite E. reflexivity.
          - apply Nat.eqb_neq in E. destruct (Qeq_bool v (inject_Z (nth j es 0%Z))) eqn:E2; [|reflexivity]. exfalso.
            apply Qeq_bool_iff in E2. rewrite Hv in E2. apply (proj1 (inject_Z_injective _ _)) in E2.
            apply E. apply (proj1 (NoDup_nth es 0%Z) (nodupb_NoDup _ (wf_cat es Hwc))); [exact Hj|exact Hkl|].
            rewrite <- E2. symmetry. apply nth_error_nth. exact Hk. }
        clear - Hb Hil. pose proof (unit_vec_length (length es) k) as Hul.
        revert Hb Hil Hul. generalize (unit_vec (length es) k) as u. generalize (length es) as n. generalize ind as a.
        induction a as [|x a IHa]; intros n u Hb Hla Hlu; destruct u as [|y u]; simpl in *; try lia; constructor.
        -- symmetry. apply (Hb O). lia.
        -- destruct n; [lia|]. apply (IHa n); [intros j Hj; apply (Hb (S j)); lia|lia|lia].
      * rewrite app_length, Hil, Hlen. reflexivity.
    + destruct Hc as (e & He & Hv). cbn [enc]. rewrite snap_cs_scalar by reflexivity. cbn [snap1].
      assert (Hne : es <> []) by (apply wf_grid_nonempty; exact Hwc).
      pose proof (nearest_fix v es e He Hv) as H1.
      pose proof (nearest_fix (nearest v es) es (nearest v es) (nearest_In v es Hne) (Qeq_refl _)) as H2.
      exists (nearest (nearest v es) es :: q').
      split; [intros os Hos; cbn [decode_gen]; rewrite Hq by (simpl in Hos; lia); reflexivity|]. repeat split.
      * constructor; [rewrite H2; exact H1|exact Hpe].
      * constructor; [exact H1|exact Hfix].
      * simpl in *; lia.
Qed.
Lemma enc_nocat : forall cs p, has_cat cs = false -> length cs = length p -> enc cs p = p.
Proof.
  induction cs as [|c r IH]; intros p Hc Hl; destruct p as [|v t]; simpl in Hl; try lia; [reflexivity|].
  unfold has_cat in Hc. cbn [existsb] in Hc. apply orb_false_iff in Hc. destruct Hc as [Hc Hr].
  destruct c; try discriminate; cbn [enc]; rewrite IH by (try exact Hr; lia); reflexivity.
Qed.

(* C09_round_roundtrip: encode a valid point, apply the three deterministic rounding functions, read the categories off:
   the same point comes back; moreover the rounding functions leave the encoded point where it is, and it has the one-hot length *)
Theorem round_roundtrip d p : wf_domain d = true -> Admissible d p ->
  exists q, decode_det d (encode d p) = Some q /\ peq q p /\
            peq (snap_det d (encode d p)) (encode d p) /\ length (encode d p) = one_hot_dim (comps d).
Proof.
  intros Hwf [Hin _].
  destruct (roundtrip_cs (comps d) p (wf_domain_comps d Hwf) Hin) as (q & Hq & Hpe & Hfix & Hlen).
  assert (He : encode d p = enc (comps d) p).
  { unfold encode. destruct (has_cat (comps d)) eqn:E; [reflexivity|]. symmetry. apply enc_nocat; [exact E|].
    clear - Hin. induction Hin; simpl; congruence. }
  exists q. rewrite He. split; [|split; [exact Hpe|split; [exact Hfix|exact Hlen]]].
  unfold decode_det, collapse. apply Hq. rewrite repeat_length. lia.
Qed.

(* deterministic rounding of a categorical block: the unit vector at the first maximum *)
Theorem round_cat_is_argmax es r x : es <> [] -> (length es <= length x)%nat ->
  let vals := firstn (length es) x in let k := argmax vals in
  round_cat_row (Cat es :: r) x = unit_vec (length es) k ++ round_cat_row r (skipn (length es) x) /\
  (k < length es)%nat /\ (forall j, (j < length es)%nat -> nth j vals 0 <= nth k vals 0) /\
  (forall j, (j < k)%nat -> nth j vals 0 < nth k vals 0).
Proof.
  intros Hne Hl vals k. split; [reflexivity|].
  assert (Hv : length vals = length es) by (unfold vals; rewrite firstn_length; lia).
  assert (Hvn : vals <> []) by (destruct vals; [destruct es; simpl in Hv; [congruence|discriminate]|congruence]).
  destruct (argmax_spec vals Hvn) as (A & B & Cc). rewrite Hv in A, B. auto.
Qed.
(* ------------------------------------------------------------------ lattice neighbours and integer-feasible snapping *)
(* r is x with every masked coordinate moved to its floor or its ceiling and every other coordinate kept *)
Fixpoint nbr_of (mask : list bool) (x r : row) : Prop :=
  match mask, x with
  | true :: m, v :: t => match r with
                         | o :: r' => (o = inject_Z (Qfloor v) \/ o = inject_Z (Qceiling v)) /\ nbr_of m t r'
                         | [] => False
                         end
  | false :: m, v :: t => match r with o :: r' => o = v /\ nbr_of m t r' | [] => False end
  | _, _ => r = x
  end.

(* int_neighbours_enumerate (membership): the grid is exactly the set of floor/ceil combinations, 2^k of them *)
Theorem lattice_spec : forall mask x r, In r (lattice mask x) <-> nbr_of mask x r.
Proof.
  induction mask as [|b m IH]; intros x r.
  - simpl. split; [intros [H|[]]; symmetry; exact H|intros ->; left; reflexivity].
  - destruct x as [|v t]; [destruct b; simpl; (split; [intros [H|[]]; symmetry; exact H|intros ->; left; reflexivity])|].
    destruct b; cbn [lattice nbr_of].
    + rewrite in_app_iff, !in_map_iff. split.
      * intros [(r' & <- & Hr)|(r' & <- & Hr)]; (split; [auto|apply IH; exact Hr]).
      * destruct r as [|o r']; [tauto|]. intros [[->| ->] Hr]; [left|right]; exists r'; (split; [reflexivity|apply IH; exact Hr]).
    + rewrite in_map_iff. split.
      * intros (r' & <- & Hr). split; [reflexivity|apply IH; exact Hr].
      * destruct r as [|o r']; [tauto|]. intros [-> Hr]. exists r'. split; [reflexivity|apply IH; exact Hr].
Qed.
Lemma lattice_length : forall mask x, (length mask <= length x)%nat -> length (lattice mask x) = Nat.pow 2 (count_true mask).
Proof.
  induction mask as [|b m IH]; intros x Hl; [reflexivity|].
  destruct x as [|v t]; [simpl in Hl; lia|]. simpl in Hl. destruct b; cbn [lattice].
  - rewrite app_length, !map_length, IH by lia. unfold count_true. simpl. lia.
  - rewrite map_length, IH by lia. reflexivity.
Qed.
Lemma pick_spec : forall mask x ups, nbr_of mask x (pick mask x ups).
Proof.
  induction mask as [|b m IH]; intros x ups; [destruct x; reflexivity|].
  destruct x as [|v t]; [destruct b; reflexivity|]. destruct b; cbn [pick nbr_of].
  - destruct ups as [|up ups']; [split; [left; reflexivity|apply IH]|]. split; [destruct up; auto|apply IH].
  - split; [reflexivity|apply IH].
Qed.
Lemma int_neighbors_spec d rnd x r : In r (int_neighbors d rnd x) -> nbr_of (int_mask d) x r.
Proof.
  unfold int_neighbors. destruct (Nat.leb (count_true (int_mask d)) max_grid_dim).
  - apply lattice_spec.
  - rewrite in_map_iff. intros (ups & <- & _). apply pick_spec.
Qed.

Lemma permute_In {A} (perm : list nat) (l : list A) a : In a (permute perm l) -> In a l.
Proof.
  unfold permute. rewrite in_flat_map. intros (j & _ & H). destruct (nth_error l j) eqn:E; [|destruct H].
  destruct H as [<-|[]]. eapply nth_error_In; exact E.
Qed.

Lemma In_firstn {A} n : forall (l : list A) a, In a (firstn n l) -> In a l.
Proof. induction n as [|n IH]; intros [|x l] a H; simpl in *; try tauto. destruct H; [left; assumption|right; apply IH; assumption]. Qed.

Definition snap_ok (d : domain) (xs : list row) (r : row) : Prop :=
  sat_cons (comps d) (int_cons d) r = true /\ exists x, In x xs /\ nbr_of (int_mask d) x r.

Lemma feasible_ok d rnd xs x r : In x xs -> In r (feasible_neighbors d rnd x) -> snap_ok d xs r.
Proof.
  unfold feasible_neighbors. rewrite filter_In. intros Hx [Hn Hs]. split; [exact Hs|].
  exists x. split; [exact Hx|eapply int_neighbors_spec; exact Hn].
Qed.

Lemma snap_pass_ok d n all : forall xs rnds perms padding o p,
  (forall x, In x xs -> In x all) -> Forall (snap_ok d all) padding ->
  snap_pass d n rnds perms xs padding = (o, p) ->
  Forall (snap_ok d all) p /\ Forall (fun r => match r with Some f => snap_ok d all f | None => True end) o.
Proof.
  induction xs as [|x r IH]; intros rnds perms padding o p Hsub Hpad H.
  - simpl in H. injection H as <- <-. split; [exact Hpad|constructor].
  - cbn [snap_pass] in H.
    assert (Hfn : forall f, In f (permute (hd [] perms) (feasible_neighbors d (hd [] rnds) x)) -> snap_ok d all f).
    { intros f Hf. apply permute_In in Hf. eapply feasible_ok; [apply Hsub; left; reflexivity|exact Hf]. }
    destruct (permute (hd [] perms) (feasible_neighbors d (hd [] rnds) x)) as [|f rest] eqn:Efn.
    + destruct (snap_pass d n (tl rnds) (tl perms) r padding) as [o' p'] eqn:E. injection H as <- <-.
      destruct (IH _ _ _ _ _ (fun y Hy => Hsub y (or_intror Hy)) Hpad E) as [A B]. split; [exact A|constructor; [exact I|exact B]].
    + match type of H with context [snap_pass d n (tl rnds) (tl perms) r ?pp] => set (padding' := pp) in * end.
      destruct (snap_pass d n (tl rnds) (tl perms) r padding') as [o' p'] eqn:E. injection H as <- <-.
      assert (Hpad' : Forall (snap_ok d all) padding').
      { unfold padding'. destruct (Nat.ltb (length padding) n); [|exact Hpad]. apply Forall_app. split; [exact Hpad|].
        apply Forall_forall. intros y Hy. apply Hfn. right. eapply In_firstn. exact Hy. }
      destruct (IH _ _ _ _ _ (fun y Hy => Hsub y (or_intror Hy)) Hpad' E) as [A B].
      split; [exact A|constructor; [apply Hfn; left; reflexivity|exact B]].
Qed.

Lemma snap_fill_ok (P : row -> Prop) : forall o padding,
  Forall (fun r => match r with Some f => P f | None => True end) o -> Forall P padding -> Forall P (snap_fill o padding).
Proof.
  induction o as [|[f|] o IH]; intros padding Ho Hp; simpl; [constructor| |].
  - inversion Ho; subst. constructor; [assumption|apply IH; assumption].
  - inversion Ho; subst. destruct padding as [|g p]; [apply IH; [assumption|constructor]|].
    inversion Hp; subst. constructor; [assumption|apply IH; assumption].
Qed.

(* int_feasible_snap_sound: every row returned by the integer-feasible snapping satisfies every int constraint and is some
   input row (its own, or for a padded row another one) with the int-constrained coordinates moved to floor or ceiling and all
   other coordinates kept, for every shuffle and every outcome of the random-neighbour branch *)
Theorem int_feasible_snap_sound d rnds perms xs : Forall (snap_ok d xs) (snap_feasible d rnds perms xs).
Proof.
  unfold snap_feasible. destruct (snap_pass d (length xs) rnds perms xs []) as [o p] eqn:E.
  destruct (snap_pass_ok d (length xs) xs xs rnds perms [] o p (fun x H => H) (Forall_nil _) E) as [A B].
  apply snap_fill_ok; assumption.
Qed.
