(* C09: one-hot encoding, rounding, decoding and snapping of mixed parameters.
   Contents, in order: round half to even; nearest element; arg-max; `decoded` and admissibility of the decode; task snapping;
   length scales; the deterministic round trip; int lattice and soundness of the integer-feasible snap; then
     - the stochastic decode at a one-hot vertex (rel_probs_onehot: the other categories get probability
       1e-300/(1+n*1e-300), not zero; draw_onehot_iff / choose_draw_onehot_iff: the exact window of draws that returns the
       encoded category) and the stochastic round trip decode_roundtrip / decode_roundtrip_iff / decode_roundtrip_uniform,
       with decode_roundtrip_all_draws_refuted for the statement without the hypothesis on the draws;
     - completeness of the integer-feasible snap (int_feasible_snap_complete, int_feasible_snap_complete_rows) and nbr_in_box;
     - the categorical neighbour lattice (cat_lattice_spec, cat_lattice_NoDup, cat_lattice_length). *)
From Coq Require Import List QArith ZArith Bool Arith Qround Qabs SetoidList Lia Lra Psatz Permutation Qpower.
From LV Require Import Model.Domain Model.Decode Proofs.Domain.
Import ListNotations.
Open Scope Q_scope.

(* ------------------------------------------------------------------ round half to even *)
Lemma floor_bounds x : inject_Z (Qfloor x) <= x /\ x < inject_Z (Qfloor x + 1).
Proof. split; [apply Qfloor_le | apply Qlt_floor]. Qed.

Lemma round_near x : Qabs (x - inject_Z (round_half_even x)) <= 1#2.
Proof.
  unfold round_half_even. destruct (floor_bounds x) as [H1 H2].
  rewrite inject_Z_plus in H2. change (inject_Z 1) with 1 in H2.
  destruct (Qcompare (x - inject_Z (Qfloor x)) (1#2)) eqn:Hc.
  - apply Qeq_alt in Hc. destruct (Z.even (Qfloor x)).
    + apply Qabs_Qle_condition; split; lra.
    + rewrite inject_Z_plus. change (inject_Z 1) with 1. apply Qabs_Qle_condition; split; lra.
  - apply Qlt_alt in Hc. apply Qabs_Qle_condition; split; lra.
  - apply Qgt_alt in Hc. rewrite inject_Z_plus. change (inject_Z 1) with 1. apply Qabs_Qle_condition; split; lra.
Qed.

Lemma round_in_range x (lo hi : Z) :
  inject_Z lo <= x -> x <= inject_Z hi -> (lo <= round_half_even x <= hi)%Z.
Proof.
  intros Hlo Hhi. destruct (floor_bounds x) as [H1 H2].
  assert (Hf1 : (lo <= Qfloor x)%Z). { pose proof (Qfloor_resp_le _ _ Hlo) as H. rewrite Qfloor_Z in H. exact H. }
  assert (Hf2 : (Qfloor x <= hi)%Z). { pose proof (Qfloor_resp_le _ _ Hhi) as H. rewrite Qfloor_Z in H. exact H. }
  unfold round_half_even.
  destruct (Z.eq_dec (Qfloor x) hi) as [He|Hne].
  - assert (Hx : x - inject_Z (Qfloor x) == 0). { rewrite He in H1 |- *. lra. }
    assert (Hc : Qcompare (x - inject_Z (Qfloor x)) (1#2) = Lt). { apply (proj1 (Qlt_alt _ _)). lra. }
    rewrite Hc. lia.
  - destruct (Qcompare (x - inject_Z (Qfloor x)) (1#2)); try destruct (Z.even (Qfloor x)); lia.
Qed.

(* an integer is left where it is *)
Lemma round_of_int x z : x == inject_Z z -> round_half_even x = z.
Proof.
  intros H. unfold round_half_even. rewrite (Qfloor_of_int _ _ H).
  assert (Hc : Qcompare (x - inject_Z z) (1#2) = Lt). { apply (proj1 (Qlt_alt _ _)). lra. }
  rewrite Hc. reflexivity.
Qed.

(* ------------------------------------------------------------------ nearest element (first minimum of the distances) *)
Lemma nearest_from_spec x : forall l best,
  (nearest_from x best l = best \/ In (nearest_from x best l) l) /\
  Qabs (x - nearest_from x best l) <= Qabs (x - best) /\
  (forall e, In e l -> Qabs (x - nearest_from x best l) <= Qabs (x - e)).
Proof.
  induction l as [|e r IH]; intros best; cbn [nearest_from].
  - split; [left; reflexivity|split; [apply Qle_refl|intros e []]].
  - destruct (Qltb (Qabs (x - e)) (Qabs (x - best))) eqn:E.
    + apply Qltb_lt in E. destruct (IH e) as (A & B & Cc). split; [|split].
      * destruct A as [A|A]; [right; left; symmetry; exact A|right; right; exact A].
      * lra.
      * intros e' [<-|Hin]; [exact B|apply Cc; exact Hin].
    + apply Qltb_ge in E. destruct (IH best) as (A & B & Cc). split; [|split].
      * destruct A as [A|A]; [left; exact A|right; right; exact A].
      * exact B.
      * intros e' [<-|Hin]; [lra|apply Cc; exact Hin].
Qed.

Lemma nearest_In x es : es <> [] -> In (nearest x es) es.
Proof.
  destruct es as [|e r]; [congruence|intros _]. simpl.
  destruct (nearest_from_spec x r e) as ([A|A] & _); [left; symmetry; exact A|right; exact A].
Qed.
Lemma nearest_min x es e : In e es -> Qabs (x - nearest x es) <= Qabs (x - e).
Proof.
  destruct es as [|e0 r]; [intros []|]. simpl. destruct (nearest_from_spec x r e0) as (_ & B & Cc).
  intros [<-|Hin]; [exact B|apply Cc; exact Hin].
Qed.
(* a value that is itself an element is kept (up to Qeq) *)
Lemma nearest_fix x es e : In e es -> x == e -> nearest x es == x.
Proof.
  intros Hin He. pose proof (nearest_min x es e Hin) as H.
  assert (H0 : Qabs (x - e) == 0). { rewrite He. setoid_replace (e - e) with 0 by ring. reflexivity. }
  rewrite H0 in H. pose proof (Qabs_nonneg (x - nearest x es)) as Hn.
  assert (Hz : Qabs (x - nearest x es) <= 0) by lra.
  apply Qabs_Qle_condition in Hz. destruct Hz as [Hz1 Hz2]. lra.
Qed.

(* ------------------------------------------------------------------ arg-max (first maximum) *)
Lemma argmax_from_spec : forall l best bi i, (bi < i)%nat ->
  let k := argmax_from best bi i l in
  (k = bi \/ (i <= k < i + length l)%nat) /\
  let v := if Nat.eqb k bi then best else nth (k - i) l 0 in
  best <= v /\ (forall j, (j < length l)%nat -> nth j l 0 <= v) /\
  (k <> bi -> best < v) /\ (forall j, (i + j < k)%nat -> (j < length l)%nat -> nth j l 0 < v).
Proof.
  induction l as [|x r IH]; intros best bi i Hbi; simpl.
  - rewrite Nat.eqb_refl. split; [left; reflexivity|]. split; [apply Qle_refl|]. split; [intros j Hj; lia|]. split; [congruence|intros j Hj; lia].
  - destruct (Qltb best x) eqn:E.
    + apply Qltb_lt in E. destruct (IH x i (S i) (Nat.lt_succ_diag_r i)) as (A & B). cbv zeta in B.
      set (k := argmax_from x i (S i) r) in *. split; [right; lia|].
      assert (Hkb : Nat.eqb k bi = false) by (apply Nat.eqb_neq; lia). rewrite Hkb.
      destruct (Nat.eqb k i) eqn:Ek.
      * apply Nat.eqb_eq in Ek. rewrite Ek, Nat.sub_diag. simpl. destruct B as (B1 & B2 & B3 & B4).
        split; [lra|]. split; [intros [|j] Hj; [apply Qle_refl|apply B2; lia]|]. split; [intros _; exact E|].
        intros j Hj; lia.
      * apply Nat.eqb_neq in Ek. destruct B as (B1 & B2 & B3 & B4).
        replace (k - i)%nat with (S (k - S i)) by lia. simpl.
        split; [lra|]. split; [intros [|j] Hj; [exact B1|apply B2; lia]|]. split; [intros _; specialize (B3 Ek); lra|].
        intros [|j] Hj Hl; [apply B3; exact Ek|apply B4; lia].
    + apply Qltb_ge in E. destruct (IH best bi (S i) (Nat.lt_lt_succ_r _ _ Hbi)) as (A & B). cbv zeta in B.
      set (k := argmax_from best bi (S i) r) in *. split; [destruct A; [left; assumption|right; lia]|].
      destruct (Nat.eqb k bi) eqn:Ek.
      * destruct B as (B1 & B2 & B3 & B4). split; [apply Qle_refl|]. split; [intros [|j] Hj; [exact E|apply B2; lia]|].
        split; [apply Nat.eqb_eq in Ek; congruence|]. apply Nat.eqb_eq in Ek. intros j Hj; lia.
      * apply Nat.eqb_neq in Ek. destruct A as [A|A]; [congruence|]. destruct B as (B1 & B2 & B3 & B4).
        replace (k - i)%nat with (S (k - S i)) by lia. simpl.
        split; [exact B1|]. split; [intros [|j] Hj; [lra|apply B2; lia]|]. split; [intros _; apply B3; exact Ek|].
        intros [|j] Hj Hl; [specialize (B3 Ek); lra|apply B4; lia].
Qed.

(* numpy.argmax: in range, a maximum, and the first one *)
Lemma argmax_spec l : l <> [] ->
  (argmax l < length l)%nat /\ (forall j, (j < length l)%nat -> nth j l 0 <= nth (argmax l) l 0) /\
  (forall j, (j < argmax l)%nat -> nth j l 0 < nth (argmax l) l 0).
Proof.
  destruct l as [|x r]; [congruence|intros _]. unfold argmax.
  destruct (argmax_from_spec r x O 1%nat Nat.lt_0_1) as (A & B). cbv zeta in B.
  set (k := argmax_from x 0 1 r) in *. simpl length. destruct (Nat.eqb k 0) eqn:Ek.
  - apply Nat.eqb_eq in Ek. rewrite Ek. simpl. destruct B as (B1 & B2 & B3 & B4).
    split; [lia|]. split; [intros [|j] Hj; [apply Qle_refl|apply B2; lia]|intros j Hj; lia].
  - apply Nat.eqb_neq in Ek. destruct A as [A|A]; [congruence|]. destruct B as (B1 & B2 & B3 & B4).
    remember (k - 1)%nat as m eqn:Hm. assert (Hk : k = S m) by lia. clearbody k. subst k. simpl nth. split; [lia|].
    split; [intros [|j] Hj; [exact B1|apply B2; lia]|].
    intros [|j] Hj; [apply B3; exact Ek|apply B4; simpl in *; lia].
Qed.

(* conversely: the first position holding a maximum is what argmax returns *)
Lemma argmax_unique l k : (k < length l)%nat -> (forall j, (j < length l)%nat -> nth j l 0 <= nth k l 0) ->
  (forall j, (j < k)%nat -> nth j l 0 < nth k l 0) -> argmax l = k.
Proof.
  intros Hk Hmax Hfirst. assert (Hne : l <> []) by (destruct l; simpl in *; [lia|congruence]).
  destruct (argmax_spec l Hne) as (A & B & Cc).
  destruct (Nat.lt_trichotomy (argmax l) k) as [H|[H|H]]; [|exact H|].
  - specialize (Hfirst _ H). specialize (B k Hk). lra.
  - specialize (Cc _ H). specialize (Hmax _ A). lra.
Qed.
(* ------------------------------------------------------------------ what a decoded configuration looks like *)
(* coordinate by coordinate: doubles unchanged, ints moved to a nearest integer (the half-even one), grid values to a
   nearest element, each categorical to one of its elements; the relaxed point has exactly the one-hot length *)
Fixpoint decoded (cs : list component) (x : row) (q : point) : Prop :=
  match cs, q with
  | [], [] => x = []
  | Double _ _ :: r, o :: q' => exists v t, x = v :: t /\ o = v /\ decoded r t q'
  | Int _ _ :: r, o :: q' =>
      exists v t, x = v :: t /\ o = inject_Z (round_half_even v) /\ Qabs (v - o) <= 1#2 /\ decoded r t q'
  | Grid es :: r, o :: q' =>
      exists v t, x = v :: t /\ o = nearest v es /\ In o es /\ (forall e, In e es -> Qabs (v - o) <= Qabs (v - e)) /\ decoded r t q'
  | Cat es :: r, o :: q' =>
      exists z, In z es /\ o = inject_Z z /\ (length es <= length x)%nat /\ decoded r (skipn (length es) x) q'
  | _, _ => False
  end.

Definition choose_member {O} (choose : O -> row -> list Z -> option Z) : Prop :=
  forall o vals es c, choose o vals es = Some c -> In c es.

Lemma wf_grid_nonempty es : wf_component (Grid es) = true -> es <> [].
Proof. simpl. destruct es; [discriminate|congruence]. Qed.

Lemma decode_gen_decoded {O} (choose : O -> row -> list Z -> option Z) : choose_member choose ->
  forall cs, Forall (fun c => wf_component c = true) cs ->
  forall os x q, decode_gen choose cs os x = Some q -> decoded cs x q.
Proof.
  intros Hch cs Hwf. induction Hwf as [|c r Hc Hr IH]; intros os x q H.
  - simpl in H. destruct x; [|discriminate]. injection H as <-. reflexivity.
  - destruct c as [lo hi|lo hi|es|es].
    + cbn [decode_gen] in H. destruct x as [|v t]; [discriminate|].
      destruct (decode_gen choose r os t) as [q'|] eqn:E; [|discriminate]. injection H as <-.
      simpl. exists v, t. repeat split. eapply IH; exact E.
    + cbn [decode_gen] in H. destruct x as [|v t]; [discriminate|].
      destruct (decode_gen choose r os t) as [q'|] eqn:E; [|discriminate]. injection H as <-.
      cbn [decoded]. exists v, t. split; [reflexivity|]. split; [reflexivity|]. split; [apply round_near|]. eapply IH; exact E.
    + cbn [decode_gen] in H. destruct (Nat.ltb (length x) (length es)) eqn:El; [discriminate|]. apply Nat.ltb_ge in El.
      destruct os as [|o os']; [discriminate|].
      destruct (choose o (firstn (length es) x) es) as [z|] eqn:Ec; [|discriminate].
      destruct (decode_gen choose r os' (skipn (length es) x)) as [q'|] eqn:E; [|discriminate]. injection H as <-.
      cbn [decoded]. exists z. split; [eapply Hch; exact Ec|]. split; [reflexivity|]. split; [exact El|]. eapply IH; exact E.
    + cbn [decode_gen] in H. destruct x as [|v t]; [discriminate|].
      destruct (decode_gen choose r os t) as [q'|] eqn:E; [|discriminate]. injection H as <-.
      cbn [decoded]. exists v, t. split; [reflexivity|]. split; [reflexivity|].
      split; [apply nearest_In; apply wf_grid_nonempty; exact Hc|]. split; [intros e He; apply nearest_min; exact He|].
      eapply IH; exact E.
Qed.

Lemma Forall2_len {A B} (P : A -> B -> Prop) l m : Forall2 P l m -> length l = length m.
Proof. induction 1; simpl; congruence. Qed.

Lemma Forall2_app_skipn {A B} (P : A -> B -> Prop) l1 l2 x :
  Forall2 P (l1 ++ l2) x -> (length l1 <= length x)%nat /\ Forall2 P l2 (skipn (length l1) x).
Proof.
  intros H. apply Forall2_app_inv_l in H. destruct H as (x1 & x2 & H1 & H2 & ->).
  pose proof (Forall2_len _ _ _ H1) as Hl. rewrite app_length. split; [lia|].
  rewrite Hl, skipn_app, skipn_all, Nat.sub_diag. simpl. exact H2.
Qed.

(* a decoded point of the relaxed box lies in every component *)
Lemma decoded_in_components : forall cs x q, decoded cs x q -> in_box (flat_map box_of cs) x -> Forall2 in_component cs q.
Proof.
  induction cs as [|c r IH]; intros x q H Hb; destruct q as [|o q']; simpl in H; try contradiction.
  - constructor.
  - destruct c; contradiction.
  - destruct c as [lo hi|lo hi|es|es].
    + destruct H as (v & t & -> & -> & H). simpl in Hb. inversion Hb as [|? ? ? ? Hv Ht]; subst. simpl in Hv.
      constructor; [exact Hv|eapply IH; eassumption].
    + destruct H as (v & t & -> & -> & Hn & H). simpl in Hb. inversion Hb as [|? ? ? ? Hv Ht]; subst. simpl in Hv.
      constructor; [|eapply IH; eassumption]. exists (round_half_even v). split; [reflexivity|]. apply round_in_range; tauto.
    + destruct H as (z & Hz & -> & Hl & H). cbn [flat_map box_of] in Hb.
      apply Forall2_app_skipn in Hb. rewrite repeat_length in Hb. destruct Hb as [_ Hb].
      constructor; [exists z; split; [exact Hz|reflexivity]|eapply IH; eassumption].
    + destruct H as (v & t & -> & Ho & Hin & Hm & H). simpl in Hb. inversion Hb as [|? ? ? ? Hv Ht]; subst.
      constructor; [exists (nearest v es); split; [exact Hin|reflexivity]|eapply IH; eassumption].
Qed.

(* ------------------------------------------------------------------ constraints carried through the decode *)
Lemma dot_repeat0 : forall n a x, (n <= length x)%nat -> dot (repeat 0 n ++ a) x == dot a (skipn n x).
Proof.
  induction n as [|n IH]; intros a x Hl; simpl; [reflexivity|].
  destruct x as [|v t]; [simpl in Hl; lia|]. simpl in Hl. rewrite IH by lia. simpl. ring.
Qed.

(* a constraint whose non-zero weights sit on components whose value the decode did not move *)
Fixpoint unmoved (t : ctype) (cs : list component) (w : list Q) (x : row) : Prop :=
  match cs, w with
  | Cat es :: r, _ :: w' => unmoved t r w' (skipn (length es) x)
  | Int _ _ :: r, a :: w' => (a == 0 \/ exists z, hd 0 x == inject_Z z) /\ unmoved t r w' (tl x)
  | _ :: r, _ :: w' => unmoved t r w' (tl x)
  | _, _ => True
  end.

Lemma dot_decoded t : forall cs w x q, decoded cs x q -> forall2b (weight_ok t) w cs = true -> unmoved t cs w x ->
  dot w q == dot (oh_weights cs w) x.
Proof.
  induction cs as [|c r IH]; intros w x q H Hw Hu; destruct q as [|o q']; simpl in H; try contradiction.
  - destruct w; reflexivity.
  - destruct c; contradiction.
  - destruct w as [|a w']; [simpl in Hw; discriminate|]. cbn [forall2b] in Hw. apply andb_true_iff in Hw. destruct Hw as [Ha Hw].
    destruct c as [lo hi|lo hi|es|es].
    + destruct H as (v & tl_ & -> & -> & H). cbn [oh_weights dot]. simpl in Hu. rewrite (IH w' tl_ q' H Hw Hu). reflexivity.
    + destruct H as (v & tl_ & -> & -> & Hn & H). cbn [oh_weights dot]. simpl in Hu. destruct Hu as [Hz Hu].
      rewrite (IH w' tl_ q' H Hw Hu). destruct Hz as [Hz|[z Hz]].
      * rewrite Hz. ring.
      * simpl in Hz. rewrite (round_of_int _ _ Hz), <- Hz. reflexivity.
    + destruct H as (z & Hz & -> & Hl & H). cbn [oh_weights dot]. simpl in Hu.
      rewrite dot_repeat0 by exact Hl. rewrite <- (IH w' _ q' H Hw Hu).
      unfold weight_ok in Ha. rewrite orb_true_iff in Ha. destruct Ha as [Ha|Ha]; [|destruct t; discriminate].
      apply Qeq_bool_iff in Ha. rewrite Ha. ring.
    + destruct H as (v & tl_ & -> & Ho & Hin & Hm & H). cbn [oh_weights dot]. simpl in Hu. rewrite <- (IH w' tl_ q' H Hw Hu).
      unfold weight_ok in Ha. rewrite orb_true_iff in Ha. destruct Ha as [Ha|Ha]; [|destruct t; discriminate].
      apply Qeq_bool_iff in Ha. rewrite Ha. ring.
Qed.
Lemma unmoved_double : forall cs w x, forall2b (weight_ok CDouble) w cs = true -> unmoved CDouble cs w x.
Proof.
  induction cs as [|c r IH]; intros w x Hw; [destruct w; exact I|].
  destruct w as [|a w']; [simpl in Hw; discriminate|]. cbn [forall2b] in Hw. apply andb_true_iff in Hw. destruct Hw as [Ha Hw].
  destruct c; simpl; try (apply IH; exact Hw).
  split; [|apply IH; exact Hw]. left. unfold weight_ok in Ha. rewrite orb_true_iff in Ha. destruct Ha as [Ha|Ha]; [|discriminate].
  apply Qeq_bool_iff. exact Ha.
Qed.

Lemma wf_domain_comps d : wf_domain d = true -> Forall (fun c => wf_component c = true) (comps d).
Proof. unfold wf_domain. rewrite andb_true_iff, forallb_forall. intros [H _]. apply Forall_forall. exact H. Qed.
Lemma wf_domain_cons d k : wf_domain d = true -> In k (cons d) -> forall2b (weight_ok (cty k)) (weights k) (comps d) = true.
Proof.
  unfold wf_domain. rewrite andb_true_iff, !forallb_forall. intros [_ H] Hk. specialize (H k Hk).
  unfold wf_constraint in H. apply andb_true_iff in H. tauto.
Qed.

(* the general row statement: a relaxed point of the box that satisfies every constraint (in its one-hot form) and is
   integral wherever an int constraint looks decodes to an admissible configuration, coordinate by coordinate as `decoded` says *)
Theorem decode_row_admissible_gen {O} (choose : O -> row -> list Z -> option Z) d os x q :
  choose_member choose -> wf_domain d = true -> in_box (one_hot_box d) x ->
  (forall k, In k (cons d) -> rhs k <= dot (oh_weights (comps d) (weights k)) x) ->
  (forall k, In k (cons d) -> unmoved (cty k) (comps d) (weights k) x) ->
  decode_gen choose (comps d) os x = Some q -> Admissible d q /\ decoded (comps d) x q.
Proof.
  intros Hch Hwf Hb Hsat Hun H.
  pose proof (decode_gen_decoded choose Hch (comps d) (wf_domain_comps d Hwf) os x q H) as Hd.
  split; [|exact Hd]. split; [eapply decoded_in_components; eassumption|].
  apply Forall_forall. intros k Hk.
  rewrite (dot_decoded (cty k) (comps d) (weights k) x q Hd (wf_domain_cons d k Hwf Hk) (Hun k Hk)). apply Hsat. exact Hk.
Qed.

Lemma not_int_constrained d : is_int_constrained d = false -> forall k, In k (cons d) -> cty k = CDouble /\ In k (dbl_cons d).
Proof.
  unfold is_int_constrained. rewrite negb_false_iff, Nat.eqb_eq. intros H k Hk.
  destruct (cty k) eqn:E.
  - split; [reflexivity|]. unfold dbl_cons. apply filter_In. rewrite E. auto.
  - exfalso. assert (Hi : In k (int_cons d)) by (unfold int_cons; apply filter_In; rewrite E; auto).
    destruct (int_cons d); [exact Hi|discriminate].
Qed.

(* C09_decode_admissible for domains without int constraints (the decode of one row, any way of choosing the category that
   returns a member, in particular any temperature and any uniform draw) *)
Theorem decode_row_admissible {O} (choose : O -> row -> list Z -> option Z) d os x q :
  choose_member choose -> wf_domain d = true -> is_int_constrained d = false ->
  in_box (one_hot_box d) x -> sat_double_cons d x ->
  decode_gen choose (comps d) os x = Some q -> Admissible d q /\ decoded (comps d) x q.
Proof.
  intros Hch Hwf Hic Hb Hsat H. eapply decode_row_admissible_gen; try eassumption.
  - intros k Hk. destruct (not_int_constrained d Hic k Hk) as [_ Hd]. unfold sat_double_cons in Hsat.
    rewrite Forall_forall in Hsat. apply Hsat. exact Hd.
  - intros k Hk. destruct (not_int_constrained d Hic k Hk) as [Ht _]. rewrite Ht. apply unmoved_double.
    rewrite <- Ht. apply wf_domain_cons; assumption.
Qed.

Lemma choose_given_member : choose_member choose_given.
Proof.
  intros o vals es c. unfold choose_given. destruct (existsb (Z.eqb o) es) eqn:E; [|discriminate].
  intros H. injection H as <-. apply existsb_exists in E. destruct E as (z & Hz & Ez). apply Z.eqb_eq in Ez. subst. exact Hz.
Qed.
Lemma choose_argmax_member : choose_member choose_argmax.
Proof. intros o vals es c H. unfold choose_argmax in H. eapply nth_error_In; exact H. Qed.
Lemma choose_draw_member powf T : choose_member (choose_draw powf T).
Proof.
  intros u vals es c. unfold choose_draw. destruct (draw_ix u 0 (rel_probs powf T vals) 0); [|discriminate].
  intros H. eapply nth_error_In; exact H.
Qed.
(* ------------------------------------------------------------------ task snapping *)
Theorem snap_tasks_nearest costs options : options <> [] ->
  Forall2 (fun c o => In o options /\ forall e, In e options -> Qabs (c - o) <= Qabs (c - e)) costs (snap_tasks costs options).
Proof.
  intros Hne. unfold snap_tasks. induction costs as [|c r IH]; simpl; constructor; [|exact IH].
  split; [apply nearest_In; exact Hne|intros e He; apply nearest_min; exact He].
Qed.

(* ------------------------------------------------------------------ length scales *)
Lemma firstn_app_len {A} (a b : list A) n : length a = n -> firstn n (a ++ b) = a.
Proof. intros <-. rewrite firstn_app, Nat.sub_diag, firstn_all. simpl. apply app_nil_r. Qed.
Lemma skipn_app_len {A} (a b : list A) n : length a = n -> skipn n (a ++ b) = b.
Proof. intros <-. rewrite skipn_app, Nat.sub_diag, skipn_all. reflexivity. Qed.

Definition no_none (l : list (option Q)) : bool := negb (existsb (fun o => match o with None => true | Some _ => false end) l).
(* per-parameter length scales (one per scalar parameter, one per category) survive categorical -> one-hot -> categorical *)
Theorem length_scales_roundtrip : forall cs ls,
  Forall2 (fun c l => length l = width c /\ no_none l = true) cs ls ->
  ls_to_categorical cs (ls_to_one_hot cs ls) = ls.
Proof.
  intros cs ls H. induction H as [|c l cs' ls' [Hl Hn] _ IH]; [reflexivity|].
  unfold no_none in Hn. apply negb_true_iff in Hn. cbn [ls_to_one_hot]. rewrite Hn.
  destruct c as [lo hi|lo hi|es|es]; cbn [ls_to_categorical]; simpl in Hl;
    rewrite (firstn_app_len l _ _ Hl), (skipn_app_len l _ _ Hl), IH; reflexivity.
Qed.
(* a default categorical entry (a None inside) becomes all ones *)
Lemma length_scales_default es r l t : existsb (fun o => match o with None => true | Some _ => false end) l = true ->
  ls_to_one_hot (Cat es :: r) (l :: t) = repeat (Some 1) (length es) ++ ls_to_one_hot r t.
Proof. intros H. cbn [ls_to_one_hot]. rewrite H. reflexivity. Qed.

(* ------------------------------------------------------------------ the three rounding functions, composed *)
Definition snap_cs (cs : list component) (x : row) : row := round_grid_row cs (round_cat_row cs (round_int_row cs x)).
Definition snap1 (c : component) (v : Q) : Q :=
  match c with Int _ _ => inject_Z (round_half_even v) | Grid es => nearest v es | _ => v end.

Lemma snap_cs_scalar c r v t : is_cat c = false -> snap_cs (c :: r) (v :: t) = snap1 c v :: snap_cs r t.
Proof. destruct c; simpl; intros H; try discriminate; reflexivity. Qed.
Lemma unit_vec_length n k : length (unit_vec n k) = n.
Proof. unfold unit_vec. rewrite map_length, seq_length. reflexivity. Qed.
Lemma snap_cs_cat es r x : (length es <= length x)%nat ->
  snap_cs (Cat es :: r) x = unit_vec (length es) (argmax (firstn (length es) x)) ++ snap_cs r (skipn (length es) x).
Proof.
  intros Hl. unfold snap_cs. cbn [round_int_row].
  assert (Hf : length (firstn (length es) x) = length es) by (rewrite firstn_length; lia).
  cbn [round_cat_row]. rewrite (firstn_app_len _ _ _ Hf), (skipn_app_len _ _ _ Hf).
  cbn [round_grid_row]. rewrite (firstn_app_len _ _ _ (unit_vec_length _ _)), (skipn_app_len _ _ _ (unit_vec_length _ _)).
  reflexivity.
Qed.

Lemma nth_unit n k j : (j < n)%nat -> nth j (unit_vec n k) 0 = if Nat.eqb j k then 1 else 0.
Proof.
  intros Hj. unfold unit_vec. set (g := fun i => if Nat.eqb i k then 1 else 0).
  rewrite (nth_indep _ 0 (g O)) by (rewrite map_length, seq_length; exact Hj).
  rewrite map_nth, seq_nth by exact Hj. reflexivity.
Qed.
Lemma argmax_unit n k : (k < n)%nat -> argmax (unit_vec n k) = k.
Proof.
  intros Hk. apply argmax_unique; rewrite ?unit_vec_length; [exact Hk| |].
  - intros j Hj. rewrite !nth_unit by assumption. rewrite Nat.eqb_refl. destruct (Nat.eqb j k); lra.
  - intros j Hj. rewrite !nth_unit by lia. rewrite Nat.eqb_refl. destruct (Nat.eqb j k) eqn:E; [apply Nat.eqb_eq in E; lia|lra].
Qed.

Lemma nodupb_NoDup l : nodupb Z.eqb l = true -> NoDup l.
Proof.
  induction l as [|x r IH]; simpl; [constructor|]. rewrite andb_true_iff, negb_true_iff. intros [H1 H2].
  constructor; [|apply IH; exact H2]. intros Hin.
  assert (existsb (Z.eqb x) r = true) by (apply existsb_exists; exists x; split; [exact Hin|apply Z.eqb_refl]). congruence.
Qed.

(* the one-hot block written by the encoder for a member z of a duplicate-free element list: its first maximum is z's position *)
Lemma indicator_argmax v z es : v == inject_Z z -> In z es -> nodupb Z.eqb es = true ->
  exists k, nth_error es k = Some z /\ (k < length es)%nat /\
            argmax (map (fun e => if Qeq_bool v (inject_Z e) then 1 else 0) es) = k.
Proof.
  intros Hv Hin Hnd. apply nodupb_NoDup in Hnd. destruct (In_nth_error _ _ Hin) as [k Hk].
  assert (Hkl : (k < length es)%nat) by (apply nth_error_Some; congruence).
  exists k. split; [exact Hk|]. split; [exact Hkl|].
  set (f := fun e => if Qeq_bool v (inject_Z e) then 1 else 0).
  assert (Hnth : forall j, (j < length es)%nat -> nth j (map f es) 0 = f (nth j es 0%Z)).
  { intros j Hj. rewrite (nth_indep _ 0 (f 0%Z)) by (rewrite map_length; exact Hj). apply map_nth. }
  assert (Hzk : nth k es 0%Z = z) by (apply nth_error_nth; exact Hk).
  assert (Hfk : f (nth k es 0%Z) = 1).
  { rewrite Hzk. unfold f. assert (E : Qeq_bool v (inject_Z z) = true) by (apply Qeq_bool_iff; exact Hv). rewrite E. reflexivity. }
  apply argmax_unique; rewrite ?map_length; [exact Hkl| |].
  - intros j Hj. rewrite !Hnth by assumption. rewrite Hfk. unfold f. destruct (Qeq_bool v (inject_Z (nth j es 0%Z))); lra.
  - intros j Hj. rewrite !Hnth by lia. rewrite Hfk. unfold f.
    destruct (Qeq_bool v (inject_Z (nth j es 0%Z))) eqn:E; [|lra]. exfalso.
    apply Qeq_bool_iff in E. rewrite Hv in E. apply (proj1 (inject_Z_injective _ _)) in E.
    assert (j = k); [|lia]. apply (proj1 (NoDup_nth es 0%Z) Hnd); [lia|exact Hkl|congruence].
Qed.

Lemma wf_cat es : wf_component (Cat es) = true -> nodupb Z.eqb es = true.
Proof. simpl. rewrite andb_true_iff. tauto. Qed.

Lemma roundtrip_cs : forall cs p, Forall (fun c => wf_component c = true) cs -> Forall2 in_component cs p ->
  exists q, (forall os : list unit, (length cs <= length os)%nat ->
               decode_gen choose_argmax cs os (snap_cs cs (enc cs p)) = Some q) /\ peq q p /\
            peq (snap_cs cs (enc cs p)) (enc cs p) /\ length (enc cs p) = one_hot_dim cs.
Proof.
  intros cs p Hwf H. induction H as [|c v cs' p' Hc _ IH].
  - exists []. simpl. repeat split; constructor.
  - inversion Hwf as [|? ? Hwc Hwr]; subst. destruct (IH Hwr) as (q' & Hq & Hpe & Hfix & Hlen). clear IH.
    destruct c as [lo hi|lo hi|es|es].
    + cbn [enc]. rewrite snap_cs_scalar by reflexivity.
      exists (v :: q'). split; [intros os Hos; cbn [decode_gen snap1]; rewrite Hq by (simpl in Hos; lia); reflexivity|].
      repeat split; try (constructor; [reflexivity|assumption]). simpl in *. lia.
    + destruct Hc as (z & Hz & Hr). cbn [enc]. rewrite snap_cs_scalar by reflexivity. cbn [snap1]. rewrite (round_of_int _ _ Hz).
      exists (inject_Z z :: q').
      split; [intros os Hos; cbn [decode_gen]; rewrite Hq by (simpl in Hos; lia); rewrite (round_of_int (inject_Z z) z) by reflexivity; reflexivity|].
      repeat split; try (constructor; [symmetry; exact Hz|assumption]). simpl in *; lia.
    + destruct Hc as (z & Hz & Hv). cbn [enc].
      set (ind := map (fun e => if Qeq_bool v (inject_Z e) then 1 else 0) es).
      assert (Hil : length ind = length es) by (unfold ind; apply map_length).
      destruct (indicator_argmax v z es Hv Hz (wf_cat es Hwc)) as (k & Hk & Hkl & Hak). fold ind in Hak.
      rewrite snap_cs_cat by (rewrite app_length; lia).
      rewrite (firstn_app_len _ _ _ Hil), (skipn_app_len _ _ _ Hil), Hak.
      exists (inject_Z z :: q'). split.
      { intros os Hos. destruct os as [|o os']; [simpl in Hos; lia|]. cbn [decode_gen]. rewrite app_length, unit_vec_length.
        assert (El : Nat.ltb (length es + length (snap_cs cs' (enc cs' p'))) (length es) = false) by (apply Nat.ltb_ge; lia).
        rewrite El. rewrite (firstn_app_len _ _ _ (unit_vec_length _ _)), (skipn_app_len _ _ _ (unit_vec_length _ _)).
        unfold choose_argmax at 1. rewrite (argmax_unit _ _ Hkl), Hk, Hq by (simpl in Hos; lia). reflexivity. }
      split; [constructor; [symmetry; exact Hv|exact Hpe]|]. split.
      * apply Forall2_app; [|exact Hfix].
        (* the block is literally the unit vector at k *)
        assert (Hb : forall j, (j < length es)%nat -> nth j ind 0 == nth j (unit_vec (length es) k) 0).
        { intros j Hj. rewrite nth_unit by exact Hj. unfold ind. set (f := fun e => if Qeq_bool v (inject_Z e) then 1 else 0).
          rewrite (nth_indep _ 0 (f 0%Z)) by (rewrite map_length; exact Hj).
          rewrite map_nth. unfold f. destruct (Nat.eqb j k) eqn:E.
          - apply Nat.eqb_eq in E. subst j. rewrite (nth_error_nth _ _ _ Hk).
            assert (E : Qeq_bool v (inject_Z z) = true) by (apply Qeq_bool_iff; exact Hv). rewrite E. reflexivity.
          - apply Nat.eqb_neq in E. destruct (Qeq_bool v (inject_Z (nth j es 0%Z))) eqn:E2; [|reflexivity]. exfalso.
            apply Qeq_bool_iff in E2. rewrite Hv in E2. apply (proj1 (inject_Z_injective _ _)) in E2.
            apply E. apply (proj1 (NoDup_nth es 0%Z) (nodupb_NoDup _ (wf_cat es Hwc))); [exact Hj|exact Hkl|].
            rewrite <- E2. symmetry. apply nth_error_nth. exact Hk. }
        clear - Hb Hil. pose proof (unit_vec_length (length es) k) as Hul.
        revert Hb Hil Hul. generalize (unit_vec (length es) k) as u. generalize (length es) as n. generalize ind as a.
        induction a as [|x a IHa]; intros n u Hb Hla Hlu; destruct u as [|y u]; simpl in *; try lia; constructor.
        -- symmetry. apply (Hb O). lia.
        -- destruct n; [lia|]. apply (IHa n); [intros j Hj; apply (Hb (S j)); lia|lia|lia].
      * rewrite app_length, Hil, Hlen. reflexivity.
    + destruct Hc as (e & He & Hv). cbn [enc]. rewrite snap_cs_scalar by reflexivity. cbn [snap1].
      assert (Hne : es <> []) by (apply wf_grid_nonempty; exact Hwc).
      pose proof (nearest_fix v es e He Hv) as H1.
      pose proof (nearest_fix (nearest v es) es (nearest v es) (nearest_In v es Hne) (Qeq_refl _)) as H2.
      exists (nearest (nearest v es) es :: q').
      split; [intros os Hos; cbn [decode_gen]; rewrite Hq by (simpl in Hos; lia); reflexivity|]. repeat split.
      * constructor; [rewrite H2; exact H1|exact Hpe].
      * constructor; [exact H1|exact Hfix].
      * simpl in *; lia.
Qed.
Lemma enc_nocat : forall cs p, has_cat cs = false -> length cs = length p -> enc cs p = p.
Proof.
  induction cs as [|c r IH]; intros p Hc Hl; destruct p as [|v t]; simpl in Hl; try lia; [reflexivity|].
  unfold has_cat in Hc. cbn [existsb] in Hc. apply orb_false_iff in Hc. destruct Hc as [Hc Hr].
  destruct c; try discriminate; cbn [enc]; rewrite IH by (try exact Hr; lia); reflexivity.
Qed.

(* C09_round_roundtrip: encode a valid point, apply the three deterministic rounding functions, read the categories off:
   the same point comes back; moreover the rounding functions leave the encoded point where it is, and it has the one-hot length *)
Theorem round_roundtrip d p : wf_domain d = true -> Admissible d p ->
  exists q, decode_det d (encode d p) = Some q /\ peq q p /\
            peq (snap_det d (encode d p)) (encode d p) /\ length (encode d p) = one_hot_dim (comps d).
Proof.
  intros Hwf [Hin _].
  destruct (roundtrip_cs (comps d) p (wf_domain_comps d Hwf) Hin) as (q & Hq & Hpe & Hfix & Hlen).
  assert (He : encode d p = enc (comps d) p).
  { unfold encode. destruct (has_cat (comps d)) eqn:E; [reflexivity|]. symmetry. apply enc_nocat; [exact E|].
    clear - Hin. induction Hin; simpl; congruence. }
  exists q. rewrite He. split; [|split; [exact Hpe|split; [exact Hfix|exact Hlen]]].
  unfold decode_det, collapse. apply Hq. rewrite repeat_length. lia.
Qed.

(* deterministic rounding of a categorical block: the unit vector at the first maximum *)
Theorem round_cat_is_argmax es r x : es <> [] -> (length es <= length x)%nat ->
  let vals := firstn (length es) x in let k := argmax vals in
  round_cat_row (Cat es :: r) x = unit_vec (length es) k ++ round_cat_row r (skipn (length es) x) /\
  (k < length es)%nat /\ (forall j, (j < length es)%nat -> nth j vals 0 <= nth k vals 0) /\
  (forall j, (j < k)%nat -> nth j vals 0 < nth k vals 0).
Proof.
  intros Hne Hl vals k. split; [reflexivity|].
  assert (Hv : length vals = length es) by (unfold vals; rewrite firstn_length; lia).
  assert (Hvn : vals <> []) by (destruct vals; [destruct es; simpl in Hv; [congruence|discriminate]|congruence]).
  destruct (argmax_spec vals Hvn) as (A & B & Cc). rewrite Hv in A, B. auto.
Qed.
(* ------------------------------------------------------------------ lattice neighbours and integer-feasible snapping *)
(* r is x with every masked coordinate moved to its floor or its ceiling and every other coordinate kept *)
Fixpoint nbr_of (mask : list bool) (x r : row) : Prop :=
  match mask, x with
  | true :: m, v :: t => match r with
                         | o :: r' => (o = inject_Z (Qfloor v) \/ o = inject_Z (Qceiling v)) /\ nbr_of m t r'
                         | [] => False
                         end
  | false :: m, v :: t => match r with o :: r' => o = v /\ nbr_of m t r' | [] => False end
  | _, _ => r = x
  end.

(* int_neighbours_enumerate (membership): the grid is exactly the set of floor/ceil combinations, 2^k of them *)
Theorem lattice_spec : forall mask x r, In r (lattice mask x) <-> nbr_of mask x r.
Proof.
  induction mask as [|b m IH]; intros x r.
  - simpl. split; [intros [H|[]]; symmetry; exact H|intros ->; left; reflexivity].
  - destruct x as [|v t]; [destruct b; simpl; (split; [intros [H|[]]; symmetry; exact H|intros ->; left; reflexivity])|].
    destruct b; cbn [lattice nbr_of].
    + rewrite in_app_iff, !in_map_iff. split.
      * intros [(r' & <- & Hr)|(r' & <- & Hr)]; (split; [auto|apply IH; exact Hr]).
      * destruct r as [|o r']; [tauto|]. intros [[->| ->] Hr]; [left|right]; exists r'; (split; [reflexivity|apply IH; exact Hr]).
    + rewrite in_map_iff. split.
      * intros (r' & <- & Hr). split; [reflexivity|apply IH; exact Hr].
      * destruct r as [|o r']; [tauto|]. intros [-> Hr]. exists r'. split; [reflexivity|apply IH; exact Hr].
Qed.
Lemma lattice_length : forall mask x, (length mask <= length x)%nat -> length (lattice mask x) = Nat.pow 2 (count_true mask).
Proof.
  induction mask as [|b m IH]; intros x Hl; [reflexivity|].
  destruct x as [|v t]; [simpl in Hl; lia|]. simpl in Hl. destruct b; cbn [lattice].
  - rewrite app_length, !map_length, IH by lia. unfold count_true. simpl. lia.
  - rewrite map_length, IH by lia. reflexivity.
Qed.
Lemma pick_spec : forall mask x ups, nbr_of mask x (pick mask x ups).
Proof.
  induction mask as [|b m IH]; intros x ups; [destruct x; reflexivity|].
  destruct x as [|v t]; [destruct b; reflexivity|]. destruct b; cbn [pick nbr_of].
  - destruct ups as [|up ups']; [split; [left; reflexivity|apply IH]|]. split; [destruct up; auto|apply IH].
  - split; [reflexivity|apply IH].
Qed.
Lemma int_neighbors_spec d rnd x r : In r (int_neighbors d rnd x) -> nbr_of (int_mask d) x r.
Proof.
  unfold int_neighbors. destruct (Nat.leb (count_true (int_mask d)) max_grid_dim).
  - apply lattice_spec.
  - rewrite in_map_iff. intros (ups & <- & _). apply pick_spec.
Qed.

Lemma permute_In {A} (perm : list nat) (l : list A) a : In a (permute perm l) -> In a l.
Proof.
  unfold permute. rewrite in_flat_map. intros (j & _ & H). destruct (nth_error l j) eqn:E; [|destruct H].
  destruct H as [<-|[]]. eapply nth_error_In; exact E.
Qed.

Lemma In_firstn {A} n : forall (l : list A) a, In a (firstn n l) -> In a l.
Proof. induction n as [|n IH]; intros [|x l] a H; simpl in *; try tauto. destruct H; [left; assumption|right; apply IH; assumption]. Qed.

Definition snap_ok (d : domain) (xs : list row) (r : row) : Prop :=
  sat_cons (comps d) (int_cons d) r = true /\ exists x, In x xs /\ nbr_of (int_mask d) x r.

Lemma feasible_ok d rnd xs x r : In x xs -> In r (feasible_neighbors d rnd x) -> snap_ok d xs r.
Proof.
  unfold feasible_neighbors. rewrite filter_In. intros Hx [Hn Hs]. split; [exact Hs|].
  exists x. split; [exact Hx|eapply int_neighbors_spec; exact Hn].
Qed.

Lemma snap_pass_ok d n all : forall xs rnds perms padding o p,
  (forall x, In x xs -> In x all) -> Forall (snap_ok d all) padding ->
  snap_pass d n rnds perms xs padding = (o, p) ->
  Forall (snap_ok d all) p /\ Forall (fun r => match r with Some f => snap_ok d all f | None => True end) o.
Proof.
  induction xs as [|x r IH]; intros rnds perms padding o p Hsub Hpad H.
  - simpl in H. injection H as <- <-. split; [exact Hpad|constructor].
  - cbn [snap_pass] in H.
    assert (Hfn : forall f, In f (permute (hd [] perms) (feasible_neighbors d (hd [] rnds) x)) -> snap_ok d all f).
    { intros f Hf. apply permute_In in Hf. eapply feasible_ok; [apply Hsub; left; reflexivity|exact Hf]. }
    destruct (permute (hd [] perms) (feasible_neighbors d (hd [] rnds) x)) as [|f rest] eqn:Efn.
    + destruct (snap_pass d n (tl rnds) (tl perms) r padding) as [o' p'] eqn:E. injection H as <- <-.
      destruct (IH _ _ _ _ _ (fun y Hy => Hsub y (or_intror Hy)) Hpad E) as [A B]. split; [exact A|constructor; [exact I|exact B]].
    + match type of H with context [snap_pass d n (tl rnds) (tl perms) r ?pp] => set (padding' := pp) in * end.
      destruct (snap_pass d n (tl rnds) (tl perms) r padding') as [o' p'] eqn:E. injection H as <- <-.
      assert (Hpad' : Forall (snap_ok d all) padding').
      { unfold padding'. destruct (Nat.ltb (length padding) n); [|exact Hpad]. apply Forall_app. split; [exact Hpad|].
        apply Forall_forall. intros y Hy. apply Hfn. right. eapply In_firstn. exact Hy. }
      destruct (IH _ _ _ _ _ (fun y Hy => Hsub y (or_intror Hy)) Hpad' E) as [A B].
      split; [exact A|constructor; [apply Hfn; left; reflexivity|exact B]].
Qed.

Lemma snap_fill_ok (P : row -> Prop) : forall o padding,
  Forall (fun r => match r with Some f => P f | None => True end) o -> Forall P padding -> Forall P (snap_fill o padding).
Proof.
  induction o as [|[f|] o IH]; intros padding Ho Hp; simpl; [constructor| |].
  - inversion Ho; subst. constructor; [assumption|apply IH; assumption].
  - inversion Ho; subst. destruct padding as [|g p]; [apply IH; [assumption|constructor]|].
    inversion Hp; subst. constructor; [assumption|apply IH; assumption].
Qed.

(* int_feasible_snap_sound: every row returned by the integer-feasible snapping satisfies every int constraint and is some
   input row (its own, or for a padded row another one) with the int-constrained coordinates moved to floor or ceiling and all
   other coordinates kept, for every shuffle and every outcome of the random-neighbour branch *)
Theorem int_feasible_snap_sound d rnds perms xs : Forall (snap_ok d xs) (snap_feasible d rnds perms xs).
Proof.
  unfold snap_feasible. destruct (snap_pass d (length xs) rnds perms xs []) as [o p] eqn:E.
  destruct (snap_pass_ok d (length xs) xs xs rnds perms [] o p (fun x H => H) (Forall_nil _) E) as [A B].
  apply snap_fill_ok; assumption.
Qed.

(* ------------------------------------------------------------------ the stochastic decode at a one-hot vertex *)
Definition nQ (n : nat) : Q := inject_Z (Z.of_nat n).
Lemma nQ_S n : nQ (S n) == nQ n + 1.
Proof. unfold nQ. rewrite Nat2Z.inj_succ. unfold Z.succ. rewrite inject_Z_plus. reflexivity. Qed.
Lemma nQ_nonneg n : 0 <= nQ n.
Proof. unfold nQ. change 0 with (inject_Z 0). rewrite <- Zle_Qle. lia. Qed.
Lemma nQ_plus a b : nQ (a + b) == nQ a + nQ b.
Proof. unfold nQ. rewrite Nat2Z.inj_add, inject_Z_plus. reflexivity. Qed.
Lemma nQ_le a b : (a <= b)%nat -> nQ a <= nQ b.
Proof. intros H. unfold nQ. rewrite <- Zle_Qle. lia. Qed.
Lemma eps300_pos : 0 < eps300.
Proof. unfold eps300, Qlt. cbn [Qnum Qden]. lia. Qed.

(* contract of numpy.power on the two values a one-hot block holds: 0 ** e = 0 and 1 ** e = 1 for e > 0 *)
Definition pow_contract (powf : Q -> Q -> Q) : Prop := forall e, 0 < e -> powf 0 e == 0 /\ powf 1 e == 1.

Lemma eff_temp_pos T : 0 < eff_temp T.
Proof.
  unfold eff_temp, Qmaxb. match goal with |- context [Qle_bool ?a min_temp] => set (t := a) end.
  destruct (Qle_bool t min_temp) eqn:E; [reflexivity|].
  assert (H : Qltb min_temp t = true) by (unfold Qltb; rewrite E; reflexivity).
  apply Qltb_lt in H. unfold min_temp in H. lra.
Qed.

Definition sumQ (l : list Q) : Q := fold_right Qplus 0 l.
Lemma qsum_from l : forall acc, fold_left (fun a b => Qred (a + b)) l acc == acc + sumQ l.
Proof.
  induction l as [|x l IH]; intros acc; [simpl; ring|]. cbn [fold_left]. rewrite IH, Qred_correct. simpl. ring.
Qed.
Lemma qsum_sumQ l : qsum l == sumQ l.
Proof. unfold qsum. rewrite qsum_from. ring. Qed.
Lemma sumQ_app a b : sumQ (a ++ b) == sumQ a + sumQ b.
Proof. induction a as [|x a IH]; simpl; [ring|]. rewrite IH. ring. Qed.
Lemma sumQ_repeat w n : sumQ (repeat w n) == nQ n * w.
Proof. induction n as [|n IH]; [change (nQ 0) with 0; simpl; ring|]. cbn [repeat sumQ fold_right]. fold (sumQ (repeat w n)). rewrite IH, nQ_S. ring. Qed.
Lemma map_repeat' {A B} (f : A -> B) a n : map f (repeat a n) = repeat (f a) n.
Proof. induction n as [|n IH]; simpl; [reflexivity|rewrite IH; reflexivity]. Qed.

(* numpy.random.choice: cdf.searchsorted(u, side="right") *)
Lemma draw_ix_ge u : forall l acc i j, draw_ix u acc l i = Some j -> (i <= j)%nat.
Proof.
  induction l as [|a l IH]; intros acc i j H; cbn [draw_ix] in H; [discriminate|].
  destruct (Qltb u (Qred (acc + a))); [injection H as <-; lia|]. apply IH in H. lia.
Qed.
Lemma draw_ix_skip u p0 l : 0 <= p0 -> forall a acc i, acc + nQ a * p0 <= u ->
  exists acc', acc' == acc + nQ a * p0 /\ draw_ix u acc (repeat p0 a ++ l) i = draw_ix u acc' l (i + a)%nat.
Proof.
  intros Hp. induction a as [|a IH]; intros acc i H.
  - exists acc. split; [change (nQ 0) with 0; ring|]. rewrite Nat.add_0_r. reflexivity.
  - rewrite nQ_S in H. pose proof (Qmult_le_0_compat _ _ (nQ_nonneg a) Hp) as Hn.
    cbn [repeat app draw_ix].
    assert (E : Qltb u (Qred (acc + p0)) = false) by (apply Qltb_ge; rewrite Qred_correct; lra).
    rewrite E. destruct (IH (Qred (acc + p0)) (S i)) as (acc' & Ha & Hd); [rewrite Qred_correct; lra|].
    exists acc'. split; [rewrite Ha, Qred_correct, nQ_S; ring|]. rewrite Hd. f_equal. lia.
Qed.
Lemma draw_ix_low u p0 l : 0 <= p0 -> forall a acc i, acc <= u -> u < acc + nQ a * p0 ->
  exists j, draw_ix u acc (repeat p0 a ++ l) i = Some j /\ (i <= j < i + a)%nat.
Proof.
  intros Hp. induction a as [|a IH]; intros acc i H1 H2.
  - exfalso. change (nQ 0) with 0 in H2. lra.
  - cbn [repeat app draw_ix]. destruct (Qltb u (Qred (acc + p0))) eqn:E; [exists i; split; [reflexivity|lia]|].
    apply Qltb_ge in E. rewrite Qred_correct in E. rewrite nQ_S in H2.
    destruct (IH (Qred (acc + p0)) (S i)) as (j & Hj & Hr); [rewrite Qred_correct; exact E|rewrite Qred_correct; lra|].
    exists j. split; [exact Hj|lia].
Qed.
(* the draw lands on position a of  p0 ... p0 p1 rest  exactly when  a*p0 <= u < a*p0 + p1 *)
Lemma draw_block u p0 p1 a rest : 0 <= p0 -> 0 <= p1 -> 0 <= u ->
  (draw_ix u 0 (repeat p0 a ++ p1 :: rest) 0 = Some a <-> nQ a * p0 <= u /\ u < nQ a * p0 + p1).
Proof.
  intros Hp0 Hp1 Hu. split.
  - intros H. split.
    + destruct (Qlt_le_dec u (nQ a * p0)) as [L|L]; [|exact L]. exfalso.
      destruct (draw_ix_low u p0 (p1 :: rest) Hp0 a 0 0%nat) as (j & Hj & Hr); [lra|lra|].
      rewrite H in Hj. injection Hj as <-. lia.
    + destruct (Qlt_le_dec u (nQ a * p0 + p1)) as [L|L]; [exact L|]. exfalso.
      destruct (draw_ix_skip u p0 (p1 :: rest) Hp0 a 0 0%nat) as (acc' & Ha & Hd); [lra|].
      rewrite Hd in H. cbn [draw_ix] in H.
      assert (E : Qltb u (Qred (acc' + p1)) = false) by (apply Qltb_ge; rewrite Qred_correct, Ha; lra).
      rewrite E in H. apply draw_ix_ge in H. simpl in H. lia.
  - intros [L U]. destruct (draw_ix_skip u p0 (p1 :: rest) Hp0 a 0 0%nat) as (acc' & Ha & Hd); [lra|].
    rewrite Hd. cbn [draw_ix].
    assert (E : Qltb u (Qred (acc' + p1)) = true) by (apply Qltb_lt; rewrite Qred_correct, Ha; lra).
    rewrite E. reflexivity.
Qed.

(* an exact one-hot block: a zeros, a one, b zeros *)
Definition onehot (a b : nat) : row := repeat 0 a ++ 1 :: repeat 0 b.

(* The probabilities rel_prob_func hands to numpy.random.choice at an exact one-hot vertex of a block of n = a+1+b categories:
   every OTHER category gets 1e-300 / (1 + n*1e-300), which is NOT zero (the code adds 1e-300 to every weight); the category
   of the vertex gets (1 + 1e-300) / (1 + n*1e-300). *)
Theorem rel_probs_onehot powf T a b : pow_contract powf ->
  exists p0 p1, rel_probs powf T (onehot a b) = repeat p0 a ++ p1 :: repeat p0 b /\
                p0 == eps300 / (1 + nQ (a + 1 + b) * eps300) /\ p1 == (1 + eps300) / (1 + nQ (a + 1 + b) * eps300) /\
                0 < p0 /\ 0 < p1.
Proof.
  intros Hpow. destruct (Hpow (/ eff_temp T) (Qinv_lt_0_compat _ (eff_temp_pos T))) as [H0 H1].
  set (w0 := Qred (powf 0 (/ eff_temp T) + eps300)). set (w1 := Qred (powf 1 (/ eff_temp T) + eps300)).
  set (s := qsum (repeat w0 a ++ w1 :: repeat w0 b)).
  assert (Hw0 : w0 == eps300) by (unfold w0; rewrite Qred_correct, H0; ring).
  assert (Hw1 : w1 == 1 + eps300) by (unfold w1; rewrite Qred_correct, H1; ring).
  assert (Hs : s == 1 + nQ (a + 1 + b) * eps300).
  { unfold s. rewrite qsum_sumQ, sumQ_app. cbn [sumQ fold_right]. fold (sumQ (repeat w0 b)). rewrite !sumQ_repeat, Hw0, Hw1, !nQ_plus.
    change (nQ 1) with 1. ring. }
  assert (Hpos : 0 < 1 + nQ (a + 1 + b) * eps300).
  { pose proof (Qmult_le_0_compat _ _ (nQ_nonneg (a + 1 + b)) (Qlt_le_weak _ _ eps300_pos)). lra. }
  exists (Qred (w0 / s)), (Qred (w1 / s)). split; [|split; [|split; [|split]]].
  - unfold rel_probs, rel_weights, onehot. rewrite map_app. cbn [map]. rewrite !map_repeat'. fold w0 w1. fold s.
    rewrite map_app. cbn [map]. rewrite !map_repeat'. reflexivity.
  - rewrite Qred_correct, Hw0, Hs. reflexivity.
  - rewrite Qred_correct, Hw1, Hs. reflexivity.
  - rewrite Qred_correct, Hw0, Hs. apply Qlt_shift_div_l; [exact Hpos|]. pose proof eps300_pos. lra.
  - rewrite Qred_correct, Hw1, Hs. apply Qlt_shift_div_l; [exact Hpos|]. pose proof eps300_pos. lra.
Qed.

(* the set of uniform draws for which numpy.random.choice returns position k of a block of n categories sitting at the one-hot
   vertex k (division-free form of  k*p0 <= u < k*p0 + p1): a lower tail of width k*1e-300/(1+n*1e-300) and an upper tail of
   width (n-k-1)*1e-300/(1+n*1e-300) are excluded *)
Definition in_window (n k : nat) (u : Q) : Prop :=
  nQ k * eps300 <= u * (1 + nQ n * eps300) /\ u * (1 + nQ n * eps300) < 1 + nQ (S k) * eps300.

Lemma div_le_iff x u s : 0 < s -> (x / s <= u <-> x <= u * s).
Proof.
  intros Hs. split; intros H.
  - assert (E : x == (x / s) * s) by (field; lra). rewrite E. apply Qmult_le_compat_r; [exact H|lra].
  - apply Qle_shift_div_r; assumption.
Qed.
Lemma lt_div_iff x u s : 0 < s -> (u < x / s <-> u * s < x).
Proof.
  intros Hs. split; intros H.
  - assert (E : x == (x / s) * s) by (field; lra). rewrite E. apply Qmult_lt_compat_r; assumption.
  - apply Qlt_shift_div_l; assumption.
Qed.

Theorem draw_onehot_iff powf T a b u : pow_contract powf -> 0 <= u ->
  (draw_ix u 0 (rel_probs powf T (onehot a b)) 0 = Some a <-> in_window (a + 1 + b) a u).
Proof.
  intros Hpow Hu. destruct (rel_probs_onehot powf T a b Hpow) as (p0 & p1 & -> & H0 & H1 & Hp0 & Hp1).
  rewrite draw_block by lra. unfold in_window. rewrite H0, H1.
  pose proof eps300_pos as He. revert He. generalize eps300. intros eps He.
  set (s := 1 + nQ (a + 1 + b) * eps).
  assert (Hs : 0 < s) by (unfold s; pose proof (Qmult_le_0_compat _ _ (nQ_nonneg (a + 1 + b)) (Qlt_le_weak _ _ He)); lra).
  assert (E1 : nQ a * (eps / s) == (nQ a * eps) / s) by (field; lra).
  assert (E2 : nQ a * (eps / s) + (1 + eps) / s == (1 + nQ (S a) * eps) / s) by (rewrite nQ_S; field; lra).
  rewrite E2, E1, div_le_iff, lt_div_iff by exact Hs. reflexivity.
Qed.

(* a sufficient, uniform condition: u in [n*1e-300, 1 - n*1e-300] *)
Lemma in_window_uniform n m k u : (k < n)%nat -> (n <= m)%nat ->
  nQ m * eps300 <= u -> u <= 1 - nQ m * eps300 -> in_window n k u.
Proof.
  intros Hk Hn L U. unfold in_window. pose proof eps300_pos as He. revert He L U. generalize eps300. intros eps He L U.
  pose proof (nQ_le k n (Nat.lt_le_incl _ _ Hk)) as H1. pose proof (nQ_le n m Hn) as H2.
  pose proof (nQ_nonneg k) as H3. pose proof (nQ_S k) as H4. revert L U H1 H2 H3 H4.
  generalize (nQ k) (nQ n) (nQ m) (nQ (S k)). intros qk qn qm qsk L U H1 H2 H3 H4. rewrite H4.
  assert (A1 : qk * eps <= qm * eps) by (apply Qmult_le_compat_r; lra).
  assert (A2 : qn * eps <= qm * eps) by (apply Qmult_le_compat_r; lra).
  assert (A3 : 0 <= qn * eps) by (apply Qmult_le_0_compat; lra).
  assert (A6 : 0 <= qm * eps) by lra.
  assert (A4 : 0 <= u) by lra.
  assert (A5 : 0 <= u * (qn * eps)) by (apply Qmult_le_0_compat; assumption).
  assert (A7 : u * (qn * eps) <= 1 * (qn * eps)) by (apply Qmult_le_compat_r; lra).
  assert (A8 : 0 <= qk * eps) by (apply Qmult_le_0_compat; lra).
  split; lra.
Qed.

(* ------------------------------------------------------------------ the encoder writes exact one-hot blocks *)
Fixpoint find_pos (v : Q) (es : list Z) : nat :=
  match es with [] => O | e :: r => if Qeq_bool v (inject_Z e) then O else S (find_pos v r) end.

Lemma indicator_zeros v z : v == inject_Z z -> forall l, ~ In z l ->
  map (fun e => if Qeq_bool v (inject_Z e) then 1 else 0) l = repeat 0 (length l).
Proof.
  intros Hv. induction l as [|e l IH]; intros Hn; [reflexivity|]. simpl.
  destruct (Qeq_bool v (inject_Z e)) eqn:E.
  - exfalso. apply Hn. left. apply Qeq_bool_iff in E. rewrite Hv in E. apply (proj1 (inject_Z_injective _ _)) in E. congruence.
  - rewrite IH; [reflexivity|]. intros H. apply Hn. right. exact H.
Qed.
Lemma indicator_onehot v z : v == inject_Z z -> forall es, In z es -> NoDup es ->
  map (fun e => if Qeq_bool v (inject_Z e) then 1 else 0) es = onehot (find_pos v es) (length es - find_pos v es - 1) /\
  nth_error es (find_pos v es) = Some z /\ (find_pos v es < length es)%nat.
Proof.
  intros Hv. induction es as [|e r IH]; intros Hin Hnd; [destruct Hin|].
  inversion Hnd as [|? ? Hne Hnr]; subst. cbn [map find_pos]. destruct (Qeq_bool v (inject_Z e)) eqn:E.
  - apply Qeq_bool_iff in E. rewrite Hv in E. apply (proj1 (inject_Z_injective _ _)) in E. subst e.
    rewrite (indicator_zeros v z Hv r Hne). unfold onehot. simpl. rewrite Nat.sub_0_r. repeat split; lia.
  - destruct Hin as [->|Hin].
    + exfalso. assert (Qeq_bool v (inject_Z z) = true) by (apply Qeq_bool_iff; exact Hv). congruence.
    + destruct (IH Hin Hnr) as (A & B & Cc). rewrite A. unfold onehot. simpl. repeat split; [exact B|lia].
Qed.

(* the uniform draws (one per categorical parameter, in order) lie in the window of the category the point holds *)
Fixpoint draws_in_window (cs : list component) (p : point) (us : list Q) : Prop :=
  match cs, p with
  | Cat es :: r, v :: t => match us with
                           | u :: us' => 0 <= u /\ in_window (length es) (find_pos v es) u /\ draws_in_window r t us'
                           | [] => False
                           end
  | _ :: r, _ :: t => draws_in_window r t us
  | _, _ => True
  end.

Lemma stoch_roundtrip_cs powf T : pow_contract powf ->
  forall cs p, Forall (fun c => wf_component c = true) cs -> Forall2 in_component cs p ->
  forall us, draws_in_window cs p us ->
  exists q, decode_gen (choose_draw powf T) cs us (enc cs p) = Some q /\ peq q p.
Proof.
  intros Hpow cs p Hwf H. induction H as [|c v cs' p' Hc _ IH]; intros us Hus.
  - exists []. split; [reflexivity|constructor].
  - inversion Hwf as [|? ? Hwc Hwr]; subst. destruct c as [lo hi|lo hi|es|es].
    + destruct (IH Hwr us Hus) as (q' & Hq & Hpe). exists (v :: q').
      split; [cbn [enc decode_gen]; rewrite Hq; reflexivity|constructor; [reflexivity|exact Hpe]].
    + destruct (IH Hwr us Hus) as (q' & Hq & Hpe). destruct Hc as (z & Hz & Hr).
      exists (inject_Z (round_half_even v) :: q').
      split; [cbn [enc decode_gen]; rewrite Hq; reflexivity|]. constructor; [|exact Hpe].
      rewrite (round_of_int _ _ Hz). symmetry. exact Hz.
    + destruct Hc as (z & Hz & Hv). destruct us as [|u us']; [destruct Hus|]. destruct Hus as (Hu & Hw & Hus).
      destruct (IH Hwr us' Hus) as (q' & Hq & Hpe).
      destruct (indicator_onehot v z Hv es Hz (nodupb_NoDup _ (wf_cat es Hwc))) as (A & B & Cc).
      set (k := find_pos v es) in *. exists (inject_Z z :: q'). split; [|constructor; [symmetry; exact Hv|exact Hpe]].
      cbn [enc decode_gen]. rewrite A.
      assert (Hl : length (onehot k (length es - k - 1)) = length es)
        by (unfold onehot; rewrite app_length; simpl; rewrite !repeat_length; lia).
      rewrite app_length, Hl.
      assert (El : Nat.ltb (length es + length (enc cs' p')) (length es) = false) by (apply Nat.ltb_ge; lia).
      rewrite El, (firstn_app_len _ _ _ Hl), (skipn_app_len _ _ _ Hl).
      unfold choose_draw at 1.
      assert (Hd : draw_ix u 0 (rel_probs powf T (onehot k (length es - k - 1))) 0 = Some k).
      { apply draw_onehot_iff; [exact Hpow|exact Hu|]. replace (k + 1 + (length es - k - 1))%nat with (length es) by lia. exact Hw. }
      rewrite Hd, B, Hq. reflexivity.
    + destruct (IH Hwr us Hus) as (q' & Hq & Hpe). destruct Hc as (e & He & Hv).
      exists (nearest v es :: q'). split; [cbn [enc decode_gen]; rewrite Hq; reflexivity|].
      constructor; [apply (nearest_fix v es e He Hv)|exact Hpe].
Qed.

Lemma encode_enc d p : Forall2 in_component (comps d) p -> encode d p = enc (comps d) p.
Proof.
  intros Hin. unfold encode. destruct (has_cat (comps d)) eqn:E; [reflexivity|]. symmetry. apply enc_nocat; [exact E|].
  clear - Hin. induction Hin; simpl; congruence.
Qed.

(* C09_decode_roundtrip: the stochastic decode of the encoding of an admissible configuration returns that configuration, for
   every temperature (None, 0, below the minimum, any value) and every list of uniform draws lying in the windows *)
Theorem decode_roundtrip powf d T us p : pow_contract powf -> wf_domain d = true -> Admissible d p ->
  draws_in_window (comps d) p us -> exists q, decode_row powf d T us (encode d p) = Some q /\ peq q p.
Proof.
  intros Hpow Hwf [Hin _] Hus. rewrite (encode_enc d p Hin). unfold decode_row.
  apply stoch_roundtrip_cs; [exact Hpow|apply wf_domain_comps; exact Hwf|exact Hin|exact Hus].
Qed.

(* the hypothesis is exact, block by block: at the one-hot vertex of category z = es[k], a draw u in [0,1) returns z if and only if
   it lies in the window *)
Theorem choose_draw_onehot_iff powf T u es k z : pow_contract powf -> NoDup es -> nth_error es k = Some z -> 0 <= u ->
  (choose_draw powf T u (onehot k (length es - k - 1)) es = Some z <-> in_window (length es) k u).
Proof.
  intros Hpow Hnd Hk Hu. assert (Hkl : (k < length es)%nat) by (apply nth_error_Some; congruence).
  pose proof (draw_onehot_iff powf T k (length es - k - 1) u Hpow Hu) as H.
  replace (k + 1 + (length es - k - 1))%nat with (length es) in H by lia. rewrite <- H. unfold choose_draw.
  destruct (draw_ix u 0 (rel_probs powf T (onehot k (length es - k - 1))) 0) as [j|] eqn:E.
  - split; [|intros E'; injection E' as ->; exact Hk]. intros Hj. f_equal.
    apply (proj1 (NoDup_nth_error es) Hnd); [apply nth_error_Some; congruence|congruence].
  - split; discriminate.
Qed.

(* uniform sufficient condition on the draws: each u in [m*1e-300, 1 - m*1e-300], m the largest number of categories *)
Definition max_cats (cs : list component) : nat := fold_right (fun c m => Nat.max (width c) m) O cs.
Lemma draws_uniform_window : forall cs p us, Forall (fun c => wf_component c = true) cs -> Forall2 in_component cs p ->
  forall m, (max_cats cs <= m)%nat -> (length (filter is_cat cs) <= length us)%nat ->
  Forall (fun u => nQ m * eps300 <= u /\ u <= 1 - nQ m * eps300) us -> draws_in_window cs p us.
Proof.
  intros cs p us Hwf H. revert us. induction H as [|c v cs' p' Hc _ IH]; intros us m Hm Hl Hu; [exact I|].
  inversion Hwf as [|? ? Hwc Hwr]; subst. cbn [max_cats fold_right] in Hm. fold (max_cats cs') in Hm.
  destruct c as [lo hi|lo hi|es|es]; cbn [draws_in_window]; cbn [filter is_cat] in Hl.
  1,2,4: apply (IH Hwr us m); [lia|exact Hl|exact Hu].
  destruct us as [|u us']; [simpl in Hl; lia|]. inversion Hu as [|? ? [L U] Hu']; subst.
  destruct Hc as (z & Hz & Hv). destruct (indicator_onehot v z Hv es Hz (nodupb_NoDup _ (wf_cat es Hwc))) as (_ & _ & Hk).
  cbn [width] in Hm. split; [|split].
  - pose proof (Qmult_le_0_compat _ _ (nQ_nonneg m) (Qlt_le_weak _ _ eps300_pos)). lra.
  - apply (in_window_uniform (length es) m); [exact Hk|lia|exact L|exact U].
  - apply (IH Hwr us' m); [lia|simpl in Hl; lia|exact Hu'].
Qed.

Theorem decode_roundtrip_uniform powf d T us p : pow_contract powf -> wf_domain d = true -> Admissible d p ->
  (length (filter is_cat (comps d)) <= length us)%nat ->
  Forall (fun u => nQ (max_cats (comps d)) * eps300 <= u /\ u <= 1 - nQ (max_cats (comps d)) * eps300) us ->
  exists q, decode_row powf d T us (encode d p) = Some q /\ peq q p.
Proof.
  intros Hpow Hwf Ha Hl Hu. apply decode_roundtrip; try assumption. destruct Ha as [Hin _].
  apply (draws_uniform_window _ _ _ (wf_domain_comps d Hwf) Hin (max_cats (comps d))); [lia|exact Hl|exact Hu].
Qed.

(* the converse: when the decode of the encoding returns the configuration, every draw was in its window *)
Lemma stoch_roundtrip_cs_conv powf T : pow_contract powf ->
  forall cs p, Forall (fun c => wf_component c = true) cs -> Forall2 in_component cs p ->
  forall us q, Forall (fun u => 0 <= u) us ->
  decode_gen (choose_draw powf T) cs us (enc cs p) = Some q -> peq q p -> draws_in_window cs p us.
Proof.
  intros Hpow cs p Hwf H. induction H as [|c v cs' p' Hc _ IH]; intros us q Hus Hd Hpe; [exact I|].
  inversion Hwf as [|? ? Hwc Hwr]; subst.
  assert (Hscalar : is_cat c = false -> draws_in_window (c :: cs') (v :: p') us).
  { intros Hcat. destruct c as [lo hi|lo hi|es|es]; try discriminate; cbn [enc decode_gen] in Hd;
      (destruct (decode_gen (choose_draw powf T) cs' us (enc cs' p')) as [q'|] eqn:E; [|discriminate]);
      injection Hd as <-; inversion Hpe; subst; cbn [draws_in_window]; apply (IH Hwr us q'); assumption. }
  destruct c as [lo hi|lo hi|es|es]; try (apply Hscalar; reflexivity). clear Hscalar.
  destruct Hc as (z & Hz & Hv). pose proof (nodupb_NoDup _ (wf_cat es Hwc)) as Hnd.
  destruct (indicator_onehot v z Hv es Hz Hnd) as (A & B & Cc).
  set (k := find_pos v es) in *. cbn [enc decode_gen] in Hd. rewrite A in Hd.
  assert (Hl : length (onehot k (length es - k - 1)) = length es)
    by (unfold onehot; rewrite app_length; simpl; rewrite !repeat_length; lia).
  rewrite app_length, Hl in Hd.
  assert (El : Nat.ltb (length es + length (enc cs' p')) (length es) = false) by (apply Nat.ltb_ge; lia).
  rewrite El, (firstn_app_len _ _ _ Hl), (skipn_app_len _ _ _ Hl) in Hd.
  destruct us as [|u us']; [discriminate|]. inversion Hus as [|? ? Hu Hus']; subst.
  destruct (choose_draw powf T u (onehot k (length es - k - 1)) es) as [c|] eqn:Ec; [|discriminate].
  destruct (decode_gen (choose_draw powf T) cs' us' (enc cs' p')) as [q'|] eqn:E; [|discriminate].
  injection Hd as <-. inversion Hpe as [|? ? ? ? Hcv Hpe']; subst.
  assert (c = z) by (rewrite Hv in Hcv; apply (proj1 (inject_Z_injective _ _)) in Hcv; exact Hcv). subst c.
  cbn [draws_in_window]. fold k. split; [exact Hu|]. split.
  - apply (choose_draw_onehot_iff powf T u es k z Hpow Hnd B Hu). exact Ec.
  - apply (IH Hwr us' q'); assumption.
Qed.

(* C09_decode_roundtrip, exact form: for draws in [0,1) (only 0 <= u is used), the stochastic decode of the encoding of an
   admissible configuration returns that configuration IF AND ONLY IF every draw lies in its window *)
Theorem decode_roundtrip_iff powf d T us p : pow_contract powf -> wf_domain d = true -> Admissible d p ->
  Forall (fun u => 0 <= u) us ->
  ((exists q, decode_row powf d T us (encode d p) = Some q /\ peq q p) <-> draws_in_window (comps d) p us).
Proof.
  intros Hpow Hwf Ha Hus. split; [|apply decode_roundtrip; assumption].
  destruct Ha as [Hin _]. intros (q & Hq & Hpe). rewrite (encode_enc d p Hin) in Hq. unfold decode_row in Hq.
  eapply stoch_roundtrip_cs_conv; try eassumption. apply wf_domain_comps. exact Hwf.
Qed.

(* without the hypothesis on the draws the round trip is false: the draw u = 0 (a value numpy's random_sample can return) at the
   one-hot vertex of the third category returns the first category *)
Lemma pow_int_contract : pow_contract pow_int.
Proof.
  intros e He. unfold pow_int. destruct (Qnum (Qred e)) eqn:En; [| |].
  1,3: split; reflexivity.
  destruct (Qden (Qred e)); try (split; reflexivity). split.
  - rewrite Qred_correct. apply Qpower_positive_0.
  - rewrite Qred_correct. apply Qpower_positive_1.
Qed.
Theorem decode_roundtrip_all_draws_refuted :
  exists d T us p, wf_domain d = true /\ Admissible d p /\ Forall (fun u => 0 <= u /\ u < 1) us /\
    ~ (exists q, decode_row pow_int d T us (encode d p) = Some q /\ peq q p).
Proof.
  exists {| comps := [Double (-2) 5; Cat [5; 1; 7]%Z]; cons := [] |}, None, [0], [(3#2); 7].
  split; [reflexivity|]. split; [apply admissibleb_spec; reflexivity|].
  split; [constructor; [split; [apply Qle_refl|reflexivity]|constructor]|].
  intros (q & Hq & Hpe). vm_compute in Hq. injection Hq as <-.
  inversion Hpe as [|? ? ? ? _ H2]; subst. inversion H2 as [|? ? ? ? H3 _]; subst. revert H3. compute. discriminate.
Qed.

(* ------------------------------------------------------------------ completeness of the integer-feasible snap *)
(* some floor/ceil combination of the int-constrained coordinates of x satisfies every int constraint *)
Definition has_feasible_vertex (d : domain) (x : row) : Prop :=
  exists r, nbr_of (int_mask d) x r /\ sat_cons (comps d) (int_cons d) r = true.
(* contract of numpy.random.shuffle: the oracle list of positions for each row is a permutation of the positions of that row's
   feasible neighbours *)
Fixpoint perms_ok (d : domain) (rnds : list (list (list bool))) (perms : list (list nat)) (xs : list row) : Prop :=
  match xs with
  | [] => True
  | x :: r => Permutation (hd [] perms) (seq 0 (length (feasible_neighbors d (hd [] rnds) x))) /\
              perms_ok d (tl rnds) (tl perms) r
  end.
(* what the first pass leaves for a row: a feasible neighbour of the row itself, or a hole when the row has none *)
Definition row_snapped (d : domain) (x : row) (o : option row) : Prop :=
  match o with
  | Some f => sat_cons (comps d) (int_cons d) f = true /\ nbr_of (int_mask d) x f
  | None => ~ has_feasible_vertex d x
  end.

Lemma permute_nonempty {A} (perm : list nat) (l : list A) :
  Permutation perm (seq 0 (length l)) -> l <> [] -> permute perm l <> [].
Proof.
  intros Hp Hl. destruct l as [|a l]; [congruence|].
  assert (H0 : In O perm). { eapply Permutation_in; [symmetry; exact Hp|]. simpl. left. reflexivity. }
  assert (Ha : In a (permute perm (a :: l))).
  { unfold permute. apply in_flat_map. exists O. split; [exact H0|]. simpl. left. reflexivity. }
  intros E. rewrite E in Ha. exact Ha.
Qed.

Lemma feasible_vertex_found d rnd x : (count_true (int_mask d) <= max_grid_dim)%nat ->
  has_feasible_vertex d x -> feasible_neighbors d rnd x <> [].
Proof.
  intros Hc (r & Hn & Hs) E.
  assert (Hin : In r (feasible_neighbors d rnd x)).
  { unfold feasible_neighbors. apply filter_In. split; [|exact Hs]. unfold int_neighbors.
    apply Nat.leb_le in Hc. rewrite Hc. apply lattice_spec. exact Hn. }
  rewrite E in Hin. exact Hin.
Qed.

Lemma snap_pass_complete d n : (count_true (int_mask d) <= max_grid_dim)%nat ->
  forall xs rnds perms padding o p, perms_ok d rnds perms xs ->
  snap_pass d n rnds perms xs padding = (o, p) -> Forall2 (row_snapped d) xs o.
Proof.
  intros Hc. induction xs as [|x r IH]; intros rnds perms padding o p Hp H.
  - simpl in H. injection H as <- <-. constructor.
  - destruct Hp as [Hp1 Hp2]. cbn [snap_pass] in H.
    destruct (permute (hd [] perms) (feasible_neighbors d (hd [] rnds) x)) as [|f rest] eqn:Efn.
    + destruct (snap_pass d n (tl rnds) (tl perms) r padding) as [o' p'] eqn:E. injection H as <- <-.
      constructor; [|eapply IH; eassumption]. intros Hf.
      apply (permute_nonempty _ _ Hp1 (feasible_vertex_found d (hd [] rnds) x Hc Hf)). exact Efn.
    + match type of H with context [snap_pass d n (tl rnds) (tl perms) r ?pp] => set (padding' := pp) in * end.
      destruct (snap_pass d n (tl rnds) (tl perms) r padding') as [o' p'] eqn:E. injection H as <- <-.
      constructor; [|eapply IH; eassumption].
      assert (Hin : In f (feasible_neighbors d (hd [] rnds) x)) by (apply (permute_In (hd [] perms)); rewrite Efn; left; reflexivity).
      unfold feasible_neighbors in Hin. apply filter_In in Hin. destruct Hin as [Hn Hs].
      split; [exact Hs|eapply int_neighbors_spec; exact Hn].
Qed.

(* the second pass, without the final numpy.delete: holes take the spare neighbours in order, remaining holes stay holes *)
Fixpoint fill_opt (o : list (option row)) (padding : list row) : list (option row) :=
  match o with
  | [] => []
  | Some f :: r => Some f :: fill_opt r padding
  | None :: r => match padding with [] => None :: fill_opt r [] | f :: p => Some f :: fill_opt r p end
  end.
Definition somes {A} (l : list (option A)) : list A := flat_map (fun o => match o with Some a => [a] | None => [] end) l.

Lemma snap_fill_somes : forall o padding, snap_fill o padding = somes (fill_opt o padding).
Proof.
  induction o as [|[f|] o IH]; intros padding; simpl; [reflexivity|rewrite IH; reflexivity|].
  destruct padding as [|g p]; simpl; rewrite IH; reflexivity.
Qed.
Lemma fill_opt_keeps : forall o padding, Forall2 (fun a b => forall f, a = Some f -> b = Some f) o (fill_opt o padding).
Proof.
  induction o as [|[f|] o IH]; intros padding; simpl; [constructor|constructor; [auto|apply IH]|].
  destruct padding as [|g p]; (constructor; [intros f H; discriminate|apply IH]).
Qed.

(* int_feasible_snap_complete, general form: the returned batch is a row-by-row list with only holes deleted, and a row that has
   a feasible floor/ceil combination of its own is never a hole: it is replaced by one of its own feasible combinations *)
Theorem int_feasible_snap_complete_rows d rnds perms xs :
  (count_true (int_mask d) <= max_grid_dim)%nat -> perms_ok d rnds perms xs ->
  exists filled, snap_feasible d rnds perms xs = somes filled /\
    Forall2 (fun x o => has_feasible_vertex d x ->
               exists f, o = Some f /\ sat_cons (comps d) (int_cons d) f = true /\ nbr_of (int_mask d) x f) xs filled.
Proof.
  intros Hc Hp. unfold snap_feasible. destruct (snap_pass d (length xs) rnds perms xs []) as [o p] eqn:E.
  exists (fill_opt o p). split; [apply snap_fill_somes|].
  pose proof (snap_pass_complete d (length xs) Hc xs rnds perms [] o p Hp E) as H1.
  pose proof (fill_opt_keeps o p) as H2. revert H2. generalize (fill_opt o p). clear E Hp.
  induction H1 as [|x oi xs' o' Hx _ IH]; intros fl H2; inversion H2; subst; [constructor|].
  constructor; [|apply IH; assumption]. intros Hf. destruct oi as [f|]; [|exfalso; exact (Hx Hf)]. exists f. split; [auto|exact Hx].
Qed.

(* every row has a feasible combination (the property's "int-constraint sets with an integer solution near the point"):
   no row is deleted or replaced by another row's neighbour; row i of the result is a feasible combination of row i *)
Theorem int_feasible_snap_complete d rnds perms xs :
  (count_true (int_mask d) <= max_grid_dim)%nat -> perms_ok d rnds perms xs -> Forall (has_feasible_vertex d) xs ->
  Forall2 (fun x f => sat_cons (comps d) (int_cons d) f = true /\ nbr_of (int_mask d) x f) xs (snap_feasible d rnds perms xs).
Proof.
  intros Hc Hp Hall. destruct (int_feasible_snap_complete_rows d rnds perms xs Hc Hp) as (filled & -> & H).
  clear Hp. revert Hall. induction H as [|x o xs' fl Hx _ IH]; intros Hall; [constructor|].
  inversion Hall as [|? ? Hx1 Hxs]; subst.
  destruct (Hx Hx1) as (f & -> & Hf). simpl. constructor; [exact Hf|apply IH; exact Hxs].
Qed.

(* ------------------------------------------------------------------ the floor/ceil combinations stay in the relaxed box *)
Lemma nbr_of_false_prefix : forall n m x r, (n <= length x)%nat -> nbr_of (repeat false n ++ m) x r ->
  exists r', r = firstn n x ++ r' /\ nbr_of m (skipn n x) r'.
Proof.
  induction n as [|n IH]; intros m x r Hl H; [exists r; split; [reflexivity|exact H]|].
  destruct x as [|v t]; [simpl in Hl; lia|]. cbn [repeat app nbr_of] in H. destruct r as [|o r0]; [destruct H|].
  destruct H as [-> H]. destruct (IH m t r0) as (r' & -> & Hr); [simpl in Hl; lia|exact H|].
  exists r'. split; [reflexivity|exact Hr].
Qed.

Lemma any_nonzero_int c cs ws : Forall (fun w => forall2b (weight_ok CInt) w (c :: cs) = true) ws ->
  any_nonzero ws = true -> is_int c = true.
Proof.
  induction 1 as [|w ws Hw _ IH]; simpl; [discriminate|]. rewrite orb_true_iff. intros [H|H]; [|apply IH; exact H].
  destruct w as [|a w']; [simpl in Hw; discriminate|]. cbn [forall2b] in Hw. apply andb_true_iff in Hw. destruct Hw as [Ha _].
  simpl in H. apply negb_true_iff in H. unfold weight_ok in Ha. rewrite H in Ha. destruct c; simpl in *; congruence.
Qed.
Lemma tl_weight_ok c cs ws : Forall (fun w => forall2b (weight_ok CInt) w (c :: cs) = true) ws ->
  Forall (fun w => forall2b (weight_ok CInt) w cs = true) (map (@tl Q) ws).
Proof.
  induction 1 as [|w ws Hw _ IH]; simpl; constructor; [|exact IH].
  destruct w as [|a w']; [simpl in Hw; discriminate|]. cbn [forall2b] in Hw. apply andb_true_iff in Hw. simpl. tauto.
Qed.

Lemma floor_ceil_in_range (lo hi : Z) v : inject_Z lo <= v -> v <= inject_Z hi ->
  (inject_Z lo <= inject_Z (Qfloor v) /\ inject_Z (Qfloor v) <= inject_Z hi) /\
  (inject_Z lo <= inject_Z (Qceiling v) /\ inject_Z (Qceiling v) <= inject_Z hi).
Proof.
  intros Hlo Hhi. pose proof (Qfloor_le v) as F. pose proof (Qle_ceiling v) as Cc.
  pose proof (Qfloor_resp_le _ _ Hlo) as F2. rewrite Qfloor_Z in F2.
  pose proof (Qceiling_resp_le _ _ Hhi) as C2. rewrite Qceiling_Z in C2.
  rewrite Zle_Qle in F2, C2. repeat split; lra.
Qed.

Lemma nbr_in_box_cs : forall cs ws x r, Forall (fun w => forall2b (weight_ok CInt) w cs = true) ws ->
  in_box (flat_map box_of cs) x -> nbr_of (cmask cs ws) x r -> in_box (flat_map box_of cs) r.
Proof.
  induction cs as [|c cs IH]; intros ws x r Hws Hb Hn.
  - simpl in Hn. subst r. exact Hb.
  - assert (Hscalar : forall lo hi : Q, box_of c = [(lo, hi)] -> is_cat c = false ->
              (any_nonzero ws = true -> exists zl zh, lo = inject_Z zl /\ hi = inject_Z zh) ->
              cmask (c :: cs) ws = any_nonzero ws :: cmask cs (map (@tl Q) ws) -> in_box (flat_map box_of (c :: cs)) r).
    { intros lo hi Hbox _ Hint Hm. rewrite Hm in Hn. cbn [flat_map] in Hb |- *. rewrite Hbox in Hb |- *.
      simpl in Hb. inversion Hb as [|? v ? t Hv Ht]; subst. simpl in Hv.
      destruct (any_nonzero ws) eqn:E; cbn [nbr_of] in Hn; (destruct r as [|o r0]; [destruct Hn|]); destruct Hn as [Ho Hn].
      - destruct (Hint eq_refl) as (zl & zh & -> & ->).
        destruct (floor_ceil_in_range zl zh v (proj1 Hv) (proj2 Hv)) as [Hf Hc].
        simpl. constructor; [destruct Ho as [->| ->]; simpl; assumption|].
        apply (IH (map (@tl Q) ws) t r0); [apply (tl_weight_ok c); exact Hws|exact Ht|exact Hn].
      - subst o. simpl. constructor; [exact Hv|].
        apply (IH (map (@tl Q) ws) t r0); [apply (tl_weight_ok c); exact Hws|exact Ht|exact Hn]. }
    destruct c as [lo hi|lo hi|es|es].
    + apply (Hscalar lo hi); [reflexivity|reflexivity| |reflexivity].
      intros E. pose proof (any_nonzero_int _ _ _ Hws E). discriminate.
    + apply (Hscalar (inject_Z lo) (inject_Z hi)); [reflexivity|reflexivity| |reflexivity]. intros _. exists lo, hi. auto.
    + clear Hscalar. cbn [cmask] in Hn. cbn [flat_map box_of] in Hb |- *.
      apply Forall2_app_inv_l in Hb. destruct Hb as (x1 & x2 & H1 & H2 & ->).
      pose proof (Forall2_len _ _ _ H1) as Hl. rewrite repeat_length in Hl.
      destruct (nbr_of_false_prefix (length es) (cmask cs (map (@tl Q) ws)) (x1 ++ x2) r) as (r' & -> & Hr);
        [rewrite app_length; lia|exact Hn|].
      rewrite (firstn_app_len _ _ _ (eq_sym Hl)). rewrite (skipn_app_len _ _ _ (eq_sym Hl)) in Hr.
      apply Forall2_app; [exact H1|]. apply (IH (map (@tl Q) ws) x2 r'); [apply (tl_weight_ok (Cat es)); exact Hws|exact H2|exact Hr].
    + apply (Hscalar (list_min es) (list_max es)); [reflexivity|reflexivity| |reflexivity].
      intros E. pose proof (any_nonzero_int _ _ _ Hws E). discriminate.
Qed.

(* a floor/ceil combination of the int-constrained coordinates of a point of the relaxed box is again in the relaxed box
   (the int bounds are integers), so "satisfies the int constraints" is all the feasibility filter has to test *)
Theorem nbr_in_box d x r : wf_domain d = true -> in_box (one_hot_box d) x -> nbr_of (int_mask d) x r -> in_box (one_hot_box d) r.
Proof.
  intros Hwf Hb Hn. unfold one_hot_box, int_mask in *. eapply nbr_in_box_cs; [|exact Hb|exact Hn].
  apply Forall_forall. intros w Hw. apply in_map_iff in Hw. destruct Hw as (k & <- & Hk).
  unfold int_cons in Hk. apply filter_In in Hk. destruct Hk as [Hk Ht].
  pose proof (wf_domain_cons d k Hwf Hk) as H. destruct (cty k); [discriminate|exact H].
Qed.

(* ------------------------------------------------------------------ the categorical neighbour lattice *)
(* r is x with every categorical block replaced by a one-hot vertex (the unit vector at some position of the block) and every
   other coordinate kept *)
Fixpoint cat_vertex (cs : list component) (x r : row) : Prop :=
  match cs with
  | [] => r = x
  | Cat es :: cs' =>
      exists i r', (i < length es)%nat /\ r = unit_vec (length es) i ++ r' /\ cat_vertex cs' (skipn (length es) x) r'
  | _ :: cs' => match x with
                | v :: t => exists r', r = v :: r' /\ cat_vertex cs' t r'
                | [] => r = []
                end
  end.
(* product_of_categories *)
Fixpoint cat_count (cs : list component) : nat :=
  match cs with [] => 1%nat | Cat es :: r => (length es * cat_count r)%nat | _ :: r => cat_count r end.

Theorem cat_lattice_spec : forall cs x r, In r (cat_lattice cs x) <-> cat_vertex cs x r.
Proof.
  induction cs as [|c cs IH]; intros x r.
  - simpl. split; [intros [H|[]]; symmetry; exact H|intros ->; left; reflexivity].
  - destruct c as [lo hi|lo hi|es|es]; cbn [cat_lattice cat_vertex].
    1,2,4: destruct x as [|v t];
      [simpl; split; [intros [H|[]]; symmetry; exact H|intros ->; left; reflexivity]
      |rewrite in_map_iff; split;
        [intros (r' & <- & H); exists r'; split; [reflexivity|apply IH; exact H]
        |intros (r' & -> & H); exists r'; split; [reflexivity|apply IH; exact H]]].
    rewrite in_flat_map. split.
    + intros (i & Hi & H). apply in_seq in Hi. apply in_map_iff in H. destruct H as (r' & <- & H).
      exists i, r'. split; [lia|]. split; [reflexivity|apply IH; exact H].
    + intros (i & r' & Hi & -> & H). exists i. split; [apply in_seq; lia|]. apply in_map_iff.
      exists r'. split; [reflexivity|apply IH; exact H].
Qed.

Lemma flat_map_length_const {A B} (f : A -> list B) n : forall l, (forall a, In a l -> length (f a) = n) ->
  length (flat_map f l) = (length l * n)%nat.
Proof.
  induction l as [|a l IH]; intros H; [reflexivity|]. simpl. rewrite app_length, IH, H; [reflexivity|left; reflexivity|].
  intros b Hb. apply H. right. exact Hb.
Qed.

Theorem cat_lattice_length : forall cs x, (one_hot_dim cs <= length x)%nat -> length (cat_lattice cs x) = cat_count cs.
Proof.
  induction cs as [|c cs IH]; intros x Hl; [reflexivity|].
  destruct c as [lo hi|lo hi|es|es]; cbn [cat_lattice cat_count]; cbn [one_hot_dim fold_right width] in Hl;
    fold (one_hot_dim cs) in Hl.
  1,2,4: destruct x as [|v t]; [simpl in Hl; lia|]; rewrite map_length; apply IH; simpl in Hl; lia.
  rewrite (flat_map_length_const _ (cat_count cs)); [rewrite seq_length; reflexivity|].
  intros i _. rewrite map_length. apply IH. rewrite skipn_length. lia.
Qed.

(* no duplicates, up to Qeq on the coordinates *)
Lemma peq_refl a : peq a a.
Proof. induction a; constructor; [reflexivity|assumption]. Qed.
Lemma peq_sym a b : peq a b -> peq b a.
Proof. induction 1; constructor; [symmetry; assumption|assumption]. Qed.
Lemma peq_trans a b c : peq a b -> peq b c -> peq a c.
Proof.
  intros H. revert c. induction H as [|x y a b Hxy _ IH]; intros c Hc; inversion Hc; subst; constructor.
  - etransitivity; eassumption.
  - apply IH. assumption.
Qed.
Lemma peq_Equivalence : Equivalence peq.
Proof. split; [exact peq_refl|exact peq_sym|exact peq_trans]. Qed.

Lemma peq_app_inv a : forall a' b b', length a = length a' -> peq (a ++ b) (a' ++ b') -> peq a a' /\ peq b b'.
Proof.
  induction a as [|x a IH]; intros [|y a'] b b' Hl H; simpl in Hl; try lia.
  - split; [constructor|exact H].
  - simpl in H. inversion H; subst. destruct (IH a' b b') as [H1 H2]; [lia|assumption|].
    split; [constructor; assumption|exact H2].
Qed.

Lemma unit_vec_peq_inj n i j : (i < n)%nat -> (j < n)%nat -> peq (unit_vec n i) (unit_vec n j) -> i = j.
Proof.
  intros Hi Hj H.
  assert (Hn : forall k, (k < n)%nat -> nth k (unit_vec n i) 0 == nth k (unit_vec n j) 0).
  { pose proof (unit_vec_length n i) as L1. pose proof (unit_vec_length n j) as L2. revert L1 L2 H.
    generalize (unit_vec n i) (unit_vec n j). clear. intros a b L1 L2 H. revert n L1 L2.
    induction H as [|x y a b Hxy _ IH]; intros n L1 L2 k Hk; simpl in *; [lia|].
    destruct k as [|k]; [exact Hxy|]. destruct n as [|n]; [lia|]. apply (IH n); lia. }
  specialize (Hn i Hi). rewrite !nth_unit in Hn by assumption. rewrite Nat.eqb_refl in Hn.
  destruct (Nat.eqb i j) eqn:E; [apply Nat.eqb_eq; exact E|]. exfalso. revert Hn. compute. discriminate.
Qed.

Lemma InA_map_inv {A B} (eqA : A -> A -> Prop) (eqB : B -> B -> Prop) (f : A -> B) b l :
  InA eqB b (map f l) -> exists a, In a l /\ eqB b (f a).
Proof.
  induction l as [|x l IH]; simpl; intros H; inversion H; subst.
  - exists x. split; [left; reflexivity|assumption].
  - destruct (IH H1) as (a & Ha & Hb). exists a. split; [right; assumption|assumption].
Qed.

Lemma NoDupA_map_inj {A} (eqA : A -> A -> Prop) (f : A -> A) :
  (forall a b, eqA (f a) (f b) -> eqA a b) -> forall l, NoDupA eqA l -> NoDupA eqA (map f l).
Proof.
  intros Hinj l H. induction H as [|x l Hx _ IH]; simpl; constructor; [|exact IH].
  intros Hin. apply Hx. apply (InA_map_inv eqA eqA) in Hin. destruct Hin as (a & Ha & Hb).
  apply InA_alt. exists a. split; [apply Hinj; exact Hb|exact Ha].
Qed.

Lemma NoDupA_flat_map {I} (f : I -> list row) : forall l, NoDup l ->
  (forall i, In i l -> NoDupA peq (f i)) ->
  (forall i j a, In i l -> In j l -> InA peq a (f i) -> InA peq a (f j) -> i = j) ->
  NoDupA peq (flat_map f l).
Proof.
  induction l as [|i l IH]; intros Hnd Hp Hd; simpl; [constructor|].
  inversion Hnd as [|? ? Hi Hl]; subst.
  apply NoDupA_app; [exact peq_Equivalence|apply Hp; left; reflexivity| |].
  - apply IH; [exact Hl|intros j Hj; apply Hp; right; exact Hj|].
    intros j k a Hj Hk. apply Hd; right; assumption.
  - intros a Ha Hb. apply InA_alt in Hb. destruct Hb as (b & Hab & Hb). apply in_flat_map in Hb.
    destruct Hb as (j & Hj & Hb). apply Hi.
    rewrite (Hd i j a (or_introl eq_refl) (or_intror Hj) Ha); [exact Hj|].
    apply InA_alt. exists b. split; assumption.
Qed.

Theorem cat_lattice_NoDup : forall cs x, NoDupA peq (cat_lattice cs x).
Proof.
  induction cs as [|c cs IH]; intros x; [simpl; constructor; [intros H; inversion H|constructor]|].
  destruct c as [lo hi|lo hi|es|es]; cbn [cat_lattice].
  1,2,4: destruct x as [|v t]; [constructor; [intros H; inversion H|constructor]|];
    apply NoDupA_map_inj; [|apply IH]; intros a b H; inversion H; assumption.
  apply NoDupA_flat_map; [apply seq_NoDup| |].
  - intros i _. apply NoDupA_map_inj; [|apply IH]. intros a b H.
    apply (peq_app_inv (unit_vec (length es) i) (unit_vec (length es) i)) in H; [tauto|reflexivity].
  - intros i j a Hi Hj Ha Hb. apply in_seq in Hi. apply in_seq in Hj.
    apply (InA_map_inv peq peq) in Ha. apply (InA_map_inv peq peq) in Hb.
    destruct Ha as (ra & _ & Ha). destruct Hb as (rb & _ & Hb).
    assert (H : peq (unit_vec (length es) i ++ ra) (unit_vec (length es) j ++ rb))
      by (eapply peq_trans; [apply peq_sym; exact Ha|exact Hb]).
    apply peq_app_inv in H; [|rewrite !unit_vec_length; reflexivity]. destruct H as [H _].
    apply (unit_vec_peq_inj (length es)); [lia|lia|exact H].
Qed.

(* the endpoint's function: all rows *)
Theorem neighboring_cat_points_spec d xs r :
  In r (neighboring_cat_points d xs) <-> exists x, In x xs /\ cat_vertex (comps d) x r.
Proof.
  unfold neighboring_cat_points. rewrite in_flat_map. split; intros (x & Hx & H); exists x; (split; [exact Hx|]); apply cat_lattice_spec; exact H.
Qed.
