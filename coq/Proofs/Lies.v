(* C15: pending-point bookkeeping over any history.  Lemmas and theorems about LV.Model.Lies. *)
From Coq Require Import List QArith Bool Arith Lia Lra Psatz.
From LV Require Import Model.Lies.
Import ListNotations.
Open Scope Q_scope.

(* ------------------------------------------------------------------------------------------------ extrema *)
Lemma Qmaxb_cases a b : (Qmaxb a b = a /\ b <= a) \/ (Qmaxb a b = b /\ a <= b).
Proof.
  unfold Qmaxb. destruct (Qle_bool a b) eqn:E.
  - right. split; [reflexivity|apply Qle_bool_iff; exact E].
  - left. split; [reflexivity|]. destruct (Qlt_le_dec a b) as [L|L]; [|exact L].
    apply Qlt_le_weak, Qle_bool_iff in L. congruence.
Qed.
Lemma Qminb_cases a b : (Qminb a b = a /\ a <= b) \/ (Qminb a b = b /\ b <= a).
Proof.
  unfold Qminb. destruct (Qle_bool b a) eqn:E.
  - right. split; [reflexivity|apply Qle_bool_iff; exact E].
  - left. split; [reflexivity|]. destruct (Qlt_le_dec b a) as [L|L]; [|exact L].
    apply Qlt_le_weak, Qle_bool_iff in L. congruence.
Qed.

Lemma qmax_spec l : forall x, In (qmax x l) (x :: l) /\ forall y, In y (x :: l) -> y <= qmax x l.
Proof.
  induction l as [|a l IH]; intros x; cbn [qmax fold_left].
  - split; [left; reflexivity|]. intros y [<-|[]]. apply Qle_refl.
  - destruct (IH (Qmaxb x a)) as [Hin Hub]. fold (qmax (Qmaxb x a) l) in *.
    destruct (Qmaxb_cases x a) as [[E L]|[E L]]; rewrite E in *.
    + split.
      * destruct Hin as [H|H]; [left; exact H|right; right; exact H].
      * intros y [<-|[<-|H]].
        -- apply Hub. left. reflexivity.
        -- eapply Qle_trans; [exact L|apply Hub; left; reflexivity].
        -- apply Hub. right. exact H.
    + split.
      * destruct Hin as [H|H]; [right; left; exact H|right; right; exact H].
      * intros y [<-|[<-|H]].
        -- eapply Qle_trans; [exact L|apply Hub; left; reflexivity].
        -- apply Hub. left. reflexivity.
        -- apply Hub. right. exact H.
Qed.
Lemma qmin_spec l : forall x, In (qmin x l) (x :: l) /\ forall y, In y (x :: l) -> qmin x l <= y.
Proof.
  induction l as [|a l IH]; intros x; cbn [qmin fold_left].
  - split; [left; reflexivity|]. intros y [<-|[]]. apply Qle_refl.
  - destruct (IH (Qminb x a)) as [Hin Hub]. fold (qmin (Qminb x a) l) in *.
    destruct (Qminb_cases x a) as [[E L]|[E L]]; rewrite E in *.
    + split.
      * destruct Hin as [H|H]; [left; exact H|right; right; exact H].
      * intros y [<-|[<-|H]].
        -- apply Hub. left. reflexivity.
        -- eapply Qle_trans; [apply Hub; left; reflexivity|exact L].
        -- apply Hub. right. exact H.
    + split.
      * destruct Hin as [H|H]; [right; left; exact H|right; right; exact H].
      * intros y [<-|[<-|H]].
        -- eapply Qle_trans; [apply Hub; left; reflexivity|exact L].
        -- apply Hub. left. reflexivity.
        -- apply Hub. right. exact H.
Qed.

(* what "worst observed value" means for each lie method *)
Definition worst (m : lie_method) (vals : list Q) (v : Q) : Prop :=
  match m with
  | LieMin => In v vals /\ forall y, In y vals -> y <= v
  | LieMax => In v vals /\ forall y, In y vals -> v <= y
  | LieMean => v * inject_Z (Z.of_nat (length vals)) == qsum vals
  end.

Lemma lie_value_worst m vals : vals <> [] -> exists v, lie_value m vals = Some v /\ worst m vals v.
Proof.
  destruct vals as [|x r]; [congruence|]. intros _. unfold lie_value.
  destruct m; eexists; (split; [reflexivity|]); unfold worst.
  - apply qmax_spec.
  - apply qmin_spec.
  - assert (H : ~ inject_Z (Z.of_nat (length (x :: r))) == 0).
    { unfold Qeq, inject_Z. cbn [Qnum Qden length]. lia. }
    field. exact H.
Qed.

(* first-minimum semantics of numpy.argmin *)
Lemma argmin_from_spec l : forall best bi i, (bi < i)%nat ->
  let k := argmin_from best bi i l in
  (k = bi \/ (i <= k < i + length l)%nat) /\
  let v := if Nat.eqb k bi then best else nth (k - i) l 0 in
  v <= best /\ forall j, (j < length l)%nat -> v <= nth j l 0.
Proof.
  induction l as [|x r IH]; intros best bi i Hlt; cbn [argmin_from length].
  - split; [left; reflexivity|]. rewrite Nat.eqb_refl. split; [apply Qle_refl|]. intros j Hj. lia.
  - destruct (Qle_bool best x) eqn:E.
    + apply Qle_bool_iff in E. destruct (IH best bi (S i) ltac:(lia)) as [Hk Hv]. cbn zeta in Hv.
      set (k := argmin_from best bi (S i) r) in *. split; [destruct Hk as [Hk|Hk]; [left; exact Hk|right; lia]|].
      cbn zeta. destruct (Nat.eqb k bi) eqn:Ek.
      * destruct Hv as [Hv1 Hv2]. split; [exact Hv1|]. intros [|j] Hj; cbn [nth]; [exact E|apply Hv2; lia].
      * apply Nat.eqb_neq in Ek. destruct Hk as [Hk|Hk]; [contradiction|].
        replace (k - i)%nat with (S (k - S i)) by lia. cbn [nth]. destruct Hv as [Hv1 Hv2]. split; [exact Hv1|].
        intros [|j] Hj; cbn [nth]; [eapply Qle_trans; [exact Hv1|exact E]|apply Hv2; lia].
    + assert (L : x <= best).
      { destruct (Qlt_le_dec best x) as [L|L]; [apply Qlt_le_weak, Qle_bool_iff in L; congruence|exact L]. }
      destruct (IH x i (S i) ltac:(lia)) as [Hk Hv]. cbn zeta in Hv.
      set (k := argmin_from x i (S i) r) in *. split; [right; destruct Hk as [Hk|Hk]; lia|].
      cbn zeta. assert (Nat.eqb k bi = false) as -> by (apply Nat.eqb_neq; destruct Hk; lia).
      destruct (Nat.eqb k i) eqn:Ek.
      * apply Nat.eqb_eq in Ek. rewrite Ek, Nat.sub_diag. cbn [nth]. destruct Hv as [Hv1 Hv2].
        split; [exact L|]. intros [|j] Hj; cbn [nth]; [apply Qle_refl|apply Hv2; lia].
      * apply Nat.eqb_neq in Ek. destruct Hk as [Hk|Hk]; [contradiction|].
        replace (k - i)%nat with (S (k - S i)) by lia. cbn [nth]. destruct Hv as [Hv1 Hv2].
        split; [eapply Qle_trans; [exact Hv1|exact L]|]. intros [|j] Hj; cbn [nth]; [exact Hv1|apply Hv2; lia].
Qed.

Lemma argmin_spec l : l <> [] ->
  (argmin l < length l)%nat /\ forall j, (j < length l)%nat -> nth (argmin l) l 0 <= nth j l 0.
Proof.
  destruct l as [|x r]; [congruence|]. intros _. unfold argmin.
  destruct (argmin_from_spec r x O 1%nat ltac:(lia)) as [Hk Hv]. cbn zeta in Hv.
  set (k := argmin_from x 0 1 r) in *. cbn [length]. split; [destruct Hk; lia|].
  destruct (Nat.eqb k 0) eqn:Ek.
  - apply Nat.eqb_eq in Ek. rewrite Ek. cbn [nth]. destruct Hv as [_ Hv].
    intros [|j] Hj; cbn [nth]; [apply Qle_refl|apply Hv; lia].
  - apply Nat.eqb_neq in Ek. destruct Hk as [Hk|Hk]; [contradiction|]. destruct k as [|k]; [lia|].
    cbn [nth]. replace (S k - 1)%nat with k in Hv by lia. destruct Hv as [Hv1 Hv2].
    intros [|j] Hj; cbn [nth]; [exact Hv1|apply Hv2; lia].
Qed.

Lemma read_at_argmin l : l <> [] -> exists v, read_at l (argmin l) = OVal v /\ In v l /\ forall y, In y l -> v <= y.
Proof.
  intros Hl. destruct (argmin_spec l Hl) as [Hlt Hmin]. unfold read_at.
  destruct (nth_error l (argmin l)) as [v|] eqn:E; [|apply nth_error_None in E; lia].
  exists v. split; [reflexivity|]. split; [eapply nth_error_In; exact E|].
  intros y Hy. destruct (In_nth _ _ 0 Hy) as (j & Hj & <-).
  rewrite <- (nth_error_nth _ _ 0 E). apply Hmin. exact Hj.
Qed.

(* ------------------------------------------------------------------------------------------------ (i) one GP *)
Definition hist_wf (h : hist) : Prop :=
  length (h_vals h) = length (h_pts h) /\ length (h_noise h) = length (h_pts h) /\ h_vals h <> [].
Definition gp_cache_ok (g : gp) : Prop := g_best g = None \/ g_best g = Some (argmin (h_vals (g_hist g))).
Definition gp_wf (g : gp) : Prop := hist_wf (g_hist g) /\ gp_cache_ok g.
Definition dims_ok (d : nat) (locs : list point) : Prop := Forall (fun p => length p = d) locs.
Definition gop_ok (d : nat) (o : gop) : Prop := match o with GAppend locs _ => dims_ok d locs | _ => True end.
Definition is_gappend (o : gop) : bool := match o with GAppend _ _ => true | _ => false end.

Lemma dims_ok_forallb d locs : dims_ok d locs -> forallb (fun p => Nat.eqb (length p) d) locs = true.
Proof. intros H. apply forallb_forall. intros p Hp. apply Nat.eqb_eq. exact (proj1 (Forall_forall _ _) H p Hp). Qed.

Lemma append_historical_data_ok h locs vs ns : dims_ok (h_dim h) locs ->
  exists h', append_historical_data h locs vs ns = inl h' /\ h_dim h' = h_dim h /\
    (locs = [] -> h' = h) /\
    (locs <> [] -> h_pts h' = h_pts h ++ locs /\ h_vals h' = h_vals h ++ vs /\ h_noise h' = h_noise h ++ ns).
Proof.
  intros Hd. unfold append_historical_data. destruct locs as [|p r].
  - exists h. repeat split; congruence.
  - rewrite (dims_ok_forallb _ _ Hd). eexists. split; [reflexivity|]. cbn. repeat split; congruence.
Qed.

(* one append: the data grow by exactly the lie block: locations, the lie value of that moment, the lie noise *)
Lemma gp_append_eq g locs m v : lie_value m (h_vals (g_hist g)) = Some v -> dims_ok (h_dim (g_hist g)) locs ->
  let g' := fst (gp_append g locs m) in
  snd (gp_append g locs m) = None /\ g_best g' = None /\
  h_dim (g_hist g') = h_dim (g_hist g) /\
  h_pts (g_hist g') = h_pts (g_hist g) ++ locs /\
  h_vals (g_hist g') = h_vals (g_hist g) ++ repeat v (length locs) /\
  h_noise (g_hist g') = h_noise (g_hist g) ++ repeat lie_noise (length locs).
Proof.
  intros Hv Hd. unfold gp_append. rewrite Hv.
  destruct (append_historical_data_ok (g_hist g) locs (repeat v (length locs)) (repeat lie_noise (length locs)) Hd)
    as (h' & -> & Hdim & Hnil & Hcons). cbn [fst snd g_hist g_best].
  split; [reflexivity|]. split; [reflexivity|]. split; [exact Hdim|].
  destruct locs as [|p r].
  - rewrite (Hnil eq_refl). cbn [length repeat]. rewrite !app_nil_r. repeat split.
  - apply Hcons. discriminate.
Qed.
Lemma gp_append_spec g locs m : hist_wf (g_hist g) -> dims_ok (h_dim (g_hist g)) locs ->
  exists v, worst m (h_vals (g_hist g)) v /\
    let g' := fst (gp_append g locs m) in
    snd (gp_append g locs m) = None /\ g_best g' = None /\
    h_dim (g_hist g') = h_dim (g_hist g) /\
    h_pts (g_hist g') = h_pts (g_hist g) ++ locs /\
    h_vals (g_hist g') = h_vals (g_hist g) ++ repeat v (length locs) /\
    h_noise (g_hist g') = h_noise (g_hist g) ++ repeat lie_noise (length locs).
Proof.
  intros (_ & _ & Hne) Hd. destruct (lie_value_worst m _ Hne) as (v & Hv & Hw).
  exists v. split; [exact Hw|]. apply gp_append_eq; assumption.
Qed.
Lemma gp_step_append_fst g locs m : fst (gp_step g (GAppend locs m)) = fst (gp_append g locs m).
Proof. cbn [gp_step]. destruct (gp_append g locs m). reflexivity. Qed.

Lemma gp_append_wf g locs m : gp_wf g -> dims_ok (h_dim (g_hist g)) locs -> gp_wf (fst (gp_append g locs m)).
Proof.
  intros [Hw Hc] Hd. destruct (gp_append_spec g locs m Hw Hd) as (v & _ & _ & Hb & _ & Hp & Hv & Hn).
  destruct Hw as (H1 & H2 & H3). split; [|left; exact Hb].
  unfold hist_wf. rewrite Hp, Hv, Hn, !app_length, !repeat_length, H1, H2. repeat split.
  intros E. apply app_eq_nil in E. apply H3, E.
Qed.

Lemma gp_step_wf g o : gp_wf g -> gop_ok (h_dim (g_hist g)) o ->
  gp_wf (fst (gp_step g o)) /\ h_dim (g_hist (fst (gp_step g o))) = h_dim (g_hist g).
Proof.
  intros Hw Ho. destruct o; cbn [gp_step fst]; try (split; [exact Hw|reflexivity]).
  - destruct (gp_append g locs m) as [g' e] eqn:E. cbn [fst].
    pose proof (gp_append_wf g locs m Hw Ho) as H1.
    destruct (gp_append_spec g locs m (proj1 Hw) Ho) as (v & _ & _ & _ & Hd & _). rewrite E in *. split; assumption.
  - split; [|reflexivity]. destruct Hw as [Hh Hc]. split; [exact Hh|]. right. cbn [g_best g_hist].
    destruct Hc as [->| ->]; reflexivity.
Qed.

Lemma gp_run_wf ops : forall g, gp_wf g -> Forall (gop_ok (h_dim (g_hist g))) ops ->
  gp_wf (run gp_step g ops) /\ h_dim (g_hist (run gp_step g ops)) = h_dim (g_hist g).
Proof.
  induction ops as [|o ops IH]; intros g Hw Ho; [split; [exact Hw|reflexivity]|].
  inversion Ho as [|? ? Ho1 Ho2]; subst. destruct (gp_step_wf g o Hw Ho1) as [Hw' Hd'].
  unfold run in *. cbn [fold_left]. destruct (IH (fst (gp_step g o)) Hw') as [H1 H2]; [rewrite Hd'; exact Ho2|].
  split; [exact H1|congruence].
Qed.

(* reads do not touch the data: only the appends of a history matter *)
Lemma gp_step_read_hist g o : is_gappend o = false -> g_hist (fst (gp_step g o)) = g_hist g.
Proof. destruct o; cbn; try reflexivity; discriminate. Qed.
Lemma gp_append_ignores_cache h b1 b2 locs m :
  g_hist (fst (gp_append (mkGp h b1) locs m)) = g_hist (fst (gp_append (mkGp h b2) locs m)).
Proof.
  unfold gp_append. cbn [g_hist]. destruct (lie_value m (h_vals h)); [|reflexivity].
  destruct (append_historical_data h locs _ _); reflexivity.
Qed.
Lemma gp_reads_irrelevant ops : forall g1 g2, g_hist g1 = g_hist g2 ->
  g_hist (run gp_step g1 ops) = g_hist (run gp_step g2 (filter is_gappend ops)).
Proof.
  induction ops as [|o ops IH]; intros g1 g2 E; [exact E|].
  unfold run in *. cbn [fold_left filter]. destruct (is_gappend o) eqn:Ea.
  - cbn [fold_left]. apply IH. destruct o; try discriminate. cbn [gp_step].
    destruct g1 as [h1 b1], g2 as [h2 b2]. cbn [g_hist] in E. subst h2.
    pose proof (gp_append_ignores_cache h1 b1 b2 locs m) as H.
    destruct (gp_append (mkGp h1 b1) locs m), (gp_append (mkGp h1 b2) locs m). exact H.
  - apply IH. rewrite gp_step_read_hist by exact Ea. exact E.
Qed.

(* every accessor returns the data as they are now; the best value is a minimum of the current values *)
Lemma gp_reads_current g : gp_wf g ->
  snd (gp_step g GNum) = ONat (length (h_pts (g_hist g))) /\
  snd (gp_step g GPts) = OPts (h_pts (g_hist g)) /\
  snd (gp_step g GVals) = OVec (h_vals (g_hist g)) /\
  snd (gp_step g GNoise) = OVec (h_noise (g_hist g)) /\
  exists v, snd (gp_step g GBest) = OVal v /\ In v (h_vals (g_hist g)) /\ forall y, In y (h_vals (g_hist g)) -> v <= y.
Proof.
  intros [(H1 & H2 & H3) Hc]. repeat split. cbn [gp_step snd].
  destruct (read_at_argmin _ H3) as (v & Hv & Hin & Hmin). exists v.
  destruct Hc as [->| ->]; (split; [exact Hv|split; assumption]).
Qed.

Lemma gp_lie_invariant g0 ops : gp_wf g0 -> Forall (gop_ok (h_dim (g_hist g0))) ops ->
  let g := run gp_step g0 ops in
  (length (h_vals (g_hist g)) = length (h_pts (g_hist g)) /\ length (h_noise (g_hist g)) = length (h_pts (g_hist g)) /\
   h_vals (g_hist g) <> []) /\
  g_hist g = g_hist (run gp_step g0 (filter is_gappend ops)) /\
  snd (gp_step g GNum) = ONat (length (h_pts (g_hist g))) /\
  snd (gp_step g GPts) = OPts (h_pts (g_hist g)) /\
  snd (gp_step g GVals) = OVec (h_vals (g_hist g)) /\
  snd (gp_step g GNoise) = OVec (h_noise (g_hist g)) /\
  exists v, snd (gp_step g GBest) = OVal v /\ In v (h_vals (g_hist g)) /\ forall y, In y (h_vals (g_hist g)) -> v <= y.
Proof.
  intros Hw Ho. destruct (gp_run_wf ops g0 Hw Ho) as [Hw' _].
  split; [exact (proj1 Hw')|]. split; [exact (gp_reads_irrelevant ops g0 g0 eq_refl)|]. exact (gp_reads_current _ Hw').
Qed.

(* the locations appended by a history *)
Definition appended (ops : list gop) : list point :=
  flat_map (fun o => match o with GAppend locs _ => locs | _ => [] end) ops.
Definition only_liemin (o : gop) : Prop := match o with GAppend _ LieMin => True | GAppend _ _ => False | _ => True end.

Lemma qmax_repeat m k : qmax m (repeat m k) = m.
Proof.
  induction k as [|k IH]; [reflexivity|]. cbn [repeat qmax fold_left]. unfold Qmaxb at 2.
  assert (Qle_bool m m = true) as -> by (apply Qle_bool_iff, Qle_refl). exact IH.
Qed.
Lemma qmax_app x l1 l2 : qmax x (l1 ++ l2) = qmax (qmax x l1) l2.
Proof. unfold qmax. apply fold_left_app. Qed.
Lemma lie_min_stable vals k v : lie_value LieMin vals = Some v -> lie_value LieMin (vals ++ repeat v k) = Some v.
Proof.
  destruct vals as [|x r]; [discriminate|]. cbn [lie_value app]. intros E. injection E as E'. f_equal.
  rewrite qmax_app, E'. apply qmax_repeat.
Qed.

(* closed form for the library's own lie method (constant_liar_min, the default and the only one it passes):
   whatever was read in between, the data are the initial data followed by every appended location, all carrying the
   maximum of the INITIAL values and the lie noise *)
Lemma gp_liemin_closed_form ops : forall g w, gp_wf g -> Forall (gop_ok (h_dim (g_hist g))) ops -> Forall only_liemin ops ->
  lie_value LieMin (h_vals (g_hist g)) = Some w ->
  let g' := run gp_step g ops in let k := length (appended ops) in
  h_pts (g_hist g') = h_pts (g_hist g) ++ appended ops /\
  h_vals (g_hist g') = h_vals (g_hist g) ++ repeat w k /\
  h_noise (g_hist g') = h_noise (g_hist g) ++ repeat lie_noise k.
Proof.
  induction ops as [|o ops IH]; intros g w Hw Ho Hm Hv; cbn zeta.
  - cbn. rewrite !app_nil_r. repeat split.
  - inversion Ho as [|? ? Ho1 Ho2]; subst. inversion Hm as [|? ? Hm1 Hm2]; subst.
    destruct (gp_step_wf g o Hw Ho1) as [Hw' Hd'].
    change (run gp_step g (o :: ops)) with (run gp_step (fst (gp_step g o)) ops).
    rewrite <- Hd' in Ho2.
    destruct (is_gappend o) eqn:Ea.
    + destruct o as [locs m| | | | | |]; try discriminate. destruct m; try contradiction.
      rewrite gp_step_append_fst in *.
      destruct (gp_append_eq g locs LieMin w Hv Ho1) as (_ & _ & _ & Hp & Hvv & Hn).
      assert (Hv1 : lie_value LieMin (h_vals (g_hist (fst (gp_append g locs LieMin)))) = Some w).
      { rewrite Hvv. apply lie_min_stable. exact Hv. }
      destruct (IH _ w Hw' Ho2 Hm2 Hv1) as (I1 & I2 & I3).
      cbn [appended flat_map]. fold (appended ops). rewrite app_length, !repeat_app.
      rewrite I1, I2, I3, Hp, Hvv, Hn, <- !app_assoc. repeat split.
    + assert (Eh : g_hist (fst (gp_step g o)) = g_hist g) by (apply gp_step_read_hist; exact Ea).
      assert (Ap : appended (o :: ops) = appended ops) by (destruct o; try discriminate; reflexivity).
      rewrite Ap. rewrite <- Eh in Hv. destruct (IH _ w Hw' Ho2 Hm2 Hv) as (I1 & I2 & I3).
      rewrite I1, I2, I3, Eh. repeat split.
Qed.

(* ------------------------------------------------------------------------------------------------ (ii) sum of GPs *)
Definition sop_ok (d : nat) (o : sop) : Prop := match o with SAppend locs _ => dims_ok d locs | _ => True end.
Definition sop_gop (o : sop) : gop := match o with SAppend locs m => GAppend locs m | _ => GNum end.
Definition comp_ok (d n : nat) (g : gp) : Prop := gp_wf g /\ h_dim (g_hist g) = d /\ length (h_pts (g_hist g)) = n.
Definition sum_wf (d : nat) (s : gpsum) : Prop :=
  s_comps s <> [] /\ length (s_weights s) = length (s_comps s) /\ Forall (comp_ok d (s_num s)) (s_comps s).
Definition sum_cache_ok (s : gpsum) : Prop :=
  (c_vals s = None \/ c_vals s = Some (fresh_vals s)) /\
  (c_noise s = None \/ c_noise s = Some (fresh_noise s)) /\
  (c_best s = None \/ c_best s = Some (argmin (fresh_vals s))).

Lemma append_all_ok d n gs locs m : Forall (comp_ok d n) gs -> dims_ok d locs ->
  append_all gs locs m = (map (fun g => fst (gp_append g locs m)) gs, None).
Proof.
  induction gs as [|g r IH]; intros Hf Hd; [reflexivity|].
  inversion Hf as [|? ? Hg Hr]; subst. destruct Hg as (Hw & Hdim & _). cbn [append_all map].
  destruct (gp_append_spec g locs m (proj1 Hw) ltac:(rewrite Hdim; exact Hd)) as (v & _ & He & _).
  destruct (gp_append g locs m) as [g' e]. cbn [snd fst] in *. subst e. rewrite (IH Hr Hd). reflexivity.
Qed.

Lemma comp_ok_append d n g locs m : comp_ok d n g -> dims_ok d locs -> comp_ok d (n + length locs) (fst (gp_append g locs m)).
Proof.
  intros (Hw & Hdim & Hn) Hd. rewrite <- Hdim in Hd.
  destruct (gp_append_spec g locs m (proj1 Hw) Hd) as (v & _ & _ & _ & Hd' & Hp & _).
  split; [apply gp_append_wf; assumption|]. split; [congruence|]. rewrite Hp, app_length. lia.
Qed.

Lemma s_step_wf d s o : sum_wf d s -> sum_cache_ok s -> sop_ok d o ->
  sum_wf d (fst (s_step true s o)) /\ sum_cache_ok (fst (s_step true s o)) /\
  s_comps (fst (s_step true s o)) = map (fun g => fst (gp_step g (sop_gop o))) (s_comps s) /\
  s_weights (fst (s_step true s o)) = s_weights s.
Proof.
  intros Hwf Hck Ho. pose proof Hwf as (Hne & Hlw & Hf). pose proof Hck as (Cv & Cn & Cb).
  assert (Hid : s_comps s = map (fun g => fst (gp_step g GNum)) (s_comps s)) by (symmetry; apply map_id).
  assert (Hsame : sum_wf d s /\ sum_cache_ok s /\ s_comps s = map (fun g => fst (gp_step g GNum)) (s_comps s) /\
                  s_weights s = s_weights s) by (repeat split; assumption).
  destruct o; cbn [s_step sop_gop]; try exact Hsame.
  - (* append *) cbn [sop_ok] in Ho. rewrite (append_all_ok d (s_num s) _ locs m Hf Ho). cbn [fst s_comps s_weights].
    split; [|split; [repeat split; left; reflexivity|split; [|reflexivity]]].
    + split; [|split]; cbn [s_comps s_weights].
      * destruct (s_comps s); [congruence|discriminate].
      * rewrite map_length. exact Hlw.
      * assert (Hn : s_num (mkSum (map (fun g => fst (gp_append g locs m)) (s_comps s)) (s_weights s) None None None)
                     = (s_num s + length locs)%nat).
        { unfold s_num at 1. cbn [s_comps]. destruct (s_comps s) as [|g r] eqn:Eg; [congruence|]. cbn [map].
          inversion Hf as [|? ? Hg _]; subst. apply (comp_ok_append d _ g locs m Hg Ho). }
        rewrite Hn. apply Forall_forall. intros g' Hin. apply in_map_iff in Hin. destruct Hin as (g & <- & Hin).
        apply comp_ok_append; [|exact Ho]. exact (proj1 (Forall_forall _ _) Hf g Hin).
    + apply map_ext. intros g. symmetry. apply gp_step_append_fst.
  - (* values *) unfold s_read_vals. destruct (c_vals s) eqn:E; cbn [fst]; [exact Hsame|].
    split; [exact Hwf|]. split; [|split; [exact Hid|reflexivity]].
    split; [right; reflexivity|]. split; assumption.
  - (* noise *) destruct (c_noise s) eqn:E; cbn [fst]; [exact Hsame|].
    split; [exact Hwf|]. split; [|split; [exact Hid|reflexivity]].
    split; [exact Cv|]. split; [right; reflexivity|exact Cb].
  - (* best *) unfold s_read_vals. destruct (c_vals s) eqn:E; cbn [fst s_comps s_weights c_vals c_noise c_best].
    + split; [exact Hwf|]. split; [|split; [exact Hid|reflexivity]].
      assert (l = fresh_vals s) as -> by (destruct Cv as [Cv|Cv]; congruence).
      split; [right; exact E|]. split; [exact Cn|]. right. cbn. destruct Cb as [->| ->]; reflexivity.
    + split; [exact Hwf|]. split; [|split; [exact Hid|reflexivity]].
      split; [right; reflexivity|]. split; [exact Cn|]. right. cbn. destruct Cb as [->| ->]; reflexivity.
Qed.

Lemma s_run_wf d ops : forall s, sum_wf d s -> sum_cache_ok s -> Forall (sop_ok d) ops ->
  let s' := run (s_step true) s ops in
  sum_wf d s' /\ sum_cache_ok s' /\ s_weights s' = s_weights s /\
  s_comps s' = map (fun g => run gp_step g (map sop_gop ops)) (s_comps s).
Proof.
  induction ops as [|o ops IH]; intros s Hw Hc Ho; cbn zeta.
  - unfold run. cbn [fold_left map]. split; [exact Hw|split; [exact Hc|split; [reflexivity|]]]. symmetry. apply map_id.
  - inversion Ho as [|? ? Ho1 Ho2]; subst. destruct (s_step_wf d s o Hw Hc Ho1) as (Hw' & Hc' & Hcomps & Hws).
    change (run (s_step true) s (o :: ops)) with (run (s_step true) (fst (s_step true s o)) ops).
    destruct (IH _ Hw' Hc' Ho2) as (I1 & I2 & I3 & I4). split; [exact I1|]. split; [exact I2|]. split; [congruence|].
    rewrite I4, Hcomps, map_map. apply map_ext. intros g. reflexivity.
Qed.

(* what "weighted sum of the components' current data" means, pointwise *)
Definition dot (i : nat) (wcs : list (Q * list Q)) : Q := fold_right (fun wc a => fst wc * nth i (snd wc) 0 + a) 0 wcs.

Lemma zipadd_length a b : length a = length b -> length (zipadd a b) = length a.
Proof. intros H. unfold zipadd. rewrite map_length, combine_length. lia. Qed.
Lemma zipadd_nth : forall a b i, length a = length b -> (i < length a)%nat ->
  nth i (zipadd a b) 0 = nth i a 0 + nth i b 0.
Proof.
  induction a as [|x a IH]; intros [|y b] i Hl Hi; cbn [length] in *; try lia.
  unfold zipadd in *. cbn [combine map nth fst snd]. destruct i as [|i]; [reflexivity|].
  apply IH; lia.
Qed.
Lemma scale_nth w : forall c i, (i < length c)%nat -> nth i (map (Qmult w) c) 0 = w * nth i c 0.
Proof. induction c as [|x c IH]; intros [|i] Hi; cbn [length] in *; try lia; [reflexivity|]. cbn [map nth]. apply IH. lia. Qed.

Lemma wsum_gen n : forall wcs acc, length acc = n -> Forall (fun wc => length (snd wc) = n) wcs ->
  let r := fold_left (fun acc wc => zipadd acc (map (Qmult (fst wc)) (snd wc))) wcs acc in
  length r = n /\ forall i, (i < n)%nat -> nth i r 0 == nth i acc 0 + dot i wcs.
Proof.
  induction wcs as [|[w c] wcs IH]; intros acc Ha Hf; cbn zeta.
  - cbn. split; [exact Ha|]. intros i Hi. ring.
  - inversion Hf as [|? ? Hc Hr]; subst. cbn [snd fst] in Hc. cbn [fold_left fst snd].
    assert (Hl : length acc = length (map (Qmult w) c)) by (rewrite map_length; congruence).
    assert (Hz : length (zipadd acc (map (Qmult w) c)) = length acc) by (apply zipadd_length; exact Hl).
    destruct (IH (zipadd acc (map (Qmult w) c)) ltac:(lia) Hr) as [I1 I2]. split; [exact I1|].
    intros i Hi. rewrite (I2 i Hi). rewrite (zipadd_nth acc (map (Qmult w) c) i Hl ltac:(lia)).
    rewrite scale_nth by lia. cbn [dot fold_right fst snd]. fold (dot i wcs). ring.
Qed.

Lemma wsum_spec n ws cols : Forall (fun c => length c = n) cols ->
  length (wsum n ws cols) = n /\ forall i, (i < n)%nat -> nth i (wsum n ws cols) 0 == dot i (combine ws cols).
Proof.
  intros Hf. unfold wsum.
  assert (Hc : Forall (fun wc : Q * list Q => length (snd wc) = n) (combine ws cols)).
  { apply Forall_forall. intros [w c] Hin. apply in_combine_r in Hin. exact (proj1 (Forall_forall _ _) Hf c Hin). }
  destruct (wsum_gen n (combine ws cols) (repeat 0 n) (repeat_length _ _) Hc) as [H1 H2]. split; [exact H1|].
  intros i Hi. rewrite (H2 i Hi). rewrite nth_repeat. ring.
Qed.

Lemma sum_wf_cols d s : sum_wf d s ->
  Forall (fun c => length c = s_num s) (map (fun g => h_vals (g_hist g)) (s_comps s)) /\
  Forall (fun c => length c = s_num s) (map (fun g => h_noise (g_hist g)) (s_comps s)) /\ (0 < s_num s)%nat.
Proof.
  intros (Hne & _ & Hf). repeat split.
  - apply Forall_forall. intros c Hin. apply in_map_iff in Hin. destruct Hin as (g & <- & Hin).
    destruct (proj1 (Forall_forall _ _) Hf g Hin) as (((H1 & _) & _) & _ & Hn). congruence.
  - apply Forall_forall. intros c Hin. apply in_map_iff in Hin. destruct Hin as (g & <- & Hin).
    destruct (proj1 (Forall_forall _ _) Hf g Hin) as (((_ & H2 & _) & _) & _ & Hn). congruence.
  - destruct (s_comps s) as [|g r] eqn:E; [congruence|]. inversion Hf as [|? ? Hg _]; subst. destruct Hg as (((H1 & _ & H3) & _) & _ & Hn).
    rewrite <- Hn, <- H1. destruct (h_vals (g_hist g)); [congruence|cbn; lia].
Qed.

(* reads of a state whose caches are consistent return the sums over the components' current data *)
Lemma s_reads_fresh d s : sum_wf d s -> sum_cache_ok s ->
  snd (s_step true s SNum) = ONat (s_num s) /\
  snd (s_step true s SVals) = OVec (fresh_vals s) /\
  snd (s_step true s SNoise) = OVec (fresh_noise s) /\
  (exists v, snd (s_step true s SBest) = OVal v /\ In v (fresh_vals s) /\ forall y, In y (fresh_vals s) -> v <= y) /\
  length (fresh_vals s) = s_num s /\ length (fresh_noise s) = s_num s.
Proof.
  intros Hw (Cv & Cn & Cb). destruct (sum_wf_cols d s Hw) as (Hv & Hn & Hpos).
  destruct (wsum_spec (s_num s) (s_weights s) _ Hv) as [Lv _].
  destruct (wsum_spec (s_num s) (map (fun w => w * w) (s_weights s)) _ Hn) as [Ln _].
  fold (fresh_vals s) in Lv. fold (fresh_noise s) in Ln.
  split; [reflexivity|]. split; [|split; [|split; [|split; assumption]]].
  - cbn [s_step]. unfold s_read_vals. destruct Cv as [->| ->]; reflexivity.
  - cbn [s_step]. destruct Cn as [->| ->]; reflexivity.
  - assert (Hne : fresh_vals s <> []) by (intros E; rewrite E in Lv; cbn in Lv; lia).
    destruct (read_at_argmin _ Hne) as (v & Ev & Hin & Hmin). exists v. split; [|split; assumption].
    cbn [s_step]. unfold s_read_vals.
    destruct Cv as [Cv|Cv]; rewrite Cv; cbn [c_best snd]; destruct Cb as [Cb|Cb]; rewrite Cb; exact Ev.
Qed.

(* the property for the sum, over any history of reads, predictions and valid appends *)
Definition reads_fresh (reset : bool) : Prop :=
  forall d s0 ops, sum_wf d s0 -> c_vals s0 = None -> c_noise s0 = None -> c_best s0 = None -> Forall (sop_ok d) ops ->
    let s := run (s_step reset) s0 ops in
    snd (s_step reset s SVals) = OVec (fresh_vals s) /\ snd (s_step reset s SNoise) = OVec (fresh_noise s).

Lemma gpsum_reads ops d s0 : sum_wf d s0 -> c_vals s0 = None -> c_noise s0 = None -> c_best s0 = None -> Forall (sop_ok d) ops ->
  let s := run (s_step true) s0 ops in
  snd (s_step true s SNum) = ONat (s_num s) /\
  snd (s_step true s SVals) = OVec (fresh_vals s) /\
  snd (s_step true s SNoise) = OVec (fresh_noise s) /\
  (exists v, snd (s_step true s SBest) = OVal v /\ In v (fresh_vals s) /\ forall y, In y (fresh_vals s) -> v <= y) /\
  length (fresh_vals s) = s_num s /\ length (fresh_noise s) = s_num s /\
  (forall i, (i < s_num s)%nat ->
     nth i (fresh_vals s) 0 == dot i (combine (s_weights s0) (map (fun g => h_vals (g_hist g)) (s_comps s))) /\
     nth i (fresh_noise s) 0 == dot i (combine (map (fun w => w * w) (s_weights s0)) (map (fun g => h_noise (g_hist g)) (s_comps s)))) /\
  s_comps s = map (fun g => run gp_step g (map sop_gop ops)) (s_comps s0).
Proof.
  intros Hw E1 E2 E3 Ho. cbn zeta.
  assert (Hc : sum_cache_ok s0) by (repeat split; left; assumption).
  destruct (s_run_wf d ops s0 Hw Hc Ho) as (Hw' & Hc' & Hws & Hcomps).
  destruct (s_reads_fresh d _ Hw' Hc') as (R1 & R2 & R3 & R4 & R5 & R6).
  repeat (split; [assumption|]). split; [|exact Hcomps].
  intros i Hi. destruct (sum_wf_cols d _ Hw') as (Hv & Hn & _).
  split; [unfold fresh_vals|unfold fresh_noise]; rewrite Hws; apply wsum_spec; assumption.
Qed.

Theorem gpsum_fresh_reads : reads_fresh true.
Proof. intros d s0 ops Hw E1 E2 E3 Ho. destruct (gpsum_reads ops d s0 Hw E1 E2 E3 Ho) as (_ & R2 & R3 & _). split; assumption. Qed.

(* the machine WITHOUT the reset (the code before commit 1aeae01) violates it: read, append, read *)
Definition stale_witness : gpsum :=
  mkSum [mkGp (mkHist 1 [[0]; [1]] [1; 2] [1#8; 1#8]) None; mkGp (mkHist 1 [[0]; [1]] [2; 3] [1#8; 1#8]) None]
        [1#2; 1#2] None None None.
Theorem gpsum_fresh_reads_refuted_without_reset : ~ reads_fresh false.
Proof.
  intros H. specialize (H 1%nat stale_witness [SVals; SAppend [[1#2]] LieMin]).
  assert (Hw : sum_wf 1 stale_witness).
  { unfold sum_wf, stale_witness, comp_ok, gp_wf, hist_wf, gp_cache_ok. cbn. repeat split; try discriminate; try (left; reflexivity).
    repeat constructor; cbn; try discriminate; try (left; reflexivity). }
  specialize (H Hw eq_refl eq_refl eq_refl ltac:(repeat constructor)). destruct H as [H _]. vm_compute in H. discriminate H.
Qed.

(* ------------------------------------------------------------------------------------------------ (iii) Parzen estimator *)
Definition pop_ok (d : nat) (o : pop) : Prop :=
  match o with PAppend lies _ => dims_ok d lies | PRecover lo gr => dims_ok d lo /\ dims_ok d gr | _ => True end.
(* points = base ++ current lies, and every lie has the estimator's dimension *)
Definition pz_inv (blo bgr : list point) (s : pz) : Prop :=
  p_lower s = blo ++ p_lower_lies s /\ p_greater s = bgr ++ p_greater_lies s /\
  dims_ok (p_dim s) (p_lower_lies s) /\ dims_ok (p_dim s) (p_greater_lies s).

Lemma rows_ok_true d l : dims_ok d l -> rows_ok d l = true.
Proof. apply dims_ok_forallb. Qed.
Lemma drop_last_app {A} (a b : list A) : drop_last (length b) (a ++ b) = a.
Proof. unfold drop_last. rewrite app_length, Nat.add_sub, firstn_app, Nat.sub_diag, firstn_all. cbn. apply app_nil_r. Qed.

Lemma pz_append_spec s lies lower : dims_ok (p_dim s) lies ->
  pz_append s lies lower =
    (mkPz (p_dim s) (if lower then p_lower s ++ lies else p_lower s) (if lower then p_greater s else p_greater s ++ lies)
          (if lower then p_lower_lies s ++ lies else p_lower_lies s)
          (if lower then p_greater_lies s else p_greater_lies s ++ lies), None).
Proof.
  intros Hd. unfold pz_append. destruct lies as [|p r].
  - destruct s, lower; cbn; rewrite ?app_nil_r; reflexivity.
  - rewrite (rows_ok_true _ _ Hd). destruct lower; reflexivity.
Qed.
Lemma pz_append_inv blo bgr s lies lower : pz_inv blo bgr s -> dims_ok (p_dim s) lies ->
  pz_inv blo bgr (fst (pz_append s lies lower)) /\ p_dim (fst (pz_append s lies lower)) = p_dim s /\ snd (pz_append s lies lower) = None.
Proof.
  intros (H1 & H2 & H3 & H4) Hd. rewrite (pz_append_spec s lies lower Hd). cbn [fst snd p_dim]. split; [|split; reflexivity].
  unfold pz_inv. cbn [p_lower p_greater p_lower_lies p_greater_lies p_dim].
  destruct lower; rewrite ?H1, ?H2, ?app_assoc; repeat split; try assumption; try (rewrite <- ?H1, <- ?H2; reflexivity);
    apply Forall_app; split; assumption.
Qed.
Lemma pz_clear_inv blo bgr s : pz_inv blo bgr s ->
  pz_inv blo bgr (pz_clear s) /\ p_dim (pz_clear s) = p_dim s /\
  p_lower (pz_clear s) = blo /\ p_greater (pz_clear s) = bgr /\ p_lower_lies (pz_clear s) = [] /\ p_greater_lies (pz_clear s) = [].
Proof.
  intros (H1 & H2 & H3 & H4).
  assert (E1 : p_lower (pz_clear s) = blo).
  { unfold pz_clear. cbn [p_lower]. rewrite H1. destruct (p_lower_lies s) as [|x l] eqn:E; [apply app_nil_r|apply drop_last_app]. }
  assert (E2 : p_greater (pz_clear s) = bgr).
  { unfold pz_clear. cbn [p_greater]. rewrite H2. destruct (p_greater_lies s) as [|x l] eqn:E; [apply app_nil_r|apply drop_last_app]. }
  split; [|repeat split; assumption]. unfold pz_inv. rewrite E1, E2. cbn. rewrite !app_nil_r. repeat split; constructor.
Qed.

Lemma pz_step_inv blo bgr s o : pz_inv blo bgr s -> pop_ok (p_dim s) o ->
  pz_inv blo bgr (fst (pz_step s o)) /\ p_dim (fst (pz_step s o)) = p_dim s.
Proof.
  intros Hi Ho. destruct o as [lies lower| | |lo gr]; cbn [pz_step].
  - destruct (pz_append_inv blo bgr s lies lower Hi Ho) as (H1 & H2 & _). destruct (pz_append s lies lower). cbn [fst] in *. split; assumption.
  - cbn [fst]. destruct (pz_clear_inv blo bgr s Hi) as (H1 & H2 & _). split; assumption.
  - cbn [fst]. split; [exact Hi|reflexivity].
  - destruct Ho as [Hlo Hgr]. unfold pz_recover. destruct (pz_clear_inv blo bgr s Hi) as (C1 & C2 & _).
    rewrite <- C2 in Hlo, Hgr.
    destruct (pz_append_inv blo bgr _ lo true C1 Hlo) as (A1 & A2 & A3).
    destruct (pz_append (pz_clear s) lo true) as [s1 e1]. cbn [fst snd] in *. subst e1. rewrite <- A2 in Hgr.
    destruct (pz_append_inv blo bgr _ gr false A1 Hgr) as (B1 & B2 & _).
    destruct (pz_append s1 gr false) as [s2 e2]. cbn [fst] in *. split; [exact B1|congruence].
Qed.

Lemma parzen_run_inv blo bgr ops : forall s, pz_inv blo bgr s -> Forall (pop_ok (p_dim s)) ops ->
  pz_inv blo bgr (run pz_step s ops) /\ p_dim (run pz_step s ops) = p_dim s.
Proof.
  induction ops as [|o ops IH]; intros s Hi Ho; [split; [exact Hi|reflexivity]|].
  inversion Ho as [|? ? Ho1 Ho2]; subst. destruct (pz_step_inv blo bgr s o Hi Ho1) as [Hi' Hd'].
  change (run pz_step s (o :: ops)) with (run pz_step (fst (pz_step s o)) ops).
  rewrite <- Hd' in Ho2. destruct (IH _ Hi' Ho2) as [I1 I2]. split; [exact I1|congruence].
Qed.

(* what the current lies are after each kind of operation *)
Lemma parzen_lies_semantics blo bgr s : pz_inv blo bgr s ->
  (forall lies lower, dims_ok (p_dim s) lies ->
     let s' := fst (pz_step s (PAppend lies lower)) in
     p_lower_lies s' = (if lower then p_lower_lies s ++ lies else p_lower_lies s) /\
     p_greater_lies s' = (if lower then p_greater_lies s else p_greater_lies s ++ lies)) /\
  (p_lower_lies (fst (pz_step s PClear)) = [] /\ p_greater_lies (fst (pz_step s PClear)) = []) /\
  (pz_step s PStash = (s, OStash (p_lower_lies s) (p_greater_lies s))) /\
  (forall lo gr, dims_ok (p_dim s) lo -> dims_ok (p_dim s) gr ->
     let s' := fst (pz_step s (PRecover lo gr)) in
     p_lower_lies s' = lo /\ p_greater_lies s' = gr /\ p_lower s' = blo ++ lo /\ p_greater s' = bgr ++ gr).
Proof.
  intros Hi. split; [|split; [|split; [reflexivity|]]].
  - intros lies lower Hd. cbn [pz_step]. rewrite (pz_append_spec s lies lower Hd). cbn. split; reflexivity.
  - cbn. split; reflexivity.
  - intros lo gr Hlo Hgr. cbn [pz_step]. unfold pz_recover.
    destruct (pz_clear_inv blo bgr s Hi) as (C1 & C2 & C3 & C4 & C5 & C6).
    rewrite <- C2 in Hlo, Hgr. rewrite (pz_append_spec _ lo true Hlo).
    set (s1 := mkPz _ _ _ _ _). assert (p_dim s1 = p_dim (pz_clear s)) as Hd1 by reflexivity. rewrite <- Hd1 in Hgr.
    rewrite (pz_append_spec s1 gr false Hgr). subst s1. cbn [fst p_lower p_greater p_lower_lies p_greater_lies].
    rewrite C3, C4, C5, C6. repeat split.
Qed.

Theorem parzen_lie_invariant ops s0 : p_lower_lies s0 = [] -> p_greater_lies s0 = [] -> Forall (pop_ok (p_dim s0)) ops ->
  let s := run pz_step s0 ops in
  p_lower s = p_lower s0 ++ p_lower_lies s /\ p_greater s = p_greater s0 ++ p_greater_lies s.
Proof.
  intros E1 E2 Ho. assert (Hi : pz_inv (p_lower s0) (p_greater s0) s0).
  { unfold pz_inv. rewrite E1, E2, !app_nil_r. repeat split; constructor. }
  destruct (parzen_run_inv _ _ ops s0 Hi Ho) as [(H1 & H2 & _) _]. split; assumption.
Qed.

(* stash at any consistent state, do anything valid, recover: lies and point sets are those of the stash moment *)
Theorem recover_restores blo bgr s ops : pz_inv blo bgr s -> Forall (pop_ok (p_dim s)) ops ->
  let s' := fst (pz_step (run pz_step s ops) (PRecover (p_lower_lies s) (p_greater_lies s))) in
  p_lower_lies s' = p_lower_lies s /\ p_greater_lies s' = p_greater_lies s /\ p_lower s' = p_lower s /\ p_greater s' = p_greater s.
Proof.
  intros Hi Ho. destruct (parzen_run_inv _ _ ops s Hi Ho) as [Hi' Hd'].
  destruct (parzen_lies_semantics blo bgr _ Hi') as (_ & _ & _ & Hr).
  destruct Hi as (H1 & H2 & H3 & H4). rewrite <- Hd' in H3, H4.
  destruct (Hr _ _ H3 H4) as (R1 & R2 & R3 & R4). cbn zeta. rewrite R1, R2, R3, R4, H1, H2. repeat split.
Qed.

(* ------------------------------------------------------------------------------------------------ (iv) constant liar *)
Section CLProofs.
  Context {St : Type}.
  Variable append1 : St -> point -> St.
  Variable pick : St -> point.
  Lemma cl_loop_spec n : forall s,
    length (fst (cl_loop append1 pick n s)) = n /\ length (snd (cl_loop append1 pick n s)) = n /\
    forall i, (i < n)%nat ->
      let si := fold_left append1 (firstn i (fst (cl_loop append1 pick n s))) s in
      nth_error (snd (cl_loop append1 pick n s)) i = Some si /\ nth_error (fst (cl_loop append1 pick n s)) i = Some (pick si).
  Proof.
    induction n as [|n IH]; intros s; cbn [cl_loop].
    - cbn. repeat split; intros; lia.
    - destruct (IH (append1 s (pick s))) as (L1 & L2 & Hn).
      destruct (cl_loop append1 pick n (append1 s (pick s))) as [ps ss]. cbn [fst snd length] in *.
      split; [lia|]. split; [lia|]. intros [|i] Hi; cbn [firstn fold_left nth_error].
      + split; reflexivity.
      + apply Hn. lia.
  Qed.
End CLProofs.

Lemma In_firstn {A} (x : A) : forall n l, In x (firstn n l) -> In x l.
Proof. induction n as [|n IH]; intros [|y l] H; cbn in *; try contradiction. destruct H as [H|H]; [left; exact H|right; apply IH; exact H]. Qed.
Lemma fold_gp_append1 l : forall g, fold_left gp_append1 l g = run gp_step g (map (fun p => GAppend [p] LieMin) l).
Proof.
  induction l as [|p l IH]; intros g; [reflexivity|]. cbn [fold_left map].
  change (run gp_step g (GAppend [p] LieMin :: map (fun p => GAppend [p] LieMin) l))
    with (run gp_step (fst (gp_step g (GAppend [p] LieMin))) (map (fun p => GAppend [p] LieMin) l)).
  rewrite gp_step_append_fst. apply IH.
Qed.
Lemma appended_singletons l : appended (map (fun p => GAppend [p] LieMin) l) = l.
Proof. induction l as [|p l IH]; [reflexivity|]. cbn [map appended flat_map app]. fold (appended (map (fun p => GAppend [p] LieMin) l)). rewrite IH. reflexivity. Qed.

(* pick i is optimised against a model whose data are the caller's data followed by lies at picks 0..i-1, each carrying
   the worst (maximum) observed value and the lie noise *)
Theorem constant_liar_gp (pick : gp -> point) n g0 w : gp_wf g0 -> lie_value LieMin (h_vals (g_hist g0)) = Some w ->
  (forall g, length (pick g) = h_dim (g_hist g0)) ->
  let picks := fst (cl_loop gp_append1 pick n g0) in let seen := snd (cl_loop gp_append1 pick n g0) in
  length picks = n /\
  forall i, (i < n)%nat -> exists gi, nth_error seen i = Some gi /\ nth_error picks i = Some (pick gi) /\
    h_pts (g_hist gi) = h_pts (g_hist g0) ++ firstn i picks /\
    h_vals (g_hist gi) = h_vals (g_hist g0) ++ repeat w i /\
    h_noise (g_hist gi) = h_noise (g_hist g0) ++ repeat lie_noise i.
Proof.
  intros Hw Hv Hp. cbn zeta. destruct (cl_loop_spec gp_append1 pick n g0) as (L1 & L2 & Hn). split; [exact L1|].
  intros i Hi. destruct (Hn i Hi) as [H1 H2]. cbn zeta in H1, H2. eexists. split; [exact H1|]. split; [exact H2|].
  rewrite fold_gp_append1.
  set (l := firstn i (fst (cl_loop gp_append1 pick n g0))).
  assert (Hlen : length l = i) by (subst l; rewrite firstn_length, L1; lia).
  assert (Hok : Forall (gop_ok (h_dim (g_hist g0))) (map (fun p => GAppend [p] LieMin) l)).
  { apply Forall_forall. intros o Hin. apply in_map_iff in Hin. destruct Hin as (p & <- & Hin). cbn. constructor; [|constructor].
    subst l. apply In_firstn in Hin. destruct (In_nth_error _ _ Hin) as [j Hj].
    assert (Hjn : (j < n)%nat) by (rewrite <- L1; apply nth_error_Some; congruence).
    destruct (Hn j Hjn) as [_ Hpj]. cbn zeta in Hpj. rewrite Hj in Hpj. injection Hpj as ->. apply Hp. }
  assert (Hm : Forall only_liemin (map (fun p => GAppend [p] LieMin) l)).
  { apply Forall_forall. intros o Hin. apply in_map_iff in Hin. destruct Hin as (p & <- & _). exact I. }
  destruct (gp_liemin_closed_form _ g0 w Hw Hok Hm Hv) as (C1 & C2 & C3). cbn zeta in C1, C2, C3.
  rewrite appended_singletons, Hlen in *. repeat split; assumption.
Qed.

(* ------------------------------------------------------------------------------------------------ (v) search *)
Section SearchProofs.
  Variable to_cube : point -> point.
  Variable pick : search_af -> point.
  Lemma search_iter_spec n : forall draws a, (n <= length draws)%nat ->
    let r := search_iter to_cube pick draws n a in
    length (fst (fst r)) = n /\ length (snd (fst r)) = n /\
    forall i, (i < n)%nat -> exists ai, nth_error (snd (fst r)) i = Some ai /\ nth_error (fst (fst r)) i = Some (pick ai) /\
      repulsors ai = repulsors a ++ map to_cube (firstn i (fst (fst r))) /\ dist_par ai = nth i (dist_par a :: draws) 0.
  Proof.
    induction n as [|n IH]; intros draws a Hl; cbn zeta; cbn [search_iter].
    - cbn. repeat split; intros; lia.
    - destruct draws as [|d draws]; [cbn in Hl; lia|]. cbn [tl]. cbn [length] in Hl.
      destruct (IH draws (mkSearch (repulsors a ++ [to_cube (pick a)]) d) ltac:(lia)) as (L1 & L2 & Hn). cbn zeta in *.
      destruct (search_iter to_cube pick draws n (mkSearch (repulsors a ++ [to_cube (pick a)]) d)) as [[ps ss] fin].
      cbn [fst snd length] in *. split; [lia|]. split; [lia|]. intros [|i] Hi.
      + exists a. cbn. rewrite app_nil_r. repeat split.
      + destruct (Hn i ltac:(lia)) as (ai & H1 & H2 & H3 & H4). exists ai. cbn [nth_error firstn map nth].
        split; [exact H1|]. split; [exact H2|]. split; [|exact H4].
        rewrite H3. cbn [repulsors]. rewrite <- app_assoc. reflexivity.
  Qed.
End SearchProofs.

Theorem search_picks_become_repulsors to_cube pick draws n a : (n <= length draws)%nat ->
  let '(picks, seen, final) := search_loop to_cube pick draws n a in
  length picks = n /\
  (forall i, (i < n)%nat -> exists ai, nth_error seen i = Some ai /\ nth_error picks i = Some (pick ai) /\
     repulsors ai = repulsors a ++ map to_cube (firstn i picks) /\ dist_par ai = nth i (dist_par a :: draws) 0) /\
  final = a.
Proof.
  intros Hl. unfold search_loop. destruct (search_iter_spec to_cube pick n draws a Hl) as (L1 & L2 & Hn). cbn zeta in *.
  destruct (search_iter to_cube pick draws n a) as [[ps ss] fin]. cbn [fst snd] in *.
  split; [exact L1|]. split; [exact Hn|]. destruct a; reflexivity.
Qed.

(* ------------------------------------------------------------------------------------------------ (vi) endpoints *)
(* "fed as lies": the model's data are the data it was built from followed by the pending points, all carrying the value v and the
   lie noise, and the ordinary (constant-liar) optimiser runs with an empty pending set *)
Definition fed_as_lies (h : hist) (pending : list point) (v : Q) (f : gp_feed) : Prop :=
  f_use_qei f = false /\ f_pending_set f = [] /\
  h_dim (f_hist f) = h_dim h /\
  h_pts (f_hist f) = h_pts h ++ pending /\
  h_vals (f_hist f) = h_vals h ++ repeat v (length pending) /\
  h_noise (f_hist f) = h_noise h ++ repeat lie_noise (length pending).
(* "fed as the pending set": parallel EI runs on the data as built, with exactly the pending points as its pending set *)
Definition fed_as_pending_set (h : hist) (pending : list point) (f : gp_feed) : Prop :=
  f_use_qei f = true /\ f_pending_set f = pending /\ f_hist f = h.
Definition pending_fed (h : hist) (pending : list point) (f : gp_feed) : Prop :=
  (exists v, fed_as_lies h pending v f) \/ fed_as_pending_set h pending f.

Lemma pending_fed_meaning h pending f :
  pending_fed h pending f <->
  ((exists v, f_use_qei f = false /\ f_pending_set f = [] /\ h_dim (f_hist f) = h_dim h /\
      h_pts (f_hist f) = h_pts h ++ pending /\
      h_vals (f_hist f) = h_vals h ++ repeat v (length pending) /\
      h_noise (f_hist f) = h_noise h ++ repeat lie_noise (length pending))
   \/ (f_use_qei f = true /\ f_pending_set f = pending /\ f_hist f = h)).
Proof. reflexivity. Qed.

Lemma feed_gp_constant_liar mt h pending lie : dims_ok (h_dim h) pending ->
  exists f, feed_gp ConstantLiar mt h pending lie = inl f /\ fed_as_lies h pending lie f.
Proof.
  intros Hd. unfold feed_gp.
  destruct (append_historical_data_ok h pending (repeat lie (length pending)) (repeat lie_noise (length pending)) Hd)
    as (h' & -> & Hdim & Hnil & Hcons).
  eexists. split; [reflexivity|]. unfold fed_as_lies. cbn [f_hist f_use_qei f_pending_set].
  split; [reflexivity|]. split; [reflexivity|]. split; [exact Hdim|]. destruct pending as [|p r].
  - rewrite (Hnil eq_refl). cbn. rewrite !app_nil_r. repeat split.
  - apply Hcons. discriminate.
Qed.

Lemma feed_gp_qei_single h pending lie : pending <> [] -> feed_gp QEI false h pending lie = inl (mkFeed h pending true).
Proof. intros Hne. unfold feed_gp. destruct pending; [congruence|reflexivity]. Qed.

(* the repaired branch: qEI requested on a multitask request - the pending points are appended by append_lie_data, so they carry
   the worst value of the model's OWN data (not the lie value the view computed) *)
Lemma feed_gp_qei_multitask h pending lie : hist_wf h -> dims_ok (h_dim h) pending -> pending <> [] ->
  exists v f, worst LieMin (h_vals h) v /\ feed_gp QEI true h pending lie = inl f /\ fed_as_lies h pending v f.
Proof.
  intros Hwf Hd Hne. unfold feed_gp.
  destruct (gp_append_spec (mkGp h None) pending LieMin Hwf Hd) as (v & Hw & Herr & _ & Hdim & Hp & Hv & Hn).
  cbn [g_hist] in *. exists v.
  destruct pending as [|p r]; [congruence|]. cbn [length Nat.eqb negb andb].
  destruct (gp_append (mkGp h None) (p :: r) LieMin) as [g e]. cbn [fst snd] in *. subst e.
  eexists. split; [exact Hw|]. split; [reflexivity|].
  unfold fed_as_lies. cbn [f_hist f_use_qei f_pending_set]. repeat split; assumption.
Qed.

Lemma feed_gp_qei_nothing_pending mt h lie : feed_gp QEI mt h [] lie = inl (mkFeed h [] false).
Proof. reflexivity. Qed.

Lemma feed_gp_feeds par mt h pending lie : hist_wf h -> dims_ok (h_dim h) pending ->
  exists f, feed_gp par mt h pending lie = inl f /\ pending_fed h pending f.
Proof.
  intros Hwf Hd. destruct par.
  - destruct (feed_gp_constant_liar mt h pending lie Hd) as (f & Hf & Hl). exists f. split; [exact Hf|]. left. exists lie. exact Hl.
  - destruct pending as [|p r].
    + eexists. split; [apply feed_gp_qei_nothing_pending|]. left. exists lie. unfold fed_as_lies. cbn. rewrite !app_nil_r. repeat split.
    + destruct mt.
      * destruct (feed_gp_qei_multitask h (p :: r) lie Hwf Hd) as (v & f & _ & Hf & Hl); [discriminate|].
        exists f. split; [exact Hf|]. left. exists v. exact Hl.
      * eexists. split; [apply feed_gp_qei_single; discriminate|]. right. unfold fed_as_pending_set. cbn. repeat split.
Qed.

Theorem pending_points_fed :
  (* the GP endpoint, every combination of parallelism and multitask: lies in the data, or the pending set of parallel EI *)
  (forall par mt h pending lie, hist_wf h -> dims_ok (h_dim h) pending ->
     exists f, feed_gp par mt h pending lie = inl f /\ pending_fed h pending f) /\
  (* ... which of the two, and which lie value *)
  (forall mt h pending lie, dims_ok (h_dim h) pending ->
     exists f, feed_gp ConstantLiar mt h pending lie = inl f /\ fed_as_lies h pending lie f) /\
  (forall h pending lie, pending <> [] ->
     exists f, feed_gp QEI false h pending lie = inl f /\ fed_as_pending_set h pending f) /\
  (forall h pending lie, hist_wf h -> dims_ok (h_dim h) pending -> pending <> [] ->
     exists v f, worst LieMin (h_vals h) v /\ feed_gp QEI true h pending lie = inl f /\ fed_as_lies h pending v f) /\
  (* the Parzen endpoint and the search endpoint *)
  (forall s pending, dims_ok (p_dim s) pending ->
     let s' := fst (feed_parzen s pending) in
     snd (feed_parzen s pending) = None /\ p_greater s' = p_greater s ++ pending /\
     p_greater_lies s' = p_greater_lies s ++ pending /\ p_lower s' = p_lower s /\ p_lower_lies s' = p_lower_lies s) /\
  (forall to_cube sampled pending d,
     repulsors (feed_search to_cube sampled pending d) = map to_cube sampled ++ map to_cube pending).
Proof.
  split; [|split; [|split; [|split; [|split]]]].
  - exact feed_gp_feeds.
  - exact feed_gp_constant_liar.
  - intros h pending lie Hne. eexists. split; [apply feed_gp_qei_single; exact Hne|]. unfold fed_as_pending_set. cbn. repeat split.
  - exact feed_gp_qei_multitask.
  - intros s pending Hd. unfold feed_parzen. rewrite (pz_append_spec s pending false Hd). cbn. repeat split.
  - intros. unfold feed_search. cbn. apply map_app.
Qed.

(* the GPs under the failure model: lies (with the view's lie value) under constant liar, untouched under qEI *)
Lemma failure_gp_feed :
  (forall h pending lie, dims_ok (h_dim h) pending ->
     exists h', feed_failure_gp ConstantLiar h pending lie = inl h' /\ h_dim h' = h_dim h /\
       h_pts h' = h_pts h ++ pending /\ h_vals h' = h_vals h ++ repeat lie (length pending) /\
       h_noise h' = h_noise h ++ repeat lie_noise (length pending)) /\
  (forall h pending lie, feed_failure_gp QEI h pending lie = inl h).
Proof.
  split; [|reflexivity]. intros h pending lie Hd. unfold feed_failure_gp.
  destruct (append_historical_data_ok h pending (repeat lie (length pending)) (repeat lie_noise (length pending)) Hd)
    as (h' & -> & Hdim & Hnil & Hcons).
  exists h'. split; [reflexivity|]. split; [exact Hdim|]. destruct pending as [|p r].
  - rewrite (Hnil eq_refl). cbn. rewrite !app_nil_r. repeat split.
  - apply Hcons. discriminate.
Qed.


(* ------------------------------------------------------------------------------------------------ (vii) Parzen constant liar on a live estimator *)
Lemma pz_eta s : mkPz (p_dim s) (p_lower s) (p_greater s) (p_lower_lies s) (p_greater_lies s) = s.
Proof. destruct s; reflexivity. Qed.

Lemma fold_pz_append1 l : forall s, dims_ok (p_dim s) l ->
  fold_left pz_append1 l s = mkPz (p_dim s) (p_lower s) (p_greater s ++ l) (p_lower_lies s) (p_greater_lies s ++ l).
Proof.
  induction l as [|p l IH]; intros s Hd; cbn [fold_left].
  - rewrite !app_nil_r. symmetry. apply pz_eta.
  - inversion Hd as [|? ? Hp Hl]; subst.
    assert (H1 : dims_ok (p_dim s) [p]) by (constructor; [exact Hp|constructor]).
    unfold pz_append1 at 2. rewrite (pz_append_spec s [p] false H1). cbn [fst].
    rewrite IH by exact Hl. cbn [p_dim p_lower p_greater p_lower_lies p_greater_lies]. rewrite <- !app_assoc. reflexivity.
Qed.

Lemma dims_ok_firstn d i l : dims_ok d l -> dims_ok d (firstn i l).
Proof. unfold dims_ok. intro H. apply Forall_forall. intros x Hx. rewrite Forall_forall in H. apply H. eapply In_firstn. exact Hx. Qed.

(* Every optimisation of the batch runs against the estimator as the caller handed it over (base points and the lies it
   already held - the pending points - untouched) plus lies at the previous picks of this batch; afterwards the caller has
   its estimator back exactly as it was: the batch's lies are gone, the lies held before are still there. *)
Theorem parzen_constant_liar blo bgr (pick : pz -> point) n s :
  pz_inv blo bgr s -> (forall t, length (pick t) = p_dim s) ->
  let '(picks, seen, final) := pz_constant_liar pick n s in
  length picks = n /\
  (forall i, (i < n)%nat -> exists si, nth_error seen i = Some si /\ nth_error picks i = Some (pick si) /\
     p_dim si = p_dim s /\ p_lower si = p_lower s /\ p_lower_lies si = p_lower_lies s /\
     p_greater si = p_greater s ++ firstn i picks /\ p_greater_lies si = p_greater_lies s ++ firstn i picks) /\
  final = s.
Proof.
  intros Hi Hp. unfold pz_constant_liar.
  destruct (cl_loop_spec pz_append1 pick n s) as (L1 & L2 & Hn).
  destruct (cl_loop pz_append1 pick n s) as [ps ss] eqn:E. cbn [fst snd] in *.
  assert (Hps : dims_ok (p_dim s) ps).
  { apply Forall_forall. intros x Hx. destruct (In_nth_error _ _ Hx) as [i Hi']. 
    assert (Hlt : (i < n)%nat) by (rewrite <- L1; apply nth_error_Some; congruence).
    destruct (Hn i Hlt) as [_ Hpk]. rewrite Hpk in Hi'. injection Hi' as <-. apply Hp. }
  split; [exact L1|]. split.
  - intros i Hlt. destruct (Hn i Hlt) as [Hs Hpk]. cbv zeta in Hs, Hpk.
    rewrite (fold_pz_append1 (firstn i ps) s (dims_ok_firstn _ i _ Hps)) in Hs, Hpk.
    eexists. split; [exact Hs|]. split; [exact Hpk|]. cbn. repeat split.
  - rewrite (fold_pz_append1 ps s Hps).
    set (s' := mkPz _ _ _ _ _).
    assert (Hi' : pz_inv blo bgr s').
    { destruct Hi as (H1 & H2 & H3 & H4). unfold pz_inv, s'. cbn [p_lower p_greater p_lower_lies p_greater_lies p_dim].
      repeat split; try assumption; [rewrite H2, app_assoc; reflexivity|apply Forall_app; split; assumption]. }
    destruct (parzen_lies_semantics blo bgr s' Hi') as (_ & _ & _ & Hr).
    destruct Hi as (H1 & H2 & H3 & H4).
    assert (D : p_dim s' = p_dim s) by reflexivity.
    specialize (Hr (p_lower_lies s) (p_greater_lies s)). rewrite D in Hr. specialize (Hr H3 H4).
    cbv zeta in Hr. cbn [pz_step] in Hr.
    assert (Dd : p_dim (fst (pz_recover s' (p_lower_lies s) (p_greater_lies s))) = p_dim s).
    { assert (Ho : pop_ok (p_dim s') (PRecover (p_lower_lies s) (p_greater_lies s))) by (split; [exact H3|exact H4]).
      destruct (pz_step_inv blo bgr s' _ Hi' Ho) as [_ Hd']. cbn [pz_step] in Hd'.
      destruct (pz_recover s' (p_lower_lies s) (p_greater_lies s)). cbn [fst] in *. congruence. }
    destruct (pz_recover s' (p_lower_lies s) (p_greater_lies s)) as [sf ef]. cbn [fst] in *.
    destruct Hr as (R1 & R2 & R3 & R4). rewrite <- (pz_eta sf), <- (pz_eta s). rewrite Dd, R1, R2, R3, R4, <- H1, <- H2. reflexivity.
Qed.

(* The Parzen endpoint: the optimiser that finds max_location runs against the formed estimator plus the request's pending
   points as lies of the greater set, and so does every expected-improvement evaluation after it (max_value, the rejection
   sampler): the pending points are still among the lies when the constant liar has returned. *)
Theorem spe_sampling_keeps_pending blo bgr (pick : pz -> point) s pending :
  pz_inv blo bgr s -> dims_ok (p_dim s) pending -> (forall t, length (pick t) = p_dim s) ->
  exists seen, spe_sampling pick s pending = inl (pick seen, seen, seen) /\ seen = fst (feed_parzen s pending) /\
    p_greater seen = p_greater s ++ pending /\ p_greater_lies seen = p_greater_lies s ++ pending /\
    p_lower seen = p_lower s /\ p_lower_lies seen = p_lower_lies s.
Proof.
  intros Hi Hd Hp. unfold spe_sampling, feed_parzen.
  destruct (pz_append_inv blo bgr s pending false Hi Hd) as (I1 & D1 & E1).
  pose proof (pz_append_spec s pending false Hd) as Sp.
  destruct (pz_append s pending false) as [s1 e1] eqn:E. cbn [fst snd] in *. subst e1.
  assert (Hp1 : forall t, length (pick t) = p_dim s1) by (intro t; rewrite D1; apply Hp).
  pose proof (parzen_constant_liar blo bgr pick 1 s1 I1 Hp1) as T.
  destruct (pz_constant_liar pick 1 s1) as [[ps ss] s2]. destruct T as (L & Hn & ->).
  destruct (Hn 0%nat (le_n 1)) as (s0 & Hs0 & Hp0 & _ & A1 & A2 & A3 & A4).
  destruct ss as [|x ss]; [discriminate|]. destruct ps as [|y ps]; [discriminate|]. cbn in Hs0, Hp0.
  injection Hs0 as ->. injection Hp0 as ->. cbn [hd].
  assert (Es : s0 = s1).
  { rewrite <- (pz_eta s0), <- (pz_eta s1). cbn [firstn] in A3, A4. rewrite app_nil_r in A3, A4.
    destruct (Hn 0%nat (le_n 1)) as (s0' & Hs0' & _ & Dd & _). cbn in Hs0'. injection Hs0' as <-. rewrite Dd, A1, A2, A3, A4. reflexivity. }
  subst s0. exists s1. split; [reflexivity|]. split; [reflexivity|].
  injection Sp as Sp. rewrite Sp. cbn. repeat split.
Qed.
